(* C01/ProofsUses.v -- the use-list half of WF.

   The five use clauses of WF are equivalent to an invariant `Uabs s S` that reads only the use
   table and the first_use pointers, relative to an abstract slot relation S
   (S h o i u : "use u is slot i of op o and the item in that slot is holder h"), instantiated
   with `real_slot s` (the slots of the live ops of s).  add_use / remove_use are proved once
   against Uabs (pure pointer reasoning); the mutators then only have to say how they change
   the slot relation. *)
From Coq Require Import ZArith List Bool PArith FMapPositive Lia.
From XV Require Import C01.Model C01.Spec C01.ProofsBase C01.ProofsFrame.
Import ListNotations.
Local Open Scope Z_scope.

(* ------------------------------------------------------------------ znth *)

Lemma znth_of_nat : forall {A} (l : list A) n, znth l (Z.of_nat n) = nth_error l n.
Proof.
  intros A l n. unfold znth. destruct (Z.ltb_spec (Z.of_nat n) 0); [lia|]. rewrite Nat2Z.id. reflexivity.
Qed.
Lemma znth_some : forall {A} (l : list A) i x, znth l i = Some x ->
  exists n, i = Z.of_nat n /\ nth_error l n = Some x.
Proof.
  intros A l i x H. unfold znth in H. destruct (Z.ltb_spec i 0); [discriminate|].
  exists (Z.to_nat i). split; [lia|exact H].
Qed.
Lemma znth_In : forall {A} (l : list A) i x, znth l i = Some x -> In x l.
Proof. intros A l i x H. destruct (znth_some _ _ _ H) as (n & _ & E). eapply nth_error_In; eauto. Qed.
Lemma znth_lt : forall {A} (l : list A) i x, znth l i = Some x -> 0 <= i < zlen l.
Proof.
  intros A l i x H. destruct (znth_some _ _ _ H) as (n & -> & E).
  assert (n < length l)%nat by (apply nth_error_Some; congruence). unfold zlen. lia.
Qed.

(* ------------------------------------------------------------------ holders and slots *)

Definition hfirst (s : state) (h : holder) : option (option uid) :=
  match h with
  | HV v => link (s_values s) v_first_use v
  | HB b => link (s_blocks s) b_first_use b
  end.
Definition hid (h : holder) : positive := match h with HV v => v | HB b => b end.
Definition hitems (h : holder) (x : op_rec) : list positive :=
  match h with HV _ => o_operands x | HB _ => o_successors x end.
Definition huses (h : holder) (x : op_rec) : list uid :=
  match h with HV _ => o_operand_uses x | HB _ => o_successor_uses x end.

Lemma holder_eq_dec : forall a b : holder, {a = b} + {a <> b}.
Proof. decide equality; apply Pos.eq_dec. Qed.

Definition slotrel := holder -> oid -> Z -> uid -> Prop.

Definition real_slot (s : state) : slotrel := fun h o i u =>
  exists x, PM.find o (s_ops s) = Some x /\ o_erased x = false /\
            znth (hitems h x) i = Some (hid h) /\ znth (huses h x) i = Some u.

Definition use_info (s : state) (u : uid) : option (oid * Z) :=
  option_map (fun r => (u_op r, u_idx r)) (PM.find u (s_uses s)).

Record Uabs (s : state) (S : slotrel) : Prop := {
  ua_chain : forall h fu, hfirst s h = Some fu ->
     exists l, chain (use_next s) fu l /\ NoDup l /\ prevs_ok s None l /\
               (forall u, In u l -> exists o i, S h o i u);
  ua_slot : forall h o i u, S h o i u ->
     use_info s u = Some (o, i) /\
     exists fu l, hfirst s h = Some fu /\ chain (use_next s) fu l /\ In u l;
  ua_one : forall h h' o o' i i' u, S h o i u -> S h' o' i' u -> h = h' }.

Definition lens_ok (s : state) : Prop :=
  forall o x, PM.find o (s_ops s) = Some x -> o_erased x = false ->
    length (o_operands x) = length (o_operand_uses x) /\
    length (o_successors x) = length (o_successor_uses x).

Definition UWF (s : state) : Prop :=
  WF_vuses s /\ WF_buses s /\ WF_operands s /\ WF_successors s /\ WF_disjoint s.

Lemma use_info_some : forall s u o i, use_info s u = Some (o, i) ->
  exists ur, PM.find u (s_uses s) = Some ur /\ u_op ur = o /\ u_idx ur = i.
Proof.
  intros s u o i H. unfold use_info in H. destruct (PM.find u (s_uses s)) as [ur|]; [|discriminate].
  simpl in H. inversion H. eauto.
Qed.

Lemma UWF_Uabs : forall s, UWF s -> Uabs s (real_slot s) /\ lens_ok s.
Proof.
  intros s (Wv & Wb & Wo & Ws & Wd). split.
  - constructor.
    + intros h fu Hf. destruct h as [v|b]; simpl in Hf; unfold link in Hf.
      * destruct (PM.find v (s_values s)) as [vr|] eqn:F; [|discriminate]. simpl in Hf. inversion Hf; subst.
        destruct (Wv v vr F) as (l & C & ND & P & M). exists l. repeat split; try assumption.
        intros u Iu. destruct (M u Iu) as (ur & x & Fu & Fx & E & Z1 & Z2).
        exists (u_op ur), (u_idx ur). exists x. repeat split; assumption.
      * destruct (PM.find b (s_blocks s)) as [br|] eqn:F; [|discriminate]. simpl in Hf. inversion Hf; subst.
        destruct (Wb b br F) as (l & C & ND & P & M). exists l. repeat split; try assumption.
        intros u Iu. destruct (M u Iu) as (ur & x & Fu & Fx & E & Z1 & Z2).
        exists (u_op ur), (u_idx ur). exists x. repeat split; assumption.
    + intros h o i u (x & Fx & E & Z1 & Z2).
      destruct (znth_some _ _ _ Z1) as (n & -> & N1). destruct (znth_some _ _ _ Z2) as (n' & En & N2).
      apply Nat2Z.inj in En. subst n'.
      destruct h as [v|b]; simpl in *.
      * destruct (Wo o x Fx E) as [L R]. destruct (R n v u N1 N2) as [(ur & Fu & U1 & U2) (fu & l & Hf & C & Iu)].
        split; [unfold use_info; rewrite Fu; simpl; congruence|]. exists fu, l. auto.
      * destruct (Ws o x Fx E) as [L R]. destruct (R n b u N1 N2) as [(ur & Fu & U1 & U2) (fu & l & Hf & C & Iu)].
        split; [unfold use_info; rewrite Fu; simpl; congruence|]. exists fu, l. auto.
    + intros h h' o o' i i' u (x & Fx & E & Z1 & Z2) (x' & Fx' & E' & Z1' & Z2').
      assert (I1 : use_info s u = Some (o, i)).
      { destruct (znth_some _ _ _ Z1) as (n & -> & N1). destruct (znth_some _ _ _ Z2) as (n' & En & N2).
        apply Nat2Z.inj in En. subst n'. destruct h; simpl in *.
        - destruct (Wo o x Fx E) as [L R]. destruct (R n _ u N1 N2) as [(ur & Fu & U1 & U2) _].
          unfold use_info. rewrite Fu. simpl. congruence.
        - destruct (Ws o x Fx E) as [L R]. destruct (R n _ u N1 N2) as [(ur & Fu & U1 & U2) _].
          unfold use_info. rewrite Fu. simpl. congruence. }
      assert (I2 : use_info s u = Some (o', i')).
      { destruct (znth_some _ _ _ Z1') as (n & -> & N1). destruct (znth_some _ _ _ Z2') as (n' & En & N2).
        apply Nat2Z.inj in En. subst n'. destruct h'; simpl in *.
        - destruct (Wo o' x' Fx' E') as [L R]. destruct (R n _ u N1 N2) as [(ur & Fu & U1 & U2) _].
          unfold use_info. rewrite Fu. simpl. congruence.
        - destruct (Ws o' x' Fx' E') as [L R]. destruct (R n _ u N1 N2) as [(ur & Fu & U1 & U2) _].
          unfold use_info. rewrite Fu. simpl. congruence. }
      rewrite I1 in I2. inversion I2; subst o' i'. rewrite Fx in Fx'. inversion Fx'; subst x'.
      destruct h as [v|b], h' as [v'|b']; simpl in *.
      * congruence.
      * exfalso. eapply Wd; eauto; eapply znth_In; eauto.
      * exfalso. eapply Wd; eauto; eapply znth_In; eauto.
      * congruence.
  - intros o x F E. split; [apply (Wo o x F E)|apply (Ws o x F E)].
Qed.

Lemma Uabs_UWF : forall s, Uabs s (real_slot s) -> lens_ok s -> UWF s.
Proof.
  intros s [UC US U1] L.
  assert (member : forall h fu l u, hfirst s h = Some fu -> chain (use_next s) fu l ->
            (forall u, In u l -> exists o i, real_slot s h o i u) -> In u l ->
            exists ur x, PM.find u (s_uses s) = Some ur /\ PM.find (u_op ur) (s_ops s) = Some x /\
              o_erased x = false /\ znth (hitems h x) (u_idx ur) = Some (hid h) /\
              znth (huses h x) (u_idx ur) = Some u).
  { intros h fu l u Hf C M Iu. destruct (M u Iu) as (o & i & R). pose proof R as (x & Fx & E & Z1 & Z2).
    destruct (US _ _ _ _ R) as [Inf _]. destruct (use_info_some _ _ _ _ Inf) as (ur & Fu & Q1 & Q2).
    exists ur, x. subst o i. repeat split; assumption. }
  assert (slots : forall h o x, PM.find o (s_ops s) = Some x -> o_erased x = false ->
            length (hitems h x) = length (huses h x) ->
            forall i item u, hid h = item -> nth_error (hitems h x) i = Some item -> nth_error (huses h x) i = Some u ->
            (exists ur, PM.find u (s_uses s) = Some ur /\ u_op ur = o /\ u_idx ur = Z.of_nat i) /\
            (exists fu l, hfirst s h = Some fu /\ chain (use_next s) fu l /\ In u l)).
  { intros h o x Fx E Len i item u Hid N1 N2.
    assert (R : real_slot s h o (Z.of_nat i) u).
    { exists x. repeat split; try assumption; rewrite znth_of_nat; congruence. }
    destruct (US _ _ _ _ R) as [Inf Mem]. destruct (use_info_some _ _ _ _ Inf) as (ur & Fu & Q1 & Q2).
    split; [exists ur; auto|exact Mem]. }
  split; [|split; [|split; [|split]]].
  - intros v vr F. destruct (UC (HV v) (v_first_use vr)) as (l & C & ND & P & M).
    { simpl. unfold link. rewrite F. reflexivity. }
    exists l. split; [exact C|]. split; [exact ND|]. split; [exact P|]. intros u Iu.
    eapply (member (HV v)); eauto. simpl. unfold link. rewrite F. reflexivity.
  - intros b br F. destruct (UC (HB b) (b_first_use br)) as (l & C & ND & P & M).
    { simpl. unfold link. rewrite F. reflexivity. }
    exists l. split; [exact C|]. split; [exact ND|]. split; [exact P|]. intros u Iu.
    eapply (member (HB b)); eauto. simpl. unfold link. rewrite F. reflexivity.
  - intros o x F E. split; [apply (L o x F E)|].
    intros i item u N1 N2. apply (slots (HV item) o x F E (proj1 (L o x F E)) i item u eq_refl N1 N2).
  - intros o x F E. split; [apply (L o x F E)|].
    intros i item u N1 N2. apply (slots (HB item) o x F E (proj2 (L o x F E)) i item u eq_refl N1 N2).
  - intros o x F E u I1 I2.
    destruct (In_nth_error _ _ I1) as (n1 & N1). destruct (In_nth_error _ _ I2) as (n2 & N2).
    destruct (L o x F E) as [L1 L2].
    assert (exists v, nth_error (o_operands x) n1 = Some v) as (v & V).
    { destruct (nth_error (o_operands x) n1) eqn:Q; [eauto|].
      apply nth_error_None in Q. assert (n1 < length (o_operand_uses x))%nat by (apply nth_error_Some; congruence). lia. }
    assert (exists b, nth_error (o_successors x) n2 = Some b) as (b & B).
    { destruct (nth_error (o_successors x) n2) eqn:Q; [eauto|].
      apply nth_error_None in Q. assert (n2 < length (o_successor_uses x))%nat by (apply nth_error_Some; congruence). lia. }
    assert (R1 : real_slot s (HV v) o (Z.of_nat n1) u) by (exists x; repeat split; try assumption; rewrite znth_of_nat; assumption).
    assert (R2 : real_slot s (HB b) o (Z.of_nat n2) u) by (exists x; repeat split; try assumption; rewrite znth_of_nat; assumption).
    pose proof (U1 _ _ _ _ _ _ _ R1 R2). discriminate.
Qed.

(* Uabs only reads the use table and the first_use pointers *)
Lemma Uabs_ext : forall s s' S S',
  (forall u, PM.find u (s_uses s') = PM.find u (s_uses s)) ->
  (forall h, hfirst s' h = hfirst s h) ->
  (forall h o i u, S' h o i u <-> S h o i u) ->
  Uabs s S -> Uabs s' S'.
Proof.
  intros s s' S S' EU EH ES [UC US U1].
  assert (EN : forall x, use_next s' x = use_next s x) by (intro x; unfold use_next, link; rewrite EU; reflexivity).
  assert (EP : forall l p, prevs_ok s p l -> prevs_ok s' p l).
  { induction l as [|u r IH]; intros p H; simpl in *; [exact I|]. destruct H as [(ur & F & Q) H2].
    split; [exists ur; rewrite EU; auto|apply IH; exact H2]. }
  constructor.
  - intros h fu Hf. rewrite EH in Hf. destruct (UC h fu Hf) as (l & C & ND & P & M).
    exists l. split; [eapply chain_ext; [|exact C]; intros; apply EN|]. split; [exact ND|]. split; [apply EP; exact P|].
    intros u Iu. destruct (M u Iu) as (o & i & Q). exists o, i. apply ES. exact Q.
  - intros h o i u Q. apply ES in Q. destruct (US _ _ _ _ Q) as [Inf (fu & l & Hf & C & Iu)]. split.
    + unfold use_info. rewrite EU. exact Inf.
    + exists fu, l. rewrite EH. split; [exact Hf|]. split; [eapply chain_ext; [|exact C]; intros; apply EN|exact Iu].
  - intros h h' o o' i i' u Q1 Q2. apply ES in Q1. apply ES in Q2. eapply U1; eauto.
Qed.

(* ------------------------------------------------------------------ list facts *)

Definition use_prev (s : state) := link (s_uses s) u_prev.

Fixpoint last_or (p : option uid) (l : list uid) : option uid :=
  match l with [] => p | x :: r => last_or (Some x) r end.

Fixpoint prevs_v (P : uid -> option (option uid)) (p : option uid) (l : list uid) : Prop :=
  match l with
  | [] => True
  | u :: r => P u = Some p /\ prevs_v P (Some u) r
  end.

Lemma prevs_ok_v : forall s l p, prevs_ok s p l <-> prevs_v (use_prev s) p l.
Proof.
  intros s l. induction l as [|u r IH]; intros p; simpl; [tauto|].
  rewrite IH. split.
  - intros [(ur & F & Q) H]. split; [|exact H]. unfold use_prev, link. rewrite F. simpl. f_equal. exact Q.
  - intros [Q H]. split; [|exact H]. unfold use_prev, link in Q.
    destruct (PM.find u (s_uses s)) as [ur|]; [|discriminate]. simpl in Q.
    exists ur. split; [reflexivity|]. inversion Q. reflexivity.
Qed.

Lemma prevs_v_app : forall P l1 l2 p, prevs_v P p (l1 ++ l2) <-> prevs_v P p l1 /\ prevs_v P (last_or p l1) l2.
Proof.
  intros P l1. induction l1 as [|x r IH]; intros l2 p; simpl; [tauto|].
  rewrite IH. tauto.
Qed.

Lemma prevs_v_ext : forall P P' l p, (forall x, In x l -> P' x = P x) -> prevs_v P p l -> prevs_v P' p l.
Proof.
  intros P P' l. induction l as [|u r IH]; intros p E H; simpl in *; [exact I|].
  destruct H as [H1 H2]. split; [rewrite E; auto|apply IH; auto].
Qed.

Lemma last_or_app : forall l p x, last_or p (l ++ [x]) = Some x.
Proof. induction l as [|y r IH]; intros p x; simpl; [reflexivity|apply IH]. Qed.

Lemma last_or_In : forall l p x, last_or p l = Some x -> p = Some x \/ In x l.
Proof.
  induction l as [|y r IH]; intros p x H; simpl in *; [left; exact H|].
  destruct (IH _ _ H) as [E|I]; [inversion E; right; left; reflexivity|right; right; exact I].
Qed.

Lemma chain_head : forall nxt st l, chain nxt st l -> st = hd_error l.
Proof. intros nxt st l H. destruct H; reflexivity. Qed.

Lemma chain_split : forall nxt st l1 u l2, chain nxt st (l1 ++ u :: l2) ->
  seg nxt st l1 (Some u) /\ exists nn, nxt u = Some nn /\ chain nxt nn l2.
Proof.
  intros nxt st l1 u l2 H. apply chain_seg in H. apply seg_split in H. destruct H as (b & S1 & S2).
  inversion S2; subst. split; [exact S1|]. exists n. split; [assumption|apply chain_seg; assumption].
Qed.

Lemma seg_chain_app : forall nxt st l1 b l2, seg nxt st l1 b -> chain nxt b l2 -> chain nxt st (l1 ++ l2).
Proof. intros nxt st l1 b l2 S C. apply chain_seg. eapply seg_app; [exact S|apply chain_seg; exact C]. Qed.

Lemma seg_snoc_inv : forall nxt st l p b, seg nxt st (l ++ [p]) b -> seg nxt st l (Some p) /\ nxt p = Some b.
Proof.
  intros nxt st l p b H. apply seg_split in H. destruct H as (c & S1 & S2).
  apply seg_cons_inv in S2. destruct S2 as [-> (n & Np & S3)]. inversion S3; subst. auto.
Qed.

Lemma list_snoc_cases : forall {A} (l : list A), l = [] \/ exists l' x, l = l' ++ [x].
Proof.
  intros A l. destruct (rev l) as [|x r] eqn:E.
  - left. apply (f_equal (@rev A)) in E. rewrite rev_involutive in E. exact E.
  - right. exists (rev r), x. apply (f_equal (@rev A)) in E. rewrite rev_involutive in E. simpl in E. exact E.
Qed.

Lemma match_snoc : forall {A B} (l : list A) x (a b : B),
  match l ++ [x] with [] => a | _ :: _ => b end = b.
Proof. intros A B l x a b. destruct l; reflexivity. Qed.

Lemma NoDup_app_inv : forall {A} (l1 l2 : list A), NoDup (l1 ++ l2) ->
  NoDup l1 /\ NoDup l2 /\ forall x, In x l1 -> In x l2 -> False.
Proof.
  intros A l1. induction l1 as [|a r IH]; intros l2 H; simpl in *.
  - split; [constructor|]. split; [exact H|]. intros x [].
  - inversion H; subst. destruct (IH _ H3) as (N1 & N2 & D). split.
    + constructor; [|exact N1]. intro I. apply H2. apply in_or_app. left. exact I.
    + split; [exact N2|]. intros x [E|I] I2.
      * subst. apply H2. apply in_or_app. right. exact I2.
      * eapply D; eauto.
Qed.

(* ------------------------------------------------------------------ remove_use, abstractly *)

Definition minus_use (S : slotrel) (u : uid) : slotrel := fun h o i u' => S h o i u' /\ u' <> u.

Lemma Uabs_remove : forall s s' S h o i u fu l1 l2,
  Uabs s S -> S h o i u ->
  hfirst s h = Some fu -> chain (use_next s) fu (l1 ++ u :: l2) ->
  (forall x, use_info s' x = use_info s x) ->
  (forall x, last_or None l1 <> Some x -> use_next s' x = use_next s x) ->
  (forall p, last_or None l1 = Some p -> use_next s' p = Some (hd_error l2)) ->
  (forall x, hd_error l2 <> Some x -> use_prev s' x = use_prev s x) ->
  (forall n, hd_error l2 = Some n -> use_prev s' n = Some (last_or None l1)) ->
  hfirst s' h = Some (match l1 with [] => hd_error l2 | _ => fu end) ->
  (forall h', h' <> h -> hfirst s' h' = hfirst s h') ->
  Uabs s' (minus_use S u).
Proof.
  intros s s' S h o i u fu l1 l2 [UC US U1] Su Hf C EI EN ENp EP EPn Hf' Hfo.
  destruct (UC h fu Hf) as (l & C0 & ND & P & M).
  assert (l = l1 ++ u :: l2) by (eapply chain_fun; eauto). subst l. clear C0.
  destruct (chain_split _ _ _ _ _ C) as (S1 & nn & Nu & C2).
  pose proof (chain_head _ _ _ C2) as Hnn. subst nn.
  destruct (NoDup_app_inv _ _ ND) as (ND1 & ND2u & D12).
  inversion ND2u as [|? ? Nu2 ND2]; subst.
  apply prevs_ok_v in P. apply prevs_v_app in P. destruct P as [P1 P2]. simpl in P2. destruct P2 as [Pu P2].
  (* the new chain of h *)
  assert (CH : chain (use_next s') (match l1 with [] => hd_error l2 | _ => fu end) (l1 ++ l2) /\
               prevs_v (use_prev s') None (l1 ++ l2)).
  { split.
    - destruct (list_snoc_cases l1) as [->|(l1' & p & ->)].
      + simpl. eapply chain_ext; [|exact C2]. intros x Ix. apply EN. simpl. discriminate.
      + assert (Lp : last_or None (l1' ++ [p]) = Some p) by apply last_or_app.
        destruct (seg_snoc_inv _ _ _ _ _ S1) as [S1' Np].
        destruct (NoDup_app_inv _ _ ND1) as (_ & _ & Dp).
        rewrite match_snoc.
        rewrite <- app_assoc. eapply seg_chain_app.
        * eapply seg_ext; [|exact S1']. intros x Ix. apply EN. rewrite Lp. intro E. inversion E; subst.
          eapply Dp; [exact Ix|left; reflexivity].
        * simpl. econstructor; [apply ENp; exact Lp|].
          eapply chain_ext; [|exact C2]. intros x Ix. apply EN. rewrite Lp. intro E. inversion E; subst.
          eapply D12; [apply in_or_app; right; left; reflexivity|right; exact Ix].
    - apply prevs_v_app. split.
      + eapply prevs_v_ext; [|exact P1]. intros x Ix. apply EP. intro E.
        eapply D12; [exact Ix|right]. destruct l2; simpl in E; [discriminate|]. inversion E. left. reflexivity.
      + destruct l2 as [|n l2']; simpl; [exact I|]. simpl in P2. destruct P2 as [Pn P2']. split.
        * apply EPn. reflexivity.
        * eapply prevs_v_ext; [|exact P2']. intros x Ix. apply EP. simpl. intro E. inversion E; subst.
          inversion ND2; subst. contradiction. }
  destruct CH as [CH PH].
  (* uses of other holders are untouched *)
  assert (OTH : forall h' fu' l', h' <> h -> hfirst s h' = Some fu' -> chain (use_next s) fu' l' ->
                 (forall x, In x l' -> exists o i, S h' o i x) ->
                 forall x, In x l' -> use_next s' x = use_next s x /\ use_prev s' x = use_prev s x).
  { intros h' fu' l' Nh Hf2 C' M' x Ix. destruct (M' x Ix) as (o' & i' & Sx).
    assert (NI : ~ In x (l1 ++ u :: l2)).
    { intro I2. destruct (M x I2) as (o2 & i2 & Sx2). apply Nh. eapply U1; eauto. }
    split.
    - apply EN. intro E. apply last_or_In in E. destruct E as [E|E]; [discriminate|].
      apply NI. apply in_or_app. left. exact E.
    - apply EP. intro E. apply NI. apply in_or_app. right. right.
      destruct l2; simpl in E; [discriminate|]. inversion E. left. reflexivity. }
  constructor.
  - intros h' fu' Hf2. destruct (holder_eq_dec h' h) as [->|Nh].
    + rewrite Hf' in Hf2. inversion Hf2; subst fu'. exists (l1 ++ l2).
      split; [exact CH|]. split.
      { apply NoDup_remove_1 in ND. exact ND. }
      split; [apply prevs_ok_v; exact PH|].
      intros x Ix. assert (I2 : In x (l1 ++ u :: l2)).
      { apply in_app_or in Ix. apply in_or_app. destruct Ix; [left|right; right]; assumption. }
      destruct (M x I2) as (o' & i' & Sx). exists o', i'. split; [exact Sx|].
      intro E. subst x. apply NoDup_remove_2 in ND. contradiction.
    + rewrite (Hfo h' Nh) in Hf2. destruct (UC h' fu' Hf2) as (l' & C' & ND' & P' & M').
      exists l'. split; [eapply chain_ext; [|exact C']; intros x Ix; eapply OTH; eauto|].
      split; [exact ND'|]. split.
      { apply prevs_ok_v. apply prevs_ok_v in P'. eapply prevs_v_ext; [|exact P'].
        intros x Ix. eapply OTH; eauto. }
      intros x Ix. destruct (M' x Ix) as (o' & i' & Sx). exists o', i'. split; [exact Sx|].
      intro E. subst x. apply Nh. eapply U1; eauto.
  - intros h' o' i' u' [Sx Nx]. destruct (US _ _ _ _ Sx) as [Inf (fu' & l' & Hf2 & C' & Iu')].
    split; [rewrite EI; exact Inf|].
    destruct (holder_eq_dec h' h) as [->|Nh].
    + rewrite Hf in Hf2. inversion Hf2; subst fu'.
      assert (l' = l1 ++ u :: l2) by (eapply chain_fun; eauto). subst l'.
      exists (match l1 with [] => hd_error l2 | _ => fu end), (l1 ++ l2).
      split; [exact Hf'|]. split; [exact CH|].
      apply in_app_or in Iu'. apply in_or_app. destruct Iu' as [I1|[E|I2]]; [left; exact I1|congruence|right; exact I2].
    + exists fu', l'. rewrite (Hfo h' Nh). split; [exact Hf2|]. split; [|exact Iu'].
      destruct (UC h' fu' Hf2) as (l'' & C'' & _ & _ & M'').
      assert (l'' = l') by (eapply chain_fun; eauto). subst l''.
      eapply chain_ext; [|exact C']. intros x Ix. eapply OTH; eauto.
  - intros h1 h2 o1 o2 i1 i2 x [Q1 _] [Q2 _]. eapply U1; eauto.
Qed.

(* ------------------------------------------------------------------ add_use, abstractly *)

Definition plus_use (S : slotrel) (h : holder) (o : oid) (i : Z) (u : uid) : slotrel :=
  fun h' o' i' u' => S h' o' i' u' \/ (h' = h /\ o' = o /\ i' = i /\ u' = u).

Lemma Uabs_add : forall s s' S h o i u fu l,
  Uabs s S -> (forall h' o' i', ~ S h' o' i' u) ->
  use_info s u = Some (o, i) ->
  hfirst s h = Some fu -> chain (use_next s) fu l ->
  (forall x, use_info s' x = use_info s x) ->
  (forall x, x <> u -> use_next s' x = use_next s x) ->
  use_next s' u = Some fu ->
  (forall x, x <> u -> hd_error l <> Some x -> use_prev s' x = use_prev s x) ->
  use_prev s' u = Some None ->
  (forall f, hd_error l = Some f -> use_prev s' f = Some (Some u)) ->
  hfirst s' h = Some (Some u) ->
  (forall h', h' <> h -> hfirst s' h' = hfirst s h') ->
  Uabs s' (plus_use S h o i u).
Proof.
  intros s s' S h o i u fu l [UC US U1] Fl Inf Hf C EI EN ENu EP EPu EPf Hf' Hfo.
  destruct (UC h fu Hf) as (l0 & C0 & ND & P & M).
  assert (l0 = l) by (eapply chain_fun; eauto). subst l0. clear C0.
  assert (NIu : forall h' fu' l', hfirst s h' = Some fu' -> chain (use_next s) fu' l' -> ~ In u l').
  { intros h' fu' l' Hf2 C' I2. destruct (UC h' fu' Hf2) as (l'' & C'' & _ & _ & M'').
    assert (l'' = l') by (eapply chain_fun; eauto). subst l''.
    destruct (M'' u I2) as (o' & i' & Q). eapply Fl; eauto. }
  assert (Nul : ~ In u l) by (eapply NIu; eauto).
  assert (CH : chain (use_next s') (Some u) (u :: l)).
  { econstructor; [exact ENu|]. eapply chain_ext; [|exact C]. intros x Ix. apply EN. intro E; subst; contradiction. }
  assert (PH : prevs_v (use_prev s') None (u :: l)).
  { simpl. split; [exact EPu|]. apply prevs_ok_v in P. destruct l as [|f r]; simpl; [exact I|].
    simpl in P. destruct P as [Pf Pr]. split; [apply EPf; reflexivity|].
    eapply prevs_v_ext; [|exact Pr]. intros x Ix. apply EP.
    - intro E; subst. apply Nul. right. exact Ix.
    - simpl. intro E. inversion E; subst. inversion ND; subst. contradiction. }
  assert (OTH : forall h' fu' l', h' <> h -> hfirst s h' = Some fu' -> chain (use_next s) fu' l' ->
                 forall x, In x l' -> use_next s' x = use_next s x /\ use_prev s' x = use_prev s x).
  { intros h' fu' l' Nh Hf2 C' x Ix.
    assert (Nx : x <> u) by (intro E; subst; eapply NIu; eauto).
    split; [apply EN; exact Nx|]. apply EP; [exact Nx|].
    intro E. destruct (UC h' fu' Hf2) as (l'' & C'' & _ & _ & M'').
    assert (l'' = l') by (eapply chain_fun; eauto). subst l''.
    destruct (M'' x Ix) as (o1 & i1 & Q1).
    assert (Ixl : In x l) by (destruct l; simpl in E; [discriminate|inversion E; left; reflexivity]).
    destruct (M x Ixl) as (o2 & i2 & Q2). apply Nh. eapply U1; eauto. }
  constructor.
  - intros h' fu' Hf2. destruct (holder_eq_dec h' h) as [->|Nh].
    + rewrite Hf' in Hf2. inversion Hf2; subst fu'. exists (u :: l).
      split; [exact CH|]. split; [constructor; assumption|]. split; [apply prevs_ok_v; exact PH|].
      intros x [E|Ix].
      * subst x. exists o, i. right. auto.
      * destruct (M x Ix) as (o' & i' & Q). exists o', i'. left. exact Q.
    + rewrite (Hfo h' Nh) in Hf2. destruct (UC h' fu' Hf2) as (l' & C' & ND' & P' & M').
      exists l'. split; [eapply chain_ext; [|exact C']; intros x Ix; eapply OTH; eauto|].
      split; [exact ND'|]. split.
      { apply prevs_ok_v. apply prevs_ok_v in P'. eapply prevs_v_ext; [|exact P'].
        intros x Ix. eapply OTH; eauto. }
      intros x Ix. destruct (M' x Ix) as (o' & i' & Q). exists o', i'. left. exact Q.
  - intros h' o' i' u' [Q|(-> & -> & -> & ->)].
    + destruct (US _ _ _ _ Q) as [Inf' (fu' & l' & Hf2 & C' & Iu')].
      split; [rewrite EI; exact Inf'|].
      destruct (holder_eq_dec h' h) as [->|Nh].
      * rewrite Hf in Hf2. inversion Hf2; subst fu'.
        assert (l' = l) by (eapply chain_fun; eauto). subst l'.
        exists (Some u), (u :: l). split; [exact Hf'|]. split; [exact CH|right; exact Iu'].
      * exists fu', l'. rewrite (Hfo h' Nh). split; [exact Hf2|]. split; [|exact Iu'].
        eapply chain_ext; [|exact C']. intros x Ix. eapply OTH; eauto.
    + split; [rewrite EI; exact Inf|]. exists (Some u), (u :: l).
      split; [exact Hf'|]. split; [exact CH|left; reflexivity].
  - intros h1 h2 o1 o2 i1 i2 x [Q1|(-> & -> & -> & ->)] [Q2|(-> & -> & -> & E2)].
    + eapply U1; eauto.
    + subst x. exfalso. eapply Fl; eauto.
    + exfalso. eapply Fl; eauto.
    + reflexivity.
Qed.

(* ------------------------------------------------------------------ the monadic add_use / remove_use *)

Lemma link_add : forall {R} (t : PM.t R) (g : R -> option positive) p y x,
  link (PM.add p y t) g x = if Pos.eqb x p then Some (g y) else link t g x.
Proof. intros. unfold link. rewrite find_add. destruct (Pos.eqb x p); reflexivity. Qed.

Lemma set_first_use_eff : forall h fu s s' r, set_first_use h fu s = (s', Ok r) ->
  hfirst s' h = Some fu /\ (forall h', h' <> h -> hfirst s' h' = hfirst s h') /\
  s_uses s' = s_uses s /\ s_ops s' = s_ops s.
Proof.
  intros h fu s s' r H. destruct h as [v|b]; simpl in H.
  - minv1 H. simpl. repeat split.
    + rewrite link_add, Pos.eqb_refl. reflexivity.
    + intros [v'|b'] N; simpl; [|reflexivity]. rewrite link_add.
      destruct (Pos.eqb_spec v' v); [subst; contradiction|reflexivity].
  - minv1 H. simpl. repeat split.
    + rewrite link_add, Pos.eqb_refl. reflexivity.
    + intros [v'|b'] N; simpl; [reflexivity|]. rewrite link_add.
      destruct (Pos.eqb_spec b' b); [subst; contradiction|reflexivity].
Qed.

Lemma get_first_use_eff : forall h s s' fu, get_first_use h s = (s', Ok fu) -> s' = s /\ hfirst s h = Some fu.
Proof.
  intros h s s' fu H. destruct h as [v|b]; simpl in H; minv1 H; split; try reflexivity;
    simpl; unfold link; rewrite Hget; reflexivity.
Qed.

Lemma use_info_add : forall s u r x,
  use_info (with_uses (PM.add u r (s_uses s)) s) x =
  if Pos.eqb x u then Some (u_op r, u_idx r) else use_info s x.
Proof. intros. unfold use_info. simpl. rewrite find_add. destruct (Pos.eqb x u); reflexivity. Qed.

Lemma hfirst_with_uses : forall t s h, hfirst (with_uses t s) h = hfirst s h.
Proof. intros t s [v|b]; reflexivity. Qed.

Lemma remove_use_Uabs : forall s s' S h o i u r,
  Uabs s S -> S h o i u -> remove_use h u s = (s', Ok r) ->
  Uabs s' (minus_use S u) /\ s_ops s' = s_ops s /\ (forall x, use_info s' x = use_info s x).
Proof.
  intros s s' S h o i u r UA Su H.
  destruct (ua_slot _ _ UA _ _ _ _ Su) as [Inf (fu & l & Hf & C & Iu)].
  destruct (in_split _ _ Iu) as (l1 & l2 & ->).
  destruct (ua_chain _ _ UA h fu Hf) as (l0 & C0 & ND & P & M).
  assert (l0 = l1 ++ u :: l2) by (eapply chain_fun; eauto). subst l0. clear C0.
  destruct (chain_split _ _ _ _ _ C) as (S1 & nn & Nu & C2).
  pose proof (chain_head _ _ _ C2) as Hnn. subst nn.
  apply prevs_ok_v in P. apply prevs_v_app in P. destruct P as [P1 [Pu P2]].
  destruct (NoDup_app_inv _ _ ND) as (ND1 & ND2u & D12). inversion ND2u as [|? ? Nu2 ND2]; subst.
  unfold remove_use in H.
  apply bind_ok in H as (s0 & a & Hg & H). apply getU_ok in Hg as [-> Hget].
  apply bind_ok in H as (s1 & ? & Hp & H).
  apply bind_ok in H as (s2 & ? & Hn & Hfst).
  assert (Eprev : u_prev a = last_or None l1).
  { unfold use_prev, link in Pu. rewrite Hget in Pu. simpl in Pu. injection Pu as E. exact E. }
  assert (Enext : u_next a = hd_error l2).
  { unfold use_next, link in Nu. rewrite Hget in Nu. simpl in Nu. injection Nu as E. exact E. }
  rewrite Eprev, Enext in *.
  (* p and n are different uses, both different from u *)
  assert (Dpn : forall p n, last_or None l1 = Some p -> hd_error l2 = Some n -> p <> n /\ p <> u /\ n <> u).
  { intros p n Lp Ln. apply last_or_In in Lp. destruct Lp as [Lp|Lp]; [discriminate|].
    assert (In n l2) by (destruct l2; simpl in Ln; [discriminate|inversion Ln; left; reflexivity]).
    repeat split; intro E; subst.
    - eapply D12; [exact Lp|right; assumption].
    - eapply D12; [exact Lp|left; reflexivity].
    - contradiction. }
  assert (L1nil : last_or None l1 = None -> l1 = []).
  { clear. destruct l1 as [|y t]; [reflexivity|]. simpl. intro Lp. exfalso.
    revert y Lp. induction t; simpl; intros; [discriminate|eauto]. }
  destruct (last_or None l1) as [p|] eqn:Lp; destruct (hd_error l2) as [n|] eqn:Ln.
  - (* p and n *)
    apply updU_ok in Hp as (xp & Fp & ->). apply updU_ok in Hn as (xn & Fn & ->). apply ret_ok in Hfst as [-> _].
    destruct (Dpn p n eq_refl eq_refl) as (D1 & D2 & D3).
    simpl in Fn. rewrite find_add in Fn. destruct (Pos.eqb_spec n p) as [E|_]; [subst; contradiction|].
    assert (INF : forall y, use_info (with_uses (PM.add n (set_u_prev (Some p) xn)
                   (s_uses (with_uses (PM.add p (set_u_next (Some n) xp) (s_uses s)) s)))
                   (with_uses (PM.add p (set_u_next (Some n) xp) (s_uses s)) s)) y = use_info s y).
    { intro y. rewrite !use_info_add.
      destruct (Pos.eqb_spec y n) as [->|]; [unfold use_info; rewrite Fn; reflexivity|].
      destruct (Pos.eqb_spec y p) as [->|]; [unfold use_info; rewrite Fp; reflexivity|reflexivity]. }
    split; [|split; [reflexivity|exact INF]].
    eapply (Uabs_remove s _ S h o i u fu l1 l2 UA Su Hf C); rewrite ?Lp, ?Ln.
    + exact INF.
    + intros y Ny. unfold use_next. simpl. rewrite !link_add.
      destruct (Pos.eqb_spec y n) as [->|]; [unfold link; rewrite Fn; reflexivity|].
      destruct (Pos.eqb_spec y p) as [->|]; [congruence|reflexivity].
    + intros p0 E. inversion E; subst p0. unfold use_next. simpl. rewrite !link_add.
      destruct (Pos.eqb_spec p n); [contradiction|]. rewrite Pos.eqb_refl. reflexivity.
    + intros y Ny. unfold use_prev. simpl. rewrite !link_add.
      destruct (Pos.eqb_spec y n) as [->|]; [congruence|].
      destruct (Pos.eqb_spec y p) as [->|]; [unfold link; rewrite Fp; reflexivity|reflexivity].
    + intros n0 E. inversion E; subst n0. unfold use_prev. simpl. rewrite !link_add, Pos.eqb_refl. reflexivity.
    + rewrite !hfirst_with_uses. destruct l1; [discriminate|exact Hf].
    + intros h' _. rewrite !hfirst_with_uses. reflexivity.
  - (* p only *)
    apply updU_ok in Hp as (xp & Fp & ->). apply ret_ok in Hn as [-> _]. apply ret_ok in Hfst as [-> _].
    assert (INF : forall y, use_info (with_uses (PM.add p (set_u_next None xp) (s_uses s)) s) y = use_info s y).
    { intro y. rewrite !use_info_add.
      destruct (Pos.eqb_spec y p) as [->|]; [unfold use_info; rewrite Fp; reflexivity|reflexivity]. }
    split; [|split; [reflexivity|exact INF]].
    eapply (Uabs_remove s _ S h o i u fu l1 l2 UA Su Hf C); rewrite ?Lp, ?Ln.
    + exact INF.
    + intros y Ny. unfold use_next. simpl. rewrite !link_add.
      destruct (Pos.eqb_spec y p) as [->|]; [congruence|reflexivity].
    + intros p0 E. inversion E; subst p0. unfold use_next. simpl. rewrite !link_add, Pos.eqb_refl. reflexivity.
    + intros y Ny. unfold use_prev. simpl. rewrite !link_add.
      destruct (Pos.eqb_spec y p) as [->|]; [unfold link; rewrite Fp; reflexivity|reflexivity].
    + intros n0 E. discriminate.
    + rewrite !hfirst_with_uses. destruct l1; [discriminate|exact Hf].
    + intros h' _. rewrite !hfirst_with_uses. reflexivity.
  - (* n only: u is the first use *)
    apply ret_ok in Hp as [-> _]. apply updU_ok in Hn as (xn & Fn & ->).
    destruct (set_first_use_eff _ _ _ _ _ Hfst) as (F1 & F2 & F3 & F4).
    rewrite (L1nil eq_refl) in *. simpl in *.
    assert (INF : forall y, use_info s' y = use_info s y).
    { intro y. unfold use_info. rewrite F3. simpl. rewrite find_add.
      destruct (Pos.eqb_spec y n) as [->|]; [rewrite Fn; reflexivity|reflexivity]. }
    split; [|split; [rewrite F4; reflexivity|exact INF]].
    eapply (Uabs_remove s s' S h o i u fu [] l2 UA Su Hf C); simpl; rewrite ?Ln.
    + exact INF.
    + intros y _. unfold use_next. rewrite F3. simpl. rewrite link_add.
      destruct (Pos.eqb_spec y n) as [->|]; [unfold link; rewrite Fn; reflexivity|reflexivity].
    + intros p0 E. discriminate.
    + intros y Ny. unfold use_prev. rewrite F3. simpl. rewrite link_add.
      destruct (Pos.eqb_spec y n) as [->|]; [congruence|reflexivity].
    + intros n0 E. inversion E; subst n0. unfold use_prev. rewrite F3. simpl. rewrite link_add, Pos.eqb_refl. reflexivity.
    + exact F1.
    + intros h' Nh. rewrite (F2 h' Nh). apply hfirst_with_uses.
  - (* neither: u is the only use *)
    apply ret_ok in Hp as [-> _]. apply ret_ok in Hn as [-> _].
    destruct (set_first_use_eff _ _ _ _ _ Hfst) as (F1 & F2 & F3 & F4).
    rewrite (L1nil eq_refl) in *. simpl in *.
    assert (INF : forall y, use_info s' y = use_info s y) by (intro y; unfold use_info; rewrite F3; reflexivity).
    split; [|split; [exact F4|exact INF]].
    eapply (Uabs_remove s s' S h o i u fu [] l2 UA Su Hf C); simpl; rewrite ?Ln.
    + exact INF.
    + intros y _. unfold use_next. rewrite F3. reflexivity.
    + intros p0 E. discriminate.
    + intros y Ny. unfold use_prev. rewrite F3. reflexivity.
    + intros n0 E. discriminate.
    + exact F1.
    + intros h' Nh. apply (F2 h' Nh).
Qed.

Lemma add_use_Uabs : forall s s' S h o i u r,
  Uabs s S -> (forall h' o' i', ~ S h' o' i' u) -> use_info s u = Some (o, i) ->
  add_use h u s = (s', Ok r) ->
  Uabs s' (plus_use S h o i u) /\ s_ops s' = s_ops s /\ (forall x, use_info s' x = use_info s x).
Proof.
  intros s s' S h o i u r UA Fl Inf H.
  unfold add_use in H.
  apply bind_ok in H as (s0 & fu & Hg & H). apply get_first_use_eff in Hg as [-> Hf].
  apply bind_ok in H as (s1 & ? & H1 & H). apply updU_ok in H1 as (xa & F1 & ->).
  apply bind_ok in H as (s2 & ? & H2 & H). apply updU_ok in H2 as (xb & F2 & ->).
  apply bind_ok in H as (s3 & ? & H3 & Hfst).
  destruct (ua_chain _ _ UA h fu Hf) as (l & C & ND & P & M).
  pose proof (chain_head _ _ _ C) as Hhd.
  simpl in F2. rewrite find_add_same in F2. injection F2 as <-.
  assert (Nul : ~ In u l).
  { intro I2. destruct (M u I2) as (o' & i' & Q). eapply Fl; eauto. }
  destruct (use_info_some _ _ _ _ Inf) as (ur & Fu & Q1 & Q2). rewrite F1 in Fu. injection Fu as <-.
  destruct fu as [f|].
  - (* the holder already has a first use f *)
    apply updU_ok in H3 as (xc & F3 & ->).
    destruct (set_first_use_eff _ _ _ _ _ Hfst) as (G1 & G2 & G3 & G4).
    assert (Nfu : f <> u).
    { intro E. subst f. apply Nul. destruct l; simpl in Hhd; [discriminate|]. injection Hhd as <-. left. reflexivity. }
    simpl in F3. rewrite !find_add in F3. destruct (Pos.eqb_spec f u) as [E|_]; [contradiction|].
    assert (INF : forall y, use_info s' y = use_info s y).
    { intro y. unfold use_info. rewrite G3. simpl. rewrite !find_add.
      destruct (Pos.eqb_spec y f) as [->|]; [rewrite F3; reflexivity|].
      destruct (Pos.eqb_spec y u) as [->|]; [rewrite F1; reflexivity|reflexivity]. }
    split; [|split; [rewrite G4; reflexivity|exact INF]].
    eapply (Uabs_add s s' S h o i u (Some f) l UA Fl Inf Hf C).
    + exact INF.
    + intros y Ny. unfold use_next. rewrite G3. simpl. rewrite !link_add.
      destruct (Pos.eqb_spec y f) as [->|]; [unfold link; rewrite F3; reflexivity|].
      destruct (Pos.eqb_spec y u); [contradiction|reflexivity].
    + unfold use_next. rewrite G3. simpl. rewrite !link_add.
      destruct (Pos.eqb_spec u f) as [E|_]; [subst; contradiction|]. rewrite Pos.eqb_refl. reflexivity.
    + intros y Ny Nh. unfold use_prev. rewrite G3. simpl. rewrite !link_add.
      destruct (Pos.eqb_spec y f) as [->|]; [rewrite <- Hhd in Nh; congruence|].
      destruct (Pos.eqb_spec y u); [contradiction|reflexivity].
    + unfold use_prev. rewrite G3. simpl. rewrite !link_add.
      destruct (Pos.eqb_spec u f) as [E|_]; [subst; contradiction|]. rewrite Pos.eqb_refl. reflexivity.
    + intros f0 E. rewrite <- Hhd in E. injection E as <-.
      unfold use_prev. rewrite G3. simpl. rewrite !link_add, Pos.eqb_refl. reflexivity.
    + rewrite G1. reflexivity.
    + intros h' Nh. rewrite (G2 h' Nh). rewrite !hfirst_with_uses. reflexivity.
  - apply ret_ok in H3 as [-> _].
    destruct (set_first_use_eff _ _ _ _ _ Hfst) as (G1 & G2 & G3 & G4).
    assert (INF : forall y, use_info s' y = use_info s y).
    { intro y. unfold use_info. rewrite G3. simpl. rewrite !find_add.
      destruct (Pos.eqb_spec y u) as [->|]; [rewrite F1; reflexivity|reflexivity]. }
    split; [|split; [rewrite G4; reflexivity|exact INF]].
    eapply (Uabs_add s s' S h o i u None l UA Fl Inf Hf C).
    + exact INF.
    + intros y Ny. unfold use_next. rewrite G3. simpl. rewrite !link_add.
      destruct (Pos.eqb_spec y u); [contradiction|reflexivity].
    + unfold use_next. rewrite G3. simpl. rewrite !link_add, Pos.eqb_refl. reflexivity.
    + intros y Ny Nh. unfold use_prev. rewrite G3. simpl. rewrite !link_add.
      destruct (Pos.eqb_spec y u); [contradiction|reflexivity].
    + unfold use_prev. rewrite G3. simpl. rewrite !link_add, Pos.eqb_refl. reflexivity.
    + intros f0 E. rewrite <- Hhd in E. discriminate.
    + rewrite G1. reflexivity.
    + intros h' Nh. rewrite (G2 h' Nh). rewrite !hfirst_with_uses. reflexivity.
Qed.
