(* C01/ProofsReplaceType.v -- WF is preserved by Rewriter.replace_value_with_new_type
   (a fresh OpResult / BlockArgument takes the place of `val` in its owner, all uses are moved). *)
From Coq Require Import ZArith List Bool PArith FMapPositive Lia.
From XV Require Import C01.Model C01.Spec C01.ProofsBase C01.ProofsFrame C01.ProofsUses C01.ProofsOperands
  C01.ProofsRauw C01.ProofsOps C01.ProofsBlocks C01.ProofsArgs.
Import ListNotations.
Local Open Scope Z_scope.

Lemma kill_value_I_shadow : forall s2 s3 s4 val vr r,
  same_I s2 s3 -> PM.find val (s_values s2) = Some vr -> kill [GValue val] s3 = (s4, Ok r) ->
  same_I (with_values (PM.add val (set_v_dead true vr) (s_values s2)) s2) s4.
Proof. exact kill_shadow. Qed.

(* the part common to both cases: everything except the index clauses *)
Lemma rvnt_common : forall s s1 s2 s3 s4 rec e val r3 r4,
  WF s -> allocV rec s = (s1, Ok e) -> v_first_use rec = None ->
  same_T1 s1 s2 -> same_T2 s1 s2 -> same_T3 s1 s2 -> same_U s1 s2 -> same_A s1 s2 ->
  replace_all_uses_with val e s2 = (s3, Ok r3) -> kill [GValue val] s3 = (s4, Ok r4) ->
  same_T1 s s4 /\ same_T2 s s4 /\ same_T3 s s4 /\ UWF s4 /\ WF_alloc s4 /\ same_I s2 s3.
Proof.
  intros s s1 s2 s3 s4 rec e val r3 r4 W Ha FU T1 T2 T3 SU SA Hr Hk.
  pose proof (allocV_T1 rec s s1 _ Ha) as A1. pose proof (allocV_T2 rec s s1 _ Ha) as A2.
  pose proof (allocV_T3 rec s s1 _ Ha) as A3.
  pose proof (rauw_T1 val e s2 s3 _ Hr) as R1. pose proof (rauw_T2 val e s2 s3 _ Hr) as R2.
  pose proof (rauw_T3 val e s2 s3 _ Hr) as R3. pose proof (rauw_I val e s2 s3 _ Hr) as RI.
  pose proof (rauw_A val e s2 s3 _ Hr) as RA.
  pose proof (kill_value_T1 val s3 s4 _ Hk) as K1. pose proof (kill_value_T2 val s3 s4 _ Hk) as K2.
  pose proof (kill_value_T3 val s3 s4 _ Hk) as K3. pose proof (kill_value_U val s3 s4 _ Hk) as KU.
  pose proof (kill_value_A val s3 s4 _ Hk) as KA.
  split; [eapply (fr_trans _ fr_T1); [exact A1|]; eapply (fr_trans _ fr_T1); [exact T1|]; eapply (fr_trans _ fr_T1); eauto|].
  split; [eapply (fr_trans _ fr_T2); [exact A2|]; eapply (fr_trans _ fr_T2); [exact T2|]; eapply (fr_trans _ fr_T2); eauto|].
  split; [eapply (fr_trans _ fr_T3); [exact A3|]; eapply (fr_trans _ fr_T3); [exact T3|]; eapply (fr_trans _ fr_T3); eauto|].
  split; [|split; [|exact RI]].
  - eapply UWF_same; [|exact KU]. eapply rauw_UWF; [|exact Hr]. eapply UWF_same; [|exact SU].
    eapply allocV_UWF; [apply WF_UWF; exact W|apply fresh_of_alloc; apply (wf_alloc s W)|exact FU|exact Ha].
  - eapply WF_alloc_same; [exact KA|]. eapply WF_alloc_same; [exact RA|]. eapply WF_alloc_same; [exact SA|].
    eapply allocV_alloc; [apply (wf_alloc s W)|exact Ha].
Qed.

Theorem rw_replace_value_with_new_type_WF : forall s s' val v,
  WF s -> val_live s val -> rw_replace_value_with_new_type val s = (s', Ok v) -> WF s'.
Proof.
  intros s s' val v W (vr0 & Fv0 & Dv0) H. unfold rw_replace_value_with_new_type in H.
  apply bind_ok in H as (s0 & vr & Hg & H). apply getV_ok in Hg as [-> Fv]. rewrite Fv0 in Fv. injection Fv as <-.
  pose proof (wf_owner s W val vr0 Fv0 Dv0) as OWN.
  destruct (v_kind vr0) as [o idx|b idx|old] eqn:Kv; [| |exfalso; eapply raise_ok; eauto].
  - (* an operation result *)
    destruct OWN as (x & Fx & Zx).
    apply bind_ok in H as (s1 & e & Ha & H). destruct (allocV_eff _ _ _ _ Ha) as (Ee & O1 & B1 & V1).
    apply bind_ok in H as (s1' & orec & Hg & H). apply getO_ok in Hg as [-> Fo1].
    rewrite O1, Fx in Fo1. injection Fo1 as <-.
    apply bind_ok in H as (s2 & ? & Hu & H).
    apply bind_ok in H as (s3 & ? & Hr & H). apply bind_ok in H as (s4 & ? & Hk & H). apply ret_ok in H as [-> ->].
    assert (T1 : same_T1 s1 s2) by (eapply (updO_same_T1 o); [|exact Hu]; intro; reflexivity).
    assert (T2 : same_T2 s1 s2) by (eapply (updO_same_T2 o); exact Hu).
    assert (T3 : same_T3 s1 s2) by (eapply (updO_same_T3 o); [|exact Hu]; intro; reflexivity).
    assert (SU : same_U s1 s2) by (eapply (updO_same_U o); [|exact Hu]; intro; reflexivity).
    assert (SA : same_A s1 s2) by (eapply (updO_same_A o); exact Hu).
    destruct (rvnt_common s s1 s2 s3 s4 _ e val _ _ W Ha eq_refl T1 T2 T3 SU SA Hr Hk) as (Q1 & Q2 & Q3 & QU & QA & RI).
    apply updO_ok in Hu as (xo & Fxo & ->). rewrite O1, Fx in Fxo. injection Fxo as <-.
    pose proof (znth_lt _ _ _ Zx) as Ri.
    fold (replace_at (o_results x) idx e) in *.
    set (res' := replace_at (o_results x) idx e) in *.
    set (s2 := with_ops (PM.add o (set_o_results res' x) (s_ops s1)) s1) in *.
    assert (Nve : val <> e).
    { intro; subst val. rewrite Ee in Fv0. rewrite (fresh_of_alloc s (wf_alloc s W)) in Fv0. discriminate. }
    assert (Fv2 : PM.find val (s_values s2) = Some vr0).
    { unfold s2. simpl. rewrite V1, find_add. destruct (Pos.eqb_spec val (n_value s)); [congruence|exact Fv0]. }
    pose proof (kill_shadow s2 s3 s4 val vr0 _ RI Fv2 Hk) as SH.
    set (sd := with_values (PM.add val (set_v_dead true vr0) (s_values s2)) s2) in *.
    eapply (WF_parts s s4 W Q1 Q2 Q3 QU QA). eapply (WF_index_same sd s4 SH).
    (* tables of the shadow state *)
    assert (VAL : forall y, PM.find y (s_values sd) =
                   if Pos.eqb y val then Some (set_v_dead true vr0)
                   else if Pos.eqb y e then Some (mkValue (KRes o idx) None false) else PM.find y (s_values s)).
    { intro y. unfold sd, s2. simpl. rewrite V1, !find_add, Ee. reflexivity. }
    assert (OPS : forall o', PM.find o' (s_ops sd) = if Pos.eqb o' o then Some (set_o_results res' x) else PM.find o' (s_ops s)).
    { intro o'. unfold sd, s2. simpl. rewrite find_add, O1. reflexivity. }
    assert (BLK : s_blocks sd = s_blocks s) by (unfold sd, s2; simpl; exact B1).
    assert (Fe : PM.find e (s_values s) = None) by (rewrite Ee; apply fresh_of_alloc; apply (wf_alloc s W)).
    assert (OLD : forall y yr, PM.find y (s_values s) = Some yr -> y <> val -> PM.find y (s_values sd) = Some yr).
    { intros y yr Fy Ny. rewrite VAL. destruct (Pos.eqb_spec y val); [contradiction|].
      destruct (Pos.eqb_spec y e); [subst; congruence|exact Fy]. }
    split; [|split].
    + (* WF_results *)
      intros o' x' F' E' i w Nw. rewrite OPS in F'. destruct (Pos.eqb_spec o' o) as [->|No].
      * injection F' as <-. simpl in E', Nw. rewrite <- znth_of_nat in Nw. unfold res' in Nw.
        rewrite znth_replace_at in Nw by exact Ri. destruct (Z.eqb_spec (Z.of_nat i) idx) as [Ei|Ni].
        -- injection Nw as <-. exists (mkValue (KRes o idx) None false). split.
           ++ rewrite VAL. destruct (Pos.eqb_spec e val); [congruence|]. rewrite Pos.eqb_refl. reflexivity.
           ++ simpl. rewrite Ei. reflexivity.
        -- rewrite znth_of_nat in Nw. destruct (wf_results s W o x Fx E' i w Nw) as (wr & Fw & Kw).
           exists wr. split; [|exact Kw]. apply OLD; [exact Fw|]. intro; subst w.
           rewrite Fv0 in Fw. injection Fw as <-. rewrite Kv in Kw. injection Kw as Q. congruence.
      * destruct (wf_results s W o' x' F' E' i w Nw) as (wr & Fw & Kw).
        exists wr. split; [|exact Kw]. apply OLD; [exact Fw|]. intro; subst w.
        rewrite Fv0 in Fw. injection Fw as <-. rewrite Kv in Kw. injection Kw as Q _. congruence.
    + (* WF_args *)
      intros b' x' F' E' i w Nw. rewrite BLK in F'.
      destruct (wf_args s W b' x' F' E' i w Nw) as (wr & Fw & Kw).
      exists wr. split; [|exact Kw]. apply OLD; [exact Fw|]. intro; subst w.
      rewrite Fv0 in Fw. injection Fw as <-. rewrite Kv in Kw. discriminate.
    + (* WF_owner *)
      intros y yr Fy Dy. rewrite VAL in Fy. destruct (Pos.eqb_spec y val) as [->|Ny].
      * injection Fy as <-. simpl in Dy. discriminate.
      * destruct (Pos.eqb_spec y e) as [->|Ne].
        -- injection Fy as <-. simpl. exists (set_o_results res' x). rewrite OPS, Pos.eqb_refl. split; [reflexivity|].
           simpl. unfold res'. rewrite znth_replace_at by exact Ri. rewrite Z.eqb_refl. reflexivity.
        -- pose proof (wf_owner s W y yr Fy Dy) as OW. destruct (v_kind yr) as [o' i'|b' i'|old'] eqn:Ky.
           ++ destruct OW as (x' & F' & Z'). rewrite OPS. destruct (Pos.eqb_spec o' o) as [->|No].
              ** exists (set_o_results res' x). split; [reflexivity|]. rewrite Fx in F'. injection F' as <-.
                 simpl. unfold res'. rewrite znth_replace_at by exact Ri.
                 destruct (Z.eqb_spec i' idx) as [->|Ni]; [|exact Z'].
                 rewrite Zx in Z'. injection Z' as Q. congruence.
              ** exists x'. auto.
           ++ destruct OW as (x' & F' & Z'). exists x'. rewrite BLK. auto.
           ++ exact I.
  - (* a block argument *)
    destruct OWN as (x & Fx & Zx).
    apply bind_ok in H as (s1 & e & Ha & H). destruct (allocV_eff _ _ _ _ Ha) as (Ee & O1 & B1 & V1).
    apply bind_ok in H as (s1' & brec & Hg & H). apply getB_ok in Hg as [-> Fb1].
    rewrite B1, Fx in Fb1. injection Fb1 as <-.
    apply bind_ok in H as (s2 & ? & Hu & H).
    apply bind_ok in H as (s3 & ? & Hr & H). apply bind_ok in H as (s4 & ? & Hk & H). apply ret_ok in H as [-> ->].
    assert (T1 : same_T1 s1 s2) by (eapply (updB_same_T1 b); [|exact Hu]; intro; reflexivity).
    assert (T2 : same_T2 s1 s2) by (eapply (updB_same_T2 b); [|exact Hu]; intro; reflexivity).
    assert (T3 : same_T3 s1 s2) by (eapply (updB_same_T3 b); exact Hu).
    assert (SU : same_U s1 s2) by (eapply (updB_same_U b); [|exact Hu]; intro; reflexivity).
    assert (SA : same_A s1 s2) by (eapply (updB_same_A b); exact Hu).
    destruct (rvnt_common s s1 s2 s3 s4 _ e val _ _ W Ha eq_refl T1 T2 T3 SU SA Hr Hk) as (Q1 & Q2 & Q3 & QU & QA & RI).
    apply updB_ok in Hu as (xo & Fxo & ->). rewrite B1, Fx in Fxo. injection Fxo as <-.
    pose proof (znth_lt _ _ _ Zx) as Ri.
    fold (replace_at (b_args x) idx e) in *.
    set (res' := replace_at (b_args x) idx e) in *.
    set (s2 := with_blocks (PM.add b (set_b_args res' x) (s_blocks s1)) s1) in *.
    assert (Nve : val <> e).
    { intro; subst val. rewrite Ee in Fv0. rewrite (fresh_of_alloc s (wf_alloc s W)) in Fv0. discriminate. }
    assert (Fv2 : PM.find val (s_values s2) = Some vr0).
    { unfold s2. simpl. rewrite V1, find_add. destruct (Pos.eqb_spec val (n_value s)); [congruence|exact Fv0]. }
    pose proof (kill_shadow s2 s3 s4 val vr0 _ RI Fv2 Hk) as SH.
    set (sd := with_values (PM.add val (set_v_dead true vr0) (s_values s2)) s2) in *.
    eapply (WF_parts s s4 W Q1 Q2 Q3 QU QA). eapply (WF_index_same sd s4 SH).
    assert (VAL : forall y, PM.find y (s_values sd) =
                   if Pos.eqb y val then Some (set_v_dead true vr0)
                   else if Pos.eqb y e then Some (mkValue (KArg b idx) None false) else PM.find y (s_values s)).
    { intro y. unfold sd, s2. simpl. rewrite V1, !find_add, Ee. reflexivity. }
    assert (BLK : forall b', PM.find b' (s_blocks sd) = if Pos.eqb b' b then Some (set_b_args res' x) else PM.find b' (s_blocks s)).
    { intro b'. unfold sd, s2. simpl. rewrite find_add, B1. reflexivity. }
    assert (OPS : s_ops sd = s_ops s) by (unfold sd, s2; simpl; exact O1).
    assert (Fe : PM.find e (s_values s) = None) by (rewrite Ee; apply fresh_of_alloc; apply (wf_alloc s W)).
    assert (OLD : forall y yr, PM.find y (s_values s) = Some yr -> y <> val -> PM.find y (s_values sd) = Some yr).
    { intros y yr Fy Ny. rewrite VAL. destruct (Pos.eqb_spec y val); [contradiction|].
      destruct (Pos.eqb_spec y e); [subst; congruence|exact Fy]. }
    split; [|split].
    + (* WF_results *)
      intros o' x' F' E' i w Nw. rewrite OPS in F'.
      destruct (wf_results s W o' x' F' E' i w Nw) as (wr & Fw & Kw).
      exists wr. split; [|exact Kw]. apply OLD; [exact Fw|]. intro; subst w.
      rewrite Fv0 in Fw. injection Fw as <-. rewrite Kv in Kw. discriminate.
    + (* WF_args *)
      intros b' x' F' E' i w Nw. rewrite BLK in F'. destruct (Pos.eqb_spec b' b) as [->|Nb].
      * injection F' as <-. simpl in E', Nw. rewrite <- znth_of_nat in Nw. unfold res' in Nw.
        rewrite znth_replace_at in Nw by exact Ri. destruct (Z.eqb_spec (Z.of_nat i) idx) as [Ei|Ni].
        -- injection Nw as <-. exists (mkValue (KArg b idx) None false). split.
           ++ rewrite VAL. destruct (Pos.eqb_spec e val); [congruence|]. rewrite Pos.eqb_refl. reflexivity.
           ++ simpl. rewrite Ei. reflexivity.
        -- rewrite znth_of_nat in Nw. destruct (wf_args s W b x Fx E' i w Nw) as (wr & Fw & Kw).
           exists wr. split; [|exact Kw]. apply OLD; [exact Fw|]. intro; subst w.
           rewrite Fv0 in Fw. injection Fw as <-. rewrite Kv in Kw. injection Kw as Q. congruence.
      * destruct (wf_args s W b' x' F' E' i w Nw) as (wr & Fw & Kw).
        exists wr. split; [|exact Kw]. apply OLD; [exact Fw|]. intro; subst w.
        rewrite Fv0 in Fw. injection Fw as <-. rewrite Kv in Kw. injection Kw as Q _. congruence.
    + (* WF_owner *)
      intros y yr Fy Dy. rewrite VAL in Fy. destruct (Pos.eqb_spec y val) as [->|Ny].
      * injection Fy as <-. simpl in Dy. discriminate.
      * destruct (Pos.eqb_spec y e) as [->|Ne].
        -- injection Fy as <-. simpl. exists (set_b_args res' x). rewrite BLK, Pos.eqb_refl. split; [reflexivity|].
           simpl. unfold res'. rewrite znth_replace_at by exact Ri. rewrite Z.eqb_refl. reflexivity.
        -- pose proof (wf_owner s W y yr Fy Dy) as OW. destruct (v_kind yr) as [o' i'|b' i'|old'] eqn:Ky.
           ++ destruct OW as (x' & F' & Z'). exists x'. rewrite OPS. auto.
           ++ destruct OW as (x' & F' & Z'). rewrite BLK. destruct (Pos.eqb_spec b' b) as [->|Nb].
              ** exists (set_b_args res' x). split; [reflexivity|]. rewrite Fx in F'. injection F' as <-.
                 simpl. unfold res'. rewrite znth_replace_at by exact Ri.
                 destruct (Z.eqb_spec i' idx) as [->|Ni]; [|exact Z'].
                 rewrite Zx in Z'. injection Z' as Q. congruence.
              ** exists x'. auto.
           ++ exact I.
Qed.
