(* C01/ProofsOpRegions.v -- WF is preserved by the region-in-operation mutators
   Operation.add_region and Operation.detach_region (by region and by index).
   Only the T3 group (o_regions / r_parent) is written; every other clause of WF follows by
   the frame relations. *)
From Coq Require Import ZArith List Bool PArith FMapPositive Lia.
From XV Require Import C01.Model C01.Spec C01.ProofsBase C01.ProofsFrame C01.ProofsUses C01.ProofsOperands
  C01.ProofsDll C01.ProofsOps C01.ProofsBlocks.
Import ListNotations.
Local Open Scope Z_scope.

(* ------------------------------------------------------------------ WF from the T3 group *)

Lemma WF_groups_T3 : forall s s', WF s ->
  same_T1 s s' -> same_T2 s s' -> same_U s s' -> same_I s s' -> same_A s s' ->
  WF_opregs s' -> WF s'.
Proof.
  intros s s' W T1 T2 SU SI SA WO.
  pose proof (UWF_same s s' (WF_UWF s W) SU) as (U1 & U2 & U3 & U4 & U5). destruct W.
  destruct (WF_index_same s s' SI (conj wf_results (conj wf_args wf_owner))) as (I1 & I2 & I3).
  constructor; try assumption.
  - eapply WF_block_same; eauto.
  - eapply WF_region_same; eauto.
  - eapply WF_detached_same; eauto.
  - eapply WF_alloc_same; eauto.
Qed.

(* ------------------------------------------------------------------ frame *)

Ltac pres_opreg FR :=
  unfold add_region, detach_region, detach_region_idx, get_region_index, detach_region_at; pres FR.

Lemma add_region_T1 : forall o r, preserves same_T1 (add_region o r). Proof. intros. pres_opreg fr_T1. Qed.
Lemma add_region_T2 : forall o r, preserves same_T2 (add_region o r). Proof. intros. pres_opreg fr_T2. Qed.
Lemma add_region_U : forall o r, preserves same_U (add_region o r). Proof. intros. pres_opreg fr_U. Qed.
Lemma add_region_I : forall o r, preserves same_I (add_region o r). Proof. intros. pres_opreg fr_I. Qed.
Lemma add_region_A : forall o r, preserves same_A (add_region o r). Proof. intros. pres_opreg fr_A. Qed.

Lemma detach_region_T1 : forall o r, preserves same_T1 (detach_region o r). Proof. intros. pres_opreg fr_T1. Qed.
Lemma detach_region_T2 : forall o r, preserves same_T2 (detach_region o r). Proof. intros. pres_opreg fr_T2. Qed.
Lemma detach_region_U : forall o r, preserves same_U (detach_region o r). Proof. intros. pres_opreg fr_U. Qed.
Lemma detach_region_I : forall o r, preserves same_I (detach_region o r). Proof. intros. pres_opreg fr_I. Qed.
Lemma detach_region_A : forall o r, preserves same_A (detach_region o r). Proof. intros. pres_opreg fr_A. Qed.

Lemma detach_region_idx_T1 : forall o i, preserves same_T1 (detach_region_idx o i). Proof. intros. pres_opreg fr_T1. Qed.
Lemma detach_region_idx_T2 : forall o i, preserves same_T2 (detach_region_idx o i). Proof. intros. pres_opreg fr_T2. Qed.
Lemma detach_region_idx_U : forall o i, preserves same_U (detach_region_idx o i). Proof. intros. pres_opreg fr_U. Qed.
Lemma detach_region_idx_I : forall o i, preserves same_I (detach_region_idx o i). Proof. intros. pres_opreg fr_I. Qed.
Lemma detach_region_idx_A : forall o i, preserves same_A (detach_region_idx o i). Proof. intros. pres_opreg fr_A. Qed.
#[export] Hint Resolve add_region_T1 add_region_T2 add_region_U add_region_I add_region_A
  detach_region_T1 detach_region_T2 detach_region_U detach_region_I detach_region_A
  detach_region_idx_T1 detach_region_idx_T2 detach_region_idx_U detach_region_idx_I detach_region_idx_A : pres.

(* ------------------------------------------------------------------ list facts *)

Lemma opreg_NoDup_snoc : forall {A} (l : list A) x, NoDup l -> ~ In x l -> NoDup (l ++ [x]).
Proof.
  intros A l x. induction l as [|a t IH]; simpl; intros ND NI.
  - constructor; [intros []|constructor].
  - inversion ND as [|? ? Na NDt]; subst. constructor.
    + intro I. apply in_app_iff in I. destruct I as [I|[E|[]]]; [contradiction|].
      subst. apply NI. left. reflexivity.
    + apply IH; [exact NDt|]. intro I. apply NI. right. exact I.
Qed.

Lemma opreg_nth_split : forall {A} (l : list A) n r, nth_error l n = Some r ->
  l = firstn n l ++ r :: skipn (S n) l.
Proof.
  intros A l. induction l as [|a t IH]; intros n r N; destruct n as [|n]; simpl in N; try discriminate.
  - injection N as <-. reflexivity.
  - simpl. f_equal. apply IH. exact N.
Qed.

(* the list without position n *)
Lemma opreg_remove_nth : forall {A} (l : list A) n r, nth_error l n = Some r -> NoDup l ->
  NoDup (firstn n l ++ skipn (S n) l) /\
  forall x, In x (firstn n l ++ skipn (S n) l) <-> In x l /\ x <> r.
Proof.
  intros A l n r N ND. pose proof (opreg_nth_split l n r N) as E.
  set (l1 := firstn n l) in *. set (l2 := skipn (S n) l) in *. clearbody l1 l2. subst l.
  destruct (NoDup_remove _ _ _ ND) as [ND' NI]. split; [exact ND'|].
  intro x. split.
  - intro I. split.
    + apply in_app_iff in I. apply in_app_iff. simpl. tauto.
    + intro E. subst x. contradiction.
  - intros [I Nx]. apply in_app_iff in I. simpl in I. apply in_app_iff.
    destruct I as [I|[E|I]]; [left; exact I| |right; exact I]. exfalso. apply Nx. symmetry. exact E.
Qed.

Lemma opreg_py_slices : forall {A} (l : list A) n, (n < length l)%nat ->
  py_slice_to l (Z.of_nat n) ++ py_slice_from l (Z.of_nat n + 1) = firstn n l ++ skipn (S n) l.
Proof.
  intros A l n L. unfold py_slice_to, py_slice_from, py_clamp, zlen.
  destruct (Z.ltb_spec (Z.of_nat n) 0); [lia|]. destruct (Z.ltb_spec (Z.of_nat n + 1) 0); [lia|].
  rewrite !Z.min_l by lia. rewrite Nat2Z.id. replace (Z.to_nat (Z.of_nat n + 1)) with (S n) by lia. reflexivity.
Qed.

Lemma find_index_spec : forall l x k i, find_index l x k = Some i ->
  exists n, i = k + Z.of_nat n /\ nth_error l n = Some x.
Proof.
  induction l as [|y t IH]; intros x k i H; simpl in H; [discriminate|].
  destruct (Pos.eqb_spec y x) as [->|N].
  - injection H as <-. exists 0%nat. split; [lia|reflexivity].
  - destruct (IH _ _ _ H) as (n & -> & Nn). exists (S n). split; [lia|exact Nn].
Qed.

Lemma py_index_norm : forall {A} (l : list A) idx r, py_index l idx = Some r ->
  exists n, norm_index (zlen l) idx = Z.of_nat n /\ nth_error l n = Some r.
Proof.
  intros A l idx r H. unfold py_index, py_norm in H. unfold norm_index.
  destruct (Z.ltb_spec idx 0).
  - destruct (Z.ltb_spec (idx + zlen l) 0); [discriminate|].
    exists (Z.to_nat (idx + zlen l)). split; [lia|exact H].
  - destruct (Z.ltb_spec idx (zlen l)); [|discriminate].
    exists (Z.to_nat idx). split; [lia|exact H].
Qed.

(* ------------------------------------------------------------------ Operation.add_region *)

(* no liveness is needed: if o is erased its clause is vacuous, and r (parent None) is a member of
   no live op's list *)
Lemma add_region_opregs : forall s s' o r res,
  WF_opregs s -> add_region o r s = (s', Ok res) -> WF_opregs s'.
Proof.
  intros s s' o r res W H. unfold add_region in H.
  apply bind_ok in H as (s0 & rr & Hg & H). apply getR_ok in Hg as [-> Fr0].
  destruct (is_some (r_parent rr)) eqn:Pn; [exfalso; exact (raise_ok _ _ _ _ H)|]. apply is_some_false in Pn.
  apply bind_ok in H as (s0 & x0 & Hg & H). apply getO_ok in Hg as [-> Fx0].
  apply bind_ok in H as (s1 & ? & Hu & H). apply updO_ok in Hu as (xa & Fa & ->).
  rewrite Fx0 in Fa. injection Fa as <-.
  apply updR_ok in H as (rr1 & Fr & ->). simpl in Fr. rewrite Fr0 in Fr. injection Fr as <-.
  intros o' x' F' E'. simpl in F'. rewrite find_add in F'. simpl.
  destruct (Pos.eqb_spec o' o) as [->|No].
  - injection F' as <-. simpl in E'. simpl. destruct (W o x0 Fx0 E') as (ND & M1 & M2).
    assert (NI : ~ In r (o_regions x0)).
    { intro I. destruct (M1 r I) as (rr' & Fr' & Pr'). rewrite Fr0 in Fr'. injection Fr' as <-.
      rewrite Pn in Pr'. discriminate. }
    split; [apply opreg_NoDup_snoc; assumption|]. split.
    + intros r' Ir. apply in_app_iff in Ir. rewrite find_add. destruct (Pos.eqb_spec r' r) as [->|Nr].
      * eexists. split; reflexivity.
      * destruct Ir as [Ir|[E|[]]]; [apply M1; exact Ir|]. exfalso. apply Nr. symmetry. exact E.
    + intros r' rr' Fr' Er' Pr'. rewrite find_add in Fr'. apply in_app_iff.
      destruct (Pos.eqb_spec r' r) as [->|Nr]; [right; left; reflexivity|]. left. eapply M2; eauto.
  - destruct (W o' x' F' E') as (ND & M1 & M2). split; [exact ND|]. split.
    + intros r' Ir. destruct (M1 r' Ir) as (rr' & Fr' & Pr'). exists rr'. rewrite find_add.
      destruct (Pos.eqb_spec r' r) as [->|Nr]; [|auto].
      rewrite Fr0 in Fr'. injection Fr' as <-. rewrite Pn in Pr'. discriminate.
    + intros r' rr' Fr' Er' Pr'. rewrite find_add in Fr'. destruct (Pos.eqb_spec r' r) as [->|Nr].
      * injection Fr' as <-. simpl in Pr'. injection Pr' as E. exfalso. apply No. symmetry. exact E.
      * eapply M2; eauto.
Qed.

Theorem add_region_WF_gen : forall s s' o r res,
  WF s -> add_region o r s = (s', Ok res) -> WF s'.
Proof.
  intros s s' o r res W H.
  eapply (WF_groups_T3 s s' W); [eapply add_region_T1|eapply add_region_T2|eapply add_region_U|
                                 eapply add_region_I|eapply add_region_A|]; try exact H.
  eapply add_region_opregs; [apply (wf_opregs s W)|exact H].
Qed.

Theorem add_region_WF : forall s s' o r res,
  WF s -> op_live s o -> reg_live s r -> add_region o r s = (s', Ok res) -> WF s'.
Proof. intros s s' o r res W _ _ H. eapply add_region_WF_gen; eauto. Qed.

(* ------------------------------------------------------------------ Operation.detach_region *)

(* the core: region r, whose parent is o, sits at position n of o's list *)
Lemma detach_region_at_opregs : forall s s' o n r res x0 rr,
  WF_opregs s ->
  PM.find o (s_ops s) = Some x0 -> PM.find r (s_regions s) = Some rr -> r_parent rr = Some o ->
  nth_error (o_regions x0) n = Some r ->
  detach_region_at o (Z.of_nat n) r s = (s', Ok res) -> WF_opregs s'.
Proof.
  intros s s' o n r res x0 rr W Fx0 Fr0 Pr0 Nn H.
  unfold detach_region_at in H.
  apply bind_ok in H as (s1 & ? & H1 & H). apply updR_ok in H1 as (rr1 & Fr & ->).
  rewrite Fr0 in Fr. injection Fr as <-.
  apply bind_ok in H as (s1' & orec & Hg & H). apply getO_ok in Hg as [-> Fo]. simpl in Fo.
  rewrite Fx0 in Fo. injection Fo as <-.
  apply bind_ok in H as (s2 & ? & Hu & H). apply updO_ok in Hu as (xa & Fa & ->). simpl in Fa.
  rewrite Fx0 in Fa. injection Fa as <-. apply ret_ok in H as [-> _].
  assert (Ln : (n < length (o_regions x0))%nat) by (apply nth_error_Some; congruence).
  rewrite (opreg_py_slices _ _ Ln).
  intros o' x' F' E'. simpl in F'. rewrite find_add in F'. simpl.
  destruct (Pos.eqb_spec o' o) as [->|No].
  - injection F' as <-. simpl in E'. simpl. destruct (W o x0 Fx0 E') as (ND & M1 & M2).
    destruct (opreg_remove_nth _ _ _ Nn ND) as [ND' IN'].
    split; [exact ND'|]. split.
    + intros r' Ir. apply IN' in Ir. destruct Ir as [Ir Nr]. destruct (M1 r' Ir) as (rr' & Fr' & Pr').
      exists rr'. rewrite find_add. destruct (Pos.eqb_spec r' r); [contradiction|]. auto.
    + intros r' rr' Fr' Er' Pr'. rewrite find_add in Fr'. destruct (Pos.eqb_spec r' r) as [->|Nr].
      * injection Fr' as <-. simpl in Pr'. discriminate.
      * apply IN'. split; [eapply M2; eauto|exact Nr].
  - destruct (W o' x' F' E') as (ND & M1 & M2). split; [exact ND|]. split.
    + intros r' Ir. destruct (M1 r' Ir) as (rr' & Fr' & Pr'). exists rr'. rewrite find_add.
      destruct (Pos.eqb_spec r' r) as [->|Nr]; [|auto].
      rewrite Fr0 in Fr'. injection Fr' as <-. rewrite Pr0 in Pr'. injection Pr' as E.
      exfalso. apply No. symmetry. exact E.
    + intros r' rr' Fr' Er' Pr'. rewrite find_add in Fr'. destruct (Pos.eqb_spec r' r) as [->|Nr].
      * injection Fr' as <-. simpl in Pr'. discriminate.
      * eapply M2; eauto.
Qed.

(* no liveness is needed: get_region_index checks r.parent == o, so r is a member of no other live
   op's list, and if o itself is erased its clause is vacuous *)
Theorem detach_region_WF_gen : forall s s' o r res,
  WF s -> detach_region o r s = (s', Ok res) -> WF s'.
Proof.
  intros s s' o r res W H.
  eapply (WF_groups_T3 s s' W); [eapply detach_region_T1|eapply detach_region_T2|eapply detach_region_U|
                                 eapply detach_region_I|eapply detach_region_A|]; try exact H.
  unfold detach_region in H. apply bind_ok in H as (s0 & i & Hi & H). unfold get_region_index in Hi.
  apply bind_ok in Hi as (s0' & rr & Hg & Hi). apply getR_ok in Hg as [-> Fr0].
  destruct (opt_eqb (r_parent rr) (Some o)) eqn:Pe; cbn [negb] in Hi; [|exfalso; exact (raise_ok _ _ _ _ Hi)].
  apply opt_eqb_eq in Pe.
  apply bind_ok in Hi as (s0' & x0 & Hg & Hi). apply getO_ok in Hg as [-> Fx0].
  destruct (find_index (o_regions x0) r 0) as [z|] eqn:FI; [|exfalso; exact (raise_ok _ _ _ _ Hi)].
  apply ret_ok in Hi as [-> ->].
  destruct (find_index_spec _ _ _ _ FI) as (n & -> & Nn). rewrite Z.add_0_l in H.
  eapply detach_region_at_opregs; [apply (wf_opregs s W)|exact Fx0|exact Fr0|exact Pe|exact Nn|exact H].
Qed.

Theorem detach_region_WF : forall s s' o r res,
  WF s -> op_live s o -> reg_live s r -> detach_region o r s = (s', Ok res) -> WF s'.
Proof. intros s s' o r res W _ _ H. eapply detach_region_WF_gen; eauto. Qed.

(* here o must be live: the region found at the index is known to point back to o (and hence to be
   in no other list) only through o's own WF_opregs clause *)
Theorem detach_region_idx_WF : forall s s' o idx res,
  WF s -> op_live s o -> detach_region_idx o idx s = (s', Ok res) -> WF s'.
Proof.
  intros s s' o idx res W (x0' & Fx & Ex) H.
  eapply (WF_groups_T3 s s' W); [eapply detach_region_idx_T1|eapply detach_region_idx_T2|eapply detach_region_idx_U|
                                 eapply detach_region_idx_I|eapply detach_region_idx_A|]; try exact H.
  unfold detach_region_idx in H.
  apply bind_ok in H as (s0 & x0 & Hg & H). apply getO_ok in Hg as [-> Fx0].
  rewrite Fx in Fx0. injection Fx0 as <-.
  apply bind_ok in H as (s0 & r & Hi & H). apply index_or_raise_ok in Hi as [-> Pi].
  destruct (py_index_norm _ _ _ Pi) as (n & En & Nn). rewrite En in H.
  destruct (wf_opregs s W o x0' Fx Ex) as (_ & M1 & _).
  destruct (M1 r (nth_error_In _ _ Nn)) as (rr & Fr & Pr).
  eapply detach_region_at_opregs; [apply (wf_opregs s W)|exact Fx|exact Fr|exact Pr|exact Nn|exact H].
Qed.
