(* C01/Enc.v -- canonical printing of the model heap for the correspondence check
   (definitions only; evaluated with vm_compute inside generated case files).

   One history = one case.  After every call the case prints
     (outcome payload (changed op records) (changed block records) (changed region records)
      (changed value records) (changed use records) wf_b)
   where "changed" = records of the new state that differ from the same id in the previous
   state (or are new).  The harness computes the same deltas from its own dumps of the real
   objects (harness/irdump.py), so comparing all deltas = comparing all heaps, field by field.

   record layouts (None = 0, ids >= 1):
     op     (id (operands) (operand_uses) (results) (successors) (successor_uses) (regions)
             parent next prev erased)
     block  (id (args) first_op last_op next prev parent first_use erased)
     region (id first_block last_block parent erased)
     value  (id kind owner index first_use dead)     kind: 0 OpResult, 1 BlockArgument, 2 Erased (owner = old value)
     use    (id op index prev next)
   outcome: 0 ok | 3 ValueError | 5 IndexError | 6 AssertionError | 20 StopIteration | 98 BadCall | 99 OutOfFuel
   payload: 0 none | (kind id) with kind 1 op, 2 block, 3 region, 4 value *)
From Coq Require Import ZArith List Bool PArith FMapPositive.
From XV Require Import Base.Show C01.Model C01.Spec.
Import ListNotations.
Local Open Scope Z_scope.

Definition eP (p : positive) : sx := I (Zpos p).
Definition eO (o : option positive) : sx := match o with Some p => I (Zpos p) | None => I 0 end.
Definition eLP (l : list positive) : sx := L (map eP l).

Definition enc_op (o : oid) (x : op_rec) : sx :=
  L [eP o; eLP (o_operands x); eLP (o_operand_uses x); eLP (o_results x); eLP (o_successors x);
     eLP (o_successor_uses x); eLP (o_regions x); eO (o_parent x); eO (o_next x); eO (o_prev x);
     sB (o_erased x)].
Definition enc_block (b : bid) (x : block_rec) : sx :=
  L [eP b; eLP (b_args x); eO (b_first_op x); eO (b_last_op x); eO (b_next x); eO (b_prev x);
     eO (b_parent x); eO (b_first_use x); sB (b_erased x)].
Definition enc_region (r : rid) (x : region_rec) : sx :=
  L [eP r; eO (r_first x); eO (r_last x); eO (r_parent x); sB (r_erased x)].
Definition enc_value (v : vid) (x : value_rec) : sx :=
  match v_kind x with
  | KRes o i => L [eP v; I 0; eP o; I i; eO (v_first_use x); sB (v_dead x)]
  | KArg b i => L [eP v; I 1; eP b; I i; eO (v_first_use x); sB (v_dead x)]
  | KErased old => L [eP v; I 2; eP old; I 0; eO (v_first_use x); sB (v_dead x)]
  end.
Definition enc_use (u : uid) (x : use_rec) : sx :=
  L [eP u; eP (u_op x); I (u_idx x); eO (u_prev x); eO (u_next x)].

Fixpoint sx_eqb (a b : sx) : bool :=
  match a, b with
  | I x, I y => x =? y
  | L l, L l' =>
      (fix go (l l' : list sx) : bool :=
         match l, l' with
         | [], [] => true
         | x :: r, y :: r' => sx_eqb x y && go r r'
         | _, _ => false
         end) l l'
  | _, _ => false
  end.

Fixpoint pos_seq (start : positive) (n : nat) : list positive :=
  match n with O => [] | S k => start :: pos_seq (Pos.succ start) k end.
Definition ids_below (n : positive) : list positive := pos_seq 1 (Pos.to_nat n - 1).

Definition delta {R} (enc : positive -> R -> sx) (old new : PM.t R) (n : positive) : sx :=
  L (flat_map (fun i => match PM.find i new with
                        | None => []
                        | Some x => let e := enc i x in
                                    match PM.find i old with
                                    | Some y => if sx_eqb (enc i y) e then [] else [e]
                                    | None => [e]
                                    end
                        end) (ids_below n)).

Definition enc_exn (e : exn) : Z :=
  match e with
  | ValueError => 3 | IndexError => 5 | AssertionError => 6 | StopIteration => 20
  | BadCall => 98 | OutOfFuel => 99
  end.
Definition enc_payload (p : payload) : sx :=
  match p with
  | PNone => I 0
  | POp o => L [I 1; eP o] | PBlock b => L [I 2; eP b]
  | PRegion r => L [I 3; eP r] | PValue v => L [I 4; eP v]
  end.

Definition enc_step (s s' : state) (r : res payload) : sx :=
  L [I (match r with Ok _ => 0 | Raise e => enc_exn e end);
     match r with Ok p => enc_payload p | Raise _ => I 0 end;
     delta enc_op (s_ops s) (s_ops s') (n_op s');
     delta enc_block (s_blocks s) (s_blocks s') (n_block s');
     delta enc_region (s_regions s) (s_regions s') (n_region s');
     delta enc_value (s_values s) (s_values s') (n_value s');
     delta enc_use (s_uses s) (s_uses s') (n_use s');
     sB (wf_b s')].

Fixpoint trace (cs : list call) (s : state) : list sx :=
  match cs with
  | [] => []
  | c :: r => let sr := step s c in enc_step s (fst sr) (snd sr) :: trace r (fst sr)
  end.

(* compact form for bulk runs: the five delta lists of a call are replaced by two independent
   polynomial hashes (mod 2^31, two odd multipliers) of the same nested list; the harness computes the
   same hashes from its own dump and re-runs a case in full form (c01_case) when they differ *)
Definition hM : Z := 2147483647.   (* 2^31 - 1, used as a bit mask *)
Fixpoint hash_sx (B : Z) (x : sx) (acc : Z) : Z :=
  match x with
  | I z => Z.land (acc * B + (z + 101)) hM
  | L l =>
      let a1 := Z.land (acc * B + 7) hM in
      let a2 := (fix go (l : list sx) (a : Z) : Z :=
                   match l with [] => a | y :: r => go r (hash_sx B y a) end) l a1 in
      Z.land (a2 * B + 11) hM
  end.

Definition enc_step_h (s s' : state) (r : res payload) : sx :=
  let d := L [delta enc_op (s_ops s) (s_ops s') (n_op s');
              delta enc_block (s_blocks s) (s_blocks s') (n_block s');
              delta enc_region (s_regions s) (s_regions s') (n_region s');
              delta enc_value (s_values s) (s_values s') (n_value s');
              delta enc_use (s_uses s) (s_uses s') (n_use s')] in
  L [I (match r with Ok _ => 0 | Raise e => enc_exn e end);
     match r with Ok p => enc_payload p | Raise _ => I 0 end;
     I (hash_sx 1000003 d 1); I (hash_sx 998244353 d 1);
     sB (wf_b s')].

Fixpoint trace_h (cs : list call) (s : state) : list sx :=
  match cs with
  | [] => []
  | c :: r => let sr := step s c in enc_step_h s (fst sr) (snd sr) :: trace_h r (fst sr)
  end.
Definition c01_case_h (cs : list call) : sx := L (trace_h cs empty_state).

(* one correspondence case: a whole history from the empty heap *)
Definition c01_case (cs : list call) : sx := L (trace cs empty_state).

(* full dump of a state (used by --replay and by Examples) *)
Definition dump (s : state) : sx :=
  L [delta enc_op (PM.empty _) (s_ops s) (n_op s);
     delta enc_block (PM.empty _) (s_blocks s) (n_block s);
     delta enc_region (PM.empty _) (s_regions s) (n_region s);
     delta enc_value (PM.empty _) (s_values s) (n_value s);
     delta enc_use (PM.empty _) (s_uses s) (n_use s)].
