(* C01/ProofsDll.v -- generic doubly-linked-list reasoning (over abstract pointer views), used
   for ops-in-a-block (WF_block) and blocks-in-a-region (WF_region).

   A view gives, for every node id: its next / prev link, its parent container, whether it is
   live; and for every live container its (first, last) pair.  `Dabs V` is WF_block / WF_region
   stated on a view.  The lemmas describe the new list of a container after the pointer
   assignments of insert-after, insert-before, insert-into-empty and unlink, and the frame
   property for all other containers. *)
From Coq Require Import ZArith List Bool PArith FMapPositive Lia.
From XV Require Import C01.Model C01.Spec C01.ProofsBase C01.ProofsUses.
Import ListNotations.

Definition lnk := positive -> option (option positive).

(* ------------------------------------------------------------------ singly linked chains *)

Lemma chain_insert_after : forall (N N' : lnk) st a x b new,
  chain N st (a ++ x :: b) -> ~ In new (a ++ x :: b) -> NoDup (a ++ x :: b) ->
  (forall y, y <> x -> y <> new -> N' y = N y) ->
  N' x = Some (Some new) -> N' new = N x ->
  chain N' st (a ++ x :: new :: b).
Proof.
  intros N N' st a x b new C Nn ND E Ex En.
  destruct (chain_split _ _ _ _ _ C) as (S1 & nn & Nx & C2).
  destruct (NoDup_app_inv _ _ ND) as (_ & NDx & D). inversion NDx; subst.
  eapply seg_chain_app.
  - eapply seg_ext; [|exact S1]. intros y Iy. apply E.
    + intro; subst. eapply D; [exact Iy|left; reflexivity].
    + intro; subst. apply Nn. apply in_or_app. left. exact Iy.
  - econstructor; [exact Ex|]. econstructor; [rewrite En; exact Nx|].
    eapply chain_ext; [|exact C2]. intros y Iy. apply E.
    + intro; subst. contradiction.
    + intro; subst. apply Nn. apply in_or_app. right. right. exact Iy.
Qed.

Lemma chain_insert_before : forall (N N' : lnk) st a x b new,
  chain N st (a ++ x :: b) -> ~ In new (a ++ x :: b) -> NoDup (a ++ x :: b) ->
  (forall y, y <> new -> last_or None a <> Some y -> N' y = N y) ->
  N' new = Some (Some x) ->
  (forall p, last_or None a = Some p -> N' p = Some (Some new)) ->
  chain N' (match a with [] => Some new | _ => st end) (a ++ new :: x :: b).
Proof.
  intros N N' st a x b new C Nn ND E En Ep.
  destruct (chain_split _ _ _ _ _ C) as (S1 & nn & Nx & C2).
  destruct (NoDup_app_inv _ _ ND) as (NDa & NDx & D). inversion NDx; subst.
  assert (TL : chain N' (Some x) (x :: b)).
  { econstructor.
    - rewrite E; [exact Nx| |].
      + intro; subst. apply Nn. apply in_or_app. right. left. reflexivity.
      + intro L. apply last_or_In in L. destruct L as [L|L]; [discriminate|]. eapply D; [exact L|left; reflexivity].
    - eapply chain_ext; [|exact C2]. intros y Iy. apply E.
      + intro; subst. apply Nn. apply in_or_app. right. right. exact Iy.
      + intro L. apply last_or_In in L. destruct L as [L|L]; [discriminate|]. eapply D; [exact L|right; exact Iy]. }
  destruct (list_snoc_cases a) as [->|(a' & p & ->)].
  - simpl. econstructor; [exact En|exact TL].
  - rewrite match_snoc. rewrite <- app_assoc. simpl.
    destruct (seg_snoc_inv _ _ _ _ _ S1) as [S1' Np].
    destruct (NoDup_app_inv _ _ NDa) as (_ & _ & Dp).
    eapply seg_chain_app.
    + eapply seg_ext; [|exact S1']. intros y Iy. apply E.
      * intro; subst. apply Nn. apply in_or_app. left. apply in_or_app. left. exact Iy.
      * rewrite last_or_app. intro L. injection L as <-. eapply Dp; [exact Iy|left; reflexivity].
    + econstructor; [apply Ep; apply last_or_app|]. econstructor; [exact En|exact TL].
Qed.

Lemma chain_remove : forall (N N' : lnk) st a x b,
  chain N st (a ++ x :: b) -> NoDup (a ++ x :: b) ->
  (forall y, y <> x -> last_or None a <> Some y -> N' y = N y) ->
  (forall p, last_or None a = Some p -> N' p = N x) ->
  chain N' (match a with [] => hd_error b | _ => st end) (a ++ b).
Proof.
  intros N N' st a x b C ND E Ep.
  destruct (chain_split _ _ _ _ _ C) as (S1 & nn & Nx & C2).
  pose proof (chain_head _ _ _ C2) as Hnn. subst nn.
  destruct (NoDup_app_inv _ _ ND) as (NDa & NDx & D). inversion NDx; subst.
  assert (TL : chain N' (hd_error b) b).
  { eapply chain_ext; [|exact C2]. intros y Iy. apply E.
    - intro; subst. contradiction.
    - intro L. apply last_or_In in L. destruct L as [L|L]; [discriminate|]. eapply D; [exact L|right; exact Iy]. }
  destruct (list_snoc_cases a) as [->|(a' & p & ->)].
  - simpl. exact TL.
  - rewrite match_snoc. rewrite <- app_assoc. simpl.
    destruct (seg_snoc_inv _ _ _ _ _ S1) as [S1' Np].
    destruct (NoDup_app_inv _ _ NDa) as (_ & _ & Dp).
    eapply seg_chain_app.
    + eapply seg_ext; [|exact S1']. intros y Iy. apply E.
      * intro; subst. eapply D; [apply in_or_app; left; exact Iy|left; reflexivity].
      * rewrite last_or_app. intro L. injection L as <-. eapply Dp; [exact Iy|left; reflexivity].
    + econstructor; [rewrite (Ep p (last_or_app _ _ _)); exact Nx|exact TL].
Qed.

Lemma NoDup_insert : forall {A} (a b : list A) x, NoDup (a ++ b) -> ~ In x (a ++ b) -> NoDup (a ++ x :: b).
Proof.
  intros A a. induction a as [|y r IH]; intros b x ND Nx; simpl in *.
  - constructor; assumption.
  - inversion ND; subst. constructor.
    + intro I. apply in_app_or in I. destruct I as [I|[E|I]].
      * apply H1. apply in_or_app. left. exact I.
      * subst. apply Nx. left. reflexivity.
      * apply H1. apply in_or_app. right. exact I.
    + apply IH; [assumption|]. intro I. apply Nx. right. exact I.
Qed.

Lemma last_or_rev : forall (l : list positive) p, last_or p (rev l) = match l with [] => p | x :: _ => Some x end.
Proof.
  intros l p. destruct l as [|x r]; [reflexivity|]. simpl. apply last_or_app.
Qed.

Lemma match_rev : forall {B} (l : list positive) (a b : B),
  match rev l with [] => a | _ :: _ => b end = match l with [] => a | _ :: _ => b end.
Proof.
  intros B l a b. destruct l as [|z t]; [reflexivity|]. simpl. destruct (rev t ++ [z]) eqn:Q; [|reflexivity].
  apply app_eq_nil in Q. destruct Q; discriminate.
Qed.

Lemma hd_error_rev : forall (l : list positive), hd_error (rev l) = last_or None l.
Proof.
  intros l. destruct (list_snoc_cases l) as [->|(l' & x & ->)]; [reflexivity|].
  rewrite rev_app_distr. simpl. symmetry. apply last_or_app.
Qed.

(* ------------------------------------------------------------------ views *)

Record dview := mkView {
  dN : lnk; dP : lnk;
  dPar : positive -> option (option positive);
  dLive : positive -> bool;
  dFL : positive -> option (option positive * option positive) }.

Definition dll_at (V : dview) (c : positive) (first last : option positive) (l : list positive) : Prop :=
  chain (dN V) first l /\ chain (dP V) last (rev l) /\ NoDup l /\
  (forall x, In x l -> dPar V x = Some (Some c)) /\
  (forall x, dLive V x = true -> dPar V x = Some (Some c) -> In x l).

Definition Dabs (V : dview) : Prop :=
  forall c f la, dFL V c = Some (f, la) -> exists l, dll_at V c f la l.

(* frame: a container none of whose nodes is touched keeps its list *)
Lemma dll_frame : forall V V' c f la l,
  dll_at V c f la l ->
  (forall x, dPar V x = Some (Some c) -> dN V' x = dN V x /\ dP V' x = dP V x /\ dPar V' x = dPar V x) ->
  (forall x, dLive V' x = true -> dPar V' x = Some (Some c) -> dLive V x = true /\ dPar V x = Some (Some c)) ->
  dll_at V' c f la l.
Proof.
  intros V V' c f la l (C1 & C2 & ND & M1 & M2) E B.
  repeat split.
  - eapply chain_ext; [|exact C1]. intros x Ix. apply (E x (M1 x Ix)).
  - eapply chain_ext; [|exact C2]. intros x Ix. apply in_rev in Ix. apply (E x (M1 x Ix)).
  - exact ND.
  - intros x Ix. destruct (E x (M1 x Ix)) as (_ & _ & Q). rewrite Q. apply M1. exact Ix.
  - intros x Lx Px. destruct (B x Lx Px) as [L0 P0]. apply M2; assumption.
Qed.

(* the node `new` (detached: parent None) is linked after `ex` *)
Lemma dll_insert_after : forall V V' c f la l1 ex l2 new,
  dll_at V c f la (l1 ++ ex :: l2) ->
  dPar V new = Some None ->
  (forall y, y <> ex -> y <> new -> dN V' y = dN V y) ->
  dN V' ex = Some (Some new) -> dN V' new = dN V ex ->
  (forall y, y <> new -> hd_error l2 <> Some y -> dP V' y = dP V y) ->
  dP V' new = Some (Some ex) ->
  (forall n, hd_error l2 = Some n -> dP V' n = Some (Some new)) ->
  (forall y, y <> new -> dPar V' y = dPar V y) -> dPar V' new = Some (Some c) ->
  (forall y, dLive V' y = dLive V y) ->
  dll_at V' c f (match l2 with [] => Some new | _ => la end) (l1 ++ ex :: new :: l2).
Proof.
  intros V V' c f la l1 ex l2 new (C1 & C2 & ND & M1 & M2) Pn EN ENx ENn EP EPn EPh EPar EParn EL.
  assert (Nn : ~ In new (l1 ++ ex :: l2)).
  { intro I. rewrite (M1 new I) in Pn. discriminate. }
  repeat split.
  - eapply chain_insert_after; eauto.
  - replace (rev (l1 ++ ex :: new :: l2)) with (rev l2 ++ new :: ex :: rev l1)
      by (rewrite rev_app_distr; simpl; rewrite <- !app_assoc; reflexivity).
    assert (R0 : rev (l1 ++ ex :: l2) = rev l2 ++ ex :: rev l1)
      by (rewrite rev_app_distr; simpl; rewrite <- !app_assoc; reflexivity).
    rewrite R0 in C2.
    rewrite <- (match_rev l2).
    eapply chain_insert_before.
    + exact C2.
    + rewrite <- R0. intro I. apply in_rev in I. contradiction.
    + rewrite <- R0. apply NoDup_rev. exact ND.
    + intros y Ny L. apply EP; [exact Ny|]. rewrite last_or_rev in L. destruct l2; simpl; [discriminate|exact L].
    + exact EPn.
    + intros p L. apply EPh. rewrite last_or_rev in L. destruct l2; simpl; [discriminate|exact L].
  - change (l1 ++ ex :: new :: l2) with (l1 ++ (ex :: nil) ++ new :: l2). rewrite app_assoc.
    apply NoDup_insert; rewrite <- app_assoc; simpl; assumption.
  - intros x Ix. assert (Q : x = new \/ In x (l1 ++ ex :: l2)).
    { apply in_app_or in Ix. destruct Ix as [I|[E|[E|I]]]; subst.
      - right. apply in_or_app. left. exact I.
      - right. apply in_or_app. right. left. reflexivity.
      - left. reflexivity.
      - right. apply in_or_app. right. right. exact I. }
    destruct Q as [->|I]; [exact EParn|].
    rewrite EPar; [apply M1; exact I|]. intro; subst. contradiction.
  - intros x Lx Px. destruct (Pos.eq_dec x new) as [->|N].
    + apply in_or_app. right. right. left. reflexivity.
    + rewrite EL in Lx. rewrite (EPar x N) in Px. pose proof (M2 x Lx Px) as I.
      apply in_app_or in I. apply in_or_app. destruct I as [I|[E|I]]; [left; exact I|right; left; exact E|right; right; right; exact I].
Qed.

(* the node `new` is linked before `ex` *)
Lemma dll_insert_before : forall V V' c f la l1 ex l2 new,
  dll_at V c f la (l1 ++ ex :: l2) ->
  dPar V new = Some None ->
  (forall y, y <> ex -> y <> new -> dP V' y = dP V y) ->
  dP V' ex = Some (Some new) -> dP V' new = dP V ex ->
  (forall y, y <> new -> last_or None l1 <> Some y -> dN V' y = dN V y) ->
  dN V' new = Some (Some ex) ->
  (forall p, last_or None l1 = Some p -> dN V' p = Some (Some new)) ->
  (forall y, y <> new -> dPar V' y = dPar V y) -> dPar V' new = Some (Some c) ->
  (forall y, dLive V' y = dLive V y) ->
  dll_at V' c (match l1 with [] => Some new | _ => f end) la (l1 ++ new :: ex :: l2).
Proof.
  intros V V' c f la l1 ex l2 new (C1 & C2 & ND & M1 & M2) Pn EP EPx EPn EN ENn ENh EPar EParn EL.
  assert (Nn : ~ In new (l1 ++ ex :: l2)).
  { intro I. rewrite (M1 new I) in Pn. discriminate. }
  repeat split.
  - eapply chain_insert_before; eauto.
  - replace (rev (l1 ++ new :: ex :: l2)) with (rev l2 ++ ex :: new :: rev l1)
      by (rewrite rev_app_distr; simpl; rewrite <- !app_assoc; reflexivity).
    assert (R0 : rev (l1 ++ ex :: l2) = rev l2 ++ ex :: rev l1)
      by (rewrite rev_app_distr; simpl; rewrite <- !app_assoc; reflexivity).
    rewrite R0 in C2.
    eapply chain_insert_after.
    + exact C2.
    + rewrite <- R0. intro I. apply in_rev in I. contradiction.
    + rewrite <- R0. apply NoDup_rev. exact ND.
    + exact EP.
    + exact EPx.
    + exact EPn.
  - apply NoDup_insert; assumption.
  - intros x Ix. assert (Q : x = new \/ In x (l1 ++ ex :: l2)).
    { apply in_app_or in Ix. destruct Ix as [I|[E|I]]; subst.
      - right. apply in_or_app. left. exact I.
      - left. reflexivity.
      - right. apply in_or_app. right. exact I. }
    destruct Q as [->|I]; [exact EParn|].
    rewrite EPar; [apply M1; exact I|]. intro; subst. contradiction.
  - intros x Lx Px. destruct (Pos.eq_dec x new) as [->|N].
    + apply in_or_app. right. left. reflexivity.
    + rewrite EL in Lx. rewrite (EPar x N) in Px. pose proof (M2 x Lx Px) as I.
      apply in_app_or in I. apply in_or_app. destruct I as [I|I]; [left; exact I|right; right; exact I].
Qed.

(* the node `new` becomes the only node of an empty container *)
Lemma dll_insert_empty : forall V V' c new,
  dll_at V c None None [] ->
  dPar V new = Some None ->
  (forall y, y <> new -> dPar V' y = dPar V y) -> dPar V' new = Some (Some c) ->
  (forall y, dLive V' y = dLive V y) ->
  dN V' new = Some None -> dP V' new = Some None ->
  dll_at V' c (Some new) (Some new) [new].
Proof.
  intros V V' c new (C1 & C2 & ND & M1 & M2) Pn EPar EParn EL ENn EPn.
  repeat split.
  - econstructor; [exact ENn|constructor].
  - simpl. econstructor; [exact EPn|constructor].
  - constructor; [intros []|constructor].
  - intros x [<-|[]]. exact EParn.
  - intros x Lx Px. destruct (Pos.eq_dec x new) as [->|N]; [left; reflexivity|].
    rewrite EL in Lx. rewrite (EPar x N) in Px. destruct (M2 x Lx Px).
Qed.

(* the node x is unlinked and its parent cleared *)
Lemma dll_remove : forall V V' c f la l1 x l2,
  dll_at V c f la (l1 ++ x :: l2) ->
  (forall y, y <> x -> last_or None l1 <> Some y -> dN V' y = dN V y) ->
  (forall p, last_or None l1 = Some p -> dN V' p = dN V x) ->
  (forall y, y <> x -> hd_error l2 <> Some y -> dP V' y = dP V y) ->
  (forall n, hd_error l2 = Some n -> dP V' n = dP V x) ->
  (forall y, y <> x -> dPar V' y = dPar V y) -> dPar V' x <> Some (Some c) ->
  (forall y, dLive V' y = dLive V y) ->
  dll_at V' c (match l1 with [] => hd_error l2 | _ => f end)
              (match l2 with [] => last_or None l1 | _ => la end) (l1 ++ l2).
Proof.
  intros V V' c f la l1 x l2 (C1 & C2 & ND & M1 & M2) EN ENp EP EPn EPar EParx EL.
  assert (R0 : rev (l1 ++ x :: l2) = rev l2 ++ x :: rev l1)
    by (rewrite rev_app_distr; simpl; rewrite <- !app_assoc; reflexivity).
  repeat split.
  - eapply chain_remove; eauto.
  - rewrite rev_app_distr. rewrite R0 in C2.
    rewrite <- (match_rev l2), <- hd_error_rev.
    eapply chain_remove.
    + exact C2.
    + rewrite <- R0. apply NoDup_rev. exact ND.
    + intros y Ny L. apply EP; [exact Ny|]. rewrite last_or_rev in L. destruct l2; simpl; [discriminate|exact L].
    + intros p L. apply EPn. rewrite last_or_rev in L. destruct l2; simpl; [discriminate|exact L].
  - apply NoDup_remove_1 in ND. exact ND.
  - intros y Iy. assert (I : In y (l1 ++ x :: l2)).
    { apply in_app_or in Iy. apply in_or_app. destruct Iy; [left|right; right]; assumption. }
    rewrite EPar; [apply M1; exact I|]. intro; subst. apply NoDup_remove_2 in ND. contradiction.
  - intros y Ly Py. destruct (Pos.eq_dec y x) as [->|N]; [contradiction|].
    rewrite EL in Ly. rewrite (EPar y N) in Py. pose proof (M2 y Ly Py) as I.
    apply in_app_or in I. apply in_or_app. destruct I as [I|[E|I]]; [left; exact I|congruence|right; exact I].
Qed.
