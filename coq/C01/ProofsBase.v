(* C01/ProofsBase.v -- inversion lemmas for the state monad of Model.v, table lemmas,
   and the symbolic-execution tactic used by all preservation proofs. *)
From Coq Require Import ZArith List Bool PArith FMapPositive Lia.
From XV Require Import C01.Model C01.Spec.
Import ListNotations.
Local Open Scope Z_scope.

(* ------------------------------------------------------------------ monad *)

Lemma bind_ok : forall {A B} (m : M A) (f : A -> M B) s s' b,
  bind m f s = (s', Ok b) -> exists s1 a, m s = (s1, Ok a) /\ f a s1 = (s', Ok b).
Proof.
  intros A B m f s s' b H. unfold bind in H.
  destruct (m s) as [s1 [a|e]] eqn:E.
  - exists s1, a. split; [reflexivity|exact H].
  - discriminate.
Qed.

Lemma ret_ok : forall {A} (a b : A) s s', ret a s = (s', Ok b) -> s' = s /\ b = a.
Proof. intros A a b s s' H. unfold ret in H. inversion H. auto. Qed.

Lemma raise_ok : forall {A} e s s' (b : A), raise e s = (s', Ok b) -> False.
Proof. intros A e s s' b H. unfold raise in H. discriminate. Qed.

Lemma gets_ok : forall {A} (f : state -> A) s s' b, gets f s = (s', Ok b) -> s' = s /\ b = f s.
Proof. intros A f s s' b H. unfold gets in H. inversion H. auto. Qed.

Lemma assert_ok : forall c s s' u, assert_ c s = (s', Ok u) -> s' = s /\ c = true.
Proof. intros c s s' u H. unfold assert_ in H. destruct c; [apply ret_ok in H; tauto|discriminate]. Qed.

Lemma when_true_ok : forall c m s s' u, when c m s = (s', Ok u) ->
  (c = true /\ m s = (s', Ok u)) \/ (c = false /\ s' = s).
Proof.
  intros c m s s' u H. unfold when in H. destruct c.
  - left. destruct u. auto.
  - right. apply ret_ok in H. tauto.
Qed.

Lemma getO_ok : forall o s s' x, getO o s = (s', Ok x) -> s' = s /\ PM.find o (s_ops s) = Some x.
Proof. intros o s s' x H. unfold getO in H. destruct (PM.find o (s_ops s)); inversion H; auto. Qed.
Lemma getB_ok : forall o s s' x, getB o s = (s', Ok x) -> s' = s /\ PM.find o (s_blocks s) = Some x.
Proof. intros o s s' x H. unfold getB in H. destruct (PM.find o (s_blocks s)); inversion H; auto. Qed.
Lemma getR_ok : forall o s s' x, getR o s = (s', Ok x) -> s' = s /\ PM.find o (s_regions s) = Some x.
Proof. intros o s s' x H. unfold getR in H. destruct (PM.find o (s_regions s)); inversion H; auto. Qed.
Lemma getV_ok : forall o s s' x, getV o s = (s', Ok x) -> s' = s /\ PM.find o (s_values s) = Some x.
Proof. intros o s s' x H. unfold getV in H. destruct (PM.find o (s_values s)); inversion H; auto. Qed.
Lemma getU_ok : forall o s s' x, getU o s = (s', Ok x) -> s' = s /\ PM.find o (s_uses s) = Some x.
Proof. intros o s s' x H. unfold getU in H. destruct (PM.find o (s_uses s)); inversion H; auto. Qed.

Lemma updO_ok : forall o f s s' u, updO o f s = (s', Ok u) ->
  exists x, PM.find o (s_ops s) = Some x /\ s' = with_ops (PM.add o (f x) (s_ops s)) s.
Proof. intros o f s s' u H. unfold updO in H. destruct (PM.find o (s_ops s)) as [x|]; inversion H. eauto. Qed.
Lemma updB_ok : forall o f s s' u, updB o f s = (s', Ok u) ->
  exists x, PM.find o (s_blocks s) = Some x /\ s' = with_blocks (PM.add o (f x) (s_blocks s)) s.
Proof. intros o f s s' u H. unfold updB in H. destruct (PM.find o (s_blocks s)) as [x|]; inversion H. eauto. Qed.
Lemma updR_ok : forall o f s s' u, updR o f s = (s', Ok u) ->
  exists x, PM.find o (s_regions s) = Some x /\ s' = with_regions (PM.add o (f x) (s_regions s)) s.
Proof. intros o f s s' u H. unfold updR in H. destruct (PM.find o (s_regions s)) as [x|]; inversion H. eauto. Qed.
Lemma updV_ok : forall o f s s' u, updV o f s = (s', Ok u) ->
  exists x, PM.find o (s_values s) = Some x /\ s' = with_values (PM.add o (f x) (s_values s)) s.
Proof. intros o f s s' u H. unfold updV in H. destruct (PM.find o (s_values s)) as [x|]; inversion H. eauto. Qed.
Lemma updU_ok : forall o f s s' u, updU o f s = (s', Ok u) ->
  exists x, PM.find o (s_uses s) = Some x /\ s' = with_uses (PM.add o (f x) (s_uses s)) s.
Proof. intros o f s s' u H. unfold updU in H. destruct (PM.find o (s_uses s)) as [x|]; inversion H. eauto. Qed.

(* ------------------------------------------------------------------ tables *)

Lemma find_add : forall {R} (m : PM.t R) i j x,
  PM.find i (PM.add j x m) = if Pos.eqb i j then Some x else PM.find i m.
Proof.
  intros R m i j x. destruct (Pos.eqb_spec i j) as [->|N].
  - apply PM.gss.
  - apply PM.gso. exact N.
Qed.

Lemma find_add_same : forall {R} (m : PM.t R) i x, PM.find i (PM.add i x m) = Some x.
Proof. intros. apply PM.gss. Qed.
Lemma find_add_other : forall {R} (m : PM.t R) i j x, i <> j -> PM.find i (PM.add j x m) = PM.find i m.
Proof. intros. apply PM.gso. assumption. Qed.

Lemma opt_eqb_eq : forall a b, opt_eqb a b = true <-> a = b.
Proof.
  intros [a|] [b|]; simpl; split; intro H; try discriminate; try reflexivity.
  - apply Pos.eqb_eq in H. congruence.
  - inversion H. apply Pos.eqb_refl.
Qed.
Lemma opt_eqb_neq : forall a b, opt_eqb a b = false <-> a <> b.
Proof.
  intros a b. split; intro H.
  - intro E. apply opt_eqb_eq in E. congruence.
  - destruct (opt_eqb a b) eqn:E; [apply opt_eqb_eq in E; contradiction|reflexivity].
Qed.

Lemma is_some_false : forall {A} (o : option A), is_some o = false <-> o = None.
Proof. intros A [a|]; simpl; split; intro; congruence. Qed.

(* one inversion step on a hypothesis  `m s = (s', Ok r)` *)
Ltac minv1 H :=
  match type of H with
  | bind _ _ _ = (_, Ok _) =>
      let s1 := fresh "s" in let a := fresh "a" in let H1 := fresh "H" in let H2 := fresh "H" in
      apply bind_ok in H; destruct H as (s1 & a & H1 & H2); minv1 H1; minv1 H2
  | ret _ _ = (_, Ok _) =>
      let E1 := fresh in let E2 := fresh in apply ret_ok in H; destruct H as [E1 E2]; subst
  | raise _ _ = (_, Ok _) => exfalso; exact (raise_ok _ _ _ _ H)
  | gets _ _ = (_, Ok _) =>
      let E1 := fresh in let E2 := fresh in apply gets_ok in H; destruct H as [E1 E2]; subst
  | get_fuel _ = (_, Ok _) =>
      let E1 := fresh in let E2 := fresh in unfold get_fuel in H; apply gets_ok in H; destruct H as [E1 E2]; subst
  | assert_ _ _ = (_, Ok _) =>
      let E1 := fresh in let E2 := fresh "Hassert" in apply assert_ok in H; destruct H as [E1 E2]; subst
  | getO _ _ = (_, Ok _) =>
      let E1 := fresh in let E2 := fresh "Hget" in apply getO_ok in H; destruct H as [E1 E2]; subst
  | getB _ _ = (_, Ok _) =>
      let E1 := fresh in let E2 := fresh "Hget" in apply getB_ok in H; destruct H as [E1 E2]; subst
  | getR _ _ = (_, Ok _) =>
      let E1 := fresh in let E2 := fresh "Hget" in apply getR_ok in H; destruct H as [E1 E2]; subst
  | getV _ _ = (_, Ok _) =>
      let E1 := fresh in let E2 := fresh "Hget" in apply getV_ok in H; destruct H as [E1 E2]; subst
  | getU _ _ = (_, Ok _) =>
      let E1 := fresh in let E2 := fresh "Hget" in apply getU_ok in H; destruct H as [E1 E2]; subst
  | updO _ _ _ = (_, Ok _) =>
      let x := fresh "x" in let E1 := fresh "Hupd" in let E2 := fresh in
      apply updO_ok in H; destruct H as (x & E1 & E2); subst
  | updB _ _ _ = (_, Ok _) =>
      let x := fresh "x" in let E1 := fresh "Hupd" in let E2 := fresh in
      apply updB_ok in H; destruct H as (x & E1 & E2); subst
  | updR _ _ _ = (_, Ok _) =>
      let x := fresh "x" in let E1 := fresh "Hupd" in let E2 := fresh in
      apply updR_ok in H; destruct H as (x & E1 & E2); subst
  | updV _ _ _ = (_, Ok _) =>
      let x := fresh "x" in let E1 := fresh "Hupd" in let E2 := fresh in
      apply updV_ok in H; destruct H as (x & E1 & E2); subst
  | updU _ _ _ = (_, Ok _) =>
      let x := fresh "x" in let E1 := fresh "Hupd" in let E2 := fresh in
      apply updU_ok in H; destruct H as (x & E1 & E2); subst
  | _ => idtac
  end.

(* state projections after the `with_*` updates *)
Lemma s_ops_with_ops : forall x s, s_ops (with_ops x s) = x. Proof. reflexivity. Qed.
Lemma s_blocks_with_ops : forall x s, s_blocks (with_ops x s) = s_blocks s. Proof. reflexivity. Qed.

(* ------------------------------------------------------------------ lists *)

Lemma mem_In : forall x l, mem x l = true <-> In x l.
Proof.
  intros x l. induction l as [|y r IH]; simpl.
  - split; [discriminate|tauto].
  - rewrite orb_true_iff, IH, Pos.eqb_eq. split; intros [H|H]; auto.
Qed.
Lemma mem_false : forall x l, mem x l = false <-> ~ In x l.
Proof.
  intros x l. split; intro H.
  - intro I. apply mem_In in I. congruence.
  - destruct (mem x l) eqn:E; [apply mem_In in E; contradiction|reflexivity].
Qed.

Lemma nodup_b_NoDup : forall l, nodup_b l = true <-> NoDup l.
Proof.
  induction l as [|x r IH]; simpl.
  - split; [constructor|reflexivity].
  - rewrite andb_true_iff, negb_true_iff, mem_false, IH. split.
    + intros [H1 H2]. constructor; assumption.
    + intro H. inversion H. auto.
Qed.

Lemma list_eqb_eq : forall l l', list_eqb l l' = true <-> l = l'.
Proof.
  induction l as [|x r IH]; destruct l' as [|y r']; simpl; split; intro H; try discriminate; try reflexivity.
  - apply andb_true_iff in H. destruct H as [H1 H2]. apply Pos.eqb_eq in H1. apply IH in H2. congruence.
  - inversion H. subst. rewrite Pos.eqb_refl. simpl. apply IH. reflexivity.
Qed.

Lemma forallb_elements : forall {R} (f : positive * R -> bool) (m : PM.t R),
  forallb f (PM.elements m) = true -> forall k v, PM.find k m = Some v -> f (k, v) = true.
Proof.
  intros R f m H k v F. rewrite forallb_forall in H. apply H. apply PM.elements_correct. exact F.
Qed.

(* ------------------------------------------------------------------ chains *)

Lemma chain_b_sound : forall nxt fl cur l, chain_b nxt fl cur = Some l -> chain nxt cur l.
Proof.
  intros nxt fl. induction fl as [|f IH]; intros cur l H.
  - destruct cur; simpl in H; [discriminate|]. inversion H. constructor.
  - destruct cur as [x|]; simpl in H.
    + destruct (nxt x) as [n|] eqn:E; [|discriminate].
      destruct (chain_b nxt f n) as [l0|] eqn:E2; [|discriminate].
      inversion H. subst. econstructor; eauto.
    + inversion H. constructor.
Qed.

Lemma chain_fun : forall nxt cur l l', chain nxt cur l -> chain nxt cur l' -> l = l'.
Proof.
  intros nxt cur l l' H. revert l'. induction H; intros l' H'; inversion H'; subst.
  - reflexivity.
  - f_equal. apply IHchain. congruence.
Qed.

Lemma chain_ext : forall nxt nxt' cur l,
  (forall x, In x l -> nxt' x = nxt x) -> chain nxt cur l -> chain nxt' cur l.
Proof.
  intros nxt nxt' cur l E H. induction H.
  - constructor.
  - econstructor.
    + rewrite E; [eassumption|left; reflexivity].
    + apply IHchain. intros y Iy. apply E. right. exact Iy.
Qed.

(* segments: following nxt from `cur` visits l and then reaches `stop` *)
Inductive seg (nxt : positive -> option (option positive)) : option positive -> list positive -> option positive -> Prop :=
| seg_nil : forall c, seg nxt c [] c
| seg_cons : forall x n l stop, nxt x = Some n -> seg nxt n l stop -> seg nxt (Some x) (x :: l) stop.

Lemma chain_seg : forall nxt cur l, chain nxt cur l <-> seg nxt cur l None.
Proof.
  intros nxt cur l. split; intro H.
  - induction H; econstructor; eauto.
  - remember None as stop. induction H; subst.
    + constructor.
    + econstructor; eauto.
Qed.

Lemma seg_app : forall nxt a l1 b l2 c, seg nxt a l1 b -> seg nxt b l2 c -> seg nxt a (l1 ++ l2) c.
Proof.
  intros nxt a l1 b l2 c H. induction H; intro H2; simpl.
  - exact H2.
  - econstructor; eauto.
Qed.

Lemma seg_split : forall nxt a l1 l2 c, seg nxt a (l1 ++ l2) c -> exists b, seg nxt a l1 b /\ seg nxt b l2 c.
Proof.
  intros nxt a l1. revert a. induction l1 as [|x r IH]; intros a l2 c H; simpl in H.
  - exists a. split; [constructor|exact H].
  - inversion H; subst. destruct (IH _ _ _ H5) as (b & S1 & S2).
    exists b. split; [econstructor; eauto|exact S2].
Qed.

Lemma seg_ext : forall nxt nxt' a l c,
  (forall x, In x l -> nxt' x = nxt x) -> seg nxt a l c -> seg nxt' a l c.
Proof.
  intros nxt nxt' a l c E H. induction H.
  - constructor.
  - econstructor.
    + rewrite E; [eassumption|left; reflexivity].
    + apply IHseg. intros y Iy. apply E. right. exact Iy.
Qed.

Lemma seg_cons_inv : forall nxt x l a c, seg nxt a (x :: l) c -> a = Some x /\ exists n, nxt x = Some n /\ seg nxt n l c.
Proof. intros nxt x l a c H. inversion H; subst. split; [reflexivity|eauto]. Qed.

Lemma seg_head : forall nxt a x l c, seg nxt a (x :: l) c -> a = Some x.
Proof. intros. inversion H. reflexivity. Qed.
