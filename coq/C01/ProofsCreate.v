(* C01/ProofsCreate.v -- WF is preserved by the constructors Block(...), Region(...), Operation.create(...).

   IMPORTANT: `WF s` alone does NOT imply that creation keeps WF: no clause of WF excludes a live
   node whose `parent` field holds an id that is not allocated yet (WF_alloc bounds table keys,
   not pointers).  E.g. ops = {1 |-> parent = Some 1}, no block, n_block = 1 is WF, and after
   `block_new [] 0` the fresh block 1 has an empty op list although the live op 1 says that its
   parent is block 1 (same for region_new / op_create; checked with wf_b).  The theorems below
   therefore carry the hypothesis that the id about to be allocated is not the parent of a live
   node (`fresh_block_ok` / `fresh_region_ok` / `fresh_op_ok`); all three follow from the state
   invariant `parents_ok` (parent pointers of live nodes are below the allocation counters), which
   holds in the empty heap and is preserved by the creation functions and by every mutator without
   tree walk (second half of the file: frame relation `par_rel`, lemmas `*_par`, closing lemmas
   `parents_ok_by_nobody/_block/_region/_op`).

   Contents:
     allocB_WF allocR_WF allocO_WF                      a fresh empty node keeps WF
     install_args_WF install_results_WF                 fresh values + their installation in the owner
     block_new_empty_WF block_new_WF                    Block(arg_types) / Block(ops, arg_types)
     region_new_empty_WF region_new1_WF region_new_WF   Region() / Region(block) / Region(blocks)
     op_create_WF_gen op_create_WF                      Operation.create (any operands/successors/regions)
     block_new_parents_ok region_new_parents_ok op_create_parents_ok, *_inv   (WF /\ parents_ok) *)
From Coq Require Import ZArith List Bool PArith FMapPositive Lia.
From XV Require Import C01.Model C01.Spec C01.ProofsBase C01.ProofsFrame C01.ProofsUses C01.ProofsOperands
  C01.ProofsRauw C01.ProofsSetOperands C01.ProofsDll C01.ProofsOps C01.ProofsBlocks
  C01.ProofsOpLists C01.ProofsSetSuccessors C01.ProofsOpRegions C01.ProofsBlockLists.
Import ListNotations.
Local Open Scope Z_scope.

(* ------------------------------------------------------------------ the extra hypotheses *)

Definition fresh_block_ok (s : state) : Prop :=
  forall o x, PM.find o (s_ops s) = Some x -> o_erased x = false -> o_parent x <> Some (n_block s).
Definition fresh_region_ok (s : state) : Prop :=
  forall b x, PM.find b (s_blocks s) = Some x -> b_erased x = false -> b_parent x <> Some (n_region s).
Definition fresh_op_ok (s : state) : Prop :=
  forall r x, PM.find r (s_regions s) = Some x -> r_erased x = false -> r_parent x <> Some (n_op s).

(* parent pointers of live nodes point below the allocation counters *)
Definition parents_ok (s : state) : Prop :=
  (forall o x b, PM.find o (s_ops s) = Some x -> o_erased x = false -> o_parent x = Some b -> (b < n_block s)%positive) /\
  (forall b x r, PM.find b (s_blocks s) = Some x -> b_erased x = false -> b_parent x = Some r -> (r < n_region s)%positive) /\
  (forall r x o, PM.find r (s_regions s) = Some x -> r_erased x = false -> r_parent x = Some o -> (o < n_op s)%positive).

Lemma parents_ok_fresh : forall s, parents_ok s -> fresh_block_ok s /\ fresh_region_ok s /\ fresh_op_ok s.
Proof.
  intros s (P1 & P2 & P3). split; [|split].
  - intros o x F E Q. specialize (P1 o x _ F E Q). lia.
  - intros b x F E Q. specialize (P2 b x _ F E Q). lia.
  - intros r x F E Q. specialize (P3 r x _ F E Q). lia.
Qed.

Lemma parents_ok_same : forall s s', same_T1 s s' -> same_T2 s s' -> same_T3 s s' -> same_A s s' ->
  parents_ok s -> parents_ok s'.
Proof.
  intros s s' [Ao _] [Ab _] [_ Ar] (_ & _ & _ & _ & _ & N1 & N2 & N3 & _ & _) (P1 & P2 & P3).
  unfold parents_ok. rewrite N1, N2, N3. split; [|split].
  - intros o x' b F' E' Q'. destruct (agree_find _ _ _ _ _ Ao F') as (x & F & P).
    unfold pT1_op in P. injection P as Q1 Q2 Q3 Q4. eapply (P1 o x); eauto; congruence.
  - intros b x' r F' E' Q'. destruct (agree_find _ _ _ _ _ Ab F') as (x & F & P).
    unfold pT2_blk in P. injection P as Q1 Q2 Q3 Q4. eapply (P2 b x); eauto; congruence.
  - intros r x' o F' E' Q'. destruct (agree_find _ _ _ _ _ Ar F') as (x & F & P).
    unfold pT3_reg in P. injection P as Q1 Q2. eapply (P3 r x); eauto; congruence.
Qed.

Lemma empty_parents_ok : parents_ok empty_state.
Proof. repeat split; intros i x j F; simpl in F; rewrite PM.gempty in F; discriminate. Qed.

(* ------------------------------------------------------------------ fresh ids *)

Lemma fresh_block : forall s, WF s -> PM.find (n_block s) (s_blocks s) = None.
Proof.
  intros s W. destruct (wf_alloc s W) as (_ & B & _).
  destruct (PM.find (n_block s) (s_blocks s)) as [x|] eqn:F; [|reflexivity]. specialize (B _ _ F). lia.
Qed.
Lemma fresh_region : forall s, WF s -> PM.find (n_region s) (s_regions s) = None.
Proof.
  intros s W. destruct (wf_alloc s W) as (_ & _ & B & _).
  destruct (PM.find (n_region s) (s_regions s)) as [x|] eqn:F; [|reflexivity]. specialize (B _ _ F). lia.
Qed.
Lemma fresh_op : forall s, WF s -> PM.find (n_op s) (s_ops s) = None.
Proof.
  intros s W. destruct (wf_alloc s W) as (B & _).
  destruct (PM.find (n_op s) (s_ops s)) as [x|] eqn:F; [|reflexivity]. specialize (B _ _ F). lia.
Qed.

Lemma find_add_old : forall {R} (t : PM.t R) e rec i x, PM.find e t = None -> PM.find i t = Some x ->
  PM.find i (PM.add e rec t) = Some x.
Proof. intros R t e rec i x FR F. rewrite find_add. destruct (Pos.eqb_spec i e); [subst; congruence|exact F]. Qed.

Lemma link_add_old : forall {R} (t : PM.t R) (g : R -> option positive) e rec i x, PM.find e t = None ->
  PM.find i t = Some x -> link (PM.add e rec t) g i = link t g i.
Proof. intros R t g e rec i x FR F. unfold link. rewrite (find_add_old t e rec i x FR F), F. reflexivity. Qed.

(* ------------------------------------------------------------------ a fresh empty block *)

Lemma allocB_WF : forall s s' b,
  WF s -> fresh_block_ok s ->
  allocB (mkBlock [] None None None None None None false) s = (s', Ok b) ->
  WF s' /\ b = n_block s /\ blk_live s' b.
Proof.
  intros s s' b0 W FB H. unfold allocB in H. injection H as <- <-.
  pose proof (fresh_block s W) as FR. set (b := n_block s) in *.
  set (rec := mkBlock [] None None None None None None false).
  split; [|split; [reflexivity|exists rec; split; [apply find_add_same|reflexivity]]].
  assert (FO : forall i x, PM.find i (s_blocks s) = Some x -> PM.find i (PM.add b rec (s_blocks s)) = Some x).
  { intros i x F. apply find_add_old; assumption. }
  destruct W. constructor.
  - intros b' br F E. simpl in F. rewrite find_add in F. destruct (Pos.eqb_spec b' b) as [->|N].
    + injection F as <-. exists []. simpl. split; [constructor|]. split; [constructor|]. split; [constructor|].
      split; [intros o []|]. intros o x Fo Eo Po. exfalso. exact (FB o x Fo Eo Po).
    + exact (wf_block b' br F E).
  - intros r rr F E. destruct (wf_region r rr F E) as (l & C1 & C2 & ND & M1 & M2). exists l.
    assert (EX : forall x, In x l -> exists y, PM.find x (s_blocks s) = Some y).
    { intros x Ix. destruct (M1 x Ix) as (y & Fy & _). eauto. }
    split; [|split; [|split; [exact ND|split]]].
    + eapply chain_ext; [|exact C1]. intros x Ix. destruct (EX x Ix) as (y & Fy).
      unfold blk_next. simpl. eapply link_add_old; eauto.
    + eapply chain_ext; [|exact C2]. intros x Ix. apply in_rev in Ix. destruct (EX x Ix) as (y & Fy).
      unfold blk_prev. simpl. eapply link_add_old; eauto.
    + intros x Ix. destruct (M1 x Ix) as (y & Fy & Py). exists y. split; [apply FO; exact Fy|exact Py].
    + intros x y Fy Ey Py. simpl in Fy. rewrite find_add in Fy. destruct (Pos.eqb_spec x b) as [->|N].
      * injection Fy as <-. discriminate.
      * eapply M2; eauto.
  - exact wf_opregs.
  - intros v vr F. destruct (wf_vuses v vr F) as (l & C & ND & P & M). exists l.
    split; [exact C|]. split; [exact ND|]. split; [|exact M]. eapply prevs_ok_uses_eq; [|exact P]. reflexivity.
  - intros b' br F. simpl in F. rewrite find_add in F. destruct (Pos.eqb_spec b' b) as [->|N].
    + injection F as <-. exists []. simpl. repeat split; try constructor. intros u [].
    + destruct (wf_buses b' br F) as (l & C & ND & P & M). exists l.
      split; [exact C|]. split; [exact ND|]. split; [|exact M]. eapply prevs_ok_uses_eq; [|exact P]. reflexivity.
  - exact wf_operands.
  - intros o x F E. destruct (wf_successors o x F E) as [L R]. split; [exact L|].
    intros i item u N1 N2. destruct (R i item u N1 N2) as [A (fu & l & Hf & C & I)]. split; [exact A|].
    exists fu, l. split; [|auto]. unfold link in *. simpl.
    destruct (PM.find item (s_blocks s)) as [br|] eqn:Fb; [|discriminate]. rewrite (FO _ _ Fb). exact Hf.
  - exact wf_disjoint.
  - exact wf_results.
  - intros b' br F E i v N. simpl in F. rewrite find_add in F. destruct (Pos.eqb_spec b' b) as [->|Nb].
    + injection F as <-. simpl in N. destruct i; discriminate.
    + exact (wf_args b' br F E i v N).
  - intros v vr F D. specialize (wf_owner v vr F D). destruct (v_kind vr) as [o i|b' i|old].
    + exact wf_owner.
    + destruct wf_owner as (br & Fb & Z). exists br. split; [apply FO; exact Fb|exact Z].
    + exact I.
  - destruct wf_detached as [W1 W2]. split; [exact W1|].
    intros b' x F E P. simpl in F. rewrite find_add in F. destruct (Pos.eqb_spec b' b) as [->|Nb].
    + injection F as <-. split; reflexivity.
    + exact (W2 b' x F E P).
  - destruct wf_alloc as (B1 & B2 & B3 & B4 & B5). repeat split; try assumption.
    intros i x F. simpl in F. rewrite find_add in F. simpl. destruct (Pos.eqb_spec i b) as [->|N]; [lia|].
    specialize (B2 _ _ F). fold b in B2. lia.
Qed.

(* ------------------------------------------------------------------ a fresh empty region *)

Lemma allocR_WF : forall s s' r,
  WF s -> fresh_region_ok s ->
  allocR (mkRegion None None None false) s = (s', Ok r) ->
  WF s' /\ r = n_region s /\ reg_live s' r.
Proof.
  intros s s' r0 W FB H. unfold allocR in H. injection H as <- <-.
  pose proof (fresh_region s W) as FR. set (r := n_region s) in *.
  set (rec := mkRegion None None None false).
  split; [|split; [reflexivity|exists rec; split; [apply find_add_same|reflexivity]]].
  assert (FO : forall i x, PM.find i (s_regions s) = Some x -> PM.find i (PM.add r rec (s_regions s)) = Some x).
  { intros i x F. apply find_add_old; assumption. }
  destruct W. constructor.
  - exact wf_block.
  - intros r' rr F E. simpl in F. rewrite find_add in F. destruct (Pos.eqb_spec r' r) as [->|N].
    + injection F as <-. exists []. simpl. split; [constructor|]. split; [constructor|]. split; [constructor|].
      split; [intros o []|]. intros o x Fo Eo Po. exfalso. exact (FB o x Fo Eo Po).
    + exact (wf_region r' rr F E).
  - intros o x F E. destruct (wf_opregs o x F E) as (ND & M1 & M2). split; [exact ND|]. split.
    + intros q Iq. destruct (M1 q Iq) as (rr & Fr & Pr). exists rr. split; [apply FO; exact Fr|exact Pr].
    + intros q rr Fq Eq Pq. simpl in Fq. rewrite find_add in Fq. destruct (Pos.eqb_spec q r) as [->|N].
      * injection Fq as <-. discriminate.
      * eapply M2; eauto.
  - intros v vr F. destruct (wf_vuses v vr F) as (l & C & ND & P & M). exists l.
    split; [exact C|]. split; [exact ND|]. split; [|exact M]. eapply prevs_ok_uses_eq; [|exact P]. reflexivity.
  - intros b' br F. destruct (wf_buses b' br F) as (l & C & ND & P & M). exists l.
    split; [exact C|]. split; [exact ND|]. split; [|exact M]. eapply prevs_ok_uses_eq; [|exact P]. reflexivity.
  - exact wf_operands.
  - exact wf_successors.
  - exact wf_disjoint.
  - exact wf_results.
  - exact wf_args.
  - exact wf_owner.
  - exact wf_detached.
  - destruct wf_alloc as (B1 & B2 & B3 & B4 & B5). repeat split; try assumption.
    intros i x F. simpl in F. rewrite find_add in F. simpl. destruct (Pos.eqb_spec i r) as [->|N]; [lia|].
    specialize (B3 _ _ F). fold r in B3. lia.
Qed.

(* ------------------------------------------------------------------ a fresh empty operation *)

Lemma allocO_WF : forall s s' o,
  WF s -> fresh_op_ok s ->
  allocO (mkOp [] [] [] [] [] [] None None None false) s = (s', Ok o) ->
  WF s' /\ o = n_op s /\ op_live s' o.
Proof.
  intros s s' o0 W FB H. unfold allocO in H. injection H as <- <-.
  pose proof (fresh_op s W) as FR. set (o := n_op s) in *.
  set (rec := mkOp [] [] [] [] [] [] None None None false).
  split; [|split; [reflexivity|exists rec; split; [apply find_add_same|reflexivity]]].
  assert (FO : forall i x, PM.find i (s_ops s) = Some x -> PM.find i (PM.add o rec (s_ops s)) = Some x).
  { intros i x F. apply find_add_old; assumption. }
  destruct W. constructor.
  - intros b br F E. destruct (wf_block b br F E) as (l & C1 & C2 & ND & M1 & M2). exists l.
    assert (EX : forall x, In x l -> exists y, PM.find x (s_ops s) = Some y).
    { intros x Ix. destruct (M1 x Ix) as (y & Fy & _). eauto. }
    split; [|split; [|split; [exact ND|split]]].
    + eapply chain_ext; [|exact C1]. intros x Ix. destruct (EX x Ix) as (y & Fy).
      unfold op_next. simpl. eapply link_add_old; eauto.
    + eapply chain_ext; [|exact C2]. intros x Ix. apply in_rev in Ix. destruct (EX x Ix) as (y & Fy).
      unfold op_prev. simpl. eapply link_add_old; eauto.
    + intros x Ix. destruct (M1 x Ix) as (y & Fy & Py). exists y. split; [apply FO; exact Fy|exact Py].
    + intros x y Fy Ey Py. simpl in Fy. rewrite find_add in Fy. destruct (Pos.eqb_spec x o) as [->|N].
      * injection Fy as <-. discriminate.
      * eapply M2; eauto.
  - exact wf_region.
  - intros o' x F E. simpl in F. rewrite find_add in F. destruct (Pos.eqb_spec o' o) as [->|N].
    + injection F as <-. simpl. split; [constructor|]. split; [intros q []|].
      intros q rr Fq Eq Pq. exfalso. exact (FB q rr Fq Eq Pq).
    + exact (wf_opregs o' x F E).
  - intros v vr F. destruct (wf_vuses v vr F) as (l & C & ND & P & M). exists l.
    split; [exact C|]. split; [exact ND|]. split; [eapply prevs_ok_uses_eq; [|exact P]; reflexivity|].
    intros u Iu. destruct (M u Iu) as (ur & x & Fu & Fx & Q). exists ur, x. split; [exact Fu|]. split; [apply FO; exact Fx|exact Q].
  - intros b br F. destruct (wf_buses b br F) as (l & C & ND & P & M). exists l.
    split; [exact C|]. split; [exact ND|]. split; [eapply prevs_ok_uses_eq; [|exact P]; reflexivity|].
    intros u Iu. destruct (M u Iu) as (ur & x & Fu & Fx & Q). exists ur, x. split; [exact Fu|]. split; [apply FO; exact Fx|exact Q].
  - intros o' x F E. simpl in F. rewrite find_add in F. destruct (Pos.eqb_spec o' o) as [->|N].
    + injection F as <-. simpl. split; [reflexivity|]. intros i item u N1. destruct i; discriminate.
    + exact (wf_operands o' x F E).
  - intros o' x F E. simpl in F. rewrite find_add in F. destruct (Pos.eqb_spec o' o) as [->|N].
    + injection F as <-. simpl. split; [reflexivity|]. intros i item u N1. destruct i; discriminate.
    + exact (wf_successors o' x F E).
  - intros o' x F E. simpl in F. rewrite find_add in F. destruct (Pos.eqb_spec o' o) as [->|N].
    + injection F as <-. simpl. intros u [].
    + exact (wf_disjoint o' x F E).
  - intros o' x F E. simpl in F. rewrite find_add in F. destruct (Pos.eqb_spec o' o) as [->|N].
    + injection F as <-. simpl. intros i v N1. destruct i; discriminate.
    + exact (wf_results o' x F E).
  - exact wf_args.
  - intros v vr F D. specialize (wf_owner v vr F D). destruct (v_kind vr) as [o' i|b' i|old].
    + destruct wf_owner as (x & Fx & Z). exists x. split; [apply FO; exact Fx|exact Z].
    + exact wf_owner.
    + exact I.
  - destruct wf_detached as [W1 W2]. split; [|exact W2].
    intros o' x F E P. simpl in F. rewrite find_add in F. destruct (Pos.eqb_spec o' o) as [->|Nb].
    + injection F as <-. split; reflexivity.
    + exact (W1 o' x F E P).
  - destruct wf_alloc as (B1 & B2 & B3 & B4 & B5). repeat split; try assumption.
    intros i x F. simpl in F. rewrite find_add in F. simpl. destruct (Pos.eqb_spec i o) as [->|N]; [lia|].
    specialize (B1 _ _ F). fold o in B1. lia.
Qed.

(* ------------------------------------------------------------------ no-op writes *)

Lemma WF_same_all : forall s s', WF s ->
  same_T1 s s' -> same_T2 s s' -> same_T3 s s' -> same_U s s' -> same_I s s' -> same_A s s' -> WF s'.
Proof.
  intros s s' W T1 T2 T3 SU SI SA. eapply WF_groups; eauto. eapply UWF_same; eauto. apply WF_UWF. exact W.
Qed.

Lemma updB_id_WF : forall s s' b f x r,
  WF s -> PM.find b (s_blocks s) = Some x -> f x = x -> updB b f s = (s', Ok r) -> WF s'.
Proof.
  intros s s' b f x r W F E H. apply updB_ok in H as (x' & F' & ->). rewrite F in F'. injection F' as <-. rewrite E.
  apply (WF_same_all s _ W).
  - split; simpl; [apply agree_refl|eapply agree_add; eauto].
  - split; simpl; [eapply agree_add; eauto|apply agree_refl].
  - split; simpl; apply agree_refl.
  - split; [|split; [|split]]; simpl; try apply agree_refl. eapply agree_add; eauto.
  - split; [|split]; simpl; try apply agree_refl. eapply agree_add; eauto.
  - unfold same_A; simpl.
    repeat (split; [first [apply dom_eq_refl | eapply dom_eq_add; eauto | reflexivity]|]); reflexivity.
Qed.

Lemma updO_id_WF : forall s s' o f x r,
  WF s -> PM.find o (s_ops s) = Some x -> f x = x -> updO o f s = (s', Ok r) -> WF s'.
Proof.
  intros s s' o f x r W F E H. apply updO_ok in H as (x' & F' & ->). rewrite F in F'. injection F' as <-. rewrite E.
  apply (WF_same_all s _ W).
  - split; simpl; [eapply agree_add; eauto|apply agree_refl].
  - split; simpl; apply agree_refl.
  - split; simpl; [eapply agree_add; eauto|apply agree_refl].
  - split; [|split; [|split]]; simpl; try apply agree_refl. eapply agree_add; eauto.
  - split; [|split]; simpl; try apply agree_refl. eapply agree_add; eauto.
  - unfold same_A; simpl.
    repeat (split; [first [apply dom_eq_refl | eapply dom_eq_add; eauto | reflexivity]|]); reflexivity.
Qed.

(* ------------------------------------------------------------------ allocation of fresh values *)

Fixpoint alloc_kinds (mk : Z -> vkind) (idxs : list Z) : M (list vid) :=
  match idxs with
  | [] => ret []
  | i :: r => v <- allocV (mkValue (mk i) None false) ;; vs <- alloc_kinds mk r ;; ret (v :: vs)
  end.

Lemma alloc_args_kinds : forall b idxs, alloc_args b idxs = alloc_kinds (KArg b) idxs.
Proof. intros b idxs. induction idxs as [|i r IH]; simpl; [reflexivity|]. rewrite IH. reflexivity. Qed.
Lemma alloc_results_kinds : forall o idxs, alloc_results o idxs = alloc_kinds (KRes o) idxs.
Proof. intros o idxs. induction idxs as [|i r IH]; simpl; [reflexivity|]. rewrite IH. reflexivity. Qed.

Record val_post (s s1 : state) (mk : Z -> vkind) (start : Z) (vs : list vid) : Prop := {
  vp_ops : s_ops s1 = s_ops s;
  vp_blocks : s_blocks s1 = s_blocks s;
  vp_regions : s_regions s1 = s_regions s;
  vp_uses : s_uses s1 = s_uses s;
  vp_counters : n_op s1 = n_op s /\ n_block s1 = n_block s /\ n_region s1 = n_region s /\ n_use s1 = n_use s;
  vp_old : forall v x, PM.find v (s_values s) = Some x -> PM.find v (s_values s1) = Some x;
  vp_new : forall k v, nth_error vs k = Some v ->
             PM.find v (s_values s) = None /\
             PM.find v (s_values s1) = Some (mkValue (mk (start + Z.of_nat k)) None false);
  vp_only : forall v x, PM.find v (s_values s1) = Some x -> PM.find v (s_values s) = Some x \/ In v vs;
  vp_below : below (s_values s1) (n_value s1) }.

Lemma alloc_kinds_post : forall mk n start s s1 vs,
  below (s_values s) (n_value s) ->
  alloc_kinds mk (range_from start n) s = (s1, Ok vs) ->
  val_post s s1 mk start vs /\ length vs = n.
Proof.
  intros mk n. induction n as [|n IH]; intros start s s1 vs B H; simpl in H.
  - apply ret_ok in H as [-> ->]. split; [|reflexivity].
    constructor; try reflexivity; auto.
    intros k u N. destruct k; discriminate.
  - apply bind_ok in H as (s0 & u & Ha & H). unfold allocV in Ha. injection Ha as <- <-.
    apply bind_ok in H as (s2 & us' & Hr & H). apply ret_ok in H as [<- ->].
    set (u := n_value s) in *.
    assert (Fu : PM.find u (s_values s) = None).
    { destruct (PM.find u (s_values s)) as [x|] eqn:F; [|reflexivity]. specialize (B _ _ F). unfold u in B. lia. }
    match type of Hr with alloc_kinds _ _ ?sx = _ => set (s0 := sx) in * end.
    assert (B0 : below (s_values s0) (n_value s0)).
    { intros i x F. simpl in F. rewrite find_add in F. simpl. destruct (Pos.eqb_spec i u) as [->|N]; [lia|].
      specialize (B _ _ F). fold u in B. lia. }
    destruct (IH (start + 1) s0 s1 us' B0 Hr) as [AP L]. destruct AP. split; [|simpl; lia].
    constructor; try (etransitivity; [eassumption|reflexivity]).
    + destruct vp_counters0 as (C1 & C2 & C3 & C4). repeat split; assumption.
    + intros v x F. apply vp_old0. simpl. rewrite find_add. destruct (Pos.eqb_spec v u); [subst; congruence|exact F].
    + intros k v N. destruct k as [|k]; simpl in N.
      * injection N as <-. split; [exact Fu|]. replace (start + Z.of_nat 0) with start by lia.
        apply vp_old0. simpl. rewrite find_add_same. reflexivity.
      * destruct (vp_new0 k v N) as [Q1 Q2]. split.
        -- simpl in Q1. rewrite find_add in Q1. destruct (Pos.eqb_spec v u); [discriminate|exact Q1].
        -- rewrite Q2. f_equal. f_equal. f_equal. lia.
    + intros v x F. destruct (vp_only0 v x F) as [Q|Q]; [|right; right; exact Q].
      simpl in Q. rewrite find_add in Q. destruct (Pos.eqb_spec v u) as [->|N]; [right; left; reflexivity|left; exact Q].
    + exact vp_below0.
Qed.

(* ------------------------------------------------------------------ extension of the value table *)

Definition vals_ext (s s' : state) : Prop :=
  (forall v x, PM.find v (s_values s) = Some x -> PM.find v (s_values s') = Some x) /\
  (forall v x, PM.find v (s_values s') = Some x -> PM.find v (s_values s) = Some x \/ v_first_use x = None).

Lemma val_post_ext : forall s s1 mk start vs, val_post s s1 mk start vs ->
  forall s', s_values s' = s_values s1 -> vals_ext s s'.
Proof.
  intros s s1 mk start vs VP s' E. destruct VP. unfold vals_ext. rewrite E. split; [exact vp_old0|].
  intros v x F. destruct (vp_only0 v x F) as [Q|Q]; [left; exact Q|right].
  destruct (In_nth_error _ _ Q) as (k & N). destruct (vp_new0 k v N) as [_ Q2]. rewrite Q2 in F. injection F as <-. reflexivity.
Qed.

Lemma UWF_vals_ext : forall s s', UWF s ->
  s_ops s' = s_ops s -> s_blocks s' = s_blocks s -> s_uses s' = s_uses s -> vals_ext s s' -> UWF s'.
Proof.
  intros s s' (Wv & Wb & Wo & Ws & Wd) Eo Eb Eu [X1 X2].
  destruct s' as [o' b' r' v' u' n1 n2 n3 n4 n5]. simpl in *. subst o' b' u'.
  split; [|split; [|split; [|split]]].
  - intros v vr F. simpl in F. destruct (X2 v vr F) as [Fo|Fn].
    + destruct (Wv v vr Fo) as (l & C & ND & P & M). exists l.
      split; [exact C|]. split; [exact ND|]. split; [|exact M]. eapply prevs_ok_uses_eq; [|exact P]. reflexivity.
    + rewrite Fn. exists []. repeat split; try constructor. intros u [].
  - intros b br F. destruct (Wb b br F) as (l & C & ND & P & M). exists l.
    split; [exact C|]. split; [exact ND|]. split; [|exact M]. eapply prevs_ok_uses_eq; [|exact P]. reflexivity.
  - intros o x F E. destruct (Wo o x F E) as [L R]. split; [exact L|].
    intros i item u N1 N2. destruct (R i item u N1 N2) as [A (fu & l & Hf & C & I)]. split; [exact A|].
    exists fu, l. split; [|auto]. unfold link in *. simpl.
    destruct (PM.find item (s_values s)) as [vr|] eqn:Fv; [|discriminate]. rewrite (X1 _ _ Fv). exact Hf.
  - exact Ws.
  - exact Wd.
Qed.

Lemma WF_vals_ext : forall s s',
  WF s -> same_T1 s s' -> same_T2 s s' -> same_T3 s s' ->
  agree pU_op (s_ops s) (s_ops s') -> agree pU_blk (s_blocks s) (s_blocks s') -> s_uses s' = s_uses s ->
  vals_ext s s' ->
  dom_eq (s_ops s) (s_ops s') -> dom_eq (s_blocks s) (s_blocks s') -> dom_eq (s_regions s) (s_regions s') ->
  n_op s' = n_op s -> n_block s' = n_block s -> n_region s' = n_region s -> n_use s' = n_use s ->
  below (s_values s') (n_value s') ->
  WF_results s' -> WF_args s' -> WF_owner s' -> WF s'.
Proof.
  intros s s' W T1 T2 T3 Ao Ab Eu VX D1 D2 D3 N1 N2 N3 N5 BV I1 I2 I3.
  set (sm := mkState (s_ops s') (s_blocks s') (s_regions s') (s_values s) (s_uses s')
                     (n_op s') (n_block s') (n_region s') (n_value s) (n_use s')).
  assert (UM : UWF sm).
  { apply (UWF_same s sm (WF_UWF s W)). split; [exact Ao|]. split; [apply agree_refl|]. split; [exact Ab|].
    simpl. rewrite Eu. apply agree_refl. }
  assert (UW : UWF s').
  { apply (UWF_vals_ext sm s' UM); try reflexivity. exact VX. }
  destruct UW as (U1 & U2 & U3 & U4 & U5). destruct W.
  constructor; try assumption.
  - eapply WF_block_same; eauto.
  - eapply WF_region_same; eauto.
  - eapply WF_opregs_same; eauto.
  - eapply WF_detached_same; eauto.
  - destruct wf_alloc as (B1 & B2 & B3 & B4 & B5). unfold WF_alloc. rewrite N1, N2, N3, N5.
    split; [|split; [|split; [|split]]].
    + intros i x F. destruct (PM.find i (s_ops s)) as [y|] eqn:G; [eapply B1; eauto|]. apply D1 in G. congruence.
    + intros i x F. destruct (PM.find i (s_blocks s)) as [y|] eqn:G; [eapply B2; eauto|]. apply D2 in G. congruence.
    + intros i x F. destruct (PM.find i (s_regions s)) as [y|] eqn:G; [eapply B3; eauto|]. apply D3 in G. congruence.
    + exact BV.
    + rewrite Eu. exact B5.
Qed.

(* ------------------------------------------------------------------ installing the fresh values in their owner *)

(* block arguments: the block has no argument yet; `args` are fresh values KArg b 0 .. KArg b (n-1) *)
Lemma install_args_WF : forall s s2 b br args,
  WF s -> PM.find b (s_blocks s) = Some br -> b_erased br = false -> b_args br = [] ->
  val_post s s2 (KArg b) 0 args ->
  WF (with_blocks (PM.add b (set_b_args args br) (s_blocks s2)) s2).
Proof.
  intros s s2 b br args W Fb Eb Ab VP.
  pose proof (val_post_ext _ _ _ _ _ VP (with_blocks (PM.add b (set_b_args args br) (s_blocks s2)) s2) eq_refl) as VX.
  destruct VP. destruct vp_counters0 as (C1 & C2 & C3 & C4).
  apply (WF_vals_ext s _ W); simpl; rewrite ?vp_ops0, ?vp_blocks0, ?vp_regions0; try assumption;
    try apply agree_refl; try apply dom_eq_refl.
  - split; simpl; rewrite ?vp_ops0, ?vp_blocks0; [apply agree_refl|eapply agree_add; eauto].
  - split; simpl; rewrite ?vp_regions0, ?vp_blocks0; [eapply agree_add; eauto|apply agree_refl].
  - split; simpl; rewrite ?vp_regions0, ?vp_ops0; apply agree_refl.
  - eapply agree_add; eauto.
  - eapply dom_eq_add; eauto.
  - (* WF_results *)
    intros o x F E i v N. simpl in F. rewrite ?vp_ops0 in F.
    destruct (wf_results s W o x F E i v N) as (vr & Fv & K). exists vr. split; [apply vp_old0; exact Fv|exact K].
  - (* WF_args *)
    intros b' x F E i v N. simpl in F. rewrite ?vp_blocks0, find_add in F. destruct (Pos.eqb_spec b' b) as [->|Nb].
    + injection F as <-. simpl in N. destruct (vp_new0 i v N) as [_ Q]. eexists. split; [exact Q|]. simpl. f_equal.
    + destruct (wf_args s W b' x F E i v N) as (vr & Fv & K). exists vr. split; [apply vp_old0; exact Fv|exact K].
  - (* WF_owner *)
    intros v vr F D. simpl in F. destruct (vp_only0 v vr F) as [Fo|Iv].
    + pose proof (wf_owner s W v vr Fo D) as O. destruct (v_kind vr) as [o i|b' i|old].
      * destruct O as (x & Fx & Z). exists x. simpl. rewrite ?vp_ops0. auto.
      * destruct O as (x & Fx & Z). simpl. rewrite ?vp_blocks0, find_add. destruct (Pos.eqb_spec b' b) as [->|Nb].
        -- rewrite Fb in Fx. injection Fx as <-. rewrite Ab in Z. apply znth_In in Z. destruct Z.
        -- exists x. auto.
      * exact I.
    + destruct (In_nth_error _ _ Iv) as (k & N). destruct (vp_new0 k v N) as [_ Q]. rewrite Q in F. injection F as <-.
      simpl. rewrite ?vp_blocks0, find_add_same. eexists. split; [reflexivity|]. simpl.
      replace (0 + Z.of_nat k) with (Z.of_nat k) by lia. rewrite znth_of_nat. exact N.
Qed.

(* op results: the op has no result yet; `res` are fresh values KRes o 0 .. KRes o (n-1) *)
Lemma install_results_WF : forall s s2 o x res,
  WF s -> PM.find o (s_ops s) = Some x -> o_erased x = false -> o_results x = [] ->
  val_post s s2 (KRes o) 0 res ->
  WF (with_ops (PM.add o (set_o_results res x) (s_ops s2)) s2).
Proof.
  intros s s2 o x0 res W Fo Eo Ro VP.
  pose proof (val_post_ext _ _ _ _ _ VP (with_ops (PM.add o (set_o_results res x0) (s_ops s2)) s2) eq_refl) as VX.
  destruct VP. destruct vp_counters0 as (C1 & C2 & C3 & C4).
  apply (WF_vals_ext s _ W); simpl; rewrite ?vp_ops0, ?vp_blocks0, ?vp_regions0; try assumption;
    try apply agree_refl; try apply dom_eq_refl.
  - split; simpl; rewrite ?vp_ops0, ?vp_blocks0; [eapply agree_add; eauto|apply agree_refl].
  - split; simpl; rewrite ?vp_regions0, ?vp_blocks0; apply agree_refl.
  - split; simpl; rewrite ?vp_regions0, ?vp_ops0; [eapply agree_add; eauto|apply agree_refl].
  - eapply agree_add; eauto.
  - eapply dom_eq_add; eauto.
  - (* WF_results *)
    intros o' x F E i v N. simpl in F. rewrite ?vp_ops0, find_add in F. destruct (Pos.eqb_spec o' o) as [->|No].
    + injection F as <-. simpl in N. destruct (vp_new0 i v N) as [_ Q]. eexists. split; [exact Q|]. simpl. f_equal.
    + destruct (wf_results s W o' x F E i v N) as (vr & Fv & K). exists vr. split; [apply vp_old0; exact Fv|exact K].
  - (* WF_args *)
    intros b' x F E i v N. simpl in F. rewrite ?vp_blocks0 in F.
    destruct (wf_args s W b' x F E i v N) as (vr & Fv & K). exists vr. split; [apply vp_old0; exact Fv|exact K].
  - (* WF_owner *)
    intros v vr F D. simpl in F. destruct (vp_only0 v vr F) as [Fv|Iv].
    + pose proof (wf_owner s W v vr Fv D) as O. destruct (v_kind vr) as [o' i|b' i|old].
      * destruct O as (x & Fx & Z). simpl. rewrite ?vp_ops0, find_add. destruct (Pos.eqb_spec o' o) as [->|No].
        -- rewrite Fo in Fx. injection Fx as <-. rewrite Ro in Z. apply znth_In in Z. destruct Z.
        -- exists x. auto.
      * destruct O as (x & Fx & Z). exists x. simpl. rewrite ?vp_blocks0. auto.
      * exact I.
    + destruct (In_nth_error _ _ Iv) as (k & N). destruct (vp_new0 k v N) as [_ Q]. rewrite Q in F. injection F as <-.
      simpl. rewrite ?vp_ops0, find_add_same. eexists. split; [reflexivity|]. simpl.
      replace (0 + Z.of_nat k) with (Z.of_nat k) by lia. rewrite znth_of_nat. exact N.
Qed.

(* ------------------------------------------------------------------ Block(arg_types) without ops *)

Lemma block_new_empty_spec : forall s s' nargs b,
  WF s -> fresh_block_ok s -> block_new [] nargs s = (s', Ok b) ->
  WF s' /\ b = n_block s /\ blk_live s' b /\
  s_ops s' = s_ops s /\ s_regions s' = s_regions s /\
  n_op s' = n_op s /\ n_region s' = n_region s /\ n_block s' = Pos.succ (n_block s) /\
  (forall b', b' <> b -> PM.find b' (s_blocks s') = PM.find b' (s_blocks s)) /\
  (exists args, PM.find b (s_blocks s') = Some (mkBlock args None None None None None None false)).
Proof.
  intros s s' nargs b W FB H. unfold block_new in H.
  apply bind_ok in H as (s1 & b1 & Ha & H).
  destruct (allocB_WF s s1 b1 W FB Ha) as (W1 & Eb1 & BL1).
  unfold allocB in Ha. injection Ha as Es1 _. subst b1.
  set (b0 := n_block s) in *. set (rec := mkBlock [] None None None None None None false) in *.
  assert (Fb1 : PM.find b0 (s_blocks s1) = Some rec) by (rewrite <- Es1; simpl; apply find_add_same).
  apply bind_ok in H as (s2 & args & Hal & H). rewrite alloc_args_kinds in Hal.
  destruct (alloc_kinds_post _ _ _ _ _ _ (proj1 (proj2 (proj2 (proj2 (wf_alloc s1 W1))))) Hal) as [VP Len].
  pose proof (install_args_WF s1 s2 b0 rec args W1 Fb1 eq_refl eq_refl VP) as W3.
  destruct VP. destruct vp_counters0 as (C1 & C2 & C3 & C4).
  apply bind_ok in H as (s3 & ? & Hu1 & H). apply updB_ok in Hu1 as (x1 & Fx1 & ->).
  rewrite vp_blocks0, Fb1 in Fx1. injection Fx1 as <-.
  apply bind_ok in H as (s4 & ? & Hu2 & H).
  assert (W4 : WF s4).
  { eapply (updB_id_WF _ s4 b0 _ (set_b_args args rec) _ W3); [simpl; apply find_add_same| |exact Hu2]. reflexivity. }
  apply updB_ok in Hu2 as (x2 & Fx2 & Es4). simpl in Fx2. rewrite find_add_same in Fx2. injection Fx2 as <-.
  apply bind_ok in H as (s5 & ? & Hu3 & H).
  assert (W5 : WF s5).
  { eapply (updB_id_WF _ s5 b0 _ (set_b_args args rec) _ W4); [rewrite Es4; simpl; apply find_add_same| |exact Hu3]. reflexivity. }
  apply updB_ok in Hu3 as (x3 & Fx3 & Es5). rewrite Es4 in Fx3. simpl in Fx3. rewrite find_add_same in Fx3. injection Fx3 as <-.
  apply bind_ok in H as (s6 & ? & Hao & H). unfold add_ops in Hao. simpl in Hao. apply ret_ok in Hao as [-> _].
  apply ret_ok in H as [-> ->].
  split; [exact W5|]. split; [reflexivity|].
  rewrite Es5, Es4. simpl.
  split; [eexists; split; [apply find_add_same|reflexivity]|].
  split; [rewrite vp_ops0, <- Es1; reflexivity|]. split; [rewrite vp_regions0, <- Es1; reflexivity|].
  split; [rewrite C1, <- Es1; reflexivity|]. split; [rewrite C3, <- Es1; reflexivity|].
  split; [rewrite C2, <- Es1; reflexivity|]. split.
  - intros b' N. rewrite !find_add. destruct (Pos.eqb_spec b' b0) as [->|_]; [contradiction|].
    rewrite vp_blocks0, <- Es1. simpl. rewrite find_add. destruct (Pos.eqb_spec b' b0) as [->|_]; [contradiction|reflexivity].
  - exists args. rewrite find_add_same. reflexivity.
Qed.

Theorem block_new_empty_WF : forall s s' nargs b,
  WF s -> fresh_block_ok s -> block_new [] nargs s = (s', Ok b) -> WF s'.
Proof. intros s s' nargs b W FB H. exact (proj1 (block_new_empty_spec s s' nargs b W FB H)). Qed.

Lemma block_new_empty_parents_ok : forall s s' nargs b,
  WF s -> parents_ok s -> block_new [] nargs s = (s', Ok b) -> parents_ok s'.
Proof.
  intros s s' nargs b W PO H. destruct (parents_ok_fresh s PO) as (FB & _).
  destruct (block_new_empty_spec s s' nargs b W FB H) as (_ & Eb & _ & Eo & Er & N1 & N3 & N2 & Oth & (args & Fb)).
  destruct PO as (P1 & P2 & P3). unfold parents_ok. rewrite Eo, Er, N1, N2, N3. split; [|split].
  - intros o x c F E Q. specialize (P1 o x c F E Q). lia.
  - intros c x r F E Q. destruct (Pos.eq_dec c b) as [->|N].
    + rewrite Fb in F. injection F as <-. discriminate.
    + rewrite (Oth c N) in F. eapply P2; eauto.
  - exact P3.
Qed.

(* liveness of the other objects *)
Lemma block_new_empty_live : forall s s' nargs b,
  WF s -> fresh_block_ok s -> block_new [] nargs s = (s', Ok b) ->
  (forall o, op_live s o -> op_live s' o) /\ (forall c, blk_live s c -> blk_live s' c) /\
  (forall r, reg_live s r -> reg_live s' r).
Proof.
  intros s s' nargs b W FB H.
  destruct (block_new_empty_spec s s' nargs b W FB H) as (_ & Eb & _ & Eo & Er & N1 & N3 & N2 & Oth & _).
  split; [|split].
  - intros o L. unfold op_live. rewrite Eo. exact L.
  - intros c (x & F & E). exists x. split; [|exact E]. rewrite Oth; [exact F|].
    intro; subst c. subst b. rewrite (fresh_block s W) in F. discriminate.
  - intros r L. unfold reg_live. rewrite Er. exact L.
Qed.

(* ------------------------------------------------------------------ Block(ops, arg_types) *)

Lemma block_new_split : forall ops nargs s s' b, block_new ops nargs s = (s', Ok b) ->
  exists s5, block_new [] nargs s = (s5, Ok b) /\ add_ops b ops s5 = (s', Ok tt).
Proof.
  intros ops nargs s s' b H. unfold block_new in *.
  apply bind_ok in H as (s1 & b1 & Ha & H). apply bind_ok in H as (s2 & args & Hal & H).
  apply bind_ok in H as (s3 & [] & H1 & H). apply bind_ok in H as (s4 & [] & H2 & H).
  apply bind_ok in H as (s5 & [] & H3 & H). apply bind_ok in H as (s6 & [] & H4 & H).
  apply ret_ok in H as [-> ->].
  exists s5. split; [|exact H4].
  unfold bind. rewrite Ha. cbv beta iota. rewrite Hal. cbv beta iota. rewrite H1. cbv beta iota.
  rewrite H2. cbv beta iota. rewrite H3. reflexivity.
Qed.

Theorem block_new_WF : forall s s' ops nargs b,
  WF s -> fresh_block_ok s -> (forall o, In o ops -> op_live s o) ->
  block_new ops nargs s = (s', Ok b) -> WF s'.
Proof.
  intros s s' ops nargs b W FB OL H.
  destruct (block_new_split ops nargs s s' b H) as (s5 & H5 & Hadd).
  destruct (block_new_empty_spec s s5 nargs b W FB H5) as (W5 & _ & BL5 & _).
  destruct (block_new_empty_live s s5 nargs b W FB H5) as (LO & _ & _).
  eapply (add_ops_WF ops s5 s' b tt W5 BL5); [|exact Hadd]. intros o I. apply LO. apply OL. exact I.
Qed.

(* ------------------------------------------------------------------ Region(blocks) *)

Lemma region_new_split : forall blocks s s' r, region_new blocks s = (s', Ok r) ->
  exists s1, allocR (mkRegion None None None false) s = (s1, Ok r) /\ add_block r blocks s1 = (s', Ok tt).
Proof.
  intros blocks s s' r H. unfold region_new in H.
  apply bind_ok in H as (s1 & r1 & Ha & H). apply bind_ok in H as (s2 & [] & Hb & H).
  apply ret_ok in H as [-> ->]. eauto.
Qed.

Lemma allocR_live : forall x s s' r, allocR x s = (s', Ok r) ->
  (forall o, op_live s o -> op_live s' o) /\ (forall c, blk_live s c -> blk_live s' c).
Proof. intros x s s' r H. unfold allocR in H. injection H as <- _. split; intros ? L; exact L. Qed.

Lemma allocR_find : forall s s' r, allocR (mkRegion None None None false) s = (s', Ok r) ->
  PM.find r (s_regions s') = Some (mkRegion None None None false).
Proof. intros s s' r H. unfold allocR in H. injection H as <- <-. simpl. apply find_add_same. Qed.

Theorem region_new_empty_WF : forall s s' r,
  WF s -> fresh_region_ok s -> region_new [] s = (s', Ok r) -> WF s'.
Proof.
  intros s s' r W FR H. destruct (region_new_split _ _ _ _ H) as (s1 & Ha & Hb).
  destruct (allocR_WF s s1 r W FR Ha) as (W1 & _ & _). pose proof (allocR_find _ _ _ Ha) as Fr.
  unfold add_block in Hb. apply bind_ok in Hb as (s0 & rr & Hg & Hb). apply getR_ok in Hg as [-> Fr'].
  rewrite Fr in Fr'. injection Fr' as <-. simpl in Hb. apply ret_ok in Hb as [-> _]. exact W1.
Qed.

(* a single block (uses add_block1_WF of ProofsBlocks.v only) *)
Theorem region_new1_WF : forall s s' b r,
  WF s -> fresh_region_ok s -> blk_live s b -> region_new [b] s = (s', Ok r) -> WF s'.
Proof.
  intros s s' b r W FR BL H. destruct (region_new_split _ _ _ _ H) as (s1 & Ha & Hb).
  destruct (allocR_WF s s1 r W FR Ha) as (W1 & _ & RL1). destruct (allocR_live _ _ _ _ Ha) as [_ LB].
  exact (add_block1_WF s1 s' r b tt W1 RL1 (LB b BL) Hb).
Qed.

(* any list of blocks (uses add_block_WF of ProofsBlockLists.v) *)
Theorem region_new_WF : forall s s' blocks r,
  WF s -> fresh_region_ok s -> (forall b, In b blocks -> blk_live s b) ->
  region_new blocks s = (s', Ok r) -> WF s'.
Proof.
  intros s s' blocks r W FR BL H. destruct (region_new_split _ _ _ _ H) as (s1 & Ha & Hb).
  destruct (allocR_WF s s1 r W FR Ha) as (W1 & _ & RL1). destruct (allocR_live _ _ _ _ Ha) as [_ LB].
  eapply (add_block_WF blocks s1 s' r tt W1 RL1); [|exact Hb]. intros b I. apply LB. apply BL. exact I.
Qed.

(* ------------------------------------------------------------------ Operation.create *)

Lemma add_regions_WF : forall regions o s s' r,
  WF s -> forM regions (add_region o) s = (s', Ok r) -> WF s'.
Proof.
  induction regions as [|q rest IH]; intros o s s' r W H; simpl in H.
  - apply ret_ok in H as [-> _]. exact W.
  - apply bind_ok in H as (s1 & u & H1 & H2). eapply IH; [|exact H2].
    eapply add_region_WF_gen; eauto.
Qed.

(* the fields of `o` that the later steps rely on, carried by the frame relations *)
Lemma op_fields_same : forall s s' o x, same_T3 s s' -> same_I s s' ->
  PM.find o (s_ops s) = Some x ->
  exists x', PM.find o (s_ops s') = Some x' /\ o_erased x' = o_erased x /\
             o_results x' = o_results x /\ o_regions x' = o_regions x.
Proof.
  intros s s' o x [A3 _] (AI & _) F.
  destruct (agree_find_rev _ _ _ _ _ A3 F) as (x' & F' & P3).
  destruct (agree_find_rev _ _ _ _ _ AI F) as (x'' & F'' & PI). rewrite F' in F''. injection F'' as <-.
  unfold pT3_op in P3. unfold pI_op in PI. injection P3 as Q1 Q2. injection PI as Q3 Q4.
  exists x'. auto.
Qed.

Lemma op_create_spec : forall s s' operands nres succs regions o,
  WF s -> fresh_op_ok s ->
  op_create operands nres succs regions s = (s', Ok o) ->
  WF s' /\ o = n_op s.
Proof.
  intros s s' operands nres succs regions o W FO H. unfold op_create in H.
  apply bind_ok in H as (s1 & o1 & Ha & H).
  destruct (allocO_WF s s1 o1 W FO Ha) as (W1 & Eo1 & OL1).
  assert (F1 : PM.find o1 (s_ops s1) = Some (mkOp [] [] [] [] [] [] None None None false)).
  { unfold allocO in Ha. injection Ha as <- <-. simpl. apply find_add_same. }
  (* operands *)
  apply bind_ok in H as (s2 & [] & Hso & H).
  pose proof (set_operands_WF s1 s2 o1 operands tt W1 OL1 Hso) as W2.
  destruct (op_fields_same s1 s2 o1 _ (set_operands_T3 _ _ _ _ _ Hso) (set_operands_I _ _ _ _ _ Hso) F1)
    as (x2 & F2 & E2 & R2 & G2). simpl in E2, R2, G2.
  (* results *)
  apply bind_ok in H as (s3 & res & Har & H). rewrite alloc_results_kinds in Har.
  destruct (alloc_kinds_post _ _ _ _ _ _ (proj1 (proj2 (proj2 (proj2 (wf_alloc s2 W2))))) Har) as [VP Len].
  pose proof (install_results_WF s2 s3 o1 x2 res W2 F2 E2 R2 VP) as W4.
  apply bind_ok in H as (s4 & [] & Hu & H). apply updO_ok in Hu as (x3 & F3 & ->).
  rewrite (vp_ops _ _ _ _ _ VP), F2 in F3. injection F3 as <-.
  match type of W4 with WF ?st => set (s4 := st) in * end.
  assert (F4 : PM.find o1 (s_ops s4) = Some (set_o_results res x2)) by (simpl; apply find_add_same).
  (* successors *)
  apply bind_ok in H as (s5 & [] & Hss & H).
  assert (OL4 : op_live s4 o1) by (eexists; split; [exact F4|exact E2]).
  pose proof (set_successors_WF s4 s5 o1 succs tt W4 OL4 Hss) as W5.
  destruct (op_fields_same s4 s5 o1 _ (set_successors_T3 _ _ _ _ _ Hss) (set_successors_I _ _ _ _ _ Hss) F4)
    as (x5 & F5 & E5 & R5 & G5). simpl in E5, R5, G5.
  (* regions = [] *)
  apply bind_ok in H as (s6 & [] & Hur & H).
  assert (W6 : WF s6).
  { eapply (updO_id_WF s5 s6 o1 _ x5 tt W5 F5); [|exact Hur]. rewrite G2 in G5.
    destruct x5; simpl in *; subst; reflexivity. }
  (* add_region loop *)
  apply bind_ok in H as (s7 & [] & Hrg & H). apply ret_ok in H as [-> ->].
  split; [eapply add_regions_WF; eauto|exact Eo1].
Qed.

Theorem op_create_WF_gen : forall s s' operands nres succs regions o,
  WF s -> fresh_op_ok s ->
  op_create operands nres succs regions s = (s', Ok o) -> WF s'.
Proof. intros. eapply op_create_spec; eauto. Qed.

Theorem op_create_WF : forall s s' operands nres succs regions o,
  WF s -> fresh_op_ok s -> (forall r, In r regions -> reg_live s r) ->
  op_create operands nres succs regions s = (s', Ok o) -> WF s'.
Proof. intros s s' operands nres succs regions o W FO _ H. eapply op_create_WF_gen; eauto. Qed.

(* ================================================================== the invariant parents_ok

   A frame relation for `parents_ok`: every live node of the new state has parent None, or a parent in
   a given set of ids (PB for the parents of ops, PR for the parents of blocks, PO for the parents
   of regions), or is a live node of the old state with the same parent; counters only grow.
   `preserves (par_rel PB PR PO) prog` is proved by `pres (fr_par PB PR PO)` like the same_X frames. *)

Definition par_clause {R} (er : R -> bool) (par : R -> option positive) (P : positive -> Prop)
           (t t' : PM.t R) : Prop :=
  forall i x', PM.find i t' = Some x' -> er x' = false ->
    par x' = None \/ (exists p, par x' = Some p /\ P p) \/
    (exists x, PM.find i t = Some x /\ er x = false /\ par x' = par x).

Lemma par_clause_refl : forall {R} er par P (t : PM.t R), par_clause er par P t t.
Proof. intros R er par P t i x F E. right. right. exists x. auto. Qed.

Lemma par_clause_trans : forall {R} er par P (t1 t2 t3 : PM.t R),
  par_clause er par P t1 t2 -> par_clause er par P t2 t3 -> par_clause er par P t1 t3.
Proof.
  intros R er par P t1 t2 t3 H1 H2 i x3 F3 E3.
  destruct (H2 i x3 F3 E3) as [N|[Q|(x2 & F2 & E2 & Q2)]]; [left; exact N|right; left; exact Q|].
  destruct (H1 i x2 F2 E2) as [N|[(p & Qp & Pp)|(x1 & F1 & E1 & Q1)]].
  - left. congruence.
  - right. left. exists p. split; [congruence|exact Pp].
  - right. right. exists x1. split; [exact F1|]. split; [exact E1|congruence].
Qed.

Lemma par_clause_add : forall {R} er par P (t : PM.t R) i y,
  (er y = false -> par y = None \/ (exists p, par y = Some p /\ P p) \/
                   (exists x, PM.find i t = Some x /\ er x = false /\ par y = par x)) ->
  par_clause er par P t (PM.add i y t).
Proof.
  intros R er par P t i y H j x' F E. rewrite find_add in F. destruct (Pos.eqb_spec j i) as [->|N].
  - injection F as <-. exact (H E).
  - right. right. exists x'. auto.
Qed.

Definition par_rel (PB PR PO : positive -> Prop) (s s' : state) : Prop :=
  ((n_op s <= n_op s')%positive /\ (n_block s <= n_block s')%positive /\ (n_region s <= n_region s')%positive) /\
  par_clause o_erased o_parent PB (s_ops s) (s_ops s') /\
  par_clause b_erased b_parent PR (s_blocks s) (s_blocks s') /\
  par_clause r_erased r_parent PO (s_regions s) (s_regions s').

Lemma fr_par : forall PB PR PO, frame_rel (par_rel PB PR PO).
Proof.
  intros PB PR PO. split.
  - intro s. split; [lia|]. split; [|split]; apply par_clause_refl.
  - intros s1 s2 s3 (C1 & A1 & A2 & A3) (C2 & B1 & B2 & B3). split; [lia|].
    split; [|split]; eapply par_clause_trans; eassumption.
Qed.

Lemma par_rel_ok : forall PB PR PO s s', par_rel PB PR PO s s' -> parents_ok s ->
  (forall b, PB b -> (b < n_block s')%positive) -> (forall r, PR r -> (r < n_region s')%positive) ->
  (forall o, PO o -> (o < n_op s')%positive) -> parents_ok s'.
Proof.
  intros PB PR PO s s' ((C1 & C2 & C3) & A1 & A2 & A3) (P1 & P2 & P3) HB HR HO. split; [|split].
  - intros o x' b F E Q. destruct (A1 o x' F E) as [N|[(p & Qp & Pp)|(x & F0 & E0 & Q0)]].
    + congruence.
    + rewrite Q in Qp. injection Qp as <-. apply HB. exact Pp.
    + rewrite Q0 in Q. specialize (P1 o x b F0 E0 Q). lia.
  - intros b x' r F E Q. destruct (A2 b x' F E) as [N|[(p & Qp & Pp)|(x & F0 & E0 & Q0)]].
    + congruence.
    + rewrite Q in Qp. injection Qp as <-. apply HR. exact Pp.
    + rewrite Q0 in Q. specialize (P2 b x r F0 E0 Q). lia.
  - intros r x' o F E Q. destruct (A3 r x' F E) as [N|[(p & Qp & Pp)|(x & F0 & E0 & Q0)]].
    + congruence.
    + rewrite Q in Qp. injection Qp as <-. apply HO. exact Pp.
    + rewrite Q0 in Q. specialize (P3 r x o F0 E0 Q). lia.
Qed.

(* primitive writes *)
Lemma updO_par : forall PB PR PO o f,
  (forall x, (o_erased (f x) = false -> o_erased x = false) /\
             (o_parent (f x) = o_parent x \/ o_parent (f x) = None \/ exists b, o_parent (f x) = Some b /\ PB b)) ->
  preserves (par_rel PB PR PO) (updO o f).
Proof.
  intros PB PR PO o f C s s' r H. unfold updO in H. destruct (PM.find o (s_ops s)) as [x|] eqn:F;
    inversion H; subst; [|apply fr_par].
  split; [simpl; lia|]. simpl. split; [|split; apply par_clause_refl].
  apply par_clause_add. intro E. destruct (C x) as [C1 [C2|[C2|C2]]].
  - right. right. exists x. auto.
  - left. exact C2.
  - right. left. exact C2.
Qed.
Lemma updB_par : forall PB PR PO b f,
  (forall x, (b_erased (f x) = false -> b_erased x = false) /\
             (b_parent (f x) = b_parent x \/ b_parent (f x) = None \/ exists r, b_parent (f x) = Some r /\ PR r)) ->
  preserves (par_rel PB PR PO) (updB b f).
Proof.
  intros PB PR PO b f C s s' r H. unfold updB in H. destruct (PM.find b (s_blocks s)) as [x|] eqn:F;
    inversion H; subst; [|apply fr_par].
  split; [simpl; lia|]. simpl. split; [apply par_clause_refl|]. split; [|apply par_clause_refl].
  apply par_clause_add. intro E. destruct (C x) as [C1 [C2|[C2|C2]]].
  - right. right. exists x. auto.
  - left. exact C2.
  - right. left. exact C2.
Qed.
Lemma updR_par : forall PB PR PO q f,
  (forall x, (r_erased (f x) = false -> r_erased x = false) /\
             (r_parent (f x) = r_parent x \/ r_parent (f x) = None \/ exists o, r_parent (f x) = Some o /\ PO o)) ->
  preserves (par_rel PB PR PO) (updR q f).
Proof.
  intros PB PR PO q f C s s' r H. unfold updR in H. destruct (PM.find q (s_regions s)) as [x|] eqn:F;
    inversion H; subst; [|apply fr_par].
  split; [simpl; lia|]. simpl. split; [apply par_clause_refl|]. split; [apply par_clause_refl|].
  apply par_clause_add. intro E. destruct (C x) as [C1 [C2|[C2|C2]]].
  - right. right. exists x. auto.
  - left. exact C2.
  - right. left. exact C2.
Qed.
Lemma updV_par : forall PB PR PO v f, preserves (par_rel PB PR PO) (updV v f).
Proof.
  intros PB PR PO v f s s' r H. unfold updV in H. destruct (PM.find v (s_values s)); inversion H; subst; [|apply fr_par].
  split; [simpl; lia|]. simpl. split; [|split]; apply par_clause_refl.
Qed.
Lemma updU_par : forall PB PR PO u f, preserves (par_rel PB PR PO) (updU u f).
Proof.
  intros PB PR PO u f s s' r H. unfold updU in H. destruct (PM.find u (s_uses s)); inversion H; subst; [|apply fr_par].
  split; [simpl; lia|]. simpl. split; [|split]; apply par_clause_refl.
Qed.

(* allocations *)
Lemma allocO_par : forall PB PR PO x,
  (o_erased x = false -> o_parent x = None \/ exists b, o_parent x = Some b /\ PB b) ->
  preserves (par_rel PB PR PO) (allocO x).
Proof.
  intros PB PR PO x C s s' r H. unfold allocO in H. injection H as <- _.
  split; [simpl; lia|]. simpl. split; [|split; apply par_clause_refl].
  apply par_clause_add. intro E. destruct (C E) as [Q|Q]; [left; exact Q|right; left; exact Q].
Qed.
Lemma allocB_par : forall PB PR PO x,
  (b_erased x = false -> b_parent x = None \/ exists r, b_parent x = Some r /\ PR r) ->
  preserves (par_rel PB PR PO) (allocB x).
Proof.
  intros PB PR PO x C s s' r H. unfold allocB in H. injection H as <- _.
  split; [simpl; lia|]. simpl. split; [apply par_clause_refl|]. split; [|apply par_clause_refl].
  apply par_clause_add. intro E. destruct (C E) as [Q|Q]; [left; exact Q|right; left; exact Q].
Qed.
Lemma allocR_par : forall PB PR PO x,
  (r_erased x = false -> r_parent x = None \/ exists o, r_parent x = Some o /\ PO o) ->
  preserves (par_rel PB PR PO) (allocR x).
Proof.
  intros PB PR PO x C s s' r H. unfold allocR in H. injection H as <- _.
  split; [simpl; lia|]. simpl. split; [apply par_clause_refl|]. split; [apply par_clause_refl|].
  apply par_clause_add. intro E. destruct (C E) as [Q|Q]; [left; exact Q|right; left; exact Q].
Qed.
Lemma allocV_par : forall PB PR PO x, preserves (par_rel PB PR PO) (allocV x).
Proof.
  intros PB PR PO x s s' r H. unfold allocV in H. injection H as <- _.
  split; [simpl; lia|]. simpl. split; [|split]; apply par_clause_refl.
Qed.
Lemma allocU_par : forall PB PR PO x, preserves (par_rel PB PR PO) (allocU x).
Proof.
  intros PB PR PO x s s' r H. unfold allocU in H. injection H as <- _.
  split; [simpl; lia|]. simpl. split; [|split]; apply par_clause_refl.
Qed.

Ltac par_side :=
  let H := fresh "H" in
  intros ?; split;
  [first [exact (fun H => H) | intro H; discriminate H]
  |first [left; reflexivity | right; left; reflexivity
         | right; right; eexists; split; [reflexivity|solve [auto]]]].
Ltac par_side_alloc :=
  let H := fresh "H" in
  intro H; first [discriminate H | left; reflexivity | right; eexists; split; [reflexivity|solve [auto]]].

#[export] Hint Resolve fr_par updV_par updU_par allocV_par allocU_par : pres.
#[export] Hint Extern 1 (preserves (par_rel _ _ _) (updO _ _)) => apply updO_par; par_side : pres.
#[export] Hint Extern 1 (preserves (par_rel _ _ _) (updB _ _)) => apply updB_par; par_side : pres.
#[export] Hint Extern 1 (preserves (par_rel _ _ _) (updR _ _)) => apply updR_par; par_side : pres.
#[export] Hint Extern 1 (preserves (par_rel _ _ _) (allocO _)) => apply allocO_par; par_side_alloc : pres.
#[export] Hint Extern 1 (preserves (par_rel _ _ _) (allocB _)) => apply allocB_par; par_side_alloc : pres.
#[export] Hint Extern 1 (preserves (par_rel _ _ _) (allocR _)) => apply allocR_par; par_side_alloc : pres.

(* the programs used by the constructors *)
Lemma alloc_kinds_par : forall PB PR PO mk idxs, preserves (par_rel PB PR PO) (alloc_kinds mk idxs).
Proof.
  intros PB PR PO mk idxs. induction idxs as [|i r IH]; simpl; pres (fr_par PB PR PO).
Qed.
Lemma set_first_use_par : forall PB PR PO h u, preserves (par_rel PB PR PO) (set_first_use h u).
Proof. intros. unfold set_first_use. destruct h; pres (fr_par PB PR PO). Qed.
#[export] Hint Resolve set_first_use_par : pres.
Lemma add_use_par : forall PB PR PO h u, preserves (par_rel PB PR PO) (add_use h u).
Proof. intros. unfold add_use. pres (fr_par PB PR PO). Qed.
Lemma remove_use_par : forall PB PR PO h u, preserves (par_rel PB PR PO) (remove_use h u).
Proof. intros. unfold remove_use. pres (fr_par PB PR PO). Qed.
#[export] Hint Resolve add_use_par remove_use_par : pres.
Lemma set_operands_par : forall PB PR PO o new, preserves (par_rel PB PR PO) (set_operands o new).
Proof.
  intros. unfold set_operands. pres (fr_par PB PR PO). apply alloc_uses_pres; auto with pres.
Qed.
Lemma set_successors_par : forall PB PR PO o new, preserves (par_rel PB PR PO) (set_successors o new).
Proof.
  intros. unfold set_successors. pres (fr_par PB PR PO). apply alloc_uses_pres; auto with pres.
Qed.
Lemma add_op_par : forall PR PO b o, preserves (par_rel (eq b) PR PO) (add_op b o).
Proof. intros. unfold add_op. pres (fr_par (eq b) PR PO); pres_ops (fr_par (eq b) PR PO). Qed.
Lemma add_ops_par : forall PR PO b ops, preserves (par_rel (eq b) PR PO) (add_ops b ops).
Proof. intros. unfold add_ops. apply (pres_forM _ (fr_par (eq b) PR PO)). intro o. apply add_op_par. Qed.
Lemma link_blocks_par : forall PB PO r p bs, preserves (par_rel PB (eq r) PO) (link_blocks r p bs).
Proof.
  intros PB PO r p bs. revert p. induction bs as [|b tl IH]; intros p; simpl;
    [pres (fr_par PB (eq r) PO)|unfold attach_block; pres (fr_par PB (eq r) PO)].
Qed.
#[export] Hint Resolve alloc_kinds_par set_operands_par set_successors_par add_op_par add_ops_par link_blocks_par : pres.
Lemma add_block_par : forall PB PO r bs, preserves (par_rel PB (eq r) PO) (add_block r bs).
Proof. intros. unfold add_block, attach_block. pres (fr_par PB (eq r) PO). Qed.
Lemma add_region_par : forall PB PR o r, preserves (par_rel PB PR (eq o)) (add_region o r).
Proof. intros. unfold add_region. pres (fr_par PB PR (eq o)). Qed.
#[export] Hint Resolve add_block_par add_region_par : pres.

Lemma alloc_args_par : forall PB PR PO b idxs, preserves (par_rel PB PR PO) (alloc_args b idxs).
Proof. intros. rewrite alloc_args_kinds. apply alloc_kinds_par. Qed.
Lemma alloc_results_par : forall PB PR PO o idxs, preserves (par_rel PB PR PO) (alloc_results o idxs).
Proof. intros. rewrite alloc_results_kinds. apply alloc_kinds_par. Qed.
#[export] Hint Resolve alloc_args_par alloc_results_par : pres.

Definition nobody : positive -> Prop := fun _ => False.

(* the creation functions keep parents_ok (no WF needed) *)
Theorem block_new_parents_ok : forall s s' ops nargs b,
  parents_ok s -> block_new ops nargs s = (s', Ok b) -> parents_ok s'.
Proof.
  intros s s' ops nargs b PO H. unfold block_new in H.
  apply bind_ok in H as (s1 & b1 & Ha & H).
  assert (R0 : par_rel (eq b1) nobody nobody s s1).
  { eapply (allocB_par (eq b1) nobody nobody); [|exact Ha]. intros _. left. reflexivity. }
  assert (N1 : n_block s1 = Pos.succ (n_block s) /\ b1 = n_block s).
  { unfold allocB in Ha. injection Ha as <- <-. split; reflexivity. }
  assert (PP : preserves (par_rel (eq b1) nobody nobody)
            (args <- alloc_args b1 (range_from 0 nargs) ;; updB b1 (set_b_args args) ;;;
             updB b1 (set_b_first_op None) ;;; updB b1 (set_b_last_op None) ;;; add_ops b1 ops ;;; ret b1)).
  { pres (fr_par (eq b1) nobody nobody). }
  pose proof (PP s1 s' _ H) as R1.
  pose proof (fr_trans _ (fr_par (eq b1) nobody nobody) _ _ _ R0 R1) as R.
  apply (par_rel_ok _ _ _ s s' R PO).
  - intros c <-. destruct R1 as ((_ & C & _) & _). destruct N1 as [N1 ->]. lia.
  - intros r [].
  - intros o [].
Qed.

Theorem region_new_parents_ok : forall s s' blocks r,
  parents_ok s -> region_new blocks s = (s', Ok r) -> parents_ok s'.
Proof.
  intros s s' blocks r PO H. unfold region_new in H.
  apply bind_ok in H as (s1 & r1 & Ha & H).
  assert (R0 : par_rel nobody (eq r1) nobody s s1).
  { eapply (allocR_par nobody (eq r1) nobody); [|exact Ha]. intros _. left. reflexivity. }
  assert (N1 : n_region s1 = Pos.succ (n_region s) /\ r1 = n_region s).
  { unfold allocR in Ha. injection Ha as <- <-. split; reflexivity. }
  assert (PP : preserves (par_rel nobody (eq r1) nobody) (add_block r1 blocks ;;; ret r1)).
  { pres (fr_par nobody (eq r1) nobody). }
  pose proof (PP s1 s' _ H) as R1.
  pose proof (fr_trans _ (fr_par nobody (eq r1) nobody) _ _ _ R0 R1) as R.
  apply (par_rel_ok _ _ _ s s' R PO).
  - intros c [].
  - intros c <-. destruct R1 as ((_ & _ & C) & _). destruct N1 as [N1 ->]. lia.
  - intros o [].
Qed.

Theorem op_create_parents_ok : forall s s' operands nres succs regions o,
  parents_ok s -> op_create operands nres succs regions s = (s', Ok o) -> parents_ok s'.
Proof.
  intros s s' operands nres succs regions o PO H. unfold op_create in H.
  apply bind_ok in H as (s1 & o1 & Ha & H).
  assert (R0 : par_rel nobody nobody (eq o1) s s1).
  { eapply (allocO_par nobody nobody (eq o1)); [|exact Ha]. intros _. left. reflexivity. }
  assert (N1 : n_op s1 = Pos.succ (n_op s) /\ o1 = n_op s).
  { unfold allocO in Ha. injection Ha as <- <-. split; reflexivity. }
  assert (PP : preserves (par_rel nobody nobody (eq o1))
            (set_operands o1 operands ;;; results <- alloc_results o1 (range_from 0 nres) ;;
             updO o1 (set_o_results results) ;;; set_successors o1 succs ;;; updO o1 (set_o_regions []) ;;;
             forM regions (add_region o1) ;;; ret o1)).
  { pres (fr_par nobody nobody (eq o1)). }
  pose proof (PP s1 s' _ H) as R1.
  pose proof (fr_trans _ (fr_par nobody nobody (eq o1)) _ _ _ R0 R1) as R.
  apply (par_rel_ok _ _ _ s s' R PO).
  - intros c [].
  - intros c [].
  - intros c <-. destruct R1 as ((C & _ & _) & _). destruct N1 as [N1 ->]. lia.
Qed.

(* every program that keeps the T1/T2/T3 groups and the three node counters keeps parents_ok; in
   particular every call for which same_T1, same_T2, same_T3 and same_A lemmas exist *)
Lemma parents_ok_preserved : forall {A} (m : M A) s s' r,
  preserves same_T1 m -> preserves same_T2 m -> preserves same_T3 m -> preserves same_A m ->
  parents_ok s -> m s = (s', r) -> parents_ok s'.
Proof. intros A m s s' r P1 P2 P3 PA PO H. eapply parents_ok_same; eauto. Qed.

(* corollaries in the shape used by a history induction: WF /\ parents_ok is kept *)
Theorem block_new_inv : forall s s' ops nargs b,
  WF s -> parents_ok s -> (forall o, In o ops -> op_live s o) ->
  block_new ops nargs s = (s', Ok b) -> WF s' /\ parents_ok s'.
Proof.
  intros s s' ops nargs b W PO OL H. split; [|eapply block_new_parents_ok; eauto].
  eapply block_new_WF; eauto. apply parents_ok_fresh. exact PO.
Qed.
Theorem region_new_inv : forall s s' blocks r,
  WF s -> parents_ok s -> (forall b, In b blocks -> blk_live s b) ->
  region_new blocks s = (s', Ok r) -> WF s' /\ parents_ok s'.
Proof.
  intros s s' blocks r W PO BL H. split; [|eapply region_new_parents_ok; eauto].
  eapply region_new_WF; eauto. apply parents_ok_fresh. exact PO.
Qed.
Theorem op_create_inv : forall s s' operands nres succs regions o,
  WF s -> parents_ok s ->
  op_create operands nres succs regions s = (s', Ok o) -> WF s' /\ parents_ok s'.
Proof.
  intros s s' operands nres succs regions o W PO H. split; [|eapply op_create_parents_ok; eauto].
  eapply op_create_WF_gen; eauto. apply parents_ok_fresh. exact PO.
Qed.

(* ------------------------------------------------------------------ parents_ok for the other mutators

   `preserves (par_rel PB PR PO) prog` for the mutators without tree walks; PB / PR / PO name the
   only ids that the program can store in a parent field (`nobody` when it stores none).  The
   relation holds whatever the outcome (Ok or Raise), so `parents_ok` is kept by raising calls
   too.  `par_rel_live_ok` closes the argument when the stored ids are allocated objects. *)

Lemma par_rel_live_ok : forall PB PR PO s s', par_rel PB PR PO s s' -> WF_alloc s -> parents_ok s ->
  (forall b, PB b -> exists x, PM.find b (s_blocks s) = Some x) ->
  (forall r, PR r -> exists x, PM.find r (s_regions s) = Some x) ->
  (forall o, PO o -> exists x, PM.find o (s_ops s) = Some x) -> parents_ok s'.
Proof.
  intros PB PR PO s s' R (B1 & B2 & B3 & _) P HB HR HO. pose proof R as ((C1 & C2 & C3) & _).
  apply (par_rel_ok _ _ _ s s' R P).
  - intros b Pb. destruct (HB b Pb) as (x & F). specialize (B2 _ _ F). lia.
  - intros r Pr. destruct (HR r Pr) as (x & F). specialize (B3 _ _ F). lia.
  - intros o Po. destruct (HO o Po) as (x & F). specialize (B1 _ _ F). lia.
Qed.

Lemma par_rel_nobody_ok : forall s s', par_rel nobody nobody nobody s s' -> parents_ok s -> parents_ok s'.
Proof. intros s s' R P. apply (par_rel_ok _ _ _ s s' R P); intros ? []. Qed.

(* use lists *)
Lemma operands_setitem_par : forall PB PR PO o i w, preserves (par_rel PB PR PO) (operands_setitem o i w).
Proof. intros. unfold operands_setitem. pres (fr_par PB PR PO). Qed.
Lemma successors_setitem_par : forall PB PR PO o i w, preserves (par_rel PB PR PO) (successors_setitem o i w).
Proof. intros. unfold successors_setitem. pres (fr_par PB PR PO). Qed.
#[export] Hint Resolve operands_setitem_par successors_setitem_par : pres.

Lemma uses_from_par : forall PB PR PO fl cur, preserves (par_rel PB PR PO) (uses_from fl cur).
Proof.
  intros PB PR PO fl. induction fl as [|f IH]; intro cur; simpl; [pres (fr_par PB PR PO)|].
  destruct cur as [u|]; pres (fr_par PB PR PO).
Qed.
#[export] Hint Resolve uses_from_par : pres.
Lemma uses_of_par : forall PB PR PO h, preserves (par_rel PB PR PO) (uses_of h).
Proof. intros. unfold uses_of. pres (fr_par PB PR PO). Qed.
#[export] Hint Resolve uses_of_par : pres.
Lemma replace_all_uses_with_par : forall PB PR PO a b, preserves (par_rel PB PR PO) (replace_all_uses_with a b).
Proof. intros. unfold replace_all_uses_with. pres (fr_par PB PR PO). Qed.
Lemma rauw_if_loop_par : forall PB PR PO us sel v, preserves (par_rel PB PR PO) (rauw_if_loop us sel v).
Proof.
  intros PB PR PO us. induction us as [|u r IH]; intros sel v; simpl; pres (fr_par PB PR PO).
Qed.
#[export] Hint Resolve replace_all_uses_with_par rauw_if_loop_par : pres.
Lemma replace_uses_with_if_par : forall PB PR PO a b sel, preserves (par_rel PB PR PO) (replace_uses_with_if a b sel).
Proof. intros. unfold replace_uses_with_if. pres (fr_par PB PR PO). Qed.
Lemma value_erase_par : forall PB PR PO v safe, preserves (par_rel PB PR PO) (value_erase v safe).
Proof. intros. unfold value_erase. pres (fr_par PB PR PO). Qed.
#[export] Hint Resolve replace_uses_with_if_par value_erase_par : pres.
Lemma pr_replace_all_uses_with_par : forall PB PR PO v w safe,
  preserves (par_rel PB PR PO) (pr_replace_all_uses_with v w safe).
Proof. intros. unfold pr_replace_all_uses_with. pres (fr_par PB PR PO). Qed.
Lemma pr_replace_uses_with_if_par : forall PB PR PO v w sel,
  preserves (par_rel PB PR PO) (pr_replace_uses_with_if v w sel).
Proof. intros. unfold pr_replace_uses_with_if. pres (fr_par PB PR PO). Qed.

(* block arguments *)
Lemma add_index_par : forall PB PR PO d v, preserves (par_rel PB PR PO) (add_index d v).
Proof. intros. unfold add_index. pres (fr_par PB PR PO). Qed.
#[export] Hint Resolve add_index_par : pres.
Lemma insert_arg_par : forall PB PR PO b i, preserves (par_rel PB PR PO) (insert_arg b i).
Proof. intros. unfold insert_arg. pres (fr_par PB PR PO). Qed.
Lemma kill_par : forall PB PR PO l, preserves (par_rel PB PR PO) (kill l).
Proof. intros. unfold kill. pres (fr_par PB PR PO). unfold kill1. destruct a; pres (fr_par PB PR PO). Qed.
#[export] Hint Resolve kill_par : pres.
Lemma erase_arg_par : forall PB PR PO b v safe, preserves (par_rel PB PR PO) (erase_arg b v safe).
Proof. intros. unfold erase_arg. pres (fr_par PB PR PO). destruct (v_kind a); pres (fr_par PB PR PO). Qed.

(* ops in blocks *)
Lemma insert_op_after_par : forall PR PO b n e, preserves (par_rel (eq b) PR PO) (insert_op_after b n e).
Proof. intros. pres_ops (fr_par (eq b) PR PO). Qed.
Lemma insert_op_before_par : forall PR PO b n e, preserves (par_rel (eq b) PR PO) (insert_op_before b n e).
Proof. intros. pres_ops (fr_par (eq b) PR PO). Qed.
Lemma detach_op_par : forall PB PR PO b o, preserves (par_rel PB PR PO) (detach_op b o).
Proof. intros. pres_ops (fr_par PB PR PO). Qed.
#[export] Hint Resolve insert_op_after_par insert_op_before_par detach_op_par : pres.
Lemma op_detach_par : forall PB PR PO o, preserves (par_rel PB PR PO) (op_detach o).
Proof. intros. unfold op_detach. pres (fr_par PB PR PO). Qed.
Lemma insert_ops_before_par : forall PR PO b ops e, preserves (par_rel (eq b) PR PO) (insert_ops_before b ops e).
Proof. intros. unfold insert_ops_before. pres (fr_par (eq b) PR PO). Qed.
Lemma insert_ops_after_par : forall PR PO b ops e, preserves (par_rel (eq b) PR PO) (insert_ops_after b ops e).
Proof.
  intros PR PO b ops. induction ops as [|o r IH]; intro e; simpl; pres (fr_par (eq b) PR PO).
Qed.
#[export] Hint Resolve op_detach_par insert_ops_before_par insert_ops_after_par : pres.
Lemma rw_insert_op_par : forall PR PO ops b ib, preserves (par_rel (eq b) PR PO) (rw_insert_op ops b ib).
Proof. intros. unfold rw_insert_op, check_insert_point. pres (fr_par (eq b) PR PO). Qed.

(* blocks in regions *)
Lemma insert_block_before_par : forall PB PO r bs t, preserves (par_rel PB (eq r) PO) (insert_block_before r bs t).
Proof. intros. unfold insert_block_before, attach_block. pres (fr_par PB (eq r) PO). Qed.
Lemma detach_block_core_par : forall PB PR PO r b, preserves (par_rel PB PR PO) (detach_block_core r b).
Proof. intros. unfold detach_block_core. pres (fr_par PB PR PO). Qed.
#[export] Hint Resolve insert_block_before_par detach_block_core_par : pres.
Lemma detach_block_par : forall PB PR PO r b, preserves (par_rel PB PR PO) (detach_block r b).
Proof. intros. unfold detach_block. pres (fr_par PB PR PO). Qed.
Lemma nth_block_fwd_par : forall PB PR PO fl cur k, preserves (par_rel PB PR PO) (nth_block_fwd fl cur k).
Proof.
  intros PB PR PO fl. induction fl as [|f IH]; intros cur k; simpl; [pres (fr_par PB PR PO)|].
  destruct cur as [c|]; pres (fr_par PB PR PO).
Qed.
Lemma nth_block_bwd_par : forall PB PR PO fl cur k, preserves (par_rel PB PR PO) (nth_block_bwd fl cur k).
Proof.
  intros PB PR PO fl. induction fl as [|f IH]; intros cur k; simpl; [pres (fr_par PB PR PO)|].
  destruct cur as [c|]; pres (fr_par PB PR PO).
Qed.
#[export] Hint Resolve detach_block_par nth_block_fwd_par nth_block_bwd_par : pres.
Lemma detach_block_idx_par : forall PB PR PO r i, preserves (par_rel PB PR PO) (detach_block_idx r i).
Proof. intros. unfold detach_block_idx, region_blocks_getitem. pres (fr_par PB PR PO). Qed.
Lemma insert_block_after_par : forall PB PO r bs t, preserves (par_rel PB (eq r) PO) (insert_block_after r bs t).
Proof. intros. unfold insert_block_after. pres (fr_par PB (eq r) PO). Qed.
Lemma insert_block_loop_par : forall PB PO fl r bs idx cur i,
  preserves (par_rel PB (eq r) PO) (insert_block_loop fl r bs idx cur i).
Proof.
  intros PB PO fl. induction fl as [|f IH]; intros r bs idx cur i; simpl; [pres (fr_par PB (eq r) PO)|].
  destruct cur as [c|]; pres (fr_par PB (eq r) PO).
Qed.
#[export] Hint Resolve detach_block_idx_par insert_block_after_par insert_block_loop_par : pres.
Lemma insert_block_par : forall PB PO r bs idx, preserves (par_rel PB (eq r) PO) (insert_block r bs idx).
Proof. intros. unfold insert_block. pres (fr_par PB (eq r) PO). Qed.
Lemma rw_insert_block_par : forall PB PO bs r ib, preserves (par_rel PB (eq r) PO) (rw_insert_block bs r ib).
Proof. intros. unfold rw_insert_block, check_block_insert_point. pres (fr_par PB (eq r) PO). Qed.

(* regions in ops *)
Lemma detach_region_par : forall PB PR PO o r, preserves (par_rel PB PR PO) (detach_region o r).
Proof. intros. unfold detach_region, get_region_index, detach_region_at. pres (fr_par PB PR PO). Qed.
Lemma detach_region_idx_par : forall PB PR PO o i, preserves (par_rel PB PR PO) (detach_region_idx o i).
Proof. intros. unfold detach_region_idx, detach_region_at. pres (fr_par PB PR PO). Qed.

(* closing lemmas: one line per call, e.g.
     parents_ok_by_block (add_op b o) b ... (add_op_par nobody nobody b o)
     parents_ok_by_nobody (set_operands o new) ... (set_operands_par nobody nobody nobody o new) *)
Lemma parents_ok_by_nobody : forall {A} (m : M A) s s' r,
  preserves (par_rel nobody nobody nobody) m -> parents_ok s -> m s = (s', r) -> parents_ok s'.
Proof. intros A m s s' r P PO H. eapply par_rel_nobody_ok; eauto. Qed.

Lemma parents_ok_by_block : forall {A} (m : M A) b s s' r,
  preserves (par_rel (eq b) nobody nobody) m -> WF s -> parents_ok s -> blk_live s b ->
  m s = (s', r) -> parents_ok s'.
Proof.
  intros A m b s s' r P W PO (x & F & _) H.
  apply (par_rel_live_ok _ _ _ s s' (P s s' r H) (wf_alloc s W) PO).
  - intros c <-. eauto.
  - intros c [].
  - intros c [].
Qed.

Lemma parents_ok_by_region : forall {A} (m : M A) q s s' r,
  preserves (par_rel nobody (eq q) nobody) m -> WF s -> parents_ok s -> reg_live s q ->
  m s = (s', r) -> parents_ok s'.
Proof.
  intros A m q s s' r P W PO (x & F & _) H.
  apply (par_rel_live_ok _ _ _ s s' (P s s' r H) (wf_alloc s W) PO).
  - intros c [].
  - intros c <-. eauto.
  - intros c [].
Qed.

Lemma parents_ok_by_op : forall {A} (m : M A) o s s' r,
  preserves (par_rel nobody nobody (eq o)) m -> WF s -> parents_ok s -> op_live s o ->
  m s = (s', r) -> parents_ok s'.
Proof.
  intros A m o s s' r P W PO (x & F & _) H.
  apply (par_rel_live_ok _ _ _ s s' (P s s' r H) (wf_alloc s W) PO).
  - intros c [].
  - intros c [].
  - intros c <-. eauto.
Qed.

(* examples *)
Theorem add_op_parents_ok : forall s s' b o r,
  WF s -> parents_ok s -> blk_live s b -> add_op b o s = (s', r) -> parents_ok s'.
Proof. intros s s' b o r W PO BL H. exact (parents_ok_by_block _ b s s' r (add_op_par nobody nobody b o) W PO BL H). Qed.
Theorem add_block_parents_ok : forall s s' q bs r,
  WF s -> parents_ok s -> reg_live s q -> add_block q bs s = (s', r) -> parents_ok s'.
Proof. intros s s' q bs r W PO RL H. exact (parents_ok_by_region _ q s s' r (add_block_par nobody nobody q bs) W PO RL H). Qed.
Theorem add_region_parents_ok : forall s s' o q r,
  WF s -> parents_ok s -> op_live s o -> add_region o q s = (s', r) -> parents_ok s'.
Proof. intros s s' o q r W PO OL H. exact (parents_ok_by_op _ o s s' r (add_region_par nobody nobody o q) W PO OL H). Qed.
Theorem set_operands_parents_ok : forall s s' o new r,
  parents_ok s -> set_operands o new s = (s', r) -> parents_ok s'.
Proof. intros s s' o new r PO H. exact (parents_ok_by_nobody _ s s' r (set_operands_par nobody nobody nobody o new) PO H). Qed.
