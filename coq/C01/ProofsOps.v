(* C01/ProofsOps.v -- WF is preserved by the op-in-block mutators:
   Block.insert_op_after, insert_op_before, add_op, detach_op, Operation.detach. *)
From Coq Require Import ZArith List Bool PArith FMapPositive Lia.
From XV Require Import C01.Model C01.Spec C01.ProofsBase C01.ProofsFrame C01.ProofsUses C01.ProofsOperands C01.ProofsDll.
Import ListNotations.

(* ------------------------------------------------------------------ the T1 view of a state *)

Definition olive (s : state) (o : oid) : bool :=
  match PM.find o (s_ops s) with Some x => negb (o_erased x) | None => false end.
Definition bFL (s : state) (b : bid) : option (option oid * option oid) :=
  match PM.find b (s_blocks s) with
  | Some br => if b_erased br then None else Some (b_first_op br, b_last_op br)
  | None => None
  end.
Definition viewT1 (s : state) : dview :=
  mkView (op_next s) (op_prev s) (link (s_ops s) o_parent) (olive s) (bFL s).

Lemma WF_block_Dabs : forall s, WF_block s <-> Dabs (viewT1 s).
Proof.
  intro s. split.
  - intros W b f la H. simpl in H. unfold bFL in H.
    destruct (PM.find b (s_blocks s)) as [br|] eqn:F; [|discriminate].
    destruct (b_erased br) eqn:E; [discriminate|]. injection H as <- <-.
    destruct (W b br F E) as (l & C1 & C2 & ND & M1 & M2). exists l. repeat split; try assumption.
    + intros x Ix. simpl. unfold link. destruct (M1 x Ix) as (xr & Fx & Px). rewrite Fx. simpl. f_equal. exact Px.
    + intros x Lx Px. simpl in Lx, Px. unfold olive in Lx. unfold link in Px.
      destruct (PM.find x (s_ops s)) as [xr|] eqn:Fx; [|discriminate]. simpl in Px. injection Px as Px.
      eapply M2; eauto. destruct (o_erased xr); [discriminate|reflexivity].
  - intros D b br F E. destruct (D b (b_first_op br) (b_last_op br)) as (l & C1 & C2 & ND & M1 & M2).
    { simpl. unfold bFL. rewrite F, E. reflexivity. }
    exists l. repeat split; try assumption.
    + intros o Io. specialize (M1 o Io). simpl in M1. unfold link in M1.
      destruct (PM.find o (s_ops s)) as [x|]; [|discriminate]. simpl in M1. injection M1 as M1. eauto.
    + intros o x Fx Ex Px. apply M2; simpl.
      * unfold olive. rewrite Fx, Ex. reflexivity.
      * unfold link. rewrite Fx. simpl. f_equal. exact Px.
Qed.

Definition Ddet (V : dview) : Prop :=
  forall x, dLive V x = true -> dPar V x = Some None -> dN V x = Some None /\ dP V x = Some None.

Lemma detached_ops_Ddet : forall s,
  (forall o x, PM.find o (s_ops s) = Some x -> o_erased x = false -> o_parent x = None ->
               o_next x = None /\ o_prev x = None) <-> Ddet (viewT1 s).
Proof.
  intro s. split.
  - intros W x Lx Px. simpl in *. unfold olive in Lx. unfold link in Px. unfold op_next, op_prev, link.
    destruct (PM.find x (s_ops s)) as [xr|] eqn:F; [|discriminate]. simpl in *. injection Px as Px.
    destruct (W x xr F) as [Q1 Q2]; [destruct (o_erased xr); [discriminate|reflexivity]|exact Px|].
    rewrite Q1, Q2. auto.
  - intros D o x F E P. destruct (D o) as [Q1 Q2].
    + simpl. unfold olive. rewrite F, E. reflexivity.
    + simpl. unfold link. rewrite F. simpl. rewrite P. reflexivity.
    + simpl in Q1, Q2. unfold op_next, op_prev, link in *. rewrite F in *. simpl in *.
      injection Q1 as Q1. injection Q2 as Q2. auto.
Qed.

Lemma Ddet_other : forall V V', Ddet V ->
  (forall x, dLive V' x = true -> dPar V' x = Some None ->
     dLive V x = true /\ dPar V x = Some None /\ dN V' x = dN V x /\ dP V' x = dP V x) ->
  Ddet V'.
Proof.
  intros V V' D E x Lx Px. destruct (E x Lx Px) as (L0 & P0 & EN & EP).
  rewrite EN, EP. apply D; assumption.
Qed.

Definition fupd {A} (f : positive -> A) (k : positive) (v : A) : positive -> A :=
  fun x => if Pos.eqb x k then v else f x.

Lemma fupd_same : forall {A} (f : positive -> A) k v, fupd f k v k = v.
Proof. intros. unfold fupd. rewrite Pos.eqb_refl. reflexivity. Qed.
Lemma fupd_other : forall {A} (f : positive -> A) k v x, x <> k -> fupd f k v x = f x.
Proof. intros A f k v x N. unfold fupd. destruct (Pos.eqb_spec x k); [contradiction|reflexivity]. Qed.

(* effect of the primitive writes on the T1 view *)
Lemma updO_next_view : forall y v s s' r, updO y (set_o_next v) s = (s', Ok r) ->
  (forall z, dN (viewT1 s') z = fupd (dN (viewT1 s)) y (Some v) z) /\
  (forall z, dP (viewT1 s') z = dP (viewT1 s) z) /\ (forall z, dPar (viewT1 s') z = dPar (viewT1 s) z) /\
  (forall z, dLive (viewT1 s') z = dLive (viewT1 s) z) /\ (forall z, dFL (viewT1 s') z = dFL (viewT1 s) z).
Proof.
  intros y v s s' r H. apply updO_ok in H as (x & F & ->). simpl.
  repeat split; intro z; unfold op_next, op_prev, olive, fupd; simpl; rewrite ?link_add, ?find_add;
    destruct (Pos.eqb_spec z y) as [->|]; try reflexivity; unfold link; rewrite ?F; reflexivity.
Qed.
Lemma updO_prev_view : forall y v s s' r, updO y (set_o_prev v) s = (s', Ok r) ->
  (forall z, dN (viewT1 s') z = dN (viewT1 s) z) /\
  (forall z, dP (viewT1 s') z = fupd (dP (viewT1 s)) y (Some v) z) /\ (forall z, dPar (viewT1 s') z = dPar (viewT1 s) z) /\
  (forall z, dLive (viewT1 s') z = dLive (viewT1 s) z) /\ (forall z, dFL (viewT1 s') z = dFL (viewT1 s) z).
Proof.
  intros y v s s' r H. apply updO_ok in H as (x & F & ->). simpl.
  repeat split; intro z; unfold op_next, op_prev, olive, fupd; simpl; rewrite ?link_add, ?find_add;
    destruct (Pos.eqb_spec z y) as [->|]; try reflexivity; unfold link; rewrite ?F; reflexivity.
Qed.
Lemma updO_parent_view : forall y v s s' r, updO y (set_o_parent v) s = (s', Ok r) ->
  (forall z, dN (viewT1 s') z = dN (viewT1 s) z) /\
  (forall z, dP (viewT1 s') z = dP (viewT1 s) z) /\ (forall z, dPar (viewT1 s') z = fupd (dPar (viewT1 s)) y (Some v) z) /\
  (forall z, dLive (viewT1 s') z = dLive (viewT1 s) z) /\ (forall z, dFL (viewT1 s') z = dFL (viewT1 s) z).
Proof.
  intros y v s s' r H. apply updO_ok in H as (x & F & ->). simpl.
  repeat split; intro z; unfold op_next, op_prev, olive, fupd; simpl; rewrite ?link_add, ?find_add;
    destruct (Pos.eqb_spec z y) as [->|]; try reflexivity; unfold link; rewrite ?F; reflexivity.
Qed.

Definition set_fst {A B} (v : A) (p : option (A * B)) : option (A * B) :=
  match p with Some (_, b) => Some (v, b) | None => None end.
Definition set_snd {A B} (v : B) (p : option (A * B)) : option (A * B) :=
  match p with Some (a, _) => Some (a, v) | None => None end.

Lemma updB_first_view : forall b v s s' r, updB b (set_b_first_op v) s = (s', Ok r) ->
  (forall z, dN (viewT1 s') z = dN (viewT1 s) z) /\
  (forall z, dP (viewT1 s') z = dP (viewT1 s) z) /\ (forall z, dPar (viewT1 s') z = dPar (viewT1 s) z) /\
  (forall z, dLive (viewT1 s') z = dLive (viewT1 s) z) /\
  (forall z, dFL (viewT1 s') z = fupd (dFL (viewT1 s)) b (set_fst v (dFL (viewT1 s) b)) z).
Proof.
  intros b v s s' r H. apply updB_ok in H as (x & F & ->). simpl.
  repeat split; try (intro z; reflexivity).
  intro z. unfold bFL, fupd. simpl. rewrite find_add. destruct (Pos.eqb_spec z b) as [->|]; [|reflexivity].
  rewrite F. simpl. destruct (b_erased x); reflexivity.
Qed.
Lemma updB_last_view : forall b v s s' r, updB b (set_b_last_op v) s = (s', Ok r) ->
  (forall z, dN (viewT1 s') z = dN (viewT1 s) z) /\
  (forall z, dP (viewT1 s') z = dP (viewT1 s) z) /\ (forall z, dPar (viewT1 s') z = dPar (viewT1 s) z) /\
  (forall z, dLive (viewT1 s') z = dLive (viewT1 s) z) /\
  (forall z, dFL (viewT1 s') z = fupd (dFL (viewT1 s)) b (set_snd v (dFL (viewT1 s) b)) z).
Proof.
  intros b v s s' r H. apply updB_ok in H as (x & F & ->). simpl.
  repeat split; try (intro z; reflexivity).
  intro z. unfold bFL, fupd. simpl. rewrite find_add. destruct (Pos.eqb_spec z b) as [->|]; [|reflexivity].
  rewrite F. simpl. destruct (b_erased x); reflexivity.
Qed.

(* reading a record = reading the view *)
Lemma getO_view : forall o s x, PM.find o (s_ops s) = Some x ->
  dN (viewT1 s) o = Some (o_next x) /\ dP (viewT1 s) o = Some (o_prev x) /\ dPar (viewT1 s) o = Some (o_parent x).
Proof. intros o s x F. simpl. unfold op_next, op_prev, link. rewrite F. auto. Qed.

(* ------------------------------------------------------------------ is_ancestor only reads *)

Lemma is_ancestor_loop_pres : forall R, frame_rel R -> forall fuel a c, preserves R (is_ancestor_loop fuel a c).
Proof.
  intros R FR fuel. induction fuel as [|f IH]; intros a c; simpl.
  - apply (pres_raise _ FR).
  - destruct c as [c|]; [|apply (pres_ret _ FR)].
    destruct (node_eqb c a); [apply (pres_ret _ FR)|].
    apply (pres_bind _ FR); [|intro p; apply IH].
    unfold parent_node. destruct c; pres FR.
Qed.
Lemma is_ancestor_pres : forall R, frame_rel R -> forall a b, preserves R (is_ancestor a b).
Proof. intros R FR a b. unfold is_ancestor. pres FR. apply is_ancestor_loop_pres. exact FR. Qed.
#[export] Hint Extern 1 (preserves _ (is_ancestor _ _)) => apply is_ancestor_pres; eauto with pres : pres.

Lemma fr_eq : frame_rel (@eq state).
Proof. split; [reflexivity|intros; congruence]. Qed.

Lemma is_ancestor_state : forall a b s s' r, is_ancestor a b s = (s', r) -> s' = s.
Proof. intros a b s s' r H. symmetry. eapply (is_ancestor_pres eq fr_eq); eauto. Qed.

(* Block._attach_op *)
Lemma attach_op_eff : forall b o s s' r, attach_op b o s = (s', Ok r) ->
  exists x, PM.find o (s_ops s) = Some x /\ o_parent x = None /\
            updO o (set_o_parent (Some b)) s = (s', Ok tt).
Proof.
  intros b o s s' r H. unfold attach_op in H.
  apply bind_ok in H as (s0 & x & Hg & H). apply getO_ok in Hg as [-> F].
  destruct (is_some (o_parent x)) eqn:P; [exfalso; eapply raise_ok; eauto|].
  apply is_some_false in P.
  apply bind_ok in H as (s1 & anc & Ha & H). apply is_ancestor_state in Ha. subst s1.
  destruct anc; [exfalso; eapply raise_ok; eauto|].
  exists x. destruct r. auto.
Qed.

(* frame of the op-in-block programs for the other groups *)
Ltac pres_ops FR := unfold insert_op_after, insert_op_before, add_op, detach_op, op_detach,
                      attach_op, insert_next_op, insert_prev_op; pres FR.

Lemma insert_op_after_T2 : forall b n e, preserves same_T2 (insert_op_after b n e). Proof. intros. pres_ops fr_T2. Qed.
Lemma insert_op_after_T3 : forall b n e, preserves same_T3 (insert_op_after b n e). Proof. intros. pres_ops fr_T3. Qed.
Lemma insert_op_after_U : forall b n e, preserves same_U (insert_op_after b n e). Proof. intros. pres_ops fr_U. Qed.
Lemma insert_op_after_I : forall b n e, preserves same_I (insert_op_after b n e). Proof. intros. pres_ops fr_I. Qed.
Lemma insert_op_after_A : forall b n e, preserves same_A (insert_op_after b n e). Proof. intros. pres_ops fr_A. Qed.
Lemma insert_op_before_T2 : forall b n e, preserves same_T2 (insert_op_before b n e). Proof. intros. pres_ops fr_T2. Qed.
Lemma insert_op_before_T3 : forall b n e, preserves same_T3 (insert_op_before b n e). Proof. intros. pres_ops fr_T3. Qed.
Lemma insert_op_before_U : forall b n e, preserves same_U (insert_op_before b n e). Proof. intros. pres_ops fr_U. Qed.
Lemma insert_op_before_I : forall b n e, preserves same_I (insert_op_before b n e). Proof. intros. pres_ops fr_I. Qed.
Lemma insert_op_before_A : forall b n e, preserves same_A (insert_op_before b n e). Proof. intros. pres_ops fr_A. Qed.
#[export] Hint Resolve insert_op_after_T2 insert_op_after_T3 insert_op_after_U insert_op_after_I insert_op_after_A
  insert_op_before_T2 insert_op_before_T3 insert_op_before_U insert_op_before_I insert_op_before_A : pres.
Lemma add_op_T2 : forall b o, preserves same_T2 (add_op b o). Proof. intros. unfold add_op. pres fr_T2; pres_ops fr_T2. Qed.
Lemma add_op_T3 : forall b o, preserves same_T3 (add_op b o). Proof. intros. unfold add_op. pres fr_T3; pres_ops fr_T3. Qed.
Lemma add_op_U : forall b o, preserves same_U (add_op b o). Proof. intros. unfold add_op. pres fr_U; pres_ops fr_U. Qed.
Lemma add_op_I : forall b o, preserves same_I (add_op b o). Proof. intros. unfold add_op. pres fr_I; pres_ops fr_I. Qed.
Lemma add_op_A : forall b o, preserves same_A (add_op b o). Proof. intros. unfold add_op. pres fr_A; pres_ops fr_A. Qed.
Lemma detach_op_T2 : forall b o, preserves same_T2 (detach_op b o). Proof. intros. pres_ops fr_T2. Qed.
Lemma detach_op_T3 : forall b o, preserves same_T3 (detach_op b o). Proof. intros. pres_ops fr_T3. Qed.
Lemma detach_op_U : forall b o, preserves same_U (detach_op b o). Proof. intros. pres_ops fr_U. Qed.
Lemma detach_op_I : forall b o, preserves same_I (detach_op b o). Proof. intros. pres_ops fr_I. Qed.
Lemma detach_op_A : forall b o, preserves same_A (detach_op b o). Proof. intros. pres_ops fr_A. Qed.
#[export] Hint Resolve add_op_T2 add_op_T3 add_op_U add_op_I add_op_A
  detach_op_T2 detach_op_T3 detach_op_U detach_op_I detach_op_A : pres.

(* WF from the T1 group: everything except WF_block transfers along the frame relations *)
Lemma WF_groups_T1 : forall s s', WF s ->
  same_T2 s s' -> same_T3 s s' -> same_U s s' -> same_I s s' -> same_A s s' ->
  WF_block s' /\ Ddet (viewT1 s') -> WF s'.
Proof.
  intros s s' W T2 T3 SU SI SA [WB DD].
  assert (UW : UWF s').
  { destruct (UWF_Uabs s (WF_UWF s W)) as [UA LN]. destruct SU as (Ao & Av & Ab & Au).
    apply Uabs_UWF.
    - eapply Uabs_ext; [| | |exact UA].
      + intro u. specialize (Au u). destruct (PM.find u (s_uses s')), (PM.find u (s_uses s)); simpl in Au; congruence.
      + intros [v|b]; simpl; unfold link.
        * specialize (Av v). unfold pU_val in Av.
          destruct (PM.find v (s_values s')), (PM.find v (s_values s)); simpl in *; congruence.
        * specialize (Ab b). unfold pU_blk in Ab.
          destruct (PM.find b (s_blocks s')), (PM.find b (s_blocks s)); simpl in *; congruence.
      + intros h o i u. unfold real_slot. split.
        * intros (x' & F' & E' & Z1 & Z2). destruct (agree_find _ _ _ _ _ Ao F') as (x & F & P).
          unfold pU_op in P. injection P as P1 P2 P3 P4 P5. exists x. split; [exact F|]. split; [congruence|].
          destruct h; simpl in *; rewrite <- ?P1, <- ?P2, <- ?P3, <- ?P4; auto.
        * intros (x & F & E & Z1 & Z2). destruct (agree_find_rev _ _ _ _ _ Ao F) as (x' & F' & P).
          unfold pU_op in P. injection P as P1 P2 P3 P4 P5. exists x'. split; [exact F'|]. split; [congruence|].
          destruct h; simpl in *; rewrite ?P1, ?P2, ?P3, ?P4; auto.
    - intros o x' F' E'. destruct (agree_find _ _ _ _ _ Ao F') as (x & F & P).
      unfold pU_op in P. injection P as P1 P2 P3 P4 P5. rewrite P5 in E'.
      destruct (LN o x F E') as [L1 L2]. rewrite P1, P2, P3, P4. auto. }
  destruct UW as (U1 & U2 & U3 & U4 & U5). destruct W.
  destruct (WF_index_same s s' SI (conj wf_results (conj wf_args wf_owner))) as (I1 & I2 & I3).
  constructor; try assumption.
  - eapply WF_region_same; eauto.
  - eapply WF_opregs_same; eauto.
  - split; [apply detached_ops_Ddet; exact DD|].
    destruct wf_detached as [_ W2]. destruct T2 as [Ab _].
    intros b x' F' E' P'. destruct (agree_find _ _ _ _ _ Ab F') as (x & F & P).
    unfold pT2_blk in P. injection P as P1 P2 P3 P4. rewrite P4 in E'. rewrite P3 in P'.
    destruct (W2 b x F E' P') as [Q1 Q2]. split; congruence.
  - eapply WF_alloc_same; eauto.
Qed.

(* ------------------------------------------------------------------ helpers *)

Definition blk_live (s : state) (b : bid) : Prop :=
  exists br, PM.find b (s_blocks s) = Some br /\ b_erased br = false.

Lemma live_view : forall s o, op_live s o -> dLive (viewT1 s) o = true.
Proof. intros s o (x & F & E). simpl. unfold olive. rewrite F, E. reflexivity. Qed.

Lemma blk_live_FL : forall s b, blk_live s b -> exists f la, dFL (viewT1 s) b = Some (f, la).
Proof. intros s b (br & F & E). simpl. unfold bFL. rewrite F, E. eauto. Qed.

(* chaining view equations: rewrite with every available step equation, then decide the updates *)
Ltac fupd_solve :=
  unfold fupd;
  repeat match goal with
         | |- context [Pos.eqb ?a ?b] => destruct (Pos.eqb_spec a b); subst; try contradiction; try congruence
         end; try reflexivity; try congruence.

Ltac vrew :=
  repeat match goal with
         | H : forall z, dN (viewT1 ?s) z = _ |- context [dN (viewT1 ?s) _] => rewrite H
         | H : forall z, dP (viewT1 ?s) z = _ |- context [dP (viewT1 ?s) _] => rewrite H
         | H : forall z, dPar (viewT1 ?s) z = _ |- context [dPar (viewT1 ?s) _] => rewrite H
         | H : forall z, dLive (viewT1 ?s) z = _ |- context [dLive (viewT1 ?s) _] => rewrite H
         | H : forall z, dFL (viewT1 ?s) z = _ |- context [dFL (viewT1 ?s) _] => rewrite H
         | |- context [fupd] => progress (unfold fupd)
         end.
Ltac vrew_in Q :=
  repeat match type of Q with
         | context [dN (viewT1 ?s) _] => match goal with H : forall z, dN (viewT1 s) z = _ |- _ => rewrite H in Q end
         | context [dP (viewT1 ?s) _] => match goal with H : forall z, dP (viewT1 s) z = _ |- _ => rewrite H in Q end
         | context [dPar (viewT1 ?s) _] => match goal with H : forall z, dPar (viewT1 s) z = _ |- _ => rewrite H in Q end
         | context [dLive (viewT1 ?s) _] => match goal with H : forall z, dLive (viewT1 s) z = _ |- _ => rewrite H in Q end
         | context [dFL (viewT1 ?s) _] => match goal with H : forall z, dFL (viewT1 s) z = _ |- _ => rewrite H in Q end
         | context [fupd] => progress (unfold fupd in Q)
         end.

Lemma Dabs_other : forall V V' b,
  Dabs V ->
  (forall c, c <> b -> dFL V' c = dFL V c) ->
  (forall x, dPar V x <> Some (Some b) -> dPar V x <> Some None ->
             dN V' x = dN V x /\ dP V' x = dP V x /\ dPar V' x = dPar V x) ->
  (forall x, dLive V' x = dLive V x) ->
  (forall x c, c <> b -> dPar V' x = Some (Some c) -> dPar V x = Some (Some c)) ->
  forall c f la, c <> b -> dFL V' c = Some (f, la) -> exists l, dll_at V' c f la l.
Proof.
  intros V V' b D EF EN EL EPar c f la Nc H. rewrite (EF c Nc) in H.
  destruct (D c f la H) as (l & DL). exists l. eapply dll_frame; [exact DL| |].
  - intros x Px. apply EN; rewrite Px; intro Q; injection Q as Q; [contradiction|discriminate].
  - intros x Lx Px. rewrite EL in Lx. split; [exact Lx|]. eapply EPar; eauto.
Qed.

(* ------------------------------------------------------------------ Block.insert_op_after *)

Lemma insert_op_after_WF_gen : forall s s' b new ex r,
  WF s -> blk_live s b ->
  (forall f la l, dFL (viewT1 s) b = Some (f, la) -> dll_at (viewT1 s) b f la l -> In ex l) ->
  insert_op_after b new ex s = (s', Ok r) -> WF s'.
Proof.
  intros s s' b new ex r W BL HIn H.
  eapply (WF_groups_T1 s s' W);
    [eapply insert_op_after_T2|eapply insert_op_after_T3|eapply insert_op_after_U|
     eapply insert_op_after_I|eapply insert_op_after_A|]; try exact H.
  pose proof (proj1 (detached_ops_Ddet s) (proj1 (wf_detached s W))) as DD.
  rewrite WF_block_Dabs. pose proof (proj1 (WF_block_Dabs s) (wf_block s W)) as D.
  unfold insert_op_after in H.
  apply bind_ok in H as (s0 & er & Hg & H). apply getO_ok in Hg as [-> Fex].
  destruct (opt_eqb (o_parent er) (Some b)) eqn:Pex; simpl in H; [|exfalso; eapply raise_ok; eauto].
  apply opt_eqb_eq in Pex.
  apply bind_ok in H as (s1 & ? & Hat & H).
  destruct (attach_op_eff _ _ _ _ _ Hat) as (xn & Fnew & Pnew & Hat').
  destruct (updO_parent_view _ _ _ _ _ Hat') as (N1 & P1 & R1 & L1 & F1).
  apply bind_ok in H as (s1' & er' & Hg & H). apply getO_ok in Hg as [-> Fex1].
  apply bind_ok in H as (s5 & ? & Hins & Hlast).
  unfold insert_next_op in Hins.
  apply bind_ok in Hins as (s1' & sr & Hg & Hins). apply getO_ok in Hg as [-> Fsr].
  rewrite Fex1 in Fsr. injection Fsr as <-.
  apply bind_ok in Hins as (s2 & ? & Hn & Hins).
  apply bind_ok in Hins as (s3 & ? & H3 & Hins).
  destruct (updO_prev_view _ _ _ _ _ H3) as (N3 & P3 & R3 & L3 & F3).
  apply bind_ok in Hins as (s3' & sr' & Hg & Hins). apply getO_ok in Hg as [-> Fsr'].
  apply bind_ok in Hins as (s4 & ? & H4 & H5).
  destruct (updO_next_view _ _ _ _ _ H4) as (N4 & P4 & R4 & L4 & F4).
  destruct (updO_next_view _ _ _ _ _ H5) as (N5 & P5 & R5 & L5 & F5).
  (* the list of b *)
  destruct (blk_live_FL s b BL) as (f & la & FLb).
  destruct (D b f la FLb) as (l & DL).
  pose proof DL as (C1 & C2 & ND & M1 & M2).
  destruct (getO_view _ _ _ Fex) as (Vn & Vp & Vpar). rewrite Pex in Vpar.
  assert (Iex : In ex l) by (eapply HIn; eauto).
  destruct (in_split _ _ Iex) as (l1 & l2 & ->).
  destruct (getO_view _ _ _ Fnew) as (_ & _ & Vparn). rewrite Pnew in Vparn.
  assert (Nne : new <> ex) by (intro; subst; rewrite Vpar in Vparn; discriminate).
  destruct (chain_split _ _ _ _ _ C1) as (_ & nn & Nx & Cn). pose proof (chain_head _ _ _ Cn) as Hnn. subst nn.
  (* next pointer of ex, as read after the attach *)
  destruct (getO_view _ _ _ Fex1) as (Vn1 & _ & _). rewrite N1, Nx in Vn1. injection Vn1 as Enext.
  destruct (getO_view _ _ _ Fsr') as (Vn3 & _ & _).
  rewrite Enext in *.
  destruct l2 as [|n l2']; simpl in Enext, Hn, Hlast.
  - (* ex is the last op *)
    rewrite <- Enext in *. apply ret_ok in Hn as [-> _].
    destruct (updB_last_view _ _ _ _ _ Hlast) as (N6 & P6 & R6 & L6 & F6).
    vrew_in Vn3. rewrite Nx in Vn3. destruct (Pos.eqb_spec ex new); [congruence|]. injection Vn3 as Enext3. rewrite <- Enext3 in *.
    assert (DLb : dll_at (viewT1 s') b f (Some new) (l1 ++ ex :: new :: [])).
    { eapply (dll_insert_after (viewT1 s) (viewT1 s') b f la l1 ex [] new DL Vparn).
      - intros y Ny1 Ny2. vrew. fupd_solve.
      - vrew. fupd_solve.
      - vrew. fupd_solve.
      - intros y Ny _. vrew. fupd_solve.
      - vrew. fupd_solve.
      - intros n0 E. discriminate.
      - intros y Ny. vrew. fupd_solve.
      - vrew. fupd_solve.
      - intro y. vrew. reflexivity. }
    split.
    { intros c f' la' Hc. destruct (Pos.eq_dec c b) as [->|Nc].
    + vrew_in Hc. rewrite Pos.eqb_refl, FLb in Hc. simpl in Hc. injection Hc as <- <-. eauto.
    + refine (Dabs_other (viewT1 s) (viewT1 s') b D _ _ _ _ c f' la' Nc Hc).
      * intros c0 N0. vrew. fupd_solve.
      * intros z Q1 Q2. assert (z <> new) by (intro; subst; contradiction).
        assert (z <> ex) by (intro; subst; contradiction).
        repeat split; vrew; fupd_solve.
      * intro z. vrew. reflexivity.
      * intros z c0 N0 Q. vrew_in Q. revert Q.
        destruct (Pos.eqb_spec z new); intro Q; [injection Q as Q; congruence|exact Q]. }
    { apply (Ddet_other (viewT1 s) (viewT1 s') DD). intros z Lz Pz. vrew_in Lz. vrew_in Pz. revert Pz.
      destruct (Pos.eqb_spec z new); intro Pz; [discriminate|].
      assert (z <> ex) by (intro; subst; rewrite Vpar in Pz; discriminate).
      repeat split; try assumption; vrew; fupd_solve. }
  - (* ex has a successor n *)
    rewrite <- Enext in *. apply ret_ok in Hlast as [<- _].
    destruct (updO_prev_view _ _ _ _ _ Hn) as (N2 & P2 & R2 & L2 & F2).
    vrew_in Vn3. rewrite Nx in Vn3. destruct (Pos.eqb_spec ex new); [congruence|]. injection Vn3 as Enext3. rewrite <- Enext3 in *.
    assert (In_n : In n (l1 ++ ex :: n :: l2')) by (apply in_or_app; right; right; left; reflexivity).
    assert (Nnn : n <> new) by (intro; subst; rewrite (M1 new In_n) in Vparn; discriminate).
    assert (Nne' : n <> ex).
    { intro; subst. apply NoDup_remove_2 in ND. apply ND. apply in_or_app. right. left. reflexivity. }
    assert (DLb : dll_at (viewT1 s') b f la (l1 ++ ex :: new :: n :: l2')).
    { eapply (dll_insert_after (viewT1 s) (viewT1 s') b f la l1 ex (n :: l2') new DL Vparn).
      - intros y Ny1 Ny2. vrew. fupd_solve.
      - vrew. fupd_solve.
      - vrew. fupd_solve.
      - intros y Ny Nh. simpl in Nh. vrew. fupd_solve.
      - vrew. fupd_solve.
      - intros nq E. simpl in E. injection E as <-. vrew. fupd_solve.
      - intros y Ny. vrew. fupd_solve.
      - vrew. fupd_solve.
      - intro y. vrew. reflexivity. }
    split.
    { intros c f' la' Hc. destruct (Pos.eq_dec c b) as [->|Nc].
    + vrew_in Hc. rewrite FLb in Hc. injection Hc as <- <-. eauto.
    + refine (Dabs_other (viewT1 s) (viewT1 s') b D _ _ _ _ c f' la' Nc Hc).
      * intros c0 N0. vrew. reflexivity.
      * intros z Q1 Q2. assert (z <> new) by (intro; subst; contradiction).
        assert (z <> ex) by (intro; subst; contradiction).
        assert (z <> n) by (intro; subst; apply Q1; apply M1; assumption).
        repeat split; vrew; fupd_solve.
      * intro z. vrew. reflexivity.
      * intros z c0 N0 Q. vrew_in Q. revert Q.
        destruct (Pos.eqb_spec z new); intro Q; [injection Q as Q; congruence|exact Q]. }
    { apply (Ddet_other (viewT1 s) (viewT1 s') DD). intros z Lz Pz. vrew_in Lz. vrew_in Pz. revert Pz.
      destruct (Pos.eqb_spec z new); intro Pz; [discriminate|].
      assert (z <> ex) by (intro; subst; rewrite Vpar in Pz; discriminate).
      assert (z <> n) by (intro; subst; rewrite (M1 n In_n) in Pz; discriminate).
      repeat split; try assumption; vrew; fupd_solve. }
Qed.

(* ------------------------------------------------------------------ Block.insert_op_before *)

Lemma dll_prev_of : forall V c f la l1 x l2, dll_at V c f la (l1 ++ x :: l2) -> dP V x = Some (last_or None l1).
Proof.
  intros V c f la l1 x l2 (_ & C2 & _).
  replace (rev (l1 ++ x :: l2)) with (rev l2 ++ x :: rev l1) in C2
    by (rewrite rev_app_distr; simpl; rewrite <- !app_assoc; reflexivity).
  destruct (chain_split _ _ _ _ _ C2) as (_ & nn & Nx & Cn). pose proof (chain_head _ _ _ Cn) as Hnn.
  rewrite Nx, Hnn, hd_error_rev. reflexivity.
Qed.

Lemma insert_op_before_WF_gen : forall s s' b new ex r,
  WF s -> blk_live s b ->
  (forall f la l, dFL (viewT1 s) b = Some (f, la) -> dll_at (viewT1 s) b f la l -> In ex l) ->
  insert_op_before b new ex s = (s', Ok r) -> WF s'.
Proof.
  intros s s' b new ex r W BL HIn H.
  eapply (WF_groups_T1 s s' W);
    [eapply insert_op_before_T2|eapply insert_op_before_T3|eapply insert_op_before_U|
     eapply insert_op_before_I|eapply insert_op_before_A|]; try exact H.
  pose proof (proj1 (detached_ops_Ddet s) (proj1 (wf_detached s W))) as DD.
  rewrite WF_block_Dabs. pose proof (proj1 (WF_block_Dabs s) (wf_block s W)) as D.
  unfold insert_op_before in H.
  apply bind_ok in H as (s0 & er & Hg & H). apply getO_ok in Hg as [-> Fex].
  destruct (opt_eqb (o_parent er) (Some b)) eqn:Pex; simpl in H; [|exfalso; eapply raise_ok; eauto].
  apply opt_eqb_eq in Pex.
  apply bind_ok in H as (s1 & ? & Hat & H).
  destruct (attach_op_eff _ _ _ _ _ Hat) as (xn & Fnew & Pnew & Hat').
  destruct (updO_parent_view _ _ _ _ _ Hat') as (N1 & P1 & R1 & L1 & F1).
  apply bind_ok in H as (s1' & er' & Hg & H). apply getO_ok in Hg as [-> Fex1].
  apply bind_ok in H as (s5 & ? & Hins & Hfirst).
  unfold insert_prev_op in Hins.
  apply bind_ok in Hins as (s1' & sr & Hg & Hins). apply getO_ok in Hg as [-> Fsr].
  rewrite Fex1 in Fsr. injection Fsr as <-.
  apply bind_ok in Hins as (s2 & ? & Hp & Hins).
  apply bind_ok in Hins as (s2' & sr' & Hg & Hins). apply getO_ok in Hg as [-> Fsr'].
  apply bind_ok in Hins as (s3 & ? & H3 & Hins).
  destruct (updO_prev_view _ _ _ _ _ H3) as (N3 & P3 & R3 & L3 & F3).
  apply bind_ok in Hins as (s4 & ? & H4 & H5).
  destruct (updO_next_view _ _ _ _ _ H4) as (N4 & P4 & R4 & L4 & F4).
  destruct (updO_prev_view _ _ _ _ _ H5) as (N5 & P5 & R5 & L5 & F5).
  destruct (blk_live_FL s b BL) as (f & la & FLb).
  destruct (D b f la FLb) as (l & DL).
  pose proof DL as (C1 & C2 & ND & M1 & M2).
  destruct (getO_view _ _ _ Fex) as (Vn & Vp & Vpar). rewrite Pex in Vpar.
  assert (Iex : In ex l) by (eapply HIn; eauto).
  destruct (in_split _ _ Iex) as (l1 & l2 & ->).
  destruct (getO_view _ _ _ Fnew) as (_ & _ & Vparn). rewrite Pnew in Vparn.
  assert (Nne : new <> ex) by (intro; subst; rewrite Vpar in Vparn; discriminate).
  pose proof (dll_prev_of _ _ _ _ _ _ _ DL) as Px.
  destruct (getO_view _ _ _ Fex1) as (_ & Vp1 & _). rewrite P1, Px in Vp1. injection Vp1 as Eprev.
  destruct (getO_view _ _ _ Fsr') as (_ & Vp2 & _).
  destruct (list_snoc_cases l1) as [->|(l1' & p & ->)].
  - (* ex is the first op *)
    cbn [last_or] in Eprev, Px. rewrite <- Eprev in *. apply ret_ok in Hp as [-> _].
    destruct (updB_first_view _ _ _ _ _ Hfirst) as (N6 & P6 & R6 & L6 & F6).
    vrew_in Vp2. rewrite Px in Vp2. injection Vp2 as Eprev2. rewrite <- Eprev2 in *.
    assert (DLb : dll_at (viewT1 s') b (Some new) la ([] ++ new :: ex :: l2)).
    { eapply (dll_insert_before (viewT1 s) (viewT1 s') b f la [] ex l2 new DL Vparn).
      - intros y Ny1 Ny2. vrew. fupd_solve.
      - vrew. fupd_solve.
      - vrew. fupd_solve.
      - intros y Ny _. vrew. fupd_solve.
      - vrew. fupd_solve.
      - intros p0 E. discriminate.
      - intros y Ny. vrew. fupd_solve.
      - vrew. fupd_solve.
      - intro y. vrew. reflexivity. }
    split.
    { intros c f' la' Hc. destruct (Pos.eq_dec c b) as [->|Nc].
    + vrew_in Hc. rewrite Pos.eqb_refl, FLb in Hc. simpl in Hc. injection Hc as <- <-. eauto.
    + refine (Dabs_other (viewT1 s) (viewT1 s') b D _ _ _ _ c f' la' Nc Hc).
      * intros c0 N0. vrew. fupd_solve.
      * intros z Q1 Q2. assert (z <> new) by (intro; subst; contradiction).
        assert (z <> ex) by (intro; subst; contradiction).
        repeat split; vrew; fupd_solve.
      * intro z. vrew. reflexivity.
      * intros z c0 N0 Q. vrew_in Q. revert Q.
        destruct (Pos.eqb_spec z new); intro Q; [injection Q as Q; congruence|exact Q]. }
    { apply (Ddet_other (viewT1 s) (viewT1 s') DD). intros z Lz Pz. vrew_in Lz. vrew_in Pz. revert Pz.
      destruct (Pos.eqb_spec z new); intro Pz; [discriminate|].
      assert (z <> ex) by (intro; subst; rewrite Vpar in Pz; discriminate).
      repeat split; try assumption; vrew; fupd_solve. }
  - (* ex has a predecessor p *)
    rewrite last_or_app in Eprev, Px. rewrite <- Eprev in *. apply ret_ok in Hfirst as [<- _].
    destruct (updO_next_view _ _ _ _ _ Hp) as (N2 & P2 & R2 & L2 & F2).
    assert (In_p : In p ((l1' ++ [p]) ++ ex :: l2)) by (apply in_or_app; left; apply in_or_app; right; left; reflexivity).
    assert (Npn : p <> new) by (intro; subst; rewrite (M1 new In_p) in Vparn; discriminate).
    assert (Npe : p <> ex).
    { intro; subst. apply NoDup_remove_2 in ND. apply ND. apply in_or_app. left. apply in_or_app. right. left. reflexivity. }
    vrew_in Vp2. rewrite Px in Vp2. revert Vp2.
    destruct (Pos.eqb_spec ex p); [congruence|]. intro Vp2. injection Vp2 as Eprev2. rewrite <- Eprev2 in *.
    assert (DLb : dll_at (viewT1 s') b f la ((l1' ++ [p]) ++ new :: ex :: l2)).
    { pose proof (dll_insert_before (viewT1 s) (viewT1 s') b f la (l1' ++ [p]) ex l2 new DL Vparn) as Q.
      rewrite match_snoc in Q. apply Q; clear Q.
      - intros y Ny1 Ny2. vrew. fupd_solve.
      - vrew. fupd_solve.
      - vrew. rewrite Px. fupd_solve.
      - intros y Ny Nh. rewrite last_or_app in Nh. vrew. fupd_solve.
      - vrew. fupd_solve.
      - intros p0 E. rewrite last_or_app in E. injection E as <-. vrew. fupd_solve.
      - intros y Ny. vrew. fupd_solve.
      - vrew. fupd_solve.
      - intro y. vrew. reflexivity. }
    split.
    { intros c f' la' Hc. destruct (Pos.eq_dec c b) as [->|Nc].
    + vrew_in Hc. rewrite FLb in Hc. injection Hc as <- <-. eauto.
    + refine (Dabs_other (viewT1 s) (viewT1 s') b D _ _ _ _ c f' la' Nc Hc).
      * intros c0 N0. vrew. reflexivity.
      * intros z Q1 Q2. assert (z <> new) by (intro; subst; contradiction).
        assert (z <> ex) by (intro; subst; contradiction).
        assert (z <> p) by (intro; subst; apply Q1; apply M1; assumption).
        repeat split; vrew; fupd_solve.
      * intro z. vrew. reflexivity.
      * intros z c0 N0 Q. vrew_in Q. revert Q.
        destruct (Pos.eqb_spec z new); intro Q; [injection Q as Q; congruence|exact Q]. }
    { apply (Ddet_other (viewT1 s) (viewT1 s') DD). intros z Lz Pz. vrew_in Lz. vrew_in Pz. revert Pz.
      destruct (Pos.eqb_spec z new); intro Pz; [discriminate|].
      assert (z <> ex) by (intro; subst; rewrite Vpar in Pz; discriminate).
      assert (z <> p) by (intro; subst; rewrite (M1 p In_p) in Pz; discriminate).
      repeat split; try assumption; vrew; fupd_solve. }
Qed.

Lemma live_member : forall s b ex x, op_live s ex -> PM.find ex (s_ops s) = Some x -> o_parent x = Some b ->
  forall f la l, dFL (viewT1 s) b = Some (f, la) -> dll_at (viewT1 s) b f la l -> In ex l.
Proof.
  intros s b ex x EL F P f la l _ (_ & _ & _ & _ & M2). apply M2; [apply live_view; exact EL|].
  simpl. unfold link. rewrite F. simpl. rewrite P. reflexivity.
Qed.

Theorem insert_op_after_WF : forall s s' b new ex r,
  WF s -> blk_live s b -> op_live s ex ->
  insert_op_after b new ex s = (s', Ok r) -> WF s'.
Proof.
  intros s s' b new ex r W BL EL H. eapply insert_op_after_WF_gen; eauto.
  pose proof H as H0. unfold insert_op_after in H0.
  apply bind_ok in H0 as (s0 & er & Hg & H0). apply getO_ok in Hg as [-> Fex].
  destruct (opt_eqb (o_parent er) (Some b)) eqn:Pex; simpl in H0; [|exfalso; eapply raise_ok; eauto].
  apply opt_eqb_eq in Pex. eapply live_member; eauto.
Qed.

Theorem insert_op_before_WF : forall s s' b new ex r,
  WF s -> blk_live s b -> op_live s ex ->
  insert_op_before b new ex s = (s', Ok r) -> WF s'.
Proof.
  intros s s' b new ex r W BL EL H. eapply insert_op_before_WF_gen; eauto.
  pose proof H as H0. unfold insert_op_before in H0.
  apply bind_ok in H0 as (s0 & er & Hg & H0). apply getO_ok in Hg as [-> Fex].
  destruct (opt_eqb (o_parent er) (Some b)) eqn:Pex; simpl in H0; [|exfalso; eapply raise_ok; eauto].
  apply opt_eqb_eq in Pex. eapply live_member; eauto.
Qed.

(* ------------------------------------------------------------------ Block.add_op *)

Lemma chain_none_nil : forall N l, chain N None l -> l = [].
Proof. intros N l H. inversion H. reflexivity. Qed.

Lemma chain_some_in : forall N x l, chain N (Some x) l -> In x l.
Proof. intros N x l H. inversion H; subst. left. reflexivity. Qed.

Theorem add_op_WF : forall s s' b o r,
  WF s -> blk_live s b -> op_live s o -> add_op b o s = (s', Ok r) -> WF s'.
Proof.
  intros s s' b o r W BL OL H.
  pose proof H as H0. unfold add_op in H0.
  apply bind_ok in H0 as (s0 & br & Hg & H0). apply getB_ok in Hg as [-> Fb].
  destruct (b_last_op br) as [lo|] eqn:Last.
  - (* non-empty block: insert after the last op *)
    eapply (insert_op_after_WF_gen s s' b o lo); eauto.
    intros f la l FL (C1 & C2 & _). simpl in FL. unfold bFL in FL. rewrite Fb in FL.
    destruct (b_erased br); [discriminate|]. injection FL as <- <-. rewrite Last in C2.
    apply chain_some_in in C2. apply in_rev. exact C2.
  - (* empty block *)
    eapply (WF_groups_T1 s s' W); [eapply add_op_T2|eapply add_op_T3|eapply add_op_U|eapply add_op_I|eapply add_op_A|];
      try exact H.
    pose proof (proj1 (detached_ops_Ddet s) (proj1 (wf_detached s W))) as DD.
    rewrite WF_block_Dabs. pose proof (proj1 (WF_block_Dabs s) (wf_block s W)) as D.
    apply bind_ok in H0 as (s1 & ? & Hat & H0).
    destruct (attach_op_eff _ _ _ _ _ Hat) as (xn & Fnew & Pnew & Hat').
    destruct (updO_parent_view _ _ _ _ _ Hat') as (N1 & P1 & R1 & L1 & F1).
    apply bind_ok in H0 as (s2 & ? & H2 & H3).
    destruct (updB_first_view _ _ _ _ _ H2) as (N2 & P2 & R2 & L2 & F2).
    destruct (updB_last_view _ _ _ _ _ H3) as (N3 & P3 & R3 & L3 & F3).
    destruct BL as (br0 & Fb0 & Eb). rewrite Fb in Fb0. injection Fb0 as <-.
    assert (FLb : dFL (viewT1 s) b = Some (b_first_op br, None)).
    { simpl. unfold bFL. rewrite Fb, Eb, Last. reflexivity. }
    destruct (D b _ _ FLb) as (l & DL). pose proof DL as (C1 & C2 & ND & M1 & M2).
    apply chain_none_nil in C2. assert (l = []) by (destruct l; [reflexivity|]; simpl in C2; apply app_eq_nil in C2; destruct C2; discriminate).
    subst l. apply chain_head in C1. simpl in C1. rewrite C1 in *.
    destruct (getO_view _ _ _ Fnew) as (Vn & Vp & Vparn). rewrite Pnew in Vparn.
    destruct (DD o (live_view s o OL) Vparn) as [Nn Pn].
    assert (DLb : dll_at (viewT1 s') b (Some o) (Some o) [o]).
    { eapply (dll_insert_empty (viewT1 s) (viewT1 s') b o DL Vparn).
      - intros y Ny. vrew. fupd_solve.
      - vrew. fupd_solve.
      - intro y. vrew. reflexivity.
      - vrew. exact Nn.
      - vrew. exact Pn. }
    split.
    { intros c f' la' Hc. destruct (Pos.eq_dec c b) as [->|Nc].
      + vrew_in Hc. rewrite !Pos.eqb_refl, FLb in Hc. simpl in Hc. injection Hc as <- <-. eauto.
      + refine (Dabs_other (viewT1 s) (viewT1 s') b D _ _ _ _ c f' la' Nc Hc).
        * intros c0 N0. vrew. fupd_solve.
        * intros z Q1 Q2. assert (z <> o) by (intro; subst; contradiction).
          repeat split; vrew; fupd_solve.
        * intro z. vrew. reflexivity.
        * intros z c0 N0 Q. vrew_in Q. revert Q.
          destruct (Pos.eqb_spec z o); intro Q; [injection Q as Q; congruence|exact Q]. }
    { apply (Ddet_other (viewT1 s) (viewT1 s') DD). intros z Lz Pz. vrew_in Lz. vrew_in Pz. revert Pz.
      destruct (Pos.eqb_spec z o); intro Pz; [discriminate|].
      repeat split; try assumption; vrew; fupd_solve. }
Qed.

(* ------------------------------------------------------------------ Block.detach_op *)

Lemma dll_next_of : forall V c f la l1 x l2, dll_at V c f la (l1 ++ x :: l2) -> dN V x = Some (hd_error l2).
Proof.
  intros V c f la l1 x l2 (C1 & _).
  destruct (chain_split _ _ _ _ _ C1) as (_ & nn & Nx & Cn). pose proof (chain_head _ _ _ Cn) as Hnn.
  rewrite Nx, Hnn. reflexivity.
Qed.

Lemma dll_first_of : forall V c f la l, dll_at V c f la l -> f = hd_error l.
Proof. intros V c f la l (C1 & _). eapply chain_head; eauto. Qed.
Lemma dll_last_of : forall V c f la l, dll_at V c f la l -> la = last_or None l.
Proof. intros V c f la l (_ & C2 & _). apply chain_head in C2. rewrite C2. apply hd_error_rev. Qed.

Lemma last_or_some_aux : forall (t : list uid) y, last_or (Some y) t <> None.
Proof. induction t as [|a r IH]; simpl; intros y; [discriminate|apply IH]. Qed.
Lemma last_or_none_nil : forall l, last_or None l = None -> l = [].
Proof. intros [|y t] H; [reflexivity|]. simpl in H. exfalso. eapply last_or_some_aux; eauto. Qed.

Theorem detach_op_WF : forall s s' b o r,
  WF s -> blk_live s b -> op_live s o -> detach_op b o s = (s', Ok r) -> WF s'.
Proof.
  intros s s' b o r W BL OL H.
  eapply (WF_groups_T1 s s' W); [eapply detach_op_T2|eapply detach_op_T3|eapply detach_op_U|eapply detach_op_I|eapply detach_op_A|];
    try exact H.
  pose proof (proj1 (detached_ops_Ddet s) (proj1 (wf_detached s W))) as DD.
  rewrite WF_block_Dabs. pose proof (proj1 (WF_block_Dabs s) (wf_block s W)) as D.
  unfold detach_op in H.
  apply bind_ok in H as (s0 & orec & Hg & H). apply getO_ok in Hg as [-> Fo].
  destruct (opt_eqb (o_parent orec) (Some b)) eqn:Po; simpl in H; [|exfalso; eapply raise_ok; eauto].
  apply opt_eqb_eq in Po.
  apply bind_ok in H as (s1 & ? & H1 & H).
  destruct (updO_parent_view _ _ _ _ _ H1) as (N1 & P1 & R1 & L1 & F1).
  apply bind_ok in H as (s3 & ? & Hprev & H).
  apply bind_ok in H as (s5 & ? & Hnext & Hret). apply ret_ok in Hret as [<- _].
  destruct (blk_live_FL s b BL) as (f & la & FLb).
  destruct (D b f la FLb) as (l & DL). pose proof DL as (C1 & C2 & ND & M1 & M2).
  destruct (getO_view _ _ _ Fo) as (Vn & Vp & Vpar). rewrite Po in Vpar.
  assert (Io : In o l) by (apply M2; [apply live_view; exact OL|exact Vpar]).
  destruct (in_split _ _ Io) as (l1 & l2 & ->).
  pose proof (dll_prev_of _ _ _ _ _ _ _ DL) as Px. pose proof (dll_next_of _ _ _ _ _ _ _ DL) as Nx.
  rewrite Px in Vp. injection Vp as Eprev. rewrite Nx in Vn. injection Vn as Enext.
  assert (ND' := ND). destruct (NoDup_app_inv _ _ ND') as (ND1 & ND2o & D12). inversion ND2o as [|? ? No2 ND2]; subst.
  destruct (o_prev orec) as [p|] eqn:Op; destruct (o_next orec) as [n|] eqn:On;
    pose proof Eprev as Lp; pose proof Enext as Ln.
  - (* p and n *)
    rewrite ?Op, ?On in *.
    apply bind_ok in Hprev as (s2 & ? & H2 & H3).
    destruct (updO_next_view _ _ _ _ _ H2) as (N2 & P2 & R2 & L2 & F2).
    destruct (updO_prev_view _ _ _ _ _ H3) as (N3 & P3 & R3 & L3 & F3).
    assert (In_p : In p (l1 ++ o :: l2)).
    { apply last_or_In in Lp. destruct Lp as [Q|Q]; [discriminate|]. apply in_or_app. left. exact Q. }
    assert (Npo : p <> o).
    { intro; subst. apply last_or_In in Lp. destruct Lp as [Q|Q]; [discriminate|]. eapply D12; [exact Q|left; reflexivity]. }
    apply bind_ok in Hnext as (s4 & ? & H4 & H5).
    destruct (updO_prev_view _ _ _ _ _ H4) as (N4 & P4 & R4 & L4 & F4).
    destruct (updO_next_view _ _ _ _ _ H5) as (N5 & P5 & R5 & L5 & F5).
    assert (In_n : In n (l1 ++ o :: l2)).
    { apply in_or_app. right. right. destruct l2; simpl in Ln; [discriminate|]. injection Ln as ->. left. reflexivity. }
    assert (Nno : n <> o).
    { intro; subst. apply No2. destruct l2; simpl in Ln; [discriminate|]. injection Ln as ->. left. reflexivity. }
    assert (Npn : p <> n).
    { intro; subst. apply last_or_In in Lp. destruct Lp as [Q|Q]; [discriminate|].
      eapply D12; [exact Q|right]. destruct l2; simpl in Ln; [discriminate|]. injection Ln as ->. left. reflexivity. }
    assert (DLb : dll_at (viewT1 s') b (match l1 with [] => hd_error l2 | _ => f end)
                         (match l2 with [] => last_or None l1 | _ => la end) (l1 ++ l2)).
    { eapply (dll_remove (viewT1 s) (viewT1 s') b f la l1 o l2 DL); rewrite ?Lp, ?Ln.
      - intros y Ny1 Ny2. vrew. fupd_solve.
      - intros p0 E. injection E as <-. vrew. rewrite Nx, ?Ln. fupd_solve.
      - intros y Ny1 Ny2. vrew. fupd_solve.
      - intros n0 E. injection E as <-. vrew. rewrite Px, ?Lp. fupd_solve.
      - intros y Ny. vrew. fupd_solve.
      - vrew. fupd_solve.
      - intro y. vrew. reflexivity. }
    split.
    { intros c f' la' Hc. destruct (Pos.eq_dec c b) as [->|Nc].
      + vrew_in Hc. rewrite ?Pos.eqb_refl in Hc. rewrite ?FLb in Hc. simpl in Hc. rewrite ?Pos.eqb_refl in Hc.
        rewrite ?FLb in Hc. simpl in Hc. injection Hc as <- <-. exists (l1 ++ l2).
        destruct l1 as [|y1 t1]; [simpl in Lp; discriminate|].
        destruct l2 as [|y2 t2]; [simpl in Ln; discriminate|].
        cbn [app] in DLb |- *. exact DLb.
      + refine (Dabs_other (viewT1 s) (viewT1 s') b D _ _ _ _ c f' la' Nc Hc).
        * intros c0 N0. vrew. fupd_solve.
        * intros z Q1 Q2. assert (z <> o) by (intro; subst; contradiction).
          assert (z <> p) by (intro; subst; apply Q1; apply M1; assumption).
          assert (z <> n) by (intro; subst; apply Q1; apply M1; assumption).
          repeat split; vrew; fupd_solve.
        * intro z. vrew. reflexivity.
        * intros z c0 N0 Q. vrew_in Q. revert Q.
          destruct (Pos.eqb_spec z o); intro Q; [discriminate|exact Q]. }
    { intros z Lz Pz. vrew_in Lz. vrew_in Pz. revert Pz.
      destruct (Pos.eqb_spec z o) as [->|Nzo]; intro Pz.
      - split; vrew; rewrite ?Px, ?Nx, ?Ln, ?Lp; fupd_solve.
      - assert (Nl : ~ In z (l1 ++ o :: l2)) by (intro Q; rewrite (M1 z Q) in Pz; discriminate).
        assert (z <> p) by (intro; subst; contradiction).
        assert (z <> n) by (intro; subst; contradiction).
        destruct (DD z Lz Pz) as [Q1 Q2]. split; vrew; fupd_solve. }
  - (* p only: o is the last op *)
    rewrite ?Op, ?On in *.
    apply bind_ok in Hprev as (s2 & ? & H2 & H3).
    destruct (updO_next_view _ _ _ _ _ H2) as (N2 & P2 & R2 & L2 & F2).
    destruct (updO_prev_view _ _ _ _ _ H3) as (N3 & P3 & R3 & L3 & F3).
    assert (In_p : In p (l1 ++ o :: l2)).
    { apply last_or_In in Lp. destruct Lp as [Q|Q]; [discriminate|]. apply in_or_app. left. exact Q. }
    assert (Npo : p <> o).
    { intro; subst. apply last_or_In in Lp. destruct Lp as [Q|Q]; [discriminate|]. eapply D12; [exact Q|left; reflexivity]. }
    apply bind_ok in Hnext as (s4 & bry & Hg & H4). apply getB_ok in Hg as [-> Fby].
    apply bind_ok in H4 as (s4 & ? & Ha & H5). apply assert_ok in Ha as [-> _].
    destruct (updB_last_view _ _ _ _ _ H5) as (N5 & P5 & R5 & L5 & F5).
    assert (DLb : dll_at (viewT1 s') b (match l1 with [] => hd_error l2 | _ => f end)
                         (match l2 with [] => last_or None l1 | _ => la end) (l1 ++ l2)).
    { eapply (dll_remove (viewT1 s) (viewT1 s') b f la l1 o l2 DL); rewrite ?Lp, ?Ln.
      - intros y Ny1 Ny2. vrew. fupd_solve.
      - intros p0 E. injection E as <-. vrew. rewrite Nx, ?Ln. fupd_solve.
      - intros y Ny1 Ny2. vrew. fupd_solve.
      - intros n0 E. discriminate.
      - intros y Ny. vrew. fupd_solve.
      - vrew. fupd_solve.
      - intro y. vrew. reflexivity. }
    split.
    { intros c f' la' Hc. destruct (Pos.eq_dec c b) as [->|Nc].
      + vrew_in Hc. rewrite ?Pos.eqb_refl in Hc. rewrite ?FLb in Hc. simpl in Hc. rewrite ?Pos.eqb_refl in Hc.
        rewrite ?FLb in Hc. simpl in Hc. injection Hc as <- <-. exists (l1 ++ l2).
        destruct l1 as [|y1 t1]; [simpl in Lp; discriminate|].
        destruct l2 as [|y2 t2]; [|simpl in Ln; discriminate].
        cbn [app] in DLb |- *. rewrite Lp in DLb. exact DLb.
      + refine (Dabs_other (viewT1 s) (viewT1 s') b D _ _ _ _ c f' la' Nc Hc).
        * intros c0 N0. vrew. fupd_solve.
        * intros z Q1 Q2. assert (z <> o) by (intro; subst; contradiction).
          assert (z <> p) by (intro; subst; apply Q1; apply M1; assumption).
          repeat split; vrew; fupd_solve.
        * intro z. vrew. reflexivity.
        * intros z c0 N0 Q. vrew_in Q. revert Q.
          destruct (Pos.eqb_spec z o); intro Q; [discriminate|exact Q]. }
    { intros z Lz Pz. vrew_in Lz. vrew_in Pz. revert Pz.
      destruct (Pos.eqb_spec z o) as [->|Nzo]; intro Pz.
      - split; vrew; rewrite ?Px, ?Nx, ?Ln, ?Lp; fupd_solve.
      - assert (Nl : ~ In z (l1 ++ o :: l2)) by (intro Q; rewrite (M1 z Q) in Pz; discriminate).
        assert (z <> p) by (intro; subst; contradiction).
        destruct (DD z Lz Pz) as [Q1 Q2]. split; vrew; fupd_solve. }
  - (* n only: o is the first op *)
    rewrite ?Op, ?On in *.
    apply bind_ok in Hprev as (s2 & brx & Hg & H2). apply getB_ok in Hg as [-> Fbx].
    apply bind_ok in H2 as (s2 & ? & Ha & H3). apply assert_ok in Ha as [-> _].
    destruct (updB_first_view _ _ _ _ _ H3) as (N3 & P3 & R3 & L3 & F3).
    apply bind_ok in Hnext as (s4 & ? & H4 & H5).
    destruct (updO_prev_view _ _ _ _ _ H4) as (N4 & P4 & R4 & L4 & F4).
    destruct (updO_next_view _ _ _ _ _ H5) as (N5 & P5 & R5 & L5 & F5).
    assert (In_n : In n (l1 ++ o :: l2)).
    { apply in_or_app. right. right. destruct l2; simpl in Ln; [discriminate|]. injection Ln as ->. left. reflexivity. }
    assert (Nno : n <> o).
    { intro; subst. apply No2. destruct l2; simpl in Ln; [discriminate|]. injection Ln as ->. left. reflexivity. }
    assert (DLb : dll_at (viewT1 s') b (match l1 with [] => hd_error l2 | _ => f end)
                         (match l2 with [] => last_or None l1 | _ => la end) (l1 ++ l2)).
    { eapply (dll_remove (viewT1 s) (viewT1 s') b f la l1 o l2 DL); rewrite ?Lp, ?Ln.
      - intros y Ny1 Ny2. vrew. fupd_solve.
      - intros p0 E. discriminate.
      - intros y Ny1 Ny2. vrew. fupd_solve.
      - intros n0 E. injection E as <-. vrew. rewrite Px, ?Lp. fupd_solve.
      - intros y Ny. vrew. fupd_solve.
      - vrew. fupd_solve.
      - intro y. vrew. reflexivity. }
    split.
    { intros c f' la' Hc. destruct (Pos.eq_dec c b) as [->|Nc].
      + vrew_in Hc. rewrite ?Pos.eqb_refl in Hc. rewrite ?FLb in Hc. simpl in Hc. rewrite ?Pos.eqb_refl in Hc.
        rewrite ?FLb in Hc. simpl in Hc. injection Hc as <- <-. exists (l1 ++ l2).
        pose proof (last_or_none_nil l1 Lp) as ->.
        destruct l2 as [|y2 t2]; [simpl in Ln; discriminate|].
        cbn [app] in DLb |- *. simpl in Ln. injection Ln as <-. exact DLb.
      + refine (Dabs_other (viewT1 s) (viewT1 s') b D _ _ _ _ c f' la' Nc Hc).
        * intros c0 N0. vrew. fupd_solve.
        * intros z Q1 Q2. assert (z <> o) by (intro; subst; contradiction).
          assert (z <> n) by (intro; subst; apply Q1; apply M1; assumption).
          repeat split; vrew; fupd_solve.
        * intro z. vrew. reflexivity.
        * intros z c0 N0 Q. vrew_in Q. revert Q.
          destruct (Pos.eqb_spec z o); intro Q; [discriminate|exact Q]. }
    { intros z Lz Pz. vrew_in Lz. vrew_in Pz. revert Pz.
      destruct (Pos.eqb_spec z o) as [->|Nzo]; intro Pz.
      - split; vrew; rewrite ?Px, ?Nx, ?Ln, ?Lp; fupd_solve.
      - assert (Nl : ~ In z (l1 ++ o :: l2)) by (intro Q; rewrite (M1 z Q) in Pz; discriminate).
        assert (z <> n) by (intro; subst; contradiction).
        destruct (DD z Lz Pz) as [Q1 Q2]. split; vrew; fupd_solve. }
  - (* o is the only op *)
    rewrite ?Op, ?On in *.
    apply bind_ok in Hprev as (s2 & brx & Hg & H2). apply getB_ok in Hg as [-> Fbx].
    apply bind_ok in H2 as (s2 & ? & Ha & H3). apply assert_ok in Ha as [-> _].
    destruct (updB_first_view _ _ _ _ _ H3) as (N3 & P3 & R3 & L3 & F3).
    apply bind_ok in Hnext as (s4 & bry & Hg & H4). apply getB_ok in Hg as [-> Fby].
    apply bind_ok in H4 as (s4 & ? & Ha & H5). apply assert_ok in Ha as [-> _].
    destruct (updB_last_view _ _ _ _ _ H5) as (N5 & P5 & R5 & L5 & F5).
    assert (DLb : dll_at (viewT1 s') b (match l1 with [] => hd_error l2 | _ => f end)
                         (match l2 with [] => last_or None l1 | _ => la end) (l1 ++ l2)).
    { eapply (dll_remove (viewT1 s) (viewT1 s') b f la l1 o l2 DL); rewrite ?Lp, ?Ln.
      - intros y Ny1 Ny2. vrew. fupd_solve.
      - intros p0 E. discriminate.
      - intros y Ny1 Ny2. vrew. fupd_solve.
      - intros n0 E. discriminate.
      - intros y Ny. vrew. fupd_solve.
      - vrew. fupd_solve.
      - intro y. vrew. reflexivity. }
    split.
    { intros c f' la' Hc. destruct (Pos.eq_dec c b) as [->|Nc].
      + vrew_in Hc. rewrite ?Pos.eqb_refl in Hc. rewrite ?FLb in Hc. simpl in Hc. rewrite ?Pos.eqb_refl in Hc.
        rewrite ?FLb in Hc. simpl in Hc. injection Hc as <- <-. exists (l1 ++ l2).
        pose proof (last_or_none_nil l1 Lp) as ->.
        destruct l2 as [|y2 t2]; [|simpl in Ln; discriminate].
        cbn [app] in DLb |- *. rewrite Lp in DLb. exact DLb.
      + refine (Dabs_other (viewT1 s) (viewT1 s') b D _ _ _ _ c f' la' Nc Hc).
        * intros c0 N0. vrew. fupd_solve.
        * intros z Q1 Q2. assert (z <> o) by (intro; subst; contradiction).
          repeat split; vrew; fupd_solve.
        * intro z. vrew. reflexivity.
        * intros z c0 N0 Q. vrew_in Q. revert Q.
          destruct (Pos.eqb_spec z o); intro Q; [discriminate|exact Q]. }
    { intros z Lz Pz. vrew_in Lz. vrew_in Pz. revert Pz.
      destruct (Pos.eqb_spec z o) as [->|Nzo]; intro Pz.
      - split; vrew; rewrite ?Px, ?Nx, ?Ln, ?Lp; fupd_solve.
      - assert (Nl : ~ In z (l1 ++ o :: l2)) by (intro Q; rewrite (M1 z Q) in Pz; discriminate).
        destruct (DD z Lz Pz) as [Q1 Q2]. split; vrew; fupd_solve. }
Qed.
