(* C01/ProofsOperands.v -- WF is preserved by OpOperands.__setitem__ / OpSuccessors.__setitem__,
   SSAValue.replace_all_uses_with and replace_uses_with_if. *)
From Coq Require Import ZArith List Bool PArith FMapPositive Lia.
From XV Require Import C01.Model C01.Spec C01.ProofsBase C01.ProofsFrame C01.ProofsUses.
Import ListNotations.
Local Open Scope Z_scope.

(* ------------------------------------------------------------------ list update *)

Lemma nth_error_replace : forall {A} (l : list A) n w j, (n < length l)%nat ->
  nth_error (firstn n l ++ w :: skipn (S n) l) j = if Nat.eqb j n then Some w else nth_error l j.
Proof.
  intros A l. induction l as [|a r IH]; intros n w j L; simpl in L; [lia|].
  destruct n as [|n]; simpl.
  - destruct j; reflexivity.
  - destruct j as [|j]; simpl; [reflexivity|]. apply IH. lia.
Qed.

Lemma length_replace : forall {A} (l : list A) n w, (n < length l)%nat ->
  length (firstn n l ++ w :: skipn (S n) l) = length l.
Proof.
  intros A l. induction l as [|a r IH]; intros n w L; simpl in L; [lia|].
  destruct n as [|n]; simpl; [reflexivity|]. f_equal. apply IH. lia.
Qed.

Definition replace_at {A} (l : list A) (i : Z) (w : A) : list A :=
  py_slice_to l i ++ w :: py_slice_from l (i + 1).

Lemma replace_at_eq : forall {A} (l : list A) i w, 0 <= i < zlen l ->
  replace_at l i w = firstn (Z.to_nat i) l ++ w :: skipn (S (Z.to_nat i)) l.
Proof.
  intros A l i w R. unfold replace_at, py_slice_to, py_slice_from, py_clamp, zlen in *.
  destruct (Z.ltb_spec i 0); [lia|]. destruct (Z.ltb_spec (i + 1) 0); [lia|].
  rewrite !Z.min_l by lia. replace (Z.to_nat (i + 1)) with (S (Z.to_nat i)) by lia. reflexivity.
Qed.

Lemma znth_replace_at : forall {A} (l : list A) i w j, 0 <= i < zlen l ->
  znth (replace_at l i w) j = if j =? i then Some w else znth l j.
Proof.
  intros A l i w j R. rewrite replace_at_eq by exact R. unfold znth.
  destruct (Z.ltb_spec j 0).
  - destruct (Z.eqb_spec j i); [lia|reflexivity].
  - rewrite nth_error_replace by (unfold zlen in R; lia).
    destruct (Z.eqb_spec j i) as [->|N].
    + rewrite Nat.eqb_refl. reflexivity.
    + destruct (Nat.eqb_spec (Z.to_nat j) (Z.to_nat i)); [lia|reflexivity].
Qed.

Lemma length_replace_at : forall {A} (l : list A) i w, 0 <= i < zlen l -> length (replace_at l i w) = length l.
Proof. intros A l i w R. rewrite replace_at_eq by exact R. apply length_replace. unfold zlen in R. lia. Qed.

Lemma py_index_znth : forall {A} (l : list A) i, 0 <= i < zlen l -> py_index l i = znth l i.
Proof.
  intros A l i R. unfold py_index, py_norm, znth.
  destruct (Z.ltb_spec i 0); [lia|]. destruct (Z.ltb_spec i (zlen l)); [reflexivity|lia].
Qed.

Lemma index_or_raise_ok : forall {A} (l : list A) i s s' x, index_or_raise l i s = (s', Ok x) ->
  s' = s /\ py_index l i = Some x.
Proof.
  intros A l i s s' x H. unfold index_or_raise in H. destruct (py_index l i); [|discriminate].
  apply ret_ok in H. destruct H; subst. auto.
Qed.

(* ------------------------------------------------------------------ frame of the setitem programs *)

Lemma operands_setitem_T1 : forall o i w, preserves same_T1 (operands_setitem o i w).
Proof. intros. unfold operands_setitem. pres fr_T1. Qed.
Lemma operands_setitem_T2 : forall o i w, preserves same_T2 (operands_setitem o i w).
Proof. intros. unfold operands_setitem. pres fr_T2. Qed.
Lemma operands_setitem_T3 : forall o i w, preserves same_T3 (operands_setitem o i w).
Proof. intros. unfold operands_setitem. pres fr_T3. Qed.
Lemma operands_setitem_I : forall o i w, preserves same_I (operands_setitem o i w).
Proof. intros. unfold operands_setitem. pres fr_I. Qed.
Lemma operands_setitem_A : forall o i w, preserves same_A (operands_setitem o i w).
Proof. intros. unfold operands_setitem. pres fr_A. Qed.
Lemma successors_setitem_T1 : forall o i w, preserves same_T1 (successors_setitem o i w).
Proof. intros. unfold successors_setitem. pres fr_T1. Qed.
Lemma successors_setitem_T2 : forall o i w, preserves same_T2 (successors_setitem o i w).
Proof. intros. unfold successors_setitem. pres fr_T2. Qed.
Lemma successors_setitem_T3 : forall o i w, preserves same_T3 (successors_setitem o i w).
Proof. intros. unfold successors_setitem. pres fr_T3. Qed.
Lemma successors_setitem_I : forall o i w, preserves same_I (successors_setitem o i w).
Proof. intros. unfold successors_setitem. pres fr_I. Qed.
Lemma successors_setitem_A : forall o i w, preserves same_A (successors_setitem o i w).
Proof. intros. unfold successors_setitem. pres fr_A. Qed.
#[export] Hint Resolve operands_setitem_T1 operands_setitem_T2 operands_setitem_T3 operands_setitem_I operands_setitem_A
  successors_setitem_T1 successors_setitem_T2 successors_setitem_T3 successors_setitem_I successors_setitem_A : pres.

(* WF from its groups *)
Lemma WF_groups : forall s s', WF s ->
  same_T1 s s' -> same_T2 s s' -> same_T3 s s' -> same_I s s' -> same_A s s' -> UWF s' -> WF s'.
Proof.
  intros s s' W T1 T2 T3 SI SA (U1 & U2 & U3 & U4 & U5). destruct W.
  destruct (WF_index_same s s' SI (conj wf_results (conj wf_args wf_owner))) as (I1 & I2 & I3).
  constructor; try assumption.
  - eapply WF_block_same; eauto.
  - eapply WF_region_same; eauto.
  - eapply WF_opregs_same; eauto.
  - eapply WF_detached_same; eauto.
  - eapply WF_alloc_same; eauto.
Qed.

Lemma WF_UWF : forall s, WF s -> UWF s.
Proof.
  intros s W. destruct W. unfold UWF.
  split; [assumption|]. split; [assumption|]. split; [assumption|]. split; assumption.
Qed.

(* ------------------------------------------------------------------ the slot relation after a setitem *)

(* generic in the side (operands / successors): `h0 w` builds the holder of the new item *)
Section Setitem.
  Variable mk : positive -> holder.                 (* HV or HB *)
  Variable set_items : list positive -> op_rec -> op_rec.
  Hypothesis mk_inj : forall a b, mk a = mk b -> a = b.
  Hypothesis hid_mk : forall a, hid (mk a) = a.
  Hypothesis items_set : forall l x, hitems (mk 1%positive) (set_items l x) = l.
  Hypothesis uses_set : forall l x a, huses (mk a) (set_items l x) = huses (mk a) x.
  Hypothesis hitems_mk : forall a b x, hitems (mk a) x = hitems (mk b) x.
  Hypothesis huses_mk : forall a b x, huses (mk a) x = huses (mk b) x.
  (* the other side is untouched *)
  Hypothesis other_side : forall h l x, (forall a, h <> mk a) ->
    hitems h (set_items l x) = hitems h x /\ huses h (set_items l x) = huses h x.
  Hypothesis erased_set : forall l x, o_erased (set_items l x) = o_erased x.
  Hypothesis kind_cases : forall h, (exists a, h = mk a) \/ (forall a, h <> mk a).

  Lemma setitem_slots : forall s o x i old w u,
    Uabs s (real_slot s) ->
    PM.find o (s_ops s) = Some x -> o_erased x = false ->
    0 <= i < zlen (hitems (mk old) x) ->
    znth (hitems (mk old) x) i = Some old -> znth (huses (mk old) x) i = Some u ->
    forall s3, s_ops s3 = PM.add o (set_items (replace_at (hitems (mk old) x) i w) x) (s_ops s) ->
    forall h o' i' u',
      real_slot s3 h o' i' u' <->
      plus_use (minus_use (real_slot s) u) (mk w) o i u h o' i' u'.
  Proof.
    intros s o x i old w u UA Fx Ex Ri Zold Zu s3 E3 h o' i' u'.
    assert (R0 : real_slot s (mk old) o i u).
    { exists x. rewrite hid_mk. auto. }
    destruct (ua_slot _ _ UA _ _ _ _ R0) as [Inf0 _].
    unfold plus_use, minus_use, real_slot. rewrite E3. split.
    - intros (x' & Fx' & Ex' & Z1 & Z2). rewrite find_add in Fx'.
      destruct (Pos.eqb_spec o' o) as [->|No].
      + injection Fx' as <-. rewrite erased_set in Ex'.
        destruct (kind_cases h) as [(a & ->)|Oth].
        * rewrite hid_mk in Z1. rewrite (hitems_mk a 1%positive), items_set in Z1.
          rewrite uses_set in Z2. rewrite (huses_mk a old) in Z2.
          rewrite znth_replace_at in Z1 by exact Ri.
          destruct (Z.eqb_spec i' i) as [->|Ni].
          -- injection Z1 as <-. rewrite Zu in Z2. injection Z2 as <-. right. auto.
          -- left. split.
             ++ exists x. rewrite hid_mk. rewrite (hitems_mk a old), (huses_mk a old). auto.
             ++ intro E. subst u'.
                assert (R1 : real_slot s (mk a) o i' u).
                { exists x. rewrite hid_mk, (hitems_mk a old), (huses_mk a old). auto. }
                destruct (ua_slot _ _ UA _ _ _ _ R1) as [Inf1 _]. rewrite Inf0 in Inf1. injection Inf1 as E. lia.
        * destruct (other_side h (replace_at (hitems (mk old) x) i w) x Oth) as [O1 O2].
          rewrite O1 in Z1. rewrite O2 in Z2. left. split; [exists x; auto|].
          intro E. subst u'.
          assert (R1 : real_slot s h o i' u) by (exists x; auto).
          pose proof (ua_one _ _ UA _ _ _ _ _ _ _ R1 R0) as Eh. eapply Oth. exact Eh.
      + left. split; [exists x'; auto|]. intro E. subst u'.
        assert (R1 : real_slot s h o' i' u) by (exists x'; auto).
        destruct (ua_slot _ _ UA _ _ _ _ R1) as [Inf1 _]. rewrite Inf0 in Inf1. injection Inf1 as E1 E2. congruence.
    - intros [[(x' & Fx' & Ex' & Z1 & Z2) Nu]|(-> & -> & -> & ->)].
      + rewrite find_add. destruct (Pos.eqb_spec o' o) as [->|No]; [|exists x'; auto].
        rewrite Fx in Fx'. injection Fx' as <-.
        exists (set_items (replace_at (hitems (mk old) x) i w) x). split; [reflexivity|]. split; [rewrite erased_set; exact Ex|].
        destruct (kind_cases h) as [(a & ->)|Oth].
        * rewrite hid_mk in *. rewrite (hitems_mk a 1%positive), items_set. rewrite uses_set.
          rewrite znth_replace_at by exact Ri.
          destruct (Z.eqb_spec i' i) as [->|Ni].
          -- exfalso. apply Nu. rewrite (huses_mk a old) in Z2. rewrite Zu in Z2. injection Z2 as <-. reflexivity.
          -- rewrite (hitems_mk a old) in Z1. auto.
        * destruct (other_side h (replace_at (hitems (mk old) x) i w) x Oth) as [O1 O2].
          rewrite O1, O2. auto.
      + rewrite find_add, Pos.eqb_refl.
        exists (set_items (replace_at (hitems (mk old) x) i w) x). split; [reflexivity|]. split; [rewrite erased_set; exact Ex|].
        rewrite hid_mk, (hitems_mk w 1%positive), items_set, uses_set, (huses_mk w old).
        rewrite znth_replace_at by exact Ri. rewrite Z.eqb_refl. auto.
  Qed.
End Setitem.

(* ------------------------------------------------------------------ OpOperands.__setitem__ *)

Lemma norm_index_ok : forall len idx, (0 <=? norm_index len idx) && (norm_index len idx <? len) = true ->
  0 <= norm_index len idx < len.
Proof. intros len idx H. apply andb_true_iff in H. destruct H as [H1 H2]. apply Z.leb_le in H1. apply Z.ltb_lt in H2. lia. Qed.

Lemma operands_setitem_core : forall s s' o x0 idx w r,
  WF s -> PM.find o (s_ops s) = Some x0 -> o_erased x0 = false ->
  operands_setitem o idx w s = (s', Ok r) ->
  let i := norm_index (zlen (o_operands x0)) idx in
  UWF s' /\ (forall y, use_info s' y = use_info s y) /\
  exists u, znth (o_operand_uses x0) i = Some u /\
    forall h o' i' u', real_slot s' h o' i' u' <-> plus_use (minus_use (real_slot s) u) (HV w) o i u h o' i' u'.
Proof.
  intros s s' o x0 idx w r W Fx0 Ex0 H i.
  destruct (UWF_Uabs s (WF_UWF s W)) as [UA LN].
  unfold operands_setitem in H.
  apply bind_ok in H as (s0 & x & Hg & H). apply getO_ok in Hg as [-> Fx].
  rewrite Fx0 in Fx. injection Fx as <-.
  fold i in H.
  destruct ((0 <=? i) && (i <? zlen (o_operands x0))) eqn:Rg; simpl in H; [|exfalso; eapply raise_ok; eauto].
  apply norm_index_ok in Rg. fold i in Rg.
  apply bind_ok in H as (s1 & old & Ho & H). apply index_or_raise_ok in Ho as [-> Ho].
  apply bind_ok in H as (s2 & u & Hu & H). apply index_or_raise_ok in Hu as [-> Hu].
  rewrite py_index_znth in Ho by exact Rg.
  assert (Ru : 0 <= i < zlen (o_operand_uses x0)).
  { destruct (LN o x0 Fx0 Ex0) as [L1 _]. unfold zlen in *. lia. }
  rewrite py_index_znth in Hu by exact Ru.
  apply bind_ok in H as (s3 & ? & Hrm & H).
  apply bind_ok in H as (s4 & ? & Had & Hup).
  assert (R0 : real_slot s (HV old) o i u) by (exists x0; simpl; auto).
  destruct (remove_use_Uabs _ _ _ _ _ _ _ _ UA R0 Hrm) as (UA3 & Ops3 & Inf3).
  assert (Fl : forall h' o' i', ~ minus_use (real_slot s) u h' o' i' u) by (intros h' o' i' [_ N]; apply N; reflexivity).
  assert (Inf : use_info s3 u = Some (o, i)).
  { rewrite Inf3. apply (ua_slot _ _ UA _ _ _ _ R0). }
  destruct (add_use_Uabs _ _ _ _ _ _ _ _ UA3 Fl Inf Had) as (UA4 & Ops4 & Inf4).
  apply updO_ok in Hup as (x4 & Fx4 & ->).
  rewrite Ops4, Ops3, Fx0 in Fx4. injection Fx4 as <-.
  assert (SL : forall h o' i' u',
     real_slot (with_ops (PM.add o (set_o_operands (py_slice_to (o_operands x0) i ++ w :: py_slice_from (o_operands x0) (i + 1)) x0) (s_ops s4)) s4) h o' i' u' <->
     plus_use (minus_use (real_slot s) u) (HV w) o i u h o' i' u').
  { intros h o' i' u'.
    apply (setitem_slots HV set_o_operands) with (x := x0) (old := old); simpl; auto.
    * intros a b E. injection E as E. exact E.
    * intros [v|b] l y N; [exfalso; eapply N; reflexivity|split; reflexivity].
    * intros [v|b]; [left; eauto|right; intros a E; discriminate].
    * rewrite Ops4, Ops3. reflexivity. }
  split; [|split].
  - apply Uabs_UWF.
    + eapply Uabs_ext; [| | exact SL |exact UA4].
      * intro y. reflexivity.
      * intros [v|b]; reflexivity.
    + intros o' x' F' E'. simpl in F'. rewrite find_add in F'. rewrite Ops4, Ops3 in F'.
      destruct (Pos.eqb_spec o' o) as [->|N].
      * injection F' as <-. simpl. destruct (LN o x0 Fx0 Ex0) as [L1 L2]. split; [|exact L2].
        fold (replace_at (o_operands x0) i w). rewrite length_replace_at by exact Rg. exact L1.
      * apply (LN o' x' F' E').
  - intro y. unfold use_info. simpl. fold (use_info s4 y). rewrite Inf4, Inf3. reflexivity.
  - exists u. split; [exact Hu|exact SL].
Qed.

Theorem operands_setitem_WF : forall s s' o idx w r,
  WF s -> op_live s o -> operands_setitem o idx w s = (s', Ok r) -> WF s'.
Proof.
  intros s s' o idx w r W (x0 & Fx0 & Ex0) H.
  eapply (WF_groups s s' W);
    [eapply operands_setitem_T1|eapply operands_setitem_T2|eapply operands_setitem_T3|
     eapply operands_setitem_I|eapply operands_setitem_A|]; try exact H.
  apply (operands_setitem_core s s' o x0 idx w r W Fx0 Ex0 H).
Qed.

(* ------------------------------------------------------------------ OpSuccessors.__setitem__ *)

Theorem successors_setitem_WF : forall s s' o idx w r,
  WF s -> op_live s o -> successors_setitem o idx w s = (s', Ok r) -> WF s'.
Proof.
  intros s s' o idx w r W (x0 & Fx0 & Ex0) H.
  eapply (WF_groups s s' W);
    [eapply successors_setitem_T1|eapply successors_setitem_T2|eapply successors_setitem_T3|
     eapply successors_setitem_I|eapply successors_setitem_A|]; try exact H.
  destruct (UWF_Uabs s (WF_UWF s W)) as [UA LN].
  unfold successors_setitem in H.
  apply bind_ok in H as (s0 & x & Hg & H). apply getO_ok in Hg as [-> Fx].
  rewrite Fx0 in Fx. injection Fx as <-.
  set (i := norm_index (zlen (o_successors x0)) idx) in *.
  destruct ((0 <=? i) && (i <? zlen (o_successors x0))) eqn:Rg; simpl in H; [|exfalso; eapply raise_ok; eauto].
  apply norm_index_ok in Rg. fold i in Rg.
  apply bind_ok in H as (s1 & old & Ho & H). apply index_or_raise_ok in Ho as [-> Ho].
  apply bind_ok in H as (s2 & u & Hu & H). apply index_or_raise_ok in Hu as [-> Hu].
  rewrite py_index_znth in Ho by exact Rg.
  assert (Ru : 0 <= i < zlen (o_successor_uses x0)).
  { destruct (LN o x0 Fx0 Ex0) as [_ L1]. unfold zlen in *. lia. }
  rewrite py_index_znth in Hu by exact Ru.
  apply bind_ok in H as (s3 & ? & Hrm & H).
  apply bind_ok in H as (s4 & ? & Had & Hup).
  assert (R0 : real_slot s (HB old) o i u) by (exists x0; simpl; auto).
  destruct (remove_use_Uabs _ _ _ _ _ _ _ _ UA R0 Hrm) as (UA3 & Ops3 & Inf3).
  assert (Fl : forall h' o' i', ~ minus_use (real_slot s) u h' o' i' u) by (intros h' o' i' [_ N]; apply N; reflexivity).
  assert (Inf : use_info s3 u = Some (o, i)).
  { rewrite Inf3. apply (ua_slot _ _ UA _ _ _ _ R0). }
  destruct (add_use_Uabs _ _ _ _ _ _ _ _ UA3 Fl Inf Had) as (UA4 & Ops4 & Inf4).
  apply updO_ok in Hup as (x4 & Fx4 & ->).
  rewrite Ops4, Ops3, Fx0 in Fx4. injection Fx4 as <-.
  apply Uabs_UWF.
  - eapply Uabs_ext; [| |  |exact UA4].
    + intro y. reflexivity.
    + intros [v|b]; reflexivity.
    + intros h o' i' u'.
      apply (setitem_slots HB set_o_successors) with (x := x0) (old := old); simpl; auto.
      * intros a b E. injection E as E. exact E.
      * intros [v|b] l y N; [split; reflexivity|exfalso; eapply N; reflexivity].
      * intros [v|b]; [right; intros a E; discriminate|left; eauto].
      * rewrite Ops4, Ops3. reflexivity.
  - intros o' x' F' E'. simpl in F'. rewrite find_add in F'. rewrite Ops4, Ops3 in F'.
    destruct (Pos.eqb_spec o' o) as [->|N].
    + injection F' as <-. simpl. destruct (LN o x0 Fx0 Ex0) as [L1 L2]. split; [exact L1|].
      fold (replace_at (o_successors x0) i w). rewrite length_replace_at by exact Rg. exact L2.
    + apply (LN o' x' F' E').
Qed.
