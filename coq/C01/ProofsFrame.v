(* C01/ProofsFrame.v -- frame reasoning.

   The clauses of WF fall into groups that read disjoint sets of fields:
     T1 (WF_block)   ops: parent next prev erased          blocks: first_op last_op erased
     T2 (WF_region)  blocks: next prev parent erased       regions: first last erased
     T3 (WF_opregs)  ops: regions erased                   regions: parent erased
     U  (use lists)  ops: operands operand_uses successors successor_uses erased
                     values: first_use   blocks: first_use   uses: everything
     I  (indices)    ops: results erased   blocks: args erased   values: kind dead
     A  (alloc)      domains of the five tables + counters
   `same_X s s'` = the two states agree on the fields of group X.  A monadic program that
   only writes fields outside X preserves `same_X` (`preserves`), whatever its outcome, and the
   clauses of group X transfer along `same_X`. *)
From Coq Require Import ZArith List Bool PArith FMapPositive Lia.
From XV Require Import C01.Model C01.Spec C01.ProofsBase.
Import ListNotations.
Local Open Scope Z_scope.

(* ------------------------------------------------------------------ projections *)

Definition pT1_op (x : op_rec) := (o_parent x, o_next x, o_prev x, o_erased x).
Definition pT1_blk (x : block_rec) := (b_first_op x, b_last_op x, b_erased x).
Definition pT2_blk (x : block_rec) := (b_next x, b_prev x, b_parent x, b_erased x).
Definition pT2_reg (x : region_rec) := (r_first x, r_last x, r_erased x).
Definition pT3_op (x : op_rec) := (o_regions x, o_erased x).
Definition pT3_reg (x : region_rec) := (r_parent x, r_erased x).
Definition pU_op (x : op_rec) := (o_operands x, o_operand_uses x, o_successors x, o_successor_uses x, o_erased x).
Definition pU_val (x : value_rec) := v_first_use x.
Definition pU_blk (x : block_rec) := b_first_use x.
Definition pI_op (x : op_rec) := (o_results x, o_erased x).
Definition pI_blk (x : block_rec) := (b_args x, b_erased x).
Definition pI_val (x : value_rec) := (v_kind x, v_dead x).

Definition agree {R P} (p : R -> P) (t t' : PM.t R) : Prop :=
  forall i, option_map p (PM.find i t') = option_map p (PM.find i t).

Definition same_T1 s s' := agree pT1_op (s_ops s) (s_ops s') /\ agree pT1_blk (s_blocks s) (s_blocks s').
Definition same_T2 s s' := agree pT2_blk (s_blocks s) (s_blocks s') /\ agree pT2_reg (s_regions s) (s_regions s').
Definition same_T3 s s' := agree pT3_op (s_ops s) (s_ops s') /\ agree pT3_reg (s_regions s) (s_regions s').
Definition same_U s s' :=
  agree pU_op (s_ops s) (s_ops s') /\ agree pU_val (s_values s) (s_values s') /\
  agree pU_blk (s_blocks s) (s_blocks s') /\ agree (fun x : use_rec => x) (s_uses s) (s_uses s').
Definition same_I s s' :=
  agree pI_op (s_ops s) (s_ops s') /\ agree pI_blk (s_blocks s) (s_blocks s') /\
  agree pI_val (s_values s) (s_values s').
Definition dom_eq {R} (t t' : PM.t R) : Prop := forall i, PM.find i t' = None <-> PM.find i t = None.
Definition same_A s s' :=
  dom_eq (s_ops s) (s_ops s') /\ dom_eq (s_blocks s) (s_blocks s') /\ dom_eq (s_regions s) (s_regions s') /\
  dom_eq (s_values s) (s_values s') /\ dom_eq (s_uses s) (s_uses s') /\
  n_op s' = n_op s /\ n_block s' = n_block s /\ n_region s' = n_region s /\
  n_value s' = n_value s /\ n_use s' = n_use s.

Lemma agree_refl : forall {R P} (p : R -> P) t, agree p t t.
Proof. intros. intro i. reflexivity. Qed.
Lemma agree_trans : forall {R P} (p : R -> P) t1 t2 t3, agree p t1 t2 -> agree p t2 t3 -> agree p t1 t3.
Proof. intros R P p t1 t2 t3 H1 H2 i. rewrite H2, H1. reflexivity. Qed.
Lemma dom_eq_refl : forall {R} (t : PM.t R), dom_eq t t.
Proof. intros. intro i. tauto. Qed.
Lemma dom_eq_trans : forall {R} (t1 t2 t3 : PM.t R), dom_eq t1 t2 -> dom_eq t2 t3 -> dom_eq t1 t3.
Proof. intros R t1 t2 t3 H1 H2 i. specialize (H1 i). specialize (H2 i). tauto. Qed.

Lemma agree_add : forall {R P} (p : R -> P) t i x y,
  PM.find i t = Some x -> p y = p x -> agree p t (PM.add i y t).
Proof.
  intros R P p t i x y F E j. rewrite find_add. destruct (Pos.eqb_spec j i) as [->|N].
  - rewrite F. simpl. f_equal. exact E.
  - reflexivity.
Qed.
Lemma dom_eq_add : forall {R} (t : PM.t R) i x y, PM.find i t = Some x -> dom_eq t (PM.add i y t).
Proof.
  intros R t i x y F j. rewrite find_add. destruct (Pos.eqb_spec j i) as [->|N].
  - rewrite F. split; discriminate.
  - tauto.
Qed.

(* a reflexive and transitive relation on states, closed under the primitive writes that
   satisfy the side conditions below *)
Record frame_rel (R : state -> state -> Prop) : Prop := {
  fr_refl : forall s, R s s;
  fr_trans : forall s1 s2 s3, R s1 s2 -> R s2 s3 -> R s1 s3 }.

Ltac solve_refl := repeat split; try apply agree_refl; try apply dom_eq_refl; reflexivity.
Ltac solve_trans :=
  let H1 := fresh in let H2 := fresh in
  intros ? ? ? H1 H2; repeat match goal with H : _ /\ _ |- _ => destruct H end;
  repeat split; try (eapply agree_trans; eassumption); try (eapply dom_eq_trans; eassumption); congruence.

Lemma fr_T1 : frame_rel same_T1. Proof. split; [intro s; solve_refl|unfold same_T1; solve_trans]. Qed.
Lemma fr_T2 : frame_rel same_T2. Proof. split; [intro s; solve_refl|unfold same_T2; solve_trans]. Qed.
Lemma fr_T3 : frame_rel same_T3. Proof. split; [intro s; solve_refl|unfold same_T3; solve_trans]. Qed.
Lemma fr_U : frame_rel same_U. Proof. split; [intro s; solve_refl|unfold same_U; solve_trans]. Qed.
Lemma fr_I : frame_rel same_I. Proof. split; [intro s; solve_refl|unfold same_I; solve_trans]. Qed.
Lemma fr_A : frame_rel same_A.
Proof.
  split.
  - intro s. unfold same_A. repeat (split; [try apply dom_eq_refl; reflexivity|]). reflexivity.
  - intros s1 s2 s3 (D1 & D2 & D3 & D4 & D5 & N1 & N2 & N3 & N4 & N5) (E1 & E2 & E3 & E4 & E5 & M1 & M2 & M3 & M4 & M5).
    unfold same_A.
    split; [eapply dom_eq_trans; eassumption|]. split; [eapply dom_eq_trans; eassumption|].
    split; [eapply dom_eq_trans; eassumption|]. split; [eapply dom_eq_trans; eassumption|].
    split; [eapply dom_eq_trans; eassumption|]. repeat split; congruence.
Qed.

(* ------------------------------------------------------------------ preserves *)

Definition preserves (R : state -> state -> Prop) {A} (m : M A) : Prop :=
  forall s s' r, m s = (s', r) -> R s s'.

Section Preserves.
  Variable R : state -> state -> Prop.
  Hypothesis FR : frame_rel R.

  Lemma pres_ret : forall {A} (a : A), preserves R (ret a).
  Proof. intros A a s s' r H. inversion H. apply FR. Qed.
  Lemma pres_raise : forall {A} e, preserves R (@raise A e).
  Proof. intros A e s s' r H. inversion H. apply FR. Qed.
  Lemma pres_gets : forall {A} (f : state -> A), preserves R (gets f).
  Proof. intros A f s s' r H. inversion H. apply FR. Qed.
  Lemma pres_bind : forall {A B} (m : M A) (f : A -> M B),
    preserves R m -> (forall a, preserves R (f a)) -> preserves R (bind m f).
  Proof.
    intros A B m f Hm Hf s s' r H. unfold bind in H.
    destruct (m s) as [s1 [a|e]] eqn:E.
    - eapply (fr_trans _ FR); [eapply Hm; eauto|eapply Hf; eauto].
    - inversion H; subst. eapply Hm; eauto.
  Qed.
  Lemma pres_getO : forall o, preserves R (getO o).
  Proof. intros o s s' r H. unfold getO in H. destruct (PM.find o (s_ops s)); inversion H; apply FR. Qed.
  Lemma pres_getB : forall o, preserves R (getB o).
  Proof. intros o s s' r H. unfold getB in H. destruct (PM.find o (s_blocks s)); inversion H; apply FR. Qed.
  Lemma pres_getR : forall o, preserves R (getR o).
  Proof. intros o s s' r H. unfold getR in H. destruct (PM.find o (s_regions s)); inversion H; apply FR. Qed.
  Lemma pres_getV : forall o, preserves R (getV o).
  Proof. intros o s s' r H. unfold getV in H. destruct (PM.find o (s_values s)); inversion H; apply FR. Qed.
  Lemma pres_getU : forall o, preserves R (getU o).
  Proof. intros o s s' r H. unfold getU in H. destruct (PM.find o (s_uses s)); inversion H; apply FR. Qed.
  Lemma pres_assert : forall c, preserves R (assert_ c).
  Proof. intros c. unfold assert_. destruct c; [apply pres_ret|apply pres_raise]. Qed.
  Lemma pres_when : forall c m, preserves R m -> preserves R (when c m).
  Proof. intros c m H. unfold when. destruct c; [exact H|apply pres_ret]. Qed.
  Lemma pres_forM : forall {A} (l : list A) (f : A -> M unit),
    (forall a, preserves R (f a)) -> preserves R (forM l f).
  Proof.
    intros A l f Hf. induction l as [|x r IH]; simpl.
    - apply pres_ret.
    - apply pres_bind; [apply Hf|intros _; exact IH].
  Qed.
  Lemma pres_get_fuel : preserves R get_fuel.
  Proof. apply pres_gets. Qed.
  Lemma pres_if : forall {A} (c : bool) (m1 m2 : M A), preserves R m1 -> preserves R m2 -> preserves R (if c then m1 else m2).
  Proof. intros A c m1 m2 H1 H2. destruct c; assumption. Qed.
  Lemma pres_index_or_raise : forall {A} (l : list A) i, preserves R (index_or_raise l i).
  Proof. intros A l i. unfold index_or_raise. destruct (py_index l i); [apply pres_ret|apply pres_raise]. Qed.
End Preserves.

(* ------------------------------------------------------------------ primitive writes *)

(* updX preserves a relation when the written record agrees with the old one on the relation's
   projections; stated per relation. *)

Ltac upd_pres find_tbl :=
  let s := fresh "s" in let s' := fresh "s'" in let r := fresh "r" in let H := fresh "H" in
  intros s s' r H;
  match type of H with
  | updO ?o ?f _ = _ => unfold updO in H; destruct (PM.find o (s_ops s)) eqn:?F
  | updB ?o ?f _ = _ => unfold updB in H; destruct (PM.find o (s_blocks s)) eqn:?F
  | updR ?o ?f _ = _ => unfold updR in H; destruct (PM.find o (s_regions s)) eqn:?F
  | updV ?o ?f _ = _ => unfold updV in H; destruct (PM.find o (s_values s)) eqn:?F
  | updU ?o ?f _ = _ => unfold updU in H; destruct (PM.find o (s_uses s)) eqn:?F
  end;
  inversion H; subst; clear H.

(* generic: an update of table X leaves a relation that does not mention table X, or whose
   projections are not changed by f *)
Lemma updO_same_T1 : forall o f, (forall x, pT1_op (f x) = pT1_op x) -> preserves same_T1 (updO o f).
Proof.
  intros o f E. upd_pres tt; [|apply fr_T1].
  split; simpl; [eapply agree_add; eauto|apply agree_refl].
Qed.
Lemma updO_same_T2 : forall o f, preserves same_T2 (updO o f).
Proof. intros o f. upd_pres tt; [split; simpl; apply agree_refl|apply fr_T2]. Qed.
Lemma updO_same_T3 : forall o f, (forall x, pT3_op (f x) = pT3_op x) -> preserves same_T3 (updO o f).
Proof.
  intros o f E. upd_pres tt; [|apply fr_T3].
  split; simpl; [eapply agree_add; eauto|apply agree_refl].
Qed.
Lemma updO_same_U : forall o f, (forall x, pU_op (f x) = pU_op x) -> preserves same_U (updO o f).
Proof.
  intros o f E. upd_pres tt; [|apply fr_U].
  split; [|split; [|split]]; simpl; try apply agree_refl. eapply agree_add; eauto.
Qed.
Lemma updO_same_I : forall o f, (forall x, pI_op (f x) = pI_op x) -> preserves same_I (updO o f).
Proof.
  intros o f E. upd_pres tt; [|apply fr_I].
  split; [|split]; simpl; try apply agree_refl. eapply agree_add; eauto.
Qed.
Lemma updO_same_A : forall o f, preserves same_A (updO o f).
Proof.
  intros o f. upd_pres tt; [|apply fr_A].
  unfold same_A; simpl;
  repeat (split; [first [apply dom_eq_refl | eapply dom_eq_add; eauto | reflexivity]|]); reflexivity.
Qed.

Lemma updB_same_T1 : forall o f, (forall x, pT1_blk (f x) = pT1_blk x) -> preserves same_T1 (updB o f).
Proof.
  intros o f E. upd_pres tt; [|apply fr_T1].
  split; simpl; [apply agree_refl|eapply agree_add; eauto].
Qed.
Lemma updB_same_T2 : forall o f, (forall x, pT2_blk (f x) = pT2_blk x) -> preserves same_T2 (updB o f).
Proof.
  intros o f E. upd_pres tt; [|apply fr_T2].
  split; simpl; [eapply agree_add; eauto|apply agree_refl].
Qed.
Lemma updB_same_T3 : forall o f, preserves same_T3 (updB o f).
Proof. intros o f. upd_pres tt; [split; simpl; apply agree_refl|apply fr_T3]. Qed.
Lemma updB_same_U : forall o f, (forall x, pU_blk (f x) = pU_blk x) -> preserves same_U (updB o f).
Proof.
  intros o f E. upd_pres tt; [|apply fr_U].
  split; [|split; [|split]]; simpl; try apply agree_refl. eapply agree_add; eauto.
Qed.
Lemma updB_same_I : forall o f, (forall x, pI_blk (f x) = pI_blk x) -> preserves same_I (updB o f).
Proof.
  intros o f E. upd_pres tt; [|apply fr_I].
  split; [|split]; simpl; try apply agree_refl. eapply agree_add; eauto.
Qed.
Lemma updB_same_A : forall o f, preserves same_A (updB o f).
Proof.
  intros o f. upd_pres tt; [|apply fr_A].
  unfold same_A; simpl;
  repeat (split; [first [apply dom_eq_refl | eapply dom_eq_add; eauto | reflexivity]|]); reflexivity.
Qed.

Lemma updR_same_T1 : forall o f, preserves same_T1 (updR o f).
Proof. intros o f. upd_pres tt; [split; simpl; apply agree_refl|apply fr_T1]. Qed.
Lemma updR_same_T2 : forall o f, (forall x, pT2_reg (f x) = pT2_reg x) -> preserves same_T2 (updR o f).
Proof.
  intros o f E. upd_pres tt; [|apply fr_T2].
  split; simpl; [apply agree_refl|eapply agree_add; eauto].
Qed.
Lemma updR_same_T3 : forall o f, (forall x, pT3_reg (f x) = pT3_reg x) -> preserves same_T3 (updR o f).
Proof.
  intros o f E. upd_pres tt; [|apply fr_T3].
  split; simpl; [apply agree_refl|eapply agree_add; eauto].
Qed.
Lemma updR_same_U : forall o f, preserves same_U (updR o f).
Proof. intros o f. upd_pres tt; [split; [|split; [|split]]; simpl; apply agree_refl|apply fr_U]. Qed.
Lemma updR_same_I : forall o f, preserves same_I (updR o f).
Proof. intros o f. upd_pres tt; [split; [|split]; simpl; apply agree_refl|apply fr_I]. Qed.
Lemma updR_same_A : forall o f, preserves same_A (updR o f).
Proof.
  intros o f. upd_pres tt; [|apply fr_A].
  unfold same_A; simpl;
  repeat (split; [first [apply dom_eq_refl | eapply dom_eq_add; eauto | reflexivity]|]); reflexivity.
Qed.

Lemma updV_same_T1 : forall o f, preserves same_T1 (updV o f).
Proof. intros o f. upd_pres tt; [split; simpl; apply agree_refl|apply fr_T1]. Qed.
Lemma updV_same_T2 : forall o f, preserves same_T2 (updV o f).
Proof. intros o f. upd_pres tt; [split; simpl; apply agree_refl|apply fr_T2]. Qed.
Lemma updV_same_T3 : forall o f, preserves same_T3 (updV o f).
Proof. intros o f. upd_pres tt; [split; simpl; apply agree_refl|apply fr_T3]. Qed.
Lemma updV_same_U : forall o f, (forall x, pU_val (f x) = pU_val x) -> preserves same_U (updV o f).
Proof.
  intros o f E. upd_pres tt; [|apply fr_U].
  split; [|split; [|split]]; simpl; try apply agree_refl. eapply agree_add; eauto.
Qed.
Lemma updV_same_I : forall o f, (forall x, pI_val (f x) = pI_val x) -> preserves same_I (updV o f).
Proof.
  intros o f E. upd_pres tt; [|apply fr_I].
  split; [|split]; simpl; try apply agree_refl. eapply agree_add; eauto.
Qed.
Lemma updV_same_A : forall o f, preserves same_A (updV o f).
Proof.
  intros o f. upd_pres tt; [|apply fr_A].
  unfold same_A; simpl;
  repeat (split; [first [apply dom_eq_refl | eapply dom_eq_add; eauto | reflexivity]|]); reflexivity.
Qed.

Lemma updU_same_T1 : forall o f, preserves same_T1 (updU o f).
Proof. intros o f. upd_pres tt; [split; simpl; apply agree_refl|apply fr_T1]. Qed.
Lemma updU_same_T2 : forall o f, preserves same_T2 (updU o f).
Proof. intros o f. upd_pres tt; [split; simpl; apply agree_refl|apply fr_T2]. Qed.
Lemma updU_same_T3 : forall o f, preserves same_T3 (updU o f).
Proof. intros o f. upd_pres tt; [split; simpl; apply agree_refl|apply fr_T3]. Qed.
Lemma updU_same_I : forall o f, preserves same_I (updU o f).
Proof. intros o f. upd_pres tt; [split; [|split]; simpl; apply agree_refl|apply fr_I]. Qed.
Lemma updU_same_A : forall o f, preserves same_A (updU o f).
Proof.
  intros o f. upd_pres tt; [|apply fr_A].
  unfold same_A; simpl;
  repeat (split; [first [apply dom_eq_refl | eapply dom_eq_add; eauto | reflexivity]|]); reflexivity.
Qed.

(* ------------------------------------------------------------------ automation *)

(* `pres R FR`: prove  preserves R m  for a monadic term built from the combinators; leaves the
   goals it cannot close (recursive calls, sub-programs with their own lemma in the hint db) *)
Create HintDb pres discriminated.

Ltac pres_step FR :=
  match goal with
  | |- preserves _ (bind _ _) => apply (pres_bind _ FR); [|intros ?]
  | |- preserves _ (ret _) => apply (pres_ret _ FR)
  | |- preserves _ (raise _) => apply (pres_raise _ FR)
  | |- preserves _ (gets _) => apply (pres_gets _ FR)
  | |- preserves _ get_fuel => apply (pres_get_fuel _ FR)
  | |- preserves _ (getO _) => apply (pres_getO _ FR)
  | |- preserves _ (getB _) => apply (pres_getB _ FR)
  | |- preserves _ (getR _) => apply (pres_getR _ FR)
  | |- preserves _ (getV _) => apply (pres_getV _ FR)
  | |- preserves _ (getU _) => apply (pres_getU _ FR)
  | |- preserves _ (assert_ _) => apply (pres_assert _ FR)
  | |- preserves _ (when _ _) => apply (pres_when _ FR)
  | |- preserves _ (forM _ _) => apply (pres_forM _ FR); intros ?
  | |- preserves _ (index_or_raise _ _) => apply (pres_index_or_raise _ FR)
  | |- preserves _ (if _ then _ else _) => apply (pres_if _)
  | |- preserves _ (match ?x with Some _ => _ | None => _ end) => destruct x
  | |- preserves _ (match ?x with [] => _ | _ :: _ => _ end) => destruct x
  | |- preserves _ (match ?x with HV _ => _ | HB _ => _ end) => destruct x
  | |- preserves same_T1 (updO _ _) => apply updO_same_T1; intros ?; reflexivity
  | |- preserves same_T2 (updO _ _) => apply updO_same_T2
  | |- preserves same_T3 (updO _ _) => apply updO_same_T3; intros ?; reflexivity
  | |- preserves same_U (updO _ _) => apply updO_same_U; intros ?; reflexivity
  | |- preserves same_I (updO _ _) => apply updO_same_I; intros ?; reflexivity
  | |- preserves same_A (updO _ _) => apply updO_same_A
  | |- preserves same_T1 (updB _ _) => apply updB_same_T1; intros ?; reflexivity
  | |- preserves same_T2 (updB _ _) => apply updB_same_T2; intros ?; reflexivity
  | |- preserves same_T3 (updB _ _) => apply updB_same_T3
  | |- preserves same_U (updB _ _) => apply updB_same_U; intros ?; reflexivity
  | |- preserves same_I (updB _ _) => apply updB_same_I; intros ?; reflexivity
  | |- preserves same_A (updB _ _) => apply updB_same_A
  | |- preserves same_T1 (updR _ _) => apply updR_same_T1
  | |- preserves same_T2 (updR _ _) => apply updR_same_T2; intros ?; reflexivity
  | |- preserves same_T3 (updR _ _) => apply updR_same_T3; intros ?; reflexivity
  | |- preserves same_U (updR _ _) => apply updR_same_U
  | |- preserves same_I (updR _ _) => apply updR_same_I
  | |- preserves same_A (updR _ _) => apply updR_same_A
  | |- preserves same_T1 (updV _ _) => apply updV_same_T1
  | |- preserves same_T2 (updV _ _) => apply updV_same_T2
  | |- preserves same_T3 (updV _ _) => apply updV_same_T3
  | |- preserves same_U (updV _ _) => apply updV_same_U; intros ?; reflexivity
  | |- preserves same_I (updV _ _) => apply updV_same_I; intros ?; reflexivity
  | |- preserves same_A (updV _ _) => apply updV_same_A
  | |- preserves same_T1 (updU _ _) => apply updU_same_T1
  | |- preserves same_T2 (updU _ _) => apply updU_same_T2
  | |- preserves same_T3 (updU _ _) => apply updU_same_T3
  | |- preserves same_I (updU _ _) => apply updU_same_I
  | |- preserves same_A (updU _ _) => apply updU_same_A
  | |- preserves _ _ => solve [eauto with pres]
  end.
Ltac pres FR := repeat (pres_step FR).

(* ------------------------------------------------------------------ the basic use-list programs *)

Lemma get_first_use_pres : forall R, frame_rel R -> forall h, preserves R (get_first_use h).
Proof. intros R FR h. unfold get_first_use. destruct h; pres FR. Qed.

Lemma set_first_use_T1 : forall h u, preserves same_T1 (set_first_use h u).
Proof. intros h u. unfold set_first_use. destruct h; pres fr_T1. Qed.
Lemma set_first_use_T2 : forall h u, preserves same_T2 (set_first_use h u).
Proof. intros h u. unfold set_first_use. destruct h; pres fr_T2. Qed.
Lemma set_first_use_T3 : forall h u, preserves same_T3 (set_first_use h u).
Proof. intros h u. unfold set_first_use. destruct h; pres fr_T3. Qed.
Lemma set_first_use_I : forall h u, preserves same_I (set_first_use h u).
Proof. intros h u. unfold set_first_use. destruct h; pres fr_I. Qed.
Lemma set_first_use_A : forall h u, preserves same_A (set_first_use h u).
Proof. intros h u. unfold set_first_use. destruct h; pres fr_A. Qed.
#[export] Hint Resolve set_first_use_T1 set_first_use_T2 set_first_use_T3 set_first_use_I set_first_use_A : pres.
#[export] Hint Resolve fr_T1 fr_T2 fr_T3 fr_U fr_I fr_A : pres.
#[export] Hint Extern 1 (preserves _ (get_first_use _)) => apply get_first_use_pres; eauto with pres : pres.

Lemma add_use_T1 : forall h u, preserves same_T1 (add_use h u).
Proof. intros. unfold add_use. pres fr_T1. Qed.
Lemma add_use_T2 : forall h u, preserves same_T2 (add_use h u).
Proof. intros. unfold add_use. pres fr_T2. Qed.
Lemma add_use_T3 : forall h u, preserves same_T3 (add_use h u).
Proof. intros. unfold add_use. pres fr_T3. Qed.
Lemma add_use_I : forall h u, preserves same_I (add_use h u).
Proof. intros. unfold add_use. pres fr_I. Qed.
Lemma add_use_A : forall h u, preserves same_A (add_use h u).
Proof. intros. unfold add_use. pres fr_A. Qed.
Lemma remove_use_T1 : forall h u, preserves same_T1 (remove_use h u).
Proof. intros. unfold remove_use. pres fr_T1. Qed.
Lemma remove_use_T2 : forall h u, preserves same_T2 (remove_use h u).
Proof. intros. unfold remove_use. pres fr_T2. Qed.
Lemma remove_use_T3 : forall h u, preserves same_T3 (remove_use h u).
Proof. intros. unfold remove_use. pres fr_T3. Qed.
Lemma remove_use_I : forall h u, preserves same_I (remove_use h u).
Proof. intros. unfold remove_use. pres fr_I. Qed.
Lemma remove_use_A : forall h u, preserves same_A (remove_use h u).
Proof. intros. unfold remove_use. pres fr_A. Qed.
#[export] Hint Resolve add_use_T1 add_use_T2 add_use_T3 add_use_I add_use_A
  remove_use_T1 remove_use_T2 remove_use_T3 remove_use_I remove_use_A : pres.

(* ------------------------------------------------------------------ transfer of the WF clauses *)

Lemma agree_find : forall {R P} (p : R -> P) t t' i x, agree p t t' -> PM.find i t' = Some x ->
  exists y, PM.find i t = Some y /\ p x = p y.
Proof.
  intros R P p t t' i x A F. specialize (A i). rewrite F in A. simpl in A.
  destruct (PM.find i t) as [y|]; [|discriminate]. exists y. split; [reflexivity|]. simpl in A. congruence.
Qed.
Lemma agree_find_rev : forall {R P} (p : R -> P) t t' i y, agree p t t' -> PM.find i t = Some y ->
  exists x, PM.find i t' = Some x /\ p x = p y.
Proof.
  intros R P p t t' i y A F. specialize (A i). rewrite F in A. simpl in A.
  destruct (PM.find i t') as [x|]; [|discriminate]. exists x. split; [reflexivity|]. simpl in A. congruence.
Qed.

Lemma link_agree : forall {R P} (p : R -> P) (g : P -> option positive) (f : R -> option positive) t t',
  (forall x, f x = g (p x)) -> agree p t t' -> forall i, link t' f i = link t f i.
Proof.
  intros R P p g f t t' E A i. unfold link. specialize (A i).
  destruct (PM.find i t') as [x|], (PM.find i t) as [y|]; simpl in *; try discriminate; try reflexivity.
  rewrite !E. congruence.
Qed.

Lemma WF_block_same : forall s s', same_T1 s s' -> WF_block s -> WF_block s'.
Proof.
  intros s s' [Ao Ab] W b br' F' E'.
  destruct (agree_find _ _ _ _ _ Ab F') as (br & F & P). unfold pT1_blk in P. inversion P as [[P1 P2 P3]].
  rewrite P3 in E'. destruct (W b br F E') as (l & C1 & C2 & ND & M1 & M2).
  assert (N : forall i, op_next s' i = op_next s i).
  { apply (link_agree pT1_op (fun p => snd (fst (fst p))) o_next); [reflexivity|exact Ao]. }
  assert (Pv : forall i, op_prev s' i = op_prev s i).
  { apply (link_agree pT1_op (fun p => snd (fst p)) o_prev); [reflexivity|exact Ao]. }
  exists l. rewrite P1, P2. split; [eapply chain_ext; [|exact C1]; intros; apply N|].
  split; [eapply chain_ext; [|exact C2]; intros; apply Pv|]. split; [exact ND|]. split.
  - intros o Io. destruct (M1 o Io) as (x & Fx & Px).
    destruct (agree_find_rev _ _ _ _ _ Ao Fx) as (x' & Fx' & Q). exists x'. split; [exact Fx'|].
    unfold pT1_op in Q. inversion Q. congruence.
  - intros o x' Fx' Ex' Px'. destruct (agree_find _ _ _ _ _ Ao Fx') as (x & Fx & Q).
    unfold pT1_op in Q. inversion Q. eapply M2; eauto; congruence.
Qed.

Lemma WF_region_same : forall s s', same_T2 s s' -> WF_region s -> WF_region s'.
Proof.
  intros s s' [Ab Ar] W r rr' F' E'.
  destruct (agree_find _ _ _ _ _ Ar F') as (rr & F & P). unfold pT2_reg in P. inversion P as [[P1 P2 P3]].
  rewrite P3 in E'. destruct (W r rr F E') as (l & C1 & C2 & ND & M1 & M2).
  assert (N : forall i, blk_next s' i = blk_next s i).
  { apply (link_agree pT2_blk (fun p => fst (fst (fst p))) b_next); [reflexivity|exact Ab]. }
  assert (Pv : forall i, blk_prev s' i = blk_prev s i).
  { apply (link_agree pT2_blk (fun p => snd (fst (fst p))) b_prev); [reflexivity|exact Ab]. }
  exists l. rewrite P1, P2. split; [eapply chain_ext; [|exact C1]; intros; apply N|].
  split; [eapply chain_ext; [|exact C2]; intros; apply Pv|]. split; [exact ND|]. split.
  - intros o Io. destruct (M1 o Io) as (x & Fx & Px).
    destruct (agree_find_rev _ _ _ _ _ Ab Fx) as (x' & Fx' & Q). exists x'. split; [exact Fx'|].
    unfold pT2_blk in Q. inversion Q. congruence.
  - intros o x' Fx' Ex' Px'. destruct (agree_find _ _ _ _ _ Ab Fx') as (x & Fx & Q).
    unfold pT2_blk in Q. inversion Q. eapply M2; eauto; congruence.
Qed.

Lemma WF_opregs_same : forall s s', same_T3 s s' -> WF_opregs s -> WF_opregs s'.
Proof.
  intros s s' [Ao Ar] W o x' F' E'.
  destruct (agree_find _ _ _ _ _ Ao F') as (x & F & P). unfold pT3_op in P. inversion P as [[P1 P2]].
  rewrite P2 in E'. destruct (W o x F E') as (ND & M1 & M2). rewrite P1.
  split; [exact ND|]. split.
  - intros r Ir. destruct (M1 r Ir) as (rr & Fr & Pr).
    destruct (agree_find_rev _ _ _ _ _ Ar Fr) as (rr' & Fr' & Q). exists rr'. split; [exact Fr'|].
    unfold pT3_reg in Q. inversion Q. congruence.
  - intros r rr' Fr' Er' Pr'. destruct (agree_find _ _ _ _ _ Ar Fr') as (rr & Fr & Q).
    unfold pT3_reg in Q. inversion Q. eapply M2; eauto; congruence.
Qed.

Lemma WF_index_same : forall s s', same_I s s' ->
  WF_results s /\ WF_args s /\ WF_owner s -> WF_results s' /\ WF_args s' /\ WF_owner s'.
Proof.
  intros s s' (Ao & Ab & Av) (W1 & W2 & W3). split; [|split].
  - intros o x' F' E' i v Hi. destruct (agree_find _ _ _ _ _ Ao F') as (x & F & P).
    unfold pI_op in P. inversion P as [[P1 P2]]. rewrite P2 in E'. rewrite P1 in Hi.
    destruct (W1 o x F E' i v Hi) as (vr & Fv & K).
    destruct (agree_find_rev _ _ _ _ _ Av Fv) as (vr' & Fv' & Q). exists vr'. split; [exact Fv'|].
    unfold pI_val in Q. inversion Q. congruence.
  - intros b x' F' E' i v Hi. destruct (agree_find _ _ _ _ _ Ab F') as (x & F & P).
    unfold pI_blk in P. inversion P as [[P1 P2]]. rewrite P2 in E'. rewrite P1 in Hi.
    destruct (W2 b x F E' i v Hi) as (vr & Fv & K).
    destruct (agree_find_rev _ _ _ _ _ Av Fv) as (vr' & Fv' & Q). exists vr'. split; [exact Fv'|].
    unfold pI_val in Q. inversion Q. congruence.
  - intros v vr' F' D'. destruct (agree_find _ _ _ _ _ Av F') as (vr & F & P).
    unfold pI_val in P. inversion P as [[P1 P2]]. rewrite P2 in D'. specialize (W3 v vr F D').
    rewrite P1. destruct (v_kind vr) as [o i|b i|old].
    + destruct W3 as (x & Fx & Z). destruct (agree_find_rev _ _ _ _ _ Ao Fx) as (x' & Fx' & Q).
      exists x'. split; [exact Fx'|]. unfold pI_op in Q. inversion Q. congruence.
    + destruct W3 as (x & Fx & Z). destruct (agree_find_rev _ _ _ _ _ Ab Fx) as (x' & Fx' & Q).
      exists x'. split; [exact Fx'|]. unfold pI_blk in Q. inversion Q. congruence.
    + exact I.
Qed.

Lemma WF_alloc_same : forall s s', same_A s s' -> WF_alloc s -> WF_alloc s'.
Proof.
  intros s s' (D1 & D2 & D3 & D4 & D5 & N1 & N2 & N3 & N4 & N5) (B1 & B2 & B3 & B4 & B5).
  unfold WF_alloc, below. rewrite N1, N2, N3, N4, N5.
  repeat split; intros i x F.
  - destruct (PM.find i (s_ops s)) as [y|] eqn:G; [eapply B1; eauto|]. apply D1 in G. congruence.
  - destruct (PM.find i (s_blocks s)) as [y|] eqn:G; [eapply B2; eauto|]. apply D2 in G. congruence.
  - destruct (PM.find i (s_regions s)) as [y|] eqn:G; [eapply B3; eauto|]. apply D3 in G. congruence.
  - destruct (PM.find i (s_values s)) as [y|] eqn:G; [eapply B4; eauto|]. apply D4 in G. congruence.
  - destruct (PM.find i (s_uses s)) as [y|] eqn:G; [eapply B5; eauto|]. apply D5 in G. congruence.
Qed.

Lemma WF_detached_same : forall s s', same_T1 s s' -> same_T2 s s' -> WF_detached s -> WF_detached s'.
Proof.
  intros s s' [Ao _] [Ab _] [W1 W2]. split.
  - intros o x' F' E' P'. destruct (agree_find _ _ _ _ _ Ao F') as (x & F & P).
    unfold pT1_op in P. injection P as P1 P2 P3 P4. rewrite P4 in E'. rewrite P1 in P'.
    destruct (W1 o x F E' P') as [Q1 Q2]. split; congruence.
  - intros b x' F' E' P'. destruct (agree_find _ _ _ _ _ Ab F') as (x & F & P).
    unfold pT2_blk in P. injection P as P1 P2 P3 P4. rewrite P4 in E'. rewrite P3 in P'.
    destruct (W2 b x F E' P') as [Q1 Q2]. split; congruence.
Qed.
