(* C01/Spec.v -- the statement of property C01 on the model heap.

   `WF s` is the property's three sentences, literally:

   (1) every operation, block and region is found exactly once in its container in both
       forward and backward order and points back to that container
         - WF_block  : for every live block, the `next` chain from first_op and the `prev`
                       chain from last_op are the same list read in opposite directions, the
                       list has no duplicates, every member's `parent` is this block, and
                       every live op whose `parent` is this block is a member;
         - WF_region : the same for the blocks of every live region;
         - WF_opregs : for every live op, `regions` has no duplicates, every member's
                       `parent` is this op, every live region whose `parent` is this op is a member;
   (2) every value's use list and every block's predecessor (use) list contains exactly the
       (user, position) pairs that appear in operand and successor lists
         - WF_vuses / WF_buses : the use chain of every value / block is a well-formed doubly
                       linked list without duplicates, and each member use (op, idx) is such
                       that op is live, operands[idx] (successors[idx]) is this value (block)
                       and operand_uses[idx] (successor_uses[idx]) is this very use object;
         - WF_operands / WF_successors : for every live op, operands and operand_uses have the
                       same length and operand_uses[i] is a use object (op, i) that is a member
                       of the use chain of operands[i]  (same for successors);
         - WF_disjoint : no use object is both an operand use and a successor use.
       Together: use |-> (op, idx) is a bijection between the chain of v and the occurrences
       of v in operand lists of live ops (multiset equality).
   (3) argument/result positions match their index in their owner
         - WF_results / WF_args : results[i] of a live op o is an OpResult (o, i); args[i] of a
                       live block b is a BlockArgument (b, i);
         - WF_owner  : every value that has not been erased/replaced and says it is result i of
                       o (argument i of b) is results[i] of o (args[i] of b).

   Two auxiliary clauses are part of WF because the induction needs them (they are stated by
   no sentence of the property; the harness reports them separately):
         - WF_detached : a live op/block with parent None has next = prev = None;
         - WF_alloc    : allocated ids are below the allocation counters (model bookkeeping).

   "Live" = not erased by a successful erase call (ghost marks of Model.v).

   `wf_b` is the boolean checker used by the correspondence harness on model states and by
   the Examples; `wf_b_sound : wf_b s = true -> WF s` is proved in ProofsWfb.v. *)
From Coq Require Import ZArith List Bool PArith FMapPositive.
From XV Require Import C01.Model.
Import ListNotations.
Local Open Scope Z_scope.

(* ------------------------------------------------------------------ chains *)

(* `chain nxt start l`: following `nxt` from `start` visits exactly the nodes of `l`, in
   order, and then reaches None.  `nxt x = Some p` means: node x exists and its link is p. *)
Inductive chain (nxt : positive -> option (option positive)) : option positive -> list positive -> Prop :=
| chain_nil : chain nxt None []
| chain_cons : forall x n l, nxt x = Some n -> chain nxt n l -> chain nxt (Some x) (x :: l).

Definition link {R} (tbl : PM.t R) (f : R -> option positive) (x : positive) : option (option positive) :=
  option_map f (PM.find x tbl).

Definition op_next s := link (s_ops s) o_next.
Definition op_prev s := link (s_ops s) o_prev.
Definition blk_next s := link (s_blocks s) b_next.
Definition blk_prev s := link (s_blocks s) b_prev.
Definition use_next s := link (s_uses s) u_next.

(* Z-indexed list access, None outside [0, length) *)
Definition znth {A} (l : list A) (i : Z) : option A :=
  if i <? 0 then None else nth_error l (Z.to_nat i).

Definition op_live s o := exists x, PM.find o (s_ops s) = Some x /\ o_erased x = false.

(* ------------------------------------------------------------------ (1) containers *)

Definition WF_block (s : state) : Prop :=
  forall b br, PM.find b (s_blocks s) = Some br -> b_erased br = false ->
  exists l, chain (op_next s) (b_first_op br) l /\
            chain (op_prev s) (b_last_op br) (rev l) /\
            NoDup l /\
            (forall o, In o l -> exists x, PM.find o (s_ops s) = Some x /\ o_parent x = Some b) /\
            (forall o x, PM.find o (s_ops s) = Some x -> o_erased x = false ->
                         o_parent x = Some b -> In o l).

Definition WF_region (s : state) : Prop :=
  forall r rr, PM.find r (s_regions s) = Some rr -> r_erased rr = false ->
  exists l, chain (blk_next s) (r_first rr) l /\
            chain (blk_prev s) (r_last rr) (rev l) /\
            NoDup l /\
            (forall b, In b l -> exists x, PM.find b (s_blocks s) = Some x /\ b_parent x = Some r) /\
            (forall b x, PM.find b (s_blocks s) = Some x -> b_erased x = false ->
                         b_parent x = Some r -> In b l).

Definition WF_opregs (s : state) : Prop :=
  forall o x, PM.find o (s_ops s) = Some x -> o_erased x = false ->
    NoDup (o_regions x) /\
    (forall r, In r (o_regions x) -> exists rr, PM.find r (s_regions s) = Some rr /\ r_parent rr = Some o) /\
    (forall r rr, PM.find r (s_regions s) = Some rr -> r_erased rr = false ->
                  r_parent rr = Some o -> In r (o_regions x)).

(* ------------------------------------------------------------------ (2) use lists *)

(* the backward pointers of a forward chain: first has prev = None, every other one points to
   its predecessor in the list *)
Fixpoint prevs_ok (s : state) (prev : option uid) (l : list uid) : Prop :=
  match l with
  | [] => True
  | u :: r => (exists ur, PM.find u (s_uses s) = Some ur /\ u_prev ur = prev) /\ prevs_ok s (Some u) r
  end.

(* `sel_items`/`sel_uses` select operands/operand_uses (values) or successors/successor_uses (blocks) *)
Definition use_chain_ok (s : state) (sel_items : op_rec -> list positive) (sel_uses : op_rec -> list uid)
           (self : positive) (first_use : option uid) : Prop :=
  exists l, chain (use_next s) first_use l /\ NoDup l /\ prevs_ok s None l /\
    forall u, In u l -> exists ur x,
      PM.find u (s_uses s) = Some ur /\
      PM.find (u_op ur) (s_ops s) = Some x /\ o_erased x = false /\
      znth (sel_items x) (u_idx ur) = Some self /\
      znth (sel_uses x) (u_idx ur) = Some u.

Definition WF_vuses (s : state) : Prop :=
  forall v vr, PM.find v (s_values s) = Some vr ->
    use_chain_ok s o_operands o_operand_uses v (v_first_use vr).
Definition WF_buses (s : state) : Prop :=
  forall b br, PM.find b (s_blocks s) = Some br ->
    use_chain_ok s o_successors o_successor_uses b (b_first_use br).

Definition slots_ok (s : state) (o : oid) (items : list positive) (uses : list uid)
           (first_use_of : positive -> option (option uid)) : Prop :=
  length items = length uses /\
  forall i item u, nth_error items i = Some item -> nth_error uses i = Some u ->
    (exists ur, PM.find u (s_uses s) = Some ur /\ u_op ur = o /\ u_idx ur = Z.of_nat i) /\
    (exists fu l, first_use_of item = Some fu /\ chain (use_next s) fu l /\ In u l).

Definition WF_operands (s : state) : Prop :=
  forall o x, PM.find o (s_ops s) = Some x -> o_erased x = false ->
    slots_ok s o (o_operands x) (o_operand_uses x) (link (s_values s) v_first_use).
Definition WF_successors (s : state) : Prop :=
  forall o x, PM.find o (s_ops s) = Some x -> o_erased x = false ->
    slots_ok s o (o_successors x) (o_successor_uses x) (link (s_blocks s) b_first_use).

(* a Use object serves one slot only: no use is both an operand use and a successor use
   (otherwise a value's use list and a block's use list would share their tail) *)
Definition WF_disjoint (s : state) : Prop :=
  forall o x, PM.find o (s_ops s) = Some x -> o_erased x = false ->
    forall u, In u (o_operand_uses x) -> In u (o_successor_uses x) -> False.

(* ------------------------------------------------------------------ (3) indices *)

Definition WF_results (s : state) : Prop :=
  forall o x, PM.find o (s_ops s) = Some x -> o_erased x = false ->
    forall i v, nth_error (o_results x) i = Some v ->
      exists vr, PM.find v (s_values s) = Some vr /\ v_kind vr = KRes o (Z.of_nat i).
Definition WF_args (s : state) : Prop :=
  forall b br, PM.find b (s_blocks s) = Some br -> b_erased br = false ->
    forall i v, nth_error (b_args br) i = Some v ->
      exists vr, PM.find v (s_values s) = Some vr /\ v_kind vr = KArg b (Z.of_nat i).
Definition WF_owner (s : state) : Prop :=
  forall v vr, PM.find v (s_values s) = Some vr -> v_dead vr = false ->
    match v_kind vr with
    | KRes o i => exists x, PM.find o (s_ops s) = Some x /\ znth (o_results x) i = Some v
    | KArg b i => exists br, PM.find b (s_blocks s) = Some br /\ znth (b_args br) i = Some v
    | KErased _ => True
    end.

(* auxiliary invariant (needed for induction, stated by no sentence of the property): a live
   op / block that is in no container has no neighbours.  `Block.add_op` on an empty block and
   `Region.add_block` on an empty region rely on it (they do not reset the links of the node). *)
Definition WF_detached (s : state) : Prop :=
  (forall o x, PM.find o (s_ops s) = Some x -> o_erased x = false -> o_parent x = None ->
               o_next x = None /\ o_prev x = None) /\
  (forall b x, PM.find b (s_blocks s) = Some x -> b_erased x = false -> b_parent x = None ->
               b_next x = None /\ b_prev x = None).

(* model bookkeeping (Python object identity is fresh by construction): every allocated id is
   below the allocation counter of its class *)
Definition below {R} (tbl : PM.t R) (n : positive) : Prop :=
  forall i x, PM.find i tbl = Some x -> (i < n)%positive.
Definition WF_alloc (s : state) : Prop :=
  below (s_ops s) (n_op s) /\ below (s_blocks s) (n_block s) /\ below (s_regions s) (n_region s) /\
  below (s_values s) (n_value s) /\ below (s_uses s) (n_use s).

Record WF (s : state) : Prop := mkWF {
  wf_block : WF_block s;
  wf_region : WF_region s;
  wf_opregs : WF_opregs s;
  wf_vuses : WF_vuses s;
  wf_buses : WF_buses s;
  wf_operands : WF_operands s;
  wf_successors : WF_successors s;
  wf_disjoint : WF_disjoint s;
  wf_results : WF_results s;
  wf_args : WF_args s;
  wf_owner : WF_owner s;
  wf_detached : WF_detached s;
  wf_alloc : WF_alloc s }.

(* ================================================================== boolean checker *)

Fixpoint chain_b (nxt : positive -> option (option positive)) (fuel : nat) (cur : option positive)
  : option (list positive) :=
  match cur with
  | None => Some []
  | Some x =>
      match fuel with
      | O => None
      | S f =>
          match nxt x with
          | None => None
          | Some n => match chain_b nxt f n with
                      | Some l => Some (x :: l)
                      | None => None
                      end
          end
      end
  end.

Fixpoint mem (x : positive) (l : list positive) : bool :=
  match l with [] => false | y :: r => Pos.eqb x y || mem x r end.
Fixpoint nodup_b (l : list positive) : bool :=
  match l with [] => true | x :: r => negb (mem x r) && nodup_b r end.
Fixpoint list_eqb (l l' : list positive) : bool :=
  match l, l' with
  | [], [] => true
  | x :: r, y :: r' => Pos.eqb x y && list_eqb r r'
  | _, _ => false
  end.

Definition kind_eqb (a b : vkind) : bool :=
  match a, b with
  | KRes o i, KRes o' i' => Pos.eqb o o' && (i =? i')
  | KArg x i, KArg x' i' => Pos.eqb x x' && (i =? i')
  | KErased v, KErased v' => Pos.eqb v v'
  | _, _ => false
  end.

Definition wfb_block (s : state) (fl : nat) (b : bid) (br : block_rec) : bool :=
  if b_erased br then true else
  match chain_b (op_next s) fl (b_first_op br), chain_b (op_prev s) fl (b_last_op br) with
  | Some l, Some l' =>
      list_eqb l' (rev l) && nodup_b l &&
      forallb (fun o => match PM.find o (s_ops s) with
                        | Some x => opt_eqb (o_parent x) (Some b)
                        | None => false end) l &&
      forallb (fun p => let x := snd p in
                        o_erased x || negb (opt_eqb (o_parent x) (Some b)) || mem (fst p) l)
              (PM.elements (s_ops s))
  | _, _ => false
  end.

Definition wfb_region (s : state) (fl : nat) (r : rid) (rr : region_rec) : bool :=
  if r_erased rr then true else
  match chain_b (blk_next s) fl (r_first rr), chain_b (blk_prev s) fl (r_last rr) with
  | Some l, Some l' =>
      list_eqb l' (rev l) && nodup_b l &&
      forallb (fun b => match PM.find b (s_blocks s) with
                        | Some x => opt_eqb (b_parent x) (Some r)
                        | None => false end) l &&
      forallb (fun p => let x := snd p in
                        b_erased x || negb (opt_eqb (b_parent x) (Some r)) || mem (fst p) l)
              (PM.elements (s_blocks s))
  | _, _ => false
  end.

Definition wfb_opregs (s : state) (o : oid) (x : op_rec) : bool :=
  if o_erased x then true else
  nodup_b (o_regions x) &&
  forallb (fun r => match PM.find r (s_regions s) with
                    | Some rr => opt_eqb (r_parent rr) (Some o)
                    | None => false end) (o_regions x) &&
  forallb (fun p => let rr := snd p in
                    r_erased rr || negb (opt_eqb (r_parent rr) (Some o)) || mem (fst p) (o_regions x))
          (PM.elements (s_regions s)).

Fixpoint prevs_b (s : state) (prev : option uid) (l : list uid) : bool :=
  match l with
  | [] => true
  | u :: r => match PM.find u (s_uses s) with
              | Some ur => opt_eqb (u_prev ur) prev
              | None => false end && prevs_b s (Some u) r
  end.

Definition znth_is (l : list positive) (i : Z) (x : positive) : bool :=
  match znth l i with Some y => Pos.eqb y x | None => false end.

Definition use_chain_b (s : state) (fl : nat) (sel_items : op_rec -> list positive)
           (sel_uses : op_rec -> list uid) (self : positive) (first_use : option uid) : bool :=
  match chain_b (use_next s) fl first_use with
  | Some l =>
      nodup_b l && prevs_b s None l &&
      forallb (fun u => match PM.find u (s_uses s) with
                        | Some ur =>
                            match PM.find (u_op ur) (s_ops s) with
                            | Some x => negb (o_erased x) &&
                                        znth_is (sel_items x) (u_idx ur) self &&
                                        znth_is (sel_uses x) (u_idx ur) u
                            | None => false
                            end
                        | None => false
                        end) l
  | None => false
  end.

Fixpoint slots_b (s : state) (fl : nat) (o : oid) (i : Z) (items : list positive) (uses : list uid)
         (first_use_of : positive -> option (option uid)) : bool :=
  match items, uses with
  | [], [] => true
  | item :: ri, u :: ru =>
      match PM.find u (s_uses s) with
      | Some ur => Pos.eqb (u_op ur) o && (u_idx ur =? i)
      | None => false
      end &&
      match first_use_of item with
      | Some fu => match chain_b (use_next s) fl fu with
                   | Some l => mem u l
                   | None => false
                   end
      | None => false
      end &&
      slots_b s fl o (i + 1) ri ru first_use_of
  | _, _ => false
  end.

Fixpoint indexed_b (s : state) (mk : Z -> vkind) (i : Z) (l : list vid) : bool :=
  match l with
  | [] => true
  | v :: r => match PM.find v (s_values s) with
              | Some vr => kind_eqb (v_kind vr) (mk i)
              | None => false
              end && indexed_b s mk (i + 1) r
  end.

Definition wfb_owner (s : state) (v : vid) (vr : value_rec) : bool :=
  if v_dead vr then true else
  match v_kind vr with
  | KRes o i => match PM.find o (s_ops s) with
                | Some x => znth_is (o_results x) i v
                | None => false end
  | KArg b i => match PM.find b (s_blocks s) with
                | Some br => znth_is (b_args br) i v
                | None => false end
  | KErased _ => true
  end.

Definition below_b {R} (tbl : PM.t R) (n : positive) : bool :=
  forallb (fun p => Pos.ltb (fst p) n) (PM.elements tbl).

Definition wf_b (s : state) : bool :=
  let fl := fuel_of s in
  forallb (fun p => wfb_block s fl (fst p) (snd p)) (PM.elements (s_blocks s)) &&
  forallb (fun p => wfb_region s fl (fst p) (snd p)) (PM.elements (s_regions s)) &&
  forallb (fun p => wfb_opregs s (fst p) (snd p)) (PM.elements (s_ops s)) &&
  forallb (fun p => use_chain_b s fl o_operands o_operand_uses (fst p) (v_first_use (snd p)))
          (PM.elements (s_values s)) &&
  forallb (fun p => use_chain_b s fl o_successors o_successor_uses (fst p) (b_first_use (snd p)))
          (PM.elements (s_blocks s)) &&
  forallb (fun p => let x := snd p in
                    o_erased x ||
                    (slots_b s fl (fst p) 0 (o_operands x) (o_operand_uses x) (link (s_values s) v_first_use) &&
                     slots_b s fl (fst p) 0 (o_successors x) (o_successor_uses x) (link (s_blocks s) b_first_use) &&
                     indexed_b s (KRes (fst p)) 0 (o_results x)))
          (PM.elements (s_ops s)) &&
  forallb (fun p => b_erased (snd p) || indexed_b s (KArg (fst p)) 0 (b_args (snd p)))
          (PM.elements (s_blocks s)) &&
  forallb (fun p => wfb_owner s (fst p) (snd p)) (PM.elements (s_values s)) &&
  forallb (fun p => let x := snd p in
                    o_erased x || forallb (fun u => negb (mem u (o_successor_uses x))) (o_operand_uses x))
          (PM.elements (s_ops s)) &&
  forallb (fun p => let x := snd p in
                    o_erased x || is_some (o_parent x) || (negb (is_some (o_next x)) && negb (is_some (o_prev x))))
          (PM.elements (s_ops s)) &&
  forallb (fun p => let x := snd p in
                    b_erased x || is_some (b_parent x) || (negb (is_some (b_next x)) && negb (is_some (b_prev x))))
          (PM.elements (s_blocks s)) &&
  below_b (s_ops s) (n_op s) && below_b (s_blocks s) (n_block s) && below_b (s_regions s) (n_region s) &&
  below_b (s_values s) (n_value s) && below_b (s_uses s) (n_use s).
