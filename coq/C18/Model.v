(* C18/Model.v -- executable model of xdsl/utils/arg_spec.py (tree with the fix commits 433c5e1,
   fdc8560, c048b77: escaped string printing + \HH lexer alternative, exponent floats printed with
   a `.`, inf/-inf/nan accepted for float-typed options, string-literal errors reported as
   ArgSpecParseError; `print_value_old` / `convert_arg_old` keep the code before the fixes):
     ArgSpec.__str__ / _spec_parameter_type_str / _spec_parameter_list_type_str   (printer)
     _lexer_rules + PipelineLexer._generator                                       (lexer)
     parse_pipeline / _parse_spec / _parse_pass_parameters /
       _parse_parameter_value / _parse_parameter_value_element                    (parser)
     StringLiteral.bytes_contents / string_contents (xdsl/utils/mlir_lexer.py)     (unescape)
     _convert_arg_to_type / hints.isa (on the supported option types) /
       ArgSpecConvertible.from_spec / required_fields / spec                       (pass <-> ArgSpec)
     PassPipeline.parse_spec (xdsl/passes.py)
   Characters are Unicode code points (Z).  Floats are an abstract type F with the CPython
   oracles  fparse = float(text),  fstr = str(x),  feq = (==) on floats, ifeq = int == float.
   Definitions only; proofs live in C18/Proofs*.v. *)
From Coq Require Import ZArith List Bool.
Import ListNotations.
Local Open Scope Z_scope.

Definition cp := Z.
Definition str := list cp.

(* ------------------------------------------------------------------ *)
(* character classes of the ten regexes                                *)
Definition in_range (lo hi c : Z) : bool := (lo <=? c) && (c <=? hi).
Definition is_digit (c : cp) : bool := in_range 48 57 c.                       (* [0-9] *)
Definition is_alpha (c : cp) : bool := in_range 65 90 c || in_range 97 122 c.  (* [A-Za-z] *)
Definition is_ident1 (c : cp) : bool := is_alpha c || (c =? 95) || (c =? 45).  (* [A-Za-z_-] *)
Definition is_identch (c : cp) : bool := is_ident1 c || is_digit c.            (* [A-Za-z0-9_-] *)
(* \s of a str pattern: Py_UNICODE_ISSPACE *)
Definition is_space (c : cp) : bool :=
  in_range 9 13 c || in_range 28 32 c || (c =? 133) || (c =? 160) || (c =? 5760)
  || in_range 8192 8202 c || (c =? 8232) || (c =? 8233) || (c =? 8239) || (c =? 8287)
  || (c =? 12288).
Definition is_ctl (c : cp) : bool := (c =? 10) || (c =? 12) || (c =? 11) || (c =? 13). (* \n\f\v\r *)
Definition is_strch (c : cp) : bool := negb (is_ctl c || (c =? 34) || (c =? 92)). (* [^\n\f\v\r DQ \\] *)
Definition is_mlch (c : cp) : bool := negb (is_ctl c || (c =? 93) || (c =? 92)).  (* [^\n\f\v\r\]\\] *)
Definition is_esc (c : cp) : bool :=                                            (* [nfvtr DQ \\] *)
  (c =? 110) || (c =? 102) || (c =? 118) || (c =? 116) || (c =? 114) || (c =? 34) || (c =? 92).
Definition is_hex (c : cp) : bool := is_digit c || in_range 97 102 c || in_range 65 70 c.
Definition is_surrogate (c : cp) : bool := in_range 55296 57343 c.

Fixpoint str_eqb (a b : str) : bool :=
  match a, b with
  | [], [] => true
  | x :: a', y :: b' => (x =? y) && str_eqb a' b'
  | _, _ => false
  end.
Fixpoint mem (c : cp) (s : str) : bool :=
  match s with [] => false | x :: r => (x =? c) || mem c r end.

(* ------------------------------------------------------------------ *)
(* the token regexes as deterministic recognisers: Some (matched, rest) = pattern.match  *)
Fixpoint span (p : cp -> bool) (l : str) : str * str :=
  match l with
  | [] => ([], [])
  | c :: r => if p c then let '(a, b) := span p r in (c :: a, b) else ([], l)
  end.

Definition rule := str -> option (str * str).

(* [0-9]+[A-Za-z_-]+[A-Za-z0-9_-]* *)
Definition rule_ident_digit : rule := fun s =>
  let '(ds, r1) := span is_digit s in
  match ds with
  | [] => None
  | _ => let '(al, r2) := span is_ident1 r1 in
         match al with
         | [] => None
         | _ => let '(tl, r3) := span is_identch r2 in Some (ds ++ al ++ tl, r3)
         end
  end.

(* [-+]? *)
Definition opt_sign (s : str) : str * str :=
  match s with
  | c :: r => if (c =? 45) || (c =? 43) then ([c], r) else ([], s)
  | [] => ([], [])
  end.
(* ([eE][-+]?[0-9]+)? *)
Definition opt_exponent (s : str) : str * str :=
  match s with
  | c :: r =>
      if (c =? 101) || (c =? 69) then
        let '(sg, r1) := opt_sign r in
        let '(ds, r2) := span is_digit r1 in
        match ds with [] => ([], s) | _ => (c :: sg ++ ds, r2) end
      else ([], s)
  | [] => ([], [])
  end.
(* (\.[0-9]*([eE][-+]?[0-9]+)?)? *)
Definition opt_fraction (s : str) : str * str :=
  match s with
  | c :: r =>
      if c =? 46 then
        let '(fs, r1) := span is_digit r in
        let '(ex, r2) := opt_exponent r1 in (c :: fs ++ ex, r2)
      else ([], s)
  | [] => ([], [])
  end.
(* [-+]?[0-9]+(\.[0-9]*([eE][-+]?[0-9]+)?)? *)
Definition rule_number : rule := fun s =>
  let '(sg, r0) := opt_sign s in
  let '(ds, r1) := span is_digit r0 in
  match ds with
  | [] => None
  | _ => let '(fr, r2) := opt_fraction r1 in Some (sg ++ ds ++ fr, r2)
  end.

(* [A-Za-z0-9_-]+   and   \s+ *)
Definition rule_plus (p : cp -> bool) : rule := fun s =>
  let '(a, r) := span p s in match a with [] => None | _ => Some (a, r) end.

(* (\\[nfvtr DQ \\]|\\[0-9a-fA-F]{2}|ordinary)*close  -- the body of a string literal (DQ = double
   quote; with the \HH alternative, hexesc = true) and of [...] (without it).  The alternatives are
   tried in this order by `re`; taking \f as the first alternative or \fH as the second leads to the
   same position, so the choice is deterministic. *)
Fixpoint lit_body (hexesc : bool) (close : cp) (ordinary : cp -> bool) (s : str) : option (str * str) :=
  match s with
  | [] => None
  | c :: r =>
      if c =? close then Some ([c], r)
      else if c =? 92 then
        match r with
        | e :: r' =>
            if is_esc e then
              match lit_body hexesc close ordinary r' with
              | Some (b, rest) => Some (c :: e :: b, rest)
              | None => None
              end
            else if hexesc then
              match r' with
              | h :: r'' =>
                  if is_hex e && is_hex h then
                    match lit_body hexesc close ordinary r'' with
                    | Some (b, rest) => Some (c :: e :: h :: b, rest)
                    | None => None
                    end
                  else None
              | [] => None
              end
            else None
        | [] => None
        end
      else if ordinary c then
        match lit_body hexesc close ordinary r with
        | Some (b, rest) => Some (c :: b, rest)
        | None => None
        end
      else None
  end.
Definition rule_delimited (hexesc : bool) (open close : cp) (ordinary : cp -> bool) : rule := fun s =>
  match s with
  | c :: r =>
      if c =? open then
        match lit_body hexesc close ordinary r with
        | Some (b, rest) => Some (c :: b, rest)
        | None => None
        end
      else None
  | [] => None
  end.
Definition rule_char (x : cp) : rule := fun s =>
  match s with c :: r => if c =? x then Some ([c], r) else None | [] => None end.

Inductive kind := KIdent | KLBrace | KRBrace | KEquals | KNumber | KSpace | KString | KMlir | KComma.

(* _lexer_rules, in source order *)
Definition lexer_rules : list (rule * kind) :=
  [ (rule_ident_digit, KIdent);
    (rule_number, KNumber);
    (rule_plus is_identch, KIdent);
    (rule_delimited true 34 34 is_strch, KString);
    (rule_delimited false 91 93 is_mlch, KMlir);
    (rule_char 123, KLBrace);
    (rule_char 125, KRBrace);
    (rule_char 61, KEquals);
    (rule_plus is_space, KSpace);
    (rule_char 44, KComma) ].

(* for pattern, kind in _lexer_rules: if (match := pattern.match(input_str, pos)) is not None: ... break *)
Fixpoint first_rule (rules : list (rule * kind)) (s : str) : option (kind * str * str) :=
  match rules with
  | [] => None
  | (r, k) :: more =>
      match r s with
      | Some (t, rest) => Some (k, t, rest)
      | None => first_rule more s
      end
  end.
Definition next_token (s : str) : option (kind * str * str) := first_rule lexer_rules s.

(* The token stream of PipelineLexer._generator.  The generator is lazy: an "Unknown token"
   ArgSpecParseError is raised only when the parser asks for that token, so the error is a
   stream element (TLexErr), after which nothing follows.  TFuel: model fuel exhausted. *)
Inductive tok := T (k : kind) (text : str) | TEOF | TLexErr | TFuel.

Fixpoint lex_all (fuel : nat) (s : str) : list tok :=
  match fuel with
  | O => [TFuel]
  | S f =>
      match next_token s with
      | None => [TLexErr]
      | Some (k, t, rest) =>
          T k t :: match rest with [] => [TEOF] | _ => lex_all f rest end   (* if pos >= end: yield EOF *)
      end
  end.
Definition lex (s : str) : list tok :=
  match s with [] => [TEOF] | _ => lex_all (length s) s end.

(* ------------------------------------------------------------------ *)
(* results: every exception kind the real code can raise is a constructor *)
Inductive err :=
  | EArgSpec      (* xdsl.utils.exceptions.ArgSpecParseError *)
  | EValue        (* ValueError: int() of more than 4300 digits; option errors of from_spec *)
  | EInternal     (* StopIteration/RuntimeError (reading past EOF), AssertionError *)
  | EFuel.        (* model fuel exhausted *)
Inductive res (A : Type) := Ok (a : A) | Err (e : err).
Arguments Ok {A} a.
Arguments Err {A} e.

Definition hexval (c : cp) : Z :=
  if is_digit c then c - 48 else if in_range 97 102 c then c - 87 else c - 55.

(* StringLiteral.bytes_contents on text[1:-1]: the bytearray as a list of items, a code point whose
   UTF-8 encoding is appended (text between escapes, known escapes, \HH below 0x80) or a raw byte
   >= 0x80 from \HH.  None = ParseError (incomplete / invalid escape) or UnicodeEncodeError (lone
   surrogate in the text). *)
Inductive item := Chr (c : cp) | Raw (b : Z).
Fixpoint unescape_items (s : str) : option (list item) :=
  match s with
  | [] => Some []
  | c :: r =>
      if c =? 92 then
        match r with
        | [] => None                                        (* Incomplete escape sequence *)
        | e :: r' =>
            let known (x : cp) :=
              match unescape_items r' with Some t => Some (Chr x :: t) | None => None end in
            if e =? 110 then known 10
            else if e =? 116 then known 9
            else if e =? 92 then known 92
            else if e =? 34 then known 34
            else
              match r' with
              | h :: r'' =>
                  if is_hex e && is_hex h then
                    let b := 16 * hexval e + hexval h in
                    match unescape_items r'' with
                    | Some t => Some ((if b <? 128 then Chr b else Raw b) :: t)
                    | None => None
                    end
                  else None                                 (* Invalid escape sequence *)
              | [] => None
              end
        end
      else if is_surrogate c then None
      else match unescape_items r with Some t => Some (Chr c :: t) | None => None end
  end.

(* bytes.decode() (strict UTF-8).  The encoding of a Chr item is a complete sequence starting with
   an ASCII or lead byte, so raw bytes must form well-formed sequences among themselves
   (Unicode Table 3-7: no overlong forms, no surrogates, nothing above U+10FFFF). *)
Definition cont (b : Z) : bool := in_range 128 191 b.
Fixpoint decode_items (l : list item) : option str :=
  match l with
  | [] => Some []
  | Chr c :: r => match decode_items r with Some t => Some (c :: t) | None => None end
  | Raw b0 :: r =>
      if in_range 194 223 b0 then
        match r with
        | Raw b1 :: r1 =>
            if cont b1 then
              match decode_items r1 with
              | Some t => Some (((b0 - 192) * 64 + (b1 - 128)) :: t)
              | None => None
              end
            else None
        | _ => None
        end
      else if in_range 224 239 b0 then
        match r with
        | Raw b1 :: Raw b2 :: r2 =>
            if in_range (if b0 =? 224 then 160 else 128) (if b0 =? 237 then 159 else 191) b1 && cont b2 then
              match decode_items r2 with
              | Some t => Some (((b0 - 224) * 4096 + (b1 - 128) * 64 + (b2 - 128)) :: t)
              | None => None
              end
            else None
        | _ => None
        end
      else if in_range 240 244 b0 then
        match r with
        | Raw b1 :: Raw b2 :: Raw b3 :: r3 =>
            if in_range (if b0 =? 240 then 144 else 128) (if b0 =? 244 then 143 else 191) b1
               && cont b2 && cont b3 then
              match decode_items r3 with
              | Some t => Some (((b0 - 240) * 262144 + (b1 - 128) * 4096 + (b2 - 128) * 64 + (b3 - 128)) :: t)
              | None => None
              end
            else None
        | _ => None
        end
      else None
  end.

(* str_token.string_contents inside `try ... except (ParseError, UnicodeError)`: every failure is
   re-raised as ArgSpecParseError *)
Definition unescape (s : str) : res str :=
  match unescape_items s with
  | None => Err EArgSpec
  | Some items => match decode_items items with Some t => Ok t | None => Err EArgSpec end
  end.

(* Python int(text) for text = [-+]?[0-9]+ *)
Definition digits_value (ds : str) : Z := fold_left (fun a d => 10 * a + (d - 48)) ds 0.
Definition max_str_digits : Z := 4300.          (* sys.get_int_max_str_digits() default *)
Definition parse_int (t : str) : res Z :=
  let '(sg, ds) := opt_sign t in
  if max_str_digits <? Z.of_nat (length ds) then Err EValue
  else Ok (match sg with [45] => - digits_value ds | _ => digits_value ds end).

(* Python str(int) *)
Fixpoint digits_fuel (fuel : nat) (n : Z) (acc : str) : str :=
  match fuel with
  | O => acc
  | S f => let acc' := (48 + n mod 10) :: acc in
           if n <? 10 then acc' else digits_fuel f (n / 10) acc'
  end.
Definition print_nat (n : Z) : str := digits_fuel (S (Z.to_nat (Z.log2 n))) n [].
Definition print_int (z : Z) : str := if z <? 0 then 45 :: print_nat (- z) else print_nat z.

Definition s_inf : str := [105; 110; 102].
Definition s_neg_inf : str := [45; 105; 110; 102].
Definition s_nan : str := [110; 97; 110].
Definition is_non_finite_text (s : str) : bool := str_eqb s s_inf || str_eqb s s_neg_inf || str_eqb s s_nan.

(* _STRING_ESCAPES *)
Definition esc_char (c : cp) : str :=
  if c =? 92 then [92; 92]
  else if c =? 34 then [92; 34]
  else if c =? 10 then [92; 110]
  else if c =? 13 then [92; 48; 68]
  else if c =? 12 then [92; 48; 67]
  else if c =? 11 then [92; 48; 66]
  else [c].
Definition escape_str (s : str) : str := flat_map esc_char s.
(* text.replace("e", ".0e") if "." not in text else text *)
Definition float_text (t : str) : str :=
  if mem 46 t then t else flat_map (fun c => if c =? 101 then [46; 48; 101] else [c]) t.

Definition s_true : str := [116; 114; 117; 101].
Definition s_false : str := [102; 97; 108; 115; 101].
Definition s_mlir_opt : str := [109; 108; 105; 114; 45; 111; 112; 116].
Definition s_arguments : str := [97; 114; 103; 117; 109; 101; 110; 116; 115].
(* "--mlir-print-op-generic", "--allow-unregistered-dialect", "-p", "builtin.module(" *)
Definition s_print_generic : str :=
  [45;45;109;108;105;114;45;112;114;105;110;116;45;111;112;45;103;101;110;101;114;105;99].
Definition s_allow_unreg : str :=
  [45;45;97;108;108;111;119;45;117;110;114;101;103;105;115;116;101;114;101;100;45;100;105;97;108;101;99;116].
Definition s_dash_p : str := [45; 112].
Definition s_builtin_module : str := [98;117;105;108;116;105;110;46;109;111;100;117;108;101;40].

Definition dict (V : Type) := list (str * V).
Fixpoint dict_mem {V} (d : dict V) (k : str) : bool :=
  match d with [] => false | (k', _) :: r => str_eqb k k' || dict_mem r k end.
Fixpoint dict_get {V} (d : dict V) (k : str) : option V :=
  match d with [] => None | (k', v) :: r => if str_eqb k k' then Some v else dict_get r k end.
Fixpoint dict_del {V} (d : dict V) (k : str) : dict V :=
  match d with [] => [] | (k', v) :: r => if str_eqb k k' then r else (k', v) :: dict_del r k end.
(* d[k] = v : an existing key keeps its position *)
Fixpoint dict_set {V} (d : dict V) (k : str) (v : V) : dict V :=
  match d with
  | [] => [(k, v)]
  | (k', v') :: r => if str_eqb k k' then (k', v) :: r else (k', v') :: dict_set r k v
  end.

Fixpoint join (sep : str) (l : list str) : str :=
  match l with
  | [] => []
  | [x] => x
  | x :: r => x ++ sep ++ join sep r
  end.

Section Oracle.
  Variable F : Type.
  Variable fparse : str -> F.       (* float(text) for a NUMBER token containing '.' *)
  Variable fstr : F -> str.         (* str(x) *)
  Variable feq : F -> F -> bool.    (* x == y on floats *)
  Variable ifeq : Z -> F -> bool.   (* n == x, n an int *)

  (* ParameterType = str | int | bool | float *)
  Inductive value := VBool (b : bool) | VInt (z : Z) | VFloat (f : F) | VStr (s : str).
  (* ArgSpec(name, parameters) *)
  Definition spec := (str * dict (list value))%type.

  (* ---------------- printer ---------------- *)
  Definition print_value (v : value) : str :=
    match v with
    | VBool b => if b then s_true else s_false      (* str(arg).lower() *)
    | VStr s => 34 :: escape_str s ++ [34]
    | VInt z => print_int z
    | VFloat f => float_text (fstr f)
    end.
  (* the printer before the fixes 433c5e1 / fdc8560 (recorded refutations only) *)
  Definition print_value_old (v : value) : str :=
    match v with
    | VBool b => if b then s_true else s_false
    | VStr s => 34 :: s ++ [34]                     (* f'DQ{arg}DQ' *)
    | VInt z => print_int z
    | VFloat f => fstr f
    end.
  Definition print_param_with (pv : value -> str) (p : str * list value) : str :=
    match snd p with
    | [] => fst p
    | vs => fst p ++ 61 :: join [44] (map pv vs)
    end.
  Definition print_spec_with (pv : value -> str) (sp : spec) : str :=
    match snd sp with
    | [] => fst sp
    | ps => fst sp ++ 123 :: join [32] (map (print_param_with pv) ps) ++ [125]
    end.
  Definition print_param := print_param_with print_value.
  Definition print_spec := print_spec_with print_value.
  Definition print_spec_old := print_spec_with print_value_old.
  (* ",".join(str(p.pipeline_pass_spec()) for p in pipeline)   (xdsl/interactive/app.py) *)
  Definition print_pipeline (l : list spec) : str := join [44] (map print_spec l).

  (* ---------------- parser ---------------- *)
  (* lexer.peek(): the generator raises at a TLexErr; next() after EOF is StopIteration *)
  Definition peek (toks : list tok) : res tok :=
    match toks with
    | [] => Err EInternal
    | TLexErr :: _ => Err EArgSpec
    | TFuel :: _ => Err EFuel
    | t :: _ => Ok t
    end.

  (* _parse_parameter_value_element, given the token returned by lexer.lex() *)
  Definition value_of_token (t : tok) : res value :=
    match t with
    | T KString text =>
        match unescape (removelast (tl text)) with
        | Ok s => Ok (VStr s)
        | Err e => Err e
        end
    | T KNumber text =>
        if mem 46 text then Ok (VFloat (fparse text))
        else match parse_int text with Ok z => Ok (VInt z) | Err e => Err e end
    | T KIdent text =>
        if str_eqb text s_true then Ok (VBool true)
        else if str_eqb text s_false then Ok (VBool false)
        else Ok (VStr text)
    | _ => Err EArgSpec
    end.

  (* _parse_parameter_value: value (`,` value)* *)
  Fixpoint parse_values (toks : list tok) : res (list value * list tok) :=
    match peek toks with
    | Err e => Err e
    | Ok t =>
        match value_of_token t with
        | Err e => Err e
        | Ok v =>
            match toks with
            | _ :: rest =>
                match peek rest with
                | Err e => Err e
                | Ok (T KComma _) =>
                    match rest with
                    | _ :: rest' =>
                        match parse_values rest' with
                        | Ok (vs, out) => Ok (v :: vs, out)
                        | Err e => Err e
                        end
                    | [] => Err EInternal
                    end
                | Ok _ => Ok ([v], rest)
                end
            | [] => Err EInternal
            end
        end
    end.

  (* _parse_pass_parameters (the leading `{` already consumed) *)
  Fixpoint parse_params (fuel : nat) (args : dict (list value)) (toks : list tok)
    : res (dict (list value) * list tok) :=
    match fuel with
    | O => Err EFuel
    | S f =>
        match peek toks with
        | Err e => Err e
        | Ok (T KRBrace _) => Ok (args, tl toks)
        | Ok (T KIdent name) =>
            let toks1 := tl toks in
            match peek toks1 with
            | Err e => Err e
            | Ok (T KSpace _) => parse_params f (dict_set args name []) (tl toks1)
            | Ok (T KRBrace _) => Ok (dict_set args name [], tl toks1)
            | Ok (T KEquals _) =>
                match parse_values (tl toks1) with
                | Err e => Err e
                | Ok (vs, toks2) =>
                    let args' := dict_set args name vs in
                    match peek toks2 with
                    | Err e => Err e
                    | Ok (T KSpace _) => parse_params f args' (tl toks2)
                    | Ok (T KRBrace _) => Ok (args', tl toks2)
                    | Ok _ => Err EArgSpec
                    end
                end
            | Ok _ => Err EArgSpec
            end
        | Ok _ => Err EArgSpec
        end
    end.

  (* _parse_spec *)
  Definition parse_spec (fuel : nat) (toks : list tok) : res (spec * list tok) :=
    match peek toks with
    | Err e => Err e
    | Ok (T KIdent name) =>
        let toks1 := tl toks in
        match peek toks1 with
        | Err e => Err e
        | Ok TEOF => Ok ((name, []), toks1)
        | Ok (T KComma _) => Ok ((name, []), toks1)
        | Ok (T KLBrace _) =>
            match parse_params fuel [] (tl toks1) with
            | Ok (ps, out) => Ok ((name, ps), out)
            | Err e => Err e
            end
        | Ok (T KMlir text) =>
            if str_eqb name s_mlir_opt then
              Ok ((s_mlir_opt,
                   [(s_arguments,
                     [VStr s_print_generic; VStr s_allow_unreg; VStr s_dash_p;
                      VStr (s_builtin_module ++ removelast (tl text) ++ [41])])]),
                  tl toks1)
            else Err EArgSpec
        | Ok _ => Err EArgSpec
        end
    | Ok _ => Err EArgSpec
    end.

  (* parse_pipeline, consumed by tuple(...) *)
  Fixpoint parse_pipeline_toks (fuel : nat) (toks : list tok) : res (list spec) :=
    match fuel with
    | O => Err EFuel
    | S f =>
        match peek toks with
        | Err e => Err e
        | Ok TEOF => Ok []
        | Ok _ =>
            match parse_spec (length toks) toks with
            | Err e => Err e
            | Ok (sp, toks1) =>
                match peek toks1 with
                | Err e => Err e
                | Ok TEOF => Ok [sp]
                | Ok (T KComma _) =>
                    match parse_pipeline_toks f (tl toks1) with
                    | Ok l => Ok (sp :: l)
                    | Err e => Err e
                    end
                | Ok _ => Err EArgSpec
                end
            end
        end
    end.
  Definition parse_pipeline (s : str) : res (list spec) :=
    let toks := lex s in parse_pipeline_toks (length toks) toks.

  (* ---------------- option types, from_spec / spec ---------------- *)
  (* the supported field types; TyLit = typing.Literal[...] of strings; unions are flattened
     (typing.get_args) *)
  Inductive ty :=
    | TyInt | TyFloat | TyBool | TyStr | TyNone
    | TyLit (opts : list str)
    | TyTupleVar (elem : ty)            (* tuple[t, ...] *)
    | TyTupleFix (elems : list ty)      (* tuple[t1, ..., tn] *)
    | TyUnion (alts : list ty).
  (* a field value: None, one ParameterType, or a flat tuple of them *)
  Inductive pval := PNone | PScalar (v : value) | PTuple (vs : list value).

  (* hints.isa(arg, hint) for a scalar arg *)
  Fixpoint isa_scalar (v : value) (t : ty) : bool :=
    match t with
    | TyInt => match v with VInt _ | VBool _ => true | _ => false end   (* bool is a subclass of int *)
    | TyFloat => match v with VFloat _ => true | _ => false end
    | TyBool => match v with VBool _ => true | _ => false end
    | TyStr => match v with VStr _ => true | _ => false end
    | TyNone => false
    | TyLit opts => match v with VStr s => existsb (str_eqb s) opts | _ => false end
    | TyTupleVar _ | TyTupleFix _ => false
    | TyUnion alts => (fix any (l : list ty) : bool :=
                         match l with [] => false | a :: r => isa_scalar v a || any r end) alts
    end.
  Fixpoint all2 {A B} (f : A -> B -> bool) (l : list A) (m : list B) : bool :=
    match l, m with
    | [], [] => true
    | a :: l', b :: m' => f a b && all2 f l' m'
    | _, _ => false
    end.
  (* hints.isa(arg, hint) for a tuple arg *)
  Fixpoint isa_tuple (vs : list value) (t : ty) : bool :=
    match t with
    | TyTupleVar e => forallb (fun v => isa_scalar v e) vs
    | TyTupleFix es => all2 isa_scalar vs es
    | TyUnion alts => (fix any (l : list ty) : bool :=
                         match l with [] => false | a :: r => isa_tuple vs a || any r end) alts
    | _ => false
    end.
  Definition is_none_ty (t : ty) : bool := match t with TyNone => true | _ => false end.

  (* _convert_arg_to_type before fdc8560 = the part of it before the non-finite fallback *)
  Definition convert_arg_old (value : list value) (t : ty) : res pval :=
    match t, value with
    | TyUnion alts, [] => if existsb is_none_ty alts then Ok PNone else Err EValue
    | _, _ =>
        match value with
        | [v] => if isa_scalar v t then Ok (PScalar v)
                 else if isa_tuple value t then Ok (PTuple value) else Err EValue
        | _ => if isa_tuple value t then Ok (PTuple value) else Err EValue
        end
    end.
  (* _convert_arg_to_type: when nothing fits and some value is the string inf/-inf/nan, those
     strings are replaced by float(...) and the conversion is tried again (once: no such string
     is left afterwards) *)
  Definition non_finite_str (v : value) : bool :=
    match v with VStr s => is_non_finite_text s | _ => false end.
  Definition as_float (v : value) : value :=
    match v with VStr s => if is_non_finite_text s then VFloat (fparse s) else v | _ => v end.
  Definition convert_arg (value : list value) (t : ty) : res pval :=
    match convert_arg_old value t with
    | Ok v => Ok v
    | Err e =>
        match t, value with
        | TyUnion _, [] => Err e
        | _, _ => if existsb non_finite_str value then convert_arg_old (map as_float value) t else Err e
        end
    end.

  (* dataclasses.Field: name, resolved type, default (None = MISSING; default_factory() value) *)
  Record field := { fname : str; fty : ty; fdefault : option pval }.
  Record pass_class := { cname : str; cfields : list field }.   (* init fields, not called "name" *)

  Definition is_optional (f : field) : bool :=
    match fty f with TyUnion alts => existsb is_none_ty alts | _ => false end
    || match fdefault f with Some _ => true | None => false end.
  Definition get_default (f : field) : pval :=
    match fdefault f with Some d => d | None => PNone end.

  (* Python == on option values *)
  Definition num_of_bool (b : bool) : Z := if b then 1 else 0.
  Definition value_eq (a b : value) : bool :=
    match a, b with
    | VStr s, VStr t => str_eqb s t
    | VStr _, _ | _, VStr _ => false
    | VFloat x, VFloat y => feq x y
    | VFloat x, VInt n | VInt n, VFloat x => ifeq n x
    | VFloat x, VBool c | VBool c, VFloat x => ifeq (num_of_bool c) x
    | VInt m, VInt n => m =? n
    | VInt m, VBool c | VBool c, VInt m => m =? num_of_bool c
    | VBool c, VBool d => Bool.eqb c d
    end.
  Definition pval_eq (a b : pval) : bool :=
    match a, b with
    | PNone, PNone => true
    | PScalar x, PScalar y => value_eq x y
    | PTuple l, PTuple m => all2 value_eq l m
    | _, _ => false
    end.

  Definition arg_list (v : pval) : list value :=
    match v with PNone => [] | PScalar x => [x] | PTuple l => l end.

  (* ArgSpecConvertible.spec(include_default=False): fields zipped with the instance's values *)
  Fixpoint spec_args (fs : list field) (vals : list pval) : dict (list value) :=
    match fs, vals with
    | f :: fs', v :: vals' =>
        if is_optional f && pval_eq v (get_default f) then spec_args fs' vals'
        else (fname f, arg_list v) :: spec_args fs' vals'
    | _, _ => []
    end.
  Definition pass_spec (c : pass_class) (vals : list pval) : spec := (cname c, spec_args (cfields c) vals).

  (* normalize_parameter_names: k.replace("-", "_"), rebuilt with d[k2] = v *)
  Definition normalize_name (k : str) : str := map (fun c => if c =? 45 then 95 else c) k.
  Fixpoint normalize_params (d acc : dict (list value)) : dict (list value) :=
    match d with
    | [] => acc
    | (k, v) :: r => normalize_params r (dict_set acc (normalize_name k) v)
    end.

  Fixpoint from_spec_fields (fs : list field) (d : dict (list value)) : res (list pval * dict (list value)) :=
    match fs with
    | [] => Ok ([], d)
    | f :: fs' =>
        match dict_get d (fname f) with
        | None =>
            if is_optional f then
              match from_spec_fields fs' d with
              | Ok (l, d') => Ok (get_default f :: l, d')
              | Err e => Err e
              end
            else Err EValue                                   (* requires argument *)
        | Some a =>
            match convert_arg a (fty f) with
            | Err e => Err e
            | Ok v =>
                match from_spec_fields fs' (dict_del d (fname f)) with
                | Ok (l, d') => Ok (v :: l, d')
                | Err e => Err e
                end
            end
        end
    end.
  (* ArgSpecConvertible.from_spec = ModulePass.from_pass_spec *)
  Definition from_spec (c : pass_class) (sp : spec) : res (list pval) :=
    if negb (str_eqb (fst sp) (cname c)) then Err EValue      (* Spec name mismatch *)
    else
      match from_spec_fields (cfields c) (normalize_params (snd sp) []) with
      | Err e => Err e
      | Ok (l, []) => Ok l
      | Ok (_, _ :: _) => Err EValue                          (* Provided arguments not found *)
      end.

  (* PassPipeline.parse_spec(available_passes, spec) *)
  Fixpoint find_class (reg : list pass_class) (n : str) : option pass_class :=
    match reg with [] => None | c :: r => if str_eqb n (cname c) then Some c else find_class r n end.
  Fixpoint instantiate_all (reg : list pass_class) (l : list spec) : res (list (str * list pval)) :=
    match l with
    | [] => Ok []
    | sp :: r =>
        match find_class reg (fst sp) with
        | None => Err EValue                                  (* Unrecognized passes *)
        | Some c =>
            match from_spec c sp with
            | Err e => Err e
            | Ok vals =>
                match instantiate_all reg r with
                | Ok out => Ok ((cname c, vals) :: out)
                | Err e => Err e
                end
            end
        end
    end.
  Definition pipeline_from_text (reg : list pass_class) (s : str) : res (list (str * list pval)) :=
    match parse_pipeline s with
    | Err e => Err e
    | Ok specs =>
        if forallb (fun sp => match find_class reg (fst sp) with Some _ => true | None => false end) specs
        then instantiate_all reg specs else Err EValue
    end.
End Oracle.

Arguments VBool {F} b.
Arguments VInt {F} z.
Arguments VFloat {F} f.
Arguments VStr {F} s.
Arguments PNone {F}.
Arguments PScalar {F} v.
Arguments PTuple {F} vs.
