(* C18/ProofsLex.v -- the lexer: every rule consumes a non-empty prefix, the fuel of lex_all
   suffices, a fuel-free characterisation `lexed`, and one lemma per kind of printed token
   (identifier, NUMBER, string literal, punctuation, single space) giving the token the lexer
   produces at the head of `text ++ rest`. *)
From Coq Require Import ZArith List Bool Lia.
From XV Require Import C18.Model.
Import ListNotations.
Local Open Scope Z_scope.

Ltac list_eq := cbn [app]; repeat rewrite <- app_assoc; cbn [app]; repeat rewrite <- app_assoc; reflexivity.

(* ------------------------------------------------------------------ *)
(* span                                                                *)
Lemma span_app_eq : forall p l a b, span p l = (a, b) -> l = a ++ b.
Proof.
  induction l as [|c r IH]; intros a b H; cbn in H.
  - inversion H; reflexivity.
  - destruct (p c).
    + destruct (span p r) as [a' b'] eqn:E. inversion H; subst. cbn. f_equal. apply IH. reflexivity.
    + inversion H; reflexivity.
Qed.

Lemma span_all : forall p l a b, span p l = (a, b) -> forallb p a = true.
Proof.
  induction l as [|c r IH]; intros a b H; cbn in H.
  - inversion H; reflexivity.
  - destruct (p c) eqn:Ec.
    + destruct (span p r) as [a' b'] eqn:E. inversion H; subst. cbn. rewrite Ec. cbn. eapply IH; reflexivity.
    + inversion H; reflexivity.
Qed.

Definition stops (p : cp -> bool) (r : str) : Prop :=
  match r with [] => True | c :: _ => p c = false end.

Lemma span_stops : forall p l a b, span p l = (a, b) -> stops p b.
Proof.
  induction l as [|c r IH]; intros a b H; cbn in H.
  - inversion H; exact I.
  - destruct (p c) eqn:Ec.
    + destruct (span p r) as [a' b'] eqn:E. inversion H; subst. eapply IH; reflexivity.
    + inversion H; subst. exact Ec.
Qed.

Lemma span_ext : forall p a r, forallb p a = true -> stops p r -> span p (a ++ r) = (a, r).
Proof.
  induction a as [|c a IH]; intros r Ha Hr; cbn.
  - destruct r as [|x r']; [reflexivity|]. cbn in Hr. cbn. rewrite Hr. reflexivity.
  - cbn in Ha. apply andb_true_iff in Ha as [Hc Ha]. rewrite Hc. rewrite (IH r Ha Hr). reflexivity.
Qed.

(* extension: what `span` finds in s it also finds in s ++ r, provided r does not continue the run *)
Lemma span_app_ext : forall p s r a b, span p s = (a, b) -> stops p r -> span p (s ++ r) = (a, b ++ r).
Proof.
  induction s as [|c s IH]; intros r a b H Hr; cbn in H.
  - inversion H; subst. cbn. destruct r as [|x r']; [reflexivity|]. cbn in Hr. cbn. rewrite Hr. reflexivity.
  - cbn. destruct (p c) eqn:Ec.
    + destruct (span p s) as [a' b'] eqn:E. inversion H; subst. rewrite (IH r a' b eq_refl Hr). reflexivity.
    + inversion H; subst. reflexivity.
Qed.

Lemma span_nil_head : forall p c r, p c = false -> span p (c :: r) = ([], c :: r).
Proof. intros p c r H. cbn. rewrite H. reflexivity. Qed.

(* ------------------------------------------------------------------ *)
(* every rule consumes a non-empty prefix of its input                 *)
Definition consumes (f : rule) : Prop :=
  forall s t r, f s = Some (t, r) -> s = t ++ r /\ t <> [].

Lemma opt_sign_eq : forall s a b, opt_sign s = (a, b) -> s = a ++ b.
Proof.
  intros [|c r] a b H; cbn in H.
  - inversion H; reflexivity.
  - destruct ((c =? 45) || (c =? 43)); inversion H; reflexivity.
Qed.

Lemma opt_exponent_eq : forall s a b, opt_exponent s = (a, b) -> s = a ++ b.
Proof.
  intros [|c r] a b H; cbn in H.
  - inversion H; reflexivity.
  - destruct ((c =? 101) || (c =? 69)).
    + destruct (opt_sign r) as [sg r1] eqn:E1. destruct (span is_digit r1) as [ds r2] eqn:E2.
      destruct ds as [|d ds].
      * inversion H; reflexivity.
      * inversion H; subst. apply opt_sign_eq in E1. apply span_app_eq in E2. subst.
        list_eq.
    + inversion H; reflexivity.
Qed.

Lemma opt_fraction_eq : forall s a b, opt_fraction s = (a, b) -> s = a ++ b.
Proof.
  intros [|c r] a b H; cbn in H.
  - inversion H; reflexivity.
  - destruct (c =? 46).
    + destruct (span is_digit r) as [fs r1] eqn:E1. destruct (opt_exponent r1) as [ex r2] eqn:E2.
      inversion H; subst. apply span_app_eq in E1. apply opt_exponent_eq in E2. subst.
      list_eq.
    + inversion H; reflexivity.
Qed.

Lemma consumes_ident_digit : consumes rule_ident_digit.
Proof.
  intros s t r H. unfold rule_ident_digit in H.
  destruct (span is_digit s) as [ds r1] eqn:E1. destruct ds as [|d ds]; [discriminate|].
  destruct (span is_ident1 r1) as [al r2] eqn:E2. destruct al as [|x al]; [discriminate|].
  destruct (span is_identch r2) as [tl r3] eqn:E3. inversion H; subst.
  apply span_app_eq in E1, E2, E3. subst. split; [|discriminate].
  list_eq.
Qed.

Lemma consumes_number : consumes rule_number.
Proof.
  intros s t r H. unfold rule_number in H.
  destruct (opt_sign s) as [sg r0] eqn:E0. destruct (span is_digit r0) as [ds r1] eqn:E1.
  destruct ds as [|d ds]; [discriminate|]. destruct (opt_fraction r1) as [fr r2] eqn:E2.
  inversion H; subst. apply opt_sign_eq in E0. apply span_app_eq in E1. apply opt_fraction_eq in E2. subst.
  split.
  - list_eq.
  - destruct sg; discriminate.
Qed.

Lemma consumes_plus : forall p, consumes (rule_plus p).
Proof.
  intros p s t r H. unfold rule_plus in H. destruct (span p s) as [a b] eqn:E.
  destruct a as [|x a]; [discriminate|]. inversion H; subst. apply span_app_eq in E. split; [exact E|discriminate].
Qed.

Lemma lit_body_eq_n : forall hx close ord n s b rest, (length s <= n)%nat ->
  lit_body hx close ord s = Some (b, rest) -> s = b ++ rest /\ b <> [].
Proof.
  intros hx close ord. induction n as [|n IH]; intros s b rest Hn H; destruct s as [|c r]; cbn in H; try discriminate.
  - cbn in Hn. lia.
  - cbn in Hn. destruct (c =? close).
    + inversion H; subst. split; [reflexivity|discriminate].
    + destruct (c =? 92).
      * destruct r as [|e r']; [discriminate|]. cbn in Hn. destruct (is_esc e).
        -- destruct (lit_body hx close ord r') as [[b' rest']|] eqn:E; [|discriminate].
           inversion H; subst. apply IH in E as [E _]; [|lia]. subst. split; [reflexivity|discriminate].
        -- destruct hx; [|discriminate]. destruct r' as [|h r'']; [discriminate|]. cbn in Hn.
           destruct (is_hex e && is_hex h); [|discriminate].
           destruct (lit_body true close ord r'') as [[b' rest']|] eqn:E; [|discriminate].
           inversion H; subst. apply IH in E as [E _]; [|lia]. subst. split; [reflexivity|discriminate].
      * destruct (ord c); [|discriminate].
        destruct (lit_body hx close ord r) as [[b' rest']|] eqn:E; [|discriminate].
        inversion H; subst. apply IH in E as [E _]; [|lia]. subst. split; [reflexivity|discriminate].
Qed.
Lemma lit_body_eq : forall hx close ord s b rest, lit_body hx close ord s = Some (b, rest) -> s = b ++ rest /\ b <> [].
Proof. intros hx close ord s b rest H. eapply lit_body_eq_n; [apply le_n|exact H]. Qed.

Lemma consumes_delimited : forall hx o c p, consumes (rule_delimited hx o c p).
Proof.
  intros hx o c p s t r H. unfold rule_delimited in H. destruct s as [|x s]; [discriminate|].
  destruct (x =? o); [|discriminate]. destruct (lit_body hx c p s) as [[b rest]|] eqn:E; [|discriminate].
  inversion H; subst. apply lit_body_eq in E as [E _]. subst. split; [reflexivity|discriminate].
Qed.

Lemma consumes_char : forall x, consumes (rule_char x).
Proof.
  intros x s t r H. unfold rule_char in H. destruct s as [|c s]; [discriminate|].
  destruct (c =? x); [|discriminate]. inversion H; subst. split; [reflexivity|discriminate].
Qed.

Lemma first_rule_consumes : forall rules s k t r,
  Forall (fun rk => consumes (fst rk)) rules -> first_rule rules s = Some (k, t, r) -> s = t ++ r /\ t <> [].
Proof.
  induction rules as [|[f k0] more IH]; intros s k t r HF H; cbn in H; [discriminate|].
  inversion HF as [|? ? Hf HF']; subst. destruct (f s) as [[t0 r0]|] eqn:E.
  - inversion H; subst. exact (Hf _ _ _ E).
  - eapply IH; eassumption.
Qed.

Lemma next_token_consumes : forall s k t r, next_token s = Some (k, t, r) -> s = t ++ r /\ t <> [].
Proof.
  intros s k t r H. eapply first_rule_consumes; [|exact H].
  unfold lexer_rules.
  repeat (apply Forall_cons; [cbn [fst];
    first [apply consumes_ident_digit | apply consumes_number | apply consumes_plus
          | apply consumes_delimited | apply consumes_char]|]).
  apply Forall_nil.
Qed.

Lemma next_token_shorter : forall s k t r, next_token s = Some (k, t, r) -> (length r < length s)%nat.
Proof.
  intros s k t r H. apply next_token_consumes in H as [E Ht]. subst. rewrite app_length.
  destruct t; [congruence|cbn; lia].
Qed.

(* ------------------------------------------------------------------ *)
(* fuel-free characterisation of the token stream                      *)
Inductive lexed : str -> list tok -> Prop :=
  | lexed_nil : lexed [] [TEOF]
  | lexed_err : forall s, s <> [] -> next_token s = None -> lexed s [TLexErr]
  | lexed_cons : forall s k t r l, next_token s = Some (k, t, r) -> lexed r l -> lexed s (T k t :: l).

Lemma lex_all_lexed : forall f s, s <> [] -> (length s <= f)%nat -> lexed s (lex_all f s).
Proof.
  induction f as [|f IH]; intros s Hs Hf.
  - destruct s; [congruence|cbn in Hf; lia].
  - cbn [lex_all]. destruct (next_token s) as [[[k t] r]|] eqn:E.
    + eapply lexed_cons; [exact E|]. destruct r as [|c r'].
      * constructor.
      * apply IH; [discriminate|]. apply next_token_shorter in E. lia.
    + apply lexed_err; assumption.
Qed.

Lemma lexed_lex : forall s, lexed s (lex s).
Proof.
  intros [|c s]; [constructor|]. unfold lex. apply lex_all_lexed; [discriminate|lia].
Qed.

Lemma lexed_fun : forall s l1, lexed s l1 -> forall l2, lexed s l2 -> l1 = l2.
Proof.
  induction 1 as [|s Hs Hn|s k t r l Hn Hl IH]; intros l2 H2; inversion H2; subst; try congruence.
  - cbn in H; discriminate.
  - cbn in Hn; discriminate.
  - rewrite Hn in H. inversion H; subst. f_equal. apply IH. assumption.
Qed.

Lemma lexed_is_lex : forall s l, lexed s l -> lex s = l.
Proof. intros s l H. eapply lexed_fun; [apply lexed_lex|exact H]. Qed.

(* the model fuel is never exhausted; the stream ends with EOF or the lexical error and has
   no such marker before its end *)
Definition terminal (t : tok) : bool := match t with T _ _ => false | _ => true end.
Inductive well_terminated : list tok -> Prop :=
  | wt_eof : well_terminated [TEOF]
  | wt_err : well_terminated [TLexErr]
  | wt_cons : forall k t l, well_terminated l -> well_terminated (T k t :: l).

Lemma lexed_wt : forall s l, lexed s l -> well_terminated l.
Proof. induction 1; constructor; assumption. Qed.

Lemma lex_well_terminated : forall s, well_terminated (lex s).
Proof. intros s. eapply lexed_wt, lexed_lex. Qed.

(* the tokens partition the input *)
Fixpoint toks_text (l : list tok) : str :=
  match l with T _ t :: r => t ++ toks_text r | _ => [] end.
Lemma lexed_partition : forall s l, lexed s l -> last l TEOF = TEOF -> toks_text l = s.
Proof.
  induction 1 as [|s Hs Hn|s k t r l Hn Hl IH]; intros Hlast; cbn.
  - reflexivity.
  - cbn in Hlast. discriminate.
  - apply next_token_consumes in Hn as [E _]. subst. f_equal. apply IH.
    destruct l; [inversion Hl|exact Hlast].
Qed.

(* ------------------------------------------------------------------ *)
(* character facts                                                     *)
Lemma digit_identch : forall c, is_digit c = true -> is_identch c = true.
Proof. intros c H. unfold is_identch. rewrite H. apply orb_true_r. Qed.
Lemma ident1_identch : forall c, is_ident1 c = true -> is_identch c = true.
Proof. intros c H. unfold is_identch. rewrite H. reflexivity. Qed.
Lemma identch_cases : forall c, is_identch c = true -> is_digit c = false -> is_ident1 c = true.
Proof. intros c H D. unfold is_identch in H. rewrite D, orb_false_r in H. exact H. Qed.
Lemma ident1_not_digit : forall c, is_ident1 c = true -> is_digit c = false.
Proof.
  intros c H. unfold is_ident1, is_alpha, is_digit, in_range in *.
  destruct (48 <=? c) eqn:A, (c <=? 57) eqn:B; try reflexivity. exfalso.
  apply Z.leb_le in A, B.
  repeat rewrite orb_true_iff in H. repeat rewrite andb_true_iff in H.
  repeat rewrite Z.leb_le in H. repeat rewrite Z.eqb_eq in H. lia.
Qed.

Lemma forallb_app_iff : forall {A} (p : A -> bool) a b, forallb p (a ++ b) = true <-> forallb p a = true /\ forallb p b = true.
Proof. intros A p a b. rewrite forallb_app, andb_true_iff. reflexivity. Qed.

(* ------------------------------------------------------------------ *)
(* identifiers: pass names, option names, true/false                    *)
(* the text lexes as ONE IDENT token: identifier characters only, and either it starts with a
   digit and is not all digits (rule 1), or it starts with a non-digit and is not a `-` followed
   by a digit (which rule 2 would read as a NUMBER) *)
Definition name_okb (t : str) : bool :=
  forallb is_identch t &&
  match t with
  | [] => false
  | c :: r =>
      if is_digit c then negb (forallb is_digit r)
      else if c =? 45 then match r with d :: _ => negb (is_digit d) | [] => true end
      else true
  end.

Lemma span_digit_not_all : forall t r, forallb is_identch t = true -> forallb is_digit t = false ->
  exists ds x t', t = ds ++ x :: t' /\ forallb is_digit ds = true /\ is_digit x = false
                  /\ span is_digit (t ++ r) = (ds, x :: t' ++ r).
Proof.
  induction t as [|c t IH]; intros r Hi Hd; cbn in Hd; [discriminate|].
  cbn in Hi. apply andb_true_iff in Hi as [Hc Hi].
  destruct (is_digit c) eqn:Ec.
  - cbn in Hd. destruct (IH r Hi Hd) as (ds & x & t' & E & Hds & Hx & Hs). subst.
    exists (c :: ds), x, t'. repeat split; try assumption.
    + cbn. rewrite Ec, Hds. reflexivity.
    + cbn. rewrite Ec. cbn in Hs. rewrite Hs. reflexivity.
  - exists [], c, t. repeat split; try assumption. cbn. rewrite Ec. reflexivity.
Qed.

Lemma span_sub : forall (p q : cp -> bool) u r, (forall c, p c = true -> q c = true) ->
  forallb q u = true -> stops q r -> exists a b, u = a ++ b /\ span p (u ++ r) = (a, b ++ r).
Proof.
  intros p q u r Hpq. induction u as [|z u IH]; intros Hu Hr.
  - exists [], []. split; [reflexivity|]. cbn. destruct r as [|x r']; [reflexivity|].
    cbn in Hr. cbn. destruct (p x) eqn:E; [apply Hpq in E; congruence|reflexivity].
  - cbn in Hu. apply andb_true_iff in Hu as [Hz Hu]. destruct (IH Hu Hr) as (a & b & E & Hs).
    cbn [app span]. destruct (p z) eqn:Ez.
    + exists (z :: a), b. rewrite Hs. subst. split; reflexivity.
    + exists [], (z :: u). split; reflexivity.
Qed.

Lemma rule1_name : forall c t r, is_digit c = true -> forallb is_identch t = true ->
  forallb is_digit t = false -> stops is_identch r ->
  rule_ident_digit ((c :: t) ++ r) = Some (c :: t, r).
Proof.
  intros c t r Hc Hi Hd Hr.
  destruct (span_digit_not_all t r Hi Hd) as (ds & x & t' & E & Hds & Hx & Hs). subst t.
  unfold rule_ident_digit. cbn [app span]. rewrite Hc. rewrite Hs.
  apply forallb_app_iff in Hi as [_ Hi]. cbn in Hi. apply andb_true_iff in Hi as [Hxi Hi].
  assert (Hx1 : is_ident1 x = true) by (apply identch_cases; assumption).
  destruct (span_sub is_ident1 is_identch t' r ident1_identch Hi Hr) as (a & b & E & Hs2).
  cbn [span]. rewrite Hx1, Hs2. subst t'. apply forallb_app_iff in Hi as [_ Hb].
  rewrite (span_ext is_identch b r Hb Hr). reflexivity.
Qed.

Lemma rule1_nondigit : forall c s, is_digit c = false -> rule_ident_digit (c :: s) = None.
Proof. intros c s H. unfold rule_ident_digit. cbn. rewrite H. reflexivity. Qed.

Lemma rule2_nondigit : forall c s, is_digit c = false -> (c =? 45) || (c =? 43) = false -> rule_number (c :: s) = None.
Proof. intros c s H Hs. unfold rule_number. cbn. rewrite Hs. cbn. rewrite H. reflexivity. Qed.

Lemma next_token_ident : forall t r, name_okb t = true -> stops is_identch r ->
  next_token (t ++ r) = Some (KIdent, t, r).
Proof.
  intros t r Hn Hr. unfold name_okb in Hn. apply andb_true_iff in Hn as [Hi Hn].
  destruct t as [|c t]; [discriminate|]. cbn in Hi. apply andb_true_iff in Hi as [Hc Hi].
  unfold next_token, lexer_rules. cbn [first_rule].
  destruct (is_digit c) eqn:Ed.
  - apply negb_true_iff in Hn. rewrite (rule1_name c t r Ed Hi Hn Hr). reflexivity.
  - cbn [app]. rewrite (rule1_nondigit c (t ++ r) Ed).
    assert (Hplus : rule_plus is_identch (c :: t ++ r) = Some (c :: t, r)).
    { unfold rule_plus. change (c :: t ++ r) with ((c :: t) ++ r).
      rewrite (span_ext is_identch (c :: t) r); [reflexivity| |exact Hr]. cbn. rewrite Hc. exact Hi. }
    destruct (c =? 45) eqn:E45.
    + (* `-`: rule 2 takes the sign, then needs a digit *)
      assert (Hnum : rule_number (c :: t ++ r) = None).
      { unfold rule_number. cbn [opt_sign]. rewrite E45. cbn [orb].
        destruct t as [|d t].
        - cbn [app]. destruct r as [|q r']; [reflexivity|]. cbn in Hr.
          cbn [span]. destruct (is_digit q) eqn:Eq; [apply digit_identch in Eq; congruence|reflexivity].
        - cbn [app span]. apply negb_true_iff in Hn. rewrite Hn. reflexivity. }
      rewrite Hnum, Hplus. reflexivity.
    + assert (H43 : c =? 43 = false).
      { destruct (c =? 43) eqn:E; [|reflexivity]. apply Z.eqb_eq in E. subst. discriminate. }
      rewrite (rule2_nondigit c (t ++ r) Ed) by (rewrite E45, H43; reflexivity).
      rewrite Hplus. reflexivity.
Qed.

(* ------------------------------------------------------------------ *)
(* NUMBER tokens                                                       *)
(* a character that may follow a printed number: not an identifier character, not `.`, not `+` *)
Definition num_stop (c : cp) : bool := negb (is_identch c || (c =? 46) || (c =? 43)).
Definition stops_num (r : str) : Prop := match r with [] => True | c :: _ => num_stop c = true end.

Lemma num_stop_facts : forall c, num_stop c = true ->
  is_digit c = false /\ is_identch c = false /\ (c =? 46) = false /\ (c =? 43) = false /\ (c =? 45) = false
  /\ (c =? 101) = false /\ (c =? 69) = false /\ is_ident1 c = false.
Proof.
  intros c H. unfold num_stop in H. apply negb_true_iff in H.
  apply orb_false_iff in H as [H H43]. apply orb_false_iff in H as [Hi H46].
  assert (Hd : is_digit c = false).
  { destruct (is_digit c) eqn:E; [apply digit_identch in E; congruence|reflexivity]. }
  assert (H1 : is_ident1 c = false).
  { destruct (is_ident1 c) eqn:E; [apply ident1_identch in E; congruence|reflexivity]. }
  repeat split; try assumption.
  - destruct (c =? 45) eqn:E; [|reflexivity]. apply Z.eqb_eq in E. subst. discriminate.
  - destruct (c =? 101) eqn:E; [|reflexivity]. apply Z.eqb_eq in E. subst. discriminate.
  - destruct (c =? 69) eqn:E; [|reflexivity]. apply Z.eqb_eq in E. subst. discriminate.
Qed.

Lemma stops_num_digit : forall r, stops_num r -> stops is_digit r.
Proof. intros [|c r] H; [exact I|]. cbn in *. apply num_stop_facts in H. tauto. Qed.

Lemma opt_sign_ext : forall s r a b, opt_sign s = (a, b) -> stops_num r -> opt_sign (s ++ r) = (a, b ++ r).
Proof.
  intros [|c s] r a b H Hr; cbn in H.
  - inversion H; subst. cbn. destruct r as [|q r']; [reflexivity|]. cbn in Hr.
    apply num_stop_facts in Hr as (_ & _ & _ & H43 & H45 & _). cbn. rewrite H45, H43. reflexivity.
  - cbn. destruct ((c =? 45) || (c =? 43)); inversion H; subst; reflexivity.
Qed.

Lemma opt_exponent_ext : forall s r a b, opt_exponent s = (a, b) -> stops_num r ->
  opt_exponent (s ++ r) = (a, b ++ r).
Proof.
  intros [|c s] r a b H Hr; cbn in H.
  - inversion H; subst. cbn. destruct r as [|q r']; [reflexivity|]. cbn in Hr.
    apply num_stop_facts in Hr as (_ & _ & _ & _ & _ & H101 & H69 & _). cbn. rewrite H101, H69. reflexivity.
  - cbn [app opt_exponent]. destruct ((c =? 101) || (c =? 69)).
    + destruct (opt_sign s) as [sg r1] eqn:E1. destruct (span is_digit r1) as [ds r2] eqn:E2.
      rewrite (opt_sign_ext s r sg r1 E1 Hr).
      rewrite (span_app_ext is_digit r1 r ds r2 E2 (stops_num_digit r Hr)).
      destruct ds; inversion H; subst; reflexivity.
    + inversion H; subst. reflexivity.
Qed.

Lemma opt_fraction_ext : forall s r a b, opt_fraction s = (a, b) -> stops_num r ->
  opt_fraction (s ++ r) = (a, b ++ r).
Proof.
  intros [|c s] r a b H Hr; cbn in H.
  - inversion H; subst. cbn. destruct r as [|q r']; [reflexivity|]. cbn in Hr.
    apply num_stop_facts in Hr as (_ & _ & H46 & _). cbn. rewrite H46. reflexivity.
  - cbn [app opt_fraction]. destruct (c =? 46).
    + destruct (span is_digit s) as [fs r1] eqn:E1. destruct (opt_exponent r1) as [ex r2] eqn:E2.
      rewrite (span_app_ext is_digit s r fs r1 E1 (stops_num_digit r Hr)).
      rewrite (opt_exponent_ext r1 r ex r2 E2 Hr). inversion H; subst. reflexivity.
    + inversion H; subst. reflexivity.
Qed.

Lemma rule_number_ext : forall s r t b, rule_number s = Some (t, b) -> stops_num r ->
  rule_number (s ++ r) = Some (t, b ++ r).
Proof.
  intros s r t b H Hr. unfold rule_number in *.
  destruct (opt_sign s) as [sg r0] eqn:E0. destruct (span is_digit r0) as [ds r1] eqn:E1.
  destruct ds as [|d ds]; [discriminate|]. destruct (opt_fraction r1) as [fr r2] eqn:E2.
  rewrite (opt_sign_ext s r sg r0 E0 Hr).
  rewrite (span_app_ext is_digit r0 r (d :: ds) r1 E1 (stops_num_digit r Hr)).
  rewrite (opt_fraction_ext r1 r fr r2 E2 Hr). inversion H; subst. reflexivity.
Qed.

(* the text is exactly one NUMBER: the regex matches all of it *)
Definition num_ok (t : str) : Prop := rule_number t = Some (t, []).

Lemma rule1_number : forall t r, num_ok t -> stops_num r -> rule_ident_digit (t ++ r) = None.
Proof.
  intros t r H Hr. unfold num_ok, rule_number in H.
  destruct (opt_sign t) as [sg r0] eqn:E0. destruct (span is_digit r0) as [ds r1] eqn:E1.
  destruct ds as [|d ds]; [discriminate|]. destruct (opt_fraction r1) as [fr r2] eqn:E2.
  injection H as _ Hr2. subst r2.
  destruct t as [|c t]; [cbn in E0; inversion E0; subst; cbn in E1; inversion E1|].
  cbn in E0. destruct ((c =? 45) || (c =? 43)) eqn:Es.
  - (* a sign is not a digit *)
    assert (Hd : is_digit c = false).
    { apply orb_true_iff in Es as [E|E]; apply Z.eqb_eq in E; subst; reflexivity. }
    cbn [app]. apply rule1_nondigit. exact Hd.
  - inversion E0; subst sg r0. unfold rule_ident_digit.
    rewrite (span_app_ext is_digit (c :: t) r (d :: ds) r1 E1 (stops_num_digit r Hr)).
    (* after the digits: `.`, or the end of the number *)
    destruct r1 as [|x r1'].
    + cbn [app]. destruct r as [|q r']; [reflexivity|]. cbn in Hr. apply num_stop_facts in Hr.
      cbn [span]. destruct Hr as (_ & _ & _ & _ & _ & _ & _ & H1). rewrite H1. reflexivity.
    + cbn in E2. destruct (x =? 46) eqn:E46.
      * apply Z.eqb_eq in E46. subst x. cbn [app span]. reflexivity.
      * inversion E2.
Qed.

Lemma next_token_number : forall t r, num_ok t -> stops_num r ->
  next_token (t ++ r) = Some (KNumber, t, r).
Proof.
  intros t r H Hr. unfold next_token, lexer_rules. cbn [first_rule].
  rewrite (rule1_number t r H Hr). rewrite (rule_number_ext t r t [] H Hr). reflexivity.
Qed.

(* ------------------------------------------------------------------ *)
(* string literals as the printer writes them: every character escaped by _STRING_ESCAPES *)
Lemma lit_body_escaped : forall s r,
  lit_body true 34 is_strch (escape_str s ++ 34 :: r) = Some (escape_str s ++ [34], r).
Proof.
  induction s as [|c s IH]; intros r; [reflexivity|].
  unfold escape_str in *. cbn [flat_map]. unfold esc_char at 1 3.
  destruct (c =? 92) eqn:E92; [apply Z.eqb_eq in E92; subst c; cbn; rewrite IH; reflexivity|].
  destruct (c =? 34) eqn:E34; [apply Z.eqb_eq in E34; subst c; cbn; rewrite IH; reflexivity|].
  destruct (c =? 10) eqn:E10; [apply Z.eqb_eq in E10; subst c; cbn; rewrite IH; reflexivity|].
  destruct (c =? 13) eqn:E13; [apply Z.eqb_eq in E13; subst c; cbn; rewrite IH; reflexivity|].
  destruct (c =? 12) eqn:E12; [apply Z.eqb_eq in E12; subst c; cbn; rewrite IH; reflexivity|].
  destruct (c =? 11) eqn:E11; [apply Z.eqb_eq in E11; subst c; cbn; rewrite IH; reflexivity|].
  cbn [app lit_body]. rewrite E34, E92. unfold is_strch, is_ctl. rewrite E10, E12, E11, E13, E34, E92.
  cbn [orb negb]. rewrite IH. reflexivity.
Qed.

Lemma next_token_string : forall s r,
  next_token (34 :: escape_str s ++ 34 :: r) = Some (KString, 34 :: escape_str s ++ [34], r).
Proof.
  intros s r. unfold next_token, lexer_rules. cbn [first_rule].
  rewrite rule1_nondigit by reflexivity. rewrite rule2_nondigit by reflexivity.
  unfold rule_plus at 1. cbn [span]. change (is_identch 34) with false. cbv iota beta.
  unfold rule_delimited at 1. change (34 =? 34) with true. cbv iota.
  rewrite (lit_body_escaped s r). reflexivity.
Qed.

(* ------------------------------------------------------------------ *)
(* punctuation and the single space                                    *)
Lemma next_token_lbrace : forall r, next_token (123 :: r) = Some (KLBrace, [123], r).
Proof. reflexivity. Qed.
Lemma next_token_rbrace : forall r, next_token (125 :: r) = Some (KRBrace, [125], r).
Proof. reflexivity. Qed.
Lemma next_token_equals : forall r, next_token (61 :: r) = Some (KEquals, [61], r).
Proof. reflexivity. Qed.
Lemma next_token_comma : forall r, next_token (44 :: r) = Some (KComma, [44], r).
Proof. reflexivity. Qed.
Lemma rule_plus_ext : forall p a r, forallb p a = true -> a <> [] -> stops p r ->
  rule_plus p (a ++ r) = Some (a, r).
Proof.
  intros p a r Ha Hne Hr. unfold rule_plus. rewrite (span_ext p a r Ha Hr).
  destruct a; [congruence|reflexivity].
Qed.
Lemma next_token_space : forall r, stops is_space r -> next_token (32 :: r) = Some (KSpace, [32], r).
Proof.
  intros r Hr.
  assert (Hsp : rule_plus is_space (32 :: r) = Some ([32], r)).
  { apply (rule_plus_ext is_space [32] r eq_refl); [discriminate|exact Hr]. }
  unfold next_token, lexer_rules. cbn [first_rule].
  rewrite rule1_nondigit by reflexivity. rewrite rule2_nondigit by reflexivity.
  replace (rule_plus is_identch (32 :: r)) with (@None (str * str)) by reflexivity.
  replace (rule_delimited true 34 34 is_strch (32 :: r)) with (@None (str * str)) by reflexivity.
  replace (rule_delimited false 91 93 is_mlch (32 :: r)) with (@None (str * str)) by reflexivity.
  replace (rule_char 123 (32 :: r)) with (@None (str * str)) by reflexivity.
  replace (rule_char 125 (32 :: r)) with (@None (str * str)) by reflexivity.
  replace (rule_char 61 (32 :: r)) with (@None (str * str)) by reflexivity.
  rewrite Hsp. reflexivity.
Qed.
