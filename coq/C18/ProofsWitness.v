(* C18/ProofsWitness.v -- concrete witnesses.
   (a) what still does not round-trip on the repaired code: a lone surrogate in a string, a
       non-finite float at the ArgSpec level (reads back as the string inf) and in a field whose
       type also accepts str, an empty tuple of an optional tuple field;
   (b) the recorded refutations of the code before the fixes (old printer, old conversion);
   (c) the hypotheses of the theorems are satisfiable (all escapes, exponent floats, UTF-8 escapes). *)
From Coq Require Import ZArith List Bool Lia.
From XV Require Import C18.Model C18.ProofsLex C18.ProofsParse C18.ProofsTotal C18.ProofsPass.
Import ListNotations.
Local Open Scope Z_scope.

(* only the names are constrained: the full-strength hypothesis of the property text *)
Definition spec_names_ok {F} (sp : spec F) : Prop :=
  name_okb (fst sp) = true /\ Forall (fun p => name_okb (fst p) = true) (snd sp) /\ NoDup (map fst (snd sp)).

Definition one_option {F} (v : value F) : spec F := ([112], [([97], [v])]).   (* p{a=<v>} *)

Lemma one_option_names : forall F (v : value F), spec_names_ok (one_option v).
Proof.
  intros F v. split; [reflexivity|]. split; [repeat constructor|]. repeat constructor. intros [].
Qed.

Definition t_1e22 : str := [49; 101; 43; 50; 50].            (* 1e+22 *)
Definition t_1_0e22 : str := [49; 46; 48; 101; 43; 50; 50].  (* 1.0e+22 *)
Definition t_1em05 : str := [49; 101; 45; 48; 53].           (* 1e-05 *)

Section W.
  Variable F : Type.
  Variable fparse : str -> F.
  Variable fstr : F -> str.

  (* ---------------- (a) still failing ---------------- *)
  (* a lone surrogate has no UTF-8 encoding: ArgSpecParseError *)
  Lemma surrogate_fails : parse_pipeline F fparse (print_spec F fstr (one_option (VStr [55296]))) = Err EArgSpec.
  Proof. vm_compute. reflexivity. Qed.
  Theorem roundtrip_refuted : exists sp : spec F, spec_names_ok sp /\
    parse_pipeline F fparse (print_spec F fstr sp) <> Ok [sp].
  Proof.
    exists (one_option (VStr [55296])). split; [apply one_option_names|]. rewrite surrogate_fails. discriminate.
  Qed.
  (* str(inf) = inf: an untyped ArgSpec value reads back as the string *)
  Lemma non_finite_reads_as_string : forall f, fstr f = s_inf ->
    parse_pipeline F fparse (print_spec F fstr (one_option (VFloat f))) = Ok [one_option (VStr s_inf)].
  Proof.
    intros f H. unfold one_option, print_spec, print_spec_with, print_param_with.
    cbn [fst snd map join print_value]. rewrite H. vm_compute. reflexivity.
  Qed.
  (* ... and stays a string when the field type also accepts str (float | str) *)
  Lemma non_finite_in_str_union :
    convert_arg F fparse [VStr s_inf] (TyUnion [TyFloat; TyStr]) = Ok (PScalar (VStr s_inf)).
  Proof. reflexivity. Qed.

  (* stencil-shape-minimize{restrict}: the empty tuple of `tuple[int, ...] | None` comes back as None *)
  Definition ty_opt_int_tuple : ty := TyUnion [TyTupleVar TyInt; TyNone].
  Lemma empty_tuple_becomes_none :
    isa_tuple F [] ty_opt_int_tuple = true
    /\ convert_arg F fparse (arg_list F (PTuple [])) ty_opt_int_tuple = Ok PNone.
  Proof. split; reflexivity. Qed.
  (* arith-add-fastmath{flags=`fast`}: the 1-tuple (`fast`,) comes back as the string *)
  Definition ty_lit_or_tuple : ty := TyUnion [TyLit [[102; 97; 115; 116]]; TyTupleVar TyStr].
  Lemma one_tuple_becomes_scalar :
    isa_tuple F [VStr [102; 97; 115; 116]] ty_lit_or_tuple = true
    /\ convert_arg F fparse (arg_list F (PTuple [VStr [102; 97; 115; 116]])) ty_lit_or_tuple
       = Ok (PScalar (VStr [102; 97; 115; 116])).
  Proof. split; reflexivity. Qed.
  Theorem convert_refuted : exists (t : ty) (v : pval F),
    (match v with PTuple l => isa_tuple F l t = true | _ => False end)
    /\ convert_arg F fparse (arg_list F v) t <> Ok v.
  Proof.
    exists ty_opt_int_tuple, (PTuple []). split; [reflexivity|]. cbn. discriminate.
  Qed.

  (* ---------------- (b) before the fixes ---------------- *)
  (* 433c5e1: p{a=`x`y`} and p{a=`b\s`} printed unescaped *)
  Lemma old_quote_fails :
    parse_pipeline F fparse (print_spec_old F fstr (one_option (VStr [120; 34; 121]))) = Err EArgSpec.
  Proof. vm_compute. reflexivity. Qed.
  Lemma old_backslash_fails :
    parse_pipeline F fparse (print_spec_old F fstr (one_option (VStr [98; 92; 115]))) = Err EArgSpec.
  Proof. vm_compute. reflexivity. Qed.
  (* fdc8560: str(1e22) = 1e+22 is IDENT 1e, NUMBER +22; str(1e-05) = 1e-05 is one IDENT *)
  Lemma old_float_exp_fails : forall f, fstr f = t_1e22 ->
    parse_pipeline F fparse (print_spec_old F fstr (one_option (VFloat f))) = Err EArgSpec.
  Proof.
    intros f H. unfold one_option, print_spec_old, print_spec_with, print_param_with.
    cbn [fst snd map join print_value_old]. rewrite H. vm_compute. reflexivity.
  Qed.
  Lemma old_float_small_is_string : forall f, fstr f = t_1em05 ->
    parse_pipeline F fparse (print_spec_old F fstr (one_option (VFloat f))) = Ok [one_option (VStr t_1em05)].
  Proof.
    intros f H. unfold one_option, print_spec_old, print_spec_with, print_param_with.
    cbn [fst snd map join print_value_old]. rewrite H. vm_compute. reflexivity.
  Qed.
  (* now: 1.0e+22 is one NUMBER with a `.` *)
  Lemma new_float_exp_ok : forall f, fstr f = t_1e22 -> fparse t_1_0e22 = f ->
    parse_pipeline F fparse (print_spec F fstr (one_option (VFloat f))) = Ok [one_option (VFloat f)].
  Proof.
    intros f H Hp. unfold one_option, print_spec, print_spec_with, print_param_with.
    cbn [fst snd map join print_value]. rewrite H. vm_compute. rewrite <- Hp. reflexivity.
  Qed.
  (* c048b77: p{a=`\r`} was an xdsl ParseError, now the pipeline parse error; \HH escapes decode as UTF-8 *)
  Lemma escape_r_is_argspec_error :
    parse_pipeline F fparse [112; 123; 97; 61; 34; 92; 114; 34; 125] = Err EArgSpec.
  Proof. vm_compute. reflexivity. Qed.
  Lemma hex_escapes_decode_utf8 :      (* p{a=`\c3\a9\e2\82\ac\41`} = e-acute, euro sign, A *)
    parse_pipeline F fparse
      [112; 123; 97; 61; 34; 92; 99; 51; 92; 97; 57; 92; 101; 50; 92; 56; 50; 92; 97; 99; 92; 52; 49; 34; 125]
    = Ok [one_option (VStr [233; 8364; 65])].
  Proof. vm_compute. reflexivity. Qed.
  Lemma overlong_rejected :             (* p{a=`\c0\80`} *)
    parse_pipeline F fparse [112; 123; 97; 61; 34; 92; 99; 48; 92; 56; 48; 34; 125] = Err EArgSpec.
  Proof. vm_compute. reflexivity. Qed.
End W.

(* ---------------- (c) satisfiability of the hypotheses (floats as their own str() text) ---------------- *)
Definition idf (s : str) : str := s.
Definition ex_fparse (t : str) : str := if str_eqb t t_1_0e22 then t_1e22 else t.
(* convert-x{n=-42 flags=true,<a string with quote, backslash, \n, \r, \f, \v, tab, e-acute>,1.5e+22,1e+22 e} *)
Definition ex_string : str := [97; 32; 34; 92; 10; 13; 12; 11; 9; 233; 128512].
Definition ex_spec : spec str :=
  ([99; 111; 110; 118; 101; 114; 116; 45; 120],
   [([110], [VInt (-42)]);
    ([102; 108; 97; 103; 115], [VBool true; VStr ex_string; VFloat [49; 46; 53; 101; 43; 50; 50]; VFloat t_1e22]);
    ([101], [])]).

Lemma ex_spec_ok : spec_ok str ex_fparse idf ex_spec.
Proof.
  split; [reflexivity|]. split.
  - repeat constructor; try reflexivity.
    cbn. unfold int_ok. vm_compute. discriminate.
  - cbn. repeat constructor; cbn; intuition discriminate.
Qed.

(* a pass class with a required tuple, an optional int left at its default and a defaulted string *)
Definition ex_class : pass_class str :=
  {| cname := [112];
     cfields := [ {| fname := [116]; fty := TyTupleVar TyInt; fdefault := None |};
                  {| fname := [111]; fty := TyUnion [TyInt; TyNone]; fdefault := Some PNone |};
                  {| fname := [115]; fty := TyStr; fdefault := Some (PScalar (VStr [100])) |} ] |}.
Definition ex_vals : list (pval str) := [PTuple [VInt 1; VInt 2]; PNone; PScalar (VStr [120; 34; 121])].

Lemma ex_class_ok : class_ok str ex_class /\ vals_ok str idf idf (cfields str ex_class) ex_vals.
Proof.
  split.
  - split; [reflexivity|]. split.
    + repeat constructor.
    + cbn. repeat constructor; cbn; intuition discriminate.
  - unfold vals_ok. cbn [cfields ex_class ex_vals].
    constructor; [|constructor; [|constructor; [|constructor]]].
    + split.
      * cbn. split; [reflexivity|]. split; [intros _; discriminate|]. intros x H; discriminate.
      * cbn. repeat constructor; unfold int_ok; vm_compute; discriminate.
    + split; [exists [TyInt; TyNone]; split; reflexivity|constructor].
    + split; [reflexivity|repeat constructor].
Qed.
