(* C18/ProofsPass.v -- from a pass instance to text and back:
   spec() -> str -> parse_pipeline -> from_spec (PassPipeline.parse_spec) returns the pass, field
   by field; a field whose value == its default is omitted from the text and comes back as the
   default.  Spec: `conv_ok` (which field values the text form can represent for a field type),
   `class_ok`, `vals_ok`, `rt_equal`. *)
From Coq Require Import ZArith List Bool Lia.
From XV Require Import C18.Model C18.ProofsLex C18.ProofsParse.
Import ListNotations.
Local Open Scope Z_scope.

Section Pass.
  Variable F : Type.
  Variable fparse : str -> F.
  Variable fstr : F -> str.
  Variable feq : F -> F -> bool.
  Variable ifeq : Z -> F -> bool.

  Notation value := (value F).
  Notation pval := (pval F).
  Notation field := (field F).
  Notation pass_class := (pass_class F).
  Notation spec_args := (spec_args F feq ifeq).
  Notation pass_spec := (pass_spec F feq ifeq).
  Notation pval_eq := (pval_eq F feq ifeq).
  Notation value_ok := (value_ok F fparse fstr).
  Notation spec_ok := (spec_ok F fparse fstr).

  Definition is_union (t : ty) : bool := match t with TyUnion _ => true | _ => false end.

  (* the field value is representable for the field type: it has the type, and it is not an empty
     tuple of a Union type (printed like None) nor a 1-tuple whose element alone has the type
     (printed like the element) *)
  Definition conv_ok (v : pval) (t : ty) : Prop :=
    match v with
    | PNone => exists alts, t = TyUnion alts /\ existsb is_none_ty alts = true
    | PScalar x => isa_scalar F x t = true
    | PTuple l => isa_tuple F l t = true /\ (is_union t = true -> l <> [])
                  /\ (forall x, l = [x] -> isa_scalar F x t = false)
    end.

  Lemma convert_old_ok : forall v t, conv_ok v t -> convert_arg_old F (arg_list F v) t = Ok v.
  Proof.
    intros [|x|l] t H; cbn [arg_list].
    - destruct H as (alts & -> & Hn). cbn. rewrite Hn. reflexivity.
    - cbn in H. unfold convert_arg_old. destruct t; rewrite H; reflexivity.
    - destruct H as (Ht & Hu & H1). unfold convert_arg_old. destruct l as [|x l].
      + destruct t; try (rewrite Ht; reflexivity). exfalso. apply (Hu eq_refl). reflexivity.
      + destruct l as [|y l].
        * rewrite (H1 x eq_refl). destruct t; rewrite Ht; reflexivity.
        * destruct t; rewrite Ht; reflexivity.
  Qed.
  Lemma convert_ok : forall v t, conv_ok v t -> convert_arg F fparse (arg_list F v) t = Ok v.
  Proof. intros v t H. unfold convert_arg. rewrite (convert_old_ok v t H). reflexivity. Qed.

  (* fdc8560: a non-finite float of a float-typed option is written inf/-inf/nan, read as that
     string, and converted by float(...) *)
  Lemma convert_non_finite : forall s, is_non_finite_text s = true ->
    convert_arg F fparse [VStr s] TyFloat = Ok (PScalar (VFloat (fparse s)))
    /\ convert_arg F fparse [VStr s] (TyUnion [TyFloat; TyNone]) = Ok (PScalar (VFloat (fparse s)))
    /\ convert_arg F fparse [VStr s] (TyTupleVar TyFloat) = Ok (PTuple [VFloat (fparse s)])
    /\ convert_arg_old F [VStr s] TyFloat = Err EValue.
  Proof.
    intros s H. unfold convert_arg, convert_arg_old. cbn. rewrite H. cbn. repeat split; reflexivity.
  Qed.

  (* option names are Python identifiers: they lex as IDENT and contain no `-` *)
  Definition field_name_ok (n : str) : Prop := name_okb n = true /\ mem 45 n = false.
  Definition class_ok (c : pass_class) : Prop :=
    name_okb (cname F c) = true
    /\ Forall (fun f => field_name_ok (fname F f)) (cfields F c)
    /\ NoDup (map (fname F) (cfields F c)).
  Definition vals_ok (fs : list field) (vals : list pval) : Prop :=
    Forall2 (fun f v => conv_ok v (fty F f) /\ Forall value_ok (arg_list F v)) fs vals.

  (* the result: field by field the same value, or the default when the value == the default *)
  Fixpoint rt_equal (fs : list field) (vals vals' : list pval) : Prop :=
    match fs, vals, vals' with
    | [], [], [] => True
    | f :: fs', v :: vs, v' :: vs' =>
        (v' = v \/ (pval_eq v (get_default F f) = true /\ v' = get_default F f)) /\ rt_equal fs' vs vs'
    | _, _, _ => False
    end.

  Lemma normalize_name_id : forall n, mem 45 n = false -> normalize_name n = n.
  Proof.
    unfold normalize_name. induction n as [|c n IH]; intros H; cbn [map mem] in *; [reflexivity|].
    apply orb_false_iff in H as [Hc H]. rewrite Hc. rewrite (IH H). reflexivity.
  Qed.

  Lemma spec_args_keys : forall fs vals k, In k (map fst (spec_args fs vals)) -> In k (map (fname F) fs).
  Proof.
    induction fs as [|f fs IH]; intros vals k H; destruct vals as [|v vals]; cbn in H; try contradiction.
    destruct (is_optional F f && pval_eq v (get_default F f)).
    - right. eapply IH. exact H.
    - cbn in H. destruct H as [<-|H]; [left; reflexivity|right; eapply IH; exact H].
  Qed.

  Lemma spec_args_nodup : forall fs vals, NoDup (map (fname F) fs) -> NoDup (map fst (spec_args fs vals)).
  Proof.
    induction fs as [|f fs IH]; intros vals Hnd; destruct vals as [|v vals]; cbn; try constructor.
    inversion Hnd as [|? ? Hnotin Hnd']; subst.
    destruct (is_optional F f && pval_eq v (get_default F f)).
    - apply IH. exact Hnd'.
    - cbn. constructor; [|apply IH; exact Hnd'].
      intros Hin. apply Hnotin. eapply spec_args_keys. exact Hin.
  Qed.

  Lemma normalize_params_id : forall (d acc : dict (list value)),
    Forall (fun p => mem 45 (fst p) = false) d -> NoDup (map fst acc ++ map fst d) ->
    normalize_params F d acc = acc ++ d.
  Proof.
    induction d as [|[k v] d IH]; intros acc Hd Hnd; cbn.
    - rewrite app_nil_r. reflexivity.
    - inversion Hd as [|? ? Hk Hd']; subst. cbn [fst] in Hk. rewrite (normalize_name_id k Hk).
      rewrite dict_set_fresh.
      + rewrite IH; [rewrite <- app_assoc; reflexivity|exact Hd'|].
        rewrite map_app. cbn [map fst]. rewrite <- app_assoc. exact Hnd.
      + intros Hin. cbn [map fst] in Hnd. apply NoDup_remove_2 in Hnd. apply Hnd.
        apply in_or_app. left. exact Hin.
  Qed.

  Lemma dict_get_absent : forall {V} (d : dict V) k, ~ In k (map fst d) -> dict_get d k = None.
  Proof.
    induction d as [|[k' v] d IH]; intros k H; cbn; [reflexivity|].
    cbn in H. rewrite str_eqb_neq by (intros E; apply H; left; congruence). apply IH. tauto.
  Qed.

  Lemma from_spec_fields_ok : forall fs vals, NoDup (map (fname F) fs) -> vals_ok fs vals ->
    exists vals', from_spec_fields F fparse fs (spec_args fs vals) = Ok (vals', []) /\ rt_equal fs vals vals'.
  Proof.
    induction fs as [|f fs IH]; intros vals Hnd Hok; inversion Hok as [|? v ? vs [Hc Hv] Hok']; subst.
    - exists []. split; reflexivity.
    - inversion Hnd as [|? ? Hnotin Hnd']; subst.
      destruct (IH vs Hnd' Hok') as (vals' & E & Hrt).
      cbn [spec_args]. destruct (is_optional F f && pval_eq v (get_default F f)) eqn:Eskip.
      + (* omitted: equal to the default *)
        apply andb_true_iff in Eskip as [Hopt Heq]. cbn [from_spec_fields].
        rewrite dict_get_absent by (intros Hin; apply Hnotin; eapply spec_args_keys; exact Hin).
        rewrite Hopt, E. exists (get_default F f :: vals'). split; [reflexivity|].
        cbn. split; [right; split; [exact Heq|reflexivity]|exact Hrt].
      + cbn [from_spec_fields dict_get]. rewrite str_eqb_refl. rewrite (convert_ok v (fty F f) Hc).
        cbn [dict_del]. rewrite str_eqb_refl. rewrite E.
        exists (v :: vals'). split; [reflexivity|]. cbn. split; [left; reflexivity|exact Hrt].
  Qed.

  Lemma spec_args_params_ok : forall fs vals, Forall (fun f => field_name_ok (fname F f)) fs -> vals_ok fs vals ->
    Forall (param_ok F fparse fstr) (spec_args fs vals)
    /\ Forall (fun p => mem 45 (fst p) = false) (spec_args fs vals).
  Proof.
    induction fs as [|f fs IH]; intros vals Hn Hok; inversion Hok as [|? v ? vs [Hc Hv] Hok']; subst; cbn.
    - split; constructor.
    - inversion Hn as [|? ? [Hn1 Hn2] Hn']; subst. destruct (IH vs Hn' Hok') as [A B].
      destruct (is_optional F f && pval_eq v (get_default F f)); [split; assumption|].
      split; constructor; try assumption. split; assumption.
  Qed.

  Lemma pass_spec_ok : forall c vals, class_ok c -> vals_ok (cfields F c) vals -> spec_ok (pass_spec c vals).
  Proof.
    intros c vals (Hn & Hf & Hnd) Hok. unfold pass_spec. split; [exact Hn|]. cbn [snd].
    split; [apply (spec_args_params_ok _ _ Hf Hok)|apply spec_args_nodup; exact Hnd].
  Qed.

  Lemma from_spec_pass_spec : forall c vals, class_ok c -> vals_ok (cfields F c) vals ->
    exists vals', from_spec F fparse c (pass_spec c vals) = Ok vals' /\ rt_equal (cfields F c) vals vals'.
  Proof.
    intros c vals (Hn & Hf & Hnd) Hok. unfold from_spec, pass_spec. cbn [fst snd].
    rewrite str_eqb_refl. cbn [negb].
    rewrite (normalize_params_id (spec_args (cfields F c) vals) []).
    - cbn [app]. destruct (from_spec_fields_ok (cfields F c) vals Hnd Hok) as (vals' & E & Hrt).
      rewrite E. exists vals'. split; [reflexivity|exact Hrt].
    - apply (spec_args_params_ok _ _ Hf Hok).
    - cbn [map app]. apply spec_args_nodup. exact Hnd.
  Qed.

  (* PassPipeline.parse_spec({c.name: c}, str(p.pipeline_pass_spec())) *)
  Theorem pass_roundtrip : forall c vals, class_ok c -> vals_ok (cfields F c) vals ->
    exists vals',
      pipeline_from_text F fparse [c] (print_spec F fstr (pass_spec c vals)) = Ok [(cname F c, vals')]
      /\ rt_equal (cfields F c) vals vals'.
  Proof.
    intros c vals Hc Hok. destruct (from_spec_pass_spec c vals Hc Hok) as (vals' & E & Hrt).
    exists vals'. split; [|exact Hrt]. unfold pipeline_from_text.
    rewrite (spec_roundtrip F fparse fstr _ (pass_spec_ok c vals Hc Hok)).
    cbn [forallb instantiate_all find_class fst pass_spec]. rewrite str_eqb_refl. cbn [andb].
    change (cname F c, spec_args (cfields F c) vals) with (pass_spec c vals). rewrite E. reflexivity.
  Qed.

  (* a pipeline of passes: every element is instantiated from its own spec, position by position
     (the same class may occur several times with different option values) *)
  Definition inst_ok (reg : list pass_class) (cv : pass_class * list pval) : Prop :=
    class_ok (fst cv) /\ vals_ok (cfields F (fst cv)) (snd cv)
    /\ find_class F reg (cname F (fst cv)) = Some (fst cv).
  Definition inst_spec (cv : pass_class * list pval) := pass_spec (fst cv) (snd cv).

  Lemma instantiate_all_ok : forall reg ps, Forall (inst_ok reg) ps ->
    forallb (fun sp => match find_class F reg (fst sp) with Some _ => true | None => false end)
            (map inst_spec ps) = true
    /\ exists out, instantiate_all F fparse reg (map inst_spec ps) = Ok out
         /\ Forall2 (fun cv o => fst o = cname F (fst cv) /\ rt_equal (cfields F (fst cv)) (snd cv) (snd o)) ps out.
  Proof.
    induction ps as [|[c vals] ps IH]; intros H.
    - split; [reflexivity|]. exists []. split; [reflexivity|constructor].
    - inversion H as [|? ? (Hc & Hv & Hf) H']; subst. cbn [fst snd] in *.
      destruct (IH H') as (Hall & out & E & Hrt).
      destruct (from_spec_pass_spec c vals Hc Hv) as (vals' & Efs & Hrt1).
      cbn [map forallb instantiate_all]. change (inst_spec (c, vals)) with (pass_spec c vals).
      change (fst (pass_spec c vals)) with (cname F c). rewrite Hf. split; [exact Hall|].
      rewrite Efs, E. exists ((cname F c, vals') :: out). split; [reflexivity|].
      constructor; [split; [reflexivity|exact Hrt1]|exact Hrt].
  Qed.

  Theorem pass_pipeline_roundtrip : forall reg ps, Forall (inst_ok reg) ps ->
    exists out,
      pipeline_from_text F fparse reg (print_pipeline F fstr (map inst_spec ps)) = Ok out
      /\ Forall2 (fun cv o => fst o = cname F (fst cv) /\ rt_equal (cfields F (fst cv)) (snd cv) (snd o)) ps out.
  Proof.
    intros reg ps H. destruct (instantiate_all_ok reg ps H) as (Hall & out & E & Hrt).
    exists out. split; [|exact Hrt]. unfold pipeline_from_text.
    rewrite (pipeline_roundtrip F fparse fstr (map inst_spec ps)).
    - rewrite Hall. exact E.
    - apply Forall_forall. intros sp Hin. apply in_map_iff in Hin as ([c vals] & <- & Hin).
      rewrite Forall_forall in H. destruct (H _ Hin) as (Hc & Hv & _). apply pass_spec_ok; assumption.
  Qed.
End Pass.
