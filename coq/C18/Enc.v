(* C18/Enc.v -- the executable float instance (IEEE-754 binary64 bit patterns with the CPython
   oracles float()/str() supplied as finite tables by the harness) and the encoders of model
   results into Base/Show.v `sx`.  No proofs. *)
From Coq Require Import ZArith List Bool.
From XV Require Import Base.Show C18.Model.
Import ListNotations.
Local Open Scope Z_scope.

(* ---------------- floats as bit patterns ---------------- *)
Fixpoint tab_get {V} (tab : list (str * V)) (k : str) : option V :=
  match tab with [] => None | (k', v) :: r => if str_eqb k k' then Some v else tab_get r k end.
Fixpoint ztab_get {V} (tab : list (Z * V)) (k : Z) : option V :=
  match tab with [] => None | (k', v) :: r => if k =? k' then Some v else ztab_get r k end.
(* float(text): looked up in the harness-supplied table; -1 marks a missing entry *)
Definition fparse_tab (tab : list (str * Z)) (t : str) : Z :=
  match tab_get tab t with Some b => b | None => -1 end.
(* str(x): looked up; "?" marks a missing entry *)
Definition fstr_tab (tab : list (Z * str)) (b : Z) : str :=
  match ztab_get tab b with Some t => t | None => [63] end.

Definition f_exp (b : Z) : Z := Z.land (Z.shiftr b 52) 2047.
Definition f_man (b : Z) : Z := Z.land b (2 ^ 52 - 1).
Definition f_neg (b : Z) : bool := Z.testbit b 63.
Definition f_nan (b : Z) : bool := (f_exp b =? 2047) && negb (f_man b =? 0).
Definition f_zero (b : Z) : bool := (f_exp b =? 0) && (f_man b =? 0).
(* IEEE == *)
Definition feq_bits (a b : Z) : bool :=
  if f_nan a || f_nan b then false else (a =? b) || (f_zero a && f_zero b).
(* Python int == float: exact comparison *)
Definition ifeq_bits (n b : Z) : bool :=
  if f_exp b =? 2047 then false
  else
    let m := if f_exp b =? 0 then f_man b else f_man b + 2 ^ 52 in
    let sm := if f_neg b then - m else m in
    let ex := (if f_exp b =? 0 then 1 else f_exp b) - 1075 in
    if 0 <=? ex then n =? sm * 2 ^ ex else n * 2 ^ (- ex) =? sm.

(* ---------------- encoders ---------------- *)
Definition kind_code (k : kind) : Z :=
  match k with
  | KIdent => 1 | KLBrace => 2 | KRBrace => 3 | KEquals => 4 | KNumber => 5
  | KSpace => 6 | KString => 7 | KMlir => 8 | KComma => 9
  end.
Definition enc_tok (t : tok) : sx :=
  match t with
  | T k s => L [I (kind_code k); sLZ s]
  | TEOF => L [I 100]
  | TLexErr => L [I 101]
  | TFuel => L [I 102]
  end.
Definition err_code (e : err) : Z :=
  match e with EArgSpec => 20 | EValue => 3 | EInternal => 30 | EFuel => 32 end.
Definition enc_res {A} (f : A -> sx) (r : res A) : sx :=
  match r with Ok a => L [I 0; f a] | Err e => L [I (-1); I (err_code e)] end.
Definition enc_value (v : value Z) : sx :=
  match v with
  | VBool b => L [I 0; sB b]
  | VInt z => L [I 1; I z]
  | VFloat f => L [I 2; I f]
  | VStr s => L [I 3; sLZ s]
  end.
Definition enc_spec (sp : spec Z) : sx :=
  L [sLZ (fst sp); L (map (fun p => L [sLZ (fst p); L (map enc_value (snd p))]) (snd sp))].
Definition enc_pval (v : pval Z) : sx :=
  match v with
  | PNone => L [I 0]
  | PScalar x => L [I 1; enc_value x]
  | PTuple l => L [I 2; L (map enc_value l)]
  end.

(* ---------------- case entry points ---------------- *)
(* family "rules": the i-th regex of _lexer_rules matched at position 0: match length or -1 *)
Definition c18_rule (i : nat) (s : str) : sx :=
  match nth_error lexer_rules i with
  | None => I (-2)
  | Some (r, _) => match r s with Some (t, _) => I (Z.of_nat (length t)) | None => I (-1) end
  end.
(* all ten rules at once *)
Definition c18_rules (s : str) : sx :=
  L (map (fun rk => match fst rk s with Some (t, _) => I (Z.of_nat (length t)) | None => I (-1) end)
         lexer_rules).
(* family "lexer": the token stream *)
Definition c18_lex (s : str) : sx := L (map enc_tok (lex s)).
(* family "parse": tuple(parse_pipeline(s)) *)
Definition c18_parse (tab : list (str * Z)) (s : str) : sx :=
  enc_res (fun l => L (map enc_spec l)) (parse_pipeline Z (fparse_tab tab) s).
(* family "print": str of a pipeline of ArgSpecs, then parsed back *)
Definition c18_print_parse (ptab : list (str * Z)) (stab : list (Z * str)) (l : list (spec Z)) : sx :=
  let text := print_pipeline Z (fstr_tab stab) l in
  L [sLZ text; enc_res (fun l => L (map enc_spec l)) (parse_pipeline Z (fparse_tab ptab) text)].
(* family "passes": str(p.pipeline_pass_spec()) and PassPipeline.parse_spec on it *)
Definition enc_inst (x : str * list (pval Z)) : sx := L [sLZ (fst x); L (map enc_pval (snd x))].
Definition c18_pass_rt (ptab : list (str * Z)) (stab : list (Z * str)) (c : pass_class Z)
           (vals : list (pval Z)) : sx :=
  let sp := pass_spec Z feq_bits ifeq_bits c vals in
  let text := print_spec Z (fstr_tab stab) sp in
  L [enc_spec sp; sLZ text;
     enc_res (fun l => L (map enc_inst l)) (pipeline_from_text Z (fparse_tab ptab) [c] text)].
(* family "from-text": PassPipeline.parse_spec(registry, text) for arbitrary text *)
Definition c18_from_text (ptab : list (str * Z)) (reg : list (pass_class Z)) (s : str) : sx :=
  enc_res (fun l => L (map enc_inst l)) (pipeline_from_text Z (fparse_tab ptab) reg s).

(* family "char-classes": class-membership bit mask of the n code points lo, lo+1, ... *)
Definition class_mask (c : Z) : Z :=
  (if is_digit c then 1 else 0) + (if is_ident1 c then 2 else 0) + (if is_identch c then 4 else 0)
  + (if is_space c then 8 else 0) + (if is_strch c then 16 else 0) + (if is_mlch c then 32 else 0)
  + (if is_esc c then 64 else 0) + (if is_hex c then 128 else 0) + (if is_surrogate c then 256 else 0).
Definition c18_class_sweep (lo n : Z) : sx :=
  L (map (fun i => I (class_mask (lo + Z.of_nat i))) (seq 0 (Z.to_nat n))).

(* the same sweep, run-length encoded: [(mask, how many consecutive code points)] *)
Fixpoint rle (l : list Z) : list (Z * Z) :=
  match l with
  | [] => []
  | x :: r =>
      match rle r with
      | (y, n) :: t => if x =? y then (y, n + 1) :: t else (x, 1) :: (y, n) :: t
      | [] => [(x, 1)]
      end
  end.
Fixpoint masks_from (fuel : nat) (c : Z) : list Z :=
  match fuel with O => [] | S f => class_mask c :: masks_from f (c + 1) end.
Definition c18_class_rle (lo n : Z) : sx :=
  L (map (fun p => L [I (fst p); I (snd p)]) (rle (masks_from (Z.to_nat n) lo))).

(* family "pipelines": ",".join(str(p.pipeline_pass_spec()) for p in passes) and
   PassPipeline.parse_spec(registry, text); `idx` selects the class of each pass in `reg` *)
Definition c18_pipeline_rt (ptab : list (str * Z)) (stab : list (Z * str)) (reg : list (pass_class Z))
           (ps : list (nat * list (pval Z))) : sx :=
  let specs := flat_map (fun iv => match nth_error reg (fst iv) with
                                   | Some c => [pass_spec Z feq_bits ifeq_bits c (snd iv)]
                                   | None => [] end) ps in
  let text := print_pipeline Z (fstr_tab stab) specs in
  L [sLZ text; enc_res (fun l => L (map enc_inst l)) (pipeline_from_text Z (fparse_tab ptab) reg text)].
