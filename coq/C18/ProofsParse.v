(* C18/ProofsParse.v -- printing then parsing an ArgSpec pipeline.
   Spec: `value_ok` / `spec_ok` (exactly which ArgSpecs are printable), stated on the model's
   printer and lexer classes.  Main results: spec_roundtrip, pipeline_roundtrip. *)
From Coq Require Import ZArith List Bool Lia.
From XV Require Import C18.Model C18.ProofsLex.
Import ListNotations.
Local Open Scope Z_scope.

(* ------------------------------------------------------------------ *)
(* strings                                                             *)
Lemma str_eqb_refl : forall a, str_eqb a a = true.
Proof. induction a as [|x a IH]; cbn; [reflexivity|]. rewrite Z.eqb_refl. exact IH. Qed.
Lemma str_eqb_eq : forall a b, str_eqb a b = true <-> a = b.
Proof.
  induction a as [|x a IH]; intros [|y b]; cbn; split; intros H; try reflexivity; try discriminate.
  - apply andb_true_iff in H as [H1 H2]. apply Z.eqb_eq in H1. apply IH in H2. subst. reflexivity.
  - inversion H; subst. rewrite Z.eqb_refl. apply str_eqb_refl.
Qed.
Lemma str_eqb_neq : forall a b, a <> b -> str_eqb a b = false.
Proof. intros a b H. destruct (str_eqb a b) eqn:E; [apply str_eqb_eq in E; congruence|reflexivity]. Qed.

Lemma dict_set_fresh : forall {V} (d : dict V) k v, ~ In k (map fst d) -> dict_set d k v = d ++ [(k, v)].
Proof.
  induction d as [|[k' v'] d IH]; intros k v H; cbn; [reflexivity|].
  cbn in H. rewrite str_eqb_neq by (intros E; apply H; left; congruence).
  rewrite IH by tauto. reflexivity.
Qed.

(* ------------------------------------------------------------------ *)
(* str(int) / int(text)                                                *)
Definition dstep (a d : Z) : Z := 10 * a + (d - 48).
Lemma digits_value_fold : forall ds, digits_value ds = fold_left dstep ds 0.
Proof. reflexivity. Qed.

Lemma digit_char : forall m, 0 <= m < 10 -> is_digit (48 + m) = true.
Proof. intros m H. unfold is_digit, in_range. apply andb_true_iff. split; apply Z.leb_le; lia. Qed.

Lemma digits_fuel_spec : forall f n acc, (0 < f)%nat -> 0 <= n < 2 ^ Z.of_nat f ->
  exists ds, digits_fuel f n acc = ds ++ acc /\ ds <> [] /\ forallb is_digit ds = true
             /\ forall a, fold_left dstep ds a = a * 10 ^ Z.of_nat (length ds) + n.
Proof.
  induction f as [|f IH]; intros n acc Hf Hn; [lia|].
  cbn [digits_fuel]. pose proof (Z.mod_pos_bound n 10 ltac:(lia)) as Hm.
  destruct (n <? 10) eqn:E.
  - apply Z.ltb_lt in E. exists [48 + n mod 10]. repeat split.
    + discriminate.
    + cbn [forallb]. rewrite digit_char by lia. reflexivity.
    + intros a. cbn [fold_left length]. unfold dstep. rewrite Z.mod_small by lia. change (Z.of_nat 1) with 1. lia.
  - apply Z.ltb_ge in E.
    assert (Hf' : (0 < f)%nat).
    { destruct f; [|lia]. cbn in Hn. lia. }
    assert (Hq : 0 <= n / 10 < 2 ^ Z.of_nat f).
    { split; [apply Z.div_pos; lia|].
      rewrite Nat2Z.inj_succ, Z.pow_succ_r in Hn by lia.
      apply Z.div_lt_upper_bound; lia. }
    destruct (IH (n / 10) ((48 + n mod 10) :: acc) Hf' Hq) as (ds & E1 & Hne & Hd & Hfold).
    exists (ds ++ [48 + n mod 10]). repeat split.
    + rewrite E1. rewrite <- app_assoc. reflexivity.
    + destruct ds; discriminate.
    + rewrite forallb_app, Hd. cbn [forallb]. rewrite digit_char by lia. reflexivity.
    + intros a. rewrite fold_left_app, Hfold. cbn [fold_left]. unfold dstep.
      rewrite app_length. cbn [length]. rewrite Nat2Z.inj_add. change (Z.of_nat 1) with 1.
      rewrite Z.pow_add_r by lia. change (10 ^ 1) with 10.
      pose proof (Z.div_mod n 10 ltac:(lia)) as Hdm. nia.
Qed.

Lemma print_nat_spec : forall n, 0 <= n ->
  print_nat n <> [] /\ forallb is_digit (print_nat n) = true /\ digits_value (print_nat n) = n.
Proof.
  intros n Hn. unfold print_nat.
  assert (Hb : 0 <= n < 2 ^ Z.of_nat (S (Z.to_nat (Z.log2 n)))).
  { split; [exact Hn|]. rewrite Nat2Z.inj_succ, Z2Nat.id by apply Z.log2_nonneg.
    destruct (Z.eq_dec n 0) as [->|Hz]; [cbn; lia|]. apply Z.log2_spec. lia. }
  destruct (digits_fuel_spec (S (Z.to_nat (Z.log2 n))) n [] ltac:(lia) Hb) as (ds & E & Hne & Hd & Hfold).
  rewrite app_nil_r in E. rewrite E. repeat split; try assumption.
  rewrite digits_value_fold. change (fold_left dstep ds 0) with (fold_left dstep ds 0).
  rewrite Hfold. lia.
Qed.

Lemma digit_not_sign : forall c, is_digit c = true -> (c =? 45) || (c =? 43) = false.
Proof.
  intros c H. unfold is_digit, in_range in H. apply andb_true_iff in H as [A B].
  apply Z.leb_le in A, B. apply orb_false_iff. split; apply Z.eqb_neq; lia.
Qed.
Lemma digit_not_dot : forall c, is_digit c = true -> (c =? 46) = false.
Proof.
  intros c H. unfold is_digit, in_range in H. apply andb_true_iff in H as [A B].
  apply Z.leb_le in A, B. apply Z.eqb_neq; lia.
Qed.

Lemma rule_number_digits : forall ds, ds <> [] -> forallb is_digit ds = true -> rule_number ds = Some (ds, []).
Proof.
  intros ds Hne Hd. unfold rule_number. destruct ds as [|c ds]; [congruence|].
  cbn [opt_sign]. cbn in Hd. apply andb_true_iff in Hd as [Hc Hd]. rewrite (digit_not_sign c Hc).
  pose proof (span_ext is_digit (c :: ds) [] ltac:(cbn; rewrite Hc; exact Hd) I) as E.
  rewrite app_nil_r in E. rewrite E. cbn. rewrite app_nil_r. reflexivity.
Qed.
Lemma rule_number_neg_digits : forall ds, ds <> [] -> forallb is_digit ds = true ->
  rule_number (45 :: ds) = Some (45 :: ds, []).
Proof.
  intros ds Hne Hd. unfold rule_number. cbn [opt_sign]. change ((45 =? 45) || (45 =? 43)) with true. cbv iota.
  pose proof (span_ext is_digit ds [] Hd I) as E. rewrite app_nil_r in E. rewrite E.
  destruct ds as [|c ds]; [congruence|]. cbn. rewrite app_nil_r. reflexivity.
Qed.

Lemma mem_digits : forall ds, forallb is_digit ds = true -> mem 46 ds = false.
Proof.
  induction ds as [|c ds IH]; intros H; cbn; [reflexivity|].
  cbn in H. apply andb_true_iff in H as [Hc H]. rewrite (digit_not_dot c Hc). cbn. apply IH. exact H.
Qed.

(* an int is printable when its decimal representation has at most 4300 digits
   (CPython refuses longer int <-> str conversions) *)
Definition int_ok (z : Z) : Prop := Z.of_nat (length (print_nat (Z.abs z))) <= max_str_digits.

Lemma print_int_num_ok : forall z, num_ok (print_int z).
Proof.
  intros z. unfold num_ok, print_int. destruct (z <? 0) eqn:E.
  - apply Z.ltb_lt in E. destruct (print_nat_spec (- z) ltac:(lia)) as (Hne & Hd & _).
    apply rule_number_neg_digits; assumption.
  - apply Z.ltb_ge in E. destruct (print_nat_spec z E) as (Hne & Hd & _).
    apply rule_number_digits; assumption.
Qed.
Lemma print_int_no_dot : forall z, mem 46 (print_int z) = false.
Proof.
  intros z. unfold print_int. destruct (z <? 0) eqn:E.
  - apply Z.ltb_lt in E. destruct (print_nat_spec (- z) ltac:(lia)) as (_ & Hd & _).
    cbn. apply mem_digits. exact Hd.
  - apply Z.ltb_ge in E. destruct (print_nat_spec z E) as (_ & Hd & _). apply mem_digits. exact Hd.
Qed.
Lemma parse_print_int : forall z, int_ok z -> parse_int (print_int z) = Ok z.
Proof.
  intros z Hok. unfold int_ok in Hok. unfold parse_int, print_int. destruct (z <? 0) eqn:E.
  - apply Z.ltb_lt in E. rewrite Z.abs_neq in Hok by lia.
    destruct (print_nat_spec (- z) ltac:(lia)) as (_ & _ & Hv).
    cbn [opt_sign]. change ((45 =? 45) || (45 =? 43)) with true. cbv iota.
    destruct (max_str_digits <? Z.of_nat (length (print_nat (- z)))) eqn:El; [apply Z.ltb_lt in El; lia|].
    rewrite Hv. f_equal. lia.
  - apply Z.ltb_ge in E. rewrite Z.abs_eq in Hok by lia.
    destruct (print_nat_spec z E) as (Hne & Hd & Hv).
    destruct (print_nat z) as [|c ds] eqn:Ep; [congruence|].
    cbn in Hd. apply andb_true_iff in Hd as [Hc Hd]. cbn [opt_sign]. rewrite (digit_not_sign c Hc).
    destruct (max_str_digits <? Z.of_nat (length (c :: ds))) eqn:El; [apply Z.ltb_lt in El; lia|].
    rewrite Hv. reflexivity.
Qed.

(* ------------------------------------------------------------------ *)
(* strings: every character is printable through _STRING_ESCAPES; only a lone surrogate has no
   UTF-8 encoding *)
Definition str_okb (s : str) : bool := forallb (fun c => negb (is_surrogate c)) s.

Lemma unescape_items_escaped : forall s, str_okb s = true -> unescape_items (escape_str s) = Some (map Chr s).
Proof.
  induction s as [|c s IH]; intros H; [reflexivity|].
  cbn [str_okb forallb] in H. apply andb_true_iff in H as [Hc H]. apply negb_true_iff in Hc.
  specialize (IH H). unfold escape_str in *. cbn [flat_map map]. unfold esc_char at 1.
  destruct (c =? 92) eqn:E92; [apply Z.eqb_eq in E92; subst c; cbn; rewrite IH; reflexivity|].
  destruct (c =? 34) eqn:E34; [apply Z.eqb_eq in E34; subst c; cbn; rewrite IH; reflexivity|].
  destruct (c =? 10) eqn:E10; [apply Z.eqb_eq in E10; subst c; cbn; rewrite IH; reflexivity|].
  destruct (c =? 13) eqn:E13; [apply Z.eqb_eq in E13; subst c; cbn; rewrite IH; reflexivity|].
  destruct (c =? 12) eqn:E12; [apply Z.eqb_eq in E12; subst c; cbn; rewrite IH; reflexivity|].
  destruct (c =? 11) eqn:E11; [apply Z.eqb_eq in E11; subst c; cbn; rewrite IH; reflexivity|].
  cbn [app unescape_items]. rewrite E92, Hc, IH. reflexivity.
Qed.
Lemma decode_items_chr : forall s, decode_items (map Chr s) = Some s.
Proof. induction s as [|c s IH]; cbn; [reflexivity|]. rewrite IH. reflexivity. Qed.
Lemma unescape_escaped : forall s, str_okb s = true -> unescape (escape_str s) = Ok s.
Proof.
  intros s H. unfold unescape. rewrite (unescape_items_escaped s H), decode_items_chr. reflexivity.
Qed.

Lemma identch_not_space : forall c, is_identch c = true -> is_space c = false.
Proof.
  intros c H. destruct (is_space c) eqn:E; [|reflexivity]. exfalso.
  unfold is_identch, is_ident1, is_alpha, is_digit, is_space, in_range in *.
  repeat rewrite orb_true_iff in H. repeat rewrite andb_true_iff in H.
  repeat rewrite orb_true_iff in E. repeat rewrite andb_true_iff in E.
  repeat rewrite Z.leb_le in *. repeat rewrite Z.eqb_eq in *. lia.
Qed.

Lemma name_ok_head : forall t, name_okb t = true -> exists c t', t = c :: t' /\ is_identch c = true.
Proof.
  intros [|c t] H; unfold name_okb in H; apply andb_true_iff in H as [Hi H]; [discriminate|].
  cbn in Hi. apply andb_true_iff in Hi as [Hc _]. eauto.
Qed.

Section RT.
  Variable F : Type.
  Variable fparse : str -> F.
  Variable fstr : F -> str.

  Notation value := (value F).
  Notation spec := (spec F).
  Notation print_value := (print_value F fstr).
  Notation print_param := (print_param F fstr).
  Notation print_spec := (print_spec F fstr).
  Notation print_pipeline := (print_pipeline F fstr).
  Notation value_of_token := (value_of_token F fparse).
  Notation parse_values := (parse_values F fparse).
  Notation parse_params := (parse_params F fparse).
  Notation parse_spec := (parse_spec F fparse).
  Notation parse_pipeline_toks := (parse_pipeline_toks F fparse).
  Notation parse_pipeline := (parse_pipeline F fparse).

  (* ---------------- the printable ArgSpecs ---------------- *)
  Definition value_ok (v : value) : Prop :=
    match v with
    | VBool _ => True
    | VInt z => int_ok z
    | VStr s => str_okb s = true
    | VFloat f => num_ok (float_text (fstr f)) /\ mem 46 (float_text (fstr f)) = true
                  /\ fparse (float_text (fstr f)) = f
    end.
  Definition param_ok (p : str * list value) : Prop := name_okb (fst p) = true /\ Forall value_ok (snd p).
  Definition spec_ok (sp : spec) : Prop :=
    name_okb (fst sp) = true /\ Forall param_ok (snd sp) /\ NoDup (map fst (snd sp)).

  (* ---------------- the tokens a printed pipeline consists of ---------------- *)
  Definition value_tok (v : value) : tok :=
    match v with
    | VBool b => T KIdent (if b then s_true else s_false)
    | VStr s => T KString (34 :: escape_str s ++ [34])
    | VInt z => T KNumber (print_int z)
    | VFloat f => T KNumber (float_text (fstr f))
    end.
  Fixpoint values_toks (vs : list value) : list tok :=
    match vs with
    | [] => []
    | [v] => [value_tok v]
    | v :: rest => value_tok v :: T KComma [44] :: values_toks rest
    end.
  Definition param_toks (p : str * list value) : list tok :=
    T KIdent (fst p) :: match snd p with [] => [] | vs => T KEquals [61] :: values_toks vs end.
  Fixpoint params_toks (ps : list (str * list value)) : list tok :=
    match ps with
    | [] => []
    | [p] => param_toks p
    | p :: rest => param_toks p ++ T KSpace [32] :: params_toks rest
    end.
  Definition spec_toks (sp : spec) : list tok :=
    T KIdent (fst sp) ::
      match snd sp with [] => [] | ps => T KLBrace [123] :: params_toks ps ++ [T KRBrace [125]] end.
  Fixpoint pipeline_toks (l : list spec) : list tok :=
    match l with
    | [] => []
    | [sp] => spec_toks sp
    | sp :: rest => spec_toks sp ++ T KComma [44] :: pipeline_toks rest
    end.

  (* ---------------- lexing what was printed ---------------- *)
  Definition delim (r : str) : Prop :=
    match r with [] => True | c :: _ => c = 44 \/ c = 32 \/ c = 125 end.
  Lemma delim_identch : forall r, delim r -> stops is_identch r.
  Proof. intros [|c r] H; [exact I|]. cbn in *. destruct H as [->|[->| ->]]; reflexivity. Qed.
  Lemma delim_num : forall r, delim r -> stops_num r.
  Proof. intros [|c r] H; [exact I|]. cbn in *. destruct H as [->|[->| ->]]; reflexivity. Qed.

  Lemma lexed_value : forall v r l, value_ok v -> delim r -> lexed r l ->
    lexed (print_value v ++ r) (value_tok v :: l).
  Proof.
    intros v r l Hv Hd Hl. destruct v as [b|z|f|s]; cbn [print_value value_tok].
    - eapply lexed_cons; [|exact Hl]. apply next_token_ident; [destruct b; reflexivity|apply delim_identch; exact Hd].
    - eapply lexed_cons; [|exact Hl]. apply next_token_number; [apply print_int_num_ok|apply delim_num; exact Hd].
    - destruct Hv as (Hn & _ & _). eapply lexed_cons; [|exact Hl].
      apply next_token_number; [exact Hn|apply delim_num; exact Hd].
    - eapply lexed_cons; [|exact Hl].
      cbn [app]. rewrite <- app_assoc. cbn [app].
      apply next_token_string.
  Qed.

  Definition pdelim (r : str) : Prop := match r with [] => True | c :: _ => c = 32 \/ c = 125 end.
  Lemma pdelim_delim : forall r, pdelim r -> delim r.
  Proof. intros [|c r] H; [exact I|]. cbn in *. tauto. Qed.

  Lemma lexed_values : forall vs r l, Forall value_ok vs -> vs <> [] -> pdelim r -> lexed r l ->
    lexed (join [44] (map print_value vs) ++ r) (values_toks vs ++ l).
  Proof.
    induction vs as [|v vs IH]; intros r l Hok Hne Hd Hl; [congruence|].
    inversion Hok as [|? ? Hv Hvs]; subst. destruct vs as [|v2 vs].
    - cbn. apply lexed_value; [exact Hv|apply pdelim_delim; exact Hd|exact Hl].
    - change (join [44] (map print_value (v :: v2 :: vs)))
        with (print_value v ++ [44] ++ join [44] (map print_value (v2 :: vs))).
      change (values_toks (v :: v2 :: vs)) with (value_tok v :: T KComma [44] :: values_toks (v2 :: vs)).
      replace ((print_value v ++ [44] ++ join [44] (map print_value (v2 :: vs))) ++ r)
        with (print_value v ++ 44 :: (join [44] (map print_value (v2 :: vs)) ++ r)) by list_eq.
      cbn [app]. apply lexed_value; [exact Hv|cbn; tauto|].
      eapply lexed_cons; [apply next_token_comma|]. apply IH; [exact Hvs|discriminate|exact Hd|exact Hl].
  Qed.

  Lemma lexed_param : forall p r l, param_ok p -> pdelim r -> lexed r l ->
    lexed (print_param p ++ r) (param_toks p ++ l).
  Proof.
    intros [k vs] r l [Hk Hvs] Hd Hl. cbn [fst snd] in *. unfold print_param, print_param_with, param_toks. cbn [fst snd].
    destruct vs as [|v vs].
    - cbn [app]. eapply lexed_cons; [|exact Hl]. apply next_token_ident; [exact Hk|].
      apply delim_identch, pdelim_delim, Hd.
    - replace ((k ++ 61 :: join [44] (map print_value (v :: vs))) ++ r)
        with (k ++ 61 :: (join [44] (map print_value (v :: vs)) ++ r)) by list_eq.
      cbn [app]. eapply lexed_cons; [apply next_token_ident; [exact Hk|reflexivity]|].
      eapply lexed_cons; [apply next_token_equals|].
      apply lexed_values; [exact Hvs|discriminate|exact Hd|exact Hl].
  Qed.

  Lemma print_param_head : forall p, param_ok p -> exists c t, forall r, print_param p ++ r = c :: t r /\ is_identch c = true.
  Proof.
    intros [k vs] [Hk _]. cbn [fst] in Hk. destruct (name_ok_head k Hk) as (c & t' & -> & Hc).
    unfold print_param, print_param_with. cbn [fst snd]. destruct vs as [|v vs].
    - exists c, (fun r => t' ++ r). intros r. split; [reflexivity|exact Hc].
    - exists c, (fun r => (t' ++ 61 :: join [44] (map print_value (v :: vs))) ++ r). intros r. split; [reflexivity|exact Hc].
  Qed.

  Lemma join_params_head : forall ps r, Forall param_ok ps -> ps <> [] ->
    exists c t, join [32] (map print_param ps) ++ r = c :: t /\ is_identch c = true.
  Proof.
    intros [|p ps] r Hok Hne; [congruence|]. inversion Hok as [|? ? Hp _]; subst.
    destruct (print_param_head p Hp) as (c & t & Hh). destruct ps as [|p2 ps].
    - cbn [map join]. destruct (Hh r) as [E Hc]. exists c, (t r). split; [exact E|exact Hc].
    - destruct (Hh (([32] ++ join [32] (map print_param (p2 :: ps))) ++ r)) as [E Hc].
      exists c, (t (([32] ++ join [32] (map print_param (p2 :: ps))) ++ r)). split; [|exact Hc].
      etransitivity; [|exact E].
      change (join [32] (map print_param (p :: p2 :: ps)))
        with (print_param p ++ [32] ++ join [32] (map print_param (p2 :: ps))).
      rewrite <- app_assoc. reflexivity.
  Qed.

  Lemma lexed_params : forall ps r l, Forall param_ok ps -> ps <> [] -> lexed r l ->
    lexed (join [32] (map print_param ps) ++ 125 :: r) (params_toks ps ++ T KRBrace [125] :: l).
  Proof.
    induction ps as [|p ps IH]; intros r l Hok Hne Hl; [congruence|].
    inversion Hok as [|? ? Hp Hps]; subst. destruct ps as [|p2 ps].
    - cbn [map join params_toks]. apply lexed_param; [exact Hp|cbn; tauto|].
      eapply lexed_cons; [apply next_token_rbrace|exact Hl].
    - change (join [32] (map print_param (p :: p2 :: ps)))
        with (print_param p ++ [32] ++ join [32] (map print_param (p2 :: ps))).
      change (params_toks (p :: p2 :: ps)) with (param_toks p ++ T KSpace [32] :: params_toks (p2 :: ps)).
      replace ((print_param p ++ [32] ++ join [32] (map print_param (p2 :: ps))) ++ 125 :: r)
        with (print_param p ++ 32 :: (join [32] (map print_param (p2 :: ps)) ++ 125 :: r)) by list_eq.
      rewrite <- app_assoc. cbn [app].
      apply lexed_param; [exact Hp|cbn; tauto|].
      eapply lexed_cons.
      + apply next_token_space.
        destruct (join_params_head (p2 :: ps) (125 :: r) Hps ltac:(discriminate)) as (c & t & E & Hc).
        unfold stops. rewrite E. apply identch_not_space. exact Hc.
      + apply IH; [exact Hps|discriminate|exact Hl].
  Qed.

  Definition sdelim (r : str) : Prop := match r with [] => True | c :: _ => c = 44 end.

  Lemma lexed_spec : forall sp r l, spec_ok sp -> sdelim r -> lexed r l ->
    lexed (print_spec sp ++ r) (spec_toks sp ++ l).
  Proof.
    intros [n ps] r l (Hn & Hps & _) Hd Hl. cbn [fst snd] in *. unfold print_spec, print_spec_with, spec_toks. cbn [fst snd]. fold print_param.
    destruct ps as [|p ps].
    - cbn [app]. eapply lexed_cons; [|exact Hl]. apply next_token_ident; [exact Hn|].
      destruct r as [|c r]; [exact I|]. cbn in *. subst. reflexivity.
    - replace ((n ++ 123 :: join [32] (map print_param (p :: ps)) ++ [125]) ++ r)
        with (n ++ 123 :: (join [32] (map print_param (p :: ps)) ++ 125 :: r)) by list_eq.
      cbn [app]. eapply lexed_cons; [apply next_token_ident; [exact Hn|reflexivity]|].
      eapply lexed_cons; [apply next_token_lbrace|].
      rewrite <- app_assoc. cbn [app]. apply lexed_params; [exact Hps|discriminate|exact Hl].
  Qed.

  Lemma lexed_pipeline : forall sps, Forall spec_ok sps ->
    lexed (print_pipeline sps) (pipeline_toks sps ++ [TEOF]).
  Proof.
    unfold print_pipeline. induction sps as [|sp sps IH]; intros Hok.
    - cbn. constructor.
    - inversion Hok as [|? ? Hsp Hsps]; subst. destruct sps as [|sp2 sps].
      + cbn [map join pipeline_toks]. rewrite <- (app_nil_r (print_spec sp)).
        apply lexed_spec; [exact Hsp|exact I|constructor].
      + change (join [44] (map print_spec (sp :: sp2 :: sps)))
          with (print_spec sp ++ [44] ++ join [44] (map print_spec (sp2 :: sps))).
        change (pipeline_toks (sp :: sp2 :: sps)) with (spec_toks sp ++ T KComma [44] :: pipeline_toks (sp2 :: sps)).
        rewrite <- app_assoc. cbn [app].
        apply lexed_spec; [exact Hsp|reflexivity|].
        eapply lexed_cons; [apply next_token_comma|]. apply IH. exact Hsps.
  Qed.

  (* ---------------- parsing the tokens ---------------- *)
  Lemma value_of_value_tok : forall v, value_ok v -> value_of_token (value_tok v) = Ok v.
  Proof.
    intros [b|z|f|s] Hv; cbn [value_tok value_of_token].
    - destruct b; reflexivity.
    - rewrite print_int_no_dot. rewrite (parse_print_int z Hv). reflexivity.
    - destruct Hv as (_ & Hm & Hp). rewrite Hm, Hp. reflexivity.
    - cbn [tl]. rewrite removelast_last. cbn in Hv. rewrite (unescape_escaped s Hv). reflexivity.
  Qed.

  Definition not_comma (rest : list tok) : Prop :=
    exists k t l, rest = T k t :: l /\ k <> KComma.

  Lemma parse_values_toks : forall vs rest, Forall value_ok vs -> vs <> [] -> not_comma rest ->
    parse_values (values_toks vs ++ rest) = Ok (vs, rest).
  Proof.
    induction vs as [|v vs IH]; intros rest Hok Hne Hr; [congruence|].
    inversion Hok as [|? ? Hv Hvs]; subst. destruct vs as [|v2 vs].
    - destruct Hr as (k & t & l & -> & Hk). cbn [values_toks app parse_values].
      assert (Hp : peek (value_tok v :: T k t :: l) = Ok (value_tok v)) by (destruct v; reflexivity).
      rewrite Hp. rewrite (value_of_value_tok v Hv). cbn [peek]. destruct k; try reflexivity. congruence.
    - change (values_toks (v :: v2 :: vs)) with (value_tok v :: T KComma [44] :: values_toks (v2 :: vs)).
      cbn [app parse_values].
      assert (Hp : peek (value_tok v :: T KComma [44] :: values_toks (v2 :: vs) ++ rest) = Ok (value_tok v))
        by (destruct v; reflexivity).
      rewrite Hp. rewrite (value_of_value_tok v Hv). cbn [peek].
      rewrite (IH rest Hvs ltac:(discriminate) Hr). reflexivity.
  Qed.

  Lemma length_params_toks : forall ps, (length ps <= length (params_toks ps))%nat.
  Proof.
    induction ps as [|p ps IH]; [cbn; lia|]. destruct ps as [|p2 ps].
    - cbn. lia.
    - change (params_toks (p :: p2 :: ps)) with (param_toks p ++ T KSpace [32] :: params_toks (p2 :: ps)).
      rewrite app_length. cbn [length] in *. unfold param_toks. cbn [length]. lia.
  Qed.

  Lemma parse_params_toks : forall ps fuel acc rest, Forall param_ok ps -> ps <> [] ->
    NoDup (map fst acc ++ map fst ps) -> (length ps <= fuel)%nat ->
    parse_params fuel acc (params_toks ps ++ T KRBrace [125] :: rest) = Ok (acc ++ ps, rest).
  Proof.
    induction ps as [|[k vs] ps IH]; intros fuel acc rest Hok Hne Hnd Hf; [congruence|].
    inversion Hok as [|? ? [Hk Hvs] Hps]; subst. cbn [fst snd] in *.
    destruct fuel as [|fuel]; [cbn in Hf; lia|].
    assert (Hfresh : ~ In k (map fst acc)).
    { intros Hin. apply NoDup_remove_2 in Hnd. apply Hnd. apply in_or_app. left. exact Hin. }
    assert (Hnd' : NoDup (map fst (acc ++ [(k, vs)]) ++ map fst ps)).
    { rewrite map_app. cbn [map fst]. rewrite <- app_assoc. cbn [app]. exact Hnd. }
    destruct ps as [|p2 ps].
    - (* last option: `}` follows *)
      cbn [params_toks]. unfold param_toks. cbn [fst snd]. destruct vs as [|v vs].
      + cbn [app parse_params peek tl]. rewrite (dict_set_fresh acc k [] Hfresh). reflexivity.
      + cbn [app parse_params peek tl].
        rewrite (parse_values_toks (v :: vs) (T KRBrace [125] :: rest) Hvs ltac:(discriminate)
                   ltac:(exists KRBrace, [125], rest; split; [reflexivity|discriminate])).
        cbn [peek tl]. rewrite (dict_set_fresh acc k (v :: vs) Hfresh). reflexivity.
    - change (params_toks ((k, vs) :: p2 :: ps))
        with (param_toks (k, vs) ++ T KSpace [32] :: params_toks (p2 :: ps)).
      unfold param_toks at 1. cbn [fst snd]. destruct vs as [|v vs].
      + cbn [app parse_params peek tl]. rewrite (dict_set_fresh acc k [] Hfresh).
        rewrite (IH fuel (acc ++ [(k, [])]) rest Hps ltac:(discriminate) Hnd' ltac:(cbn in Hf; cbn; lia)).
        rewrite <- app_assoc. reflexivity.
      + cbn [app]. rewrite <- app_assoc. cbn [app parse_params peek tl].
        rewrite (parse_values_toks (v :: vs) (T KSpace [32] :: params_toks (p2 :: ps) ++ T KRBrace [125] :: rest)
                   Hvs ltac:(discriminate)
                   ltac:(eexists KSpace, [32], _; split; [reflexivity|discriminate])).
        cbn [peek tl]. rewrite (dict_set_fresh acc k (v :: vs) Hfresh).
        rewrite (IH fuel (acc ++ [(k, v :: vs)]) rest Hps ltac:(discriminate) Hnd' ltac:(cbn in Hf; cbn; lia)).
        rewrite <- app_assoc. reflexivity.
  Qed.

  Definition spec_follow (rest : list tok) : Prop :=
    exists l, rest = TEOF :: l \/ rest = T KComma [44] :: l.

  Lemma parse_spec_toks : forall sp fuel rest, spec_ok sp -> spec_follow rest ->
    (length (snd sp) <= fuel)%nat ->
    parse_spec fuel (spec_toks sp ++ rest) = Ok (sp, rest).
  Proof.
    intros [n ps] fuel rest (Hn & Hps & Hnd) [l Hr] Hf. cbn [fst snd] in *.
    unfold spec_toks. cbn [fst snd]. destruct ps as [|p ps].
    - cbn [app]. unfold parse_spec. cbn [peek tl]. destruct Hr as [-> | ->]; reflexivity.
    - cbn [app]. unfold parse_spec. cbn [peek tl]. rewrite <- app_assoc. cbn [app].
      rewrite (parse_params_toks (p :: ps) fuel [] rest Hps ltac:(discriminate) Hnd Hf). reflexivity.
  Qed.

  Lemma length_spec_toks : forall sp, (length (snd sp) < length (spec_toks sp))%nat.
  Proof.
    intros [n ps]. unfold spec_toks. cbn [fst snd]. destruct ps as [|p ps]; [cbn; lia|].
    cbn [length]. rewrite app_length. pose proof (length_params_toks (p :: ps)). cbn [length] in *. lia.
  Qed.

  Lemma length_pipeline_toks : forall sps, (length sps <= length (pipeline_toks sps))%nat.
  Proof.
    induction sps as [|sp sps IH]; [cbn; lia|]. destruct sps as [|sp2 sps].
    - cbn [pipeline_toks length]. pose proof (length_spec_toks sp). lia.
    - change (pipeline_toks (sp :: sp2 :: sps)) with (spec_toks sp ++ T KComma [44] :: pipeline_toks (sp2 :: sps)).
      rewrite app_length. cbn [length] in *. pose proof (length_spec_toks sp). lia.
  Qed.

  Lemma peek_spec_toks : forall sp l, peek (spec_toks sp ++ l) = Ok (T KIdent (fst sp)).
  Proof. intros [n ps] l. reflexivity. Qed.

  Lemma parse_pipeline_toks_ok : forall sps fuel, Forall spec_ok sps -> (length sps < fuel)%nat ->
    parse_pipeline_toks fuel (pipeline_toks sps ++ [TEOF]) = Ok sps.
  Proof.
    induction sps as [|sp sps IH]; intros fuel Hok Hf.
    - destruct fuel; [lia|]. reflexivity.
    - inversion Hok as [|? ? Hsp Hsps]; subst. destruct fuel as [|fuel]; [cbn in Hf; lia|].
      destruct sps as [|sp2 sps].
      + cbn [pipeline_toks parse_pipeline_toks].
        rewrite peek_spec_toks.
        rewrite (parse_spec_toks sp (length (spec_toks sp ++ [TEOF])) [TEOF] Hsp).
        * reflexivity.
        * exists []. left. reflexivity.
        * rewrite app_length. eapply Nat.le_trans; [apply Nat.lt_le_incl; exact (length_spec_toks sp)|]. apply Nat.le_add_r.
      + change (pipeline_toks (sp :: sp2 :: sps)) with (spec_toks sp ++ T KComma [44] :: pipeline_toks (sp2 :: sps)).
        rewrite <- app_assoc. cbn [app parse_pipeline_toks].
        rewrite peek_spec_toks.
        rewrite (parse_spec_toks sp _ (T KComma [44] :: pipeline_toks (sp2 :: sps) ++ [TEOF]) Hsp).
        * cbn [peek tl]. rewrite (IH fuel Hsps ltac:(cbn in Hf; cbn; lia)). reflexivity.
        * eexists. right. reflexivity.
        * rewrite app_length. eapply Nat.le_trans; [apply Nat.lt_le_incl; exact (length_spec_toks sp)|]. apply Nat.le_add_r.
  Qed.

  (* ---------------- round trips ---------------- *)
  Theorem pipeline_roundtrip : forall sps, Forall spec_ok sps ->
    parse_pipeline (print_pipeline sps) = Ok sps.
  Proof.
    intros sps Hok. unfold parse_pipeline.
    rewrite (lexed_is_lex _ _ (lexed_pipeline sps Hok)).
    apply parse_pipeline_toks_ok; [exact Hok|].
    rewrite app_length. cbn [length]. pose proof (length_pipeline_toks sps). lia.
  Qed.

  Theorem spec_roundtrip : forall sp, spec_ok sp -> parse_pipeline (print_spec sp) = Ok [sp].
  Proof.
    intros sp Hok. change (print_spec sp) with (print_pipeline [sp]).
    apply pipeline_roundtrip. constructor; [exact Hok|constructor].
  Qed.
End RT.
