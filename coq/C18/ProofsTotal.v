(* C18/ProofsTotal.v -- parse_pipeline is total: for every input string it returns specs,
   ArgSpecParseError, or the ValueError of int() on a literal of more than 4300 digits; reading
   past EOF (StopIteration), the assertion and fuel exhaustion are unreachable.  For inputs of at
   most 4300 characters the only exception is ArgSpecParseError. *)
From Coq Require Import ZArith List Bool Lia.
From XV Require Import C18.Model C18.ProofsLex.
Import ListNotations.
Local Open Scope Z_scope.

(* ------------------------------------------------------------------ *)
(* invariants of the token stream                                      *)
Section Total.
  Variable F : Type.
  Variable fparse : str -> F.
  Variable N : nat.                (* a bound on the input length *)
  Variable G : err -> Prop.        (* the exception kinds considered acceptable *)

  Definition tok_inv (t : tok) : Prop :=
    match t with
    | T k text => (length text <= N)%nat
    | _ => True
    end.
  Definition stream_ok (l : list tok) : Prop := well_terminated l /\ Forall tok_inv l.

  Lemma lexed_inv : forall s l, lexed s l -> (length s <= N)%nat -> Forall tok_inv l.
  Proof.
    induction 1 as [|s Hs Hn|s k t r l Hn Hl IH]; intros HN.
    - repeat constructor.
    - repeat constructor.
    - pose proof (next_token_consumes _ _ _ _ Hn) as [E _]. subst s.
      rewrite app_length in HN. constructor; [cbn; lia|apply IH; lia].
  Qed.

  Lemma lex_stream_ok : forall s, (length s <= N)%nat -> stream_ok (lex s).
  Proof.
    intros s HN. split; [apply lex_well_terminated|]. eapply lexed_inv; [apply lexed_lex|exact HN].
  Qed.

  Lemma stream_ok_inv : forall l, stream_ok l ->
    l = [TEOF] \/ l = [TLexErr] \/ exists k t l', l = T k t :: l' /\ tok_inv (T k t) /\ stream_ok l'.
  Proof.
    intros l [Hw Hf]. inversion Hw; subst; [left; reflexivity|right; left; reflexivity|].
    right; right. inversion Hf; subst. exists k, t, l0. split; [reflexivity|]. split; [assumption|]. split; assumption.
  Qed.

  Hypothesis G_argspec : G EArgSpec.
  Hypothesis G_value : forall t e, tok_inv t -> value_of_token F fparse t = Err e -> G e.

  Definition good_res {A} (P : A -> Prop) (r : res A) : Prop :=
    match r with Ok a => P a | Err e => G e end.

  Definition shorter (toks : list tok) {A} (x : A * list tok) : Prop :=
    stream_ok (snd x) /\ (length (snd x) < length toks)%nat.

  Tactic Notation "inv_stream" hyp(H) "as" ident(k) ident(t) ident(l) ident(Ht) ident(Hs) :=
    destruct (stream_ok_inv _ H) as [-> | [-> | (k & t & l & -> & Ht & Hs)]].

  Lemma stream_ok_cons : forall k t l, tok_inv (T k t) -> stream_ok l -> stream_ok (T k t :: l).
  Proof. intros k t l Ht [Hw Hf]. split; [constructor; exact Hw|constructor; assumption]. Qed.

  Lemma parse_values_total : forall n toks, (length toks <= n)%nat -> stream_ok toks ->
    good_res (shorter toks) (parse_values F fparse toks).
  Proof.
    induction n as [|n IH]; intros toks Hlen Hok.
    - destruct Hok as [Hw _]. inversion Hw; subst; cbn in Hlen; lia.
    - inv_stream Hok as k t l Ht Hs.
      + cbn. exact G_argspec.
      + cbn. exact G_argspec.
      + cbn [parse_values peek]. destruct (value_of_token F fparse (T k t)) as [v|e] eqn:Ev.
        2:{ cbn. eapply G_value; eassumption. }
        assert (Hs' := Hs). inv_stream Hs as k2 t2 l2 Ht2 Hs2.
        * cbn. split; [exact Hs'|cbn; lia].
        * cbn. exact G_argspec.
        * cbn [peek]. destruct k2; try (cbn; split; [exact Hs'|cbn; lia]).
          (* a comma: one more value *)
          specialize (IH l2 ltac:(cbn in Hlen; lia) Hs2).
          destruct (parse_values F fparse l2) as [[vs out]|e]; cbn in IH |- *.
          -- destruct IH as [Ho Hl]. split; [exact Ho|cbn in *; lia].
          -- exact IH.
  Qed.

  Lemma parse_params_total : forall fuel args toks, (length toks <= fuel)%nat -> stream_ok toks ->
    good_res (shorter toks) (parse_params F fparse fuel args toks).
  Proof.
    induction fuel as [|fuel IH]; intros args toks Hlen Hok.
    - destruct Hok as [Hw _]. inversion Hw; subst; cbn in Hlen; lia.
    - inv_stream Hok as k t l Ht Hs; try (cbn; exact G_argspec).
      cbn [parse_params peek tl].
      destruct k; try (cbn; exact G_argspec).
      + (* option name *)
        inv_stream Hs as k2 t2 l2 Ht2 Hs2; try (cbn; exact G_argspec).
        cbn [peek tl]. destruct k2; try (cbn; exact G_argspec).
        * (* `}` *)
          cbn. split; [exact Hs2|cbn; lia].
        * (* `=` *)
          pose proof (parse_values_total (length l2) l2 (le_n _) Hs2) as Hv.
          destruct (parse_values F fparse l2) as [[vs toks2]|e]; cbn in Hv; [|cbn; exact Hv].
          destruct Hv as [Ho2 Hl2]. cbn [snd] in *.
          inv_stream Ho2 as k3 t3 l3 Ht3 Hs3; try (cbn; exact G_argspec).
          cbn [peek tl]. destruct k3; try (cbn; exact G_argspec).
          -- cbn. split; [exact Hs3|cbn in *; lia].
          -- specialize (IH (dict_set args t vs) l3 ltac:(cbn in *; lia) Hs3).
             destruct (parse_params F fparse fuel (dict_set args t vs) l3) as [[a out]|e]; cbn in IH |- *; [|exact IH].
             destruct IH as [Ho Hl]. split; [exact Ho|cbn in *; lia].
        * (* space: next option *)
          specialize (IH (dict_set args t []) l2 ltac:(cbn in *; lia) Hs2).
          destruct (parse_params F fparse fuel (dict_set args t []) l2) as [[a out]|e]; cbn in IH |- *; [|exact IH].
          destruct IH as [Ho Hl]. split; [exact Ho|cbn in *; lia].
      + (* `}` at once *)
        cbn. split; [exact Hs|cbn; lia].
  Qed.

  Lemma parse_spec_total : forall fuel toks, (length toks <= fuel)%nat -> stream_ok toks ->
    good_res (shorter toks) (parse_spec F fparse fuel toks).
  Proof.
    intros fuel toks Hlen Hok. unfold parse_spec.
    inv_stream Hok as k t l Ht Hs; try (cbn; exact G_argspec).
    cbn [peek tl]. destruct k; try (cbn; exact G_argspec).
    assert (Hs' := Hs). inv_stream Hs as k2 t2 l2 Ht2 Hs2; try (cbn; exact G_argspec).
    - (* name EOF *) cbn. split; [exact Hs'|cbn; lia].
    - cbn [peek tl]. destruct k2; try (cbn; exact G_argspec).
      + (* { *)
        pose proof (parse_params_total fuel [] l2 ltac:(cbn in *; lia) Hs2) as Hp.
        destruct (parse_params F fparse fuel [] l2) as [[ps out]|e]; cbn in Hp |- *; [|exact Hp].
        destruct Hp as [Ho Hl]. split; [exact Ho|cbn in *; lia].
      + (* [...] *)
        destruct (str_eqb t s_mlir_opt); [|cbn; exact G_argspec].
        cbn. split; [exact Hs2|cbn; lia].
      + (* , *)
        cbn. split; [exact Hs'|cbn; lia].
  Qed.

  Lemma parse_pipeline_toks_total : forall fuel toks, (length toks <= fuel)%nat -> stream_ok toks ->
    good_res (fun _ => True) (parse_pipeline_toks F fparse fuel toks).
  Proof.
    induction fuel as [|fuel IH]; intros toks Hlen Hok.
    - destruct Hok as [Hw _]. inversion Hw; subst; cbn in Hlen; lia.
    - cbn [parse_pipeline_toks].
      pose proof (parse_spec_total (length toks) toks (le_n _) Hok) as Hsp.
      inv_stream Hok as k t l Ht Hs; try (cbn; first [exact I|exact G_argspec]).
      cbn [peek]. cbv iota.
      destruct (parse_spec F fparse (length (T k t :: l)) (T k t :: l)) as [[sp toks1]|e]; cbn in Hsp; [|cbn; exact Hsp].
      destruct Hsp as [Ho Hl]. cbn [snd] in *.
      inv_stream Ho as k2 t2 l2 Ht2 Hs2; try (cbn; first [exact I|exact G_argspec]).
      cbn [peek tl]. destruct k2; try (cbn; exact G_argspec).
      specialize (IH l2 ltac:(cbn in *; lia) Hs2).
      destruct (parse_pipeline_toks F fparse fuel l2); cbn in IH |- *; [exact I|exact IH].
  Qed.
End Total.

(* ------------------------------------------------------------------ *)
Section Results.
  Variable F : Type.
  Variable fparse : str -> F.

  (* the exception kinds parse_pipeline can raise *)
  Definition acceptable (e : err) : Prop := e = EArgSpec \/ e = EValue.

  Lemma unescape_errors : forall s e, unescape s = Err e -> e = EArgSpec.
  Proof.
    intros s e H. unfold unescape in H. destruct (unescape_items s) as [items|]; [|inversion H; reflexivity].
    destruct (decode_items items); inversion H; reflexivity.
  Qed.

  Lemma opt_sign_length : forall t sg ds, opt_sign t = (sg, ds) -> (length ds <= length t)%nat.
  Proof.
    intros t sg ds H. apply opt_sign_eq in H. subst. rewrite app_length. lia.
  Qed.

  (* errors of _parse_parameter_value_element, given a bound N on the token length *)
  Lemma value_errors : forall N t e, tok_inv N t -> value_of_token F fparse t = Err e ->
    e = EArgSpec \/ (e = EValue /\ max_str_digits < Z.of_nat N).
  Proof.
    intros N t e Hinv H. destruct t as [k text| | |]; cbn in H; try (inversion H; left; reflexivity).
    destruct k; try (inversion H; left; reflexivity).
    - destruct (str_eqb text s_true); [discriminate|]. destruct (str_eqb text s_false); discriminate.
    - destruct (mem 46 text); [discriminate|]. unfold parse_int in H.
      destruct (opt_sign text) as [sg ds] eqn:Es. apply opt_sign_length in Es. cbn in Hinv.
      destruct (max_str_digits <? Z.of_nat (length ds)) eqn:El; [|discriminate].
      apply Z.ltb_lt in El. inversion H. right. split; [reflexivity|lia].
    - destruct (unescape (removelast (tl text))) eqn:E; inversion H; subst.
      left. eapply unescape_errors. exact E.
  Qed.

  Theorem parse_total : forall s,
    match parse_pipeline F fparse s with Ok _ => True | Err e => acceptable e end.
  Proof.
    intros s. unfold parse_pipeline.
    pose proof (parse_pipeline_toks_total F fparse (length s) acceptable ltac:(left; reflexivity)
                  (fun t e Hi He => match value_errors (length s) t e Hi He with
                                    | or_introl A => or_introl A | or_intror (conj A _) => or_intror A end)
                  (length (lex s)) (lex s) (le_n _) (lex_stream_ok (length s) s (le_n _))) as H.
    destruct (parse_pipeline_toks F fparse (length (lex s)) (lex s)); exact H.
  Qed.

  Theorem parse_total_short : forall s, Z.of_nat (length s) <= max_str_digits ->
    match parse_pipeline F fparse s with Ok _ => True | Err e => e = EArgSpec end.
  Proof.
    intros s Hlen. unfold parse_pipeline.
    assert (Hval : forall t e, tok_inv (length s) t -> value_of_token F fparse t = Err e -> e = EArgSpec).
    { intros t e Hi He. destruct (value_errors (length s) t e Hi He) as [A|[_ B]]; [exact A|lia]. }
    pose proof (parse_pipeline_toks_total F fparse (length s) (fun e => e = EArgSpec) eq_refl Hval
                  (length (lex s)) (lex s) (le_n _) (lex_stream_ok (length s) s (le_n _))) as H.
    destruct (parse_pipeline_toks F fparse (length (lex s)) (lex s)); exact H.
  Qed.
End Results.
