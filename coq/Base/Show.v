(* Base/Show.v -- printing model results as S-expressions, one case per line.
   Used only by generated cases_*.v files (correspondence check): results are
   rendered by Coq functions evaluated with vm_compute, so no parsing of Coq's
   pretty-printer line wrapping is needed.  No proofs here. *)
From Coq Require Import ZArith List String Ascii DecimalString.
Import ListNotations.
Open Scope string_scope.

Inductive sx := I (z : Z) | L (l : list sx).

Definition show_Z (z : Z) : string := NilZero.string_of_int (Z.to_int z).

(* accumulator-passing printer: linear time, no string appends of long strings *)
Fixpoint app_str (a b : string) : string :=
  match a with EmptyString => b | String c r => String c (app_str r b) end.
Fixpoint show_acc (s : sx) (acc : string) : string :=
  match s with
  | I z => app_str (show_Z z) acc
  | L l =>
      String "("%char
        ((fix go (l : list sx) (acc : string) : string :=
            match l with
            | [] => acc
            | [x] => show_acc x acc
            | x :: r => show_acc x (String " "%char (go r acc))
            end) l (String ")"%char acc))
  end.
Definition show (s : sx) : string := show_acc s EmptyString.

Definition nl : string := String (Ascii.ascii_of_nat 10) EmptyString.
Fixpoint lines_acc (l : list sx) : string :=
  match l with
  | [] => EmptyString
  | [x] => show x
  | x :: r => show_acc x (String (Ascii.ascii_of_nat 10) (lines_acc r))
  end.
Definition lines (l : list sx) : string := lines_acc l.

(* encoders used by the models' case files *)
Definition sB (b : bool) : sx := I (if b then 1 else 0)%Z.
Definition sN (n : nat) : sx := I (Z.of_nat n).
Definition sLZ (l : list Z) : sx := L (map I l).
Definition sLN (l : list nat) : sx := L (map sN l).
Definition sLB (l : list bool) : sx := L (map sB l).
Definition sOpt {A} (f : A -> sx) (o : option A) : sx :=
  match o with None => L [] | Some a => L [f a] end.
Definition sPos (p : positive) : sx := I (Zpos p).
