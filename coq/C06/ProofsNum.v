(* C06/ProofsNum.v -- proofs about the numeric kernels of C06/Model.v:
   integer attributes (all widths / signedness), print_float's decision logic against the
   float / hex literal branches of the parser (CPython oracles as Section variables with
   pointwise hypotheses), dense elements and dense arrays. *)
From Coq Require Import ZArith List Bool Lia String Ascii.
From XV Require Import C06.Model C06.ProofsText.
Import ListNotations.
Local Open Scope Z_scope.

(* ------------------------------------------------------------------ *)
(* 1. integer types: bounds                                             *)

Lemma shiftl_1 : forall w, 0 <= w -> Z.shiftl 1 w = 2 ^ w.
Proof. intros. rewrite Z.shiftl_mul_pow2 by assumption. lia. Qed.

(* Spec of the three bound functions of xdsl/utils/comparisons.py *)
Lemma bounds_cases : forall w, 0 <= w ->
  unsigned_upper_bound w = 2 ^ w /\
  ((w = 0 /\ signed_lower_bound w = 0 /\ signed_upper_bound w = 1) \/
   (1 <= w /\ signed_upper_bound w = 2 ^ (w - 1) /\ signed_lower_bound w = - 2 ^ (w - 1) /\
    2 ^ w = 2 * 2 ^ (w - 1) /\ 1 <= 2 ^ (w - 1))).
Proof.
  intros w Hw. unfold unsigned_upper_bound, signed_lower_bound, signed_upper_bound.
  rewrite shiftl_1 by assumption. split; [reflexivity|].
  destruct (Z.eq_dec w 0) as [->|Hz]; [left; repeat split; reflexivity|right].
  assert (Hp : 2 ^ w = 2 * 2 ^ (w - 1)).
  { replace w with (Z.succ (w - 1)) at 1 by lia. rewrite Z.pow_succ_r by lia. reflexivity. }
  assert (1 <= 2 ^ (w - 1)) by (pose proof (Z.pow_pos_nonneg 2 (w - 1)); lia).
  repeat split; try lia.
  - rewrite Z.max_l by lia. apply shiftl_1. lia.
  - rewrite Z.shiftr_div_pow2 by lia. rewrite Hp. change (2 ^ 1) with 2.
    rewrite Z.mul_comm, Z.div_mul by lia. reflexivity.
Qed.

Definition ity_ok (ty : ity) : Prop := match ty with TIndex => True | TInteger w _ => 0 <= w end.

(* Spec of IntegerAttr's stored value: exists exactly for in-range values; it is the value itself for
   unsigned types and the two's-complement representative (same residue mod 2^w, in the signed range)
   otherwise; storing is idempotent. *)
Lemma integer_attr_spec : forall w s v v', 0 <= w ->
  integer_attr (TInteger w s) v = Ok v' ->
  in_range s w v = true /\ in_range s w v' = true /\ v' mod 2 ^ w = v mod 2 ^ w /\
  (s <> Unsigned -> signed_lower_bound w <= v' < signed_upper_bound w) /\
  (s = Unsigned -> v' = v) /\
  normalized_value s w v' = Some v'.
Proof.
  intros w s v v' Hw H. unfold integer_attr, normalized_value in H.
  destruct (in_range s w v) eqn:Hr; cbn [negb] in H; [|discriminate].
  destruct (bounds_cases w Hw) as [HU Hc].
  assert (Hmod : (v - 2 ^ w) mod 2 ^ w = v mod 2 ^ w).
  { replace (v - 2 ^ w) with (v + (-1) * 2 ^ w) by lia. apply Z.mod_add.
    pose proof (Z.pow_pos_nonneg 2 w). lia. }
  unfold normalized_value, in_range, value_range in *. rewrite HU in *.
  pose proof Hr as Hr0.
  destruct s.
  - (* signless *)
    apply andb_true_iff in Hr as [Hlo Hhi]. apply Z.leb_le in Hlo. apply Z.ltb_lt in Hhi.
    destruct (signed_upper_bound w <=? v) eqn:Hs.
    + apply Z.leb_le in Hs.
      destruct ((signed_lower_bound w <=? v - 2 ^ w) && (v - 2 ^ w <? 2 ^ w)) eqn:Hr'; [|discriminate].
      injection H as <-.
      assert (Hlt : v - 2 ^ w < signed_upper_bound w)
        by (destruct Hc as [(-> & ? & ?)|(? & ? & ? & ? & ?)]; lia).
      assert (Hge : signed_lower_bound w <= v - 2 ^ w)
        by (destruct Hc as [(-> & ? & ?)|(? & ? & ? & ? & ?)]; lia).
      split; [reflexivity|]. split; [exact Hr'|]. split; [exact Hmod|].
      split; [intros _; lia|]. split; [intros; congruence|].
      rewrite Hr'. cbn [negb].
      replace (signed_upper_bound w <=? v - 2 ^ w) with false by (symmetry; apply Z.leb_gt; lia).
      reflexivity.
    + apply Z.leb_gt in Hs. rewrite Hr0 in H. injection H as <-.
      split; [reflexivity|]. split; [exact Hr0|]. split; [reflexivity|].
      split; [intros _; lia|]. split; [intros; congruence|].
      rewrite Hr0. cbn [negb].
      replace (signed_upper_bound w <=? v) with false by (symmetry; apply Z.leb_gt; lia). reflexivity.
  - (* signed *)
    apply andb_true_iff in Hr as [Hlo Hhi]. apply Z.leb_le in Hlo. apply Z.ltb_lt in Hhi.
    replace (signed_upper_bound w <=? v) with false in H by (symmetry; apply Z.leb_gt; lia).
    rewrite Hr0 in H. injection H as <-.
    split; [reflexivity|]. split; [exact Hr0|]. split; [reflexivity|].
    split; [intros _; lia|]. split; [intros; congruence|].
    rewrite Hr0. cbn [negb].
    replace (signed_upper_bound w <=? v) with false by (symmetry; apply Z.leb_gt; lia). reflexivity.
  - (* unsigned *)
    rewrite Hr0 in H. injection H as <-.
    split; [reflexivity|]. split; [exact Hr0|]. split; [reflexivity|].
    split; [intros; congruence|]. split; [reflexivity|].
    rewrite Hr0. reflexivity.
Qed.

Lemma integer_attr_total : forall w s v, in_range s w v = true -> 0 <= w ->
  exists v', integer_attr (TInteger w s) v = Ok v'.
Proof.
  intros w s v Hr Hw. unfold integer_attr, normalized_value. rewrite Hr. cbn [negb].
  destruct (bounds_cases w Hw) as [HU Hc].
  unfold in_range, value_range in *. destruct s.
  - apply andb_true_iff in Hr as [Hlo Hhi]. apply Z.leb_le in Hlo. apply Z.ltb_lt in Hhi.
    destruct (signed_upper_bound w <=? v) eqn:Hs.
    + apply Z.leb_le in Hs. eexists.
      replace ((signed_lower_bound w <=? v - unsigned_upper_bound w) &&
               (v - unsigned_upper_bound w <? unsigned_upper_bound w)) with true; [reflexivity|].
      symmetry. rewrite HU in *. apply andb_true_iff; split; [apply Z.leb_le|apply Z.ltb_lt];
      destruct Hc as [(-> & ? & ?)|(? & ? & ? & ? & ?)]; lia.
    + eexists. replace ((signed_lower_bound w <=? v) && (v <? unsigned_upper_bound w)) with true; [reflexivity|].
      symmetry. apply andb_true_iff; split; [apply Z.leb_le|apply Z.ltb_lt]; lia.
  - apply andb_true_iff in Hr as [Hlo Hhi]. apply Z.leb_le in Hlo. apply Z.ltb_lt in Hhi.
    replace (signed_upper_bound w <=? v) with false by (symmetry; apply Z.leb_gt; lia).
    eexists. replace ((signed_lower_bound w <=? v) && (v <? signed_upper_bound w)) with true; [reflexivity|].
    symmetry. apply andb_true_iff; split; [apply Z.leb_le|apply Z.ltb_lt]; lia.
  - eexists. rewrite Hr. reflexivity.
Qed.

Lemma integer_attr_idem : forall ty v v', ity_ok ty -> integer_attr ty v = Ok v' -> integer_attr ty v' = Ok v'.
Proof.
  intros [|w s] v v' Hok H; [cbn in *; congruence|].
  destruct (integer_attr_spec w s v v' Hok H) as (_ & Hr & _ & _ & _ & Hn).
  unfold integer_attr. rewrite Hn, Hr. reflexivity.
Qed.

(* ------------------------------------------------------------------ *)
(* 2. lexing numbers                                                    *)

Definition ends_num (rest : text) : Prop := match rest with [] => True | c :: _ => c = 32 end.

Lemma digit_range : forall d, is_digit d = true -> 48 <= d <= 57.
Proof. intros d H. unfold is_digit in H. apply andb_true_iff in H as [A B]. apply Z.leb_le in A, B. lia. Qed.

Lemma is_digit_id_char : forall c, is_digit c = true -> is_id_char c = true.
Proof. intros c H. unfold is_id_char. rewrite H. destruct (is_alpha_us c); reflexivity. Qed.

Lemma lex1_digit_start : forall fixed d r, is_digit d = true -> lex1 fixed (d :: r) = Ok (lex_number d r).
Proof.
  intros fixed d r Hd. pose proof (digit_range d Hd) as Hr.
  unfold lex1. rewrite (lex1_unfold_nonblank d r) by (split; lia).
  assert (Ha : is_alpha_us d = false).
  { unfold is_alpha_us, in_rng.
    replace (97 <=? d) with false by (symmetry; apply Z.leb_gt; lia).
    replace (d <=? 90) with true by (symmetry; apply Z.leb_le; lia).
    replace (65 <=? d) with false by (symmetry; apply Z.leb_gt; lia).
    replace (d =? 95) with false by (symmetry; apply Z.eqb_neq; lia). reflexivity. }
  rewrite Ha.
  repeat match goal with |- context [d =? ?k] =>
    replace (d =? k) with false by (symmetry; apply Z.eqb_neq; lia) end.
  rewrite Hd. reflexivity.
Qed.

Lemma span_digits : forall ds rest, forallb is_digit ds = true -> ends_num rest ->
  span_while is_digit (ds ++ rest) = (ds, rest).
Proof.
  intros ds rest Hds Hr. apply span_while_app; [assumption|].
  destruct rest as [|c r]; [exact I|]. cbn in Hr. subst. reflexivity.
Qed.

(* a decimal digit string followed by nothing or a blank is one INTEGER_LIT *)
Lemma lex1_decimal : forall fixed ds rest, ds <> [] -> forallb is_digit ds = true -> ends_num rest ->
  lex1 fixed (ds ++ rest) = Ok (TInt ds, rest).
Proof.
  intros fixed ds rest Hne Hds Hr. destruct ds as [|d ds]; [contradiction|].
  cbn [forallb] in Hds. apply andb_true_iff in Hds as [Hd Hds].
  cbn [app]. rewrite lex1_digit_start by assumption. unfold lex_number.
  assert (Hhex : match ds ++ rest with
                 | x :: h :: _ => (d =? 48) && (x =? 120) && is_hexdigit h
                 | _ => false end = false).
  { destruct ds as [|x ds'].
    - cbn [app]. destruct rest as [|c [|h r]]; try reflexivity. cbn in Hr. subst.
      rewrite andb_false_r. reflexivity.
    - cbn [app]. cbn [forallb] in Hds. apply andb_true_iff in Hds as [Hx _].
      pose proof (digit_range x Hx).
      destruct (ds' ++ rest); [reflexivity|].
      replace (x =? 120) with false by (symmetry; apply Z.eqb_neq; lia).
      rewrite andb_false_r. reflexivity. }
  rewrite Hhex. rewrite span_digits by assumption.
  destruct rest as [|c r]; [reflexivity|]. cbn in Hr. subst. reflexivity.
Qed.

(* "0x" + hex digits followed by nothing or a blank is one INTEGER_LIT *)
Lemma lex1_hex : forall fixed hs rest, hs <> [] -> forallb is_hexdigit hs = true -> ends_num rest ->
  lex1 fixed (48 :: 120 :: hs ++ rest) = Ok (TInt (48 :: 120 :: hs), rest).
Proof.
  intros fixed hs rest Hne Hhs Hr. rewrite lex1_digit_start by reflexivity. unfold lex_number.
  destruct hs as [|h hs']; [contradiction|]. cbn [app].
  cbn [forallb] in Hhs. apply andb_true_iff in Hhs as [Hh Hhs'].
  rewrite Hh. cbn [Z.eqb andb tl]. change ((48 =? 48) && (120 =? 120) && true) with true. cbv iota.
  change (h :: hs' ++ rest) with ((h :: hs') ++ rest).
  rewrite span_while_app.
  - reflexivity.
  - cbn [forallb]. rewrite Hh, Hhs'. reflexivity.
  - destruct rest as [|c r]; [exact I|]. cbn in Hr. subst. reflexivity.
Qed.

Lemma lex1_minus : forall fixed c r, c <> 62 -> lex1 fixed (45 :: c :: r) = Ok (TMinus, c :: r).
Proof.
  intros fixed c r Hc. unfold lex1. cbn [span_while]. cbn.
  replace (c =? 62) with false by (symmetry; apply Z.eqb_neq; assumption). reflexivity.
Qed.

Lemma get_int_value_decimal : forall ds, forallb is_digit ds = true -> get_int_value ds = int_of_digits 10 ds.
Proof.
  intros ds H. unfold get_int_value. destruct ds as [|z [|x r]]; try reflexivity.
  cbn [forallb] in H. apply andb_true_iff in H as [_ H]. apply andb_true_iff in H as [Hx _].
  pose proof (digit_range x Hx).
  replace (x =? 120) with false by (symmetry; apply Z.eqb_neq; lia).
  replace (x =? 88) with false by (symmetry; apply Z.eqb_neq; lia).
  rewrite andb_false_r. reflexivity.
Qed.

Lemma nat_digits10_value : forall n, 0 <= n -> get_int_value (nat_digits 10 false n) = Some n.
Proof.
  intros n Hn. rewrite get_int_value_decimal by (apply nat_digits10_all_digit; assumption).
  apply nat_digits_spec; lia.
Qed.

Lemma nat_digits_nonempty : forall n, 0 <= n -> nat_digits 10 false n <> [].
Proof. intros n Hn. apply nat_digits_spec; lia. Qed.

(* the token list of f"{v:d}" followed by nothing or a blank *)
Definition int_toks (v : Z) : list tok :=
  if v <? 0 then [TMinus; TInt (nat_digits 10 false (- v))] else [TInt (nat_digits 10 false v)].

Lemma lexes_fmt_d : forall fixed v rest ts, ends_num rest -> lexes fixed rest ts ->
  lexes fixed (fmt_d v ++ rest) (int_toks v ++ ts).
Proof.
  intros fixed v rest ts Hr Hts. unfold fmt_d, int_toks. destruct (v <? 0) eqn:E.
  - apply Z.ltb_lt in E. cbn [app].
    pose proof (nat_digits_nonempty (- v) ltac:(lia)) as Hne.
    pose proof (nat_digits10_all_digit false (- v) ltac:(lia)) as Hall.
    destruct (nat_digits 10 false (- v)) as [|d ds] eqn:Ed; [contradiction|].
    eapply lexes_cons.
    + cbn [app]. apply lex1_minus. cbn [forallb] in Hall. apply andb_true_iff in Hall as [Hd _].
      pose proof (digit_range d Hd). lia.
    + eapply lexes_cons; [|exact Hts]. change (d :: ds ++ rest) with ((d :: ds) ++ rest).
      apply lex1_decimal; [discriminate|assumption|assumption].
  - apply Z.ltb_ge in E. cbn [app]. eapply lexes_cons; [|exact Hts].
    apply lex1_decimal; [apply nat_digits_nonempty; lia|apply nat_digits10_all_digit; lia|assumption].
Qed.

Lemma int_toks_value : forall v rest allow_boolean,
  parse_optional_integer allow_boolean true (int_toks v ++ rest) = Ok (v, rest).
Proof.
  intros v rest ab. unfold int_toks. destruct (v <? 0) eqn:E.
  - apply Z.ltb_lt in E. cbn [app]. unfold parse_optional_integer.
    replace (if ab then parse_optional_boolean (TMinus :: TInt (nat_digits 10 false (- v)) :: rest) else None)
      with (@None (bool * list tok)) by (destruct ab; reflexivity).
    rewrite nat_digits10_value by lia. f_equal. f_equal. lia.
  - apply Z.ltb_ge in E. cbn [app]. unfold parse_optional_integer.
    replace (if ab then parse_optional_boolean (TInt (nat_digits 10 false v) :: rest) else None)
      with (@None (bool * list tok)) by (destruct ab; reflexivity).
    rewrite nat_digits10_value by lia. reflexivity.
Qed.

(* ------------------------------------------------------------------ *)
(* 3. integer types as text                                             *)

Lemma str_index : str "index" = [105; 110; 100; 101; 120]. Proof. reflexivity. Qed.
Lemma str_i : str "i" = [105]. Proof. reflexivity. Qed.
Lemma str_si : str "si" = [115; 105]. Proof. reflexivity. Qed.
Lemma str_ui : str "ui" = [117; 105]. Proof. reflexivity. Qed.
Lemma str_colon : str " : " = [32; 58; 32]. Proof. reflexivity. Qed.
Lemma str_0x : str "0x" = [48; 120]. Proof. reflexivity. Qed.

Lemma print_ity_bare : forall ty, ity_ok ty -> is_bare_id (print_ity ty) = true.
Proof.
  intros [|w s] Hok; [reflexivity|]. cbn in Hok.
  assert (Hd : forallb is_id_char (nat_digits 10 false w) = true).
  { apply forallb_forall. intros c Hc. apply is_digit_id_char.
    pose proof (nat_digits10_all_digit false w Hok) as H. rewrite forallb_forall in H. auto. }
  unfold print_ity, fmt_d. replace (w <? 0) with false by (symmetry; apply Z.ltb_ge; lia).
  destruct s; rewrite ?str_i, ?str_si, ?str_ui; cbn [app is_bare_id forallb]; rewrite ?Hd; reflexivity.
Qed.

Lemma parse_print_ity : forall ty, ity_ok ty -> parse_ity (print_ity ty) = Some ty.
Proof.
  intros [|w s] Hok; [reflexivity|]. cbn in Hok.
  pose proof (nat_digits10_all_digit false w Hok) as Hall.
  pose proof (nat_digits_nonempty w Hok) as Hne.
  assert (Hv : int_of_digits 10 (nat_digits 10 false w) = Some w) by (apply nat_digits_spec; lia).
  unfold print_ity, fmt_d. replace (w <? 0) with false by (symmetry; apply Z.ltb_ge; lia).
  destruct (nat_digits 10 false w) as [|d ds] eqn:Ed; [contradiction|].
  cbn [forallb] in Hall. apply andb_true_iff in Hall as [Hd Hds]. pose proof (digit_range d Hd).
  unfold parse_ity. rewrite str_index.
  destruct s; rewrite ?str_i, ?str_si, ?str_ui; cbn [app text_eqb].
  - (* "i" ++ digits vs "index": the second character is a digit, not 'n' *)
    replace (d =? 110) with false by (symmetry; apply Z.eqb_neq; lia).
    rewrite andb_false_r. cbn [andb].
    change (105 =? 115) with false. change (105 =? 117) with false. cbv iota.
    change (105 =? 105) with true. cbn [andb forallb]. rewrite Hd, Hds. cbn [andb]. rewrite Hv. reflexivity.
  - change (115 =? 105) with false. cbn [andb].
    change (115 =? 115) with true. cbv iota.
    change (105 =? 105) with true. cbn [andb forallb]. rewrite Hd, Hds. cbn [andb]. rewrite Hv. reflexivity.
  - change (117 =? 105) with false. cbn [andb].
    change (117 =? 115) with false. change (117 =? 117) with true. cbv iota.
    change (105 =? 105) with true. cbn [andb forallb]. rewrite Hd, Hds. cbn [andb]. rewrite Hv. reflexivity.
Qed.

Lemma lexes_type_suffix : forall fixed name, is_bare_id name = true ->
  lexes fixed (32 :: 58 :: 32 :: name) [TColon; TBare name].
Proof.
  intros fixed name Hb.
  eapply lexes_cons; [rewrite lex1_space; apply lex1_colon|].
  eapply lexes_cons.
  - rewrite lex1_space. rewrite <- (app_nil_r name) at 1. apply lex1_bare; [assumption|exact I].
  - apply lexes_nil. reflexivity.
Qed.

(* ------------------------------------------------------------------ *)
(* 4. C06_int_rt                                                        *)

Lemma i1_values : forall v v', integer_attr (TInteger 1 Signless) v = Ok v' -> v' = 0 \/ v' = -1.
Proof.
  intros v v' H. destruct (integer_attr_spec 1 Signless v v' ltac:(lia) H) as (_ & _ & _ & Hr & _).
  specialize (Hr ltac:(discriminate)). cbn in Hr. lia.
Qed.

Theorem int_attr_roundtrip_ok : forall ty v v', ity_ok ty ->
  integer_attr ty v = Ok v' -> integer_attr_roundtrip ty v' = Ok (ty, v').
Proof.
  intros ty v v' Hok H. pose proof (integer_attr_idem ty v v' Hok H) as Hidem.
  unfold integer_attr_roundtrip, print_integer_attr.
  destruct (is_i1 ty) eqn:Hi1.
  - (* `true` / `false` *)
    assert (ty = TInteger 1 Signless) as ->.
    { destruct ty as [|w [| |]]; try discriminate. cbn in Hi1. apply Z.eqb_eq in Hi1. subst. reflexivity. }
    destruct (i1_values v v' H) as [-> | ->]; vm_compute; reflexivity.
  - unfold print_int.
    assert (Hlex : lex false (fmt_d v' ++ str " : " ++ print_ity ty) =
                   Ok (int_toks v' ++ [TColon; TBare (print_ity ty)])).
    { apply lex_of_lexes.
      - apply lexes_fmt_d; [reflexivity|]. apply lexes_type_suffix. apply print_ity_bare. assumption.
      - rewrite !app_length. cbn [List.length str]. unfold int_toks, fmt_d.
        destruct (v' <? 0) eqn:E.
        + apply Z.ltb_lt in E. pose proof (nat_digits_nonempty (- v') ltac:(lia)).
          destruct (nat_digits 10 false (- v')); [contradiction|]. cbn [List.length]. lia.
        + cbn [List.length]. lia. }
    rewrite Hlex. unfold parse_integer_attr.
    assert (Hnb : parse_optional_boolean (int_toks v' ++ [TColon; TBare (print_ity ty)]) = None).
    { unfold int_toks. destruct (v' <? 0); reflexivity. }
    rewrite Hnb. rewrite int_toks_value. rewrite parse_print_ity by assumption. rewrite Hidem. reflexivity.
Qed.

(* ------------------------------------------------------------------ *)
(* 5. floats                                                            *)

Lemma f64_eq_nonzero : forall a b, f64_eq a b = true -> f64_iszero b = false -> a = b.
Proof.
  intros a b H Hz. unfold f64_eq in H. apply andb_true_iff in H as [_ H].
  apply orb_true_iff in H as [H|H]; [apply Z.eqb_eq in H; assumption|].
  apply andb_true_iff in H as [_ H]. congruence.
Qed.

Lemma pow16_pow2 : forall s, 0 <= s -> 16 ^ Z.of_nat (Z.to_nat (2 * s)) = 2 ^ (8 * s).
Proof.
  intros s Hs. rewrite Z2Nat.id by lia. change 16 with (2 ^ 4).
  rewrite <- Z.pow_mul_r by lia. f_equal. lia.
Qed.

Section FloatProofs.
  Variable pack : fty -> Z -> Z.
  Variable unpack : fty -> Z -> Z.
  Variables fmt5e fmt9g fmt17g repr_ : Z -> text.
  Variable scan : text -> Z.
  Variable of_int : Z -> res Z.

  Notation float_attr := (float_attr pack unpack).
  Notation print_float := (print_float pack unpack fmt5e fmt9g fmt17g repr_ scan).
  Notation print_float_branch := (print_float_branch pack unpack fmt5e fmt9g fmt17g scan).
  Notation parse_float_attr := (parse_float_attr pack unpack scan of_int).
  Notation float_attr_roundtrip := (float_attr_roundtrip pack unpack fmt5e fmt9g fmt17g repr_ scan of_int).
  Notation float_hyps := (float_hyps pack unpack fmt5e fmt9g fmt17g repr_ scan).
  Notation lexes_float := (lexes_float).
  Notation decimal_ok := (decimal_ok pack unpack scan).

  Definition fty_ok (ty : fty) : Prop := is_bare_id (fname ty) = true /\ 0 < fsize ty.

  (* the decimal form the printer chooses in branch 2 *)
  Definition long_form (ty : fty) (x : Z) : text :=
    match fk ty with F32 => fmt9g x | F64 => fmt17g x | FRepr => repr_ x end.
  (* the integer printed in hex by the fallback branch *)
  Definition fallback_bits (ty : fty) (x : Z) : Z := match fk ty with F64 => x | _ => pack ty x end.

  Lemma print_float_by_branch : forall ty x,
    print_float ty x =
    match print_float_branch ty x with
    | 0 => str "0x" ++ hex_fixed false (Z.to_nat (2 * fsize ty)) (pack ty x)
    | 1 => insert0 (fmt5e x)
    | 2 => long_form ty x
    | _ => str "0x" ++ fmt_X (fallback_bits ty x)
    end.
  Proof.
    intros ty x. unfold Model.print_float, Model.print_float_branch, long_form, fallback_bits.
    destruct (f64_isnan x || f64_isinf x); [reflexivity|].
    destruct (f64_eq _ x); [reflexivity|].
    destruct (fk ty); [destruct (contains 46 (fmt9g x))|destruct (contains 46 (fmt17g x))|]; reflexivity.
  Qed.

  Lemma print_float_branch_range : forall ty x,
    print_float_branch ty x = 0 \/ print_float_branch ty x = 1 \/
    print_float_branch ty x = 2 \/ print_float_branch ty x = 3.
  Proof.
    intros ty x. unfold Model.print_float_branch.
    destruct (f64_isnan x || f64_isinf x); [auto|].
    destruct (f64_eq _ x); [auto|].
    destruct (fk ty); [destruct (contains 46 (fmt9g x))|destruct (contains 46 (fmt17g x))|]; auto.
  Qed.

  (* a hexadecimal integer literal of the type's bit pattern reads back as x *)
  Lemma hex_literal_roundtrip : forall ty x hs i,
    fty_ok ty -> float_attr ty x = x ->
    hs <> [] -> forallb is_hexdigit hs = true -> int_of_digits 16 hs = Some i ->
    0 <= i < 2 ^ (8 * fsize ty) -> unpack ty i = x ->
    match lex false ((str "0x" ++ hs) ++ str " : " ++ fname ty) with
    | Ok ts => parse_float_attr ty ts
    | NoTok => NoTok
    | Raise e => Raise e
    end = Ok x.
  Proof.
    intros ty x hs i [Hname Hsz] Hcanon Hne Hhex Hval Hrange Hunpack.
    assert (Hlex : lex false ((str "0x" ++ hs) ++ str " : " ++ fname ty) =
                   Ok [TInt (48 :: 120 :: hs); TColon; TBare (fname ty)]).
    { apply lex_of_lexes.
      - rewrite str_0x, str_colon. cbn [app].
        eapply lexes_cons; [apply lex1_hex; [assumption|assumption|reflexivity]|].
        apply lexes_type_suffix. assumption.
      - rewrite !app_length. cbn [List.length str]. destruct hs; [contradiction|]. cbn [List.length]. lia. }
    rewrite Hlex. unfold Model.parse_float_attr. cbn [is_hex_tok]. change (48 =? 48) with true.
    change (120 =? 120) with true. cbn [andb orb].
    unfold parse_optional_number. unfold get_int_value. change (48 =? 48) with true.
    change (120 =? 120) with true. cbn [andb orb]. rewrite Hval.
    rewrite text_eqb_refl. cbn [negb].
    replace ((0 <=? i) && (i <? 2 ^ (8 * fsize ty))) with true
      by (symmetry; apply andb_true_iff; split; [apply Z.leb_le|apply Z.ltb_lt]; lia).
    rewrite Hunpack, Hcanon. reflexivity.
  Qed.

  (* a decimal form that satisfies the pointwise CPython facts reads back as x *)
  Lemma decimal_literal_roundtrip : forall ty x s neg b,
    Model.lexes_float ty s = Some (neg, b) ->
    scan s = (if neg then f64_neg (scan b) else scan b) ->
    float_attr ty (scan s) = x ->
    match lex false (s ++ str " : " ++ fname ty) with
    | Ok ts => parse_float_attr ty ts
    | NoTok => NoTok
    | Raise e => Raise e
    end = Ok x.
  Proof.
    intros ty x s neg b Hlex Hneg Hval. unfold Model.lexes_float in Hlex.
    destruct (lex false (s ++ str " : " ++ fname ty)) as [ts| |e]; try discriminate.
    destruct ts as [|t1 ts]; [discriminate|].
    destruct t1; try discriminate.
    - (* MINUS FLOAT_LIT COLON BARE *)
      destruct ts as [|t2 [|t3 [|t4 [|t5 ts]]]]; try discriminate;
        destruct t2; try discriminate; try (destruct t3; discriminate).
      destruct t3; try discriminate. destruct t4; try discriminate.
      destruct (text_eqb t0 (fname ty) && text_eqb s (45 :: t)) eqn:E; [|discriminate].
      injection Hlex as <- <-. apply andb_true_iff in E as [En _].
      unfold Model.parse_float_attr. cbn [is_hex_tok parse_optional_number]. rewrite En. cbn [negb].
      rewrite <- Hneg, Hval. reflexivity.
    - (* FLOAT_LIT COLON BARE *)
      destruct ts as [|t2 [|t3 [|t4 ts]]]; try discriminate;
        destruct t2; try discriminate.
      destruct t3; try discriminate.
      destruct (text_eqb t0 (fname ty) && text_eqb s t) eqn:E; [|discriminate].
      injection Hlex as <- <-. apply andb_true_iff in E as [En _].
      unfold Model.parse_float_attr. cbn [is_hex_tok parse_optional_number]. rewrite En. cbn [negb].
      rewrite <- Hneg, Hval. reflexivity.
  Qed.

  Lemma decimal_ok_roundtrip : forall ty x s, decimal_ok ty x s = true ->
    match lex false (s ++ str " : " ++ fname ty) with
    | Ok ts => parse_float_attr ty ts
    | NoTok => NoTok
    | Raise e => Raise e
    end = Ok x.
  Proof.
    intros ty x s H. unfold Model.decimal_ok in H.
    destruct (Model.lexes_float ty s) as [[neg b]|] eqn:E; [|discriminate].
    apply andb_true_iff in H as [H4 Hv]. apply Z.eqb_eq in H4, Hv.
    eapply decimal_literal_roundtrip; eauto.
  Qed.

  (* C06_float_rt: every class of value (NaN with payload, infinities, signed zeros, finite) of every
     float type; `float_attr ty x = x` says x is the payload of a FloatAttr of that type *)
  Theorem float_roundtrip_ok : forall ty x,
    fty_ok ty -> float_attr ty x = x -> float_hyps ty x = true ->
    float_attr_roundtrip ty x = Ok x.
  Proof.
    intros ty x Hok Hcanon Hh. pose proof Hok as [Hname Hsz].
    unfold Model.float_attr_roundtrip, float_attr_text. rewrite print_float_by_branch.
    unfold Model.float_hyps in Hh. apply andb_true_iff in Hh as [Hrange Hh].
    apply andb_true_iff in Hrange as [Hp0 Hp1]. apply Z.leb_le in Hp0. apply Z.ltb_lt in Hp1.
    assert (Hup : unpack ty (pack ty x) = x) by exact Hcanon.
    destruct (print_float_branch_range ty x) as [Hb|[Hb|[Hb|Hb]]]; rewrite Hb in *.
    - (* NaN / infinity: hex of the packed bits, fixed width *)
      assert (Hk : Z.to_nat (2 * fsize ty) <> O) by lia.
      destruct (hex_fixed_spec false (Z.to_nat (2 * fsize ty)) (pack ty x) 0 Hp0) as (Hhorn & Hall & Hlen).
      apply hex_literal_roundtrip with (i := pack ty x); auto.
      + intros E. rewrite E in Hlen. cbn in Hlen. lia.
      + unfold int_of_digits.
        destruct (hex_fixed false (Z.to_nat (2 * fsize ty)) (pack ty x)) eqn:E;
          [cbn in Hlen; lia|]. rewrite Hhorn. f_equal.
        rewrite pow16_pow2 by lia. rewrite Z.mod_small by lia. lia.
    - (* short %.5e form *)
      destruct (f64_iszero x) eqn:Hz.
      + apply decimal_ok_roundtrip. assumption.
      + destruct (Model.lexes_float ty (insert0 (fmt5e x))) as [[neg b]|] eqn:E; [|discriminate].
        apply Z.eqb_eq in Hh. eapply decimal_literal_roundtrip; eauto.
        unfold Model.print_float_branch in Hb.
        destruct (f64_isnan x || f64_isinf x); [discriminate|].
        destruct (f64_eq (float_attr ty (scan (insert0 (fmt5e x)))) x) eqn:Eq.
        * apply f64_eq_nonzero; assumption.
        * destruct (fk ty); [destruct (contains 46 (fmt9g x))|destruct (contains 46 (fmt17g x))|]; discriminate.
    - (* %.9g / %.17g / repr *)
      apply decimal_ok_roundtrip. exact Hh.
    - (* hexadecimal fallback *)
      assert (Hbits : fallback_bits ty x = pack ty x).
      { unfold fallback_bits. destruct (fk ty); try reflexivity. apply Z.eqb_eq in Hh. congruence. }
      rewrite Hbits. unfold fmt_X.
      destruct (nat_digits_spec 16 true (pack ty x) ltac:(lia) Hp0) as (Hne & _ & Hval).
      apply hex_literal_roundtrip with (i := pack ty x); auto.
      apply nat_digits16_all_hex. assumption.
  Qed.
End FloatProofs.
