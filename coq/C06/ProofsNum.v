(* C06/ProofsNum.v -- proofs about the numeric kernels of C06/Model.v:
   integer attributes (all widths / signedness), print_float's decision logic against the
   float / hex literal branches of the parser (CPython oracles as Section variables with
   pointwise hypotheses), dense elements and dense arrays. *)
From Coq Require Import ZArith List Bool Lia String Ascii.
From XV Require Import C06.Model C06.ProofsText.
Import ListNotations.
Local Open Scope Z_scope.

(* ------------------------------------------------------------------ *)
(* 1. integer types: bounds                                             *)

Lemma shiftl_1 : forall w, 0 <= w -> Z.shiftl 1 w = 2 ^ w.
Proof. intros. rewrite Z.shiftl_mul_pow2 by assumption. lia. Qed.

(* Spec of the three bound functions of xdsl/utils/comparisons.py *)
Lemma bounds_cases : forall w, 0 <= w ->
  unsigned_upper_bound w = 2 ^ w /\
  ((w = 0 /\ signed_lower_bound w = 0 /\ signed_upper_bound w = 1) \/
   (1 <= w /\ signed_upper_bound w = 2 ^ (w - 1) /\ signed_lower_bound w = - 2 ^ (w - 1) /\
    2 ^ w = 2 * 2 ^ (w - 1) /\ 1 <= 2 ^ (w - 1))).
Proof.
  intros w Hw. unfold unsigned_upper_bound, signed_lower_bound, signed_upper_bound.
  rewrite shiftl_1 by assumption. split; [reflexivity|].
  destruct (Z.eq_dec w 0) as [->|Hz]; [left; repeat split; reflexivity|right].
  assert (Hp : 2 ^ w = 2 * 2 ^ (w - 1)).
  { replace w with (Z.succ (w - 1)) at 1 by lia. rewrite Z.pow_succ_r by lia. reflexivity. }
  assert (1 <= 2 ^ (w - 1)) by (pose proof (Z.pow_pos_nonneg 2 (w - 1)); lia).
  repeat split; try lia.
  - rewrite Z.max_l by lia. apply shiftl_1. lia.
  - rewrite Z.shiftr_div_pow2 by lia. rewrite Hp. change (2 ^ 1) with 2.
    rewrite Z.mul_comm, Z.div_mul by lia. reflexivity.
Qed.

Definition ity_ok (ty : ity) : Prop := match ty with TIndex => True | TInteger w _ => 0 <= w end.

(* Spec of IntegerAttr's stored value: exists exactly for in-range values; it is the value itself for
   unsigned types and the two's-complement representative (same residue mod 2^w, in the signed range)
   otherwise; storing is idempotent. *)
Lemma integer_attr_spec : forall w s v v', 0 <= w ->
  integer_attr (TInteger w s) v = Ok v' ->
  in_range s w v = true /\ in_range s w v' = true /\ v' mod 2 ^ w = v mod 2 ^ w /\
  (s <> Unsigned -> signed_lower_bound w <= v' < signed_upper_bound w) /\
  (s = Unsigned -> v' = v) /\
  normalized_value s w v' = Some v'.
Proof.
  intros w s v v' Hw H. unfold integer_attr, normalized_value in H.
  destruct (in_range s w v) eqn:Hr; cbn [negb] in H; [|discriminate].
  destruct (bounds_cases w Hw) as [HU Hc].
  assert (Hmod : (v - 2 ^ w) mod 2 ^ w = v mod 2 ^ w).
  { replace (v - 2 ^ w) with (v + (-1) * 2 ^ w) by lia. apply Z.mod_add.
    pose proof (Z.pow_pos_nonneg 2 w). lia. }
  unfold normalized_value, in_range, value_range in *. rewrite HU in *.
  pose proof Hr as Hr0.
  destruct s.
  - (* signless *)
    apply andb_true_iff in Hr as [Hlo Hhi]. apply Z.leb_le in Hlo. apply Z.ltb_lt in Hhi.
    destruct (signed_upper_bound w <=? v) eqn:Hs.
    + apply Z.leb_le in Hs.
      destruct ((signed_lower_bound w <=? v - 2 ^ w) && (v - 2 ^ w <? 2 ^ w)) eqn:Hr'; [|discriminate].
      injection H as <-.
      assert (Hlt : v - 2 ^ w < signed_upper_bound w)
        by (destruct Hc as [(-> & ? & ?)|(? & ? & ? & ? & ?)]; lia).
      assert (Hge : signed_lower_bound w <= v - 2 ^ w)
        by (destruct Hc as [(-> & ? & ?)|(? & ? & ? & ? & ?)]; lia).
      split; [reflexivity|]. split; [exact Hr'|]. split; [exact Hmod|].
      split; [intros _; lia|]. split; [intros; congruence|].
      rewrite Hr'. cbn [negb].
      replace (signed_upper_bound w <=? v - 2 ^ w) with false by (symmetry; apply Z.leb_gt; lia).
      reflexivity.
    + apply Z.leb_gt in Hs. rewrite Hr0 in H. injection H as <-.
      split; [reflexivity|]. split; [exact Hr0|]. split; [reflexivity|].
      split; [intros _; lia|]. split; [intros; congruence|].
      rewrite Hr0. cbn [negb].
      replace (signed_upper_bound w <=? v) with false by (symmetry; apply Z.leb_gt; lia). reflexivity.
  - (* signed *)
    apply andb_true_iff in Hr as [Hlo Hhi]. apply Z.leb_le in Hlo. apply Z.ltb_lt in Hhi.
    replace (signed_upper_bound w <=? v) with false in H by (symmetry; apply Z.leb_gt; lia).
    rewrite Hr0 in H. injection H as <-.
    split; [reflexivity|]. split; [exact Hr0|]. split; [reflexivity|].
    split; [intros _; lia|]. split; [intros; congruence|].
    rewrite Hr0. cbn [negb].
    replace (signed_upper_bound w <=? v) with false by (symmetry; apply Z.leb_gt; lia). reflexivity.
  - (* unsigned *)
    rewrite Hr0 in H. injection H as <-.
    split; [reflexivity|]. split; [exact Hr0|]. split; [reflexivity|].
    split; [intros; congruence|]. split; [reflexivity|].
    rewrite Hr0. reflexivity.
Qed.

Lemma integer_attr_total : forall w s v, in_range s w v = true -> 0 <= w ->
  exists v', integer_attr (TInteger w s) v = Ok v'.
Proof.
  intros w s v Hr Hw. unfold integer_attr, normalized_value. rewrite Hr. cbn [negb].
  destruct (bounds_cases w Hw) as [HU Hc].
  unfold in_range, value_range in *. destruct s.
  - apply andb_true_iff in Hr as [Hlo Hhi]. apply Z.leb_le in Hlo. apply Z.ltb_lt in Hhi.
    destruct (signed_upper_bound w <=? v) eqn:Hs.
    + apply Z.leb_le in Hs. eexists.
      replace ((signed_lower_bound w <=? v - unsigned_upper_bound w) &&
               (v - unsigned_upper_bound w <? unsigned_upper_bound w)) with true; [reflexivity|].
      symmetry. rewrite HU in *. apply andb_true_iff; split; [apply Z.leb_le|apply Z.ltb_lt];
      destruct Hc as [(-> & ? & ?)|(? & ? & ? & ? & ?)]; lia.
    + eexists. replace ((signed_lower_bound w <=? v) && (v <? unsigned_upper_bound w)) with true; [reflexivity|].
      symmetry. apply andb_true_iff; split; [apply Z.leb_le|apply Z.ltb_lt]; lia.
  - apply andb_true_iff in Hr as [Hlo Hhi]. apply Z.leb_le in Hlo. apply Z.ltb_lt in Hhi.
    replace (signed_upper_bound w <=? v) with false by (symmetry; apply Z.leb_gt; lia).
    eexists. replace ((signed_lower_bound w <=? v) && (v <? signed_upper_bound w)) with true; [reflexivity|].
    symmetry. apply andb_true_iff; split; [apply Z.leb_le|apply Z.ltb_lt]; lia.
  - eexists. rewrite Hr. reflexivity.
Qed.

Lemma integer_attr_idem : forall ty v v', ity_ok ty -> integer_attr ty v = Ok v' -> integer_attr ty v' = Ok v'.
Proof.
  intros [|w s] v v' Hok H; [cbn in *; congruence|].
  destruct (integer_attr_spec w s v v' Hok H) as (_ & Hr & _ & _ & _ & Hn).
  unfold integer_attr. rewrite Hn, Hr. reflexivity.
Qed.

(* ------------------------------------------------------------------ *)
(* 2. lexing numbers                                                    *)

Definition ends_num (rest : text) : Prop := match rest with [] => True | c :: _ => c = 32 end.

Lemma digit_range : forall d, is_digit d = true -> 48 <= d <= 57.
Proof. intros d H. unfold is_digit in H. apply andb_true_iff in H as [A B]. apply Z.leb_le in A, B. lia. Qed.

Lemma is_digit_id_char : forall c, is_digit c = true -> is_id_char c = true.
Proof. intros c H. unfold is_id_char. rewrite H. destruct (is_alpha_us c); reflexivity. Qed.

Lemma lex1_digit_start : forall fixed d r, is_digit d = true -> lex1 fixed (d :: r) = Ok (lex_number d r).
Proof.
  intros fixed d r Hd. pose proof (digit_range d Hd) as Hr.
  unfold lex1. rewrite (lex1_unfold_nonblank d r) by (split; lia).
  assert (Ha : is_alpha_us d = false).
  { unfold is_alpha_us, in_rng.
    replace (97 <=? d) with false by (symmetry; apply Z.leb_gt; lia).
    replace (d <=? 90) with true by (symmetry; apply Z.leb_le; lia).
    replace (65 <=? d) with false by (symmetry; apply Z.leb_gt; lia).
    replace (d =? 95) with false by (symmetry; apply Z.eqb_neq; lia). reflexivity. }
  rewrite Ha.
  repeat match goal with |- context [d =? ?k] =>
    replace (d =? k) with false by (symmetry; apply Z.eqb_neq; lia) end.
  rewrite Hd. reflexivity.
Qed.

Lemma span_digits : forall ds rest, forallb is_digit ds = true -> ends_num rest ->
  span_while is_digit (ds ++ rest) = (ds, rest).
Proof.
  intros ds rest Hds Hr. apply span_while_app; [assumption|].
  destruct rest as [|c r]; [exact I|]. cbn in Hr. subst. reflexivity.
Qed.

(* a decimal digit string followed by nothing or a blank is one INTEGER_LIT *)
Lemma lex1_decimal : forall fixed ds rest, ds <> [] -> forallb is_digit ds = true -> ends_num rest ->
  lex1 fixed (ds ++ rest) = Ok (TInt ds, rest).
Proof.
  intros fixed ds rest Hne Hds Hr. destruct ds as [|d ds]; [contradiction|].
  cbn [forallb] in Hds. apply andb_true_iff in Hds as [Hd Hds].
  cbn [app]. rewrite lex1_digit_start by assumption. unfold lex_number.
  assert (Hhex : match ds ++ rest with
                 | x :: h :: _ => (d =? 48) && (x =? 120) && is_hexdigit h
                 | _ => false end = false).
  { destruct ds as [|x ds'].
    - cbn [app]. destruct rest as [|c [|h r]]; try reflexivity. cbn in Hr. subst.
      rewrite andb_false_r. reflexivity.
    - cbn [app]. cbn [forallb] in Hds. apply andb_true_iff in Hds as [Hx _].
      pose proof (digit_range x Hx).
      destruct (ds' ++ rest); [reflexivity|].
      replace (x =? 120) with false by (symmetry; apply Z.eqb_neq; lia).
      rewrite andb_false_r. reflexivity. }
  rewrite Hhex. rewrite span_digits by assumption.
  destruct rest as [|c r]; [reflexivity|]. cbn in Hr. subst. reflexivity.
Qed.

(* "0x" + hex digits followed by nothing or a blank is one INTEGER_LIT *)
Lemma lex1_hex : forall fixed hs rest, hs <> [] -> forallb is_hexdigit hs = true -> ends_num rest ->
  lex1 fixed (48 :: 120 :: hs ++ rest) = Ok (TInt (48 :: 120 :: hs), rest).
Proof.
  intros fixed hs rest Hne Hhs Hr. rewrite lex1_digit_start by reflexivity. unfold lex_number.
  destruct hs as [|h hs']; [contradiction|]. cbn [app].
  cbn [forallb] in Hhs. apply andb_true_iff in Hhs as [Hh Hhs'].
  rewrite Hh. cbn [Z.eqb andb tl]. change ((48 =? 48) && (120 =? 120) && true) with true. cbv iota.
  change (h :: hs' ++ rest) with ((h :: hs') ++ rest).
  rewrite span_while_app.
  - reflexivity.
  - cbn [forallb]. rewrite Hh, Hhs'. reflexivity.
  - destruct rest as [|c r]; [exact I|]. cbn in Hr. subst. reflexivity.
Qed.

Lemma lex1_minus : forall fixed c r, c <> 62 -> lex1 fixed (45 :: c :: r) = Ok (TMinus, c :: r).
Proof.
  intros fixed c r Hc. unfold lex1. cbn [span_while]. cbn.
  replace (c =? 62) with false by (symmetry; apply Z.eqb_neq; assumption). reflexivity.
Qed.

Lemma get_int_value_decimal : forall ds, forallb is_digit ds = true -> get_int_value ds = int_of_digits 10 ds.
Proof.
  intros ds H. unfold get_int_value. destruct ds as [|z [|x r]]; try reflexivity.
  cbn [forallb] in H. apply andb_true_iff in H as [_ H]. apply andb_true_iff in H as [Hx _].
  pose proof (digit_range x Hx).
  replace (x =? 120) with false by (symmetry; apply Z.eqb_neq; lia).
  replace (x =? 88) with false by (symmetry; apply Z.eqb_neq; lia).
  rewrite andb_false_r. reflexivity.
Qed.

Lemma nat_digits10_value : forall n, 0 <= n -> get_int_value (nat_digits 10 false n) = Some n.
Proof.
  intros n Hn. rewrite get_int_value_decimal by (apply nat_digits10_all_digit; assumption).
  apply nat_digits_spec; lia.
Qed.

Lemma nat_digits_nonempty : forall n, 0 <= n -> nat_digits 10 false n <> [].
Proof. intros n Hn. apply nat_digits_spec; lia. Qed.

(* the token list of f"{v:d}" followed by nothing or a blank *)
Definition int_toks (v : Z) : list tok :=
  if v <? 0 then [TMinus; TInt (nat_digits 10 false (- v))] else [TInt (nat_digits 10 false v)].

Lemma lexes_fmt_d : forall fixed v rest ts, ends_num rest -> lexes fixed rest ts ->
  lexes fixed (fmt_d v ++ rest) (int_toks v ++ ts).
Proof.
  intros fixed v rest ts Hr Hts. unfold fmt_d, int_toks. destruct (v <? 0) eqn:E.
  - apply Z.ltb_lt in E. cbn [app].
    pose proof (nat_digits_nonempty (- v) ltac:(lia)) as Hne.
    pose proof (nat_digits10_all_digit false (- v) ltac:(lia)) as Hall.
    destruct (nat_digits 10 false (- v)) as [|d ds] eqn:Ed; [contradiction|].
    eapply lexes_cons.
    + cbn [app]. apply lex1_minus. cbn [forallb] in Hall. apply andb_true_iff in Hall as [Hd _].
      pose proof (digit_range d Hd). lia.
    + eapply lexes_cons; [|exact Hts]. change (d :: ds ++ rest) with ((d :: ds) ++ rest).
      apply lex1_decimal; [discriminate|assumption|assumption].
  - apply Z.ltb_ge in E. cbn [app]. eapply lexes_cons; [|exact Hts].
    apply lex1_decimal; [apply nat_digits_nonempty; lia|apply nat_digits10_all_digit; lia|assumption].
Qed.

Lemma int_toks_value : forall v rest allow_boolean,
  parse_optional_integer allow_boolean true (int_toks v ++ rest) = Ok (v, rest).
Proof.
  intros v rest ab. unfold int_toks. destruct (v <? 0) eqn:E.
  - apply Z.ltb_lt in E. cbn [app]. unfold parse_optional_integer.
    replace (if ab then parse_optional_boolean (TMinus :: TInt (nat_digits 10 false (- v)) :: rest) else None)
      with (@None (bool * list tok)) by (destruct ab; reflexivity).
    rewrite nat_digits10_value by lia. f_equal. f_equal. lia.
  - apply Z.ltb_ge in E. cbn [app]. unfold parse_optional_integer.
    replace (if ab then parse_optional_boolean (TInt (nat_digits 10 false v) :: rest) else None)
      with (@None (bool * list tok)) by (destruct ab; reflexivity).
    rewrite nat_digits10_value by lia. reflexivity.
Qed.

(* ------------------------------------------------------------------ *)
(* 3. integer types as text                                             *)

Lemma str_index : str "index" = [105; 110; 100; 101; 120]. Proof. reflexivity. Qed.
Lemma str_i : str "i" = [105]. Proof. reflexivity. Qed.
Lemma str_si : str "si" = [115; 105]. Proof. reflexivity. Qed.
Lemma str_ui : str "ui" = [117; 105]. Proof. reflexivity. Qed.
Lemma str_colon : str " : " = [32; 58; 32]. Proof. reflexivity. Qed.
Lemma str_0x : str "0x" = [48; 120]. Proof. reflexivity. Qed.

Lemma print_ity_bare : forall ty, ity_ok ty -> is_bare_id (print_ity ty) = true.
Proof.
  intros [|w s] Hok; [reflexivity|]. cbn in Hok.
  assert (Hd : forallb is_id_char (nat_digits 10 false w) = true).
  { apply forallb_forall. intros c Hc. apply is_digit_id_char.
    pose proof (nat_digits10_all_digit false w Hok) as H. rewrite forallb_forall in H. auto. }
  unfold print_ity, fmt_d. replace (w <? 0) with false by (symmetry; apply Z.ltb_ge; lia).
  destruct s; rewrite ?str_i, ?str_si, ?str_ui; cbn [app is_bare_id forallb]; rewrite ?Hd; reflexivity.
Qed.

Lemma parse_print_ity : forall ty, ity_ok ty -> parse_ity (print_ity ty) = Some ty.
Proof.
  intros [|w s] Hok; [reflexivity|]. cbn in Hok.
  pose proof (nat_digits10_all_digit false w Hok) as Hall.
  pose proof (nat_digits_nonempty w Hok) as Hne.
  assert (Hv : int_of_digits 10 (nat_digits 10 false w) = Some w) by (apply nat_digits_spec; lia).
  unfold print_ity, fmt_d. replace (w <? 0) with false by (symmetry; apply Z.ltb_ge; lia).
  destruct (nat_digits 10 false w) as [|d ds] eqn:Ed; [contradiction|].
  cbn [forallb] in Hall. apply andb_true_iff in Hall as [Hd Hds]. pose proof (digit_range d Hd).
  unfold parse_ity. rewrite str_index.
  destruct s; rewrite ?str_i, ?str_si, ?str_ui; cbn [app text_eqb].
  - (* "i" ++ digits vs "index": the second character is a digit, not 'n' *)
    replace (d =? 110) with false by (symmetry; apply Z.eqb_neq; lia).
    rewrite andb_false_r. cbn [andb].
    change (105 =? 115) with false. change (105 =? 117) with false. cbv iota.
    change (105 =? 105) with true. cbn [andb forallb]. rewrite Hd, Hds. cbn [andb]. rewrite Hv. reflexivity.
  - change (115 =? 105) with false. cbn [andb].
    change (115 =? 115) with true. cbv iota.
    change (105 =? 105) with true. cbn [andb forallb]. rewrite Hd, Hds. cbn [andb]. rewrite Hv. reflexivity.
  - change (117 =? 105) with false. cbn [andb].
    change (117 =? 115) with false. change (117 =? 117) with true. cbv iota.
    change (105 =? 105) with true. cbn [andb forallb]. rewrite Hd, Hds. cbn [andb]. rewrite Hv. reflexivity.
Qed.

Lemma lexes_type_suffix : forall fixed name, is_bare_id name = true ->
  lexes fixed (32 :: 58 :: 32 :: name) [TColon; TBare name].
Proof.
  intros fixed name Hb.
  eapply lexes_cons; [rewrite lex1_space; apply lex1_colon|].
  eapply lexes_cons.
  - rewrite lex1_space. rewrite <- (app_nil_r name) at 1. apply lex1_bare; [assumption|exact I].
  - apply lexes_nil. reflexivity.
Qed.

(* ------------------------------------------------------------------ *)
(* 4. C06_int_rt                                                        *)

Lemma i1_values : forall v v', integer_attr (TInteger 1 Signless) v = Ok v' -> v' = 0 \/ v' = -1.
Proof.
  intros v v' H. destruct (integer_attr_spec 1 Signless v v' ltac:(lia) H) as (_ & _ & _ & Hr & _).
  specialize (Hr ltac:(discriminate)). cbn in Hr. lia.
Qed.

Theorem int_attr_roundtrip_ok : forall ty v v', ity_ok ty ->
  integer_attr ty v = Ok v' -> integer_attr_roundtrip ty v' = Ok (ty, v').
Proof.
  intros ty v v' Hok H. pose proof (integer_attr_idem ty v v' Hok H) as Hidem.
  unfold integer_attr_roundtrip, print_integer_attr.
  destruct (is_i1 ty) eqn:Hi1.
  - (* `true` / `false` *)
    assert (ty = TInteger 1 Signless) as ->.
    { destruct ty as [|w [| |]]; try discriminate. cbn in Hi1. apply Z.eqb_eq in Hi1. subst. reflexivity. }
    destruct (i1_values v v' H) as [-> | ->]; vm_compute; reflexivity.
  - unfold print_int.
    assert (Hlex : lex false (fmt_d v' ++ str " : " ++ print_ity ty) =
                   Ok (int_toks v' ++ [TColon; TBare (print_ity ty)])).
    { apply lex_of_lexes.
      - apply lexes_fmt_d; [reflexivity|]. apply lexes_type_suffix. apply print_ity_bare. assumption.
      - rewrite !app_length. cbn [List.length str]. unfold int_toks, fmt_d.
        destruct (v' <? 0) eqn:E.
        + apply Z.ltb_lt in E. pose proof (nat_digits_nonempty (- v') ltac:(lia)).
          destruct (nat_digits 10 false (- v')); [contradiction|]. cbn [List.length]. lia.
        + cbn [List.length]. lia. }
    rewrite Hlex. unfold parse_integer_attr.
    assert (Hnb : parse_optional_boolean (int_toks v' ++ [TColon; TBare (print_ity ty)]) = None).
    { unfold int_toks. destruct (v' <? 0); reflexivity. }
    rewrite Hnb. rewrite int_toks_value. rewrite parse_print_ity by assumption. rewrite Hidem. reflexivity.
Qed.

(* ------------------------------------------------------------------ *)
(* 5. floats                                                            *)

Lemma f64_eq_nonzero : forall a b, f64_eq a b = true -> f64_iszero b = false -> a = b.
Proof.
  intros a b H Hz. unfold f64_eq in H. apply andb_true_iff in H as [_ H].
  apply orb_true_iff in H as [H|H]; [apply Z.eqb_eq in H; assumption|].
  apply andb_true_iff in H as [_ H]. congruence.
Qed.

Lemma pow16_pow2 : forall s, 0 <= s -> 16 ^ Z.of_nat (Z.to_nat (2 * s)) = 2 ^ (8 * s).
Proof.
  intros s Hs. rewrite Z2Nat.id by lia. change 16 with (2 ^ 4).
  rewrite <- Z.pow_mul_r by lia. f_equal. lia.
Qed.

Section FloatProofs.
  Variable pack : fty -> Z -> Z.
  Variable unpack : fty -> Z -> Z.
  Variables fmt5e fmt9g fmt17g repr_ : Z -> text.
  Variable scan : text -> Z.
  Variable of_int : Z -> res Z.

  Notation float_attr := (float_attr pack unpack).
  Notation print_float := (print_float pack unpack fmt5e fmt9g fmt17g repr_ scan).
  Notation print_float_branch := (print_float_branch pack unpack fmt5e fmt9g fmt17g scan).
  Notation parse_float_attr := (parse_float_attr pack unpack scan of_int).
  Notation float_attr_roundtrip := (float_attr_roundtrip pack unpack fmt5e fmt9g fmt17g repr_ scan of_int).
  Notation float_hyps := (float_hyps pack unpack fmt5e fmt9g fmt17g repr_ scan).
  Notation lexes_float := (lexes_float).
  Notation decimal_ok := (decimal_ok pack unpack scan).

  Definition fty_ok (ty : fty) : Prop := is_bare_id (fname ty) = true /\ 0 < fsize ty.

  (* the decimal form the printer chooses in branch 2 *)
  Definition long_form (ty : fty) (x : Z) : text :=
    match fk ty with F32 => fmt9g x | F64 => fmt17g x | FRepr => repr_ x end.
  (* the integer printed in hex by the fallback branch *)
  Definition fallback_bits (ty : fty) (x : Z) : Z := match fk ty with F64 => x | _ => pack ty x end.

  Lemma print_float_by_branch : forall ty x,
    print_float ty x =
    match print_float_branch ty x with
    | 0 => str "0x" ++ hex_fixed false (Z.to_nat (2 * fsize ty)) (pack ty x)
    | 1 => insert0 (fmt5e x)
    | 2 => long_form ty x
    | _ => str "0x" ++ fmt_X (fallback_bits ty x)
    end.
  Proof.
    intros ty x. unfold Model.print_float, Model.print_float_branch, long_form, fallback_bits.
    destruct (f64_isnan x || f64_isinf x); [reflexivity|].
    destruct (f64_eq _ x); [reflexivity|].
    destruct (fk ty); [destruct (contains 46 (fmt9g x))|destruct (contains 46 (fmt17g x))|]; reflexivity.
  Qed.

  Lemma print_float_branch_range : forall ty x,
    print_float_branch ty x = 0 \/ print_float_branch ty x = 1 \/
    print_float_branch ty x = 2 \/ print_float_branch ty x = 3.
  Proof.
    intros ty x. unfold Model.print_float_branch.
    destruct (f64_isnan x || f64_isinf x); [auto|].
    destruct (f64_eq _ x); [auto|].
    destruct (fk ty); [destruct (contains 46 (fmt9g x))|destruct (contains 46 (fmt17g x))|]; auto.
  Qed.

  (* a hexadecimal integer literal of the type's bit pattern reads back as x *)
  Lemma hex_literal_roundtrip : forall ty x hs i,
    fty_ok ty -> float_attr ty x = x ->
    hs <> [] -> forallb is_hexdigit hs = true -> int_of_digits 16 hs = Some i ->
    0 <= i < 2 ^ (8 * fsize ty) -> unpack ty i = x ->
    match lex false ((str "0x" ++ hs) ++ str " : " ++ fname ty) with
    | Ok ts => parse_float_attr ty ts
    | NoTok => NoTok
    | Raise e => Raise e
    end = Ok x.
  Proof.
    intros ty x hs i [Hname Hsz] Hcanon Hne Hhex Hval Hrange Hunpack.
    assert (Hlex : lex false ((str "0x" ++ hs) ++ str " : " ++ fname ty) =
                   Ok [TInt (48 :: 120 :: hs); TColon; TBare (fname ty)]).
    { apply lex_of_lexes.
      - rewrite str_0x, str_colon. cbn [app].
        eapply lexes_cons; [apply lex1_hex; [assumption|assumption|reflexivity]|].
        apply lexes_type_suffix. assumption.
      - rewrite !app_length. cbn [List.length str]. destruct hs; [contradiction|]. cbn [List.length]. lia. }
    rewrite Hlex. unfold Model.parse_float_attr. cbn [is_hex_tok]. change (48 =? 48) with true.
    change (120 =? 120) with true. cbn [andb orb].
    unfold parse_optional_number. unfold get_int_value. change (48 =? 48) with true.
    change (120 =? 120) with true. cbn [andb orb]. rewrite Hval.
    rewrite text_eqb_refl. cbn [negb].
    replace ((0 <=? i) && (i <? 2 ^ (8 * fsize ty))) with true
      by (symmetry; apply andb_true_iff; split; [apply Z.leb_le|apply Z.ltb_lt]; lia).
    rewrite Hunpack, Hcanon. reflexivity.
  Qed.

  Lemma lexes_float_inv : forall ty s neg b, Model.lexes_float ty s = Some (neg, b) ->
    lex false (s ++ str " : " ++ fname ty) =
    Ok ((if neg then [TMinus] else []) ++ [TFloat b; TColon; TBare (fname ty)]).
  Proof.
    intros ty s neg b H. unfold Model.lexes_float in H.
    repeat match type of H with
           | context [match ?x with _ => _ end] => destruct x eqn:?; try discriminate
           end;
    injection H as <- <-;
    match goal with E : _ && _ = true |- _ => apply andb_true_iff in E as [En _]; apply text_eqb_eq in En; subst end;
    reflexivity.
  Qed.

  (* a decimal form that satisfies the pointwise CPython facts reads back as x *)
  Lemma decimal_literal_roundtrip : forall ty x s neg b,
    Model.lexes_float ty s = Some (neg, b) ->
    scan s = (if neg then f64_neg (scan b) else scan b) ->
    float_attr ty (scan s) = x ->
    match lex false (s ++ str " : " ++ fname ty) with
    | Ok ts => parse_float_attr ty ts
    | NoTok => NoTok
    | Raise e => Raise e
    end = Ok x.
  Proof.
    intros ty x s neg b Hlex Hneg Hval. rewrite (lexes_float_inv ty s neg b Hlex).
    unfold Model.parse_float_attr.
    destruct neg; cbn [app is_hex_tok parse_optional_number]; rewrite text_eqb_refl; cbn [negb];
      rewrite <- Hneg, Hval; reflexivity.
  Qed.

  Lemma decimal_ok_roundtrip : forall ty x s, decimal_ok ty x s = true ->
    match lex false (s ++ str " : " ++ fname ty) with
    | Ok ts => parse_float_attr ty ts
    | NoTok => NoTok
    | Raise e => Raise e
    end = Ok x.
  Proof.
    intros ty x s H. unfold Model.decimal_ok in H.
    destruct (Model.lexes_float ty s) as [[neg b]|] eqn:E; [|discriminate].
    apply andb_true_iff in H as [H4 Hv]. apply Z.eqb_eq in H4, Hv.
    eapply decimal_literal_roundtrip; eauto.
  Qed.

  (* C06_float_rt: every class of value (NaN with payload, infinities, signed zeros, finite) of every
     float type; `float_attr ty x = x` says x is the payload of a FloatAttr of that type *)
  Theorem float_roundtrip_ok : forall ty x,
    fty_ok ty -> float_attr ty x = x -> float_hyps ty x = true ->
    float_attr_roundtrip ty x = Ok x.
  Proof.
    intros ty x Hok Hcanon Hh. pose proof Hok as [Hname Hsz].
    unfold Model.float_attr_roundtrip, float_attr_text. rewrite print_float_by_branch.
    unfold Model.float_hyps in Hh. apply andb_true_iff in Hh as [Hrange Hh].
    apply andb_true_iff in Hrange as [Hp0 Hp1]. apply Z.leb_le in Hp0. apply Z.ltb_lt in Hp1.
    assert (Hup : unpack ty (pack ty x) = x) by exact Hcanon.
    destruct (print_float_branch_range ty x) as [Hb|[Hb|[Hb|Hb]]]; rewrite Hb in *.
    - (* NaN / infinity: hex of the packed bits, fixed width *)
      assert (Hk : Z.to_nat (2 * fsize ty) <> O) by lia.
      destruct (hex_fixed_spec false (Z.to_nat (2 * fsize ty)) (pack ty x) 0 Hp0) as (Hhorn & Hall & Hlen).
      apply hex_literal_roundtrip with (i := pack ty x); auto.
      + intros E. rewrite E in Hlen. cbn [List.length] in Hlen. congruence.
      + unfold int_of_digits.
        destruct (hex_fixed false (Z.to_nat (2 * fsize ty)) (pack ty x)) eqn:E;
          [cbn [List.length] in Hlen; congruence|]. rewrite Hhorn. f_equal.
        rewrite pow16_pow2 by lia. rewrite Z.mod_small by lia. lia.
    - (* short %.5e form *)
      destruct (f64_iszero x) eqn:Hz.
      + apply decimal_ok_roundtrip. assumption.
      + destruct (Model.lexes_float ty (insert0 (fmt5e x))) as [[neg b]|] eqn:E; [|discriminate].
        apply Z.eqb_eq in Hh. eapply decimal_literal_roundtrip; eauto.
        unfold Model.print_float_branch in Hb.
        destruct (f64_isnan x || f64_isinf x); [discriminate|].
        destruct (f64_eq (float_attr ty (scan (insert0 (fmt5e x)))) x) eqn:Eq.
        * apply f64_eq_nonzero; assumption.
        * destruct (fk ty); [destruct (contains 46 (fmt9g x))|destruct (contains 46 (fmt17g x))|]; discriminate.
    - (* %.9g / %.17g / repr *)
      apply decimal_ok_roundtrip. exact Hh.
    - (* hexadecimal fallback *)
      assert (Hbits : fallback_bits ty x = pack ty x).
      { unfold fallback_bits. destruct (fk ty); try reflexivity. apply Z.eqb_eq in Hh. congruence. }
      rewrite Hbits. unfold fmt_X.
      destruct (nat_digits_spec 16 true (pack ty x) ltac:(lia) Hp0) as (Hne & _ & Hval).
      apply hex_literal_roundtrip with (i := pack ty x); auto.
      apply nat_digits16_all_hex. assumption.
  Qed.
End FloatProofs.

(* ------------------------------------------------------------------ *)
(* 6. dense elements and dense arrays                                   *)

Lemma map_res_map : forall {A B} (f : A -> res B) (g : B -> A) ps,
  Forall (fun p => f (g p) = Ok p) ps -> map_res f (map g ps) = Ok ps.
Proof.
  induction ps as [|p ps IH]; intros H; [reflexivity|]. inversion H; subst.
  cbn [map map_res]. rewrite H2, IH by assumption. reflexivity.
Qed.

Lemma le_bytes_length : forall k v, List.length (le_bytes k v) = k.
Proof. induction k; intros; cbn; [reflexivity|]. rewrite IHk. reflexivity. Qed.

Lemma le_bytes_bytes : forall k v, Forall is_byte (le_bytes k v).
Proof.
  induction k; intros; cbn; constructor; [|apply IHk].
  unfold is_byte. apply Z.mod_pos_bound. lia.
Qed.

Lemma of_le_bytes_le_bytes : forall k v, of_le_bytes (le_bytes k v) = v mod 256 ^ Z.of_nat k.
Proof.
  induction k; intros v.
  - cbn. rewrite Z.mod_1_r. reflexivity.
  - cbn [le_bytes of_le_bytes]. rewrite IHk. rewrite Nat2Z.inj_succ, Z.pow_succ_r by lia.
    assert (0 < 256 ^ Z.of_nat k) by (apply Z.pow_pos_nonneg; lia).
    rewrite Z.rem_mul_r by lia. lia.
Qed.

Lemma bytes_fromhex_hex : forall up bs, Forall is_byte bs -> bytes_fromhex (hex_of_bytes up bs) = Some bs.
Proof.
  induction bs as [|b bs IH]; intros H; [reflexivity|]. inversion H as [|? ? Hb Hbs]; subst.
  unfold is_byte in Hb. unfold hex_of_bytes in *. cbn [flat_map app bytes_fromhex].
  assert (Hq : 0 <= b / 16 < 16) by (split; [apply Z.div_pos|apply Z.div_lt_upper_bound]; lia).
  assert (Hm : 0 <= b mod 16 < 16) by (apply Z.mod_pos_bound; lia).
  rewrite (digit_val_char up _ Hq), (digit_val_char up _ Hm), IH by assumption.
  f_equal. f_equal. pose proof (Z.div_mod b 16 ltac:(lia)). lia.
Qed.

Lemma flat_map_bytes : forall k ps, Forall is_byte (flat_map (le_bytes k) ps).
Proof. induction ps; cbn; [constructor|]. apply Forall_app. split; [apply le_bytes_bytes|assumption]. Qed.

Lemma flat_map_le_length : forall k ps,
  List.length (flat_map (le_bytes k) ps) = (List.length ps * k)%nat.
Proof. induction ps; cbn; [reflexivity|]. rewrite app_length, le_bytes_length, IHps. reflexivity. Qed.

Lemma firstn_app_exact : forall {A} (a b : list A) k, List.length a = k -> firstn k (a ++ b) = a.
Proof. intros A a b k <-. rewrite firstn_app, Nat.sub_diag, firstn_all. cbn. apply app_nil_r. Qed.

Lemma skipn_app_exact : forall {A} (a b : list A) k, List.length a = k -> skipn k (a ++ b) = b.
Proof. intros A a b k <-. rewrite skipn_app, Nat.sub_diag, skipn_all. reflexivity. Qed.

Lemma chunks_flat_map : forall k ps fuel, k <> O -> (List.length ps <= fuel)%nat ->
  chunks fuel k (flat_map (le_bytes k) ps) = map (le_bytes k) ps.
Proof.
  induction ps as [|p ps IH]; intros fuel Hk Hf.
  - destruct fuel; reflexivity.
  - destruct fuel; [cbn in Hf; lia|]. cbn [flat_map map chunks].
    destruct (le_bytes k p ++ flat_map (le_bytes k) ps) eqn:E.
    + exfalso. assert (Hl : List.length (le_bytes k p ++ flat_map (le_bytes k) ps) = O) by (rewrite E; reflexivity).
      rewrite app_length, le_bytes_length in Hl. lia.
    + rewrite <- E. pose proof (le_bytes_length k p) as Hl.
      rewrite (firstn_app_exact _ _ k Hl), (skipn_app_exact _ _ k Hl).
      rewrite IH by (cbn in Hf; auto; lia). reflexivity.
Qed.

Lemma repeat_all_eq : forall (ps : list Z) p0, (forall p, In p ps -> p = p0) ->
  repeat p0 (List.length ps) = ps.
Proof.
  induction ps as [|p ps IH]; intros p0 H; [reflexivity|]. cbn.
  rewrite (H p (or_introl eq_refl)). f_equal. apply IH. intros q Hq. apply H. right. assumption.
Qed.

Lemma prod_nonneg : forall shape, Forall (fun d => 0 <= d) shape -> 0 <= fold_right Z.mul 1 shape.
Proof. induction 1; cbn; [lia|]. nia. Qed.

Lemma prod_pos_dims : forall shape, Forall (fun d => 0 <= d) shape -> fold_right Z.mul 1 shape <> 0 ->
  forallb (fun d => 1 <=? d) shape = true.
Proof.
  induction 1 as [|d shape Hd Hs IH]; cbn; intros Hp; [reflexivity|].
  assert (d <> 0 /\ fold_right Z.mul 1 shape <> 0) as [Hd0 Hp0] by nia.
  rewrite IH by assumption. replace (1 <=? d) with true by (symmetry; apply Z.leb_le; lia). reflexivity.
Qed.

Lemma shape_eqb_refl : forall a, shape_eqb a a = true.
Proof. induction a; cbn; [reflexivity|]. rewrite Z.eqb_refl, IHa. reflexivity. Qed.

Section DenseProofs.
  Variable pack : fty -> Z -> Z.
  Variable unpack : fty -> Z -> Z.
  Variables fmt5e fmt9g fmt17g repr_ : Z -> text.
  Variable scan : text -> Z.
  Variable of_int : Z -> res Z.

  Notation elem_value := (elem_value unpack).
  Notation print_elem := (print_elem pack unpack fmt5e fmt9g fmt17g repr_ scan).
  Notation parse_elem_text := (parse_elem_text pack unpack scan of_int).
  Notation is_splat := (is_splat).
  Notation print_dense := (print_dense pack unpack fmt5e fmt9g fmt17g repr_ scan).
  Notation parse_dense := (parse_dense pack unpack scan of_int).
  Notation dense_roundtrip := (dense_roundtrip pack unpack fmt5e fmt9g fmt17g repr_ scan of_int).
  Notation print_densearray := (print_densearray pack unpack fmt5e fmt9g fmt17g repr_ scan).
  Notation parse_array_elem := (parse_array_elem pack unpack scan).
  Notation densearray_roundtrip := (densearray_roundtrip pack unpack fmt5e fmt9g fmt17g repr_ scan).

  (* `hexfix` / `splatfix` = false: the unchanged tree; true: with the proposed repairs C06-2/3 and C06-4 *)

  (* one element printed on its own reads back as the stored element *)
  Definition elem_rt (hexfix : bool) (e : ety) (p : Z) : Prop :=
    parse_elem_text hexfix e (print_elem e (elem_value e p)) = Ok p.
  (* the stored element survives its little-endian byte representation (hex-string form) *)
  Definition payload_fits (e : ety) (sz : Z) (p : Z) : Prop :=
    payload_of_bytes e sz (le_bytes (Z.to_nat sz) p) = p.
  (* the splat test is exact: when it fires, all stored elements are the same *)
  Definition splat_exact (splatfix : bool) (e : ety) (ps : list Z) : Prop :=
    (if splatfix then is_splat_bits ps else is_splat e (map (elem_value e) ps)) = true ->
    forall p, In p ps -> p = hd 0 ps.

  Theorem dense_roundtrip_ok : forall hexfix splatfix e shape ps sz,
    elem_size e = Ok sz -> 0 < sz ->
    prod shape = Z.of_nat (List.length ps) -> Forall (fun d => 0 <= d) shape ->
    Forall (elem_rt hexfix e) ps -> Forall (payload_fits e sz) ps -> splat_exact splatfix e ps ->
    dense_roundtrip hexfix splatfix e shape ps = Ok ps.
  Proof.
    intros hexfix splatfix e shape ps sz Hsz Hszpos Hprod Hdims Hrt Hfits Hsplat.
    unfold Model.dense_roundtrip, Model.print_dense.
    set (len := Z.of_nat (List.length ps)) in *.
    destruct (len =? 0) eqn:Hlen0.
    { apply Z.eqb_eq in Hlen0. subst len. destruct ps; [|cbn in Hlen0; lia].
      unfold Model.parse_dense. rewrite Hprod. reflexivity. }
    apply Z.eqb_neq in Hlen0.
    destruct ps as [|p0 ps']; [subst len; cbn in Hlen0; lia|].
    destruct (if splatfix then is_splat_bits (p0 :: ps') else is_splat e (map (elem_value e) (p0 :: ps'))) eqn:Hsp.
    { (* splat *)
      unfold Model.parse_dense. cbn [map hd]. inversion Hrt as [|? ? Hrt0 _]; subst.
      unfold elem_rt in Hrt0. rewrite Hrt0. rewrite Hprod. subst len. rewrite Nat2Z.id.
      f_equal. apply repeat_all_eq. intros p Hp. apply (Hsplat Hsp p Hp). }
    destruct (100 <? len) eqn:Hbig.
    { (* hex string *)
      apply Z.ltb_lt in Hbig. rewrite Hsz. unfold Model.parse_dense.
      set (bs := flat_map (le_bytes (Z.to_nat sz)) (p0 :: ps')).
      rewrite bytes_fromhex_hex by apply flat_map_bytes. rewrite Hsz.
      assert (Hbl : Z.of_nat (List.length bs) = len * sz).
      { unfold bs. rewrite flat_map_le_length, Nat2Z.inj_mul, Z2Nat.id by lia. reflexivity. }
      replace (Z.of_nat (List.length bs) =? sz) with false by (symmetry; apply Z.eqb_neq; nia).
      rewrite Hbl, Z.div_mul by lia. rewrite Hprod, Z.eqb_refl.
      replace (Z.to_nat (len * sz)) with (List.length bs) by lia.
      rewrite firstn_all. unfold bs.
      rewrite chunks_flat_map by (try lia; rewrite flat_map_le_length; nia).
      rewrite map_map. f_equal. rewrite <- (map_id (p0 :: ps')) at 2.
      apply map_ext_in. intros p Hp. rewrite Forall_forall in Hfits. apply (Hfits p Hp). }
    (* nested list *)
    assert (Hcomplete : shape_is_complete shape len = true).
    { unfold shape_is_complete. fold (prod shape). rewrite Hprod, Z.eqb_refl, andb_true_r.
      apply prod_pos_dims; [assumption|]. fold (prod shape). lia. }
    rewrite Hcomplete. unfold Model.parse_dense.
    rewrite map_map. rewrite (map_res_map (parse_elem_text hexfix e) (fun p => print_elem e (elem_value e p))).
    - rewrite shape_eqb_refl. reflexivity.
    - exact Hrt.
  Qed.

  Theorem densearray_roundtrip_ok : forall hexfix e ps,
    Forall (fun p => parse_array_elem hexfix e (print_elem e (elem_value e p)) = Ok p) ps ->
    densearray_roundtrip hexfix e ps = Ok ps.
  Proof.
    intros hexfix e ps H. unfold Model.densearray_roundtrip, Model.print_densearray.
    apply (map_res_map (parse_array_elem hexfix e) (fun p => print_elem e (elem_value e p))). exact H.
  Qed.

  (* ---- integer elements: every premise holds ---- *)

  (* a stored integer element: the normal form of IntegerAttr (and int64 for index) *)
  Definition int_payload_ok (ty : ity) (p : Z) : Prop :=
    match ty with
    | TIndex => - 9223372036854775808 <= p < 9223372036854775808
    | TInteger w s => 0 <= w /\ integer_attr ty p = Ok p
    end.

  Lemma lex_fmt_d : forall v, lex false (fmt_d v) = Ok (int_toks v).
  Proof.
    intros v. rewrite <- (app_nil_r (fmt_d v)), <- (app_nil_r (int_toks v)).
    apply lex_of_lexes.
    - apply lexes_fmt_d; [exact I|]. apply lexes_nil. reflexivity.
    - rewrite !app_nil_r. unfold int_toks, fmt_d. destruct (v <? 0) eqn:E.
      + apply Z.ltb_lt in E. pose proof (nat_digits_nonempty (- v) ltac:(lia)).
        destruct (nat_digits 10 false (- v)); [contradiction|]. cbn [List.length]. lia.
      + apply Z.ltb_ge in E. pose proof (nat_digits_nonempty v ltac:(lia)).
        destruct (nat_digits 10 false v); [contradiction|]. cbn [List.length]. lia.
  Qed.

  Lemma parse_elem_int_toks : forall v, exists h, Model.parse_elem scan (int_toks v) = Ok (VInt v, h).
  Proof.
    intros v. unfold int_toks. destruct (v <? 0) eqn:E.
    - apply Z.ltb_lt in E. cbn [Model.parse_elem]. rewrite nat_digits10_value by lia. eexists. f_equal. f_equal. f_equal. lia.
    - apply Z.ltb_ge in E. cbn [Model.parse_elem]. rewrite nat_digits10_value by lia. eexists. reflexivity.
  Qed.

  Lemma int_elem_rt : forall hexfix ty p, int_payload_ok ty p -> elem_rt hexfix (EI ty) p.
  Proof.
    intros hexfix ty p Hok. unfold elem_rt, Model.parse_elem_text, Model.print_elem, Model.elem_value.
    destruct (is_i1 ty) eqn:Hi1.
    - assert (ty = TInteger 1 Signless) as ->.
      { destruct ty as [|w [| |]]; try discriminate. cbn in Hi1. apply Z.eqb_eq in Hi1. subst. reflexivity. }
      destruct Hok as [_ Hok]. destruct (i1_values p p Hok) as [-> | ->]; vm_compute; reflexivity.
    - unfold print_int. rewrite lex_fmt_d. destruct (parse_elem_int_toks p) as [h ->].
      destruct ty as [|w s].
      + cbn in Hok. unfold Model.elem_payload, to_int, pyval_ltz. cbn [negb andb]. rewrite andb_false_r.
        replace ((-9223372036854775808 <=? p) && (p <? 9223372036854775808)) with true
          by (symmetry; apply andb_true_iff; split; [apply Z.leb_le|apply Z.ltb_lt]; lia).
        reflexivity.
      + destruct Hok as [Hw Hok]. destruct (integer_attr_spec w s p p Hw Hok) as (Hr & _ & _ & Hsg & _ & Hn).
        unfold Model.elem_payload, to_int, pyval_ltz.
        assert (Hneg : (p <? 0) && negb (match s with Unsigned => false | _ => true end) = false).
        { destruct s; cbn [negb]; rewrite ?andb_false_r; try reflexivity.
          unfold in_range, value_range in Hr. apply andb_true_iff in Hr as [Hlo _]. apply Z.leb_le in Hlo.
          replace (p <? 0) with false by (symmetry; apply Z.ltb_ge; lia). reflexivity. }
        rewrite Hneg, Hn. reflexivity.
  Qed.

  Lemma int_size_cases : forall w s sz, 0 <= w -> int_size (TInteger w s) = Ok sz ->
    (sz = 1 \/ sz = 2 \/ sz = 4 \/ sz = 8) /\ w <= 8 * sz.
  Proof.
    intros w s sz Hw H. unfold int_size in H. rewrite Z.shiftr_div_pow2 in H by lia. change (2 ^ 3) with 8 in H.
    pose proof (Z.div_mod (w + 7) 8 ltac:(lia)). pose proof (Z.mod_pos_bound (w + 7) 8 ltac:(lia)).
    destruct (8 <=? (w + 7) / 8 - 1) eqn:E8; [discriminate|]. apply Z.leb_gt in E8.
    destruct ((w + 7) / 8 - 1 <=? 0) eqn:E0; [apply Z.leb_le in E0; injection H as <-; split; [auto|lia]|].
    apply Z.leb_gt in E0.
    destruct ((w + 7) / 8 - 1 =? 1) eqn:E1; [apply Z.eqb_eq in E1; injection H as <-; split; [auto|lia]|].
    apply Z.eqb_neq in E1.
    destruct ((w + 7) / 8 - 1 <=? 3) eqn:E3; [apply Z.leb_le in E3|apply Z.leb_gt in E3];
      injection H as <-; split; auto; lia.
  Qed.

  Lemma signed_fits : forall sz p, 0 < sz -> - 2 ^ (8 * sz - 1) <= p < 2 ^ (8 * sz - 1) ->
    let u := p mod 256 ^ sz in (if 2 ^ (8 * sz - 1) <=? u then u - 2 ^ (8 * sz) else u) = p.
  Proof.
    intros sz p Hsz Hp. change 256 with (2 ^ 8). rewrite <- Z.pow_mul_r by lia.
    assert (Hpow : 2 ^ (8 * sz) = 2 * 2 ^ (8 * sz - 1)).
    { replace (8 * sz) with (Z.succ (8 * sz - 1)) at 1 by lia. rewrite Z.pow_succ_r by lia. reflexivity. }
    assert (0 < 2 ^ (8 * sz - 1)) by (apply Z.pow_pos_nonneg; lia).
    cbv zeta. destruct (Z_lt_le_dec p 0) as [Hn|Hn].
    - replace (p mod 2 ^ (8 * sz)) with (p + 2 ^ (8 * sz)).
      + replace (2 ^ (8 * sz - 1) <=? p + 2 ^ (8 * sz)) with true by (symmetry; apply Z.leb_le; lia). lia.
      + apply Z.mod_unique with (q := -1); lia.
    - rewrite Z.mod_small by lia.
      replace (2 ^ (8 * sz - 1) <=? p) with false by (symmetry; apply Z.leb_gt; lia). reflexivity.
  Qed.

  Lemma int_payload_fits : forall ty p sz, int_payload_ok ty p -> int_size ty = Ok sz ->
    payload_fits (EI ty) sz p.
  Proof.
    intros ty p sz Hok Hsz. unfold payload_fits, payload_of_bytes.
    rewrite of_le_bytes_le_bytes.
    destruct ty as [|w s].
    - cbn in Hsz. injection Hsz as <-. cbn in Hok. rewrite Z2Nat.id by lia.
      apply (signed_fits 8 p); [lia|]. cbn. lia.
    - destruct Hok as [Hw Hok]. destruct (int_size_cases w s sz Hw Hsz) as [Hcases Hle].
      assert (Hszpos : 0 < sz) by lia. rewrite Z2Nat.id by lia.
      destruct (integer_attr_spec w s p p Hw Hok) as (Hr & _ & _ & Hsg & _ & _).
      destruct (bounds_cases w Hw) as [HU Hc].
      assert (Hmono : 2 ^ w <= 2 ^ (8 * sz)) by (apply Z.pow_le_mono_r; lia).
      destruct s.
      + apply (signed_fits sz p Hszpos). specialize (Hsg ltac:(discriminate)).
        assert (0 < 2 ^ (8 * sz - 1)) by (apply Z.pow_pos_nonneg; lia).
        destruct Hc as [(-> & Hl & Hs)|(Hw1 & Hs & Hl & Hp & Hp1)].
        * rewrite Hl, Hs in Hsg. lia.
        * rewrite Hl, Hs in Hsg.
          assert (2 ^ (w - 1) <= 2 ^ (8 * sz - 1)) by (apply Z.pow_le_mono_r; lia). lia.
      + apply (signed_fits sz p Hszpos). specialize (Hsg ltac:(discriminate)).
        assert (0 < 2 ^ (8 * sz - 1)) by (apply Z.pow_pos_nonneg; lia).
        destruct Hc as [(-> & Hl & Hs)|(Hw1 & Hs & Hl & Hp & Hp1)].
        * rewrite Hl, Hs in Hsg. lia.
        * rewrite Hl, Hs in Hsg.
          assert (2 ^ (w - 1) <= 2 ^ (8 * sz - 1)) by (apply Z.pow_le_mono_r; lia). lia.
      + unfold in_range, value_range in Hr. rewrite HU in Hr.
        apply andb_true_iff in Hr as [Hlo Hhi]. apply Z.leb_le in Hlo. apply Z.ltb_lt in Hhi.
        change 256 with (2 ^ 8). rewrite <- Z.pow_mul_r by lia. apply Z.mod_small. lia.
  Qed.

  (* with the repaired splat test the premise holds for every element type *)
  Lemma splat_exact_fixed : forall e ps, splat_exact true e ps.
  Proof.
    intros e ps Hs p Hp. destruct ps as [|p0 ps]; [destruct Hp|]. cbn [hd].
    cbn [is_splat_bits] in Hs. destruct Hp as [<-|Hp]; [reflexivity|]. rewrite forallb_forall in Hs.
    specialize (Hs p Hp). apply Z.eqb_eq in Hs. assumption.
  Qed.

  Lemma int_splat_exact : forall splatfix ty ps, splat_exact splatfix (EI ty) ps.
  Proof.
    intros [|] ty ps; [apply splat_exact_fixed|].
    intros Hs p Hp. destruct ps as [|p0 ps]; [destruct Hp|]. cbn [hd].
    cbn [map Model.is_splat Model.elem_value] in Hs. rewrite map_id in Hs.
    destruct Hp as [<-|Hp]; [reflexivity|]. rewrite forallb_forall in Hs.
    specialize (Hs p Hp). cbn in Hs. apply Z.eqb_eq in Hs. auto.
  Qed.

  (* dense attributes with integer / index elements round-trip for every shape, every width up to
     64 bits, every signedness and every stored value: list, splat and hex-string forms *)
  Theorem dense_int_roundtrip_ok : forall hexfix splatfix ty shape ps sz,
    int_size ty = Ok sz ->
    prod shape = Z.of_nat (List.length ps) -> Forall (fun d => 0 <= d) shape ->
    Forall (int_payload_ok ty) ps ->
    dense_roundtrip hexfix splatfix (EI ty) shape ps = Ok ps.
  Proof.
    intros hexfix splatfix ty shape ps sz Hsz Hprod Hdims Hps.
    assert (Hszpos : 0 < sz).
    { destruct ty as [|w s]; [cbn in Hsz; injection Hsz as <-; lia|].
      destruct ps as [|p ps'].
      - unfold int_size in Hsz. destruct (8 <=? _); [discriminate|].
        destruct (_ <=? 0); [injection Hsz as <-; lia|]. destruct (_ =? 1); [injection Hsz as <-; lia|].
        destruct (_ <=? 3); injection Hsz as <-; lia.
      - inversion Hps as [|? ? [Hw _] _]; subst. destruct (int_size_cases w s sz Hw Hsz); lia. }
    apply dense_roundtrip_ok with (sz := sz); auto.
    - eapply Forall_impl; [|exact Hps]. intros p Hp. apply int_elem_rt. assumption.
    - eapply Forall_impl; [|exact Hps]. intros p Hp. apply int_payload_fits; assumption.
    - apply int_splat_exact.
  Qed.

  Lemma int_array_elem_rt : forall hexfix w s p, int_payload_ok (TInteger w s) p ->
    parse_array_elem hexfix (EI (TInteger w s)) (print_elem (EI (TInteger w s)) (elem_value (EI (TInteger w s)) p)) = Ok p.
  Proof.
    intros hexfix w s p [Hw Hok]. unfold Model.parse_array_elem, Model.print_elem, Model.elem_value.
    destruct (is_i1 (TInteger w s)) eqn:Hi1.
    - assert (TInteger w s = TInteger 1 Signless) as E.
      { destruct s; try discriminate. cbn in Hi1. apply Z.eqb_eq in Hi1. subst. reflexivity. }
      injection E as -> ->. destruct (i1_values p p Hok) as [-> | ->]; vm_compute; reflexivity.
    - unfold print_int. rewrite lex_fmt_d. rewrite <- (app_nil_r (int_toks p)), int_toks_value.
      destruct (integer_attr_spec w s p p Hw Hok) as (Hr & _ & _ & _ & _ & Hn). rewrite Hr, Hn. reflexivity.
  Qed.

  Theorem densearray_int_roundtrip_ok : forall hexfix w s ps,
    Forall (int_payload_ok (TInteger w s)) ps ->
    densearray_roundtrip hexfix (EI (TInteger w s)) ps = Ok ps.
  Proof.
    intros hexfix w s ps H. apply densearray_roundtrip_ok. eapply Forall_impl; [|exact H].
    intros p Hp. apply int_array_elem_rt. assumption.
  Qed.

  (* ---- float elements with the proposed repairs (hexfix = splatfix = true) ---- *)

  Notation print_float_branch := (print_float_branch pack unpack fmt5e fmt9g fmt17g scan).

  Lemma lex_hex_alone : forall hs, hs <> [] -> forallb is_hexdigit hs = true ->
    lex false (str "0x" ++ hs) = Ok [TInt (48 :: 120 :: hs)].
  Proof.
    intros hs Hne Hall. rewrite str_0x. cbn [app]. apply lex_of_lexes.
    - eapply lexes_cons.
      + rewrite <- (app_nil_r hs) at 1. apply lex1_hex; [assumption|assumption|exact I].
      + apply lexes_nil. reflexivity.
    - cbn [List.length]. lia.
  Qed.

  (* an element printed in hexadecimal (NaN, infinities, hexadecimal fallback) reads back bit for bit *)
  Lemma hex_elem_text_rt : forall ty p hs,
    0 <= p < 2 ^ (8 * fsize ty) -> pack ty (unpack ty p) = p ->
    hs <> [] -> forallb is_hexdigit hs = true -> int_of_digits 16 hs = Some p ->
    parse_elem_text true (EF ty) (str "0x" ++ hs) = Ok p /\
    parse_array_elem true (EF ty) (str "0x" ++ hs) = Ok p.
  Proof.
    intros ty p hs Hr Hcanon Hne Hall Hval.
    assert (Hlt : (p <? 2 ^ (8 * fsize ty)) = true) by (apply Z.ltb_lt; lia).
    unfold Model.parse_elem_text, Model.parse_array_elem. rewrite lex_hex_alone by assumption.
    split.
    - cbn [Model.parse_elem is_hex_tok]. unfold get_int_value.
      change (48 =? 48) with true. change (120 =? 120) with true. cbn [andb orb]. rewrite Hval.
      cbn [Model.elem_payload andb]. rewrite Hlt, Hcanon. reflexivity.
    - cbn [is_hex_tok]. unfold get_int_value.
      change (48 =? 48) with true. change (120 =? 120) with true. cbn [andb orb]. rewrite Hval.
      rewrite Hlt, Hcanon. reflexivity.
  Qed.

  Definition hex_printed (ty : fty) (p : Z) : Prop :=
    let x := unpack ty p in
    print_float_branch ty x = 0 \/
    (print_float_branch ty x = 3 /\ fallback_bits pack ty x = p).

  Lemma hex_elem_rt : forall ty p, 0 < fsize ty ->
    0 <= p < 2 ^ (8 * fsize ty) -> pack ty (unpack ty p) = p -> hex_printed ty p ->
    elem_rt true (EF ty) p /\
    parse_array_elem true (EF ty) (print_elem (EF ty) (elem_value (EF ty) p)) = Ok p.
  Proof.
    intros ty p Hsz Hr Hcanon Hhex. unfold elem_rt, Model.print_elem, Model.elem_value.
    rewrite (print_float_by_branch pack unpack fmt5e fmt9g fmt17g repr_ scan).
    destruct Hhex as [Hb|[Hb Hbits]]; rewrite Hb.
    - rewrite Hcanon.
      destruct (hex_fixed_spec false (Z.to_nat (2 * fsize ty)) p 0 ltac:(lia)) as (Hhorn & Hall & Hlen).
      apply hex_elem_text_rt; auto.
      + intros E. rewrite E in Hlen. cbn [List.length] in Hlen. lia.
      + unfold int_of_digits.
        destruct (hex_fixed false (Z.to_nat (2 * fsize ty)) p) eqn:E; [cbn [List.length] in Hlen; lia|].
        rewrite Hhorn. f_equal. rewrite pow16_pow2 by lia. rewrite Z.mod_small by lia. lia.
    - rewrite Hbits. unfold fmt_X.
      destruct (nat_digits_spec 16 true p ltac:(lia) ltac:(lia)) as (Hne & _ & Hval).
      apply hex_elem_text_rt; auto. apply nat_digits16_all_hex. lia.
  Qed.

  Lemma float_payload_fits : forall ty p, 0 < fsize ty -> 0 <= p < 2 ^ (8 * fsize ty) ->
    payload_fits (EF ty) (fsize ty) p.
  Proof.
    intros ty p Hsz Hr. unfold payload_fits, payload_of_bytes. rewrite of_le_bytes_le_bytes.
    rewrite Z2Nat.id by lia. change 256 with (2 ^ 8). rewrite <- Z.pow_mul_r by lia. apply Z.mod_small. lia.
  Qed.

  (* With the repairs, a float dense attribute round-trips bit for bit as soon as every element that is NOT
     printed in hexadecimal reads back on its own (the decimal forms: the CPython facts of C06_float_rt);
     NaN / infinity / hexadecimal-fallback elements and mixed signed zeros need no hypothesis any more. *)
  Theorem dense_float_roundtrip_fixed : forall ty shape ps,
    0 < fsize ty ->
    prod shape = Z.of_nat (List.length ps) -> Forall (fun d => 0 <= d) shape ->
    Forall (fun p => 0 <= p < 2 ^ (8 * fsize ty) /\ pack ty (unpack ty p) = p /\
                     (hex_printed ty p \/ elem_rt true (EF ty) p)) ps ->
    dense_roundtrip true true (EF ty) shape ps = Ok ps.
  Proof.
    intros ty shape ps Hsz Hprod Hdims Hps.
    apply dense_roundtrip_ok with (sz := fsize ty); auto.
    - eapply Forall_impl; [|exact Hps]. intros p (Hr & Hc & [Hh|Hrt]); [|assumption].
      apply hex_elem_rt; assumption.
    - eapply Forall_impl; [|exact Hps]. intros p (Hr & _ & _). apply float_payload_fits; assumption.
    - apply splat_exact_fixed.
  Qed.

  Theorem densearray_float_roundtrip_fixed : forall ty ps,
    0 < fsize ty ->
    Forall (fun p => 0 <= p < 2 ^ (8 * fsize ty) /\ pack ty (unpack ty p) = p /\
                     (hex_printed ty p \/
                      parse_array_elem true (EF ty) (print_elem (EF ty) (elem_value (EF ty) p)) = Ok p)) ps ->
    densearray_roundtrip true (EF ty) ps = Ok ps.
  Proof.
    intros ty ps Hsz Hps. apply densearray_roundtrip_ok.
    eapply Forall_impl; [|exact Hps]. intros p (Hr & Hc & [Hh|Hrt]); [|assumption].
    apply hex_elem_rt; assumption.
  Qed.
End DenseProofs.
