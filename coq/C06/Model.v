(* C06/Model.v -- executable models of the text codecs of xDSL's builtin attributes.
   Definitions only; proofs live in C06/Proofs*.v.

   Text is a list of Unicode code points, a byte string a list of integers 0..255,
   both `list Z`.  Mirrors (statement by statement where a loop is involved):
     xdsl/printer.py            print_int, print_bytes_literal, print_string_literal,
                                print_identifier_or_string_literal, print_symbol_name, print_float
     xdsl/utils/mlir_lexer.py   StringLiteral.bytes_contents/string_contents, _lex_string_literal (+ its regex),
                                _lex_number, _lex_bare_identifier, _lex_at_ident, get_int_value
     xdsl/parser/base_parser.py parse_optional_boolean/integer/float/number, parse_optional_str_literal,
                                parse_optional_bytes_literal, parse_optional_identifier_or_str_literal
     xdsl/parser/attribute_parser.py  _parse_optional_builtin_attr (string/bytes part),
                                parse_optional_builtin_int_or_float_attr, parse_optional_symbol_name,
                                _parse_optional_symref_attr, _parse_attribute_entry (key part),
                                _TensorLiteralElement.to_int/to_float/to_type, _parse_optional_bool_int_or_float,
                                parse_dense_int_or_fp_elements_attr, _parse_builtin_densearray_attr
     xdsl/dialects/builtin.py   IntegerType.value_range/normalized_value, IntegerAttr.__init__/verify,
                                FloatAttr.__init__, DenseIntOrFPElementsAttr.from_list/is_splat/print_without_type,
                                DenseArrayBase.from_list/print_builtin
   CPython's float formatting/scanning and struct.pack/unpack are NOT modelled: they are
   function arguments (oracles) of the float kernels. *)
From Coq Require Import ZArith List Bool String Ascii.
Import ListNotations.
Local Open Scope Z_scope.

Definition text := list Z.

Fixpoint str (s : string) : text :=
  match s with
  | EmptyString => []
  | String c r => Z.of_nat (nat_of_ascii c) :: str r
  end.

Fixpoint text_eqb (a b : text) : bool :=
  match a, b with
  | [], [] => true
  | x :: a', y :: b' => (x =? y) && text_eqb a' b'
  | _, _ => false
  end.

(* exception codes of harness/common.py: ParseError 1, VerifyException 2, ValueError 3
   (UnicodeDecodeError/UnicodeEncodeError are ValueErrors), Other 10 (OverflowError) *)
Inductive res (A : Type) := Ok (a : A) | NoTok | Raise (e : Z).
Arguments Ok {A} a.
Arguments NoTok {A}.
Arguments Raise {A} e.
Definition E_PARSE := 1.
Definition E_VERIFY := 2.
Definition E_VALUE := 3.
Definition E_OTHER := 10.
Definition E_DECODE := 33.      (* UnicodeDecodeError (reported as ValueError = 3 by the encoders) *)
Definition E_UNMODELLED := -4.  (* input outside the modelled fragment of the lexer *)

(* ================================================================== *)
(* 1. digits: f"{v:d}", f"{v:X}", bytes.hex(), int(text, 10/16)       *)

Definition digit_char (upper : bool) (d : Z) : Z :=
  if d <? 10 then 48 + d else (if upper then 55 else 87) + d.

Definition digit_val (c : Z) : option Z :=
  if (48 <=? c) && (c <=? 57) then Some (c - 48)
  else if (65 <=? c) && (c <=? 70) then Some (c - 55)
  else if (97 <=? c) && (c <=? 102) then Some (c - 87)
  else None.

Definition is_digit (c : Z) : bool := (48 <=? c) && (c <=? 57).
Definition is_hexdigit (c : Z) : bool :=
  match digit_val c with Some _ => true | None => false end.

(* most significant digit first; the loop of the C formatting routine, with explicit fuel *)
Fixpoint digits_fuel (fuel : nat) (base : Z) (upper : bool) (n : Z) (acc : text) : text :=
  match fuel with
  | O => acc
  | S f =>
      let acc' := digit_char upper (n mod base) :: acc in
      if n <? base then acc' else digits_fuel f base upper (n / base) acc'
  end.
Definition nat_digits (base : Z) (upper : bool) (n : Z) : text :=
  digits_fuel (S (Z.to_nat (Z.log2 n))) base upper n [].

(* f"{v:d}" *)
Definition fmt_d (v : Z) : text :=
  if v <? 0 then 45 :: nat_digits 10 false (- v) else nat_digits 10 false v.
(* f"{v:X}" for v >= 0 *)
Definition fmt_X (v : Z) : text := nat_digits 16 true v.
(* exactly k hex digits of v mod 16^k, most significant first *)
Fixpoint hex_fixed (upper : bool) (k : nat) (v : Z) : text :=
  match k with
  | O => []
  | S k' => hex_fixed upper k' (v / 16) ++ [digit_char upper (v mod 16)]
  end.

(* int(text, base) on a token of digits (ValueError = None on a non-digit or no digit) *)
Fixpoint horner (base : Z) (ds : text) (acc : Z) : option Z :=
  match ds with
  | [] => Some acc
  | c :: r =>
      match digit_val c with
      | Some d => if d <? base then horner base r (acc * base + d) else None
      | None => None
      end
  end.
Definition int_of_digits (base : Z) (ds : text) : option Z :=
  match ds with [] => None | _ => horner base ds 0 end.

(* MLIRTokenKind.get_int_value on the text of an INTEGER_LIT *)
Definition get_int_value (t : text) : option Z :=
  match t with
  | z :: x :: r =>
      if (z =? 48) && ((x =? 120) || (x =? 88)) then int_of_digits 16 r else int_of_digits 10 t
  | _ => int_of_digits 10 t
  end.

(* Printer.print_int(value, type): `is_i1` is the test `type == i1` *)
Definition print_int (v : Z) (is_i1 : bool) : text :=
  if is_i1 then (if v =? 0 then str "false" else str "true") else fmt_d v.

(* ================================================================== *)
(* 2. UTF-8 (str.encode() / bytes.decode(), strict)                    *)

Definition is_scalar (c : Z) : bool :=
  (0 <=? c) && (c <? 1114112) && negb ((55296 <=? c) && (c <? 57344)).

Definition utf8_enc1 (c : Z) : option (list Z) :=
  if negb (is_scalar c) then None
  else if c <? 128 then Some [c]
  else if c <? 2048 then Some [192 + c / 64; 128 + c mod 64]
  else if c <? 65536 then Some [224 + c / 4096; 128 + (c / 64) mod 64; 128 + c mod 64]
  else Some [240 + c / 262144; 128 + (c / 4096) mod 64; 128 + (c / 64) mod 64; 128 + c mod 64].

Fixpoint utf8_enc (s : text) : option (list Z) :=
  match s with
  | [] => Some []
  | c :: r =>
      match utf8_enc1 c, utf8_enc r with
      | Some b, Some br => Some (b ++ br)
      | _, _ => None
      end
  end.

Definition is_cont (b : Z) : bool := (128 <=? b) && (b <=? 191).
Definition in_rng (lo hi b : Z) : bool := (lo <=? b) && (b <=? hi).

(* strict decoder (rejects overlong forms, surrogates, > U+10FFFF, truncated sequences) *)
Fixpoint utf8_dec (bs : list Z) : option text :=
  match bs with
  | [] => Some []
  | b0 :: r0 =>
      if in_rng 0 127 b0 then option_map (cons b0) (utf8_dec r0)
      else if in_rng 194 223 b0 then
        match r0 with
        | b1 :: r1 =>
            if is_cont b1 then option_map (cons ((b0 - 192) * 64 + (b1 - 128))) (utf8_dec r1) else None
        | _ => None
        end
      else if in_rng 224 239 b0 then
        match r0 with
        | b1 :: b2 :: r2 =>
            let lo := if b0 =? 224 then 160 else 128 in
            let hi := if b0 =? 237 then 159 else 191 in
            if in_rng lo hi b1 && is_cont b2
            then option_map (cons ((b0 - 224) * 4096 + (b1 - 128) * 64 + (b2 - 128))) (utf8_dec r2)
            else None
        | _ => None
        end
      else if in_rng 240 244 b0 then
        match r0 with
        | b1 :: b2 :: b3 :: r3 =>
            let lo := if b0 =? 240 then 144 else 128 in
            let hi := if b0 =? 244 then 143 else 191 in
            if in_rng lo hi b1 && is_cont b2 && is_cont b3
            then option_map (cons ((b0 - 240) * 262144 + (b1 - 128) * 4096 + (b2 - 128) * 64 + (b3 - 128)))
                            (utf8_dec r3)
            else None
        | _ => None
        end
      else None
  end.

Definition is_ascii_list (l : list Z) : bool := forallb (fun b => b <? 128) l.

(* ================================================================== *)
(* 3. string / bytes literals                                          *)

(* Printer.print_bytes_literal *)
Definition escape_byte (b : Z) : text :=
  if b =? 92 then [92; 92]
  else if (b <? 32) || (126 <? b) || (b =? 34)
       then [92; digit_char true (b / 16); digit_char true (b mod 16)]
       else [b].
Definition print_bytes_literal (bs : list Z) : text := 34 :: flat_map escape_byte bs ++ [34].

(* Printer.print_string_literal = print_bytes_literal(string.encode("utf-8")) *)
Definition print_string_literal (s : text) : res text :=
  match utf8_enc s with
  | Some bs => Ok (print_bytes_literal bs)
  | None => Raise E_VALUE            (* UnicodeEncodeError: lone surrogate *)
  end.

Definition known_escape (c : Z) : option Z :=
  if c =? 110 then Some 10 else if c =? 116 then Some 9
  else if c =? 92 then Some 92 else if c =? 34 then Some 34 else None.

(* StringLiteral.bytes_contents on the text between the quotes: the find("\\")-loop,
   one character at a time (a run without backslash is .encode()d) *)
Fixpoint unescape (s : text) : res (list Z) :=
  match s with
  | [] => Ok []
  | c :: r =>
      if c =? 92 then
        match r with
        | [] => Raise E_PARSE                       (* incomplete escape sequence *)
        | e :: r' =>
            match known_escape e with
            | Some b => match unescape r' with Ok bs => Ok (b :: bs) | x => x end
            | None =>
                match r' with
                | e2 :: r'' =>
                    match digit_val e, digit_val e2 with
                    | Some h, Some l =>
                        match unescape r'' with Ok bs => Ok (h * 16 + l :: bs) | x => x end
                    | _, _ => Raise E_PARSE          (* invalid escape sequence *)
                    end
                | [] => Raise E_PARSE
                end
            end
        end
      else
        match utf8_enc1 c with
        | Some b => match unescape r with Ok bs => Ok (b ++ bs) | x => x end
        | None => Raise E_VALUE
        end
  end.

(* the regex  "(?:[^"\\\n\v\f]+|\\(?:["nt\\]|[0-9A-Fa-f]{2}))*"  applied after the
   opening quote: Some (body, rest) with the closing quote consumed, None = no match *)
Fixpoint scan_body (s : text) : option (text * text) :=
  match s with
  | [] => None
  | c :: r =>
      if c =? 34 then Some ([], r)
      else if c =? 92 then
        match r with
        | [] => None
        | e :: r' =>
            match known_escape e with
            | Some _ =>
                match scan_body r' with Some (b, rest) => Some (92 :: e :: b, rest) | None => None end
            | None =>
                match r' with
                | e2 :: r'' =>
                    if is_hexdigit e && is_hexdigit e2 then
                      match scan_body r'' with
                      | Some (b, rest) => Some (92 :: e :: e2 :: b, rest)
                      | None => None
                      end
                    else None
                | [] => None
                end
            end
        end
      else if (c =? 10) || (c =? 11) || (c =? 12) then None
      else match scan_body r with Some (b, rest) => Some (c :: b, rest) | None => None end
  end.

Inductive tok :=
| TMinus | TColon | TEq | TComma
| TInt (t : text) | TFloat (t : text) | TBare (t : text)
| TStr (body : text)     (* STRING_LIT, text between the quotes *)
| TBytes (body : text)   (* BYTES_LIT *)
| TAt (t : text)         (* AT_IDENT, text after the '@' (a bare id or a whole "..." literal) *)
| TOther (c : Z).

Definition has_backslash (s : text) : bool := existsb (fun c => c =? 92) s.

(* MLIRLexer._lex_string_literal on the text after the opening quote.
   `fixed` = the proposed repair (classify by UTF-8 decodability, as the docstring says)
   instead of bytes_contents.isascii() *)
Definition lex_string_literal (fixed : bool) (s : text) : res (tok * text) :=
  match scan_body s with
  | None => Raise E_PARSE
  | Some (body, rest) =>
      match body with
      | [] => Ok (TStr body, rest)
      | _ =>
          if negb (has_backslash body) then Ok (TStr body, rest)
          else match unescape body with
               | Ok bs =>
                   let stringy := if fixed then (match utf8_dec bs with Some _ => true | None => false end)
                                  else is_ascii_list bs in
                   if stringy then Ok (TStr body, rest) else Ok (TBytes body, rest)
               | NoTok => NoTok
               | Raise e => Raise e
               end
      end
  end.

(* StringLiteral.string_contents: bytes_contents.decode() *)
Definition string_contents (body : text) : res text :=
  match unescape body with
  | Ok bs => match utf8_dec bs with Some s => Ok s | None => Raise E_DECODE end
  | NoTok => NoTok
  | Raise e => Raise e
  end.

(* result of _parse_optional_builtin_attr on one string-like token *)
Inductive strattr := AString (s : text) | ABytes (bs : list Z).

Definition parse_strlit_attr (t : tok) : res strattr :=
  match t with
  | TStr body =>
      (* parse_optional_str_literal: UnicodeDecodeError is swallowed -> None *)
      match string_contents body with
      | Ok s => Ok (AString s)
      | Raise e => if e =? E_DECODE then NoTok else Raise e
      | NoTok => NoTok
      end
  | TBytes body =>
      match unescape body with Ok bs => Ok (ABytes bs) | NoTok => NoTok | Raise e => Raise e end
  | _ => NoTok
  end.

(* print a StringAttr / BytesAttr, lex the text (followed by `rest`), parse the token *)
Definition string_attr_roundtrip (fixed : bool) (s : text) : res strattr :=
  match print_string_literal s with
  | Ok (q :: t) =>
      match lex_string_literal fixed t with
      | Ok (tk, _) => parse_strlit_attr tk
      | NoTok => NoTok | Raise e => Raise e
      end
  | Ok [] => NoTok
  | NoTok => NoTok | Raise e => Raise e
  end.
Definition bytes_attr_roundtrip (fixed : bool) (bs : list Z) : res strattr :=
  match print_bytes_literal bs with
  | q :: t =>
      match lex_string_literal fixed t with
      | Ok (tk, _) => parse_strlit_attr tk
      | NoTok => NoTok | Raise e => Raise e
      end
  | [] => NoTok
  end.

(* ================================================================== *)
(* 4. the rest of the lexer needed for attribute texts                 *)

Fixpoint span_while (p : Z -> bool) (s : text) : text * text :=
  match s with
  | [] => ([], [])
  | c :: r => if p c then let '(a, b) := span_while p r in (c :: a, b) else ([], s)
  end.

Definition is_alpha_us (c : Z) : bool :=          (* [a-zA-Z_] *)
  in_rng 97 122 c || in_rng 65 90 c || (c =? 95).
Definition is_id_char (c : Z) : bool :=           (* [a-zA-Z0-9_$.] *)
  is_alpha_us c || is_digit c || (c =? 36) || (c =? 46).

(* bare_identifier_regex.fullmatch *)
Definition is_bare_id (s : text) : bool :=
  match s with
  | [] => false
  | c :: r => is_alpha_us c && forallb is_id_char r
  end.

(* ([eE][+-]?[0-9]+)?  -> (matched text, rest) *)
Definition lex_exponent (s : text) : text * text :=
  match s with
  | e :: r =>
      if (e =? 101) || (e =? 69) then
        let '(sg, r1) := match r with
                         | c :: r' => if (c =? 43) || (c =? 45) then ([c], r') else ([], r)
                         | [] => ([], r)
                         end in
        let '(ds, r2) := span_while is_digit r1 in
        match ds with [] => ([], s) | _ => (e :: sg ++ ds, r2) end
      else ([], s)
  | [] => ([], s)
  end.

(* MLIRLexer._lex_number, `d` = the first (already consumed) digit *)
Definition lex_number (d : Z) (r : text) : tok * text :=
  let hex := match r with
             | x :: h :: _ => (d =? 48) && (x =? 120) && is_hexdigit h
             | _ => false
             end in
  if hex then
    let '(hs, rest) := span_while is_hexdigit (tl r) in (TInt (d :: 120 :: hs), rest)
  else
    let '(ds, r1) := span_while is_digit r in
    match r1 with
    | c :: r2 =>
        if c =? 46 then
          let '(fs, r3) := span_while is_digit r2 in
          let '(ex, r4) := lex_exponent r3 in
          (TFloat (d :: ds ++ 46 :: fs ++ ex), r4)
        else (TInt (d :: ds), r1)
    | [] => (TInt (d :: ds), r1)
    end.

(* ( ) } [ ] < > + * ? |  : single-character punctuation that is not part of a longer token *)
Definition is_single_punct (c : Z) : bool :=
  (c =? 40) || (c =? 41) || (c =? 125) || (c =? 91) || (c =? 93) || (c =? 60) || (c =? 62)
  || (c =? 43) || (c =? 42) || (c =? 63) || (c =? 124).

(* MLIRLexer.lex restricted to the characters the builtin-attribute printer emits for the
   kernels below (space, '-', digits, ASCII identifiers, string literals, '@', ':', '=', ',');
   other single-character punctuation is returned as TOther, `->` as TOther 8594; characters whose
   lexing is not modelled raise E_UNMODELLED. *)
Definition lex1 (fixed : bool) (s : text) : res (tok * text) :=
  let s := snd (span_while (fun c => (c =? 32) || (c =? 10)) s) in
  match s with
  | [] => NoTok                                   (* EOF *)
  | c :: r =>
      if is_alpha_us c then
        let '(a, rest) := span_while is_id_char r in Ok (TBare (c :: a), rest)
      else if c =? 58 then Ok (TColon, r)
      else if c =? 44 then Ok (TComma, r)
      else if c =? 61 then Ok (TEq, r)
      else if c =? 45 then
        match r with
        | c2 :: r2 => if c2 =? 62 then Ok (TOther 8594, r2) else Ok (TMinus, r)      (* '->' *)
        | [] => Ok (TMinus, r)
        end
      else if c =? 46 then                          (* '...' or ParseError *)
        match r with
        | c2 :: c3 :: r3 => if (c2 =? 46) && (c3 =? 46) then Ok (TOther 46, r3) else Raise E_PARSE
        | _ => Raise E_PARSE
        end
      else if c =? 64 then
        match r with
        | [] => Raise E_PARSE
        | c2 :: r2 =>
            if is_alpha_us c2 then
              let '(a, rest) := span_while is_id_char r2 in Ok (TAt (c2 :: a), rest)
            else if c2 =? 34 then
              match lex_string_literal fixed r2 with
              | Ok (TStr b, rest) | Ok (TBytes b, rest) => Ok (TAt (34 :: b ++ [34]), rest)
              | Ok (_, _) => Raise E_PARSE
              | NoTok => NoTok
              | Raise e => Raise e
              end
            else Raise E_PARSE
        end
      else if c =? 34 then lex_string_literal fixed r
      else if is_digit c then Ok (lex_number c r)
      else if is_single_punct c then Ok (TOther c, r)
      else if (c =? 35) || (c =? 33) || (c =? 94) || (c =? 37) || (c =? 47) || (c =? 123) || (c =? 9) || (127 <? c)
           then Raise E_UNMODELLED      (* prefixed identifiers, comments, '{-#', tabs, non-ASCII letters/digits *)
      else Raise E_PARSE                (* "Unexpected character" *)
  end.

Fixpoint lex_all (fixed : bool) (fuel : nat) (s : text) : res (list tok) :=
  match fuel with
  | O => Raise (-3)
  | S f =>
      match lex1 fixed s with
      | NoTok => Ok []
      | Raise e => Raise e
      | Ok (t, rest) =>
          match lex_all fixed f rest with
          | Ok ts => Ok (t :: ts)
          | x => x
          end
      end
  end.
Definition lex (fixed : bool) (s : text) : res (list tok) := lex_all fixed (S (List.length s)) s.

(* ================================================================== *)
(* 5. integers: parser side and IntegerAttr normalisation              *)

(* BaseParser.parse_optional_boolean *)
Definition parse_optional_boolean (ts : list tok) : option (bool * list tok) :=
  match ts with
  | TBare t :: r =>
      if text_eqb t (str "true") then Some (true, r)
      else if text_eqb t (str "false") then Some (false, r) else None
  | _ => None
  end.

(* BaseParser.parse_optional_integer -> (value, remaining tokens) *)
Definition parse_optional_integer (allow_boolean allow_negative : bool) (ts : list tok)
  : res (Z * list tok) :=
  match (if allow_boolean then parse_optional_boolean ts else None) with
  | Some (b, r) => Ok ((if b then 1 else 0), r)
  | None =>
      let '(neg, ts1) := match ts with
                         | TMinus :: r => if allow_negative then (true, r) else (false, ts)
                         | _ => (false, ts)
                         end in
      match ts1 with
      | TInt t :: r =>
          match get_int_value t with
          | Some v => Ok ((if neg then - v else v), r)
          | None => Raise E_VALUE
          end
      | _ => if neg then Raise E_PARSE else NoTok
      end
  end.

Inductive signedness := Signless | Signed | Unsigned.
Inductive ity := TIndex | TInteger (w : Z) (s : signedness).

(* xdsl/utils/comparisons.py *)
Definition unsigned_upper_bound (w : Z) : Z := Z.shiftl 1 w.
Definition signed_lower_bound (w : Z) : Z := - (Z.shiftr (Z.shiftl 1 w) 1).
Definition signed_upper_bound (w : Z) : Z := Z.shiftl 1 (Z.max (w - 1) 0).
Definition value_range (s : signedness) (w : Z) : Z * Z :=
  match s with
  | Signless => (signed_lower_bound w, unsigned_upper_bound w)
  | Signed => (signed_lower_bound w, signed_upper_bound w)
  | Unsigned => (0, unsigned_upper_bound w)
  end.
Definition in_range (s : signedness) (w v : Z) : bool :=
  let '(lo, hi) := value_range s w in (lo <=? v) && (v <? hi).

(* IntegerType.normalized_value(value, truncate_bits=False) *)
Definition normalized_value (s : signedness) (w v : Z) : option Z :=
  if negb (in_range s w v) then None
  else match s with
       | Unsigned => Some v
       | _ => if signed_upper_bound w <=? v then Some (v - unsigned_upper_bound w) else Some v
       end.

(* IntegerAttr.__init__ followed by verify(): the stored value, or VerifyException *)
Definition integer_attr (ty : ity) (v : Z) : res Z :=
  match ty with
  | TIndex => Ok v
  | TInteger w s =>
      match normalized_value s w v with
      | Some v' => if in_range s w v' then Ok v' else Raise E_VERIFY
      | None => Raise E_VERIFY
      end
  end.

Definition is_i1 (ty : ity) : bool :=
  match ty with TInteger w Signless => w =? 1 | _ => false end.

Definition print_ity (ty : ity) : text :=
  match ty with
  | TIndex => str "index"
  | TInteger w s =>
      (match s with Signless => str "i" | Signed => str "si" | Unsigned => str "ui" end) ++ fmt_d w
  end.

(* ^[su]?i(\d+)$  and  `index` *)
Definition parse_ity (t : text) : option ity :=
  if text_eqb t (str "index") then Some TIndex
  else
    let '(s, r) := match t with
                   | c :: r' => if c =? 115 then (Some Signed, r')
                                else if c =? 117 then (Some Unsigned, r') else (Some Signless, t)
                   | [] => (None, t)
                   end in
    match s, r with
    | Some sg, c :: ds =>
        if (c =? 105) && forallb is_digit ds then
          match int_of_digits 10 ds with Some w => Some (TInteger w sg) | None => None end
        else None
    | _, _ => None
    end.

(* IntegerAttr.print_builtin *)
Definition print_integer_attr (ty : ity) (v : Z) : text :=
  print_int v (is_i1 ty) ++ (if is_i1 ty then [] else str " : " ++ print_ity ty).

(* parse_optional_builtin_int_or_float_attr restricted to the integer outcomes:
   `true`/`false` -> IntegerAttr(1/0, i1); number [`:` integer-type] -> IntegerAttr(value, type or i64) *)
Definition parse_integer_attr (ts : list tok) : res (ity * Z) :=
  match parse_optional_boolean ts with
  | Some (b, _) =>
      match integer_attr (TInteger 1 Signless) (if b then 1 else 0) with
      | Ok v => Ok (TInteger 1 Signless, v) | NoTok => NoTok | Raise e => Raise e
      end
  | None =>
      match parse_optional_integer false true ts with
      | Ok (v, r) =>
          match r with
          | TColon :: TBare t :: _ =>
              match parse_ity t with
              | Some ty =>
                  match integer_attr ty v with
                  | Ok v' => Ok (ty, v') | NoTok => NoTok | Raise e => Raise e
                  end
              | None => Raise E_PARSE
              end
          | TColon :: _ => Raise E_PARSE
          | _ =>
              match integer_attr (TInteger 64 Signless) v with
              | Ok v' => Ok (TInteger 64 Signless, v') | NoTok => NoTok | Raise e => Raise e
              end
          end
      | NoTok => NoTok
      | Raise e => Raise e
      end
  end.

Definition integer_attr_roundtrip (ty : ity) (v : Z) : res (ity * Z) :=
  match lex false (print_integer_attr ty v) with
  | Ok ts => parse_integer_attr ts
  | NoTok => NoTok
  | Raise e => Raise e
  end.

(* ================================================================== *)
(* 6. identifier-or-string: symbol names and dictionary keys           *)

(* Printer.print_identifier_or_string_literal *)
Definition print_id_or_str (s : text) : res text :=
  if is_bare_id s then Ok s else print_string_literal s.

(* Printer.print_symbol_name *)
Definition print_symbol_name (s : text) : res text :=
  match print_id_or_str s with Ok t => Ok (64 :: t) | x => x end.

(* AttrParser.parse_optional_symbol_name on an AT_IDENT token *)
Definition parse_symbol_name (t : tok) : res text :=
  match t with
  | TAt (c :: r) =>
      if c =? 34 then string_contents (removelast r)   (* StringLiteral(...).string_contents *)
      else Ok (c :: r)
  | _ => NoTok
  end.

(* BaseParser.parse_optional_identifier_or_str_literal (dictionary keys) *)
Definition parse_id_or_str (t : tok) : res text :=
  match t with
  | TBare s => Ok s
  | TStr body =>
      match string_contents body with
      | Ok s => Ok s
      | Raise e => if e =? E_DECODE then NoTok else Raise e
      | NoTok => NoTok
      end
  | _ => NoTok
  end.

(* SymbolRefAttr.print_builtin: @root::@n1::@n2 *)
Fixpoint print_symref_tail (ns : list text) : res text :=
  match ns with
  | [] => Ok []
  | n :: r =>
      match print_symbol_name n, print_symref_tail r with
      | Ok a, Ok b => Ok (58 :: 58 :: a ++ b)
      | Raise e, _ => Raise e
      | _, Raise e => Raise e
      | _, _ => NoTok
      end
  end.
Definition print_symref (root : text) (ns : list text) : res text :=
  match print_symbol_name root, print_symref_tail ns with
  | Ok a, Ok b => Ok (a ++ b)
  | Raise e, _ => Raise e
  | _, Raise e => Raise e
  | _, _ => NoTok
  end.

(* _parse_optional_symref_attr on a token list: root, then (`:` `:` at-ident)* *)
Fixpoint parse_symref_tail (fuel : nat) (ts : list tok) : res (list text) :=
  match fuel with
  | O => Raise (-3)
  | S f =>
      match ts with
      | TColon :: TColon :: r =>
          match r with
          | t :: r' =>
              match parse_symbol_name t with
              | Ok n => match parse_symref_tail f r' with Ok ns => Ok (n :: ns) | x => x end
              | NoTok => Raise E_PARSE             (* expect symbol name *)
              | Raise e => Raise e
              end
          | [] => Raise E_PARSE
          end
      | _ => Ok []                                  (* no `::`: backtrack and stop *)
      end
  end.
Definition parse_symref (ts : list tok) : res (text * list text) :=
  match ts with
  | t :: r =>
      match parse_symbol_name t with
      | Ok root =>
          match parse_symref_tail (S (List.length r)) r with
          | Ok ns => Ok (root, ns) | NoTok => NoTok | Raise e => Raise e
          end
      | NoTok => NoTok
      | Raise e => Raise e
      end
  | [] => NoTok
  end.

Definition symref_roundtrip (fixed : bool) (root : text) (ns : list text) : res (text * list text) :=
  match print_symref root ns with
  | Ok t => match lex fixed t with Ok ts => parse_symref ts | NoTok => NoTok | Raise e => Raise e end
  | NoTok => NoTok
  | Raise e => Raise e
  end.

(* a dictionary key as printed by _print_attr_string (`key = value` / `key`), lexed with the
   following text `rest`, parsed by _parse_attribute_entry: Raise ParseError when neither a
   bare id nor a string literal is found *)
Definition dict_key_roundtrip (fixed : bool) (k : text) (rest : text) : res text :=
  match print_id_or_str k with
  | Ok t =>
      match lex1 fixed (t ++ rest) with
      | Ok (tk, _) => match parse_id_or_str tk with NoTok => Raise E_PARSE | x => x end
      | NoTok => Raise E_PARSE
      | Raise e => Raise e
      end
  | NoTok => NoTok
  | Raise e => Raise e
  end.

(* ================================================================== *)
(* 7. floats.  A Python float is its binary64 bit pattern (0 <= x < 2^64).
   Oracles (CPython, not modelled), passed as function arguments:
     pack ty x    struct.pack / _encode of the type: binary64 bits -> the type's bits (as an unsigned integer)
     unpack ty b  the type's bits -> binary64 bits of the Python float
     fmt5e fmt9g fmt17g repr_   f"{x:.5e}", f"{x:.9g}", f"{x:.17g}", repr(x)
     scan         float(text) -> binary64 bits
     of_int       float(int)  -> binary64 bits (OverflowError = Raise) *)

Inductive fkind := F32 | F64 | FRepr.    (* which arm of print_float's isinstance chain *)
Record fty := { fk : fkind; fid : Z; fsize : Z; fname : text }.   (* fsize = compile_time_size (bytes) *)

Definition f64_exp (x : Z) : Z := (x / 4503599627370496) mod 2048.
Definition f64_frac (x : Z) : Z := x mod 4503599627370496.
Definition f64_isnan (x : Z) : bool := (f64_exp x =? 2047) && negb (f64_frac x =? 0).
Definition f64_isinf (x : Z) : bool := (f64_exp x =? 2047) && (f64_frac x =? 0).
Definition f64_iszero (x : Z) : bool := x mod 9223372036854775808 =? 0.
Definition f64_neg (x : Z) : Z :=               (* unary minus: flips the sign bit *)
  if x <? 9223372036854775808 then x + 9223372036854775808 else x - 9223372036854775808.
Definition f64_sign (x : Z) : bool := 9223372036854775808 <=? x.
(* Python `a == b` on floats *)
Definition f64_eq (a b : Z) : bool :=
  negb (f64_isnan a) && negb (f64_isnan b) && ((a =? b) || (f64_iszero a && f64_iszero b)).
(* Python `a < 0` on a float *)
Definition f64_ltz (a : Z) : bool := f64_sign a && negb (f64_isnan a) && negb (f64_iszero a).

Definition contains (c : Z) (s : text) : bool := existsb (fun d => d =? c) s.

(* float_str[:index] + "0" + float_str[index:]  with index = float_str.find("e") (-1 if absent) *)
Definition insert0 (s : text) : text :=
  let '(a, b) := span_while (fun c => negb (c =? 101)) s in
  match b with
  | [] => removelast s ++ 48 :: (match s with [] => [] | _ => [last s 0] end)
  | _ => a ++ 48 :: b
  end.

Inductive pynum := PInt (v : Z) | PFloat (bits : Z).
Inductive pyval := VBool (b : bool) | VInt (v : Z) | VFloat (bits : Z).

Section FloatKernel.
  Variable pack : fty -> Z -> Z.
  Variable unpack : fty -> Z -> Z.
  Variables fmt5e fmt9g fmt17g repr_ : Z -> text.
  Variable scan : text -> Z.
  Variable of_int : Z -> res Z.

  (* FloatAttr.__init__: value = type.unpack(type.pack((value,)), 1)[0] *)
  Definition float_attr (ty : fty) (v : Z) : Z := unpack ty (pack ty v).

  (* Printer.print_float *)
  Definition print_float (ty : fty) (x : Z) : text :=
    if f64_isnan x || f64_isinf x then
      str "0x" ++ hex_fixed false (Z.to_nat (2 * fsize ty)) (pack ty x)     (* raw[::-1].hex() *)
    else
      let s := insert0 (fmt5e x) in
      let parsed := float_attr ty (scan s) in
      if f64_eq parsed x then s
      else match fk ty with
           | F32 => let s9 := fmt9g x in
                    if contains 46 s9 then s9 else str "0x" ++ fmt_X (pack ty x)
           | F64 => let s17 := fmt17g x in
                    if contains 46 s17 then s17 else str "0x" ++ fmt_X x
           | FRepr => repr_ x
           end.

  (* which text did print_float choose: 0 hex of nan/inf, 1 short %.5e form, 2 %.9g/%.17g/repr, 3 hex fallback *)
  Definition print_float_branch (ty : fty) (x : Z) : Z :=
    if f64_isnan x || f64_isinf x then 0
    else if f64_eq (float_attr ty (scan (insert0 (fmt5e x)))) x then 1
    else match fk ty with
         | F32 => if contains 46 (fmt9g x) then 2 else 3
         | F64 => if contains 46 (fmt17g x) then 2 else 3
         | FRepr => 2
         end.

  (* BaseParser.parse_optional_number (allow_boolean=False) *)
  Definition parse_optional_number (ts : list tok) : res (pynum * list tok) :=
    let '(neg, ts1) := match ts with TMinus :: r => (true, r) | _ => (false, ts) end in
    match ts1 with
    | TInt t :: r =>
        match get_int_value t with
        | Some v => Ok (PInt (if neg then - v else v), r)
        | None => Raise E_VALUE
        end
    | TFloat t :: r => Ok (PFloat (if neg then f64_neg (scan t) else scan t), r)
    | _ => if neg then Raise E_PARSE else NoTok
    end.

  Definition is_hex_tok (ts : list tok) : bool :=
    match ts with
    | TInt (z :: x :: _) :: _ => (z =? 48) && ((x =? 120) || (x =? 88))
    | _ => false
    end.

  (* parse_optional_builtin_int_or_float_attr when the text is `<number> : <float type name>`:
     the binary64 bits of the resulting FloatAttr's value *)
  Definition parse_float_attr (ty : fty) (ts : list tok) : res Z :=
    let hex := is_hex_tok ts in
    match parse_optional_number ts with
    | Ok (v, TColon :: TBare n :: []) =>
        if negb (text_eqb n (fname ty)) then Raise E_PARSE
        else match v with
             | PInt i =>
                 if hex then
                   (* value.to_bytes(size, "little") then next(type.iter_unpack(raw)) *)
                   if (0 <=? i) && (i <? 2 ^ (8 * fsize ty)) then Ok (float_attr ty (unpack ty i))
                   else Raise E_OTHER
                 else match of_int i with
                      | Ok f => Ok (float_attr ty f) | NoTok => NoTok | Raise e => Raise e
                      end
             | PFloat f => Ok (float_attr ty f)
             end
    | Ok _ => Raise E_PARSE
    | NoTok => NoTok
    | Raise e => Raise e
    end.

  Definition float_attr_text (ty : fty) (x : Z) : text := print_float ty x ++ str " : " ++ fname ty.

  Definition float_attr_roundtrip (ty : fty) (x : Z) : res Z :=
    match lex false (float_attr_text ty x) with
    | Ok ts => parse_float_attr ty ts
    | NoTok => NoTok
    | Raise e => Raise e
    end.

  (* The per-value facts about CPython that the round trip of a DECIMAL form rests on (H1-H4 of
     DESIGN 8.C06, pointwise): the chosen decimal string s lexes (followed by ` : name`) as
     [MINUS] FLOAT_LIT COLON BARE (H3); float("-"+body) = -float(body) (H4); and the value read back,
     rounded to the type, is x again (H1 for %.17g, H2 for %.9g, repr round trip for the other types,
     the printer's own re-pack test plus the sign of zero for %.5e). *)
  Definition lexes_float (ty : fty) (s : text) : option (bool * text) :=
    match lex false (s ++ str " : " ++ fname ty) with
    | Ok (TFloat b :: TColon :: TBare n :: []) =>
        if text_eqb n (fname ty) && text_eqb s b then Some (false, b) else None
    | Ok (TMinus :: TFloat b :: TColon :: TBare n :: []) =>
        if text_eqb n (fname ty) && text_eqb s (45 :: b) then Some (true, b) else None
    | _ => None
    end.
  Definition decimal_ok (ty : fty) (x : Z) (s : text) : bool :=
    match lexes_float ty s with
    | Some (neg, b) =>
        (scan s =? (if neg then f64_neg (scan b) else scan b))          (* H4 *)
        && (float_attr ty (scan s) =? x)                                 (* H1 / H2 / repr / sign of zero *)
    | None => false                                                      (* H3 *)
    end.
  Definition float_hyps (ty : fty) (x : Z) : bool :=
    (0 <=? pack ty x) && (pack ty x <? 2 ^ (8 * fsize ty))
    && match print_float_branch ty x with
       | 1 => if f64_iszero x then decimal_ok ty x (insert0 (fmt5e x))
              else match lexes_float ty (insert0 (fmt5e x)) with
                   | Some (neg, b) =>
                       scan (insert0 (fmt5e x)) =? (if neg then f64_neg (scan b) else scan b)
                   | None => false
                   end
       | 2 => decimal_ok ty x (match fk ty with F32 => fmt9g x | F64 => fmt17g x | FRepr => repr_ x end)
       | _ => match fk ty with F64 => pack ty x =? x | _ => true end
       end.

  (* ---------------------------------------------------------------- *)
  (* 8. dense elements                                                  *)

  Inductive ety := EI (ty : ity) | EF (ty : fty).

  (* struct format size of an integer element: ceil(w/8) -> 1,2,4,4,8,8,8,8; index = 8 *)
  Definition int_size (ty : ity) : res Z :=
    match ty with
    | TIndex => Ok 8
    | TInteger w _ =>
        let i := Z.shiftr (w + 7) 3 - 1 in
        if 8 <=? i then Raise 8                     (* NotImplementedError *)
        else Ok (if i <=? 0 then 1 else if i =? 1 then 2 else if i <=? 3 then 4 else 8)
    end.
  Definition elem_size (e : ety) : res Z :=
    match e with EI ty => int_size ty | EF ty => Ok (fsize ty) end.

  (* the Python value of a stored element: ints are themselves, floats are unpacked *)
  Definition elem_value (e : ety) (p : Z) : Z :=
    match e with EI _ => p | EF ty => unpack ty p end.
  Definition py_eq (e : ety) (a b : Z) : bool :=
    match e with EI _ => a =? b | EF _ => f64_eq a b end.

  (* DenseIntOrFPElementsAttr.is_splat: values.count(values[0]) == len(values)
     (count uses identity-or-equality: index 0 always counts, a NaN never equals another NaN) *)
  Definition is_splat (e : ety) (vals : list Z) : bool :=
    match vals with
    | [] => false
    | v0 :: r => forallb (py_eq e v0) r
    end.
  (* proposed repair C06-4: compare the stored bytes instead of the unpacked values *)
  Definition is_splat_bits (payloads : list Z) : bool :=
    match payloads with
    | [] => false
    | p0 :: r => forallb (fun p => p =? p0) r
    end.

  Definition print_elem (e : ety) (v : Z) : text :=
    match e with
    | EI ty => print_int v (is_i1 ty)
    | EF ty => print_float ty v
    end.

  Definition prod (l : list Z) : Z := fold_right Z.mul 1 l.
  Definition shape_is_complete (shape : list Z) (len : Z) : bool :=
    forallb (fun d => 1 <=? d) shape && (prod shape =? len).

  (* k little-endian bytes of v mod 256^k *)
  Fixpoint le_bytes (k : nat) (v : Z) : list Z :=
    match k with O => [] | S k' => v mod 256 :: le_bytes k' (v / 256) end.
  Fixpoint of_le_bytes (bs : list Z) : Z :=
    match bs with [] => 0 | b :: r => b + 256 * of_le_bytes r end.
  Definition hex_of_bytes (upper : bool) (bs : list Z) : text :=
    flat_map (fun b => [digit_char upper (b / 16); digit_char upper (b mod 16)]) bs.
  (* bytes.fromhex on a digit string (ValueError = None) *)
  Fixpoint bytes_fromhex (s : text) : option (list Z) :=
    match s with
    | [] => Some []
    | h :: l :: r =>
        match digit_val h, digit_val l, bytes_fromhex r with
        | Some a, Some b, Some bs => Some (a * 16 + b :: bs)
        | _, _, _ => None
        end
    | _ => None
    end.

  (* the text between `dense<` and `>` as a structure: nesting of the list form is kept as
     (shape, flat element texts) *)
  Inductive dense_text :=
  | DEmpty
  | DSplat (t : text)
  | DHex (digits : text)                  (* "0x<digits>" string literal *)
  | DList (shape : list Z) (elems : list text).

  (* DenseIntOrFPElementsAttr.print_without_type (payloads = stored elements) *)
  Definition print_dense (splatfix : bool) (e : ety) (shape : list Z) (payloads : list Z) : res dense_text :=
    let vals := map (elem_value e) payloads in
    let len := Z.of_nat (List.length payloads) in
    let shape' := if shape_is_complete shape len then shape else [len] in
    if len =? 0 then Ok DEmpty
    else if (if splatfix then is_splat_bits payloads else is_splat e vals)
         then Ok (DSplat (print_elem e (hd 0 vals)))
    else if 100 <? len then
      match elem_size e with
      | Ok sz => Ok (DHex (hex_of_bytes true (flat_map (le_bytes (Z.to_nat sz)) payloads)))
      | NoTok => NoTok | Raise x => Raise x
      end
    else Ok (DList shape' (map (print_elem e) vals)).

  (* _parse_optional_bool_int_or_float on the tokens of one element (all tokens must be used) *)
  Definition parse_elem (ts : list tok) : res (pyval * bool) :=
    let '(neg, ts1) := match ts with TMinus :: r => (true, r) | _ => (false, ts) end in
    match ts1 with
    | TBare t :: [] =>
        if neg then NoTok
        else if text_eqb t (str "true") then Ok (VBool true, false)
        else if text_eqb t (str "false") then Ok (VBool false, false) else NoTok
    | TInt t :: [] =>
        match get_int_value t with
        (* second component: the element's span text starts with 0x / 0X (never after a '-') *)
        | Some v => Ok (VInt (if neg then - v else v), is_hex_tok ts)
        | None => Raise E_VALUE
        end
    | TFloat t :: [] => Ok (VFloat (if neg then f64_neg (scan t) else scan t), false)
    | _ => NoTok
    end.

  Definition pyval_ltz (v : pyval) : bool :=
    match v with VBool _ => false | VInt z => z <? 0 | VFloat f => f64_ltz f end.

  (* _TensorLiteralElement.to_int *)
  Definition to_int (v : pyval) (allow_negative allow_booleans : bool) : res Z :=
    if pyval_ltz v && negb allow_negative then Raise E_PARSE
    else match v with
         | VBool b => if allow_booleans then Ok (if b then 1 else 0) else Raise E_PARSE
         | VInt z => Ok z
         | VFloat _ => Raise E_PARSE
         end.
  (* _TensorLiteralElement.to_float: float(self.value) *)
  Definition to_float (v : pyval) : res Z :=
    match v with
    | VBool b => of_int (if b then 1 else 0)
    | VInt z => of_int z
    | VFloat f => Ok f
    end.

  (* to_type followed by from_list's normalisation / packing: the stored element *)
  Definition elem_payload (hexfix : bool) (e : ety) (vh : pyval * bool) : res Z :=
    let '(v, ishex) := vh in
    match e with
    | EF ty =>
        match v with
        | VInt i =>
            if hexfix && ishex then
              (* proposed repair C06-2: a hexadecimal integer literal is the bit pattern of the float *)
              if i <? 2 ^ (8 * fsize ty) then Ok (pack ty (unpack ty i)) else Raise E_PARSE
            else match to_float v with Ok f => Ok (pack ty f) | NoTok => NoTok | Raise x => Raise x end
        | _ => match to_float v with Ok f => Ok (pack ty f) | NoTok => NoTok | Raise x => Raise x end
        end
    | EI (TInteger w s) =>
        match to_int v (match s with Unsigned => false | _ => true end) (w =? 1) with
        | Ok z => match normalized_value s w z with Some z' => Ok z' | None => Raise E_VALUE end
        | NoTok => NoTok | Raise x => Raise x
        end
    | EI TIndex =>
        match to_int v true false with
        | Ok z => if (- 9223372036854775808 <=? z) && (z <? 9223372036854775808) then Ok z else Raise E_OTHER
        | NoTok => NoTok | Raise x => Raise x
        end
    end.

  Definition parse_elem_text (hexfix : bool) (e : ety) (t : text) : res Z :=
    match lex false t with
    | Ok ts =>
        match parse_elem ts with
        | Ok v => elem_payload hexfix e v
        | NoTok => Raise E_PARSE       (* "Expected either a float, integer, or complex literal" *)
        | Raise x => Raise x
        end
    | NoTok => NoTok
    | Raise x => Raise x
    end.

  Fixpoint map_res {A B} (f : A -> res B) (l : list A) : res (list B) :=
    match l with
    | [] => Ok []
    | a :: r =>
        match f a with
        | Ok b => match map_res f r with Ok bs => Ok (b :: bs) | x => x end
        | NoTok => NoTok
        | Raise x => Raise x
        end
    end.

  Fixpoint chunks (fuel : nat) (k : nat) (l : list Z) : list (list Z) :=
    match fuel with
    | O => []
    | S f => match l with [] => [] | _ => firstn k l :: chunks f k (skipn k l) end
    end.

  Fixpoint shape_eqb (a b : list Z) : bool :=
    match a, b with
    | [], [] => true
    | x :: a', y :: b' => (x =? y) && shape_eqb a' b'
    | _, _ => false
    end.

  (* a stored element read back from its little-endian bytes: struct formats of signless/signed
     integers are signed, of unsigned integers and float bit patterns unsigned *)
  Definition payload_of_bytes (e : ety) (sz : Z) (bs : list Z) : Z :=
    let u := of_le_bytes bs in
    match e with
    | EI (TInteger _ Unsigned) => u
    | EI _ => if 2 ^ (8 * sz - 1) <=? u then u - 2 ^ (8 * sz) else u
    | EF _ => u
    end.

  (* parse_dense_int_or_fp_elements_attr after the type is known *)
  Definition parse_dense (hexfix : bool) (e : ety) (type_shape : list Z) (d : dense_text) : res (list Z) :=
    let num := prod type_shape in
    match d with
    | DEmpty => if num =? 0 then Ok [] else Raise E_PARSE
    | DHex digits =>
        match bytes_fromhex digits, elem_size e with
        | None, _ => Raise E_PARSE
        | Some bs, Ok sz =>
            let bs' := if Z.of_nat (List.length bs) =? sz
                       then List.concat (repeat bs (Z.to_nat num)) else bs in
            let n := Z.of_nat (List.length bs') / sz in
            if num =? n
            then Ok (map (payload_of_bytes e sz) (chunks (List.length bs') (Z.to_nat sz) (firstn (Z.to_nat (n * sz)) bs')))
            else Raise E_PARSE
        | Some _, NoTok => NoTok
        | Some _, Raise x => Raise x
        end
    | DSplat t =>
        match parse_elem_text hexfix e t with
        | Ok p => Ok (repeat p (Z.to_nat num))
        | NoTok => NoTok | Raise x => Raise x
        end
    | DList shape elems =>
        match map_res (parse_elem_text hexfix e) elems with
        | Ok ps => if shape_eqb type_shape shape then Ok ps else Raise E_PARSE
        | NoTok => NoTok | Raise x => Raise x
        end
    end.

  Definition dense_roundtrip (hexfix splatfix : bool) (e : ety) (shape : list Z) (payloads : list Z)
    : res (list Z) :=
    match print_dense splatfix e shape payloads with
    | Ok d => parse_dense hexfix e shape d
    | NoTok => NoTok
    | Raise x => Raise x
    end.

  (* ---------------------------------------------------------------- *)
  (* 9. DenseArrayBase: array<ty: e1, e2, ...>                          *)

  Definition print_densearray (e : ety) (payloads : list Z) : list text :=
    map (fun p => print_elem e (elem_value e p)) payloads.

  (* one element of _parse_builtin_densearray_attr *)
  Definition parse_array_elem (hexfix : bool) (e : ety) (t : text) : res Z :=
    match lex false t with
    | Ok ts =>
        match e with
        | EI (TInteger w s) =>
            (* _parse_typed_integer(element_type, allow_boolean=True) then from_list *)
            match parse_optional_integer true true ts with
            | Ok (v, []) =>
                if in_range s w v
                then match normalized_value s w v with Some v' => Ok v' | None => Raise E_VALUE end
                else Raise E_PARSE
            | Ok (_, _ :: _) => Raise E_PARSE
            | NoTok => Raise E_PARSE
            | Raise x => Raise x
            end
        | EI TIndex => Raise E_PARSE                 (* not an allowed element type *)
        | EF ty =>
            (* parse_float(): [MINUS] FLOAT_LIT *)
            let '(neg, ts1) := match ts with TMinus :: r => (true, r) | _ => (false, ts) end in
            match ts1 with
            | TFloat b :: [] => Ok (pack ty (if neg then f64_neg (scan b) else scan b))
            | TInt t :: [] =>
                (* proposed repair C06-3: a hexadecimal integer literal is the bit pattern of the float *)
                if hexfix && is_hex_tok ts then
                  match get_int_value t with
                  | Some i => if i <? 2 ^ (8 * fsize ty) then Ok (pack ty (unpack ty i)) else Raise E_PARSE
                  | None => Raise E_VALUE
                  end
                else Raise E_PARSE
            | _ => Raise E_PARSE                     (* "Expected float literal" *)
            end
        end
    | NoTok => NoTok
    | Raise x => Raise x
    end.

  Definition densearray_roundtrip (hexfix : bool) (e : ety) (payloads : list Z) : res (list Z) :=
    map_res (parse_array_elem hexfix e) (print_densearray e payloads).
End FloatKernel.
