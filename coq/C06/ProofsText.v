(* C06/ProofsText.v -- proofs about the text kernels of C06/Model.v:
   digits (decimal / hex) round trip, UTF-8 round trip, escape / unescape / literal regex,
   STRING_LIT vs BYTES_LIT classification, the token-level lexer lemmas used by the other files. *)
From Coq Require Import ZArith List Bool Lia String Ascii.
From XV Require Import C06.Model.
Import ListNotations.
Local Open Scope Z_scope.

(* ------------------------------------------------------------------ *)
(* generic helpers                                                      *)

Lemma text_eqb_refl : forall a, text_eqb a a = true.
Proof. induction a as [|x a IH]; cbn; [reflexivity|]. rewrite Z.eqb_refl, IH. reflexivity. Qed.

Lemma text_eqb_eq : forall a b, text_eqb a b = true -> a = b.
Proof.
  induction a as [|x a IH]; destruct b as [|y b]; cbn; intros H; try discriminate; [reflexivity|].
  apply andb_true_iff in H as [H1 H2]. apply Z.eqb_eq in H1. subst. f_equal. auto.
Qed.

Lemma span_while_app : forall p a rest,
  forallb p a = true -> (match rest with [] => True | c :: _ => p c = false end) ->
  span_while p (a ++ rest) = (a, rest).
Proof.
  induction a as [|x a IH]; cbn; intros rest Ha Hr.
  - destruct rest as [|c r]; [reflexivity|]. cbn. rewrite Hr. reflexivity.
  - apply andb_true_iff in Ha as [Hx Ha]. rewrite Hx, (IH rest Ha Hr). reflexivity.
Qed.

(* ------------------------------------------------------------------ *)
(* 1. digits                                                            *)

Lemma digit_val_char : forall up d, 0 <= d < 16 -> digit_val (digit_char up d) = Some d.
Proof.
  intros up d Hd. unfold digit_char, digit_val.
  destruct (d <? 10) eqn:E.
  - apply Z.ltb_lt in E.
    replace ((48 <=? 48 + d) && (48 + d <=? 57)) with true
      by (symmetry; apply andb_true_iff; split; apply Z.leb_le; lia).
    f_equal. lia.
  - apply Z.ltb_ge in E. destruct up.
    + replace ((48 <=? 55 + d) && (55 + d <=? 57)) with false
        by (symmetry; apply andb_false_iff; right; apply Z.leb_gt; lia).
      replace ((65 <=? 55 + d) && (55 + d <=? 70)) with true
        by (symmetry; apply andb_true_iff; split; apply Z.leb_le; lia).
      f_equal. lia.
    + replace ((48 <=? 87 + d) && (87 + d <=? 57)) with false
        by (symmetry; apply andb_false_iff; right; apply Z.leb_gt; lia).
      replace ((65 <=? 87 + d) && (87 + d <=? 70)) with false
        by (symmetry; apply andb_false_iff; right; apply Z.leb_gt; lia).
      replace ((97 <=? 87 + d) && (87 + d <=? 102)) with true
        by (symmetry; apply andb_true_iff; split; apply Z.leb_le; lia).
      f_equal. lia.
Qed.

Lemma is_hexdigit_char : forall up d, 0 <= d < 16 -> is_hexdigit (digit_char up d) = true.
Proof. intros. unfold is_hexdigit. rewrite digit_val_char; auto. Qed.

Lemma is_digit_char : forall up d, 0 <= d < 10 -> is_digit (digit_char up d) = true.
Proof.
  intros up d Hd. unfold is_digit, digit_char.
  replace (d <? 10) with true by (symmetry; apply Z.ltb_lt; lia).
  apply andb_true_iff; split; apply Z.leb_le; lia.
Qed.

Lemma is_digit_hexdigit : forall c, is_digit c = true -> is_hexdigit c = true.
Proof. intros c H. unfold is_digit in H. unfold is_hexdigit, digit_val. rewrite H. reflexivity. Qed.

Lemma horner_app : forall base a b acc,
  horner base (a ++ b) acc =
  match horner base a acc with Some v => horner base b v | None => None end.
Proof.
  induction a as [|c a IH]; cbn; intros b acc; [reflexivity|].
  destruct (digit_val c); [|reflexivity]. destruct (z <? base); [|reflexivity]. apply IH.
Qed.

(* the digit loop: result is  ds ++ acc  with  ds  a non-empty digit string whose value is n *)
Lemma digits_fuel_spec : forall fuel base up n acc,
  2 <= base <= 16 -> 0 <= n < 2 ^ Z.of_nat (S fuel) ->
  exists ds, digits_fuel (S fuel) base up n acc = ds ++ acc /\ ds <> [] /\
    Forall (fun c => exists d, 0 <= d < base /\ c = digit_char up d) ds /\
    forall a, horner base ds a = Some (a * base ^ Z.of_nat (List.length ds) + n).
Proof.
  induction fuel as [|f IH]; intros base up n acc Hb Hn.
  - assert (E : n < base) by (cbn in Hn; lia).
    assert (Hm : 0 <= n mod base < base) by (apply Z.mod_pos_bound; lia).
    cbn [digits_fuel]. replace (n <? base) with true by (symmetry; apply Z.ltb_lt; lia).
    exists [digit_char up (n mod base)]. repeat split.
    + discriminate.
    + constructor; [|constructor]. exists (n mod base). split; [lia|reflexivity].
    + intros a. cbn [horner List.length]. rewrite digit_val_char by lia.
      replace (n mod base <? base) with true by (symmetry; apply Z.ltb_lt; lia).
      rewrite Z.mod_small by lia. f_equal. change (Z.of_nat 1) with 1. rewrite Z.pow_1_r. reflexivity.
  - remember (S f) as f1. cbn [digits_fuel].
    assert (Hm : 0 <= n mod base < base) by (apply Z.mod_pos_bound; lia).
    destruct (n <? base) eqn:E.
    + apply Z.ltb_lt in E. exists [digit_char up (n mod base)]. repeat split.
      * discriminate.
      * constructor; [|constructor]. exists (n mod base). split; [lia|reflexivity].
      * intros a. cbn [horner List.length]. rewrite digit_val_char by lia.
        replace (n mod base <? base) with true by (symmetry; apply Z.ltb_lt; lia).
        rewrite Z.mod_small by lia. f_equal. change (Z.of_nat 1) with 1. rewrite Z.pow_1_r. reflexivity.
    + apply Z.ltb_ge in E.
      assert (Hq : 0 <= n / base < 2 ^ Z.of_nat f1).
      { split; [apply Z.div_pos; lia|].
        apply Z.div_lt_upper_bound; [lia|].
        rewrite (Nat2Z.inj_succ f1), Z.pow_succ_r in Hn by lia.
        assert (0 < 2 ^ Z.of_nat f1) by (apply Z.pow_pos_nonneg; lia). nia. }
      subst f1.
      destruct (IH base up (n / base) (digit_char up (n mod base) :: acc) Hb Hq)
        as (ds & Heq & Hne & Hall & Hh).
      exists (ds ++ [digit_char up (n mod base)]). repeat split.
      * rewrite Heq, <- app_assoc. reflexivity.
      * destruct ds; discriminate.
      * apply Forall_app. split; [exact Hall|]. constructor; [|constructor].
        exists (n mod base). split; [lia|reflexivity].
      * intros a. rewrite horner_app, Hh. cbn [horner]. rewrite digit_val_char by lia.
        replace (n mod base <? base) with true by (symmetry; apply Z.ltb_lt; lia).
        f_equal. rewrite app_length. cbn [List.length]. rewrite Nat2Z.inj_add.
        change (Z.of_nat 1) with 1.
        rewrite Z.pow_add_r, Z.pow_1_r by lia.
        pose proof (Z.div_mod n base ltac:(lia)). nia.
Qed.

Lemma log2_fuel : forall n, 0 <= n -> n < 2 ^ Z.of_nat (S (Z.to_nat (Z.log2 n))).
Proof.
  intros n Hn. rewrite Nat2Z.inj_succ, Z2Nat.id by apply Z.log2_nonneg.
  destruct (Z.eq_dec n 0) as [->|Hz]; [cbn; lia|].
  apply Z.log2_spec. lia.
Qed.

Lemma nat_digits_spec : forall base up n,
  2 <= base <= 16 -> 0 <= n ->
  nat_digits base up n <> [] /\
  Forall (fun c => exists d, 0 <= d < base /\ c = digit_char up d) (nat_digits base up n) /\
  int_of_digits base (nat_digits base up n) = Some n.
Proof.
  intros base up n Hb Hn. unfold nat_digits.
  destruct (digits_fuel_spec (Z.to_nat (Z.log2 n)) base up n [] Hb (conj Hn (log2_fuel n Hn)))
    as (ds & Heq & Hne & Hall & Hh).
  rewrite Heq, app_nil_r. repeat split; auto.
  unfold int_of_digits. destruct ds; [contradiction|]. rewrite Hh. f_equal; lia.
Qed.

Lemma nat_digits10_all_digit : forall up n, 0 <= n -> forallb is_digit (nat_digits 10 up n) = true.
Proof.
  intros up n Hn. destruct (nat_digits_spec 10 up n ltac:(lia) Hn) as (_ & Hall & _).
  apply forallb_forall. intros c Hc. rewrite Forall_forall in Hall.
  destruct (Hall c Hc) as (d & Hd & ->). apply is_digit_char. lia.
Qed.

Lemma nat_digits16_all_hex : forall up n, 0 <= n -> forallb is_hexdigit (nat_digits 16 up n) = true.
Proof.
  intros up n Hn. destruct (nat_digits_spec 16 up n ltac:(lia) Hn) as (_ & Hall & _).
  apply forallb_forall. intros c Hc. rewrite Forall_forall in Hall.
  destruct (Hall c Hc) as (d & Hd & ->). apply is_hexdigit_char. lia.
Qed.

(* fixed-width hex *)
Lemma hex_fixed_spec : forall up k v a,
  0 <= v ->
  horner 16 (hex_fixed up k v) a = Some (a * 16 ^ Z.of_nat k + v mod 16 ^ Z.of_nat k)
  /\ forallb is_hexdigit (hex_fixed up k v) = true /\ List.length (hex_fixed up k v) = k.
Proof.
  induction k as [|k IH]; intros v a Hv.
  - cbn. rewrite Z.mod_1_r. repeat split. f_equal. lia.
  - cbn [hex_fixed]. assert (Hq : 0 <= v / 16) by (apply Z.div_pos; lia).
    assert (Hm : 0 <= v mod 16 < 16) by (apply Z.mod_pos_bound; lia).
    destruct (IH (v / 16) a Hq) as (Hh & Hall & Hlen). repeat split.
    + rewrite horner_app, Hh. cbn [horner]. rewrite digit_val_char by lia.
      replace (v mod 16 <? 16) with true by (symmetry; apply Z.ltb_lt; lia).
      f_equal. rewrite Nat2Z.inj_succ, Z.pow_succ_r by lia.
      assert (Hp : 0 < 16 ^ Z.of_nat k) by (apply Z.pow_pos_nonneg; lia).
      rewrite Z.rem_mul_r by lia. lia.
    + rewrite forallb_app, Hall. cbn. rewrite is_hexdigit_char by lia. reflexivity.
    + rewrite app_length, Hlen. cbn. lia.
Qed.

(* ------------------------------------------------------------------ *)
(* 2. UTF-8                                                             *)

Ltac inj_some H :=
  match type of H with
  | Some ?x = Some ?b => let E := fresh "E" in assert (E : b = x) by congruence; subst b; clear H
  end.

Lemma utf8_dec_enc1 : forall c b rest,
  utf8_enc1 c = Some b -> utf8_dec (b ++ rest) = option_map (cons c) (utf8_dec rest).
Proof.
  intros c b rest H. unfold utf8_enc1 in H.
  destruct (is_scalar c) eqn:Hs; cbn [negb] in H; [|discriminate].
  unfold is_scalar in Hs. apply andb_true_iff in Hs as [Hs Hsur]. apply andb_true_iff in Hs as [H0 H1].
  apply Z.leb_le in H0. apply Z.ltb_lt in H1. apply negb_true_iff in Hsur.
  destruct (c <? 128) eqn:E1.
  { apply Z.ltb_lt in E1. inj_some H. cbn [app utf8_dec]. unfold in_rng.
    replace ((0 <=? c) && (c <=? 127)) with true by (symmetry; apply andb_true_iff; split; apply Z.leb_le; lia).
    reflexivity. }
  apply Z.ltb_ge in E1.
  destruct (c <? 2048) eqn:E2.
  { apply Z.ltb_lt in E2. inj_some H. cbn [app utf8_dec]. unfold in_rng, is_cont.
    pose proof (Z.div_mod c 64 ltac:(lia)). pose proof (Z.mod_pos_bound c 64 ltac:(lia)).
    assert (2 <= c / 64 < 32) by (split; [apply Z.div_le_lower_bound|apply Z.div_lt_upper_bound]; lia).
    replace ((0 <=? 192 + c / 64) && (192 + c / 64 <=? 127)) with false
      by (symmetry; apply andb_false_iff; right; apply Z.leb_gt; lia).
    replace ((194 <=? 192 + c / 64) && (192 + c / 64 <=? 223)) with true
      by (symmetry; apply andb_true_iff; split; apply Z.leb_le; lia).
    replace ((128 <=? 128 + c mod 64) && (128 + c mod 64 <=? 191)) with true
      by (symmetry; apply andb_true_iff; split; apply Z.leb_le; lia).
    replace ((192 + c / 64 - 192) * 64 + (128 + c mod 64 - 128)) with c by lia.
    reflexivity. }
  apply Z.ltb_ge in E2.
  destruct (c <? 65536) eqn:E3.
  { apply Z.ltb_lt in E3. inj_some H. cbn [app utf8_dec]. unfold in_rng, is_cont.
    pose proof (Z.div_mod c 64 ltac:(lia)). pose proof (Z.mod_pos_bound c 64 ltac:(lia)).
    pose proof (Z.div_mod (c / 64) 64 ltac:(lia)). pose proof (Z.mod_pos_bound (c / 64) 64 ltac:(lia)).
    assert (Hd : c / 4096 = c / 64 / 64) by (rewrite Z.div_div by lia; reflexivity).
    assert (32 <= c / 64 < 1024) by (split; [apply Z.div_le_lower_bound|apply Z.div_lt_upper_bound]; lia).
    assert (0 <= c / 4096 < 16) by (rewrite Hd; split; [apply Z.div_le_lower_bound|apply Z.div_lt_upper_bound]; lia).
    replace ((0 <=? 224 + c / 4096) && (224 + c / 4096 <=? 127)) with false
      by (symmetry; apply andb_false_iff; right; apply Z.leb_gt; lia).
    replace ((194 <=? 224 + c / 4096) && (224 + c / 4096 <=? 223)) with false
      by (symmetry; apply andb_false_iff; right; apply Z.leb_gt; lia).
    replace ((224 <=? 224 + c / 4096) && (224 + c / 4096 <=? 239)) with true
      by (symmetry; apply andb_true_iff; split; apply Z.leb_le; lia).
    replace ((128 <=? 128 + c mod 64) && (128 + c mod 64 <=? 191)) with true
      by (symmetry; apply andb_true_iff; split; apply Z.leb_le; lia).
    assert (Hsur' : ~ (55296 <= c < 57344)).
    { intros [Ha Hb]. apply andb_false_iff in Hsur as [Hx|Hx];
        [apply Z.leb_gt in Hx|apply Z.ltb_ge in Hx]; lia. }
    assert (Hrange :
      ((if 224 + c / 4096 =? 224 then 160 else 128) <=? 128 + (c / 64) mod 64) &&
      (128 + (c / 64) mod 64 <=? (if 224 + c / 4096 =? 237 then 159 else 191)) = true).
    { apply andb_true_iff; split; apply Z.leb_le.
      - destruct (224 + c / 4096 =? 224) eqn:Ex; [apply Z.eqb_eq in Ex|]; lia.
      - destruct (224 + c / 4096 =? 237) eqn:Ex; [apply Z.eqb_eq in Ex|]; lia. }
    rewrite Hrange. cbn [andb].
    replace ((224 + c / 4096 - 224) * 4096 + (128 + (c / 64) mod 64 - 128) * 64 + (128 + c mod 64 - 128))
      with c by lia.
    reflexivity. }
  apply Z.ltb_ge in E3.
  inj_some H. cbn [app utf8_dec]. unfold in_rng, is_cont.
  pose proof (Z.div_mod c 64 ltac:(lia)). pose proof (Z.mod_pos_bound c 64 ltac:(lia)).
  pose proof (Z.div_mod (c / 64) 64 ltac:(lia)). pose proof (Z.mod_pos_bound (c / 64) 64 ltac:(lia)).
  pose proof (Z.div_mod (c / 4096) 64 ltac:(lia)). pose proof (Z.mod_pos_bound (c / 4096) 64 ltac:(lia)).
  assert (Hd : c / 4096 = c / 64 / 64) by (rewrite Z.div_div by lia; reflexivity).
  assert (Hd2 : c / 262144 = c / 4096 / 64) by (rewrite Z.div_div by lia; reflexivity).
  assert (1024 <= c / 64 < 17408) by (split; [apply Z.div_le_lower_bound|apply Z.div_lt_upper_bound]; lia).
  assert (16 <= c / 4096 < 272) by (rewrite Hd; split; [apply Z.div_le_lower_bound|apply Z.div_lt_upper_bound]; lia).
  assert (0 <= c / 262144 < 5) by (rewrite Hd2; split; [apply Z.div_le_lower_bound|apply Z.div_lt_upper_bound]; lia).
  replace ((0 <=? 240 + c / 262144) && (240 + c / 262144 <=? 127)) with false
    by (symmetry; apply andb_false_iff; right; apply Z.leb_gt; lia).
  replace ((194 <=? 240 + c / 262144) && (240 + c / 262144 <=? 223)) with false
    by (symmetry; apply andb_false_iff; right; apply Z.leb_gt; lia).
  replace ((224 <=? 240 + c / 262144) && (240 + c / 262144 <=? 239)) with false
    by (symmetry; apply andb_false_iff; right; apply Z.leb_gt; lia).
  replace ((240 <=? 240 + c / 262144) && (240 + c / 262144 <=? 244)) with true
    by (symmetry; apply andb_true_iff; split; apply Z.leb_le; lia).
  replace ((128 <=? 128 + c mod 64) && (128 + c mod 64 <=? 191)) with true
    by (symmetry; apply andb_true_iff; split; apply Z.leb_le; lia).
  replace ((128 <=? 128 + (c / 64) mod 64) && (128 + (c / 64) mod 64 <=? 191)) with true
    by (symmetry; apply andb_true_iff; split; apply Z.leb_le; lia).
  assert (Hrange :
    ((if 240 + c / 262144 =? 240 then 144 else 128) <=? 128 + (c / 4096) mod 64) &&
    (128 + (c / 4096) mod 64 <=? (if 240 + c / 262144 =? 244 then 143 else 191)) = true).
  { apply andb_true_iff; split; apply Z.leb_le.
    - destruct (240 + c / 262144 =? 240) eqn:Ex; [apply Z.eqb_eq in Ex|]; lia.
    - destruct (240 + c / 262144 =? 244) eqn:Ex; [apply Z.eqb_eq in Ex|]; lia. }
  rewrite Hrange. cbn [andb].
  replace ((240 + c / 262144 - 240) * 262144 + (128 + (c / 4096) mod 64 - 128) * 4096 +
           (128 + (c / 64) mod 64 - 128) * 64 + (128 + c mod 64 - 128)) with c by lia.
  reflexivity.
Qed.

Lemma utf8_roundtrip : forall s bs, utf8_enc s = Some bs -> utf8_dec bs = Some s.
Proof.
  induction s as [|c s IH]; cbn; intros bs H.
  - inj_some H. reflexivity.
  - destruct (utf8_enc1 c) as [b|] eqn:E1; [|discriminate].
    destruct (utf8_enc s) as [br|] eqn:E2; [|discriminate]. inj_some H.
    rewrite (utf8_dec_enc1 c b br E1), (IH br eq_refl). reflexivity.
Qed.

Lemma utf8_enc_total : forall s, forallb is_scalar s = true -> exists bs, utf8_enc s = Some bs.
Proof.
  induction s as [|c s IH]; cbn; intros H; [eexists; reflexivity|].
  apply andb_true_iff in H as [Hc Hs]. destruct (IH Hs) as [br ->].
  unfold utf8_enc1. rewrite Hc. cbn.
  destruct (c <? 128); [eexists; reflexivity|].
  destruct (c <? 2048); [eexists; reflexivity|].
  destruct (c <? 65536); eexists; reflexivity.
Qed.

(* bytes produced by the encoder are bytes, and ASCII exactly for ASCII code points *)
Lemma utf8_enc1_bytes : forall c b, utf8_enc1 c = Some b ->
  Forall (fun x => 0 <= x < 256) b /\ (is_ascii_list b = (c <? 128)).
Proof.
  intros c b H. unfold utf8_enc1 in H.
  destruct (is_scalar c) eqn:Hs; cbn [negb] in H; [|discriminate].
  unfold is_scalar in Hs. apply andb_true_iff in Hs as [Hs _]. apply andb_true_iff in Hs as [H0 H1].
  apply Z.leb_le in H0. apply Z.ltb_lt in H1.
  destruct (c <? 128) eqn:E1.
  { apply Z.ltb_lt in E1. inj_some H. split; [repeat constructor; lia|].
    unfold is_ascii_list; cbn [forallb]. replace (c <? 128) with true by (symmetry; apply Z.ltb_lt; lia). reflexivity. }
  apply Z.ltb_ge in E1.
  pose proof (Z.mod_pos_bound c 64 ltac:(lia)).
  pose proof (Z.mod_pos_bound (c / 64) 64 ltac:(lia)).
  pose proof (Z.mod_pos_bound (c / 4096) 64 ltac:(lia)).
  destruct (c <? 2048) eqn:E2.
  { apply Z.ltb_lt in E2. inj_some H.
    assert (2 <= c / 64 < 32) by (split; [apply Z.div_le_lower_bound|apply Z.div_lt_upper_bound]; lia).
    split; [repeat constructor; lia|].
    unfold is_ascii_list; cbn [forallb]. replace (192 + c / 64 <? 128) with false by (symmetry; apply Z.ltb_ge; lia). reflexivity. }
  apply Z.ltb_ge in E2.
  destruct (c <? 65536) eqn:E3.
  { apply Z.ltb_lt in E3. inj_some H.
    assert (0 <= c / 4096 < 16) by (split; [apply Z.div_le_lower_bound|apply Z.div_lt_upper_bound]; lia).
    split; [repeat constructor; lia|].
    unfold is_ascii_list; cbn [forallb]. replace (224 + c / 4096 <? 128) with false by (symmetry; apply Z.ltb_ge; lia). reflexivity. }
  apply Z.ltb_ge in E3. inj_some H.
  assert (0 <= c / 262144 < 5) by (split; [apply Z.div_le_lower_bound|apply Z.div_lt_upper_bound]; lia).
  split; [repeat constructor; lia|].
  unfold is_ascii_list; cbn [forallb]. replace (240 + c / 262144 <? 128) with false by (symmetry; apply Z.ltb_ge; lia). reflexivity.
Qed.

Lemma is_ascii_list_app : forall a b, is_ascii_list (a ++ b) = is_ascii_list a && is_ascii_list b.
Proof. intros. unfold is_ascii_list. apply forallb_app. Qed.

Lemma utf8_enc_bytes : forall s bs, utf8_enc s = Some bs ->
  Forall (fun x => 0 <= x < 256) bs /\ is_ascii_list bs = is_ascii_list s.
Proof.
  induction s as [|c s IH]; cbn; intros bs H.
  - injection H as <-. split; [constructor|reflexivity].
  - destruct (utf8_enc1 c) as [b|] eqn:E1; [|discriminate].
    destruct (utf8_enc s) as [br|] eqn:E2; [|discriminate]. injection H as <-.
    destruct (utf8_enc1_bytes c b E1) as [Hb Ha]. destruct (IH br eq_refl) as [Hbr Har].
    split; [apply Forall_app; auto|].
    rewrite is_ascii_list_app, Ha, Har. reflexivity.
Qed.

Lemma utf8_enc_ascii : forall s, is_ascii_list s = true -> forallb (fun c => 0 <=? c) s = true ->
  utf8_enc s = Some s.
Proof.
  induction s as [|c s IH]; cbn; intros Ha Hn; [reflexivity|].
  apply andb_true_iff in Ha as [Hc Ha]. apply andb_true_iff in Hn as [Hc0 Hn].
  apply Z.ltb_lt in Hc. apply Z.leb_le in Hc0.
  rewrite (IH Ha Hn). unfold utf8_enc1, is_scalar.
  replace (0 <=? c) with true by (symmetry; apply Z.leb_le; lia).
  replace (c <? 1114112) with true by (symmetry; apply Z.ltb_lt; lia).
  replace (55296 <=? c) with false by (symmetry; apply Z.leb_gt; lia).
  cbn. replace (c <? 128) with true by (symmetry; apply Z.ltb_lt; lia). reflexivity.
Qed.

Lemma utf8_dec_ascii : forall s, is_ascii_list s = true -> forallb (fun c => 0 <=? c) s = true ->
  utf8_dec s = Some s.
Proof. intros s Ha Hn. apply utf8_roundtrip. apply utf8_enc_ascii; auto. Qed.

(* ------------------------------------------------------------------ *)
(* 3. escape / unescape / the literal regex                             *)

Definition is_byte (b : Z) : Prop := 0 <= b < 256.

Lemma known_escape_hex : forall d up, 0 <= d < 16 -> known_escape (digit_char up d) = None.
Proof.
  intros d up Hd. unfold known_escape, digit_char.
  destruct (d <? 10) eqn:E; [apply Z.ltb_lt in E|apply Z.ltb_ge in E; destruct up];
  repeat match goal with |- context [?a =? ?b] =>
    replace (a =? b) with false by (symmetry; apply Z.eqb_neq; lia) end; reflexivity.
Qed.

Lemma unescape_escape_byte : forall b rest, is_byte b ->
  unescape (escape_byte b ++ rest) = match unescape rest with Ok bs => Ok (b :: bs) | x => x end.
Proof.
  intros b rest Hb. unfold is_byte in Hb. unfold escape_byte.
  destruct (b =? 92) eqn:E92.
  { apply Z.eqb_eq in E92. subst. cbn. destruct (unescape rest); reflexivity. }
  apply Z.eqb_neq in E92.
  destruct ((b <? 32) || (126 <? b) || (b =? 34)) eqn:Esc.
  - assert (Hq : 0 <= b / 16 < 16) by (split; [apply Z.div_pos|apply Z.div_lt_upper_bound]; lia).
    assert (Hm : 0 <= b mod 16 < 16) by (apply Z.mod_pos_bound; lia).
    cbn [app unescape]. rewrite Z.eqb_refl.
    rewrite (known_escape_hex (b / 16) true Hq).
    rewrite (digit_val_char true (b / 16) Hq), (digit_val_char true (b mod 16) Hm).
    replace (b / 16 * 16 + b mod 16) with b by (pose proof (Z.div_mod b 16 ltac:(lia)); lia).
    reflexivity.
  - apply orb_false_iff in Esc as [Esc E34]. apply orb_false_iff in Esc as [E32 E126].
    apply Z.ltb_ge in E32. apply Z.ltb_ge in E126. apply Z.eqb_neq in E34.
    cbn [app unescape]. replace (b =? 92) with false by (symmetry; apply Z.eqb_neq; lia).
    unfold utf8_enc1, is_scalar.
    replace (0 <=? b) with true by (symmetry; apply Z.leb_le; lia).
    replace (b <? 1114112) with true by (symmetry; apply Z.ltb_lt; lia).
    replace (55296 <=? b) with false by (symmetry; apply Z.leb_gt; lia).
    cbn. replace (b <? 128) with true by (symmetry; apply Z.ltb_lt; lia).
    destruct (unescape rest); reflexivity.
Qed.

(* unescape (escape bs) = bs for ALL byte strings *)
Lemma unescape_escape : forall bs, Forall is_byte bs -> unescape (flat_map escape_byte bs) = Ok bs.
Proof.
  induction bs as [|b bs IH]; intros H; [reflexivity|].
  inversion H; subst. cbn [flat_map]. rewrite unescape_escape_byte by assumption.
  rewrite IH by assumption. reflexivity.
Qed.

Lemma scan_body_escape_byte : forall b rest, is_byte b ->
  scan_body (escape_byte b ++ rest) =
  match scan_body rest with Some (body, r) => Some (escape_byte b ++ body, r) | None => None end.
Proof.
  intros b rest Hb. unfold is_byte in Hb. unfold escape_byte.
  destruct (b =? 92) eqn:E92.
  { apply Z.eqb_eq in E92. subst. cbn. destruct (scan_body rest) as [[? ?]|]; reflexivity. }
  apply Z.eqb_neq in E92.
  destruct ((b <? 32) || (126 <? b) || (b =? 34)) eqn:Esc.
  - assert (Hq : 0 <= b / 16 < 16) by (split; [apply Z.div_pos|apply Z.div_lt_upper_bound]; lia).
    assert (Hm : 0 <= b mod 16 < 16) by (apply Z.mod_pos_bound; lia).
    cbn [app scan_body].
    replace (92 =? 34) with false by reflexivity. rewrite Z.eqb_refl.
    rewrite (known_escape_hex (b / 16) true Hq).
    rewrite (is_hexdigit_char true (b / 16) Hq), (is_hexdigit_char true (b mod 16) Hm). cbn [andb].
    destruct (scan_body rest) as [[? ?]|]; reflexivity.
  - apply orb_false_iff in Esc as [Esc E34]. apply orb_false_iff in Esc as [E32 E126].
    apply Z.ltb_ge in E32. apply Z.ltb_ge in E126. apply Z.eqb_neq in E34.
    cbn [app scan_body].
    replace (b =? 34) with false by (symmetry; apply Z.eqb_neq; lia).
    replace (b =? 92) with false by (symmetry; apply Z.eqb_neq; lia).
    replace (b =? 10) with false by (symmetry; apply Z.eqb_neq; lia).
    replace (b =? 11) with false by (symmetry; apply Z.eqb_neq; lia).
    replace (b =? 12) with false by (symmetry; apply Z.eqb_neq; lia).
    cbn [orb]. destruct (scan_body rest) as [[? ?]|]; reflexivity.
Qed.

(* the regex matches exactly the printed literal, whatever follows it *)
Lemma scan_body_escape : forall bs rest, Forall is_byte bs ->
  scan_body (flat_map escape_byte bs ++ 34 :: rest) = Some (flat_map escape_byte bs, rest).
Proof.
  induction bs as [|b bs IH]; intros rest H; [reflexivity|].
  inversion H; subst. cbn [flat_map]. rewrite <- app_assoc, scan_body_escape_byte by assumption.
  rewrite IH by assumption. reflexivity.
Qed.

(* a backslash appears in the escaped text iff some byte needs an escape; then all other bytes are
   printable ASCII.  What the classification needs: no backslash -> the payload is ASCII. *)
Lemma no_backslash_ascii : forall bs, Forall is_byte bs ->
  has_backslash (flat_map escape_byte bs) = false -> is_ascii_list bs = true.
Proof.
  induction bs as [|b bs IH]; intros H Hb; [reflexivity|].
  inversion H as [|? ? Hbyte Hrest]; subst. cbn [flat_map] in Hb.
  unfold has_backslash in *. rewrite existsb_app in Hb. apply orb_false_iff in Hb as [Hb1 Hb2].
  pose proof (IH Hrest Hb2) as IH'. unfold is_ascii_list in *. cbn [forallb]. rewrite IH', andb_true_r.
  unfold escape_byte in Hb1. destruct (b =? 92) eqn:E92; [cbn in Hb1; discriminate|].
  destruct ((b <? 32) || (126 <? b) || (b =? 34)) eqn:Esc; [cbn in Hb1; discriminate|].
  apply orb_false_iff in Esc as [Esc _]. apply orb_false_iff in Esc as [_ E126].
  apply Z.ltb_ge in E126. apply Z.ltb_lt. lia.
Qed.

Lemma flat_map_escape_nil : forall bs, flat_map escape_byte bs = [] -> bs = [].
Proof.
  destruct bs as [|b bs]; [reflexivity|]. cbn. unfold escape_byte.
  destruct (b =? 92); [discriminate|]. destruct ((b <? 32) || (126 <? b) || (b =? 34)); discriminate.
Qed.

(* the token the lexer produces for a printed bytes literal *)
Lemma lex_printed_literal : forall fixed bs rest, Forall is_byte bs ->
  lex_string_literal fixed (flat_map escape_byte bs ++ 34 :: rest) =
  Ok ((if (if fixed then (match utf8_dec bs with Some _ => true | None => false end) else is_ascii_list bs)
       then TStr (flat_map escape_byte bs) else TBytes (flat_map escape_byte bs)), rest).
Proof.
  intros fixed bs rest H. unfold lex_string_literal. rewrite scan_body_escape by assumption.
  destruct (flat_map escape_byte bs) as [|c body] eqn:Eb.
  - apply flat_map_escape_nil in Eb. subst. cbn. destruct fixed; reflexivity.
  - rewrite <- Eb. destruct (has_backslash (flat_map escape_byte bs)) eqn:Hbs; cbn [negb].
    + rewrite unescape_escape by assumption. destruct fixed.
      * destruct (utf8_dec bs); reflexivity.
      * destruct (is_ascii_list bs); reflexivity.
    + pose proof (no_backslash_ascii bs H Hbs) as Ha. destruct fixed; [|rewrite Ha; reflexivity].
      assert (Hn : forallb (fun c => 0 <=? c) bs = true).
      { apply forallb_forall. intros x Hx. rewrite Forall_forall in H. apply Z.leb_le. apply (H x Hx). }
      rewrite (utf8_dec_ascii bs Ha Hn). reflexivity.
Qed.

(* ---- attribute-level statements for BytesAttr / StringAttr ---- *)

Lemma is_ascii_nonneg_dec : forall bs, Forall is_byte bs -> is_ascii_list bs = true -> utf8_dec bs = Some bs.
Proof.
  intros bs H Ha. apply utf8_dec_ascii; [assumption|].
  apply forallb_forall. intros x Hx. rewrite Forall_forall in H. apply Z.leb_le. apply (H x Hx).
Qed.

(* unchanged tree: a BytesAttr comes back as a StringAttr exactly when its payload is ASCII *)
Lemma bytes_attr_roundtrip_char : forall bs, Forall is_byte bs ->
  bytes_attr_roundtrip false bs = Ok (if is_ascii_list bs then AString bs else ABytes bs).
Proof.
  intros bs H. unfold bytes_attr_roundtrip, print_bytes_literal.
  rewrite lex_printed_literal by assumption.
  destruct (is_ascii_list bs) eqn:Ha; cbn [parse_strlit_attr].
  - unfold string_contents. rewrite unescape_escape by assumption.
    rewrite (is_ascii_nonneg_dec bs H Ha). reflexivity.
  - rewrite unescape_escape by assumption. reflexivity.
Qed.

Lemma string_attr_roundtrip_char : forall fixed s, forallb is_scalar s = true ->
  exists bs, utf8_enc s = Some bs /\
  string_attr_roundtrip fixed s = Ok (if fixed || is_ascii_list s then AString s else ABytes bs).
Proof.
  intros fixed s Hs. destruct (utf8_enc_total s Hs) as [bs Hbs]. exists bs. split; [assumption|].
  destruct (utf8_enc_bytes s bs Hbs) as [Hbytes Hascii].
  assert (Hbytes' : Forall is_byte bs) by exact Hbytes.
  unfold string_attr_roundtrip, print_string_literal. rewrite Hbs. unfold print_bytes_literal.
  rewrite lex_printed_literal by assumption.
  rewrite (utf8_roundtrip s bs Hbs), Hascii.
  destruct fixed; cbn [orb].
  - cbn [parse_strlit_attr]. unfold string_contents. rewrite unescape_escape by assumption.
    rewrite (utf8_roundtrip s bs Hbs). reflexivity.
  - destruct (is_ascii_list s); cbn [parse_strlit_attr].
    + unfold string_contents. rewrite unescape_escape by assumption.
      rewrite (utf8_roundtrip s bs Hbs). reflexivity.
    + rewrite unescape_escape by assumption. reflexivity.
Qed.

(* ------------------------------------------------------------------ *)
(* 4. lexer: token stream relation                                      *)

Inductive lexes (fixed : bool) : text -> list tok -> Prop :=
| lexes_nil : forall s, lex1 fixed s = NoTok -> lexes fixed s []
| lexes_cons : forall s t rest ts,
    lex1 fixed s = Ok (t, rest) -> lexes fixed rest ts -> lexes fixed s (t :: ts).

Lemma lex_all_of_lexes : forall fixed s ts, lexes fixed s ts ->
  forall fuel, (List.length ts < fuel)%nat -> lex_all fixed fuel s = Ok ts.
Proof.
  induction 1 as [s H|s t rest ts H1 H2 IH]; intros fuel Hf.
  - destruct fuel; [inversion Hf|]. cbn. rewrite H. reflexivity.
  - destruct fuel; [inversion Hf|]. cbn [lex_all]. rewrite H1.
    rewrite (IH fuel) by (cbn in Hf; lia). reflexivity.
Qed.

Lemma lexes_of_lex_all : forall fixed fuel s ts, lex_all fixed fuel s = Ok ts -> lexes fixed s ts.
Proof.
  induction fuel as [|f IH]; intros s ts H; [discriminate|].
  cbn [lex_all] in H. destruct (lex1 fixed s) as [[t rest]| |e] eqn:E.
  - destruct (lex_all fixed f rest) as [ts'| |e'] eqn:E2; try discriminate.
    injection H as <-. eapply lexes_cons; eauto.
  - injection H as <-. apply lexes_nil. assumption.
  - discriminate.
Qed.

Lemma lex_of_lexes : forall fixed s ts, lexes fixed s ts -> (List.length ts <= List.length s)%nat ->
  lex fixed s = Ok ts.
Proof. intros. unfold lex. apply lex_all_of_lexes; [assumption|lia]. Qed.

Lemma lexes_of_lex : forall fixed s ts, lex fixed s = Ok ts -> lexes fixed s ts.
Proof. intros fixed s ts H. eapply lexes_of_lex_all. exact H. Qed.

(* skipping the blank before a token *)
Lemma lex1_space : forall fixed s, lex1 fixed (32 :: s) = lex1 fixed s.
Proof. intros. unfold lex1. cbn [span_while]. cbn. destruct (span_while _ s); reflexivity. Qed.

Definition not_blank (c : Z) : Prop := c <> 32 /\ c <> 10.

Lemma lex1_unfold_nonblank : forall c r, not_blank c ->
  snd (span_while (fun c => (c =? 32) || (c =? 10)) (c :: r)) = c :: r.
Proof.
  intros c r [H1 H2]. cbn.
  replace (c =? 32) with false by (symmetry; apply Z.eqb_neq; assumption).
  replace (c =? 10) with false by (symmetry; apply Z.eqb_neq; assumption). reflexivity.
Qed.

Lemma lex1_colon : forall fixed r, lex1 fixed (58 :: r) = Ok (TColon, r).
Proof. intros. reflexivity. Qed.

Definition ends_id (rest : text) : Prop := match rest with [] => True | c :: _ => is_id_char c = false end.
Definition ends_digits (rest : text) : Prop :=
  match rest with [] => True | c :: _ => is_hexdigit c = false /\ c <> 46 /\ c <> 120 end.

Lemma is_alpha_us_not_special : forall c, is_alpha_us c = true ->
  c <> 32 /\ c <> 10 /\ c <> 34 /\ c <> 58 /\ c <> 45 /\ c <> 46 /\ c <> 64 /\ c <> 44 /\ c <> 61.
Proof.
  intros c H. unfold is_alpha_us, in_rng in H.
  repeat (apply orb_true_iff in H as [H|H]);
  try (apply andb_true_iff in H as [Ha Hb]; apply Z.leb_le in Ha; apply Z.leb_le in Hb; lia).
  apply Z.eqb_eq in H. lia.
Qed.

(* a bare identifier followed by something that does not extend it *)
Lemma lex1_bare : forall fixed s rest, is_bare_id s = true -> ends_id rest ->
  lex1 fixed (s ++ rest) = Ok (TBare s, rest).
Proof.
  intros fixed s rest Hs Hr. destruct s as [|c r]; [discriminate|].
  cbn in Hs. apply andb_true_iff in Hs as [Hc Hr'].
  destruct (is_alpha_us_not_special c Hc) as (N1 & N2 & _).
  unfold lex1. cbn [app]. rewrite (lex1_unfold_nonblank c (r ++ rest) (conj N1 N2)).
  rewrite Hc. rewrite (span_while_app is_id_char r rest Hr').
  - reflexivity.
  - destruct rest; [exact I|exact Hr].
Qed.

(* an at-identifier: bare or quoted *)
Lemma lex1_at_bare : forall fixed s rest, is_bare_id s = true -> ends_id rest ->
  lex1 fixed (64 :: s ++ rest) = Ok (TAt s, rest).
Proof.
  intros fixed s rest Hs Hr. destruct s as [|c r]; [discriminate|].
  cbn in Hs. apply andb_true_iff in Hs as [Hc Hr'].
  unfold lex1. cbn [app span_while]. cbn. rewrite Hc.
  rewrite (span_while_app is_id_char r rest Hr').
  - reflexivity.
  - destruct rest; [exact I|exact Hr].
Qed.

Lemma lex1_at_quoted : forall fixed bs rest, Forall is_byte bs ->
  lex1 fixed (64 :: 34 :: flat_map escape_byte bs ++ 34 :: rest) =
  Ok (TAt (34 :: flat_map escape_byte bs ++ [34]), rest).
Proof.
  intros fixed bs rest H. unfold lex1. cbn [span_while]. cbn.
  rewrite lex_printed_literal by assumption.
  destruct (if fixed then _ else _); reflexivity.
Qed.

Lemma removelast_snoc : forall (l : text) x, removelast (l ++ [x]) = l.
Proof. intros. rewrite removelast_app by discriminate. cbn. apply app_nil_r. Qed.

(* ------------------------------------------------------------------ *)
(* 5. identifier-or-string: symbol names, symbol references, dictionary keys *)

Definition enc_of (n : text) : list Z := match utf8_enc n with Some bs => bs | None => [] end.
(* what follows the '@' / stands for a key: the name itself iff it is a bare identifier, else the quoted literal *)
Definition id_or_str_text (n : text) : text :=
  if is_bare_id n then n else 34 :: flat_map escape_byte (enc_of n) ++ [34].

Lemma enc_of_spec : forall n, forallb is_scalar n = true ->
  utf8_enc n = Some (enc_of n) /\ Forall is_byte (enc_of n) /\ utf8_dec (enc_of n) = Some n.
Proof.
  intros n Hn. destruct (utf8_enc_total n Hn) as [bs Hbs]. unfold enc_of. rewrite Hbs.
  split; [reflexivity|]. split; [apply (utf8_enc_bytes n bs Hbs)|apply utf8_roundtrip; assumption].
Qed.

Lemma print_id_or_str_ok : forall n, forallb is_scalar n = true ->
  print_id_or_str n = Ok (id_or_str_text n).
Proof.
  intros n Hn. unfold print_id_or_str, id_or_str_text. destruct (is_bare_id n); [reflexivity|].
  unfold print_string_literal. destruct (enc_of_spec n Hn) as (-> & _ & _). reflexivity.
Qed.

Lemma print_symbol_name_ok : forall n, forallb is_scalar n = true ->
  print_symbol_name n = Ok (64 :: id_or_str_text n).
Proof. intros n Hn. unfold print_symbol_name. rewrite print_id_or_str_ok by assumption. reflexivity. Qed.

Lemma string_contents_escape : forall n, forallb is_scalar n = true ->
  string_contents (flat_map escape_byte (enc_of n)) = Ok n.
Proof.
  intros n Hn. destruct (enc_of_spec n Hn) as (_ & Hb & Hd).
  unfold string_contents. rewrite unescape_escape by assumption. rewrite Hd. reflexivity.
Qed.

Lemma lex1_symbol : forall fixed n rest, forallb is_scalar n = true -> ends_id rest ->
  lex1 fixed (64 :: id_or_str_text n ++ rest) = Ok (TAt (id_or_str_text n), rest).
Proof.
  intros fixed n rest Hn Hr. unfold id_or_str_text. destruct (is_bare_id n) eqn:Hb.
  - apply lex1_at_bare; assumption.
  - destruct (enc_of_spec n Hn) as (_ & Hbytes & _).
    cbn [app]. rewrite <- app_assoc. cbn [app]. apply lex1_at_quoted. assumption.
Qed.

Lemma parse_symbol_tok : forall n, forallb is_scalar n = true ->
  parse_symbol_name (TAt (id_or_str_text n)) = Ok n.
Proof.
  intros n Hn. unfold id_or_str_text. destruct (is_bare_id n) eqn:Hb.
  - destruct n as [|c r]; [discriminate|]. cbn in Hb. apply andb_true_iff in Hb as [Hc _].
    destruct (is_alpha_us_not_special c Hc) as (_ & _ & N34 & _).
    cbn. replace (c =? 34) with false by (symmetry; apply Z.eqb_neq; assumption). reflexivity.
  - cbn [parse_symbol_name]. rewrite Z.eqb_refl. rewrite removelast_snoc.
    apply string_contents_escape. assumption.
Qed.

Fixpoint symref_tail_text (ns : list text) : text :=
  match ns with [] => [] | n :: r => 58 :: 58 :: 64 :: id_or_str_text n ++ symref_tail_text r end.
Fixpoint symref_tail_toks (ns : list text) : list tok :=
  match ns with [] => [] | n :: r => TColon :: TColon :: TAt (id_or_str_text n) :: symref_tail_toks r end.

Lemma print_symref_tail_ok : forall ns, forallb (forallb is_scalar) ns = true ->
  print_symref_tail ns = Ok (symref_tail_text ns).
Proof.
  induction ns as [|n r IH]; cbn [print_symref_tail forallb]; intros H; [reflexivity|].
  apply andb_true_iff in H as [Hn Hr]. rewrite print_symbol_name_ok by assumption.
  rewrite IH by assumption. cbn [symref_tail_text app]. reflexivity.
Qed.

Lemma ends_id_tail : forall ns, ends_id (symref_tail_text ns).
Proof. destruct ns; cbn; [exact I|reflexivity]. Qed.

Lemma lexes_symref_tail : forall fixed ns, forallb (forallb is_scalar) ns = true ->
  lexes fixed (symref_tail_text ns) (symref_tail_toks ns).
Proof.
  induction ns as [|n r IH]; cbn [forallb symref_tail_text symref_tail_toks]; intros H.
  - apply lexes_nil. reflexivity.
  - apply andb_true_iff in H as [Hn Hr].
    eapply lexes_cons; [apply lex1_colon|]. eapply lexes_cons; [apply lex1_colon|].
    eapply lexes_cons; [apply lex1_symbol; [assumption|apply ends_id_tail]|]. auto.
Qed.

Lemma id_or_str_text_nonempty : forall n, id_or_str_text n <> [].
Proof.
  intros n. unfold id_or_str_text. destruct (is_bare_id n) eqn:Hb; [|discriminate].
  destruct n; [discriminate|discriminate].
Qed.

Lemma symref_tail_len : forall ns,
  (List.length (symref_tail_toks ns) <= List.length (symref_tail_text ns))%nat.
Proof.
  induction ns as [|n r IH]; cbn [symref_tail_text symref_tail_toks List.length]; [lia|].
  rewrite app_length. lia.
Qed.

Lemma parse_symref_tail_ok : forall ns fuel, forallb (forallb is_scalar) ns = true ->
  (List.length ns < fuel)%nat -> parse_symref_tail fuel (symref_tail_toks ns) = Ok ns.
Proof.
  induction ns as [|n r IH]; intros fuel H Hf.
  - destruct fuel; [inversion Hf|]. reflexivity.
  - destruct fuel; [inversion Hf|]. cbn [forallb] in H. apply andb_true_iff in H as [Hn Hr].
    cbn [symref_tail_toks parse_symref_tail]. rewrite parse_symbol_tok by assumption.
    rewrite IH by (cbn in Hf; auto; lia). reflexivity.
Qed.

Lemma symref_tail_toks_len : forall ns, (List.length ns <= List.length (symref_tail_toks ns))%nat.
Proof. induction ns; cbn; lia. Qed.

(* symbol references round-trip for ALL surrogate-free names, with or without the lexer repair *)
Theorem symref_roundtrip_ok : forall fixed root ns,
  forallb is_scalar root = true -> forallb (forallb is_scalar) ns = true ->
  symref_roundtrip fixed root ns = Ok (root, ns).
Proof.
  intros fixed root ns Hr Hns. unfold symref_roundtrip, print_symref.
  rewrite print_symbol_name_ok by assumption. rewrite print_symref_tail_ok by assumption.
  assert (Hlex : lex fixed ((64 :: id_or_str_text root) ++ symref_tail_text ns)
                 = Ok (TAt (id_or_str_text root) :: symref_tail_toks ns)).
  { apply lex_of_lexes.
    - eapply lexes_cons; [apply lex1_symbol; [assumption|apply ends_id_tail]|].
      apply lexes_symref_tail. assumption.
    - cbn [List.length app]. rewrite app_length. pose proof (symref_tail_len ns).
      pose proof (id_or_str_text_nonempty root). destruct (id_or_str_text root); [contradiction|cbn; lia]. }
  rewrite Hlex. unfold parse_symref. rewrite parse_symbol_tok by assumption.
  rewrite parse_symref_tail_ok; [reflexivity|assumption|]. apply Nat.lt_succ_r. apply symref_tail_toks_len.
Qed.

(* the printer emits a bare identifier exactly when the name matches the bare-id grammar *)
Theorem print_id_or_str_bare_iff : forall n, forallb is_scalar n = true ->
  (print_id_or_str n = Ok n <-> is_bare_id n = true).
Proof.
  intros n Hn. rewrite print_id_or_str_ok by assumption. unfold id_or_str_text.
  destruct (is_bare_id n) eqn:Hb; split; intros H; try reflexivity; try discriminate.
  exfalso. injection H as H. assert (Hl : List.length (34 :: flat_map escape_byte (enc_of n) ++ [34]) = List.length n)
    by (rewrite H; reflexivity).
  destruct n as [|c r]; [discriminate|]. injection H as Hc _. subst c.
  (* a name starting with a double quote would be printed with that quote escaped: the literal is longer *)
  cbn [List.length] in Hl. rewrite app_length in Hl. cbn [List.length] in Hl.
  assert (Hlen : forall s bs, utf8_enc s = Some bs ->
           (List.length s <= List.length (flat_map escape_byte bs))%nat).
  { induction s as [|x s IH]; cbn; intros bs E; [lia|].
    destruct (utf8_enc1 x) as [b|] eqn:E1; [|discriminate].
    destruct (utf8_enc s) as [br|] eqn:E2; [|discriminate]. injection E as <-.
    rewrite flat_map_app, app_length. specialize (IH br eq_refl).
    assert (1 <= List.length (flat_map escape_byte b))%nat; [|lia].
    unfold utf8_enc1 in E1. destruct (negb (is_scalar x)); [discriminate|].
    destruct b as [|b0 b']; [repeat (destruct (_ <? _) in E1); discriminate|].
    cbn [flat_map]. rewrite app_length. unfold escape_byte.
    destruct (b0 =? 92); [cbn; lia|]. destruct ((b0 <? 32) || (126 <? b0) || (b0 =? 34)); cbn; lia. }
  destruct (enc_of_spec (34 :: r) Hn) as (He & _ & _). specialize (Hlen _ _ He). cbn [List.length] in Hlen. lia.
Qed.

(* dictionary keys *)
Lemma lex1_quoted : forall fixed bs rest, Forall is_byte bs ->
  lex1 fixed (34 :: flat_map escape_byte bs ++ 34 :: rest) =
  Ok ((if (if fixed then (match utf8_dec bs with Some _ => true | None => false end) else is_ascii_list bs)
       then TStr (flat_map escape_byte bs) else TBytes (flat_map escape_byte bs)), rest).
Proof.
  intros fixed bs rest H. unfold lex1. cbn [span_while]. cbn. apply lex_printed_literal. assumption.
Qed.

Theorem dict_key_roundtrip_char : forall fixed k rest, forallb is_scalar k = true -> ends_id rest ->
  dict_key_roundtrip fixed k rest =
  if is_bare_id k || fixed || is_ascii_list k then Ok k else Raise E_PARSE.
Proof.
  intros fixed k rest Hk Hr. unfold dict_key_roundtrip. rewrite print_id_or_str_ok by assumption.
  unfold id_or_str_text. destruct (is_bare_id k) eqn:Hb; cbn [orb].
  - rewrite lex1_bare by assumption. reflexivity.
  - destruct (enc_of_spec k Hk) as (He & Hbytes & Hd).
    cbn [app]. rewrite <- app_assoc. cbn [app]. rewrite lex1_quoted by assumption.
    rewrite Hd. destruct (utf8_enc_bytes k _ He) as [_ Ha]. rewrite Ha.
    destruct fixed; cbn [orb].
    + cbn [parse_id_or_str]. rewrite string_contents_escape by assumption. reflexivity.
    + destruct (is_ascii_list k); cbn [parse_id_or_str].
      * rewrite string_contents_escape by assumption. reflexivity.
      * reflexivity.
Qed.
