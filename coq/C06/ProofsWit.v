(* C06/ProofsWit.v -- corollaries (partial statements, repaired-lexer statements) and the
   refutation witnesses of C06, checked by vm_compute on table-backed oracles holding the
   CPython values of the few points involved (the same witnesses are replayed on the real
   code by harness/props/c06.py through known_findings.d/C06.json). *)
From Coq Require Import ZArith List Bool Lia String Ascii.
From XV Require Import Base.Show C06.Model C06.Enc C06.ProofsText C06.ProofsNum.
Import ListNotations.
Local Open Scope Z_scope.

(* ------------------------------------------------------------------ *)
(* strings / bytes / dictionary keys                                    *)

Lemma ascii_scalar : forall s, is_ascii_list s = true -> forallb (fun c => 0 <=? c) s = true ->
  forallb is_scalar s = true.
Proof.
  induction s as [|c s IH]; cbn; intros Ha Hn; [reflexivity|].
  apply andb_true_iff in Ha as [Hc Ha]. apply andb_true_iff in Hn as [Hc0 Hn].
  apply Z.ltb_lt in Hc. apply Z.leb_le in Hc0. rewrite (IH Ha Hn), andb_true_r.
  unfold is_scalar.
  replace (0 <=? c) with true by (symmetry; apply Z.leb_le; lia).
  replace (c <? 1114112) with true by (symmetry; apply Z.ltb_lt; lia).
  replace (55296 <=? c) with false by (symmetry; apply Z.leb_gt; lia). reflexivity.
Qed.

(* unchanged tree: ASCII strings round-trip *)
Lemma string_rt_partial : forall s, forallb is_scalar s = true -> is_ascii_list s = true ->
  string_attr_roundtrip false s = Ok (AString s).
Proof.
  intros s Hs Ha. destruct (string_attr_roundtrip_char false s Hs) as (bs & _ & H).
  rewrite H, Ha. reflexivity.
Qed.

(* unchanged tree: EVERY surrogate-free string with a non-ASCII character comes back as a bytes attribute *)
Lemma string_rt_refuted_class : forall s, forallb is_scalar s = true -> is_ascii_list s = false ->
  exists bs, utf8_enc s = Some bs /\ string_attr_roundtrip false s = Ok (ABytes bs).
Proof.
  intros s Hs Ha. destruct (string_attr_roundtrip_char false s Hs) as (bs & He & H).
  exists bs. split; [assumption|]. rewrite H, Ha. reflexivity.
Qed.

Lemma string_rt_refuted : exists s, forallb is_scalar s = true /\ string_attr_roundtrip false s <> Ok (AString s).
Proof. exists [233]. split; [reflexivity|]. vm_compute. discriminate. Qed.

(* with the lexer repair (classification by UTF-8 decodability): all surrogate-free strings round-trip *)
Lemma string_rt_fixed : forall s, forallb is_scalar s = true -> string_attr_roundtrip true s = Ok (AString s).
Proof.
  intros s Hs. destruct (string_attr_roundtrip_char true s Hs) as (bs & _ & H). rewrite H. reflexivity.
Qed.

Lemma bytes_attr_rt_partial : forall bs, Forall is_byte bs -> is_ascii_list bs = false ->
  bytes_attr_roundtrip false bs = Ok (ABytes bs).
Proof. intros bs H Ha. rewrite bytes_attr_roundtrip_char by assumption. rewrite Ha. reflexivity. Qed.

Lemma bytes_attr_rt_refuted : exists bs, Forall is_byte bs /\ bytes_attr_roundtrip false bs <> Ok (ABytes bs).
Proof.
  exists [97; 98; 99]. split; [repeat constructor; unfold is_byte; lia|]. vm_compute. discriminate.
Qed.

Lemma dict_key_rt_partial : forall k rest, forallb is_scalar k = true -> ends_id rest ->
  is_bare_id k = true \/ is_ascii_list k = true -> dict_key_roundtrip false k rest = Ok k.
Proof.
  intros k rest Hk Hr H. rewrite dict_key_roundtrip_char by assumption.
  destruct H as [-> | ->]; [reflexivity|]. rewrite orb_true_r. reflexivity.
Qed.

Lemma dict_key_rt_fixed : forall k rest, forallb is_scalar k = true -> ends_id rest ->
  dict_key_roundtrip true k rest = Ok k.
Proof.
  intros k rest Hk Hr. rewrite dict_key_roundtrip_char by assumption. rewrite orb_true_r. reflexivity.
Qed.

Lemma dict_key_rt_refuted : exists k rest, forallb is_scalar k = true /\ ends_id rest /\
  dict_key_roundtrip false k rest = Raise E_PARSE.
Proof. exists [233], (str " = 1 : i32}"). repeat split. Qed.

(* ------------------------------------------------------------------ *)
(* witness oracle: CPython's values at the binary32 points NaN (0x7fc00000), 1.0, +0.0, -0.0 *)

Definition nan64 := 9221120237041090560.
Definition one64 := 4607182418800017408.
Definition negz64 := 9223372036854775808.
Definition wit : otab := {|
  o_pack := [(0, 0); (one64, 1065353216); (nan64, 2143289344); (negz64, 2147483648);
             (4746776415062458368, 1325367296)];         (* float(2143289344) packs to 0x4EFF8000 *)
  o_unpack := [(0, 0); (1065353216, one64); (2143289344, nan64); (2147483648, negz64)];
  o_5e := [(nan64, str "nan"); (one64, str "1.00000e+00"); (0, str "0.00000e+00"); (negz64, str "-0.00000e+00")];
  o_9g := []; o_17g := []; o_repr := [];
  o_scan := [(str "1.000000e+00", one64); (str "0.000000e+00", 0); (str "-0.000000e+00", negz64)];
  o_ofint := [(2143289344, 4746776415062458368)] |}.
Definition f32ty : fty := mk_fty 32 0 4 (str "f32").

Definition w_pack := t_pack wit.
Definition w_unpack := t_unpack wit.
Definition w_5e := zlookup_t (o_5e wit).
Definition w_9g := zlookup_t (o_9g wit).
Definition w_17g := zlookup_t (o_17g wit).
Definition w_repr := zlookup_t (o_repr wit).
Definition w_scan := t_scan wit.
Definition w_ofint := t_ofint wit.

Definition w_hyps (p : Z) : bool :=
  (w_pack f32ty (w_unpack f32ty p) =? p) &&
  float_hyps w_pack w_unpack w_5e w_9g w_17g w_repr w_scan f32ty (w_unpack f32ty p).

(* a float dense attribute whose elements individually satisfy every hypothesis of C06_float_rt
   (so each of them round-trips as a FloatAttr) does not round-trip: the NaN element is printed as
   0x7fc00000 and read back as float(2143289344) *)
Lemma dense_rt_refuted : exists pack unpack f5 f9 f17 fr scan ofint ty shape ps,
  prod shape = Z.of_nat (List.length ps) /\ Forall (fun d => 0 <= d) shape /\
  Forall (fun p => pack ty (unpack ty p) = p /\
                   float_hyps pack unpack f5 f9 f17 fr scan ty (unpack ty p) = true /\
                   float_attr_roundtrip pack unpack f5 f9 f17 fr scan ofint ty (unpack ty p) = Ok (unpack ty p)) ps /\
  dense_roundtrip pack unpack f5 f9 f17 fr scan ofint false false (EF ty) shape ps = Ok [1325367296; 1065353216] /\
  ps = [2143289344; 1065353216].
Proof.
  exists w_pack, w_unpack, w_5e, w_9g, w_17g, w_repr, w_scan, w_ofint, f32ty, [2], [2143289344; 1065353216].
  split; [reflexivity|]. split; [repeat constructor; lia|].
  split; [repeat constructor; vm_compute; reflexivity|].
  split; [vm_compute; reflexivity|reflexivity].
Qed.

(* +0.0 and -0.0 compare equal: the tensor is printed as a splat of the first element *)
Lemma dense_splat_refuted : exists pack unpack f5 f9 f17 fr scan ofint ty shape ps,
  prod shape = Z.of_nat (List.length ps) /\ Forall (fun d => 0 <= d) shape /\
  Forall (fun p => pack ty (unpack ty p) = p /\
                   float_hyps pack unpack f5 f9 f17 fr scan ty (unpack ty p) = true /\
                   float_attr_roundtrip pack unpack f5 f9 f17 fr scan ofint ty (unpack ty p) = Ok (unpack ty p)) ps /\
  print_dense pack unpack f5 f9 f17 fr scan false (EF ty) shape ps = Ok (DSplat (str "0.000000e+00")) /\
  dense_roundtrip pack unpack f5 f9 f17 fr scan ofint false false (EF ty) shape ps = Ok [0; 0] /\
  ps = [0; 2147483648].
Proof.
  exists w_pack, w_unpack, w_5e, w_9g, w_17g, w_repr, w_scan, w_ofint, f32ty, [2], [0; 2147483648].
  split; [reflexivity|]. split; [repeat constructor; lia|].
  split; [repeat constructor; vm_compute; reflexivity|].
  split; [vm_compute; reflexivity|]. split; [vm_compute; reflexivity|reflexivity].
Qed.

(* array<f32: 0x7fc00000, 1.000000e+00> is rejected by the dense-array parser *)
Lemma densearray_rt_refuted : exists pack unpack f5 f9 f17 fr scan ofint ty ps,
  Forall (fun p => pack ty (unpack ty p) = p /\
                   float_hyps pack unpack f5 f9 f17 fr scan ty (unpack ty p) = true /\
                   float_attr_roundtrip pack unpack f5 f9 f17 fr scan ofint ty (unpack ty p) = Ok (unpack ty p)) ps /\
  densearray_roundtrip pack unpack f5 f9 f17 fr scan false (EF ty) ps = Raise E_PARSE /\
  ps = [2143289344; 1065353216].
Proof.
  exists w_pack, w_unpack, w_5e, w_9g, w_17g, w_repr, w_scan, w_ofint, f32ty, [2143289344; 1065353216].
  split; [repeat constructor; vm_compute; reflexivity|].
  split; [vm_compute; reflexivity|reflexivity].
Qed.

(* the hypotheses of the partial dense theorem are satisfiable by a float tensor in list form *)
Lemma dense_float_nonvacuous :
  dense_roundtrip w_pack w_unpack w_5e w_9g w_17g w_repr w_scan w_ofint false false (EF f32ty) [2] [1065353216; 2147483648]
  = Ok [1065353216; 2147483648].
Proof. vm_compute. reflexivity. Qed.

(* with the proposed repairs the three witnesses round-trip *)
Lemma witnesses_fixed :
  dense_roundtrip w_pack w_unpack w_5e w_9g w_17g w_repr w_scan w_ofint true true (EF f32ty) [2] [2143289344; 1065353216]
    = Ok [2143289344; 1065353216] /\
  dense_roundtrip w_pack w_unpack w_5e w_9g w_17g w_repr w_scan w_ofint true true (EF f32ty) [2] [0; 2147483648]
    = Ok [0; 2147483648] /\
  dense_roundtrip w_pack w_unpack w_5e w_9g w_17g w_repr w_scan w_ofint true true (EF f32ty) [2] [2143289344; 2143289344]
    = Ok [2143289344; 2143289344] /\
  densearray_roundtrip w_pack w_unpack w_5e w_9g w_17g w_repr w_scan true (EF f32ty) [2143289344; 1065353216]
    = Ok [2143289344; 1065353216].
Proof. vm_compute. repeat split; reflexivity. Qed.
