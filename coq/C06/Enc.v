(* C06/Enc.v -- encoders of model results into Base/Show.v `sx` and table-backed oracles
   for the correspondence check of C06 (definitions only, evaluated by vm_compute). *)
From Coq Require Import ZArith List Bool String.
From XV Require Import Base.Show C06.Model.
Import ListNotations.
Local Open Scope Z_scope.

Definition sT (t : text) : sx := L (map I t).
Definition enc_res {A} (f : A -> sx) (r : res A) : sx :=
  match r with
  | Ok a => L [I 0; f a]
  | NoTok => L [I (-2)]
  | Raise e => L [I (-1); I (if e =? E_DECODE then E_VALUE else e)]
  end.

Definition enc_tok (t : tok) : sx :=
  match t with
  | TMinus => L [I 1] | TColon => L [I 2] | TEq => L [I 3] | TComma => L [I 4]
  | TInt x => L [I 5; sT x] | TFloat x => L [I 6; sT x] | TBare x => L [I 7; sT x]
  | TStr b => L [I 8; sT b] | TBytes b => L [I 9; sT b] | TAt x => L [I 10; sT x]
  | TOther c => L [I 11; I c]
  end.
Definition enc_strattr (a : strattr) : sx :=
  match a with AString s => L [I 0; sT s] | ABytes b => L [I 1; sT b] end.

Definition sgn_of (z : Z) : signedness := if z =? 1 then Signed else if z =? 2 then Unsigned else Signless.
Definition sgn_code (s : signedness) : Z := match s with Signless => 0 | Signed => 1 | Unsigned => 2 end.
Definition ity_of (w s : Z) : ity := if w <? 0 then TIndex else TInteger w (sgn_of s).
Definition enc_ity (t : ity) : sx :=
  match t with TIndex => L [I (-1); I 0] | TInteger w s => L [I w; I (sgn_code s)] end.

(* ---- integers: stored value, printed text, re-parsed (type, value) ---- *)
Definition int_case (w s v : Z) : sx :=
  let ty := ity_of w s in
  match integer_attr ty v with
  | Ok v' =>
      L [I 0; I v'; sT (print_integer_attr ty v');
         enc_res (fun p => L [enc_ity (fst p); I (snd p)]) (integer_attr_roundtrip ty v')]
  | NoTok => L [I (-2)]
  | Raise e => L [I (-1); I e]
  end.

(* ---- bytes / strings / arbitrary literals ---- *)
Definition bytes_case (fixed : bool) (bs : list Z) : sx :=
  L [sT (print_bytes_literal bs); enc_res enc_strattr (bytes_attr_roundtrip fixed bs);
     enc_res sT (match print_bytes_literal bs with _ :: t => unescape (removelast t) | [] => NoTok end)].
Definition string_case (fixed : bool) (s : text) : sx :=
  L [enc_res sT (print_string_literal s); enc_res enc_strattr (string_attr_roundtrip fixed s)].
(* any text: first token of the lexer, then its attribute value if it is a string-like token *)
Definition lit_case (fixed : bool) (s : text) : sx :=
  match lex1 fixed s with
  | Ok (tk, rest) =>
      L [I 0; enc_tok tk; I (Z.of_nat (List.length rest));
         match tk with
         | TStr _ | TBytes _ => enc_res enc_strattr (parse_strlit_attr tk)
         | _ => L []
         end]
  | NoTok => L [I (-2)]
  | Raise e => L [I (-1); I e]
  end.
(* whole token stream *)
Definition lex_case (fixed : bool) (s : text) : sx := enc_res (fun ts => L (map enc_tok ts)) (lex fixed s).

(* ---- symbol references and dictionary keys ---- *)
Definition symref_case (fixed : bool) (root : text) (ns : list text) : sx :=
  L [enc_res sT (print_symref root ns);
     enc_res (fun p => L (sT (fst p) :: map sT (snd p))) (symref_roundtrip fixed root ns)].
Definition dictkey_case (fixed : bool) (k rest : text) : sx :=
  L [enc_res sT (print_id_or_str k); enc_res sT (dict_key_roundtrip fixed k rest)].

(* ---- table-backed oracles ---- *)
Fixpoint zlookup (t : list (Z * Z)) (k d : Z) : Z :=
  match t with [] => d | (a, b) :: r => if a =? k then b else zlookup r k d end.
Fixpoint zlookup_t (t : list (Z * text)) (k : Z) : text :=
  match t with [] => [] | (a, b) :: r => if a =? k then b else zlookup_t r k end.
Fixpoint tlookup (t : list (text * Z)) (k : text) (d : Z) : Z :=
  match t with [] => d | (a, b) :: r => if text_eqb a k then b else tlookup r k d end.

Record otab := {
  o_pack : list (Z * Z); o_unpack : list (Z * Z);
  o_5e : list (Z * text); o_9g : list (Z * text); o_17g : list (Z * text); o_repr : list (Z * text);
  o_scan : list (text * Z); o_ofint : list (Z * Z) }.

Definition t_pack (o : otab) : fty -> Z -> Z := fun _ v => zlookup (o_pack o) v (-1).
Definition t_unpack (o : otab) : fty -> Z -> Z := fun _ v => zlookup (o_unpack o) v (-1).
Definition t_scan (o : otab) : text -> Z := fun s => tlookup (o_scan o) s (-1).
Definition t_ofint (o : otab) : Z -> res Z :=
  fun i => let r := zlookup (o_ofint o) i (-1) in if r <? 0 then Raise E_OTHER else Ok r.

Definition fkind_of (k : Z) : fkind := if k =? 32 then F32 else if k =? 64 then F64 else FRepr.
Definition mk_fty (k id size : Z) (name : text) : fty :=
  {| fk := fkind_of k; fid := id; fsize := size; fname := name |}.

Definition float_case (o : otab) (ty : fty) (x : Z) : sx :=
  let pk := t_pack o in let up := t_unpack o in
  let f5 := zlookup_t (o_5e o) in let f9 := zlookup_t (o_9g o) in
  let f17 := zlookup_t (o_17g o) in let fr := zlookup_t (o_repr o) in
  let sc := t_scan o in let oi := t_ofint o in
  L [sT (print_float pk up f5 f9 f17 fr sc ty x);
     I (print_float_branch pk up f5 f9 f17 sc ty x);
     enc_res I (float_attr_roundtrip pk up f5 f9 f17 fr sc oi ty x);
     sB (float_hyps pk up f5 f9 f17 fr sc ty x || negb (float_attr pk up ty x =? x))].

(* element type: k = 0 integer (w, s) / index (w < 0); k > 0 float kind *)
Definition mk_ety (k w s size : Z) (name : text) : ety :=
  if k =? 0 then EI (ity_of w s) else EF (mk_fty k 0 size name).

Definition enc_dense_text (d : dense_text) : sx :=
  match d with
  | DEmpty => L [I 0]
  | DSplat t => L [I 1; sT t]
  | DHex ds => L [I 2; sT ds]
  | DList sh es => L [I 3; sLZ sh; L (map sT es)]
  end.

Definition dense_case (hexfix splatfix : bool) (o : otab) (e : ety) (shape payloads : list Z) : sx :=
  let pk := t_pack o in let up := t_unpack o in
  let f5 := zlookup_t (o_5e o) in let f9 := zlookup_t (o_9g o) in
  let f17 := zlookup_t (o_17g o) in let fr := zlookup_t (o_repr o) in
  let sc := t_scan o in let oi := t_ofint o in
  L [enc_res enc_dense_text (print_dense pk up f5 f9 f17 fr sc splatfix e shape payloads);
     enc_res sLZ (dense_roundtrip pk up f5 f9 f17 fr sc oi hexfix splatfix e shape payloads)].

Definition densearray_case (hexfix : bool) (o : otab) (e : ety) (payloads : list Z) : sx :=
  let pk := t_pack o in let up := t_unpack o in
  let f5 := zlookup_t (o_5e o) in let f9 := zlookup_t (o_9g o) in
  let f17 := zlookup_t (o_17g o) in let fr := zlookup_t (o_repr o) in
  let sc := t_scan o in
  L [L (map sT (print_densearray pk up f5 f9 f17 fr sc e payloads));
     enc_res sLZ (densearray_roundtrip pk up f5 f9 f17 fr sc hexfix e payloads)].
