(* C05/ProofsTok.v -- token-list lemmas: parsing a printed comma-separated list gives the list back *)
From Coq Require Import ZArith String Bool Arith List Lia.
From XV Require Import C05.Model C05.Check C05.ProofsBase.
Import ListNotations.
Local Open Scope string_scope.
Local Open Scope list_scope.

Definition not_comma_hd (tail : list tok) : Prop :=
  forall t, hd_error tail = Some t -> is_lit "," t = false.

Lemma sep_cons : forall x l, sep (x :: l) = x :: flat_map (fun y => [comma; y]) l.
Proof.
  intros x l; revert x; induction l as [|y r IH]; intro x; simpl; [reflexivity|].
  f_equal. f_equal. specialize (IH y). simpl in IH. exact IH.
Qed.

Lemma sep_nil_iff : forall l, sep l = [] <-> l = [].
Proof. destruct l as [|x [|y r]]; simpl; split; intro H; try reflexivity; discriminate. Qed.

Lemma hd_sep_map : forall A (f : A -> tok) x xs tail, hd_error (sep (map f (x :: xs)) ++ tail) = Some (f x).
Proof. intros; simpl map; rewrite sep_cons; reflexivity. Qed.

Section ListParse.
  Context {A : Type}.
  Variable item : tok -> ires A.
  Variable f : A -> tok.

  Lemma parse_more_tail : forall tail, not_comma_hd tail -> parse_more item tail = Some ([], tail).
  Proof.
    intros [|t r] H; simpl; [reflexivity|].
    rewrite (H t eq_refl). reflexivity.
  Qed.

  Lemma parse_more_sep : forall xs tail,
    (forall x, In x xs -> item (f x) = Item x) ->
    not_comma_hd tail ->
    parse_more item (flat_map (fun y => [comma; y]) (map f xs) ++ tail) = Some (xs, tail).
  Proof.
    induction xs as [|x r IH]; intros tail Hit Hc.
    - simpl. apply parse_more_tail; exact Hc.
    - simpl map. simpl flat_map. simpl app.
      cbn [parse_more]. change (is_lit "," comma) with true. cbv iota.
      rewrite (Hit x (or_introl eq_refl)).
      rewrite (IH tail); [reflexivity| |exact Hc].
      intros y Hy; apply Hit; right; exact Hy.
  Qed.

  Lemma parse_opt_list_sep : forall xs tail,
    (forall x, In x xs -> item (f x) = Item x) ->
    not_comma_hd tail ->
    (xs = [] -> forall t, hd_error tail = Some t -> item t = NoItem) ->
    parse_opt_list item (sep (map f xs) ++ tail) = Some (xs, tail).
  Proof.
    intros [|x r] tail Hit Hc Hn.
    - simpl. destruct tail as [|t tr]; [reflexivity|].
      simpl. rewrite (Hn eq_refl t eq_refl). reflexivity.
    - simpl map. rewrite sep_cons. simpl app. cbn [parse_opt_list].
      rewrite (Hit x (or_introl eq_refl)).
      rewrite parse_more_sep; [reflexivity| |exact Hc].
      intros y Hy; apply Hit; right; exact Hy.
  Qed.

  Definition kind_len_ok (k : kind) (n : nat) : Prop :=
    match k with KSingle => n = 1 | KOpt => n <= 1 | KVar => True end.

  Lemma parse_kind_sep : forall k xs tail,
    (forall x, In x xs -> item (f x) = Item x) ->
    kind_len_ok k (length xs) ->
    (k = KVar -> not_comma_hd tail) ->
    (xs = [] -> forall t, hd_error tail = Some t -> item t = NoItem) ->
    parse_kind k item (sep (map f xs) ++ tail) = Some (xs, tail).
  Proof.
    intros k xs tail Hit Hlen Hc Hn. destruct k; simpl in Hlen.
    - destruct xs as [|x [|y r]]; simpl in Hlen; try lia.
      simpl. rewrite (Hit x (or_introl eq_refl)). reflexivity.
    - destruct xs as [|x [|y r]]; simpl in Hlen; try lia.
      + simpl. destruct tail as [|t tr]; [reflexivity|].
        simpl. rewrite (Hn eq_refl t eq_refl). reflexivity.
      + simpl. rewrite (Hit x (or_introl eq_refl)). reflexivity.
    - simpl. apply parse_opt_list_sep; auto.
  Qed.
End ListParse.

(* the items of the three token classes *)
Lemma val_item_TVal : forall v, val_item (TVal v) = Item v.
Proof. reflexivity. Qed.
Lemma type_item_TAttr : forall a, starts_type (av_full a) = true -> type_item (TAttr a) = Item a.
Proof. intros a H; simpl; rewrite H; reflexivity. Qed.
Lemma attr_item_TAttr : forall a, starts_attr (av_full a) = true -> attr_item (TAttr a) = Item a.
Proof. intros a H; simpl; rewrite H; reflexivity. Qed.

Lemma val_item_NoItem : forall t, tok_matches GVal t = false -> val_item t = NoItem.
Proof. intros [ | | | | ]; simpl; intros; try reflexivity; discriminate. Qed.
Lemma type_item_NoItem : forall t, tok_matches GType t = false -> type_item t = NoItem.
Proof.
  intros t H; unfold tok_matches in H; unfold type_item.
  destruct t as [s l|v|a|a|[|] dct]; cbn in *; try rewrite H; try reflexivity; try discriminate.
Qed.
Lemma attr_item_NoItem : forall t, tok_matches GAttr t = false -> attr_item t = NoItem.
Proof.
  intros t H; unfold tok_matches in H; unfold attr_item.
  destruct t as [s l|v|a|a|[|] dct]; cbn in *; try rewrite H; try reflexivity; try discriminate.
Qed.
