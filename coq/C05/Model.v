(* C05/Model.v -- executable model of xDSL's declarative assembly format
   (xdsl/irdl/declarative_assembly_format.py: FormatProgram.print / FormatProgram.parse and the
   print/parse/set_empty/is_present methods of the directive classes), at TOKEN level.
   Definitions only; proofs are in C05/Proofs*.v.

   Abstraction
   -----------
   * SSA value uses are opaque tokens  [TVal v].
   * Every attribute or type is an opaque value  [av]  with decidable equality.  What the directive
     logic can observe of such a value is only HOW ITS TEXT STARTS, because every
     parse_optional_* decision of the real parser is taken on the first token:  [av_full]  is the
     class of the first token of the full syntax (print_attribute), [av_short] of the short syntax
     used by UniqueBase/Typed/DenseArray/SymbolName attribute variables.
   * A literal of the format (punctuation or keyword) is  [TLit s l]  where l is the class the real
     parser assigns to that token (can it start a type / an attribute ...).  The classes are
     measured on the real parser by the translator (harness/props/c05.py), not guessed.
   * Whitespace directives print no token and parse nothing: the translator drops them.
   * An attribute dictionary  {a = 1, ...}  (with or without the `attributes` keyword) is one
     token [TDict].
   Every function that can raise in Python returns [None] here (an explicit error result). *)
From Coq Require Import ZArith String Bool Arith List.
Import ListNotations.
Local Open Scope string_scope.
Local Open Scope list_scope.

(* ------------------------------------------------------------------ first-token classes *)
Inductive lead :=
| LNone     (* starts neither a type nor an attribute *)
| LAttr     (* starts an attribute but no type: number, string, #ident, unit, dense, ... *)
| LType     (* starts a type (hence an attribute) *)
| LParen    (* the token `(`: starts a function type *)
| LBrace    (* the token `{`: starts a dictionary attribute / attr-dict / region *)
| LSquare   (* the token `[`: starts an array attribute *)
| LAt.      (* an @symbol token: starts a symbol reference attribute *)

Definition lead_eqb (a b : lead) : bool :=
  match a, b with
  | LNone, LNone | LAttr, LAttr | LType, LType | LParen, LParen
  | LBrace, LBrace | LSquare, LSquare | LAt, LAt => true
  | _, _ => false
  end.
Definition starts_type (l : lead) : bool := match l with LType | LParen => true | _ => false end.
Definition starts_attr (l : lead) : bool := match l with LNone => false | _ => true end.

(* opaque attribute / type value *)
Record av := mkAv { av_id : Z; av_full : lead; av_short : lead }.
Definition av_eqb (a b : av) : bool :=
  Z.eqb (av_id a) (av_id b) && lead_eqb (av_full a) (av_full b) && lead_eqb (av_short a) (av_short b).

Inductive tok :=
| TLit (s : string) (l : lead)            (* punctuation / keyword literal *)
| TVal (v : Z)                            (* %value *)
| TAttr (a : av)                          (* an attribute or type in full syntax *)
| TShort (a : av)                         (* an attribute in the short syntax of its directive *)
| TDict (kw : bool) (d : list (string * av)).   (* [attributes] { ... } *)

Definition tok_lead (t : tok) : lead :=
  match t with
  | TLit _ l => l
  | TVal _ => LNone
  | TAttr a => av_full a
  | TShort a => av_short a
  | TDict kw _ => if kw then LNone else LBrace
  end.

(* ------------------------------------------------------------------ operation definitions *)
Inductive kind := KSingle | KOpt | KVar.
(* what the model keeps of an operand/result type constraint *)
Inductive tyc :=
| TCAny                 (* no constraint variable, cannot be inferred *)
| TCConst (t : av)      (* admits exactly one type, which is inferred when not printed *)
| TCVar (v : Z)         (* VarConstraint v at top level (of SingleOf / RangeOf) *)
| TCOther.              (* anything else: never inferred by the model *)
Record vdef := mkVdef { vd_kind : kind; vd_tyc : tyc }.
Record adef := mkAdef { ad_name : string; ad_optional : bool; ad_default : option av;
                        ad_unit : option av (* Some u: the definition only admits the value u *) }.
Record opdef := mkOpdef {
  od_operands : list vdef;
  od_results : list vdef;
  od_props : list adef;
  od_attrs : list adef;
  od_hidden : list string;  (* segment-size names: recomputed by build, not part of an instance *)
  od_terminator : bool      (* IsTerminator: the operation is the last one of its block *)
}.

(* ------------------------------------------------------------------ formats *)
Inductive src := SOperand (i : nat) | SResult (i : nat) | SOperands | SResults.
Inductive akind :=
| AKGeneric                       (* AttributeVariable: full syntax *)
| AKShort (trig : option lead)    (* short syntax; Some l: an optional variable is parsed with a
                                     parse_optional_* that triggers on a token of class l
                                     (DenseArray `[`, SymbolName @); None: always mandatory
                                     (UniqueBase / Typed: parse_attr ignores is_optional) *)
| AKUnit (u : av).                (* OptionalUnitAttrVariable: prints nothing, parse sets u *)
Inductive elem :=
| ELit (s : string) (l : lead)
| EAttrDict (kw : bool) (reserved expected : list string)
| EVals (s : src)                 (* $operand / `operands` *)
| ETypes (s : src)                (* type(...) *)
| EFunTy (a b : src)              (* functional-type(a, b) *)
| EAttr (name : string) (isprop : bool) (k : akind) (optional : bool) (default : option av).
Inductive anchor :=
| AnVals (s : src) | AnTypes (s : src)
| AnAttr (name : string) (isprop : bool) (default : option av).
Inductive dir :=
| DE (e : elem)
| DGroup (a : anchor) (first : elem) (thens : list elem).   (* ( first thens... )? anchored at a; no else-branch *)
Definition format := list dir.

(* ------------------------------------------------------------------ instances *)
Record inst := mkInst {
  i_operands : list (list (Z * av));     (* per operand definition: (value, type) *)
  i_results : list (list av);            (* per result definition: types *)
  i_props : list (string * av);
  i_attrs : list (string * av)
}.

Fixpoint lookup (n : string) (d : list (string * av)) : option av :=
  match d with
  | [] => None
  | (k, a) :: r => if String.eqb k n then Some a else lookup n r
  end.
Definition mem (n : string) (l : list string) : bool := existsb (String.eqb n) l.

Definition src_vals (i : inst) (s : src) : option (list Z) :=
  match s with
  | SOperand k => Some (map fst (nth k (i_operands i) []))
  | SOperands => Some (concat (map (map fst) (i_operands i)))
  | _ => None
  end.
Definition src_types (i : inst) (s : src) : list av :=
  match s with
  | SOperand k => map snd (nth k (i_operands i) [])
  | SResult k => nth k (i_results i) []
  | SOperands => concat (map (map snd) (i_operands i))
  | SResults => concat (i_results i)
  end.
Definition attr_of (i : inst) (name : string) (isprop : bool) : option av :=
  lookup name (if isprop then i_props i else i_attrs i).
Definition is_default (a : av) (dflt : option av) : bool :=
  match dflt with Some x => av_eqb a x | None => false end.

(* ------------------------------------------------------------------ printing *)
Definition comma : tok := TLit "," LNone.
Definition lparen : tok := TLit "(" LParen.
Definition rparen : tok := TLit ")" LNone.
Definition arrow : tok := TLit "->" LNone.
Fixpoint sep (l : list tok) : list tok :=
  match l with
  | [] => []
  | x :: r => match r with [] => [x] | _ => x :: comma :: sep r end
  end.

Definition find_adef (n : string) (l : list adef) : option adef :=
  find (fun a => String.eqb (ad_name a) n) l.
(* AttrDictDirective.print: defs = {x: properties[x] for x in expected} | attributes *)
Definition dict_def (d : opdef) (expected : list string) (n : string) : option adef :=
  match find_adef n (od_attrs d) with
  | Some a => Some a
  | None => if mem n expected then find_adef n (od_props d) else None
  end.
Definition dict_default_eq (d : opdef) (expected : list string) (n : string) (a : av) : bool :=
  match dict_def d expected n with
  | Some df => is_default a (ad_default df)
  | None => false
  end.
Definition dict_shown (d : opdef) (i : inst) (reserved expected : list string) : list (string * av) :=
  filter (fun na => negb (mem (fst na) reserved) && negb (dict_default_eq d expected (fst na) (snd na)))
         (i_attrs i ++ filter (fun na => mem (fst na) expected) (i_props i)).

(* fx: the tree has the repair of FunctionalTypeDirective.print (a lone result that is a function
   type is printed inside parentheses); the harness detects it on the real printer *)
Definition print_elem (fx : bool) (d : opdef) (i : inst) (e : elem) : option (list tok) :=
  match e with
  | ELit s l => Some [TLit s l]
  | EVals s => option_map (fun vs => sep (map TVal vs)) (src_vals i s)
  | ETypes s => Some (sep (map TAttr (src_types i s)))
  | EFunTy a b =>
      Some (lparen :: sep (map TAttr (src_types i a)) ++ [rparen; arrow] ++
            match src_types i b with
            | [t] => if fx && lead_eqb (av_full t) LParen then [lparen; TAttr t; rparen] else [TAttr t]
            | ts => lparen :: sep (map TAttr ts) ++ [rparen]
            end)
  | EAttr name isprop k _ dflt =>
      match attr_of i name isprop with
      | None => Some []
      | Some a =>
          if is_default a dflt then Some [] else
          match k with
          | AKUnit _ => Some []
          | AKGeneric => Some [TAttr a]
          | AKShort _ => Some [TShort a]
          end
      end
  | EAttrDict kw reserved expected =>
      if existsb (fun na => mem (fst na) expected) (i_attrs i) then None   (* ValueError *)
      else match dict_shown d i reserved expected with
           | [] => Some []
           | sh => Some [TDict kw sh]
           end
  end.

Fixpoint print_elems (fx : bool) (d : opdef) (i : inst) (es : list elem) : option (list tok) :=
  match es with
  | [] => Some []
  | e :: r => match print_elem fx d i e, print_elems fx d i r with
              | Some a, Some b => Some (a ++ b)
              | _, _ => None
              end
  end.

Definition nonempty {A} (l : list A) : bool := match l with [] => false | _ => true end.
Definition anchor_present (i : inst) (a : anchor) : bool :=
  match a with
  | AnVals s => match src_vals i s with Some vs => nonempty vs | None => false end
  | AnTypes s => nonempty (src_types i s)
  | AnAttr n p dflt => match attr_of i n p with Some a => negb (is_default a dflt) | None => false end
  end.

Definition print_dir (fx : bool) (d : opdef) (i : inst) (x : dir) : option (list tok) :=
  match x with
  | DE e => print_elem fx d i e
  | DGroup a f ts => if anchor_present i a then print_elems fx d i (f :: ts) else Some []
  end.
Fixpoint print_fmt (fx : bool) (d : opdef) (i : inst) (f : format) : option (list tok) :=
  match f with
  | [] => Some []
  | x :: r => match print_dir fx d i x, print_fmt fx d i r with
              | Some a, Some b => Some (a ++ b)
              | _, _ => None
              end
  end.

(* ------------------------------------------------------------------ parsing *)
Record pst := mkPst {
  p_vals : list (option (list Z));
  p_otys : list (option (list av));
  p_rtys : list (option (list av));
  p_props : list (string * av);
  p_attrs : list (string * av)
}.
Definition init_pst (d : opdef) : pst :=
  mkPst (map (fun _ => None) (od_operands d)) (map (fun _ => None) (od_operands d))
        (map (fun _ => None) (od_results d)) [] [].

Fixpoint set_nth {A} (n : nat) (x : A) (l : list A) : list A :=
  match l, n with
  | [], _ => []
  | _ :: r, O => x :: r
  | y :: r, S m => y :: set_nth m x r
  end.
Definition set_vals (k : nat) (v : list Z) (st : pst) : pst :=
  mkPst (set_nth k (Some v) (p_vals st)) (p_otys st) (p_rtys st) (p_props st) (p_attrs st).
Definition set_otys (k : nat) (v : list av) (st : pst) : pst :=
  mkPst (p_vals st) (set_nth k (Some v) (p_otys st)) (p_rtys st) (p_props st) (p_attrs st).
Definition set_rtys (k : nat) (v : list av) (st : pst) : pst :=
  mkPst (p_vals st) (p_otys st) (set_nth k (Some v) (p_rtys st)) (p_props st) (p_attrs st).
Definition set_attr (isprop : bool) (n : string) (a : av) (st : pst) : pst :=
  if isprop then mkPst (p_vals st) (p_otys st) (p_rtys st) ((n, a) :: p_props st) (p_attrs st)
  else mkPst (p_vals st) (p_otys st) (p_rtys st) (p_props st) ((n, a) :: p_attrs st).

(* one list item: present / absent / the token starts such an item but is not one (the real parser
   then raises, or consumes tokens that belong to something else) *)
Inductive ires (A : Type) := Item (x : A) | NoItem | Bad.
Arguments Item {A} x. Arguments NoItem {A}. Arguments Bad {A}.

Definition val_item (t : tok) : ires Z := match t with TVal v => Item v | _ => NoItem end.
Definition type_item (t : tok) : ires av :=
  match t with
  | TAttr a => if starts_type (av_full a) then Item a else NoItem
  | _ => if starts_type (tok_lead t) then Bad else NoItem
  end.
Definition attr_item (t : tok) : ires av :=
  match t with
  | TAttr a => if starts_attr (av_full a) then Item a else NoItem
  | _ => if starts_attr (tok_lead t) then Bad else NoItem
  end.
Definition short_item (trig : option lead) (t : tok) : ires av :=
  match trig with
  | None => match t with TShort a => Item a | _ => Bad end
  | Some l =>            (* parse_optional_*: decided on the class of the first token *)
      if lead_eqb (tok_lead t) l then match t with TShort a => Item a | _ => Bad end else NoItem
  end.

Definition is_lit (s : string) (t : tok) : bool :=
  match t with TLit s' _ => String.eqb s' s | _ => false end.

(* parse_list(Delimiter.NONE, parse) after a consumed comma, iterated *)
Fixpoint parse_more {A} (item : tok -> ires A) (toks : list tok) : option (list A * list tok) :=
  match toks with
  | t :: r =>
      if is_lit "," t then
        match r with
        | t' :: r' =>
            match item t' with
            | Item x => match parse_more item r' with
                        | Some (xs, r'') => Some (x :: xs, r'')
                        | None => None
                        end
            | _ => None
            end
        | [] => None
        end
      else Some ([], toks)
  | [] => Some ([], [])
  end.
(* parse_optional_undelimited_comma_separated_list *)
Definition parse_opt_list {A} (item : tok -> ires A) (toks : list tok) : option (list A * list tok) :=
  match toks with
  | t :: r =>
      match item t with
      | Item x => match parse_more item r with
                  | Some (xs, r') => Some (x :: xs, r')
                  | None => None
                  end
      | NoItem => Some ([], toks)
      | Bad => None
      end
  | [] => Some ([], [])
  end.
Definition parse_one {A} (item : tok -> ires A) (toks : list tok) : option (A * list tok) :=
  match toks with
  | t :: r => match item t with Item x => Some (x, r) | _ => None end
  | [] => None
  end.
Definition parse_opt_one {A} (item : tok -> ires A) (toks : list tok) : option (list A * list tok) :=
  match toks with
  | t :: r => match item t with Item x => Some ([x], r) | NoItem => Some ([], toks) | Bad => None end
  | [] => Some ([], [])
  end.
(* by definition kind *)
Definition parse_kind {A} (k : kind) (item : tok -> ires A) (toks : list tok) : option (list A * list tok) :=
  match k with
  | KSingle => match parse_one item toks with Some (x, r) => Some ([x], r) | None => None end
  | KOpt => parse_opt_one item toks
  | KVar => parse_opt_list item toks
  end.

(* `operands` / `results`: distribute a flat list over the definitions
   (OperandsOrResultDirective._set_using_variadic_index with the default accessors; modelled for at
   most one variadic-or-optional definition -- the translator excludes other uses) *)
Definition is_varlike (k : kind) : bool := match k with KSingle => false | _ => true end.
Fixpoint split_fixed {A} (n : nat) (l : list A) : option (list (list A) * list A) :=
  match n with
  | O => Some ([], l)
  | S m => match l with
           | x :: r => match split_fixed m r with
                       | Some (segs, rest) => Some ([x] :: segs, rest)
                       | None => None
                       end
           | [] => None
           end
  end.
Fixpoint count_before (ks : list kind) : nat :=
  match ks with
  | k :: r => if is_varlike k then O else S (count_before r)
  | [] => O
  end.
Definition split_segs {A} (ks : list kind) (l : list A) : option (list (list A)) :=
  let nvar := length (filter is_varlike ks) in
  match nvar with
  | O => match split_fixed (length ks) l with Some (segs, []) => Some segs | _ => None end
  | S O =>
      let nb := count_before ks in
      let na := (length ks - nb - 1)%nat in
      if Nat.ltb (length l) (nb + na) then None else
      let nv := (length l - nb - na)%nat in
      match nth nb ks KSingle with
      | KOpt => if Nat.ltb 1 nv then None else
                match split_fixed nb l with
                | Some (a, r) => match split_fixed na (skipn nv r) with
                                 | Some (b, []) => Some (a ++ [firstn nv r] ++ b)
                                 | _ => None
                                 end
                | None => None
                end
      | _ => match split_fixed nb l with
             | Some (a, r) => match split_fixed na (skipn nv r) with
                              | Some (b, []) => Some (a ++ [firstn nv r] ++ b)
                              | _ => None
                              end
             | None => None
             end
      end
  | _ => None
  end.

Definition kinds (l : list vdef) : list kind := map vd_kind l.
Definition src_kind (d : opdef) (s : src) : option kind :=
  match s with
  | SOperand k => option_map vd_kind (nth_error (od_operands d) k)
  | SResult k => option_map vd_kind (nth_error (od_results d) k)
  | SOperands | SResults => Some KVar
  end.

Definition set_all_vals (segs : list (list Z)) (st : pst) : pst :=
  mkPst (map Some segs) (p_otys st) (p_rtys st) (p_props st) (p_attrs st).
Definition set_all_otys (segs : list (list av)) (st : pst) : pst :=
  mkPst (p_vals st) (map Some segs) (p_rtys st) (p_props st) (p_attrs st).
Definition set_all_rtys (segs : list (list av)) (st : pst) : pst :=
  mkPst (p_vals st) (p_otys st) (map Some segs) (p_props st) (p_attrs st).

(* TypeableDirective.set_types *)
Definition set_types (d : opdef) (s : src) (ts : list av) (st : pst) : option pst :=
  match s with
  | SOperand k => Some (set_otys k ts st)
  | SResult k => Some (set_rtys k ts st)
  | SOperands => option_map (fun segs => set_all_otys segs st) (split_segs (kinds (od_operands d)) ts)
  | SResults => option_map (fun segs => set_all_rtys segs st) (split_segs (kinds (od_results d)) ts)
  end.
(* the boolean returned by <inner>.parse_types, exactly as written in the Python (three of the
   methods return `types is None`, i.e. True when NOTHING was parsed) *)
Definition types_flag (s : src) (k : kind) (ts : list av) : bool :=
  match s, k with
  | _, KSingle => true
  | SOperand _, _ => negb (nonempty ts)
  | SResult _, KVar => negb (nonempty ts)
  | SResult _, KOpt => nonempty ts
  | _, _ => nonempty ts
  end.
Definition parse_types (d : opdef) (s : src) (st : pst) (toks : list tok) : option (bool * pst * list tok) :=
  match src_kind d s with
  | None => None
  | Some k =>
      match parse_kind k type_item toks with
      | None => None
      | Some (ts, r) =>
          match set_types d s ts st with
          | Some st' => Some (types_flag s k ts, st', r)
          | None => None
          end
      end
  end.
Definition parse_single_type (d : opdef) (s : src) (st : pst) (toks : list tok) : option (pst * list tok) :=
  match parse_one type_item toks with
  | None => None
  | Some (t, r) => match set_types d s [t] st with Some st' => Some (st', r) | None => None end
  end.

Definition split_dict (expected : list string) (dct : list (string * av)) (st : pst) : pst :=
  fold_left (fun s na => set_attr (mem (fst na) expected) (fst na) (snd na) s) dct st.

Definition parse_elem (d : opdef) (e : elem) (st : pst) (toks : list tok) : option (bool * pst * list tok) :=
  match e with
  | ELit s _ =>
      match toks with
      | t :: r => if is_lit s t then Some (true, st, r) else Some (false, st, toks)
      | [] => Some (false, st, toks)
      end
  | EVals (SOperand k) =>
      match nth_error (od_operands d) k with
      | None => None
      | Some vd =>
          match parse_kind (vd_kind vd) val_item toks with
          | None => None
          | Some (vs, r) => Some (match vd_kind vd with KSingle => true | _ => nonempty vs end,
                                  set_vals k vs st, r)
          end
      end
  | EVals SOperands =>
      match parse_opt_list val_item toks with
      | None => None
      | Some (vs, r) =>
          match split_segs (kinds (od_operands d)) vs with
          | Some segs => Some (nonempty vs, set_all_vals segs st, r)
          | None => None
          end
      end
  | EVals _ => None
  | ETypes s => parse_types d s st toks
  | EFunTy a b =>
      match toks with
      | t :: r =>
          if is_lit "(" t then
            match parse_types d a st r with
            | None => None
            | Some (_, st1, r1) =>
                match r1 with
                | t1 :: t2 :: r2 =>
                    if is_lit ")" t1 && is_lit "->" t2 then
                      match r2 with
                      | t3 :: r3 =>
                          if is_lit "(" t3 then
                            match parse_types d b st1 r3 with
                            | None => None
                            | Some (_, st2, r4) =>
                                match r4 with
                                | t4 :: r5 => if is_lit ")" t4 then Some (true, st2, r5) else None
                                | [] => None
                                end
                            end
                          else if lead_eqb (tok_lead t3) LParen then None   (* `(` of a function type is taken as the list delimiter *)
                          else match parse_single_type d b st1 r2 with
                               | Some (st2, r4) => Some (true, st2, r4)
                               | None => None
                               end
                      | [] => None
                      end
                    else None
                | _ => None
                end
            end
          else if lead_eqb (tok_lead t) LParen then None
          else Some (false, st, toks)
      | [] => Some (false, st, toks)
      end
  | EAttr name isprop k optional _ =>
      match k with
      | AKUnit u => Some (true, set_attr isprop name u st, toks)
      | AKGeneric =>
          if optional then
            match parse_opt_one attr_item toks with
            | None => None
            | Some ([a], r) => Some (true, set_attr isprop name a st, r)
            | Some (_, r) => Some (false, st, r)
            end
          else
            match parse_one attr_item toks with
            | None => None
            | Some (a, r) => Some (true, set_attr isprop name a st, r)
            end
      | AKShort trig =>
          match (if optional then trig else None) with
          | Some l =>
              match parse_opt_one (short_item (Some l)) toks with
              | None => None
              | Some ([a], r) => Some (true, set_attr isprop name a st, r)
              | Some (_, r) => Some (false, st, r)
              end
          | None =>
              match parse_one (short_item None) toks with
              | None => None
              | Some (a, r) => Some (true, set_attr isprop name a st, r)
              end
          end
      end
  | EAttrDict kw reserved expected =>
      match toks with
      | TDict kw' dct :: r =>
          if Bool.eqb kw kw' then
            if existsb (fun na => mem (fst na) reserved) dct then None
            else Some (nonempty dct, split_dict expected dct st, r)
          else Some (false, st, toks)
      | t :: r =>
          if kw then (if is_lit "attributes" t then None else Some (false, st, toks))
          else (if lead_eqb (tok_lead t) LBrace then None else Some (false, st, toks))
      | [] => Some (false, st, toks)
      end
  end.

(* FormatDirective.set_empty *)
Definition set_empty (d : opdef) (e : elem) (st : pst) : option pst :=
  match e with
  | EVals (SOperand k) =>
      match option_map vd_kind (nth_error (od_operands d) k) with
      | Some KSingle => Some st
      | Some _ => Some (set_vals k [] st)
      | None => None
      end
  | EVals SOperands => Some (mkPst (map (fun _ => Some []) (p_vals st)) (p_otys st) (p_rtys st) (p_props st) (p_attrs st))
  | EVals _ => None
  | ETypes s => set_types d s [] st
  | _ => Some st
  end.

Fixpoint parse_elems (d : opdef) (es : list elem) (st : pst) (toks : list tok) : option (pst * list tok) :=
  match es with
  | [] => Some (st, toks)
  | e :: r => match parse_elem d e st toks with
              | Some (_, st', toks') => parse_elems d r st' toks'
              | None => None
              end
  end.
Fixpoint set_empty_all (d : opdef) (es : list elem) (st : pst) : option pst :=
  match es with
  | [] => Some st
  | e :: r => match set_empty d e st with Some st' => set_empty_all d r st' | None => None end
  end.

Definition parse_dir (d : opdef) (x : dir) (st : pst) (toks : list tok) : option (pst * list tok) :=
  match x with
  | DE e => match parse_elem d e st toks with Some (_, st', r) => Some (st', r) | None => None end
  | DGroup _ f ts =>
      match parse_elem d f st toks with
      | None => None
      | Some (true, st', r) => parse_elems d ts st' r
      | Some (false, st', r) => match set_empty_all d ts st' with Some st'' => Some (st'', r) | None => None end
      end
  end.
Fixpoint parse_dirs (d : opdef) (f : format) (st : pst) (toks : list tok) : option (pst * list tok) :=
  match f with
  | [] => Some (st, toks)
  | x :: r => match parse_dir d x st toks with
              | Some (st', toks') => parse_dirs d r st' toks'
              | None => None
              end
  end.

(* ------------------------------------------------------------------ after the directives:
   resolve_constraint_variables, resolve_operand_types, resolve_result_types, resolve_operands, build *)
Definition ctxt := list (Z * av).
Fixpoint ctx_get (v : Z) (c : ctxt) : option av :=
  match c with [] => None | (k, a) :: r => if Z.eqb k v then Some a else ctx_get v r end.

Fixpoint verify_tys (c : tyc) (ts : list av) (ctx : ctxt) : option ctxt :=
  match ts with
  | [] => Some ctx
  | t :: r =>
      match c with
      | TCConst t0 => if av_eqb t t0 then verify_tys c r ctx else None
      | TCVar v => match ctx_get v ctx with
                   | Some t0 => if av_eqb t t0 then verify_tys c r ctx else None
                   | None => verify_tys c r ((v, t) :: ctx)
                   end
      | _ => verify_tys c r ctx
      end
  end.
(* one operand / result definition with its parsed types (None: not in the format) *)
Definition verify_def (vd : vdef) (tys : option (list av)) (ctx : ctxt) : option ctxt :=
  match tys with
  | None => Some ctx
  | Some ts =>
      match vd_kind vd with
      | KSingle => match ts with [_] => verify_tys (vd_tyc vd) ts ctx | _ => None end
      | _ => verify_tys (vd_tyc vd) ts ctx
      end
  end.
Fixpoint verify_defs (vds : list vdef) (tys : list (option (list av))) (ctx : ctxt) : option ctxt :=
  match vds, tys with
  | vd :: r, t :: rt => match verify_def vd t ctx with Some ctx' => verify_defs r rt ctx' | None => None end
  | [], [] => Some ctx
  | _, _ => None
  end.
(* SingleOf.verify_length on the operands *)
Fixpoint verify_lengths (vds : list vdef) (vals : list (list Z)) : bool :=
  match vds, vals with
  | vd :: r, v :: rv => (match vd_kind vd with KSingle => Nat.eqb (length v) 1 | _ => true end) && verify_lengths r rv
  | [], [] => true
  | _, _ => false
  end.

Definition infer_one (c : tyc) (ctx : ctxt) : option av :=
  match c with
  | TCConst t => Some t
  | TCVar v => ctx_get v ctx
  | _ => None
  end.
(* constr.infer(context, length=n) *)
Definition infer_tys (vd : vdef) (n : option nat) (ctx : ctxt) : option (list av) :=
  match vd_kind vd, n with
  | KSingle, _ => option_map (fun t => [t]) (infer_one (vd_tyc vd) ctx)
  | _, Some len => option_map (fun t => repeat t len) (infer_one (vd_tyc vd) ctx)
  | _, None => None   (* RangeOf.infer asserts that the length is known *)
  end.

Fixpoint all_some {A} (l : list (option A)) : option (list A) :=
  match l with
  | [] => Some []
  | Some x :: r => option_map (cons x) (all_some r)
  | None :: _ => None
  end.

Fixpoint resolve_otys (vds : list vdef) (vals : list (list Z)) (tys : list (option (list av))) (ctx : ctxt)
  : option (list (list av)) :=
  match vds, vals, tys with
  | vd :: r, v :: rv, t :: rt =>
      match (match t with Some ts => Some ts | None => infer_tys vd (Some (length v)) ctx end),
            resolve_otys r rv rt ctx with
      | Some ts, Some rest => Some (ts :: rest)
      | _, _ => None
      end
  | [], [], [] => Some []
  | _, _, _ => None
  end.
Fixpoint resolve_rtys (vds : list vdef) (tys : list (option (list av))) (ctx : ctxt) : option (list (list av)) :=
  match vds, tys with
  | vd :: r, t :: rt =>
      match (match t with Some ts => Some ts | None => infer_tys vd None ctx end), resolve_rtys r rt ctx with
      | Some ts, Some rest => Some (ts :: rest)
      | _, _ => None
      end
  | [], [] => Some []
  | _, _ => None
  end.
(* parser.resolve_operands: as many types as operands *)
Fixpoint zip_operands (vals : list (list Z)) (tys : list (list av)) : option (list (list (Z * av))) :=
  match vals, tys with
  | v :: rv, t :: rt =>
      if Nat.eqb (length v) (length t) then option_map (cons (combine v t)) (zip_operands rv rt) else None
  | [], [] => Some []
  | _, _ => None
  end.
(* irdl_build_arg_list: a Single definition gets exactly one element, an Optional at most one *)
Fixpoint build_sizes_ok {A} (vds : list vdef) (segs : list (list A)) : bool :=
  match vds, segs with
  | vd :: r, s :: rs =>
      (match vd_kind vd with KSingle => Nat.eqb (length s) 1 | KOpt => Nat.leb (length s) 1 | KVar => true end)
      && build_sizes_ok r rs
  | [], [] => true
  | _, _ => false
  end.
(* IRDLOperation.__post_init__: non-optional definitions with a default value are filled in *)
Fixpoint fill_defaults (defs : list adef) (dct : list (string * av)) : list (string * av) :=
  match defs with
  | [] => dct
  | a :: r =>
      let dct' := fill_defaults r dct in
      match lookup (ad_name a) dct', ad_optional a, ad_default a with
      | None, false, Some v => (ad_name a, v) :: dct'
      | _, _, _ => dct'
      end
  end.

Definition finish (d : opdef) (st : pst) : option inst :=
  match all_some (p_vals st) with
  | None => None                               (* assert None not in state.operands *)
  | Some vals =>
      if negb (verify_lengths (od_operands d) vals) then None else
      match verify_defs (od_operands d) (p_otys st) [] with
      | None => None
      | Some ctx1 =>
          match verify_defs (od_results d) (p_rtys st) ctx1 with
          | None => None
          | Some ctx =>
              match resolve_otys (od_operands d) vals (p_otys st) ctx, resolve_rtys (od_results d) (p_rtys st) ctx with
              | Some otys, Some rtys =>
                  match zip_operands vals otys with
                  | Some ops =>
                      if build_sizes_ok (od_operands d) ops && build_sizes_ok (od_results d) rtys then
                        Some (mkInst ops rtys (fill_defaults (od_props d) (p_props st))
                                     (fill_defaults (od_attrs d) (p_attrs st)))
                      else None
                  | None => None
                  end
              | _, _ => None
              end
          end
      end
  end.

Definition parse_fmt (d : opdef) (f : format) (toks : list tok) : option (inst * list tok) :=
  match parse_dirs d f (init_pst d) toks with
  | Some (st, r) => match finish d st with Some i => Some (i, r) | None => None end
  | None => None
  end.

(* round trip of one instance followed by the tokens `rest` of whatever comes next in the block *)
Definition roundtrip (fx : bool) (d : opdef) (f : format) (i : inst) (rest : list tok) : option (inst * list tok) :=
  match print_fmt fx d i f with
  | Some ts => parse_fmt d f (ts ++ rest)
  | None => None
  end.
