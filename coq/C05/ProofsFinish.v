(* C05/ProofsFinish.v -- the end of the parse: `finish` rebuilds an instance equivalent to the
   printed one from any final state that agrees with it and covers the format. *)
From Coq Require Import ZArith String Bool Arith List Lia.
From XV Require Import C05.Model C05.Check C05.ProofsBase C05.ProofsState.
Import ListNotations.
Local Open Scope string_scope.
Local Open Scope list_scope.

(* ------------------------------------------------------------------ constraint contexts *)
Definition ctx_le (sg : Z -> option av) (ctx : ctxt) : Prop :=
  forall v t, ctx_get v ctx = Some t -> sg v = Some t.
Definition tys_ok (sg : Z -> option av) (c : tyc) (ts : list av) : Prop :=
  match c with
  | TCConst t0 => forall t, In t ts -> t = t0
  | TCVar v => forall t, In t ts -> sg v = Some t
  | _ => True
  end.

Lemma verify_tys_mono : forall c ts ctx ctx', verify_tys c ts ctx = Some ctx' ->
  forall v t, ctx_get v ctx = Some t -> ctx_get v ctx' = Some t.
Proof.
  intros c ts; induction ts as [|x r IH]; intros ctx ctx' H v t Hg; simpl in H.
  - inversion H; subst; exact Hg.
  - destruct c as [|t0|w|].
    + eapply IH; eassumption.
    + destruct (av_eqb x t0) eqn:E; [|discriminate]. eapply IH; eassumption.
    + destruct (ctx_get w ctx) as [t0|] eqn:Eg.
      * destruct (av_eqb x t0) eqn:E; [|discriminate]. eapply IH; eassumption.
      * eapply IH; [exact H|]. simpl. destruct (Z.eqb w v) eqn:Ew.
        -- apply Z.eqb_eq in Ew; subst. rewrite Eg in Hg; discriminate.
        -- exact Hg.
    + eapply IH; eassumption.
Qed.

Lemma verify_tys_sound : forall c ts ctx ctx', verify_tys c ts ctx = Some ctx' ->
  tys_ok (fun v => ctx_get v ctx') c ts.
Proof.
  intros c ts; induction ts as [|x r IH]; intros ctx ctx' H.
  - destruct c; simpl; try exact I; intros y [].
  - simpl in H. destruct c as [|t0|w|]; simpl; try exact I.
    + destruct (av_eqb x t0) eqn:E; [|discriminate]. apply av_eqb_eq in E; subst.
      intros t [Ht|Ht]; [auto|]. exact (IH _ _ H t Ht).
    + destruct (ctx_get w ctx) as [t0|] eqn:Eg.
      * destruct (av_eqb x t0) eqn:E; [|discriminate]. apply av_eqb_eq in E; subst.
        intros t [Ht|Ht]; [subst; eapply verify_tys_mono; eassumption | exact (IH _ _ H t Ht)].
      * intros t [Ht|Ht]; [subst | exact (IH _ _ H t Ht)].
        eapply verify_tys_mono; [exact H|]. simpl. rewrite Z.eqb_refl. reflexivity.
Qed.

Lemma verify_tys_complete : forall sg c ts ctx, ctx_le sg ctx -> tys_ok sg c ts ->
  exists ctx', verify_tys c ts ctx = Some ctx' /\ ctx_le sg ctx' /\
    (forall v, c = TCVar v -> ts <> [] -> exists t, ctx_get v ctx' = Some t).
Proof.
  intros sg c ts; induction ts as [|x r IH]; intros ctx Hle Hok.
  - exists ctx; simpl; repeat split; auto. intros v _ Hn; congruence.
  - simpl. destruct c as [|t0|w|].
    + destruct (IH ctx Hle I) as [c' [H1 [H2 _]]]. exists c'; repeat split; auto. intros; discriminate.
    + assert (x = t0) as -> by (apply Hok; left; reflexivity). rewrite av_eqb_refl.
      destruct (IH ctx Hle) as [c' [H1 [H2 _]]]. { intros t Ht; apply Hok; right; exact Ht. }
      exists c'; repeat split; auto. intros; discriminate.
    + assert (sg w = Some x) as Hx by (apply Hok; left; reflexivity).
      assert (tys_ok sg (TCVar w) r) as Hr by (intros t Ht; apply Hok; right; exact Ht).
      destruct (ctx_get w ctx) as [t0|] eqn:Eg.
      * pose proof (Hle _ _ Eg) as Hs. rewrite Hx in Hs; inversion Hs; subst t0. rewrite av_eqb_refl.
        destruct (IH ctx Hle Hr) as [c' [H1 [H2 _]]]. exists c'; repeat split; auto.
        intros v Hv _. inversion Hv; subst v. exists x. eapply verify_tys_mono; eassumption.
      * assert (ctx_le sg ((w, x) :: ctx)) as Hle'.
        { intros v t; simpl. destruct (Z.eqb w v) eqn:Ew.
          - apply Z.eqb_eq in Ew; subst. intro Hi; inversion Hi; subst; exact Hx.
          - apply Hle. }
        destruct (IH _ Hle' Hr) as [c' [H1 [H2 _]]]. exists c'; repeat split; auto.
        intros v Hv _. inversion Hv; subst v. exists x.
        eapply verify_tys_mono; [exact H1|]. simpl; rewrite Z.eqb_refl; reflexivity.
    + destruct (IH ctx Hle I) as [c' [H1 [H2 _]]]. exists c'; repeat split; auto. intros; discriminate.
Qed.

(* ------------------------------------------------------------------ position-wise relations *)
Inductive pos3 {A} (P : vdef -> option (list av) -> A -> Prop)
  : list vdef -> list (option (list av)) -> list A -> Prop :=
| pos3_nil : pos3 P [] [] []
| pos3_cons : forall vd o x vds os xs, P vd o x -> pos3 P vds os xs -> pos3 P (vd :: vds) (o :: os) (x :: xs).

Lemma pos3_intro : forall A (dflt : A) (P : vdef -> option (list av) -> A -> Prop) vds os xs,
  length os = length vds -> length xs = length vds ->
  (forall k vd o, nth_error vds k = Some vd -> nth_error os k = Some o -> P vd o (nth k xs dflt)) ->
  pos3 P vds os xs.
Proof.
  intros A dflt P; induction vds as [|vd r IH]; intros [|o os] [|x xs] Ho Hx H; simpl in *; try discriminate.
  - constructor.
  - constructor.
    + exact (H 0 vd o eq_refl eq_refl).
    + apply IH; [lia | lia |]. intros k vd' o' H1 H2. exact (H (S k) vd' o' H1 H2).
Qed.

Lemma verify_def_tys : forall vd ts ctx c1, verify_def vd (Some ts) ctx = Some c1 ->
  verify_tys (vd_tyc vd) ts ctx = Some c1.
Proof.
  intros vd ts ctx c1 E. unfold verify_def in E.
  destruct (vd_kind vd); [destruct ts as [|a [|b l]]; cbv iota in E; try discriminate|..]; exact E.
Qed.
Lemma verify_def_mono : forall vd o ctx ctx', verify_def vd o ctx = Some ctx' ->
  forall v t, ctx_get v ctx = Some t -> ctx_get v ctx' = Some t.
Proof.
  intros vd [ts|] ctx ctx' H v t Hg.
  - apply verify_def_tys in H. eapply verify_tys_mono; eassumption.
  - inversion H; subst; exact Hg.
Qed.
Lemma verify_defs_mono : forall vds os ctx ctx', verify_defs vds os ctx = Some ctx' ->
  forall v t, ctx_get v ctx = Some t -> ctx_get v ctx' = Some t.
Proof.
  induction vds as [|vd r IH]; intros [|o os] ctx ctx' H v t Hg; cbn [verify_defs] in H; try discriminate.
  - inversion H; subst; exact Hg.
  - destruct (verify_def vd o ctx) as [c1|] eqn:E; [|discriminate].
    eapply IH; [exact H|]. eapply verify_def_mono; eassumption.
Qed.

Lemma verify_defs_sound : forall sg vds full ctx ctxF,
  verify_defs vds (map Some full) ctx = Some ctxF -> ctx_le sg ctxF ->
  Forall2 (fun vd ts => tys_ok sg (vd_tyc vd) ts) vds full.
Proof.
  intros sg; induction vds as [|vd r IH]; intros [|ts full] ctx ctxF H Hle; cbn [verify_defs map] in H; try discriminate.
  - constructor.
  - destruct (verify_def vd (Some ts) ctx) as [c1|] eqn:E; [|discriminate].
    constructor; [|eapply IH; eassumption].
    apply verify_def_tys in E.
    pose proof (verify_tys_sound _ _ _ _ E) as Hs.
    assert (forall v t, ctx_get v c1 = Some t -> sg v = Some t) as Hc.
    { intros v t Hg. apply Hle. eapply verify_defs_mono; eassumption. }
    unfold tys_ok in *; destruct (vd_tyc vd); cbv beta iota in *; auto.
Qed.

Definition part_pos (sg : Z -> option av) (vd : vdef) (o : option (list av)) (ts : list av) : Prop :=
  (o = None \/ o = Some ts) /\ tys_ok sg (vd_tyc vd) ts /\ kind_len (vd_kind vd) (length ts).

Lemma verify_defs_partial : forall sg vds os full, pos3 (part_pos sg) vds os full ->
  forall ctx, ctx_le sg ctx ->
  exists ctx', verify_defs vds os ctx = Some ctx' /\ ctx_le sg ctx' /\
    (forall k vd ts v, nth_error vds k = Some vd -> nth_error os k = Some (Some ts) -> ts <> [] ->
       vd_tyc vd = TCVar v -> exists t, ctx_get v ctx' = Some t).
Proof.
  intros sg vds os full Hp; induction Hp as [|vd o ts vds os full [Ho [Hok Hk]] Hp IH]; intros ctx Hle.
  - exists ctx; simpl; repeat split; auto. intros [|k] ? ? ? Hn; discriminate.
  - assert (exists c1, verify_def vd o ctx = Some c1 /\ ctx_le sg c1 /\
             (forall ts' v, o = Some ts' -> ts' <> [] -> vd_tyc vd = TCVar v -> exists t, ctx_get v c1 = Some t))
      as [c1 [E [Hle1 Hb]]].
    { destruct Ho as [->| ->].
      - exists ctx; simpl; repeat split; auto. intros; discriminate.
      - destruct (verify_tys_complete sg _ ts ctx Hle Hok) as [c1 [H1 [H2 H3]]].
        exists c1; repeat split; auto.
        + unfold verify_def. destruct (vd_kind vd); simpl in Hk; [|exact H1..].
          destruct ts as [|a [|b l]]; simpl in Hk; try lia. exact H1.
        + intros ts' v Hs Hn Hv. inversion Hs; subst ts'. exact (H3 v Hv Hn). }
    destruct (IH c1 Hle1) as [c2 [E2 [Hle2 Hb2]]].
    exists c2. cbn [verify_defs]. rewrite E. repeat split; auto.
    intros [|k] vd' ts' v Hn Ho' Hne Hv; simpl in Hn, Ho'.
    + inversion Hn; subst vd'. inversion Ho'; subst o.
      destruct (Hb ts' v eq_refl Hne Hv) as [t Ht]. exists t. eapply verify_defs_mono; eassumption.
    + eapply Hb2; eassumption.
Qed.

(* ------------------------------------------------------------------ resolution, zipping *)
Lemma all_eq_repeat : forall (t : av) l, (forall x, In x l -> x = t) -> l = repeat t (length l).
Proof.
  induction l as [|a r IH]; intro H; simpl; [reflexivity|].
  f_equal; [apply H; left; reflexivity | apply IH; intros x Hx; apply H; right; exact Hx].
Qed.

Definition o_pos (ctx : ctxt) (vd : vdef) (o : option (list av)) (seg : list (Z * av)) : Prop :=
  o = Some (map snd seg) \/
  (o = None /\ kind_len (vd_kind vd) (length seg) /\
   exists t, infer_one (vd_tyc vd) ctx = Some t /\ forall x, In x (map snd seg) -> x = t).

Lemma resolve_otys_ok : forall ctx vds os ops, pos3 (o_pos ctx) vds os ops ->
  resolve_otys vds (map (map fst) ops) os ctx = Some (map (map snd) ops).
Proof.
  intros ctx vds os ops Hp; induction Hp as [|vd o seg vds os ops Hpos Hp IH]; [reflexivity|].
  cbn [resolve_otys map]. rewrite IH.
  destruct Hpos as [->|[-> [Hk [t [Hi Hall]]]]]; [reflexivity|].
  assert (infer_tys vd (Some (length (map fst seg))) ctx = Some (map snd seg)) as ->; [|reflexivity].
  unfold infer_tys. rewrite Hi, map_length. apply all_eq_repeat in Hall. rewrite map_length in Hall.
  destruct (vd_kind vd); simpl in *; rewrite Hall; [rewrite Hk|..]; reflexivity.
Qed.

Definition r_pos (ctx : ctxt) (vd : vdef) (o : option (list av)) (ts : list av) : Prop :=
  o = Some ts \/
  (o = None /\ vd_kind vd = KSingle /\ exists t, infer_one (vd_tyc vd) ctx = Some t /\ ts = [t]).
Lemma resolve_rtys_ok : forall ctx vds os tss, pos3 (r_pos ctx) vds os tss -> resolve_rtys vds os ctx = Some tss.
Proof.
  intros ctx vds os tss Hp; induction Hp as [|vd o ts vds os tss Hpos Hp IH]; [reflexivity|].
  cbn [resolve_rtys]. rewrite IH.
  destruct Hpos as [->|[-> [Hk [t [Hi ->]]]]]; [reflexivity|].
  unfold infer_tys. rewrite Hk, Hi. reflexivity.
Qed.

Lemma all_some_ok : forall A (dflt : A) (l : list (option A)) full, length l = length full ->
  (forall k, k < length l -> exists x, nth_error l k = Some (Some x)) ->
  (forall k x, nth_error l k = Some (Some x) -> x = nth k full dflt) -> all_some l = Some full.
Proof.
  intros A dflt; induction l as [|o r IH]; intros [|y full] Hl Hs Ha; simpl in *; try discriminate; [reflexivity|].
  destruct (Hs 0 ltac:(lia)) as [x Hx]. simpl in Hx. inversion Hx; subst o.
  rewrite (IH full); [|lia| |].
  - simpl. f_equal. f_equal. exact (Ha 0 x eq_refl).
  - intros k Hk. destruct (Hs (S k) ltac:(lia)) as [z Hz]. exists z; exact Hz.
  - intros k z Hz. exact (Ha (S k) z Hz).
Qed.

Lemma verify_lengths_ok : forall vds (ops : list (list (Z * av))), build_sizes_ok vds ops = true ->
  verify_lengths vds (map (map fst) ops) = true.
Proof.
  induction vds as [|vd r IH]; intros [|s rs] H; simpl in *; try discriminate; auto.
  apply andb_true_iff in H; destruct H as [H1 H2]. rewrite (IH _ H2), andb_true_r, map_length.
  destruct (vd_kind vd); auto.
Qed.

Lemma combine_fst_snd : forall A B (l : list (A * B)), combine (map fst l) (map snd l) = l.
Proof. induction l as [|[a b] r IH]; simpl; [reflexivity | rewrite IH; reflexivity]. Qed.
Lemma zip_operands_ok : forall (ops : list (list (Z * av))),
  zip_operands (map (map fst) ops) (map (map snd) ops) = Some ops.
Proof.
  induction ops as [|s r IH]; simpl; [reflexivity|].
  rewrite !map_length, Nat.eqb_refl, IH, combine_fst_snd. reflexivity.
Qed.

Lemma Forall2_nth_ok : forall A B (R : A -> B -> Prop) (dflt : B) l1 l2, Forall2 R l1 l2 ->
  forall k a, nth_error l1 k = Some a -> R a (nth k l2 dflt).
Proof.
  intros A B R dflt l1 l2 H; induction H as [|a b l1 l2 Hr H IH]; intros [|k] x Hn; simpl in *; try discriminate.
  - inversion Hn; subst; exact Hr.
  - apply IH; exact Hn.
Qed.

Lemma seq0_In : forall n k, In k (seq0 n) <-> k < n.
Proof.
  induction n as [|n IH]; intro k; simpl; [split; [tauto | lia]|].
  rewrite in_app_iff, IH; simpl. lia.
Qed.

Lemma top_all : forall f e, In e (top_elems f) -> In e (all_elems f).
Proof.
  intros f e H. unfold top_elems in H; unfold all_elems. apply in_flat_map in H. apply in_flat_map.
  destruct H as [x [Hx He]]. exists x; split; [exact Hx|]. destruct x; [exact He | destruct He].
Qed.

(* ------------------------------------------------------------------ dictionaries *)
Lemma fill_lookup_some : forall defs dct n a,
  lookup n dct = Some a -> lookup n (fill_defaults defs dct) = Some a.
Proof.
  induction defs as [|x r IH]; intros dct n a H; simpl; [exact H|].
  pose proof (IH dct n a H) as H'.
  destruct (lookup (ad_name x) (fill_defaults r dct)) eqn:E; [exact H'|].
  destruct (ad_optional x); [exact H'|]. destruct (ad_default x) as [v|]; [|exact H'].
  simpl. destruct (String.eqb (ad_name x) n) eqn:En; [|exact H'].
  apply String.eqb_eq in En; subst. rewrite E in H'; discriminate.
Qed.

Lemma fill_lookup_new : forall defs dct n v,
  lookup n dct = None -> lookup n (fill_defaults defs dct) = Some v ->
  exists a, In a defs /\ ad_name a = n /\ ad_optional a = false /\ ad_default a = Some v.
Proof.
  induction defs as [|x r IH]; intros dct n v Hn H; simpl in H; [rewrite Hn in H; discriminate|].
  assert (lookup n (fill_defaults r dct) = Some v ->
          exists a, In a (x :: r) /\ ad_name a = n /\ ad_optional a = false /\ ad_default a = Some v) as Hrec.
  { intro H'. destruct (IH dct n v Hn H') as [a [Hin Ha]]. exists a; split; [right; exact Hin | exact Ha]. }
  destruct (lookup (ad_name x) (fill_defaults r dct)) eqn:E; [exact (Hrec H)|].
  destruct (ad_optional x) eqn:Eo; [exact (Hrec H)|].
  destruct (ad_default x) as [w|] eqn:Ed; [|exact (Hrec H)].
  simpl in H. destruct (String.eqb (ad_name x) n) eqn:En; [|exact (Hrec H)].
  apply String.eqb_eq in En. inversion H; subst w. exists x; repeat split; auto. left; reflexivity.
Qed.

Lemma nodup_name_inj : forall (l : list adef) a b,
  NoDup (map ad_name l) -> In a l -> In b l -> ad_name a = ad_name b -> a = b.
Proof.
  induction l as [|x r IH]; intros a b Hnd Ha Hb He; simpl in *; [tauto|].
  inversion Hnd as [|? ? Hnotin Hnd']; subst.
  destruct Ha as [Ha|Ha], Hb as [Hb|Hb]; subst; auto.
  - exfalso; apply Hnotin. rewrite He. apply in_map; exact Hb.
  - exfalso; apply Hnotin. rewrite <- He. apply in_map; exact Ha.
Qed.

Lemma dict_equiv : forall defs pd idct,
  NoDup (map ad_name defs) ->
  (forall a, In a defs -> adef_inst_ok idct a = true) ->
  (forall n a, lookup n pd = Some a -> lookup n idct = Some a) ->
  (forall n a, lookup n idct = Some a ->
     lookup n pd = Some a \/ is_default a (adef_default defs n) = true) ->
  forall n, lookup_def defs (fill_defaults defs pd) n = lookup_def defs idct n.
Proof.
  intros defs pd idct Hnd Hreq Hag Hcov n. unfold lookup_def.
  destruct (lookup n pd) as [a|] eqn:Ep.
  - rewrite (fill_lookup_some defs pd n a Ep), (Hag n a Ep). reflexivity.
  - destruct (lookup n (fill_defaults defs pd)) as [v|] eqn:Ef.
    + destruct (fill_lookup_new defs pd n v Ep Ef) as [x [Hin [Hname [Hopt Hdef]]]].
      destruct (lookup n idct) as [a|] eqn:Ei.
      * destruct (Hcov n a Ei) as [Hc|Hc]; [rewrite Ep in Hc; discriminate|].
        apply is_default_eq in Hc. unfold adef_default in Hc.
        destruct (find_adef n defs) as [y|] eqn:Efd; [|discriminate].
        unfold find_adef in Efd. apply find_some in Efd. destruct Efd as [Hy Hyn].
        apply String.eqb_eq in Hyn.
        assert (x = y) as -> by (apply (nodup_name_inj defs); auto; congruence).
        congruence.
      * pose proof (Hreq x Hin) as Hr. unfold adef_inst_ok in Hr.
        rewrite Hname, Ei, Hopt in Hr. discriminate.
    + destruct (lookup n idct) as [a|] eqn:Ei; [|reflexivity].
      destruct (Hcov n a Ei) as [Hc|Hc]; [rewrite Ep in Hc; discriminate|].
      apply is_default_eq in Hc. exact Hc.
Qed.

(* ------------------------------------------------------------------ what the static checks give *)
Lemma inst_ok_verify : forall d i, inst_ok d i = true ->
  exists ctx1 ctxF,
    verify_defs (od_operands d) (map Some (map (map snd) (i_operands i))) [] = Some ctx1 /\
    verify_defs (od_results d) (map Some (i_results i)) ctx1 = Some ctxF.
Proof.
  intros d i H. unfold inst_ok in H.
  repeat (apply andb_true_iff in H; destruct H as [H ?]).
  rewrite map_map.
  destruct (verify_defs (od_operands d) (map (fun seg => Some (map snd seg)) (i_operands i)) [])
    as [c1|] eqn:E1; [|congruence].
  destruct (verify_defs (od_results d) (map Some (i_results i)) c1) as [cF|] eqn:E2; [|congruence].
  exists c1, cF; split; [reflexivity | exact E2].
Qed.

Definition opnd_src (s : src) : bool := match s with SOperand _ | SOperands => true | _ => false end.
Definition res_src (s : src) : bool := match s with SResult _ | SResults => true | _ => false end.
(* functional-type(a, b) at top level takes operands on the left and results on the right *)
Definition funty_shape (f : format) : Prop :=
  forall a b, In (EFunTy a b) (top_elems f) -> opnd_src a = true /\ res_src b = true.

Lemma dirs_ok_funty_shape : forall d f, dirs_ok d f = true -> funty_shape f.
Proof.
  intros d f H a b Hin. unfold dirs_ok in H. rewrite forallb_forall in H.
  unfold top_elems in Hin. apply in_flat_map in Hin. destruct Hin as [x [Hx He]].
  specialize (H x Hx). destruct x as [e|an fe ts]; [|destruct He].
  destruct He as [He|[]]; subst e. simpl in H.
  repeat (apply andb_true_iff in H; destruct H as [H ?]).
  split; assumption.
Qed.

Lemma bind_pos_inv : forall (vds : list vdef) j v,
  match nth_error vds j with
  | Some (mkVdef KSingle (TCVar v')) => Z.eqb v v'
  | _ => false
  end = true -> nth_error vds j = Some (mkVdef KSingle (TCVar v)).
Proof.
  intros vds j v H. destruct (nth_error vds j) as [[k c]|]; [|discriminate].
  destruct k; try discriminate. destruct c; try discriminate.
  apply Z.eqb_eq in H; subst; reflexivity.
Qed.

Lemma binds_var_cases : forall d v e,
  (forall a b, e = EFunTy a b -> opnd_src a = true /\ res_src b = true) ->
  binds_var d v e = true ->
  (exists j, nth_error (od_operands d) j = Some (mkVdef KSingle (TCVar v)) /\ sets_otys j e = true) \/
  (exists j, nth_error (od_results d) j = Some (mkVdef KSingle (TCVar v)) /\ sets_rtys j e = true).
Proof.
  intros d v e Hsh H. destruct e as [| |s|s|a b|]; simpl in H; try discriminate.
  - destruct s as [j|j| |]; try discriminate; [left|right]; exists j;
      (split; [apply bind_pos_inv; exact H | simpl; apply Nat.eqb_refl]).
  - destruct (Hsh a b eq_refl) as [Ha Hb]. apply orb_true_iff in H. destruct H as [H|H].
    + destruct a as [j|j| |]; try discriminate. left; exists j.
      split; [apply bind_pos_inv; exact H | simpl; apply Nat.eqb_refl].
    + destruct b as [j|j| |]; try discriminate. right; exists j.
      split; [apply bind_pos_inv; exact H|]. simpl. destruct a; apply Nat.eqb_refl.
Qed.

Lemma coverage_parts : forall d f, coverage_ok d f = true ->
  (forall k, k < length (od_operands d) -> existsb (sets_vals k) (all_elems f) = true) /\
  (forall k, k < length (od_operands d) ->
     existsb (sets_otys k) (all_elems f) = true \/
     inferable d f (nth k (od_operands d) (mkVdef KSingle TCAny)) = true) /\
  (forall k, k < length (od_results d) ->
     existsb (sets_rtys k) (all_elems f) = true \/
     (vd_kind (nth k (od_results d) (mkVdef KVar TCAny)) = KSingle /\
      inferable d f (nth k (od_results d) (mkVdef KVar TCAny)) = true)).
Proof.
  intros d f H. unfold coverage_ok in H.
  apply andb_true_iff in H; destruct H as [H H3]. apply andb_true_iff in H; destruct H as [H1 H2].
  rewrite forallb_forall in H1, H2, H3. repeat split.
  - intros k Hk. apply H1. apply seq0_In; exact Hk.
  - intros k Hk. apply orb_true_iff. apply H2. apply seq0_In; exact Hk.
  - intros k Hk. specialize (H3 k (proj2 (seq0_In _ _) Hk)). apply orb_true_iff in H3.
    destruct H3 as [H3|H3]; [left; exact H3|right].
    apply andb_true_iff in H3; destruct H3 as [Hs Hi]. split; [|exact Hi].
    destruct (vd_kind (nth k (od_results d) (mkVdef KVar TCAny))); try discriminate; reflexivity.
Qed.

(* ------------------------------------------------------------------ verification of the parsed types *)
Definition binds_at (vds : list vdef) (os : list (option (list av))) (c : ctxt) : Prop :=
  forall k vd ts v, nth_error vds k = Some vd -> nth_error os k = Some (Some ts) -> ts <> [] ->
    vd_tyc vd = TCVar v -> exists t, ctx_get v c = Some t.

Lemma finish_verify : forall d i st, inst_ok d i = true -> agree d i st ->
  exists sg c1 c2,
    verify_defs (od_operands d) (p_otys st) [] = Some c1 /\
    verify_defs (od_results d) (p_rtys st) c1 = Some c2 /\
    ctx_le sg c2 /\
    Forall2 (fun vd ts => tys_ok sg (vd_tyc vd) ts) (od_operands d) (map (map snd) (i_operands i)) /\
    Forall2 (fun vd ts => tys_ok sg (vd_tyc vd) ts) (od_results d) (i_results i) /\
    binds_at (od_operands d) (p_otys st) c2 /\
    binds_at (od_results d) (p_rtys st) c2.
Proof.
  intros d i st Hok Hag. pose proof (inst_ok_IOK d i Hok) as IO.
  destruct (inst_ok_verify d i Hok) as [x1 [xF [V1 V2]]].
  set (sg := fun v => ctx_get v xF).
  assert (ctx_le sg xF) as LF by (intros v t Hg; exact Hg).
  assert (ctx_le sg x1) as L1 by (intros v t Hg; unfold sg; eapply verify_defs_mono; eassumption).
  pose proof (verify_defs_sound sg _ _ _ _ V1 L1) as SO.
  pose proof (verify_defs_sound sg _ _ _ _ V2 LF) as SR.
  pose proof (build_sizes_length _ _ _ (io_osz d i IO)) as Lo.
  pose proof (build_sizes_length _ _ _ (io_rsz d i IO)) as Lr.
  assert (pos3 (part_pos sg) (od_operands d) (p_otys st) (map (map snd) (i_operands i))) as PO.
  { apply (pos3_intro _ []); [apply (ag_len_o d i st Hag) | rewrite map_length; exact Lo |].
    intros k vd o Hn Ho. unfold part_pos. split; [|split].
    - destruct o as [ts|]; [right|left; reflexivity]. f_equal.
      rewrite nth_map_nil. exact (ag_o d i st Hag k ts Ho).
    - exact (Forall2_nth_ok _ _ _ [] _ _ SO k vd Hn).
    - apply build_sizes_nth with (vds := od_operands d); [|exact Hn].
      apply build_sizes_map. exact (io_osz d i IO). }
  assert (pos3 (part_pos sg) (od_results d) (p_rtys st) (i_results i)) as PR.
  { apply (pos3_intro _ []); [apply (ag_len_r d i st Hag) | exact Lr |].
    intros k vd o Hn Ho. unfold part_pos. split; [|split].
    - destruct o as [ts|]; [right|left; reflexivity]. f_equal. exact (ag_r d i st Hag k ts Ho).
    - exact (Forall2_nth_ok _ _ _ [] _ _ SR k vd Hn).
    - apply build_sizes_nth with (vds := od_results d); [exact (io_rsz d i IO)|exact Hn]. }
  assert (ctx_le sg []) as L0 by (intros v t Hg; discriminate).
  destruct (verify_defs_partial sg _ _ _ PO [] L0) as [c1 [E1 [Le1 B1]]].
  destruct (verify_defs_partial sg _ _ _ PR c1 Le1) as [c2 [E2 [Le2 B2]]].
  exists sg, c1, c2. split; [exact E1|]. split; [exact E2|]. split; [exact Le2|].
  split; [exact SO|]. split; [exact SR|]. split; [|exact B2].
  intros k vd ts v Hn Ho Hne Hv. destruct (B1 k vd ts v Hn Ho Hne Hv) as [t Ht].
  exists t. eapply verify_defs_mono; eassumption.
Qed.

Lemma bound_var : forall d f i st c2,
  inst_ok d i = true -> agree d i st -> final_cov d f i st -> funty_shape f ->
  binds_at (od_operands d) (p_otys st) c2 -> binds_at (od_results d) (p_rtys st) c2 ->
  forall v e, In e (top_elems f) -> binds_var d v e = true -> exists t, ctx_get v c2 = Some t.
Proof.
  intros d f i st c2 Hok Hag Hcov Hsh B1 B2 v e Hin Hb.
  pose proof (inst_ok_IOK d i Hok) as IO.
  destruct Hcov as [_ [F2 [F3 _]]].
  assert (forall a b, e = EFunTy a b -> opnd_src a = true /\ res_src b = true) as Hshe.
  { intros a b ->. exact (Hsh a b Hin). }
  assert (forall g, g e = true -> existsb g (all_elems f) = true) as Hex.
  { intros g Hg. apply existsb_exists. exists e; split; [apply top_all; exact Hin | exact Hg]. }
  destruct (binds_var_cases d v e Hshe Hb) as [[j [Hn Hs]]|[j [Hn Hs]]].
  - assert (j < length (od_operands d)) as Hj by (apply nth_error_Some; rewrite Hn; discriminate).
    destruct (F2 j Hj (Hex _ Hs)) as [ts Hts].
    apply (B1 j _ ts v Hn Hts); [|reflexivity].
    rewrite (ag_o d i st Hag j ts Hts). unfold otys_of.
    pose proof (build_sizes_nth _ _ _ j _ (io_osz d i IO) Hn) as Hk. simpl in Hk.
    destruct (nth j (i_operands i) []); simpl in *; [lia|discriminate].
  - assert (j < length (od_results d)) as Hj by (apply nth_error_Some; rewrite Hn; discriminate).
    destruct (F3 j Hj (Hex _ Hs)) as [ts Hts].
    apply (B2 j _ ts v Hn Hts); [|reflexivity].
    rewrite (ag_r d i st Hag j ts Hts). unfold rtys_of.
    pose proof (build_sizes_nth _ _ _ j _ (io_rsz d i IO) Hn) as Hk. simpl in Hk.
    destruct (nth j (i_results i) []); simpl in *; [lia|discriminate].
Qed.

(* ------------------------------------------------------------------ inference of the unprinted types *)
Lemma infer_pos : forall d f i st sg c2 vd (ts : list av),
  inst_ok d i = true -> agree d i st -> final_cov d f i st -> funty_shape f ->
  binds_at (od_operands d) (p_otys st) c2 -> binds_at (od_results d) (p_rtys st) c2 -> ctx_le sg c2 ->
  inferable d f vd = true -> tys_ok sg (vd_tyc vd) ts ->
  exists t, infer_one (vd_tyc vd) c2 = Some t /\ forall x, In x ts -> x = t.
Proof.
  intros d f i st sg c2 vd ts Hok Hag Hcov Hsh B1 B2 Hle Hinf Hty.
  unfold inferable in Hinf. unfold tys_ok in Hty. destruct (vd_tyc vd) as [|t0|v|]; try discriminate.
  - exists t0; split; [reflexivity | exact Hty].
  - apply existsb_exists in Hinf. destruct Hinf as [e [Hin Hb]].
    destruct (bound_var d f i st c2 Hok Hag Hcov Hsh B1 B2 v e Hin Hb) as [t Ht].
    exists t; split; [exact Ht|]. intros x Hx.
    pose proof (Hty x Hx) as H1. pose proof (Hle v t Ht) as H2. congruence.
Qed.

Lemma finish_ok_gen : forall d f i st,
  NoDup (map ad_name (od_props d)) -> NoDup (map ad_name (od_attrs d)) -> funty_shape f ->
  inst_ok d i = true -> coverage_ok d f = true -> agree d i st -> final_cov d f i st ->
  exists i', finish d st = Some i' /\ inst_equiv d i' i.
Proof.
  intros d f i st Np Na Hsh Hok Hcv Hag Hcov.
  pose proof (inst_ok_IOK d i Hok) as IO.
  destruct (coverage_parts d f Hcv) as [C1 [C2 C3]].
  destruct (finish_verify d i st Hok Hag) as [sg [c1 [c2 [E1 [E2 [Le [SO [SR [B1 B2]]]]]]]]].
  pose proof (build_sizes_length _ _ _ (io_osz d i IO)) as Lo.
  pose proof (build_sizes_length _ _ _ (io_rsz d i IO)) as Lr.
  pose proof Hcov as [F1 [F2 [F3 [F4 F5]]]].
  assert (all_some (p_vals st) = Some (map (map fst) (i_operands i))) as HV.
  { apply (all_some_ok _ []).
    - rewrite map_length, Lo. apply (ag_len_v d i st Hag).
    - intros k Hk. rewrite (ag_len_v d i st Hag) in Hk. exact (F1 k Hk (C1 k Hk)).
    - intros k x Hx. rewrite nth_map_nil. exact (ag_v d i st Hag k x Hx). }
  assert (pos3 (o_pos c2) (od_operands d) (p_otys st) (i_operands i)) as PO.
  { apply (pos3_intro _ []); [apply (ag_len_o d i st Hag) | exact Lo |].
    intros k vd o Hn Ho. unfold o_pos. destruct o as [ts|].
    - left. f_equal. exact (ag_o d i st Hag k ts Ho).
    - right. split; [reflexivity|]. split; [exact (build_sizes_nth _ _ _ k vd (io_osz d i IO) Hn)|].
      assert (k < length (od_operands d)) as Hk by (apply nth_error_Some; rewrite Hn; discriminate).
      assert (inferable d f vd = true) as Hi.
      { destruct (C2 k Hk) as [Hs|Hi].
        - destruct (F2 k Hk Hs) as [ts Hts]. rewrite Ho in Hts; discriminate.
        - erewrite nth_error_nth in Hi; [|exact Hn]. exact Hi. }
      assert (tys_ok sg (vd_tyc vd) (map snd (nth k (i_operands i) []))) as Hty.
      { rewrite <- nth_map_nil. exact (Forall2_nth_ok _ _ _ [] _ _ SO k vd Hn). }
      exact (infer_pos d f i st sg c2 vd _ Hok Hag Hcov Hsh B1 B2 Le Hi Hty). }
  assert (pos3 (r_pos c2) (od_results d) (p_rtys st) (i_results i)) as PR.
  { apply (pos3_intro _ []); [apply (ag_len_r d i st Hag) | exact Lr |].
    intros k vd o Hn Ho. unfold r_pos. destruct o as [ts|].
    - left. f_equal. exact (ag_r d i st Hag k ts Ho).
    - right. split; [reflexivity|].
      assert (k < length (od_results d)) as Hk by (apply nth_error_Some; rewrite Hn; discriminate).
      destruct (C3 k Hk) as [Hs|[Hki Hi]].
      { destruct (F3 k Hk Hs) as [ts Hts]. rewrite Ho in Hts; discriminate. }
      erewrite nth_error_nth in Hki; [|exact Hn]. erewrite nth_error_nth in Hi; [|exact Hn].
      split; [exact Hki|].
      assert (tys_ok sg (vd_tyc vd) (nth k (i_results i) [])) as Hty
        by exact (Forall2_nth_ok _ _ _ [] _ _ SR k vd Hn).
      destruct (infer_pos d f i st sg c2 vd _ Hok Hag Hcov Hsh B1 B2 Le Hi Hty) as [t [Ht Hall]].
      exists t; split; [exact Ht|].
      pose proof (build_sizes_nth _ _ _ k vd (io_rsz d i IO) Hn) as Hl. rewrite Hki in Hl. simpl in Hl.
      destruct (nth k (i_results i) []) as [|a [|b l]]; simpl in Hl; try lia.
      f_equal. apply Hall. left; reflexivity. }
  exists (mkInst (i_operands i) (i_results i) (fill_defaults (od_props d) (p_props st))
                 (fill_defaults (od_attrs d) (p_attrs st))).
  split.
  - unfold finish. rewrite HV. cbv beta iota.
    rewrite (verify_lengths_ok _ _ (io_osz d i IO)). cbn [negb]. cbv beta iota.
    rewrite E1. cbv beta iota. rewrite E2. cbv beta iota.
    rewrite (resolve_otys_ok _ _ _ _ PO), (resolve_rtys_ok _ _ _ _ PR). cbv beta iota.
    rewrite zip_operands_ok. cbv beta iota.
    rewrite (io_osz d i IO), (io_rsz d i IO). reflexivity.
  - unfold inst_equiv; cbn [i_operands i_results i_props i_attrs].
    split; [reflexivity|]. split; [reflexivity|]. split.
    + apply dict_equiv; [exact Np | exact (io_pdef d i IO) | exact (ag_p d i st Hag) | exact F4].
    + apply dict_equiv; [exact Na | exact (io_adef d i IO) | exact (ag_a d i st Hag) | exact F5].
Qed.

(* the statement used by the round-trip theorem: the shape of functional-type comes from dirs_ok *)
Lemma finish_ok : forall d f i st,
  NoDup (map ad_name (od_props d)) -> NoDup (map ad_name (od_attrs d)) -> dirs_ok d f = true ->
  inst_ok d i = true -> coverage_ok d f = true -> agree d i st -> final_cov d f i st ->
  exists i', finish d st = Some i' /\ inst_equiv d i' i.
Proof.
  intros d f i st Np Na Hd. apply finish_ok_gen; [exact Np | exact Na |].
  exact (dirs_ok_funty_shape d f Hd).
Qed.

Print Assumptions finish_ok.
