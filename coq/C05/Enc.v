(* C05/Enc.v -- encoders of model results into Base/Show.v S-expressions for the correspondence
   check (harness/props/c05.py).  No proofs. *)
From Coq Require Import ZArith String Ascii Bool Arith List.
From XV Require Import Base.Show C05.Model C05.Check.
Import ListNotations.
Local Open Scope list_scope.

Definition enc_str (s : string) : sx :=
  L (map (fun c => I (Z.of_N (N_of_ascii c))) (list_ascii_of_string s)).
Definition enc_dict (d : list (string * av)) : sx :=
  L (map (fun na => L [enc_str (fst na); I (av_id (snd na))]) d).
Definition enc_tok (t : tok) : sx :=
  match t with
  | TLit s _ => L [I 0; enc_str s]
  | TVal v => L [I 1; I v]
  | TAttr a => L [I 2; I (av_id a)]
  | TShort a => L [I 3; I (av_id a)]
  | TDict kw d => L [I 4; sB kw; enc_dict d]
  end.
Definition enc_inst (i : inst) : sx :=
  L [L (map (fun seg => L (map (fun vt => L [I (fst vt); I (av_id (snd vt))]) seg)) (i_operands i));
     L (map (fun seg => sLZ (map av_id seg)) (i_results i));
     enc_dict (i_props i);
     enc_dict (i_attrs i)].

(* one correspondence case: the printed tokens, and the result of parsing them back followed by
   `rest` (the first tokens of the next operation).  (-1): printing raises.  Parse result: () on
   error, else (instance, number of tokens left). *)
Definition c05_case (fx : bool) (d : opdef) (f : format) (i : inst) (rest : list tok) : sx :=
  match print_fmt fx d i f with
  | None => L [I (-1)]
  | Some ts =>
      L [L (map enc_tok ts);
         match parse_fmt d f (ts ++ rest) with
         | None => L []
         | Some (i', r) => L [enc_inst i'; sN (length r)]
         end;
         sB (inst_ok d i); sB (side_ok fx f i)]
  end.

(* the verdict of the checker on every regenerated format, and its reason code *)
Definition c05_flags (l : list (string * (opdef * format))) : sx :=
  L (map (fun x => I (fmt_code (fst (snd x)) (snd (snd x)))) l).
