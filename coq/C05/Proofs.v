(* C05/Proofs.v -- soundness of the checker: a format accepted by fmt_ok round-trips every
   well-formed instance (theorem c05_sound), and the refutations of the three side conditions. *)
From Coq Require Import ZArith String Bool Arith List Lia.
From XV Require Import C05.Model C05.Check C05.ProofsBase C05.ProofsTok C05.ProofsState C05.ProofsSplit
  C05.ProofsElem C05.ProofsLook C05.ProofsGroup C05.ProofsFinish.
Import ListNotations.
Local Open Scope string_scope.
Local Open Scope list_scope.

(* one element in a context: its own tokens followed by any tail that does not trigger gs *)
Definition estep (fx : bool) (d : opdef) (i : inst) (e : elem) (gs : list atrig) (needflag : bool) : Prop :=
  forall st tail, agree d i st -> untrig gs tail ->
  exists ts flag st',
    print_elem fx d i e = Some ts /\
    parse_elem d e st (ts ++ tail) = Some (flag, st', tail) /\
    (needflag = true -> flag = true) /\
    agree d i st' /\ extends st st' /\ elem_done d i e st'.

Lemma untrig_nil : forall tail, untrig [] tail.
Proof. intros tail t _ g []. Qed.

Lemma the_dict_expected : forall f kw rs ex, In (EAttrDict kw rs ex) (all_elems f) ->
  the_dict f <> None -> expected_names f = ex.
Proof.
  intros f kw rs ex Hin Hd. unfold expected_names. unfold the_dict in Hd |- *.
  set (isd := fun e => match e with EAttrDict _ _ _ => true | _ => false end) in Hd |- *.
  assert (In (EAttrDict kw rs ex) (filter isd (all_elems f))) as Hf by (apply filter_In; split; [exact Hin|reflexivity]).
  destruct (filter isd (all_elems f)) as [|e0 [|e1 r]].
  - destruct Hf.
  - destruct Hf as [Heq|[]]. subst e0.
    destruct (filter isd (top_elems f)) as [|t0 [|t1 tr]]; try (exfalso; apply Hd; reflexivity). reflexivity.
  - exfalso; apply Hd. destruct e0; reflexivity.
Qed.

Section Main.
  Variable fx : bool.
  Variable d : opdef.
  Variable f : format.
  Variable i : inst.
  Hypothesis Hio : IOK d i.
  Hypothesis Hfunty : fx = true \/ funty_ok i f = true.
  Hypothesis Hshort : forall e, In e (all_elems f) -> short_lead_ok i e = true.
  Hypothesis Hclash : forall n a, In (n, a) (i_attrs i) -> ~ In n (expected_names f).

  (* ---------------------------------------------------------------- a top-level element *)
  Lemma funty_elem : forall e, In e (all_elems f) -> fx = true \/ elem_funty_ok i e = true.
  Proof.
    intros e Hin. destruct Hfunty as [H|H]; [left; exact H|right].
    unfold funty_ok in H. rewrite forallb_forall in H.
    unfold all_elems in Hin. apply in_flat_map in Hin. destruct Hin as [x [Hx He]].
    specialize (H x Hx). destruct x as [e'|a fe ts].
    - destruct He as [<- | []]. exact H.
    - rewrite forallb_forall in H. apply H. exact He.
  Qed.

  Lemma top_elem_step : forall e,
    In e (all_elems f) -> the_dict f <> None -> elem_top_ok d e = true -> estep fx d i e (trig_of d e) false.
  Proof.
    intros e Hin Hdict Htop st tail Ha Hu.
    destruct e as [l ld|kw rs ex|s|s|a b|n p k o dflt].
    - exists [TLit l ld], true, st. split; [reflexivity|]. split; [apply lit_accepts|].
      split; [discriminate|]. split; [exact Ha|]. split; [apply extends_refl|exact I].
    - destruct (parse_dict_ok fx d i st kw rs ex tail Hio Ha) as [ts [flag [st' H]]].
      + intros n a Hna. rewrite <- (the_dict_expected f kw rs ex Hin Hdict). exact (Hclash n a Hna).
      + exact Hu.
      + exists ts, flag, st'. destruct H as [H1 [H2 [H3 [H4 H5]]]].
        split; [exact H1|]. split; [exact H2|]. split; [discriminate|].
        split; [exact H3|]. split; [exact H4|exact H5].
    - cbn [elem_top_ok] in Htop. apply andb_true_iff in Htop. destruct Htop as [Hv Hr].
      cbn [trig_of] in Hu. unfold kind_of_src in Hu.
      destruct s as [j|j| |]; try discriminate.
      + simpl in Hr. apply Nat.ltb_lt in Hr.
        destruct (nth_error (od_operands d) j) as [vd|] eqn:En; [|apply nth_error_None in En; lia].
        simpl in Hu. rewrite En in Hu. simpl in Hu.
        destruct (parse_vals_operand d i st j vd tail Hio Ha En) as [st' [Hp [Ha' [He' Hs']]]].
        * intro Hk. rewrite Hk in Hu. eapply untrig_comma; [|exact Hu]; simpl; tauto.
        * intros Hnil t Ht.
          pose proof (build_sizes_nth _ _ _ _ _ (io_osz _ _ Hio) En) as Hl.
          unfold vals_of in Hnil. apply map_eq_nil in Hnil. rewrite Hnil in Hl. simpl in Hl.
          destruct (vd_kind vd); simpl in Hl; try lia; apply (Hu t Ht GVal (in_eq _ _)).
        * eexists; eexists; exists st'. split; [reflexivity|]. split; [exact Hp|].
          split; [discriminate|]. split; [exact Ha'|]. split; [exact He'|exact Hs'].
      + simpl in Hr. apply Nat.leb_le in Hr. simpl in Hu.
        destruct (parse_vals_all d i st tail Hio Ha Hr) as [st' [Hp [Ha' [He' Hs']]]].
        * eapply untrig_comma; [|exact Hu]; simpl; tauto.
        * intros _ t Ht. apply (Hu t Ht GVal (in_eq _ _)).
        * eexists; eexists; exists st'. split; [reflexivity|]. split; [exact Hp|].
          split; [discriminate|]. split; [exact Ha'|]. split; [exact He'|exact Hs'].
    - cbn [elem_top_ok] in Htop.
      destruct (src_kind_some d s Htop) as [k Hk].
      cbn [trig_of] in Hu. unfold kind_of_src in Hu. rewrite Hk in Hu.
      destruct (parse_types_ok d i st s k tail Hio Ha Htop Hk) as [st' [Hp [Ha' [He' Hs']]]].
      + intro Hkv. subst k. eapply untrig_comma; [|exact Hu]; simpl; tauto.
      + intros Hnil t Ht.
        pose proof (src_kind_len d i s k Hio Hk) as Hl. rewrite Hnil in Hl. simpl in Hl.
        destruct k; simpl in Hl; try lia; apply (Hu t Ht GType (in_eq _ _)).
      + eexists; eexists; exists st'. split; [reflexivity|]. split; [exact Hp|].
        split; [discriminate|]. split; [exact Ha'|]. split; [exact He'|exact Hs'].
    - cbn [elem_top_ok] in Htop.
      repeat (apply andb_true_iff in Htop; destruct Htop as [Htop ?]).
      destruct (parse_funty_ok fx d i st a b tail Hio Ha) as [ts [st' [Hp [_ [Hpa [Ha' [He' [Hd1 Hd2]]]]]]]]; auto.
      { apply funty_elem; exact Hin. }
      exists ts, true, st'. split; [exact Hp|]. split; [exact Hpa|]. split; [reflexivity|].
      split; [exact Ha'|]. split; [exact He'|]. split; [exact Hd1|exact Hd2].
    - cbn [elem_top_ok] in Htop. apply andb_true_iff in Htop. destruct Htop as [Hdecl Hk].
      destruct (attr_of i n p) as [a0|] eqn:Hat.
      + destruct (is_default a0 dflt) eqn:Hdf.
        * (* present but equal to the default: silent; the variable must be optional *)
          assert (o = true /\ match k with AKGeneric => True | AKShort (Some _) => True | _ => False end) as [Ho Hkk].
          { apply is_default_eq in Hdf. subst dflt.
            destruct k as [|[l|]|u]; try discriminate.
            - destruct o; [auto|discriminate].
            - destruct o; [auto|discriminate].
            - destruct o; discriminate. }
          subst o.
          destruct (parse_attr_silent fx d i st n p k dflt tail Ha) as [Hp [Hpa Hd']].
          { right. exists a0. auto. }
          { destruct k as [|[l|]|u]; try contradiction.
            - intros t Ht. apply (Hu t Ht GAttr). simpl. left; reflexivity.
            - intros t Ht. unfold short_item.
              pose proof (Hu t Ht (GLead l)) as H. simpl in H. rewrite (H (or_introl eq_refl)). reflexivity. }
          exists [], false, st. split; [exact Hp|]. split; [exact Hpa|]. split; [discriminate|].
          split; [exact Ha|]. split; [apply extends_refl|exact Hd'].
        * destruct (parse_attr_present fx d i st n p k o dflt a0 tail Hio Ha Hdecl Hat Hdf) as [ts [st' [Hp [_ [Hpa [Ha' [He' Hd']]]]]]].
          { intros l -> ->. pose proof (Hshort _ Hin) as Hs. cbn [short_lead_ok] in Hs. rewrite Hat in Hs.
            unfold short_item. cbn [tok_lead]. rewrite Hs. reflexivity. }
          exists ts, true, st'. split; [exact Hp|]. split; [exact Hpa|]. split; [reflexivity|].
          split; [exact Ha'|]. split; [exact He'|exact Hd'].
      + (* absent *)
        destruct o.
        * destruct (parse_attr_silent fx d i st n p k dflt tail Ha) as [Hp [Hpa Hd']].
          { left; exact Hat. }
          { destruct k as [|[l|]|u]; try discriminate.
            - intros t Ht. apply (Hu t Ht GAttr). simpl. left; reflexivity.
            - intros t Ht. unfold short_item.
              pose proof (Hu t Ht (GLead l)) as H. simpl in H. rewrite (H (or_introl eq_refl)). reflexivity. }
          exists [], false, st. split; [exact Hp|]. split; [exact Hpa|]. split; [discriminate|].
          split; [exact Ha|]. split; [apply extends_refl|exact Hd'].
        * exfalso. eapply (decl_required d i n p k false dflt); eauto.
  Qed.

  (* ---------------------------------------------------------------- lists of elements *)
  Lemma elems_steps : forall (es : list elem) (k : list dir) tk rest,
    groups_ok d k = true ->
    print_fmt fx d i k = Some tk -> rest_ok d f rest = true ->
    (forall e, In e es -> forall g, In g (trig_in_group d e) -> trig_wf f g) ->
    (forall e, In e es -> estep fx d i e (trig_in_group d e) false) ->
    look_elems d es k = true ->
    forall st, agree d i st ->
    exists tes st',
      print_elems fx d i es = Some tes /\
      parse_elems d es st (tes ++ tk ++ rest) = Some (st', tk ++ rest) /\
      agree d i st' /\ extends st st' /\ (forall e, In e es -> elem_done d i e st').
  Proof.
    induction es as [|e r IH]; intros k tk rest Hg Hpk Hr Hwf Hst Hlook st Ha.
    - exists [], st. split; [reflexivity|]. split; [reflexivity|]. split; [exact Ha|].
      split; [apply extends_refl|]. intros e [].
    - cbn [look_elems] in Hlook. apply andb_true_iff in Hlook. destruct Hlook as [Hl1 Hl2].
      assert (forall e', In e' r -> forall g, In g (trig_in_group d e') -> trig_wf f g) as Hwf' by (intros; eapply Hwf; [right|]; eauto).
      assert (forall e', In e' r -> estep fx d i e' (trig_in_group d e') false) as Hst' by (intros; apply Hst; right; assumption).
      (* what the rest prints does not depend on the state *)
      destruct (IH k tk rest Hg Hpk Hr Hwf' Hst' Hl2 st Ha) as [tr [_ [Hpr _]]].
      assert (untrig (trig_in_group d e) (tr ++ tk ++ rest)) as Hu.
      { rewrite app_assoc.
        apply (nf_all_untrig fx d f i (trig_in_group d e) (map DE r ++ k) (tr ++ tk) rest Hio).
        - intros g Hgin. eapply Hwf; [left; reflexivity|exact Hgin].
        - unfold groups_ok. rewrite forallb_app. apply andb_true_iff. split; [|exact Hg].
          apply forallb_forall. intros x Hx. apply in_map_iff in Hx. destruct Hx as [e' [<- _]]. reflexivity.
        - exact Hl1.
        - rewrite print_fmt_app, print_fmt_DE, Hpr, Hpk. reflexivity.
        - exact Hr. }
      destruct (Hst e (or_introl eq_refl) st (tr ++ tk ++ rest) Ha Hu) as [te [flag [st1 [Hpe [Hpa [_ [Ha1 [He1 Hd1]]]]]]]].
      destruct (IH k tk rest Hg Hpk Hr Hwf' Hst' Hl2 st1 Ha1) as [tr' [st2 [Hpr' [Hpa2 [Ha2 [He2 Hd2]]]]]].
      rewrite Hpr in Hpr'. inversion Hpr'; subst tr'.
      exists (te ++ tr), st2. split.
      { cbn [print_elems]. rewrite Hpe, Hpr. reflexivity. }
      split.
      { cbn [parse_elems]. rewrite <- app_assoc. rewrite Hpa. exact Hpa2. }
      split; [exact Ha2|]. split; [eapply extends_trans; eassumption|].
      intros e' [<-|Hin].
      + eapply (elem_done_mono d i e st1 st2); eassumption.
      + apply Hd2; exact Hin.
  Qed.

  (* ---------------------------------------------------------------- optional groups *)
  Lemma group_src_facts : forall a s fe ts,
    (a = AnVals s \/ a = AnTypes s) -> group_ok d a fe ts = true ->
    src_in_range d s = true /\ src_varlike d s = true /\ empty_ok d s = true /\
    (a = AnVals s -> vals_src s = true) /\
    elem_in_src_group d s fe = true /\ (match fe with ETypes _ => False | _ => True end) /\
    forallb (elem_in_src_group d s) ts = true.
  Proof.
    intros a s fe ts Ha Hg. unfold group_ok in Hg.
    assert (src_in_range d s && src_varlike d s && empty_ok d s &&
            match a with AnVals _ => vals_src s | _ => true end &&
            match fe with
            | ELit l _ => negb (String.eqb l "attributes")
            | EVals s' => src_eqb s s' && vals_src s
            | _ => false
            end && forallb (elem_in_src_group d s) ts = true) as H.
    { destruct Ha as [-> | ->]; exact Hg. }
    clear Hg. repeat (apply andb_true_iff in H; destruct H as [H ?]).
    split; [assumption|]. split; [assumption|]. split; [assumption|].
    split. { intros ->. assumption. }
    split. { destruct fe; try discriminate; assumption. }
    split. { destruct fe; try discriminate; exact I. }
    assumption.
  Qed.

  Lemma group_present_step : forall a fe ts (k : list dir) tk rest,
    group_ok d a fe ts = true -> anchor_present i a = true ->
    (forall e, In e (fe :: ts) -> In e (all_elems f)) ->
    groups_ok d k = true -> print_fmt fx d i k = Some tk -> rest_ok d f rest = true ->
    look_elems d (fe :: ts) k = true ->
    forall st, agree d i st ->
    exists tg st',
      print_dir fx d i (DGroup a fe ts) = Some tg /\
      parse_dir d (DGroup a fe ts) st (tg ++ tk ++ rest) = Some (st', tk ++ rest) /\
      agree d i st' /\ extends st st' /\ (forall e, In e (fe :: ts) -> elem_done d i e st').
  Proof.
    intros a fe ts k tk rest Hg Hp Hall Hgk Hpk Hr Hlook st Ha.
    (* every element of the group steps, the first one reporting that it consumed input *)
    assert (estep fx d i fe (trig_in_group d fe) true /\
            (forall e, In e ts -> estep fx d i e (trig_in_group d e) false)) as [Hfe Hts].
    { destruct a as [s|s|n p dflt].
      - destruct (group_src_facts (AnVals s) s fe ts (or_introl eq_refl) Hg) as [Hr' [Hvl [Hem [Hv [Hfin [Hnt Htin]]]]]].
        assert (src_types i s <> []) as Hne by (apply (anchor_src_nonempty i (AnVals s) s); auto).
        split.
        + intros st0 tail Ha0 Hu.
          destruct (src_group_elem_present fx d i st0 s fe tail Hio Ha0 Hr' Hvl Hne Hfin Hu) as [tsx [flag [st' [H1 [H2 [H3 [H4 [H5 H6]]]]]]]].
          exists tsx, flag, st'. split; [exact H1|]. split; [exact H2|]. split; [|auto].
          intros _. destruct fe; try contradiction; apply H3.
        + intros e Hin st0 tail Ha0 Hu. rewrite forallb_forall in Htin.
          destruct (src_group_elem_present fx d i st0 s e tail Hio Ha0 Hr' Hvl Hne (Htin e Hin) Hu) as [tsx [flag [st' [H1 [H2 [H3 [H4 [H5 H6]]]]]]]].
          exists tsx, flag, st'. split; [exact H1|]. split; [exact H2|]. split; [discriminate|auto].
      - destruct (group_src_facts (AnTypes s) s fe ts (or_intror eq_refl) Hg) as [Hr' [Hvl [Hem [Hv [Hfin [Hnt Htin]]]]]].
        assert (src_types i s <> []) as Hne.
        { apply (anchor_src_nonempty i (AnTypes s) s); auto. }
        split.
        + intros st0 tail Ha0 Hu.
          destruct (src_group_elem_present fx d i st0 s fe tail Hio Ha0 Hr' Hvl Hne Hfin Hu) as [tsx [flag [st' [H1 [H2 [H3 [H4 [H5 H6]]]]]]]].
          exists tsx, flag, st'. split; [exact H1|]. split; [exact H2|]. split; [|auto].
          intros _. destruct fe; try contradiction; apply H3.
        + intros e Hin st0 tail Ha0 Hu. rewrite forallb_forall in Htin.
          destruct (src_group_elem_present fx d i st0 s e tail Hio Ha0 Hr' Hvl Hne (Htin e Hin) Hu) as [tsx [flag [st' [H1 [H2 [H3 [H4 [H5 H6]]]]]]]].
          exists tsx, flag, st'. split; [exact H1|]. split; [exact H2|]. split; [discriminate|auto].
      - simpl in Hp. destruct (attr_of i n p) as [a0|] eqn:Hat; [|discriminate].
        apply negb_true_iff in Hp.
        unfold group_ok in Hg. apply andb_true_iff in Hg. destruct Hg as [Hg _].
        apply andb_true_iff in Hg. destruct Hg as [Hgf Hgt].
        assert (elem_in_attr_group d n p dflt fe = true) as Hfin.
        { destruct fe as [l ld|kw rs ex|s'|s'|x y|n' p' k' o dflt']; try discriminate; cbn [elem_in_attr_group].
          - exact Hgf.
          - destruct k'; try discriminate. destruct o; try discriminate. exact Hgf. }
        split.
        + intros st0 tail Ha0 Hu.
          destruct (attr_group_elem_present fx d i st0 n p dflt a0 fe tail Hio Ha0 Hat Hp Hfin) as [tsx [st' [H1 [H2 [H3 [H4 [H5 H6]]]]]]].
          { apply Hshort, Hall. left; reflexivity. }
          exists tsx, true, st'. split; [exact H1|]. split; [exact H2|]. split; [reflexivity|auto].
        + intros e Hin st0 tail Ha0 Hu. rewrite forallb_forall in Hgt.
          destruct (attr_group_elem_present fx d i st0 n p dflt a0 e tail Hio Ha0 Hat Hp (Hgt e Hin)) as [tsx [st' [H1 [H2 [H3 [H4 [H5 H6]]]]]]].
          { apply Hshort, Hall. right; exact Hin. }
          exists tsx, true, st'. split; [exact H1|]. split; [exact H2|]. split; [reflexivity|auto]. }
    cbn [look_elems] in Hlook. apply andb_true_iff in Hlook. destruct Hlook as [Hl1 Hl2].
    assert (forall e, In e (fe :: ts) -> forall g, In g (trig_in_group d e) -> trig_wf f g) as Hwf.
    { intros e _ g Hgin. destruct e; cbn [trig_in_group] in Hgin; try destruct Hgin;
        destruct (kind_of_src d s); simpl in Hgin; try tauto; destruct Hgin as [<- | []]; exact I. }
    (* the tail of the group first (its printing does not depend on the state) *)
    destruct (elems_steps ts k tk rest Hgk Hpk Hr (fun e H => Hwf e (or_intror H)) Hts Hl2 st Ha) as [tr [_ [Hpr _]]].
    assert (untrig (trig_in_group d fe) (tr ++ tk ++ rest)) as Hu.
    { rewrite app_assoc.
      apply (nf_all_untrig fx d f i (trig_in_group d fe) (map DE ts ++ k) (tr ++ tk) rest Hio).
      - apply Hwf. left; reflexivity.
      - unfold groups_ok. rewrite forallb_app. apply andb_true_iff. split; [|exact Hgk].
        apply forallb_forall. intros x Hx. apply in_map_iff in Hx. destruct Hx as [e' [<- _]]. reflexivity.
      - exact Hl1.
      - rewrite print_fmt_app, print_fmt_DE, Hpr, Hpk. reflexivity.
      - exact Hr. }
    destruct (Hfe st (tr ++ tk ++ rest) Ha Hu) as [te [flag [st1 [Hpe [Hpa [Hfl [Ha1 [He1 Hd1]]]]]]]].
    specialize (Hfl eq_refl). subst flag.
    destruct (elems_steps ts k tk rest Hgk Hpk Hr (fun e H => Hwf e (or_intror H)) Hts Hl2 st1 Ha1) as [tr' [st2 [Hpr' [Hpa2 [Ha2 [He2 Hd2]]]]]].
    rewrite Hpr in Hpr'. inversion Hpr'; subst tr'.
    exists (te ++ tr), st2. split.
    { cbn [print_dir]. rewrite Hp. cbn [print_elems]. rewrite Hpe, Hpr. reflexivity. }
    split.
    { cbn [parse_dir]. rewrite <- app_assoc. rewrite Hpa. exact Hpa2. }
    split; [exact Ha2|]. split; [eapply extends_trans; eassumption|].
    intros e' [<- | Hin].
    - eapply (elem_done_mono d i fe st1 st2); eassumption.
    - apply Hd2; exact Hin.
  Qed.

  Lemma set_empty_all_src : forall s ts st,
    src_in_range d s = true -> src_varlike d s = true -> empty_ok d s = true -> src_types i s = [] ->
    forallb (elem_in_src_group d s) ts = true -> agree d i st ->
    exists st', set_empty_all d ts st = Some st' /\ agree d i st' /\ extends st st'
                /\ (forall e, In e ts -> elem_done d i e st').
  Proof.
    intros s. induction ts as [|e r IH]; intros st Hr Hvl Hem Hnil Hin Ha.
    - exists st. split; [reflexivity|]. split; [exact Ha|]. split; [apply extends_refl|]. intros e [].
    - simpl in Hin. apply andb_true_iff in Hin. destruct Hin as [He Hrest].
      destruct (src_group_elem_empty d i st s e Hio Ha Hr Hvl Hem Hnil He) as [st1 [Hs1 [Ha1 [He1 Hd1]]]].
      destruct (IH st1 Hr Hvl Hem Hnil Hrest Ha1) as [st2 [Hs2 [Ha2 [He2 Hd2]]]].
      exists st2. split; [cbn [set_empty_all]; rewrite Hs1; exact Hs2|].
      split; [exact Ha2|]. split; [eapply extends_trans; eassumption|].
      intros e' [<- | Hin'].
      + eapply (elem_done_mono d i e st1 st2); eassumption.
      + apply Hd2; exact Hin'.
  Qed.

  Lemma set_empty_all_attr : forall n p dflt ts st,
    (attr_of i n p = None \/ exists a, attr_of i n p = Some a /\ is_default a dflt = true) ->
    forallb (elem_in_attr_group d n p dflt) ts = true ->
    set_empty_all d ts st = Some st /\ (forall e, In e ts -> elem_done d i e st).
  Proof.
    intros n p dflt. induction ts as [|e r IH]; intros st Hv Hin.
    - split; [reflexivity|]. intros e [].
    - simpl in Hin. apply andb_true_iff in Hin. destruct Hin as [He Hrest].
      destruct (IH st Hv Hrest) as [Hs Hd].
      assert (set_empty d e st = Some st /\ elem_done d i e st) as [Hse Hde].
      { destruct e as [l ld|kw rs ex|s'|s'|x y|n' p' k o dflt']; cbn [elem_in_attr_group] in He; try discriminate.
        - split; [reflexivity|exact I].
        - repeat (apply andb_true_iff in He; destruct He as [He ?]).
          apply String.eqb_eq in He. subst n'.
          match goal with H : Bool.eqb p' p = true |- _ => apply eqb_prop in H; subst p' end.
          match goal with H : opt_av_eqb dflt dflt' = true |- _ => apply opt_av_eqb_eq in H; subst dflt' end.
          split; [reflexivity|]. intros a Hat.
          destruct Hv as [Hn|[a' [Ha' Hd']]].
          + rewrite Hn in Hat; discriminate.
          + rewrite Ha' in Hat; inversion Hat; subst; left; exact Hd'. }
      split.
      + cbn [set_empty_all]. rewrite Hse. exact Hs.
      + intros e' [<- | Hin']; [exact Hde | apply Hd; exact Hin'].
  Qed.

  Lemma group_absent_src : forall a s fe ts tail st,
    src_in_range d s = true -> src_varlike d s = true -> empty_ok d s = true ->
    elem_in_src_group d s fe = true -> (match fe with ETypes _ => False | _ => True end) ->
    forallb (elem_in_src_group d s) ts = true ->
    src_types i s = [] ->
    untrig (trig_first d fe) tail -> agree d i st ->
    exists st',
      parse_dir d (DGroup a fe ts) st tail = Some (st', tail) /\
      agree d i st' /\ extends st st' /\ (forall e, In e (fe :: ts) -> elem_done d i e st').
  Proof.
    intros a s fe ts tail st Hr Hvl Hem Hfin Hnt Htin Hnil Hu Ha.
    (* the first element declines and leaves a state that agrees *)
    assert (exists st1, parse_elem d fe st tail = Some (false, st1, tail) /\ agree d i st1 /\ extends st st1
                        /\ elem_done d i fe st1) as [st1 [Hp1 [Ha1 [He1 Hd1]]]].
    { destruct (kind_of_src_varlike d s Hvl) as [k [Hk [Hkk Hns]]].
      destruct fe as [l ld|kw rs ex|s'|s'|x y|n p k' o dflt]; cbn [elem_in_src_group] in Hfin; try discriminate; try contradiction.
      - exists st. split; [apply lit_declines; exact Hu|]. split; [exact Ha|]. split; [apply extends_refl|exact I].
      - apply andb_true_iff in Hfin. destruct Hfin as [He Hv]. apply src_eqb_eq in He. subst s'.
        cbn [trig_first trig_of] in Hu. rewrite Hkk in Hu. clear Hkk.
        destruct s as [j|j| |]; try discriminate.
        + simpl in Hk. destruct (nth_error (od_operands d) j) as [vd|] eqn:En; simpl in Hk; [|discriminate].
          inversion Hk; subst k.
          assert (vals_of i j = []) as Hv0.
          { simpl in Hnil. unfold vals_of. apply map_eq_nil in Hnil. rewrite Hnil. reflexivity. }
          destruct (parse_vals_operand d i st j vd tail Hio Ha En) as [st' [Hp [Ha' [He' Hs']]]].
          { intro Hkv. rewrite Hkv in Hu. eapply untrig_comma; [|exact Hu]; simpl; tauto. }
          { intros _ t Ht. destruct (vd_kind vd); [congruence| |]; apply (Hu t Ht GVal); simpl; tauto. }
          rewrite Hv0 in Hp. change (sep (map TVal []) ++ tail) with tail in Hp.
          exists st'. split; [|split; [exact Ha'|split; [exact He'|exact Hs']]].
          rewrite Hp. destruct (vd_kind vd); [congruence|reflexivity|reflexivity].
        + simpl in Hk. inversion Hk; subst k.
          simpl in Hr. apply Nat.leb_le in Hr.
          assert (concat (map (map fst) (i_operands i)) = []) as Hc.
          { simpl in Hnil. rewrite concat_map_map in *. apply map_eq_nil in Hnil. rewrite Hnil. reflexivity. }
          destruct (parse_vals_all d i st tail Hio Ha Hr) as [st' [Hp [Ha' [He' Hs']]]].
          { eapply untrig_comma; [|exact Hu]; simpl; tauto. }
          { intros _ t Ht. apply (Hu t Ht GVal); simpl; tauto. }
          rewrite Hc in Hp. change (sep (map TVal []) ++ tail) with tail in Hp.
          exists st'. split; [exact Hp|]. split; [exact Ha'|]. split; [exact He'|exact Hs']. }
    destruct (set_empty_all_src s ts st1 Hr Hvl Hem Hnil Htin Ha1) as [st2 [Hs2 [Ha2 [He2 Hd2]]]].
    exists st2. split; [cbn [parse_dir]; rewrite Hp1, Hs2; reflexivity|].
    split; [exact Ha2|]. split; [eapply extends_trans; eassumption|].
    intros e' [<- | Hin'].
    - eapply (elem_done_mono d i fe st1 st2); eassumption.
    - apply Hd2; exact Hin'.
  Qed.

  Lemma group_absent_step : forall a fe ts tail st,
    group_ok d a fe ts = true -> anchor_present i a = false ->
    untrig (trig_first d fe) tail -> agree d i st ->
    exists st',
      parse_dir d (DGroup a fe ts) st tail = Some (st', tail) /\
      agree d i st' /\ extends st st' /\ (forall e, In e (fe :: ts) -> elem_done d i e st').
  Proof.
    intros a fe ts tail st Hg Hp Hu Ha.
    destruct a as [s|s|n p dflt].
    - destruct (group_src_facts (AnVals s) s fe ts (or_introl eq_refl) Hg) as [Hr [Hvl [Hem [Hv [Hfin [Hnt Htin]]]]]].
      specialize (Hv eq_refl).
      apply group_absent_src with (s := s); auto.
      simpl in Hp. destruct (src_vals_some i s Hv) as [vs Hvs]. rewrite Hvs in Hp.
      apply nonempty_false_nil in Hp. subst vs. apply (src_vals_types_nil i s [] Hv Hvs). reflexivity.
    - destruct (group_src_facts (AnTypes s) s fe ts (or_intror eq_refl) Hg) as [Hr [Hvl [Hem [Hv [Hfin [Hnt Htin]]]]]].
      apply group_absent_src with (s := s); auto.
      simpl in Hp. apply nonempty_false_nil in Hp. exact Hp.
    - assert (attr_of i n p = None \/ exists a, attr_of i n p = Some a /\ is_default a dflt = true) as Hv.
      { simpl in Hp. destruct (attr_of i n p) as [a0|]; [|left; reflexivity].
        right. exists a0. split; [reflexivity|]. apply negb_false_iff in Hp. exact Hp. }
      unfold group_ok in Hg. apply andb_true_iff in Hg. destruct Hg as [Hg _].
      apply andb_true_iff in Hg. destruct Hg as [Hgf Hgt].
      destruct (set_empty_all_attr n p dflt ts st Hv Hgt) as [Hs Hd].
      assert (parse_elem d fe st tail = Some (false, st, tail) /\ elem_done d i fe st) as [Hp1 Hd1].
      { destruct fe as [l ld|kw rs ex|s'|s'|x y|n' p' k' o dflt']; try discriminate.
        - split; [apply lit_declines; exact Hu|exact I].
        - destruct k'; try discriminate. destruct o; try discriminate.
          repeat (apply andb_true_iff in Hgf; destruct Hgf as [Hgf ?]).
          apply String.eqb_eq in Hgf. subst n'.
          match goal with H : Bool.eqb p' p = true |- _ => apply eqb_prop in H; subst p' end.
          match goal with H : opt_av_eqb dflt dflt' = true |- _ => apply opt_av_eqb_eq in H; subst dflt' end.
          destruct (parse_attr_silent fx d i st n p AKGeneric dflt tail Ha Hv) as [_ [Hpa Hdn]].
          { intros t Ht. apply (Hu t Ht GAttr). simpl. tauto. }
          split; [exact Hpa|exact Hdn]. }
      exists st. split; [cbn [parse_dir]; rewrite Hp1, Hs; reflexivity|].
      split; [exact Ha|]. split; [apply extends_refl|].
      intros e' [<- | Hin']; [exact Hd1 | apply Hd; exact Hin'].
  Qed.

  (* ---------------------------------------------------------------- the whole format *)
  Lemma dirs_groups_ok : forall k, dirs_ok d k = true -> groups_ok d k = true.
  Proof.
    intros k H. unfold dirs_ok in H. unfold groups_ok. rewrite forallb_forall in *.
    intros x Hx. specialize (H x Hx). destruct x; [reflexivity|exact H].
  Qed.

  Lemma trig_of_wf : forall e g, In g (trig_of d e) -> trig_wf f g.
  Proof.
    intros e g Hin. destruct e as [l ld|kw rs ex|s|s|a b|n p k o dflt]; cbn [trig_of] in Hin.
    - destruct Hin.
    - destruct kw; destruct Hin as [<- | []]; simpl; tauto.
    - destruct (kind_of_src d s); simpl in Hin; try tauto; repeat (destruct Hin as [<- | Hin]; [exact I|]); destruct Hin.
    - destruct (kind_of_src d s); simpl in Hin; try tauto; repeat (destruct Hin as [<- | Hin]; [exact I|]); destruct Hin.
    - destruct Hin.
    - destruct k as [|[l|]|u]; destruct o; simpl in Hin; try tauto; destruct Hin as [<- | []]; exact I.
  Qed.

  Lemma trig_first_wf : forall e g, In e (all_elems f) -> In g (trig_first d e) -> trig_wf f g.
  Proof.
    intros e g He Hin. destruct e as [l ld|kw rs ex|s|s|a b|n p k o dflt];
      try (eapply (trig_of_wf _ g); exact Hin).
    cbn [trig_first] in Hin. destruct Hin as [<- | []]. simpl. right.
    unfold fmt_lits. apply in_flat_map. exists (ELit l ld). split; [exact He|left; reflexivity].
  Qed.

  Lemma dirs_steps : forall k rest,
    (forall e, In e (all_elems k) -> In e (all_elems f)) ->
    the_dict f <> None ->
    dirs_ok d k = true -> look_dirs d k = true -> rest_ok d f rest = true ->
    forall st, agree d i st ->
    exists tk st',
      print_fmt fx d i k = Some tk /\
      parse_dirs d k st (tk ++ rest) = Some (st', rest) /\
      agree d i st' /\ extends st st' /\ (forall e, In e (all_elems k) -> elem_done d i e st').
  Proof.
    induction k as [|x r IH]; intros rest Hsub Hdict Hok Hlook Hr st Ha.
    - exists [], st. split; [reflexivity|]. split; [reflexivity|]. split; [exact Ha|].
      split; [apply extends_refl|]. intros e [].
    - assert (forall e, In e (all_elems r) -> In e (all_elems f)) as Hsub'.
      { intros e He. apply Hsub. change (In e ((match x with DE e0 => [e0] | DGroup _ fe0 ts0 => fe0 :: ts0 end) ++ all_elems r)).
        apply in_or_app. right; exact He. }
      cbn [dirs_ok forallb] in Hok. unfold dirs_ok in Hok. simpl in Hok.
      apply andb_true_iff in Hok. destruct Hok as [Hokx Hokr].
      assert (dirs_ok d r = true) as Hokr' by exact Hokr.
      pose proof (dirs_groups_ok r Hokr') as Hgr.
      destruct x as [e|a fe ts].
      + cbn [look_dirs] in Hlook. apply andb_true_iff in Hlook. destruct Hlook as [Hl1 Hl2].
        destruct (IH rest Hsub' Hdict Hokr' Hl2 Hr st Ha) as [tr [_ [Hpr _]]].
        assert (In e (all_elems f)) as Hein by (apply Hsub; change (In e ([e] ++ all_elems r)); left; reflexivity).
        assert (untrig (trig_of d e) (tr ++ rest)) as Hu.
        { apply (nf_all_untrig fx d f i (trig_of d e) r tr rest Hio); auto. intros g Hg; eapply trig_of_wf; exact Hg. }
        destruct (top_elem_step e Hein Hdict Hokx st (tr ++ rest) Ha Hu) as [te [flag [st1 [Hpe [Hpa [_ [Ha1 [He1 Hd1]]]]]]]].
        destruct (IH rest Hsub' Hdict Hokr' Hl2 Hr st1 Ha1) as [tr' [st2 [Hpr' [Hpa2 [Ha2 [He2 Hd2]]]]]].
        rewrite Hpr in Hpr'. inversion Hpr'; subst tr'.
        exists (te ++ tr), st2. split.
        { cbn [print_fmt print_dir]. rewrite Hpe, Hpr. reflexivity. }
        split.
        { cbn [parse_dirs parse_dir]. rewrite <- app_assoc. rewrite Hpa. exact Hpa2. }
        split; [exact Ha2|]. split; [eapply extends_trans; eassumption|].
        intros e' He'. change (In e' ([e] ++ all_elems r)) in He'. destruct He' as [<- | He'].
        * eapply (elem_done_mono d i e st1 st2); eassumption.
        * apply Hd2. exact He'.
      + cbn [look_dirs] in Hlook. apply andb_true_iff in Hlook. destruct Hlook as [Hlook Hl3].
        apply andb_true_iff in Hlook. destruct Hlook as [Hl1 Hl2].
        destruct (IH rest Hsub' Hdict Hokr' Hl3 Hr st Ha) as [tr [_ [Hpr _]]].
        assert (forall e, In e (fe :: ts) -> In e (all_elems f)) as Hgin.
        { intros e He. apply Hsub. change (In e ((fe :: ts) ++ all_elems r)). apply in_or_app. left; exact He. }
        assert (exists tg st1,
                  print_dir fx d i (DGroup a fe ts) = Some tg /\
                  parse_dir d (DGroup a fe ts) st (tg ++ tr ++ rest) = Some (st1, tr ++ rest) /\
                  agree d i st1 /\ extends st st1 /\ (forall e, In e (fe :: ts) -> elem_done d i e st1))
          as [tg [st1 [Hpg [Hpa [Ha1 [He1 Hd1]]]]]].
        { destruct (anchor_present i a) eqn:Ean.
          - apply (group_present_step a fe ts r tr rest); auto.
          - assert (untrig (trig_first d fe) (tr ++ rest)) as Hu.
            { apply (nf_all_untrig fx d f i (trig_first d fe) r tr rest Hio); auto.
              intros g Hg; eapply trig_first_wf; [|exact Hg]. apply Hgin; left; reflexivity. }
            destruct (group_absent_step a fe ts (tr ++ rest) st Hokx Ean Hu Ha) as [st1 H].
            exists [], st1. split; [cbn [print_dir]; rewrite Ean; reflexivity|]. exact H. }
        destruct (IH rest Hsub' Hdict Hokr' Hl3 Hr st1 Ha1) as [tr' [st2 [Hpr' [Hpa2 [Ha2 [He2 Hd2]]]]]].
        rewrite Hpr in Hpr'. inversion Hpr'; subst tr'.
        exists (tg ++ tr), st2. split.
        { cbn [print_fmt]. rewrite Hpg, Hpr. reflexivity. }
        split.
        { cbn [parse_dirs]. rewrite <- app_assoc. rewrite Hpa. exact Hpa2. }
        split; [exact Ha2|]. split; [eapply extends_trans; eassumption|].
        intros e' He'. change (In e' ((fe :: ts) ++ all_elems r)) in He'. apply in_app_or in He'. destruct He' as [He' | He'].
        * eapply (elem_done_mono d i e' st1 st2); try eassumption. apply Hd1. exact He'.
        * apply Hd2. exact He'.
  Qed.
End Main.

(* ------------------------------------------------------------------ from `done` to final_cov *)
Lemma nodup_strs_NoDup : forall l, nodup_strs l = true -> NoDup l.
Proof.
  induction l as [|x r IH]; simpl; intro H; [constructor|].
  apply andb_true_iff in H. destruct H as [Hx Hr]. constructor; [|apply IH; exact Hr].
  intro Hin. apply mem_In in Hin. rewrite Hin in Hx. discriminate.
Qed.

Lemma existsb_In : forall A (g : A -> bool) l, existsb g l = true -> exists x, In x l /\ g x = true.
Proof. intros A g l H. apply existsb_exists in H. exact H. Qed.

Lemma all_set_isset : forall A (l : list (option A)) k, all_set l -> k < length l -> isset l k.
Proof. intros A l k H Hk. apply H; exact Hk. Qed.

Lemma attr_decl_default : forall d n p k o dflt,
  attr_decl_ok d n p k o dflt = true -> adef_default (if p then od_props d else od_attrs d) n = dflt.
Proof.
  intros d n p k o dflt H. unfold attr_decl_ok, the_adef in H. unfold adef_default.
  destruct (find_adef n (if p then od_props d else od_attrs d)) as [a|]; [|discriminate].
  apply andb_true_iff in H. destruct H as [H _]. apply andb_true_iff in H. destruct H as [_ H].
  apply opt_av_eqb_eq in H. exact H.
Qed.

(* every attribute variable of a checked format carries its definition's default *)
Lemma elem_decl_ok : forall d f e n p k o dflt,
  dirs_ok d f = true -> In e (all_elems f) -> e = EAttr n p k o dflt -> attr_decl_ok d n p k o dflt = true.
Proof.
  intros d f e n p k o dflt Hok Hin ->. unfold dirs_ok in Hok. rewrite forallb_forall in Hok.
  unfold all_elems in Hin. apply in_flat_map in Hin. destruct Hin as [x [Hx He]].
  specialize (Hok x Hx). destruct x as [e'|a fe ts].
  - destruct He as [-> | []]. cbn [elem_top_ok] in Hok. apply andb_true_iff in Hok. tauto.
  - unfold group_ok in Hok. destruct a as [s|s|n' p' dflt'].
    + repeat (apply andb_true_iff in Hok; destruct Hok as [Hok ?]).
      destruct He as [-> | He]; [discriminate|].
      match goal with H : forallb (elem_in_src_group d s) ts = true |- _ => rewrite forallb_forall in H; specialize (H _ He); discriminate end.
    + repeat (apply andb_true_iff in Hok; destruct Hok as [Hok ?]).
      destruct He as [-> | He]; [discriminate|].
      match goal with H : forallb (elem_in_src_group d s) ts = true |- _ => rewrite forallb_forall in H; specialize (H _ He); discriminate end.
    + apply andb_true_iff in Hok. destruct Hok as [Hok _]. apply andb_true_iff in Hok. destruct Hok as [Hf Ht].
      destruct He as [-> | He].
      * destruct k; try discriminate. destruct o; try discriminate.
        repeat (apply andb_true_iff in Hf; destruct Hf as [Hf ?]). assumption.
      * rewrite forallb_forall in Ht. specialize (Ht _ He). cbn [elem_in_attr_group] in Ht.
        repeat (apply andb_true_iff in Ht; destruct Ht as [Ht ?]). assumption.
Qed.

Lemma the_dict_In : forall f kw r x, the_dict f = Some (kw, r, x) -> In (EAttrDict kw r x) (all_elems f).
Proof.
  intros f kw r x H. unfold the_dict in H.
  set (isd := fun e => match e with EAttrDict _ _ _ => true | _ => false end) in H.
  destruct (filter isd (all_elems f)) as [|e0 [|e1 rr]] eqn:E; try discriminate.
  - destruct e0; try discriminate.
    destruct (filter isd (top_elems f)) as [|t0 [|t1 tr]]; try discriminate.
    inversion H; subst.
    assert (In (EAttrDict kw r x) (filter isd (all_elems f))) as Hin by (rewrite E; left; reflexivity).
    apply filter_In in Hin. tauto.
  - destruct e0; discriminate.
Qed.

Lemma find_adef_name : forall n l, In n (adef_names l) -> exists a, find_adef n l = Some a.
Proof.
  intros n l H. unfold adef_names in H. apply in_map_iff in H. destruct H as [a [Hn Hin]].
  unfold find_adef. destruct (find (fun a0 => String.eqb (ad_name a0) n) l) as [b|] eqn:E; [eexists; reflexivity|].
  exfalso. apply (find_none _ _ E a) in Hin. rewrite Hn, String.eqb_refl in Hin. discriminate.
Qed.

Lemma final_cov_of_done : forall d f i st,
  IOK d i -> dirs_ok d f = true -> attrs_ok d f = true ->
  (forall n a, In (n, a) (i_attrs i) -> ~ In n (dropped_names f) /\ ~ In n (expected_names f)) ->
  agree d i st -> (forall e, In e (all_elems f) -> elem_done d i e st) ->
  final_cov d f i st.
Proof.
  intros d f i st Hio Hok Hat Hside Ha Hdone.
  unfold attrs_ok in Hat. destruct (the_dict f) as [[[kw R] E]|] eqn:Hd; [|discriminate].
  pose proof (the_dict_In f kw R E Hd) as Hdin.
  apply andb_true_iff in Hat; destruct Hat as [Hat _].
  apply andb_true_iff in Hat; destruct Hat as [Hat _].
  apply andb_true_iff in Hat; destruct Hat as [Hat HER].
  apply andb_true_iff in Hat; destruct Hat as [Hat Hdisj].
  apply andb_true_iff in Hat; destruct Hat as [Hat HresE].
  apply andb_true_iff in Hat; destruct Hat as [Hbound HexpP].
  assert (expected_names f = E) as HEn by (unfold expected_names; rewrite Hd; reflexivity).
  assert (dropped_names f = filter (fun n => negb (existsb (binds_attr n false) (all_elems f))) R) as HDn
    by (unfold dropped_names; rewrite Hd; reflexivity).
  (* a bound attribute is done with its definition's default *)
  assert (forall n p a, existsb (binds_attr n p) (all_elems f) = true -> attr_of i n p = Some a ->
            is_default a (adef_default (if p then od_props d else od_attrs d) n) = true
            \/ lookup n (if p then p_props st else p_attrs st) = Some a) as Hb.
  { intros n p a Hex Hatt. apply existsb_exists in Hex. destruct Hex as [e [Hein Hbe]].
    destruct e as [l ld|kw' rs ex|s|s|x y|n' p' k o dflt]; cbn [binds_attr] in Hbe; try discriminate.
    apply andb_true_iff in Hbe. destruct Hbe as [Hn Hp]. apply String.eqb_eq in Hn. apply eqb_prop in Hp. subst n' p'.
    pose proof (Hdone _ Hein) as Hde. cbn [elem_done] in Hde.
    pose proof (elem_decl_ok d f _ n p k o dflt Hok Hein eq_refl) as Hdecl.
    rewrite (attr_decl_default d n p k o dflt Hdecl).
    exact (Hde a Hatt). }
  destruct (Hdone _ Hdin) as [Hdict1 Hdict2].
  unfold final_cov. split; [|split; [|split; [|split]]].
  - intros k Hk Hex. apply existsb_exists in Hex. destruct Hex as [e [Hein Hs]].
    pose proof (Hdone _ Hein) as Hde.
    destruct e as [l ld|kw' rs ex|s|s|x y|n' p' k' o dflt]; cbn [sets_vals] in Hs; try discriminate.
    destruct s as [j|j| |]; try discriminate.
    + apply Nat.eqb_eq in Hs. subst j. exact Hde.
    + apply Hde. rewrite (ag_len_v _ _ _ Ha). exact Hk.
  - intros k Hk Hex. apply existsb_exists in Hex. destruct Hex as [e [Hein Hs]].
    pose proof (Hdone _ Hein) as Hde.
    destruct e as [l ld|kw' rs ex|s|s|x y|n' p' k' o dflt]; cbn [sets_otys] in Hs; try discriminate.
    + destruct s as [j|j| |]; try discriminate.
      * apply Nat.eqb_eq in Hs. subst j. exact Hde.
      * apply Hde. rewrite (ag_len_o _ _ _ Ha). exact Hk.
    + destruct Hde as [Hde _]. destruct x as [j|j| |]; try discriminate.
      * apply Nat.eqb_eq in Hs. subst j. exact Hde.
      * apply Hde. rewrite (ag_len_o _ _ _ Ha). exact Hk.
  - intros k Hk Hex. apply existsb_exists in Hex. destruct Hex as [e [Hein Hs]].
    pose proof (Hdone _ Hein) as Hde.
    destruct e as [l ld|kw' rs ex|s|s|x y|n' p' k' o dflt]; cbn [sets_rtys] in Hs; try discriminate.
    + destruct s as [j|j| |]; try discriminate.
      * apply Nat.eqb_eq in Hs. subst j. exact Hde.
      * apply Hde. rewrite (ag_len_r _ _ _ Ha). exact Hk.
    + destruct Hde as [_ Hde]. destruct y as [j|j| |]; try discriminate.
      * apply Nat.eqb_eq in Hs. subst j. exact Hde.
      * apply Hde. rewrite (ag_len_r _ _ _ Ha). exact Hk.
  - (* properties *)
    intros n a Hl.
    destruct (io_pv _ _ Hio n a (lookup_In _ _ _ Hl)) as [Hname _].
    destruct (find_adef_name n (od_props d) Hname) as [df Hdf].
    destruct (find_adef_In n _ _ Hdf) as [Hdfin Hdfn].
    rewrite forallb_forall in Hbound. specialize (Hbound df Hdfin). rewrite Hdfn in Hbound.
    apply orb_true_iff in Hbound. destruct Hbound as [Hbd | HinE].
    + destruct (Hb n true a Hbd Hl) as [H | H]; [right; exact H | left; exact H].
    + apply mem_In in HinE.
      assert (~ In n R) as HnR.
      { rewrite forallb_forall in HER. specialize (HER n HinE). apply negb_true_iff in HER.
        intro Hc. apply mem_In in Hc. rewrite Hc in HER. discriminate. }
      destruct (Hdict2 n a Hl HinE HnR) as [H | H]; [left; exact H | right].
      unfold dict_default_eq, dict_def in H.
      assert (find_adef n (od_attrs d) = None) as Hna.
      { destruct (find_adef n (od_attrs d)) as [da|] eqn:Eda; [|reflexivity].
        destruct (find_adef_In n _ _ Eda) as [Hdain Hdan].
        rewrite forallb_forall in Hdisj. specialize (Hdisj da Hdain). rewrite Hdan in Hdisj.
        apply negb_true_iff in Hdisj. apply mem_In in Hname. rewrite Hname in Hdisj. discriminate. }
      rewrite Hna in H. apply mem_In in HinE. rewrite HinE in H. rewrite Hdf in H.
      unfold adef_default. rewrite Hdf. exact H.
  - (* attributes *)
    intros n a Hl.
    destruct (Hside n a (lookup_In _ _ _ Hl)) as [Hnd HnE].
    destruct (in_dec string_dec n R) as [HR | HnR].
    + assert (existsb (binds_attr n false) (all_elems f) = true) as Hbd.
      { destruct (existsb (binds_attr n false) (all_elems f)) eqn:Eb; [reflexivity|].
        exfalso. apply Hnd. rewrite HDn. apply filter_In. split; [exact HR|]. rewrite Eb. reflexivity. }
      destruct (Hb n false a Hbd Hl) as [H | H]; [right; exact H | left; exact H].
    + destruct (Hdict1 n a Hl HnR) as [H | H]; [left; exact H | right].
      unfold dict_default_eq, dict_def in H. unfold adef_default.
      destruct (find_adef n (od_attrs d)) as [da|]; [exact H|].
      rewrite HEn in HnE.
      destruct (mem n E) eqn:Em; [apply mem_In in Em; contradiction | discriminate].
Qed.

(* ------------------------------------------------------------------ the round-trip theorem *)
Theorem c05_sound : forall fx d f i rest,
  fmt_ok d f = true -> inst_ok d i = true -> side_ok fx f i = true -> rest_ok d f rest = true ->
  exists ts i',
    print_fmt fx d i f = Some ts /\
    parse_fmt d f (ts ++ rest) = Some (i', rest) /\
    inst_equiv d i' i.
Proof.
  intros fx d f i rest Hfmt Hinst Hside Hrest.
  unfold fmt_ok, fmt_code in Hfmt.
  destruct (dirs_ok d f) eqn:Hdirs; [|discriminate]. simpl in Hfmt.
  destruct (look_dirs d f) eqn:Hlook; [|discriminate]. simpl in Hfmt.
  destruct (coverage_ok d f) eqn:Hcov; [|discriminate]. simpl in Hfmt.
  destruct (attrs_ok d f) eqn:Hattrs; [|discriminate]. clear Hfmt.
  pose proof (inst_ok_IOK d i Hinst) as Hio.
  unfold side_ok in Hside.
  apply andb_true_iff in Hside. destruct Hside as [Hside Hsattrs].
  apply andb_true_iff in Hside. destruct Hside as [Hsfun Hsshort].
  assert (fx = true \/ funty_ok i f = true) as Hfunty by (apply orb_true_iff; exact Hsfun).
  assert (forall e, In e (all_elems f) -> short_lead_ok i e = true) as Hshort
    by (rewrite forallb_forall in Hsshort; exact Hsshort).
  assert (forall n a, In (n, a) (i_attrs i) -> ~ In n (dropped_names f) /\ ~ In n (expected_names f)) as Hsd.
  { intros n a Hin. rewrite forallb_forall in Hsattrs. specialize (Hsattrs (n, a) Hin). simpl in Hsattrs.
    apply andb_true_iff in Hsattrs. destruct Hsattrs as [H1 H2].
    apply negb_true_iff in H1. apply negb_true_iff in H2.
    split; intro Hc; apply mem_In in Hc; congruence. }
  assert (the_dict f <> None) as Hdict.
  { unfold attrs_ok in Hattrs. destruct (the_dict f); [discriminate|discriminate]. }
  destruct (dirs_steps fx d f i Hio Hfunty Hshort (fun n a H => proj2 (Hsd n a H)) f rest
              (fun e H => H) Hdict Hdirs Hlook Hrest (init_pst d) (agree_init d i))
    as [ts [st' [Hp [Hpa [Ha [_ Hdone]]]]]].
  pose proof (final_cov_of_done d f i st' Hio Hdirs Hattrs Hsd Ha Hdone) as Hfc.
  assert (NoDup (map ad_name (od_props d)) /\ NoDup (map ad_name (od_attrs d))) as [Np Na].
  { unfold attrs_ok in Hattrs. destruct (the_dict f) as [[[kw R] E]|]; [|discriminate].
    apply andb_true_iff in Hattrs; destruct Hattrs as [Hattrs N2].
    apply andb_true_iff in Hattrs; destruct Hattrs as [_ N1].
    split; apply nodup_strs_NoDup; assumption. }
  destruct (finish_ok d f i st' Np Na Hdirs Hinst Hcov Ha Hfc) as [i' [Hfin Heq]].
  exists ts, i'. split; [exact Hp|]. split; [|exact Heq].
  unfold parse_fmt. rewrite Hpa, Hfin. reflexivity.
Qed.

Print Assumptions c05_sound.
