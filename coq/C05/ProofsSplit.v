(* C05/ProofsSplit.v -- split_segs (the `operands` / `results` directives) inverts concat on
   segment lists accepted by build_sizes_ok, and conversely every successful split is a
   partition of the flat list with one segment per definition. *)
From Coq Require Import ZArith String Bool Arith List Lia.
From XV Require Import C05.Model.
Import ListNotations.
Local Open Scope list_scope.

(* ------------------------------------------------------------------ kind-level facts *)
Lemma count_before_lt : forall ks : list kind,
  1 <= length (filter is_varlike ks) -> count_before ks < length ks.
Proof.
  induction ks as [|k t IH]; simpl; intros H.
  - lia.
  - destruct (is_varlike k) eqn:E; simpl in *.
    + lia.
    + specialize (IH H). lia.
Qed.

Lemma count_before_app : forall (kb : list kind) (k : kind) (ka : list kind),
  filter is_varlike kb = [] -> is_varlike k = true ->
  count_before (kb ++ k :: ka) = length kb.
Proof.
  induction kb as [|x t IH]; intros k ka Hf Hk; simpl.
  - rewrite Hk. reflexivity.
  - simpl in Hf. destruct (is_varlike x) eqn:E; [discriminate Hf|].
    rewrite (IH _ _ Hf Hk). reflexivity.
Qed.

Section Split.
Variable A : Type.

(* ------------------------------------------------------------------ split_fixed *)
Lemma split_fixed_sound : forall (n : nat) (l : list A) (ss : list (list A)) (r : list A),
  split_fixed n l = Some (ss, r) -> concat ss ++ r = l /\ length ss = n.
Proof.
  induction n as [|m IH]; intros l ss r H; simpl in H.
  - inversion H; subst. split; reflexivity.
  - destruct l as [|x t]; [discriminate H|].
    destruct (split_fixed m t) as [[ss' r']|] eqn:E; [|discriminate H].
    inversion H; subst ss r. destruct (IH _ _ _ E) as [H1 H2].
    split; simpl.
    + f_equal. exact H1.
    + f_equal. exact H2.
Qed.

Lemma split_core_sound : forall (nb na nv : nat) (l : list A) (segs : list (list A)),
  match split_fixed nb l with
  | Some (a, r) => match split_fixed na (skipn nv r) with
                   | Some (b, []) => Some (a ++ [firstn nv r] ++ b)
                   | _ => None
                   end
  | None => None
  end = Some segs ->
  concat segs = l /\ length segs = nb + 1 + na.
Proof.
  intros nb na nv l segs H.
  destruct (split_fixed nb l) as [[a r]|] eqn:Ea; [|discriminate H].
  destruct (split_fixed na (skipn nv r)) as [[b r']|] eqn:Eb; [|discriminate H].
  destruct r' as [|y r']; [|discriminate H].
  inversion H; subst segs.
  destruct (split_fixed_sound _ _ _ _ Ea) as [Ha1 Ha2].
  destruct (split_fixed_sound _ _ _ _ Eb) as [Hb1 Hb2].
  rewrite app_nil_r in Hb1.
  split.
  - rewrite concat_app. simpl. rewrite Hb1.
    rewrite firstn_skipn. exact Ha1.
  - rewrite app_length. simpl. lia.
Qed.

(* all definitions Single: every segment is a singleton *)
Lemma fixed_all_single : forall (vds : list vdef) (segs : list (list A)) (r : list A),
  build_sizes_ok vds segs = true ->
  filter is_varlike (map vd_kind vds) = [] ->
  split_fixed (length vds) (concat segs ++ r) = Some (segs, r)
  /\ length (concat segs) = length vds.
Proof.
  induction vds as [|v t IH]; intros segs r Hb Hf; destruct segs as [|s ss];
    simpl in Hb; try discriminate Hb.
  - simpl. split; reflexivity.
  - apply andb_prop in Hb. destruct Hb as [Hs Hb].
    simpl in Hf.
    destruct (vd_kind v) eqn:Ek; simpl in Hf; try discriminate Hf.
    apply Nat.eqb_eq in Hs.
    destruct s as [|x [|y s']]; simpl in Hs; try lia.
    destruct (IH ss r Hb Hf) as [H1 H2].
    simpl. rewrite H1. split; [reflexivity | lia].
Qed.

Lemma decomp : forall (vds : list vdef) (segs : list (list A)),
  build_sizes_ok vds segs = true ->
  length (filter is_varlike (map vd_kind vds)) = 1 ->
  exists vb v va sb s sa,
    vds = vb ++ v :: va /\ segs = sb ++ s :: sa /\
    build_sizes_ok vb sb = true /\ build_sizes_ok va sa = true /\
    filter is_varlike (map vd_kind vb) = [] /\ filter is_varlike (map vd_kind va) = [] /\
    is_varlike (vd_kind v) = true /\ (vd_kind v = KOpt -> length s <= 1).
Proof.
  induction vds as [|v t IH]; intros segs Hb Hl; [simpl in Hl; discriminate Hl|].
  destruct segs as [|s ss]; [simpl in Hb; discriminate Hb|].
  simpl in Hb. apply andb_prop in Hb. destruct Hb as [Hs Hb].
  simpl in Hl. destruct (is_varlike (vd_kind v)) eqn:Ev.
  - simpl in Hl. exists [], v, t, [], s, ss.
    split; [reflexivity|]. split; [reflexivity|]. split; [reflexivity|].
    split; [exact Hb|]. split; [reflexivity|].
    split; [apply length_zero_iff_nil; lia|].
    split; [exact Ev|].
    intro Ek. rewrite Ek in Hs. apply Nat.leb_le in Hs. exact Hs.
  - destruct (IH ss Hb Hl) as (vb & v' & va & sb & s' & sa & E1 & E2 & B1 & B2 & F1 & F2 & V & O).
    exists (v :: vb), v', va, (s :: sb), s', sa.
    split; [rewrite E1; reflexivity|]. split; [rewrite E2; reflexivity|].
    split; [simpl; apply andb_true_intro; split; assumption|].
    split; [exact B2|].
    split; [simpl; rewrite Ev; exact F1|].
    split; [exact F2|]. split; [exact V | exact O].
Qed.

Lemma split_segs_one : forall (kb ka : list kind) (k : kind) (sb sa : list (list A)) (s : list A),
  filter is_varlike kb = [] -> filter is_varlike ka = [] -> is_varlike k = true ->
  (k = KOpt -> length s <= 1) ->
  (forall r, split_fixed (length kb) (concat sb ++ r) = Some (sb, r)) ->
  length (concat sb) = length kb ->
  (forall r, split_fixed (length ka) (concat sa ++ r) = Some (sa, r)) ->
  length (concat sa) = length ka ->
  split_segs (kb ++ k :: ka) (concat (sb ++ s :: sa)) = Some (sb ++ s :: sa).
Proof.
  intros kb ka k sb sa s Hfb Hfa Hk Hopt Hsb Hlb Hsa Hla.
  unfold split_segs.
  assert (Hn : length (filter is_varlike (kb ++ k :: ka)) = 1).
  { rewrite filter_app. simpl. rewrite Hk, Hfb, Hfa. reflexivity. }
  rewrite Hn. cbv zeta.
  rewrite count_before_app by assumption.
  assert (Hlen : length (kb ++ k :: ka) - length kb - 1 = length ka).
  { rewrite app_length. simpl. lia. }
  rewrite Hlen.
  assert (Hc : concat (sb ++ s :: sa) = concat sb ++ (s ++ concat sa)).
  { rewrite concat_app. simpl. reflexivity. }
  rewrite Hc.
  assert (Hll : length (concat sb ++ s ++ concat sa) = length kb + length s + length ka).
  { rewrite !app_length. lia. }
  rewrite Hll.
  assert (Hlt : (length kb + length s + length ka <? length kb + length ka) = false).
  { apply Nat.ltb_ge. lia. }
  rewrite Hlt.
  assert (Hnv : length kb + length s + length ka - length kb - length ka = length s) by lia.
  rewrite Hnv.
  assert (Hnth : nth (length kb) (kb ++ k :: ka) KSingle = k).
  { rewrite app_nth2 by lia. rewrite Nat.sub_diag. reflexivity. }
  rewrite Hnth.
  rewrite (Hsb (s ++ concat sa)).
  assert (Hsk : skipn (length s) (s ++ concat sa) = concat sa).
  { rewrite skipn_app, Nat.sub_diag, skipn_all. simpl. reflexivity. }
  assert (Hfi : firstn (length s) (s ++ concat sa) = s).
  { rewrite firstn_app, Nat.sub_diag, firstn_all. simpl. apply app_nil_r. }
  rewrite Hsk, Hfi.
  pose proof (Hsa []) as Hsa0. rewrite app_nil_r in Hsa0.
  rewrite Hsa0.
  destruct k; [discriminate Hk| |reflexivity].
  assert (H1 : (1 <? length s) = false).
  { apply Nat.ltb_ge. apply Hopt. reflexivity. }
  rewrite H1. reflexivity.
Qed.

End Split.

(* ------------------------------------------------------------------ main statements *)
Lemma split_segs_concat : forall (A : Type) (vds : list vdef) (segs : list (list A)),
  build_sizes_ok vds segs = true ->
  length (filter is_varlike (kinds vds)) <= 1 ->
  split_segs (kinds vds) (concat segs) = Some segs.
Proof.
  intros A vds segs Hb Hl. unfold kinds in *.
  assert (Hn : length (filter is_varlike (map vd_kind vds)) = 0
               \/ length (filter is_varlike (map vd_kind vds)) = 1) by lia.
  destruct Hn as [Hn0|Hn1].
  - assert (Hn : filter is_varlike (map vd_kind vds) = []).
    { apply length_zero_iff_nil. exact Hn0. }
    destruct (fixed_all_single A vds segs [] Hb Hn) as [H1 H2].
    rewrite app_nil_r in H1.
    unfold split_segs. rewrite Hn0. rewrite map_length. rewrite H1. reflexivity.
  - destruct (decomp A vds segs Hb Hn1)
      as (vb & v & va & sb & s & sa & E1 & E2 & B1 & B2 & F1 & F2 & V & O).
    rewrite E1, E2. rewrite map_app.
    change (map vd_kind (v :: va)) with (vd_kind v :: map vd_kind va).
    apply split_segs_one; try assumption.
    + intro r. rewrite map_length. apply (fixed_all_single A vb sb r B1 F1).
    + rewrite map_length. apply (fixed_all_single A vb sb [] B1 F1).
    + intro r. rewrite map_length. apply (fixed_all_single A va sa r B2 F2).
    + rewrite map_length. apply (fixed_all_single A va sa [] B2 F2).
Qed.

Lemma split_segs_nil : forall (A : Type) (vds : list vdef),
  forallb is_varlike (kinds vds) = true ->
  length (filter is_varlike (kinds vds)) <= 1 ->
  split_segs (A := A) (kinds vds) [] = Some (map (fun _ => []) vds).
Proof.
  intros A vds Hall Hl. unfold kinds in *.
  destruct vds as [|v [|v' t]].
  - reflexivity.
  - simpl in Hall. change (map vd_kind [v]) with [vd_kind v].
    destruct (vd_kind v) eqn:Ek; simpl in Hall; try discriminate Hall; reflexivity.
  - simpl in Hall.
    apply andb_prop in Hall. destruct Hall as [Hv Hall].
    apply andb_prop in Hall. destruct Hall as [Hv' Hall].
    simpl in Hl. rewrite Hv in Hl. simpl in Hl. rewrite Hv' in Hl. simpl in Hl. lia.
Qed.

(* the converse direction used for parsing a single type into `results`/`operands` *)
Lemma split_segs_sound : forall (A : Type) (ks : list kind) (l : list A) segs,
  split_segs ks l = Some segs -> concat segs = l /\ length segs = length ks.
Proof.
  intros A ks l segs H. unfold split_segs in H.
  destruct (length (filter is_varlike ks)) as [|[|n]] eqn:Hn; [| |discriminate H].
  - destruct (split_fixed (length ks) l) as [[ss r]|] eqn:E; [|discriminate H].
    destruct r as [|y r]; [|discriminate H].
    inversion H; subst ss.
    destruct (split_fixed_sound A _ _ _ _ E) as [H1 H2].
    rewrite app_nil_r in H1. split; assumption.
  - assert (Hlt : count_before ks < length ks) by (apply count_before_lt; lia).
    cbv zeta in H.
    destruct (length l <? count_before ks + (length ks - count_before ks - 1)) eqn:Hl;
      [discriminate H|].
    assert (Hgoal : concat segs = l
                    /\ length segs = count_before ks + 1 + (length ks - count_before ks - 1)).
    { destruct (nth (count_before ks) ks KSingle) eqn:Ek.
      - apply split_core_sound in H. exact H.
      - destruct (1 <? length l - count_before ks - (length ks - count_before ks - 1)) eqn:H1;
          [discriminate H|].
        apply split_core_sound in H. exact H.
      - apply split_core_sound in H. exact H. }
    destruct Hgoal as [G1 G2]. split; [exact G1 | lia].
Qed.

Print Assumptions split_segs_concat.
Print Assumptions split_segs_nil.
Print Assumptions split_segs_sound.
