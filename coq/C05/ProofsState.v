(* C05/ProofsState.v -- the facts carried through the parse: what inst_ok gives, and how every state
   update preserves `agree`, only `extends` the state, and makes an element `done`. *)
From Coq Require Import ZArith String Bool Arith List Lia.
From XV Require Import C05.Model C05.Check C05.ProofsBase.
Import ListNotations.
Local Open Scope string_scope.
Local Open Scope list_scope.

(* ------------------------------------------------------------------ inst_ok, taken apart *)
Record IOK (d : opdef) (i : inst) : Prop := mkIOK {
  io_osz : build_sizes_ok (od_operands d) (i_operands i) = true;
  io_rsz : build_sizes_ok (od_results d) (i_results i) = true;
  io_oty : forall seg vt, In seg (i_operands i) -> In vt seg -> starts_type (av_full (snd vt)) = true;
  io_rty : forall seg t, In seg (i_results i) -> In t seg -> starts_type (av_full t) = true;
  io_pnd : nodup_keys (i_props i) = true;
  io_and : nodup_keys (i_attrs i) = true;
  io_pv : forall n a, In (n, a) (i_props i) ->
            In n (adef_names (od_props d)) /\ ~ In n (od_hidden d) /\ starts_attr (av_full a) = true;
  io_av : forall n a, In (n, a) (i_attrs i) -> ~ In n (od_hidden d) /\ starts_attr (av_full a) = true;
  io_pdef : forall a, In a (od_props d) -> adef_inst_ok (i_props i) a = true;
  io_adef : forall a, In a (od_attrs d) -> adef_inst_ok (i_attrs i) a = true
}.

Lemma inst_ok_IOK : forall d i, inst_ok d i = true -> IOK d i.
Proof.
  intros d i H. unfold inst_ok in H.
  repeat (apply andb_true_iff in H; destruct H as [H ?]).
  constructor; try assumption.
  - intros seg vt Hs Hv.
    match goal with Hf : forallb _ (i_operands i) = true |- _ => rewrite forallb_forall in Hf; specialize (Hf seg Hs);
      rewrite forallb_forall in Hf; exact (Hf vt Hv) end.
  - intros seg t Hs Ht.
    match goal with Hf : forallb _ (i_results i) = true |- _ => rewrite forallb_forall in Hf; specialize (Hf seg Hs);
      rewrite forallb_forall in Hf; exact (Hf t Ht) end.
  - intros n a Hin.
    match goal with Hf : forallb _ (i_props i) = true |- _ => rewrite forallb_forall in Hf; specialize (Hf (n, a) Hin) end.
    cbn [fst snd] in *.
    repeat match goal with Hc : _ && _ = true |- _ => apply andb_true_iff in Hc; destruct Hc end.
    repeat split.
    + apply mem_In; assumption.
    + intro Hh. apply mem_In in Hh.
      match goal with Hn : negb _ = true |- _ => rewrite Hh in Hn; discriminate end.
    + assumption.
  - intros n a Hin.
    match goal with Hf : forallb _ (i_attrs i) = true |- _ => rewrite forallb_forall in Hf; specialize (Hf (n, a) Hin) end.
    cbn [fst snd] in *.
    repeat match goal with Hc : _ && _ = true |- _ => apply andb_true_iff in Hc; destruct Hc end.
    split.
    + intro Hh. apply mem_In in Hh.
      match goal with Hn : negb _ = true |- _ => rewrite Hh in Hn; discriminate end.
    + assumption.
  - intros a Hin.
    match goal with Hf : forallb (adef_inst_ok (i_props i)) _ = true |- _ => rewrite forallb_forall in Hf; exact (Hf a Hin) end.
  - intros a Hin.
    match goal with Hf : forallb (adef_inst_ok (i_attrs i)) _ = true |- _ => rewrite forallb_forall in Hf; exact (Hf a Hin) end.
Qed.

Definition kind_len (k : kind) (n : nat) : Prop :=
  match k with KSingle => n = 1 | KOpt => n <= 1 | KVar => True end.

Lemma build_sizes_length : forall A vds (segs : list (list A)),
  build_sizes_ok vds segs = true -> length segs = length vds.
Proof.
  induction vds as [|vd r IH]; intros [|s rs] H; simpl in *; try discriminate; auto.
  apply andb_true_iff in H; destruct H as [_ H]. f_equal; apply IH; exact H.
Qed.
Lemma build_sizes_nth : forall A vds (segs : list (list A)) k vd,
  build_sizes_ok vds segs = true -> nth_error vds k = Some vd ->
  kind_len (vd_kind vd) (length (nth k segs [])).
Proof.
  induction vds as [|v r IH]; intros [|s rs] k vd H Hn; simpl in *; try discriminate.
  - destruct k; discriminate.
  - apply andb_true_iff in H; destruct H as [H1 H2].
    destruct k as [|k]; simpl in *.
    + inversion Hn; subst. destruct (vd_kind vd); simpl.
      * apply Nat.eqb_eq; exact H1.
      * apply Nat.leb_le; exact H1.
      * exact I.
    + eapply IH; eassumption.
Qed.
Lemma build_sizes_map : forall A B (g : A -> B) vds (segs : list (list A)),
  build_sizes_ok vds segs = true -> build_sizes_ok vds (map (map g) segs) = true.
Proof.
  induction vds as [|v r IH]; intros [|s rs] H; simpl in *; try discriminate; auto.
  apply andb_true_iff in H; destruct H as [H1 H2].
  rewrite map_length, H1. simpl. apply IH; exact H2.
Qed.

(* ------------------------------------------------------------------ extends *)
Record extends (st st' : pst) : Prop := mkExt {
  ex_v : forall k, isset (p_vals st) k -> isset (p_vals st') k;
  ex_o : forall k, isset (p_otys st) k -> isset (p_otys st') k;
  ex_r : forall k, isset (p_rtys st) k -> isset (p_rtys st') k;
  ex_p : forall n, lookup n (p_props st) <> None -> lookup n (p_props st') <> None;
  ex_a : forall n, lookup n (p_attrs st) <> None -> lookup n (p_attrs st') <> None
}.
Lemma extends_refl : forall st, extends st st.
Proof. intro st; constructor; auto. Qed.
Lemma extends_trans : forall a b c, extends a b -> extends b c -> extends a c.
Proof. intros a b c [] []; constructor; auto. Qed.

Lemma isset_set_nth : forall A (l : list (option A)) k x, k < length l -> isset (set_nth k (Some x) l) k.
Proof. intros A l k x H; exists x; apply nth_error_set_nth_eq; exact H. Qed.
Lemma isset_set_nth_mono : forall A (l : list (option A)) k x j, isset l j -> isset (set_nth k (Some x) l) j.
Proof.
  intros A l k x j [y Hy]. destruct (Nat.eq_dec k j) as [->|Hne].
  - exists x. apply nth_error_set_nth_eq. apply nth_error_Some. rewrite Hy; discriminate.
  - exists y. rewrite nth_error_set_nth_neq; assumption.
Qed.
Definition all_set {A} (l : list (option A)) : Prop := forall k, k < length l -> isset l k.
Lemma isset_map_Some : forall A (segs : list A) k, k < length segs -> isset (map Some segs) k.
Proof.
  intros A segs k H. destruct (nth_error segs k) as [x|] eqn:E.
  - exists x. rewrite nth_error_map, E. reflexivity.
  - apply nth_error_None in E; lia.
Qed.
Lemma isset_lt : forall A (l : list (option A)) k, isset l k -> k < length l.
Proof. intros A l k [x Hx]. apply nth_error_Some. rewrite Hx; discriminate. Qed.

(* ------------------------------------------------------------------ updates preserve agree / extend *)
Lemma agree_set_vals : forall d i st k,
  agree d i st -> k < length (od_operands d) ->
  agree d i (set_vals k (vals_of i k) st) /\ extends st (set_vals k (vals_of i k) st)
  /\ isset (p_vals (set_vals k (vals_of i k) st)) k.
Proof.
  intros d i st k Ha Hk. destruct Ha as [lv lo lr av ao ar ap aa].
  repeat split; simpl; try assumption.
  - rewrite set_nth_length; exact lv.
  - intros j vs H. destruct (Nat.eq_dec k j) as [->|Hne].
    + rewrite nth_error_set_nth_eq in H by lia. inversion H; reflexivity.
    + rewrite nth_error_set_nth_neq in H by assumption. apply av; exact H.
  - intros j Hj; apply isset_set_nth_mono; exact Hj.
  - auto.
  - auto.
  - auto.
  - auto.
  - apply isset_set_nth; lia.
Qed.
Lemma agree_set_otys : forall d i st k,
  agree d i st -> k < length (od_operands d) ->
  agree d i (set_otys k (otys_of i k) st) /\ extends st (set_otys k (otys_of i k) st)
  /\ isset (p_otys (set_otys k (otys_of i k) st)) k.
Proof.
  intros d i st k Ha Hk. destruct Ha as [lv lo lr av ao ar ap aa].
  repeat split; simpl; try assumption.
  - rewrite set_nth_length; exact lo.
  - intros j vs H. destruct (Nat.eq_dec k j) as [->|Hne].
    + rewrite nth_error_set_nth_eq in H by lia. inversion H; reflexivity.
    + rewrite nth_error_set_nth_neq in H by assumption. apply ao; exact H.
  - auto.
  - intros j Hj; apply isset_set_nth_mono; exact Hj.
  - auto.
  - auto.
  - auto.
  - apply isset_set_nth; lia.
Qed.
Lemma agree_set_rtys : forall d i st k,
  agree d i st -> k < length (od_results d) ->
  agree d i (set_rtys k (rtys_of i k) st) /\ extends st (set_rtys k (rtys_of i k) st)
  /\ isset (p_rtys (set_rtys k (rtys_of i k) st)) k.
Proof.
  intros d i st k Ha Hk. destruct Ha as [lv lo lr av ao ar ap aa].
  repeat split; simpl; try assumption.
  - rewrite set_nth_length; exact lr.
  - intros j vs H. destruct (Nat.eq_dec k j) as [->|Hne].
    + rewrite nth_error_set_nth_eq in H by lia. inversion H; reflexivity.
    + rewrite nth_error_set_nth_neq in H by assumption. apply ar; exact H.
  - auto.
  - auto.
  - intros j Hj; apply isset_set_nth_mono; exact Hj.
  - auto.
  - auto.
  - apply isset_set_nth; lia.
Qed.

Lemma nth_map_nil : forall A B (g : A -> B) (l : list (list A)) k,
  nth k (map (map g) l) [] = map g (nth k l []).
Proof. intros. change (@nil B) with (map g (@nil A)). apply map_nth. Qed.

Lemma agree_set_all_vals : forall d i st,
  agree d i st -> length (i_operands i) = length (od_operands d) ->
  let st' := set_all_vals (map (map fst) (i_operands i)) st in
  agree d i st' /\ extends st st' /\ all_set (p_vals st').
Proof.
  intros d i st Ha Hl st'. destruct Ha as [lv lo lr av ao ar ap aa].
  repeat split; subst st'; simpl; try assumption.
  - rewrite !map_length; exact Hl.
  - intros k vs H. rewrite nth_error_map in H.
    destruct (nth_error (map (map fst) (i_operands i)) k) as [x|] eqn:E; simpl in H; [|discriminate].
    inversion H; subst. unfold vals_of. rewrite <- nth_map_nil.
    symmetry. apply nth_error_nth; exact E.
  - intros k Hk. apply isset_map_Some. rewrite map_length, Hl, <- lv. apply (isset_lt _ _ _ Hk).
  - auto.
  - auto.
  - auto.
  - auto.
  - intros k Hk. apply isset_map_Some. rewrite map_length in Hk; exact Hk.
Qed.
Lemma agree_set_all_otys : forall d i st,
  agree d i st -> length (i_operands i) = length (od_operands d) ->
  let st' := set_all_otys (map (map snd) (i_operands i)) st in
  agree d i st' /\ extends st st' /\ all_set (p_otys st').
Proof.
  intros d i st Ha Hl st'. destruct Ha as [lv lo lr av ao ar ap aa].
  repeat split; subst st'; simpl; try assumption.
  - rewrite !map_length; exact Hl.
  - intros k vs H. rewrite nth_error_map in H.
    destruct (nth_error (map (map snd) (i_operands i)) k) as [x|] eqn:E; simpl in H; [|discriminate].
    inversion H; subst. unfold otys_of. rewrite <- nth_map_nil.
    symmetry. apply nth_error_nth; exact E.
  - auto.
  - intros k Hk. apply isset_map_Some. rewrite map_length, Hl, <- lo. apply (isset_lt _ _ _ Hk).
  - auto.
  - auto.
  - auto.
  - intros k Hk. apply isset_map_Some. rewrite map_length in Hk; exact Hk.
Qed.
Lemma agree_set_all_rtys : forall d i st,
  agree d i st -> length (i_results i) = length (od_results d) ->
  let st' := set_all_rtys (i_results i) st in
  agree d i st' /\ extends st st' /\ all_set (p_rtys st').
Proof.
  intros d i st Ha Hl st'. destruct Ha as [lv lo lr av ao ar ap aa].
  repeat split; subst st'; simpl; try assumption.
  - rewrite !map_length; exact Hl.
  - intros k vs H. rewrite nth_error_map in H.
    destruct (nth_error (i_results i) k) as [x|] eqn:E; simpl in H; [|discriminate].
    inversion H; subst. unfold rtys_of. symmetry. apply nth_error_nth; exact E.
  - auto.
  - auto.
  - intros k Hk. apply isset_map_Some. rewrite Hl, <- lr. apply (isset_lt _ _ _ Hk).
  - auto.
  - auto.
  - intros k Hk. apply isset_map_Some. rewrite map_length in Hk; exact Hk.
Qed.

Lemma lookup_cons_ne : forall n m a dct, lookup n dct <> None -> lookup n ((m, a) :: dct) <> None.
Proof. intros n m a dct H; simpl. destruct (String.eqb m n); [discriminate | exact H]. Qed.

Lemma agree_set_attr : forall d i st p n a,
  agree d i st -> attr_of i n p = Some a ->
  agree d i (set_attr p n a st) /\ extends st (set_attr p n a st)
  /\ lookup n (if p then p_props (set_attr p n a st) else p_attrs (set_attr p n a st)) = Some a.
Proof.
  intros d i st p n a Ha Hat. destruct Ha as [lv lo lr av ao ar ap aa].
  unfold attr_of in Hat. destruct p; unfold set_attr; simpl.
  - repeat split; simpl; auto.
    + intros m b H. destruct (String.eqb n m) eqn:E.
      * apply String.eqb_eq in E; subst. inversion H; subst; exact Hat.
      * apply ap; exact H.
    + intros m Hm. apply lookup_cons_ne; exact Hm.
    + rewrite String.eqb_refl; reflexivity.
  - repeat split; simpl; auto.
    + intros m b H. destruct (String.eqb n m) eqn:E.
      * apply String.eqb_eq in E; subst. inversion H; subst; exact Hat.
      * apply aa; exact H.
    + intros m Hm. apply lookup_cons_ne; exact Hm.
    + rewrite String.eqb_refl; reflexivity.
Qed.
