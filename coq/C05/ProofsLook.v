(* C05/ProofsLook.v -- soundness of the lookahead analysis: when nf d g k holds, the first token
   printed by the directives k (or, when they print nothing, the token that follows the operation)
   does not match the trigger g. *)
From Coq Require Import ZArith String Bool Arith List Lia.
From XV Require Import C05.Model C05.Check C05.ProofsBase C05.ProofsTok C05.ProofsState C05.ProofsElem.
Import ListNotations.
Local Open Scope string_scope.
Local Open Scope list_scope.

Ltac tm := cbn [tok_matches tok_is_kw tok_lead is_lit starts_type starts_attr lead_eqb negb] in *.

(* literal triggers only ever name a literal of the format (or the keyword `attributes`) *)
Definition trig_wf (f : format) (g : atrig) : Prop :=
  match g with GLit s => In s ("attributes" :: fmt_lits f) | _ => True end.

Lemma follower_unmatched : forall d f g t,
  trig_wf f g -> is_follower d f t = true ->
  (if od_terminator d then follow_safe_term g else follow_safe g) = true ->
  tok_matches g t = false.
Proof.
  intros d f g t Hwf Hfol Hsafe.
  destruct t as [s l|v|a|a|kw dct]; cbn [is_follower] in Hfol; try discriminate.
  - apply andb_true_iff in Hfol. destruct Hfol as [Hl Hs].
    apply negb_true_iff in Hs.
    assert (forall s', In s' ("," :: "attributes" :: "(" :: "{" :: fmt_lits f) -> String.eqb s s' = false) as Hne.
    { intros s' Hin. destruct (String.eqb s s') eqn:E; [|reflexivity].
      apply String.eqb_eq in E; subst s'. apply mem_In in Hin. rewrite Hin in Hs; discriminate. }
    destruct g as [| | | |l'|s']; simpl.
    + reflexivity.
    + apply Hne. left; reflexivity.
    + destruct l; simpl in *; try reflexivity; discriminate.
    + destruct (od_terminator d); simpl in Hsafe; [|discriminate].
      destruct l; simpl in *; try reflexivity; discriminate.
    + destruct (od_terminator d); destruct l, l'; simpl in *; try reflexivity; try discriminate.
    + simpl in Hwf. apply Hne. destruct Hwf as [<- | Hin].
      * right; left; reflexivity.
      * right; right; right; right; exact Hin.
  - destruct (od_terminator d) eqn:Et; cbn [negb] in Hfol; [discriminate|].
    destruct g as [| | | |l'|s']; simpl in *; try reflexivity; try discriminate.
    destruct l'; simpl in *; try reflexivity; discriminate.
Qed.

(* what an element prints first *)
Lemma first_safe_sound : forall fx d i g e t r,
  IOK d i -> first_safe g e = true -> print_elem fx d i e = Some (t :: r) -> tok_matches g t = false.
Proof.
  intros fx d i g e t r Hio Hs Hp.
  destruct e as [s l|kw rs ex|s|s|a b|n p k o dflt]; cbn [print_elem first_safe] in *.
  - inversion Hp; subst. apply negb_true_iff in Hs; exact Hs.
  - destruct (existsb _ (i_attrs i)); [discriminate|].
    destruct (dict_shown d i rs ex) as [|e0 sh]; inversion Hp; subst.
    destruct kw; apply negb_true_iff in Hs.
    + destruct g as [| | | |l'|s']; tm; try reflexivity; try discriminate; try exact Hs.
      rewrite String.eqb_sym; exact Hs.
    + destruct g as [| | | |l'|s']; tm; try reflexivity; try discriminate; try exact Hs.
  - destruct (src_vals i s) as [vs|] eqn:Ev; cbn [option_map] in Hp; [|discriminate].
    destruct vs as [|v vr]; [discriminate|].
    change (map TVal (v :: vr)) with (TVal v :: map TVal vr) in Hp. rewrite sep_cons in Hp.
    inversion Hp; subst.
    destruct g as [| | | |l'|s']; tm; try reflexivity; try discriminate.
    destruct l'; tm; try reflexivity; discriminate.
  - destruct (src_types i s) as [|ty tr] eqn:Et; [discriminate|].
    change (map TAttr (ty :: tr)) with (TAttr ty :: map TAttr tr) in Hp. rewrite sep_cons in Hp.
    inversion Hp; subst.
    assert (starts_type (av_full ty) = true) as Hst.
    { eapply src_types_start; [eassumption|]. rewrite Et; left; reflexivity. }
    apply negb_true_iff in Hs.
    destruct g as [| | | |l'|s']; cbn [type_may_match] in Hs; tm; try reflexivity; try discriminate.
    destruct (av_full ty), l'; tm; try reflexivity; discriminate.
  - inversion Hp; subst. apply negb_true_iff in Hs; exact Hs.
  - destruct (attr_of i n p) as [a|]; [|discriminate].
    destruct (is_default a dflt); [discriminate|].
    destruct k as [|trig|u]; inversion Hp; subst.
    + apply negb_true_iff in Hs. destruct g; cbn [attr_may_match] in Hs; tm; try reflexivity; discriminate.
    + apply negb_true_iff in Hs. destruct g; cbn [attr_may_match] in Hs; tm; try reflexivity; discriminate.
Qed.

Lemma always_prints_nonempty : forall fx d i e ts,
  IOK d i -> always_prints d e = true -> print_elem fx d i e = Some ts -> ts <> [].
Proof.
  intros fx d i e ts Hio Hal Hp.
  destruct e as [s l|kw rs ex|s|s|a b|n p k o dflt]; cbn [print_elem always_prints] in *; try discriminate.
  - inversion Hp; discriminate.
  - destruct (src_kind d s) as [[| |]|] eqn:Ek; try discriminate.
    pose proof (src_kind_len d i s KSingle Hio Ek) as Hl. simpl in Hl.
    destruct s as [j|j| |]; simpl in *; try discriminate.
    inversion Hp; subst. rewrite map_length in Hl.
    destruct (map fst (nth j (i_operands i) [])) as [|v [|v2 vr]] eqn:E; simpl in *; try lia; try discriminate.
    apply (f_equal (@length Z)) in E. rewrite map_length in E. simpl in E. lia.
  - destruct (src_kind d s) as [[| |]|] eqn:Ek; try discriminate.
    pose proof (src_kind_len d i s KSingle Hio Ek) as Hl. simpl in Hl.
    inversion Hp; subst.
    destruct (src_types i s) as [|v [|v2 vr]]; simpl in *; try lia; discriminate.
  - inversion Hp; discriminate.
Qed.

(* ------------------------------------------------------------------ printing of lists *)
Lemma print_elems_app : forall fx d i a b,
  print_elems fx d i (a ++ b) =
  match print_elems fx d i a, print_elems fx d i b with
  | Some x, Some y => Some (x ++ y)
  | _, _ => None
  end.
Proof.
  induction a as [|e r IH]; intro b; simpl.
  - destruct (print_elems fx d i b); reflexivity.
  - rewrite IH. destruct (print_elem fx d i e); [|reflexivity].
    destruct (print_elems fx d i r); [|reflexivity].
    destruct (print_elems fx d i b); [|reflexivity].
    rewrite app_assoc; reflexivity.
Qed.
Lemma print_fmt_app : forall fx d i a b,
  print_fmt fx d i (a ++ b) =
  match print_fmt fx d i a, print_fmt fx d i b with
  | Some x, Some y => Some (x ++ y)
  | _, _ => None
  end.
Proof.
  induction a as [|e r IH]; intro b; simpl.
  - destruct (print_fmt fx d i b); reflexivity.
  - rewrite IH. destruct (print_dir fx d i e); [|reflexivity].
    destruct (print_fmt fx d i r); [|reflexivity].
    destruct (print_fmt fx d i b); [|reflexivity].
    rewrite app_assoc; reflexivity.
Qed.
Lemma print_fmt_DE : forall fx d i es, print_fmt fx d i (map DE es) = print_elems fx d i es.
Proof.
  induction es as [|e r IH]; simpl; [reflexivity|]. rewrite IH. reflexivity.
Qed.

(* ------------------------------------------------------------------ groups *)
Definition groups_ok (d : opdef) (k : list dir) : bool :=
  forallb (fun x => match x with DGroup a fe ts => group_ok d a fe ts | DE _ => true end) k.

Lemma src_eqb_eq : forall a b, src_eqb a b = true -> a = b.
Proof.
  intros [x|x| |] [y|y| |] H; simpl in H; try discriminate; try reflexivity;
    apply Nat.eqb_eq in H; subst; reflexivity.
Qed.

Lemma vals_types_nonempty : forall i s vs, vals_src s = true -> src_vals i s = Some vs ->
  length vs = length (src_types i s).
Proof.
  intros i s vs Hv Hs. destruct s as [k|k| |]; simpl in *; try discriminate.
  - inversion Hs; subst. rewrite !map_length. reflexivity.
  - inversion Hs; subst. rewrite !concat_map_map. rewrite !map_length. reflexivity.
Qed.

Lemma src_vals_some : forall i s, vals_src s = true -> exists vs, src_vals i s = Some vs.
Proof. intros i [k|k| |] H; simpl in *; try discriminate; eexists; reflexivity. Qed.

(* the anchor is present: the source of the group is not empty *)
Lemma anchor_src_nonempty : forall i a s,
  (a = AnVals s \/ a = AnTypes s) -> (a = AnVals s -> vals_src s = true) ->
  anchor_present i a = true -> src_types i s <> [].
Proof.
  intros i a s Ha Hv Hp Hnil. destruct Ha as [-> | ->]; simpl in Hp.
  - destruct (src_vals i s) as [vs|] eqn:E; [|discriminate].
    pose proof (vals_types_nonempty i s vs (Hv eq_refl) E) as Hl. rewrite Hnil in Hl.
    destruct vs; [discriminate | simpl in Hl; lia].
  - rewrite Hnil in Hp; discriminate.
Qed.

Lemma group_first_prints : forall fx d i a fe ts,
  IOK d i -> group_ok d a fe ts = true -> anchor_present i a = true ->
  exists t r, print_elem fx d i fe = Some (t :: r).
Proof.
  intros fx d i a fe ts Hio Hg Hp. unfold group_ok in Hg.
  destruct a as [s|s|n p dflt].
  - repeat (apply andb_true_iff in Hg; destruct Hg as [Hg ?]).
    destruct fe as [l ld|kw rs ex|s'|s'|x y|n p k o dflt]; try discriminate.
    + eexists; eexists; reflexivity.
    + match goal with H : src_eqb s s' && vals_src s = true |- _ => apply andb_true_iff in H; destruct H as [He Hv] end.
      apply src_eqb_eq in He; subst s'.
      cbn [print_elem]. simpl in Hp.
      destruct (src_vals i s) as [[|v vr]|]; try discriminate.
      cbn [option_map]. change (map TVal (v :: vr)) with (TVal v :: map TVal vr). rewrite sep_cons.
      eexists; eexists; reflexivity.
  - repeat (apply andb_true_iff in Hg; destruct Hg as [Hg ?]).
    destruct fe as [l ld|kw rs ex|s'|s'|x y|n p k o dflt]; try discriminate.
    + eexists; eexists; reflexivity.
    + match goal with H : src_eqb s s' && vals_src s = true |- _ => apply andb_true_iff in H; destruct H as [He Hv] end.
      apply src_eqb_eq in He; subst s'.
      cbn [print_elem].
      destruct (src_vals_some i s Hv) as [vs Hvs]. rewrite Hvs. cbn [option_map].
      pose proof (vals_types_nonempty i s vs Hv Hvs) as Hl.
      assert (src_types i s <> []) as Hne.
      { apply (anchor_src_nonempty i (AnTypes s) s); auto. }
      destruct vs as [|v vr].
      * destruct (src_types i s); [congruence | simpl in Hl; lia].
      * change (map TVal (v :: vr)) with (TVal v :: map TVal vr). rewrite sep_cons.
        eexists; eexists; reflexivity.
  - repeat (apply andb_true_iff in Hg; destruct Hg as [Hg ?]).
    simpl in Hp.
    destruct fe as [l ld|kw rs ex|s'|s'|x y|n' p' k o dflt']; try discriminate.
    + eexists; eexists; reflexivity.
    + destruct k; try discriminate. destruct o; try discriminate.
      repeat match goal with H : _ && _ = true |- _ => apply andb_true_iff in H; destruct H end.
      match goal with H : String.eqb n' n = true |- _ => apply String.eqb_eq in H; subst n' end.
      match goal with H : Bool.eqb p' p = true |- _ => apply eqb_prop in H; subst p' end.
      cbn [print_elem].
      destruct (attr_of i n p) as [a|]; [|discriminate].
      assert (is_default a dflt' = is_default a dflt) as Hd.
      { match goal with H : opt_av_eqb dflt dflt' = true |- _ =>
          destruct dflt as [x|], dflt' as [y|]; simpl in H; try discriminate; try reflexivity;
          apply av_eqb_eq in H; subst; reflexivity end. }
      rewrite Hd. apply negb_true_iff in Hp. rewrite Hp.
      eexists; eexists; reflexivity.
Qed.

(* ------------------------------------------------------------------ the lookahead analysis is sound *)
Lemma nf_sound : forall fx d f i g,
  IOK d i -> trig_wf f g ->
  forall k tk rest,
    groups_ok d k = true -> nf d g k = true ->
    print_fmt fx d i k = Some tk -> rest_ok d f rest = true ->
    forall t, hd_error (tk ++ rest) = Some t -> tok_matches g t = false.
Proof.
  intros fx d f i g Hio Hwf. induction k as [|x r IH]; intros tk rest Hg Hnf Hp Hr t Ht.
  - simpl in Hp. inversion Hp; subst tk. simpl in Ht.
    destruct rest as [|t0 rr]; [discriminate|]. inversion Ht; subst t0.
    simpl in Hr. eapply follower_unmatched; eauto.
  - simpl in Hg. apply andb_true_iff in Hg. destruct Hg as [Hgx Hgr].
    simpl in Hp.
    destruct (print_dir fx d i x) as [tx|] eqn:Ex; [|discriminate].
    destruct (print_fmt fx d i r) as [tr|] eqn:Er; [|discriminate].
    inversion Hp; subst tk. clear Hp.
    destruct x as [e|a fe ts].
    + simpl in Hnf. apply andb_true_iff in Hnf. destruct Hnf as [Hfs Hrest].
      simpl in Ex.
      destruct tx as [|t0 tx'].
      * simpl in Ht.
        destruct (always_prints d e) eqn:Eal.
        -- exfalso. eapply always_prints_nonempty; eauto.
        -- simpl in Hrest. eapply IH; eauto.
      * simpl in Ht. inversion Ht; subst t0.
        eapply first_safe_sound; eauto.
    + simpl in Hnf. apply andb_true_iff in Hnf. destruct Hnf as [Hfs Hrest].
      simpl in Ex. destruct (anchor_present i a) eqn:Ea.
      * destruct (group_first_prints fx d i a fe ts Hio Hgx Ea) as [t0 [r0 Hfe]].
        cbn [print_elems] in Ex. rewrite Hfe in Ex.
        destruct (print_elems fx d i ts) as [tts|]; [|discriminate].
        inversion Ex; subst tx. simpl in Ht. inversion Ht; subst t0.
        eapply first_safe_sound; eauto.
      * inversion Ex; subst tx. simpl in Ht. eapply IH; eauto.
Qed.

Lemma nf_all_untrig : forall fx d f i gs k tk rest,
  IOK d i -> (forall g, In g gs -> trig_wf f g) ->
  groups_ok d k = true -> nf_all d gs k = true ->
  print_fmt fx d i k = Some tk -> rest_ok d f rest = true ->
  untrig gs (tk ++ rest).
Proof.
  intros fx d f i gs k tk rest Hio Hwf Hg Hnf Hp Hr t Ht g Hin.
  unfold nf_all in Hnf. rewrite forallb_forall in Hnf.
  eapply nf_sound; eauto.
Qed.
