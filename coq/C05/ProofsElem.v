(* C05/ProofsElem.v -- one element: parsing its own printed tokens (followed by a tail whose first
   token does not trigger it) consumes exactly them, keeps `agree`, and makes the element `done`. *)
From Coq Require Import ZArith String Bool Arith List Lia.
From XV Require Import C05.Model C05.Check C05.ProofsBase C05.ProofsTok C05.ProofsState C05.ProofsSplit.
Import ListNotations.
Local Open Scope string_scope.
Local Open Scope list_scope.

Definition untrig (gs : list atrig) (tail : list tok) : Prop :=
  forall t, hd_error tail = Some t -> forall g, In g gs -> tok_matches g t = false.

Lemma untrig_incl : forall gs gs' tail, incl gs' gs -> untrig gs tail -> untrig gs' tail.
Proof. intros gs gs' tail Hi Hu t Ht g Hg; exact (Hu t Ht g (Hi g Hg)). Qed.
Lemma untrig_comma : forall gs tail, In GComma gs -> untrig gs tail -> not_comma_hd tail.
Proof. intros gs tail Hin Hu t Ht; exact (Hu t Ht GComma Hin). Qed.

(* ------------------------------------------------------------------ done *)
Definition types_done (s : src) (st : pst) : Prop :=
  match s with
  | SOperand k => isset (p_otys st) k
  | SResult k => isset (p_rtys st) k
  | SOperands => all_set (p_otys st)
  | SResults => all_set (p_rtys st)
  end.
Definition attr_done (i : inst) (n : string) (p : bool) (dflt : option av) (st : pst) : Prop :=
  forall a, attr_of i n p = Some a ->
    is_default a dflt = true \/ lookup n (if p then p_props st else p_attrs st) = Some a.
Definition elem_done (d : opdef) (i : inst) (e : elem) (st : pst) : Prop :=
  match e with
  | ELit _ _ => True
  | EVals (SOperand k) => isset (p_vals st) k
  | EVals SOperands => all_set (p_vals st)
  | EVals _ => True
  | ETypes s => types_done s st
  | EFunTy a b => types_done a st /\ types_done b st
  | EAttr n p _ _ dflt => attr_done i n p dflt st
  | EAttrDict _ reserved expected =>
      (forall n a, lookup n (i_attrs i) = Some a -> ~ In n reserved ->
         lookup n (p_attrs st) = Some a \/ dict_default_eq d expected n a = true) /\
      (forall n a, lookup n (i_props i) = Some a -> In n expected -> ~ In n reserved ->
         lookup n (p_props st) = Some a \/ dict_default_eq d expected n a = true)
  end.

Lemma all_set_mono : forall A (l l' : list (option A)),
  length l = length l' -> (forall k, isset l k -> isset l' k) -> all_set l -> all_set l'.
Proof. intros A l l' Hl Hm Ha k Hk. apply Hm, Ha. lia. Qed.

Lemma types_done_mono : forall d i s st st',
  agree d i st -> agree d i st' -> extends st st' -> types_done s st -> types_done s st'.
Proof.
  intros d i s st st' Ha Ha' He Hd. destruct s; simpl in *.
  - apply (ex_o _ _ He); exact Hd.
  - apply (ex_r _ _ He); exact Hd.
  - eapply all_set_mono; [| exact (ex_o _ _ He) | exact Hd].
    rewrite (ag_len_o _ _ _ Ha), (ag_len_o _ _ _ Ha'); reflexivity.
  - eapply all_set_mono; [| exact (ex_r _ _ He) | exact Hd].
    rewrite (ag_len_r _ _ _ Ha), (ag_len_r _ _ _ Ha'); reflexivity.
Qed.

Lemma lookup_keep_p : forall d i st st' n a,
  agree d i st -> agree d i st' -> extends st st' ->
  lookup n (p_props st) = Some a -> lookup n (p_props st') = Some a.
Proof.
  intros d i st st' n a Ha Ha' He H.
  assert (lookup n (p_props st') <> None) as Hn by (apply (ex_p _ _ He); rewrite H; discriminate).
  destruct (lookup n (p_props st')) as [b|] eqn:E; [|congruence].
  apply (ag_p _ _ _ Ha') in E. apply (ag_p _ _ _ Ha) in H. congruence.
Qed.
Lemma lookup_keep_a : forall d i st st' n a,
  agree d i st -> agree d i st' -> extends st st' ->
  lookup n (p_attrs st) = Some a -> lookup n (p_attrs st') = Some a.
Proof.
  intros d i st st' n a Ha Ha' He H.
  assert (lookup n (p_attrs st') <> None) as Hn by (apply (ex_a _ _ He); rewrite H; discriminate).
  destruct (lookup n (p_attrs st')) as [b|] eqn:E; [|congruence].
  apply (ag_a _ _ _ Ha') in E. apply (ag_a _ _ _ Ha) in H. congruence.
Qed.

Lemma elem_done_mono : forall d i e st st',
  agree d i st -> agree d i st' -> extends st st' -> elem_done d i e st -> elem_done d i e st'.
Proof.
  intros d i e st st' Ha Ha' He Hd. destruct e as [s l|kw rs ex|s|s|a b|n p k o dflt]; simpl in *.
  - exact I.
  - destruct Hd as [H1 H2]. split.
    + intros n a Hl Hr. destruct (H1 n a Hl Hr) as [H|H]; [left|right; exact H].
      eapply (lookup_keep_a d i st st'); eassumption.
    + intros n a Hl Hr Hnr. destruct (H2 n a Hl Hr Hnr) as [H|H]; [left|right; exact H].
      eapply (lookup_keep_p d i st st'); eassumption.
  - destruct s; try exact I.
    + apply (ex_v _ _ He); exact Hd.
    + eapply all_set_mono; [| exact (ex_v _ _ He) | exact Hd].
      rewrite (ag_len_v _ _ _ Ha), (ag_len_v _ _ _ Ha'); reflexivity.
  - eapply (types_done_mono d i _ st st'); eassumption.
  - destruct Hd; split; eapply (types_done_mono d i _ st st'); eassumption.
  - intros a Hat. destruct (Hd a Hat) as [H|H]; [left; exact H|right].
    destruct p; [eapply (lookup_keep_p d i st st') | eapply (lookup_keep_a d i st st')]; eassumption.
Qed.

(* ------------------------------------------------------------------ values *)
Lemma nonempty_false_nil : forall A (l : list A), nonempty l = false -> l = [].
Proof. destruct l; simpl; [reflexivity | discriminate]. Qed.

Lemma parse_vals_operand : forall d i st k vd tail,
  IOK d i -> agree d i st ->
  nth_error (od_operands d) k = Some vd ->
  (vd_kind vd = KVar -> not_comma_hd tail) ->
  (vals_of i k = [] -> forall t, hd_error tail = Some t -> tok_matches GVal t = false) ->
  exists st',
    parse_elem d (EVals (SOperand k)) st (sep (map TVal (vals_of i k)) ++ tail)
      = Some (match vd_kind vd with KSingle => true | _ => nonempty (vals_of i k) end, st', tail)
    /\ agree d i st' /\ extends st st' /\ isset (p_vals st') k.
Proof.
  intros d i st k vd tail Hio Ha Hn Hc He.
  exists (set_vals k (vals_of i k) st).
  assert (k < length (od_operands d)) as Hk by (apply nth_error_Some; rewrite Hn; discriminate).
  split; [| apply agree_set_vals; assumption].
  cbn [parse_elem]. rewrite Hn.
  rewrite (parse_kind_sep val_item TVal (vd_kind vd) (vals_of i k) tail).
  - reflexivity.
  - intros; reflexivity.
  - pose proof (build_sizes_nth _ _ _ _ _ (io_osz _ _ Hio) Hn) as Hl.
    unfold vals_of. rewrite map_length. destruct (vd_kind vd); exact Hl.
  - exact Hc.
  - intros Hnil t Ht. apply val_item_NoItem. exact (He Hnil t Ht).
Qed.

Lemma concat_map_map : forall A B (g : A -> B) (l : list (list A)), concat (map (map g) l) = map g (concat l).
Proof. intros; symmetry; apply concat_map. Qed.

Lemma parse_vals_all : forall d i st tail,
  IOK d i -> agree d i st ->
  length (filter is_varlike (kinds (od_operands d))) <= 1 ->
  not_comma_hd tail ->
  (concat (map (map fst) (i_operands i)) = [] -> forall t, hd_error tail = Some t -> tok_matches GVal t = false) ->
  exists st',
    parse_elem d (EVals SOperands) st (sep (map TVal (concat (map (map fst) (i_operands i)))) ++ tail)
      = Some (nonempty (concat (map (map fst) (i_operands i))), st', tail)
    /\ agree d i st' /\ extends st st' /\ all_set (p_vals st').
Proof.
  intros d i st tail Hio Ha Hv Hc He.
  exists (set_all_vals (map (map fst) (i_operands i)) st).
  split; [| apply agree_set_all_vals; [assumption | apply build_sizes_length, (io_osz _ _ Hio)]].
  cbn [parse_elem].
  rewrite (parse_opt_list_sep val_item TVal).
  - rewrite (split_segs_concat _ (od_operands d) (map (map fst) (i_operands i))).
    + reflexivity.
    + apply build_sizes_map, (io_osz _ _ Hio).
    + exact Hv.
  - intros; reflexivity.
  - exact Hc.
  - intros Hnil t Ht. apply val_item_NoItem. exact (He Hnil t Ht).
Qed.

(* ------------------------------------------------------------------ types *)
Lemma in_concat_map : forall A B (g : A -> B) (l : list (list A)) x,
  In x (concat (map (map g) l)) -> exists seg y, In seg l /\ In y seg /\ x = g y.
Proof.
  intros A B g l x H. apply in_concat in H. destruct H as [s [Hs Hx]].
  apply in_map_iff in Hs. destruct Hs as [seg [<- Hseg]].
  apply in_map_iff in Hx. destruct Hx as [y [<- Hy]].
  exists seg, y; auto.
Qed.

Lemma src_types_start : forall d i s t, IOK d i -> In t (src_types i s) -> starts_type (av_full t) = true.
Proof.
  intros d i s t Hio Hin. destruct s as [k|k| |]; simpl in Hin.
  - apply in_map_iff in Hin. destruct Hin as [vt [<- Hvt]].
    destruct (nth_in_or_default k (i_operands i) []) as [Hs|Hs].
    + eapply (io_oty _ _ Hio); eassumption.
    + rewrite Hs in Hvt; destruct Hvt.
  - destruct (nth_in_or_default k (i_results i) []) as [Hs|Hs].
    + eapply (io_rty _ _ Hio); eassumption.
    + rewrite Hs in Hin; destruct Hin.
  - apply in_concat_map in Hin. destruct Hin as [seg [vt [Hs [Hv ->]]]].
    eapply (io_oty _ _ Hio); eassumption.
  - apply in_concat in Hin. destruct Hin as [seg [Hs Hv]].
    eapply (io_rty _ _ Hio); eassumption.
Qed.

Lemma src_kind_len : forall d i s k, IOK d i -> src_kind d s = Some k -> kind_len_ok k (length (src_types i s)).
Proof.
  intros d i s k Hio Hk. destruct s as [j|j| |]; simpl in *.
  - destruct (nth_error (od_operands d) j) as [vd|] eqn:E; simpl in Hk; [|discriminate].
    inversion Hk; subst. rewrite map_length.
    pose proof (build_sizes_nth _ _ _ _ _ (io_osz _ _ Hio) E) as Hl. destruct (vd_kind vd); exact Hl.
  - destruct (nth_error (od_results d) j) as [vd|] eqn:E; simpl in Hk; [|discriminate].
    inversion Hk; subst.
    pose proof (build_sizes_nth _ _ _ _ _ (io_rsz _ _ Hio) E) as Hl. destruct (vd_kind vd); exact Hl.
  - inversion Hk; exact I.
  - inversion Hk; exact I.
Qed.

(* TypeableDirective.set_types with the instance's own types *)
Lemma set_types_own : forall d i st s,
  IOK d i -> agree d i st -> src_in_range d s = true ->
  exists st', set_types d s (src_types i s) st = Some st'
    /\ agree d i st' /\ extends st st' /\ types_done s st'.
Proof.
  intros d i st s Hio Ha Hr. destruct s as [k|k| |]; simpl in *.
  - apply Nat.ltb_lt in Hr. eexists; split; [reflexivity|].
    apply (agree_set_otys d i st k Ha Hr).
  - apply Nat.ltb_lt in Hr. eexists; split; [reflexivity|].
    apply (agree_set_rtys d i st k Ha Hr).
  - apply Nat.leb_le in Hr.
    rewrite (split_segs_concat _ (od_operands d) (map (map snd) (i_operands i))).
    + simpl. eexists; split; [reflexivity|].
      apply agree_set_all_otys; [assumption | apply build_sizes_length, (io_osz _ _ Hio)].
    + apply build_sizes_map, (io_osz _ _ Hio).
    + exact Hr.
  - apply Nat.leb_le in Hr.
    rewrite (split_segs_concat _ (od_results d) (i_results i)).
    + simpl. eexists; split; [reflexivity|].
      apply agree_set_all_rtys; [assumption | apply build_sizes_length, (io_rsz _ _ Hio)].
    + apply (io_rsz _ _ Hio).
    + exact Hr.
Qed.

Lemma parse_types_ok : forall d i st s k tail,
  IOK d i -> agree d i st -> src_in_range d s = true -> src_kind d s = Some k ->
  (k = KVar -> not_comma_hd tail) ->
  (src_types i s = [] -> forall t, hd_error tail = Some t -> tok_matches GType t = false) ->
  exists st',
    parse_types d s st (sep (map TAttr (src_types i s)) ++ tail) = Some (types_flag s k (src_types i s), st', tail)
    /\ agree d i st' /\ extends st st' /\ types_done s st'.
Proof.
  intros d i st s k tail Hio Ha Hr Hk Hc He.
  destruct (set_types_own d i st s Hio Ha Hr) as [st' [Hs Hrest]].
  exists st'. split; [|exact Hrest].
  unfold parse_types. rewrite Hk.
  rewrite (parse_kind_sep type_item TAttr k (src_types i s) tail).
  - rewrite Hs. reflexivity.
  - intros x Hx. apply type_item_TAttr. eapply src_types_start; eassumption.
  - eapply src_kind_len; eassumption.
  - exact Hc.
  - intros Hnil t Ht. apply type_item_NoItem. exact (He Hnil t Ht).
Qed.

Lemma parse_single_type_ok : forall d i st s t tail,
  IOK d i -> agree d i st -> src_in_range d s = true -> src_types i s = [t] ->
  exists st',
    parse_single_type d s st (TAttr t :: tail) = Some (st', tail)
    /\ agree d i st' /\ extends st st' /\ types_done s st'.
Proof.
  intros d i st s t tail Hio Ha Hr Hs.
  destruct (set_types_own d i st s Hio Ha Hr) as [st' [Hset Hrest]].
  exists st'. split; [|exact Hrest].
  unfold parse_single_type. cbn [parse_one].
  rewrite type_item_TAttr.
  - rewrite <- Hs. rewrite Hset. reflexivity.
  - eapply src_types_start; [eassumption|]. rewrite Hs; left; reflexivity.
Qed.

(* ------------------------------------------------------------------ functional-type *)
Lemma rparen_not_comma : forall tail, not_comma_hd (rparen :: tail).
Proof. intros tail t H; inversion H; reflexivity. Qed.
Lemma rparen_not_type : forall tail t, hd_error (rparen :: tail) = Some t -> tok_matches GType t = false.
Proof. intros tail t H; inversion H; reflexivity. Qed.

Lemma src_kind_some : forall d s, src_in_range d s = true -> exists k, src_kind d s = Some k.
Proof.
  intros d s H. destruct s as [j|j| |]; simpl in *.
  - apply Nat.ltb_lt in H. destruct (nth_error (od_operands d) j) eqn:E.
    + eexists; reflexivity.
    + apply nth_error_None in E; lia.
  - apply Nat.ltb_lt in H. destruct (nth_error (od_results d) j) eqn:E.
    + eexists; reflexivity.
    + apply nth_error_None in E; lia.
  - eexists; reflexivity.
  - eexists; reflexivity.
Qed.

Lemma app_assoc_cons : forall A (l : list A) x m, (l ++ [x]) ++ m = l ++ x :: m.
Proof. intros; rewrite <- app_assoc; reflexivity. Qed.

Lemma funty_shape : forall (A R tail : list tok),
  (lparen :: A ++ [rparen; arrow] ++ R) ++ tail = lparen :: A ++ rparen :: arrow :: R ++ tail.
Proof. intros; simpl; rewrite <- app_assoc; reflexivity. Qed.

Lemma funty_core : forall d a b st A Rt st1 flag,
  parse_types d a st (A ++ rparen :: arrow :: Rt) = Some (flag, st1, rparen :: arrow :: Rt) ->
  parse_elem d (EFunTy a b) st (lparen :: A ++ rparen :: arrow :: Rt) =
    match Rt with
    | t3 :: r3 =>
        if is_lit "(" t3 then
          match parse_types d b st1 r3 with
          | None => None
          | Some (_, st2, r4) =>
              match r4 with
              | t4 :: r5 => if is_lit ")" t4 then Some (true, st2, r5) else None
              | [] => None
              end
          end
        else if lead_eqb (tok_lead t3) LParen then None
        else match parse_single_type d b st1 Rt with
             | Some (st2, r4) => Some (true, st2, r4)
             | None => None
             end
    | [] => None
    end.
Proof.
  intros d a b st A Rt st1 flag H. cbn [parse_elem].
  change (is_lit "(" lparen) with true. cbv iota. rewrite H.
  change (is_lit ")" rparen && is_lit "->" arrow) with true. cbv iota. reflexivity.
Qed.

Lemma parse_funty_ok : forall fx d i st a b tail,
  IOK d i -> agree d i st ->
  src_in_range d a = true -> src_in_range d b = true ->
  (fx = true \/ elem_funty_ok i (EFunTy a b) = true) ->
  exists ts st',
    print_elem fx d i (EFunTy a b) = Some ts /\ ts <> [] /\
    parse_elem d (EFunTy a b) st (ts ++ tail) = Some (true, st', tail)
    /\ agree d i st' /\ extends st st' /\ types_done a st' /\ types_done b st'.
Proof.
  intros fx d i st a b tail Hio Ha Hra Hrb Hfx.
  destruct (src_kind_some d a Hra) as [ka Hka].
  destruct (src_kind_some d b Hrb) as [kb Hkb].
  assert (forall rest, exists st1,
            parse_types d a st (sep (map TAttr (src_types i a)) ++ rparen :: rest)
              = Some (types_flag a ka (src_types i a), st1, rparen :: rest)
            /\ agree d i st1 /\ extends st st1 /\ types_done a st1) as Hopnd.
  { intro rest. apply parse_types_ok; auto.
    - intros _; apply rparen_not_comma.
    - intros _; apply rparen_not_type. }
  (* the result list in parentheses *)
  assert (forall st1, agree d i st1 -> exists st2,
            parse_types d b st1 (sep (map TAttr (src_types i b)) ++ rparen :: tail)
              = Some (types_flag b kb (src_types i b), st2, rparen :: tail)
            /\ agree d i st2 /\ extends st1 st2 /\ types_done b st2) as Hres.
  { intros st1 Ha1. apply parse_types_ok; auto.
    - intros _; apply rparen_not_comma.
    - intros _; apply rparen_not_type. }
  cbn [print_elem].
  assert (forall R, R = lparen :: sep (map TAttr (src_types i b)) ++ [rparen] ->
            exists st', parse_elem d (EFunTy a b) st ((lparen :: sep (map TAttr (src_types i a)) ++ [rparen; arrow] ++ R) ++ tail)
                          = Some (true, st', tail)
            /\ agree d i st' /\ extends st st' /\ types_done a st' /\ types_done b st') as Hparen.
  { intros R ->. rewrite funty_shape.
    destruct (Hopnd (arrow :: (lparen :: sep (map TAttr (src_types i b)) ++ [rparen]) ++ tail)) as [st1 [Hp1 [Ha1 [He1 Hd1]]]].
    destruct (Hres st1 Ha1) as [st2 [Hp2 [Ha2 [He2 Hd2]]]].
    exists st2. rewrite (funty_core _ _ _ _ _ _ _ _ Hp1).
    simpl app. change (is_lit "(" lparen) with true. cbv iota.
    rewrite <- app_assoc. simpl app. rewrite Hp2.
    change (is_lit ")" rparen) with true. cbv iota.
    split; [reflexivity|]. split; [exact Ha2|]. split; [eapply extends_trans; eassumption|].
    split; [eapply (types_done_mono d i a st1 st2); eassumption | exact Hd2]. }
  destruct (src_types i b) as [|t [|t2 r2]] eqn:Eb.
  - destruct (Hparen _ eq_refl) as [st' Hst']. eexists; exists st'.
    split; [reflexivity|]. split; [discriminate|]. exact Hst'.
  - destruct (fx && lead_eqb (av_full t) LParen) eqn:Efx.
    + destruct (Hparen _ eq_refl) as [st' Hst']. eexists; exists st'.
      split; [reflexivity|]. split; [discriminate|]. exact Hst'.
    + assert (lead_eqb (av_full t) LParen = false) as Hnp.
      { destruct Hfx as [->|Hf].
        - simpl in Efx; exact Efx.
        - simpl in Hf. rewrite Eb in Hf. apply negb_true_iff in Hf; exact Hf. }
      destruct (Hopnd (arrow :: [TAttr t] ++ tail)) as [st1 [Hp1 [Ha1 [He1 Hd1]]]].
      destruct (parse_single_type_ok d i st1 b t tail Hio Ha1 Hrb Eb) as [st2 [Hp2 [Ha2 [He2 Hd2]]]].
      eexists; exists st2. split; [reflexivity|]. split; [discriminate|].
      rewrite funty_shape. rewrite (funty_core _ _ _ _ _ _ _ _ Hp1).
      simpl app. change (is_lit "(" (TAttr t)) with false. cbv iota.
      cbn [tok_lead]. rewrite Hnp. rewrite Hp2.
      split; [reflexivity|]. split; [exact Ha2|]. split; [eapply extends_trans; eassumption|].
      split; [eapply (types_done_mono d i a st1 st2); eassumption | exact Hd2].
  - destruct (Hparen _ eq_refl) as [st' Hst']. eexists; exists st'.
    split; [reflexivity|]. split; [discriminate|]. exact Hst'.
Qed.

(* ------------------------------------------------------------------ attribute variables *)
Lemma find_adef_In : forall n l a, find_adef n l = Some a -> In a l /\ ad_name a = n.
Proof.
  intros n l a H. unfold find_adef in H. apply find_some in H. destruct H as [Hin He].
  apply String.eqb_eq in He. auto.
Qed.

Lemma attr_value_starts : forall d i n p a, IOK d i -> attr_of i n p = Some a -> starts_attr (av_full a) = true.
Proof.
  intros d i n p a Hio H. unfold attr_of in H. apply lookup_In in H. destruct p.
  - apply (io_pv _ _ Hio) in H; tauto.
  - apply (io_av _ _ Hio) in H; tauto.
Qed.

(* the definition behind a directive (attr_decl_ok) constrains the instance *)
Lemma decl_required : forall d i n p k opt dflt,
  IOK d i -> attr_decl_ok d n p k opt dflt = true -> opt = false -> attr_of i n p <> None.
Proof.
  intros d i n p k opt dflt Hio Hd Ho Hnone. unfold attr_decl_ok, the_adef in Hd.
  destruct (find_adef n (if p then od_props d else od_attrs d)) as [a|] eqn:E; [|discriminate].
  apply find_adef_In in E. destruct E as [Hin Hname].
  apply andb_true_iff in Hd; destruct Hd as [Hd _]. apply andb_true_iff in Hd; destruct Hd as [Hopt _].
  apply eqb_prop in Hopt. subst opt.
  assert (adef_inst_ok (if p then i_props i else i_attrs i) a = true) as Hok.
  { destruct p; [apply (io_pdef _ _ Hio) | apply (io_adef _ _ Hio)]; exact Hin. }
  unfold adef_inst_ok in Hok. rewrite Hname in Hok. unfold attr_of in Hnone. rewrite Hnone in Hok.
  congruence.
Qed.
Lemma decl_unit : forall d i n p u opt dflt a,
  IOK d i -> attr_decl_ok d n p (AKUnit u) opt dflt = true -> attr_of i n p = Some a -> a = u.
Proof.
  intros d i n p u opt dflt a Hio Hd Hat. unfold attr_decl_ok, the_adef in Hd.
  destruct (find_adef n (if p then od_props d else od_attrs d)) as [df|] eqn:E; [|discriminate].
  apply find_adef_In in E. destruct E as [Hin Hname].
  apply andb_true_iff in Hd; destruct Hd as [_ Hu].
  destruct (ad_unit df) as [u'|] eqn:Eu; [|discriminate]. apply av_eqb_eq in Hu. subst u'.
  assert (adef_inst_ok (if p then i_props i else i_attrs i) df = true) as Hok.
  { destruct p; [apply (io_pdef _ _ Hio) | apply (io_adef _ _ Hio)]; exact Hin. }
  unfold adef_inst_ok in Hok. rewrite Hname in Hok. unfold attr_of in Hat. rewrite Hat, Eu in Hok.
  apply av_eqb_eq in Hok. exact Hok.
Qed.

(* the value is there and is not the default: it is printed and read back *)
Lemma parse_attr_present : forall fx d i st n p k opt dflt a tail,
  IOK d i -> agree d i st ->
  attr_decl_ok d n p k opt dflt = true ->
  attr_of i n p = Some a -> is_default a dflt = false ->
  (forall l, k = AKShort (Some l) -> opt = true -> short_item (Some l) (TShort a) = Item a) ->
  exists ts st',
    print_elem fx d i (EAttr n p k opt dflt) = Some ts /\
    (match k with AKUnit _ => True | _ => ts <> [] end) /\
    parse_elem d (EAttr n p k opt dflt) st (ts ++ tail) = Some (true, st', tail)
    /\ agree d i st' /\ extends st st' /\ attr_done i n p dflt st'.
Proof.
  intros fx d i st n p k opt dflt a tail Hio Ha Hd Hat Hnd Hsh.
  destruct (agree_set_attr d i st p n a Ha Hat) as [Ha' [He' Hl']].
  assert (attr_done i n p dflt (set_attr p n a st)) as Hdone.
  { intros a' Hat'. rewrite Hat in Hat'. inversion Hat'; subst a'. right. exact Hl'. }
  cbn [print_elem]. rewrite Hat, Hnd.
  destruct k as [|trig|u].
  - (* generic *)
    exists [TAttr a], (set_attr p n a st). split; [reflexivity|]. split; [discriminate|].
    split; [|auto]. cbn [parse_elem app].
    pose proof (attr_value_starts d i n p a Hio Hat) as Hs.
    destruct opt; cbn [parse_opt_one parse_one]; rewrite (attr_item_TAttr a Hs); reflexivity.
  - (* short *)
    exists [TShort a], (set_attr p n a st). split; [reflexivity|]. split; [discriminate|].
    split; [|auto]. cbn [parse_elem app].
    destruct opt; [destruct trig as [l|]|].
    + cbn [parse_opt_one]. rewrite (Hsh l eq_refl eq_refl). reflexivity.
    + reflexivity.
    + reflexivity.
  - (* unit *)
    pose proof (decl_unit d i n p u opt dflt a Hio Hd Hat) as ->.
    exists [], (set_attr p n u st). split; [reflexivity|]. split; [exact I|].
    split; [reflexivity|auto].
Qed.

(* nothing is printed (absent, or equal to the default) and an optional variable declines *)
Lemma parse_attr_silent : forall fx d i st n p k dflt tail,
  agree d i st ->
  (attr_of i n p = None \/ exists a, attr_of i n p = Some a /\ is_default a dflt = true) ->
  (match k with
   | AKGeneric => forall t, hd_error tail = Some t -> tok_matches GAttr t = false
   | AKShort (Some l) => forall t, hd_error tail = Some t -> short_item (Some l) t = NoItem
   | _ => False
   end) ->
  print_elem fx d i (EAttr n p k true dflt) = Some [] /\
  parse_elem d (EAttr n p k true dflt) st tail = Some (false, st, tail)
  /\ attr_done i n p dflt st.
Proof.
  intros fx d i st n p k dflt tail Ha Hv Hk. split; [|split].
  - cbn [print_elem]. destruct Hv as [->|[a [-> ->]]]; reflexivity.
  - cbn [parse_elem]. destruct k as [|[l|]|u]; try contradiction.
    + destruct tail as [|t r]; [reflexivity|]. cbn [parse_opt_one].
      rewrite (attr_item_NoItem t (Hk t eq_refl)). reflexivity.
    + destruct tail as [|t r]; [reflexivity|]. cbn [parse_opt_one].
      rewrite (Hk t eq_refl). reflexivity.
  - intros a Hat. destruct Hv as [Hn|[a' [Ha' Hd']]].
    + rewrite Hn in Hat; discriminate.
    + rewrite Ha' in Hat; inversion Hat; subst; left; exact Hd'.
Qed.

(* ------------------------------------------------------------------ attr-dict *)
Lemma split_dict_ok : forall d i E dct st,
  agree d i st ->
  (forall n a, In (n, a) dct -> attr_of i n (mem n E) = Some a) ->
  agree d i (split_dict E dct st) /\ extends st (split_dict E dct st) /\
  (forall n a, In (n, a) dct ->
     lookup n (if mem n E then p_props (split_dict E dct st) else p_attrs (split_dict E dct st)) = Some a).
Proof.
  intros d i E dct. unfold split_dict.
  induction dct as [|[n a] r IH]; intros st Ha Hin; simpl.
  - split; [exact Ha|]. split; [apply extends_refl|]. intros n a [].
  - destruct (agree_set_attr d i st (mem n E) n a Ha (Hin n a (or_introl eq_refl))) as [Ha1 [He1 Hl1]].
    destruct (IH (set_attr (mem n E) n a st) Ha1 (fun n' a' H => Hin n' a' (or_intror H))) as [Ha2 [He2 Hl2]].
    split; [exact Ha2|]. split; [eapply extends_trans; eassumption|].
    intros n' a' [Heq|Hr].
    + inversion Heq; subst n' a'. clear Heq.
      remember (mem n E) as b. destruct b.
      * exact (lookup_keep_p d i _ _ n a Ha1 Ha2 He2 Hl1).
      * exact (lookup_keep_a d i _ _ n a Ha1 Ha2 He2 Hl1).
    + apply Hl2; exact Hr.
Qed.

Lemma filter_nil_forall : forall A (g : A -> bool) l, filter g l = [] -> forall x, In x l -> g x = false.
Proof.
  induction l as [|y r IH]; simpl; intros H x Hin; [destruct Hin|].
  destruct (g y) eqn:E; [discriminate|]. destruct Hin as [->|Hin]; auto.
Qed.

Lemma existsb_false_forall : forall A (g : A -> bool) l, (forall x, In x l -> g x = false) -> existsb g l = false.
Proof.
  induction l as [|y r IH]; simpl; intro H; [reflexivity|].
  rewrite (H y (or_introl eq_refl)). apply IH. intros x Hx; apply H; right; exact Hx.
Qed.

Definition clash_free (expected : list string) (i : inst) : Prop :=
  forall n a, In (n, a) (i_attrs i) -> ~ In n expected.

Lemma parse_dict_ok : forall fx d i st kw reserved expected tail,
  IOK d i -> agree d i st -> clash_free expected i ->
  untrig (trig_of d (EAttrDict kw reserved expected)) tail ->
  exists ts flag st',
    print_elem fx d i (EAttrDict kw reserved expected) = Some ts /\
    parse_elem d (EAttrDict kw reserved expected) st (ts ++ tail) = Some (flag, st', tail)
    /\ agree d i st' /\ extends st st' /\ elem_done d i (EAttrDict kw reserved expected) st'.
Proof.
  intros fx d i st kw reserved expected tail Hio Ha Hcf Hu.
  cbn [print_elem].
  assert (existsb (fun na => mem (fst na) expected) (i_attrs i) = false) as Hex.
  { apply existsb_false_forall. intros [n a] Hin. simpl.
    destruct (mem n expected) eqn:E; [|reflexivity].
    apply mem_In in E. exfalso; exact (Hcf n a Hin E). }
  rewrite Hex.
  (* where every shown entry comes from *)
  assert (forall n a, In (n, a) (dict_shown d i reserved expected) ->
            attr_of i n (mem n expected) = Some a /\ mem n reserved = false) as Hshown.
  { intros n a Hin. unfold dict_shown in Hin. apply filter_In in Hin. destruct Hin as [Hin Hf].
    simpl in Hf. apply andb_true_iff in Hf. destruct Hf as [Hr _]. apply negb_true_iff in Hr.
    split; [|exact Hr]. apply in_app_or in Hin. destruct Hin as [Hin|Hin].
    - assert (mem n expected = false) as Hm.
      { destruct (mem n expected) eqn:E; [|reflexivity]. apply mem_In in E. exfalso; exact (Hcf n a Hin E). }
      rewrite Hm. unfold attr_of. apply nodup_keys_lookup; [apply (io_and _ _ Hio) | exact Hin].
    - apply filter_In in Hin. destruct Hin as [Hin Hm]. simpl in Hm. rewrite Hm.
      unfold attr_of. apply nodup_keys_lookup; [apply (io_pnd _ _ Hio) | exact Hin]. }
  (* what is not shown is reserved or equal to its default *)
  assert (forall n a, (lookup n (i_attrs i) = Some a \/ (lookup n (i_props i) = Some a /\ In n expected)) ->
            ~ In n reserved -> In (n, a) (dict_shown d i reserved expected) \/ dict_default_eq d expected n a = true) as Hcover.
  { intros n a Hsrc Hnr.
    destruct (dict_default_eq d expected n a) eqn:Ed; [right; reflexivity|left].
    unfold dict_shown. apply filter_In. split.
    - apply in_or_app. destruct Hsrc as [H|[H He]].
      + left; apply lookup_In; exact H.
      + right. apply filter_In. split; [apply lookup_In; exact H|]. simpl. apply mem_In; exact He.
    - simpl. rewrite Ed. destruct (mem n reserved) eqn:Er; [|reflexivity].
      apply mem_In in Er; contradiction. }
  destruct (dict_shown d i reserved expected) as [|e0 sh] eqn:Esh.
  - (* nothing to print: the parser must decline on the tail *)
    exists [], false, st. split; [reflexivity|].
    split.
    { simpl app. cbn [parse_elem].
      destruct tail as [|t r]; [reflexivity|].
      pose proof (Hu t eq_refl) as Ht. simpl in Ht.
      destruct t as [s l|v|a|a|kw' dct].
      - destruct kw.
        + specialize (Ht (GLit "attributes") (or_introl eq_refl)). simpl in Ht.
          unfold is_lit. rewrite Ht. reflexivity.
        + specialize (Ht (GLead LBrace) (or_introl eq_refl)). simpl in Ht. cbn [tok_lead]. rewrite Ht. reflexivity.
      - destruct kw; reflexivity.
      - destruct kw.
        + reflexivity.
        + specialize (Ht (GLead LBrace) (or_introl eq_refl)). simpl in Ht. cbn [tok_lead]. rewrite Ht. reflexivity.
      - destruct kw.
        + reflexivity.
        + specialize (Ht (GLead LBrace) (or_introl eq_refl)). simpl in Ht. cbn [tok_lead]. rewrite Ht. reflexivity.
      - destruct kw, kw'; simpl; try reflexivity.
        + specialize (Ht (GLit "attributes") (or_introl eq_refl)). simpl in Ht. discriminate.
        + specialize (Ht (GLead LBrace) (or_introl eq_refl)). simpl in Ht. discriminate. }
    split; [exact Ha|]. split; [apply extends_refl|].
    simpl. split.
    + intros n a Hl Hnr. right. destruct (Hcover n a (or_introl Hl) Hnr) as [[]|H]; exact H.
    + intros n a Hl He Hnr. right.
      destruct (Hcover n a (or_intror (conj Hl He)) Hnr) as [[]|H]; exact H.
  - (* the dictionary is printed as one token and read back entry by entry *)

    destruct (split_dict_ok d i expected (e0 :: sh) st Ha (fun n a H => proj1 (Hshown n a H))) as [Ha' [He' Hl']].
    exists [TDict kw (e0 :: sh)], true, (split_dict expected (e0 :: sh) st).
    split; [reflexivity|]. split.
    { cbn [parse_elem app]. rewrite Bool.eqb_reflx.
      rewrite (existsb_false_forall _ (fun na => mem (fst na) reserved) (e0 :: sh)).
      - reflexivity.
      - intros [n a] Hin. simpl. exact (proj2 (Hshown n a Hin)). }
    split; [exact Ha'|]. split; [exact He'|].
    simpl. split.
    + intros n a Hl Hnr. destruct (Hcover n a (or_introl Hl) Hnr) as [Hin|H]; [left|right; exact H].
      specialize (Hl' n a Hin).
      assert (mem n expected = false) as Hm.
      { destruct (mem n expected) eqn:E; [|reflexivity]. apply mem_In in E.
        exfalso; exact (Hcf n a (lookup_In _ _ _ Hl) E). }
      rewrite Hm in Hl'. exact Hl'.
    + intros n a Hl He Hnr. destruct (Hcover n a (or_intror (conj Hl He)) Hnr) as [Hin|H]; [left|right; exact H].
      specialize (Hl' n a Hin).
      assert (mem n expected = true) as Hm by (apply mem_In; exact He).
      rewrite Hm in Hl'. exact Hl'.
Qed.
