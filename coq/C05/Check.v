(* C05/Check.v -- the decidable checkers (definitions only, no proofs):
     inst_ok d i   : the instance i is a well-formed ("verified", as far as the abstraction sees)
                     instance of the operation definition d;
     fmt_code d f  : 0 when the format f passes a sufficient condition for unambiguous round trip,
                     otherwise a reason code (see the table at the end);   fmt_ok d f := fmt_code d f = 0;
     is_follower   : the tokens that can follow an operation in a block.
   Soundness of fmt_ok is proved in C05/Proofs*.v. *)
From Coq Require Import ZArith String Bool Arith List.
From XV Require Import C05.Model.
Import ListNotations.
Local Open Scope string_scope.
Local Open Scope list_scope.

(* ------------------------------------------------------------------ instances *)
Fixpoint nodup_keys (d : list (string * av)) : bool :=
  match d with
  | [] => true
  | (k, _) :: r => negb (mem k (map fst r)) && nodup_keys r
  end.
Definition adef_names (l : list adef) : list string := map ad_name l.
Fixpoint nodup_strs (l : list string) : bool :=
  match l with
  | [] => true
  | x :: r => negb (mem x r) && nodup_strs r
  end.
Definition adef_inst_ok (dct : list (string * av)) (a : adef) : bool :=
  match lookup (ad_name a) dct with
  | None => ad_optional a
  | Some v => match ad_unit a with Some u => av_eqb v u | None => true end
  end.

Definition inst_ok (d : opdef) (i : inst) : bool :=
  build_sizes_ok (od_operands d) (i_operands i) &&
  build_sizes_ok (od_results d) (i_results i) &&
  forallb (fun seg => forallb (fun vt => starts_type (av_full (snd vt))) seg) (i_operands i) &&
  forallb (fun seg => forallb (fun t => starts_type (av_full t)) seg) (i_results i) &&
  match verify_defs (od_operands d) (map (fun seg => Some (map snd seg)) (i_operands i)) [] with
  | Some ctx1 => match verify_defs (od_results d) (map Some (i_results i)) ctx1 with
                 | Some _ => true
                 | None => false
                 end
  | None => false
  end &&
  nodup_keys (i_props i) && nodup_keys (i_attrs i) &&
  forallb (fun na => mem (fst na) (adef_names (od_props d)) && negb (mem (fst na) (od_hidden d))
                     && starts_attr (av_full (snd na))) (i_props i) &&
  forallb (fun na => negb (mem (fst na) (od_hidden d)) && starts_attr (av_full (snd na))) (i_attrs i) &&
  forallb (adef_inst_ok (i_props i)) (od_props d) &&
  forallb (adef_inst_ok (i_attrs i)) (od_attrs d).

(* the one shape of instance the functional-type directive cannot print unambiguously: a single
   result type whose text starts with `(` (a function type) is printed without parentheses *)
Definition elem_funty_ok (i : inst) (e : elem) : bool :=
  match e with
  | EFunTy _ b => match src_types i b with
                  | [t] => negb (lead_eqb (av_full t) LParen)
                  | _ => true
                  end
  | _ => true
  end.
Definition funty_ok (i : inst) (f : format) : bool :=
  forallb (fun x => match x with
                    | DE e => elem_funty_ok i e
                    | DGroup _ fe ts => forallb (elem_funty_ok i) (fe :: ts)
                    end) f.

(* ------------------------------------------------------------------ lookahead triggers *)
Inductive atrig :=
| GVal                  (* a %value *)
| GComma                (* the literal `,` *)
| GType                 (* a token that starts a type *)
| GAttr                 (* a token that starts an attribute *)
| GLead (l : lead)      (* a token of exactly this class *)
| GLit (s : string).    (* this literal (`attributes` also matches a dictionary with keyword) *)

Definition tok_is_kw (s : string) (t : tok) : bool :=
  match t with
  | TLit s' _ => String.eqb s' s
  | TDict true _ => String.eqb s "attributes"
  | _ => false
  end.
Definition tok_matches (g : atrig) (t : tok) : bool :=
  match g with
  | GVal => match t with TVal _ => true | _ => false end
  | GComma => is_lit "," t
  | GType => starts_type (tok_lead t)
  | GAttr => starts_attr (tok_lead t)
  | GLead l => lead_eqb (tok_lead t) l
  | GLit s => tok_is_kw s t
  end.

Definition kind_of_src (d : opdef) (s : src) : kind :=
  match src_kind d s with Some k => k | None => KVar end.

(* the tokens that must NOT come right after the element e (its own tokens consumed or absent) *)
Definition trig_of (d : opdef) (e : elem) : list atrig :=
  match e with
  | ELit _ _ => []
  | EVals s => match kind_of_src d s with KSingle => [] | KOpt => [GVal] | KVar => [GVal; GComma] end
  | ETypes s => match kind_of_src d s with KSingle => [] | KOpt => [GType] | KVar => [GType; GComma] end
  | EFunTy _ _ => []
  | EAttr _ _ k optional _ =>
      match k with
      | AKGeneric => if optional then [GAttr] else []
      | AKShort (Some l) => if optional then [GLead l] else []
      | _ => []
      end
  | EAttrDict kw _ _ => if kw then [GLit "attributes"] else [GLead LBrace]
  end.
(* inside an optional group that is present: the elements tied to the anchor are not empty, so an
   optional one consumes exactly one token and a variadic one stops at the first non-comma *)
Definition trig_in_group (d : opdef) (e : elem) : list atrig :=
  match e with
  | EVals s | ETypes s => match kind_of_src d s with KVar => [GComma] | _ => [] end
  | _ => []
  end.
(* as the first element of an optional group that is absent *)
Definition trig_first (d : opdef) (e : elem) : list atrig :=
  match e with
  | ELit s _ => [GLit s]
  | _ => trig_of d e
  end.

(* can a type token / an attribute token / a short attribute token match g ? *)
Definition type_may_match (g : atrig) : bool :=
  match g with GType | GAttr => true | GLead LParen | GLead LType => true | _ => false end.
Definition attr_may_match (g : atrig) : bool :=
  match g with GType | GAttr | GLead _ => true | _ => false end.

(* does the element always print at least one token (on instances with inst_ok) ? *)
Definition always_prints (d : opdef) (e : elem) : bool :=
  match e with
  | ELit _ _ => true
  | EFunTy _ _ => true
  | EVals s | ETypes s => match src_kind d s with Some KSingle => true | _ => false end
  | _ => false
  end.
(* g matches no token that e can print first *)
Definition first_safe (g : atrig) (e : elem) : bool :=
  match e with
  | ELit s l => negb (tok_matches g (TLit s l))
  | EVals _ => match g with GVal | GLead LNone => false | _ => true end
  | ETypes _ => negb (type_may_match g)
  | EFunTy _ _ => negb (tok_matches g lparen)
  | EAttr _ _ (AKUnit _) _ _ => true
  | EAttr _ _ _ _ _ => negb (attr_may_match g)
  | EAttrDict kw _ _ => if kw then negb (tok_matches g (TLit "attributes" LNone))
                        else negb (tok_matches g (TLit "{" LBrace))
  end.

(* what may follow the operation: a %value (result of the next operation), a string literal (generic
   operation name), or a bare word / punctuation that is none of the format's own literals *)
Definition follow_safe (g : atrig) : bool :=
  match g with
  | GVal | GAttr => false
  | GLead LNone | GLead LAttr => false
  | _ => true
  end.

(* after a terminator: only the closing `}` of the region or the label of the next block *)
Definition follow_safe_term (g : atrig) : bool :=
  match g with
  | GLead LNone => false
  | _ => true
  end.
(* g matches no token that the directives k (then the follower) can print first *)
Fixpoint nf (d : opdef) (g : atrig) (k : list dir) : bool :=
  match k with
  | [] => if od_terminator d then follow_safe_term g else follow_safe g
  | DE e :: r => first_safe g e && (always_prints d e || nf d g r)
  | DGroup _ fe _ :: r => first_safe g fe && nf d g r
  end.
Definition nf_all (d : opdef) (gs : list atrig) (k : list dir) : bool := forallb (fun g => nf d g k) gs.

(* ------------------------------------------------------------------ per-element conditions *)
Definition src_in_range (d : opdef) (s : src) : bool :=
  match s with
  | SOperand k => Nat.ltb k (length (od_operands d))
  | SResult k => Nat.ltb k (length (od_results d))
  | SOperands => Nat.leb (length (filter is_varlike (kinds (od_operands d)))) 1
  | SResults => Nat.leb (length (filter is_varlike (kinds (od_results d)))) 1
  end.
Definition vals_src (s : src) : bool := match s with SOperand _ | SOperands => true | _ => false end.
Definition opt_av_eqb (a b : option av) : bool :=
  match a, b with
  | Some x, Some y => av_eqb x y
  | None, None => true
  | _, _ => false
  end.
Definition the_adef (d : opdef) (name : string) (isprop : bool) : option adef :=
  find_adef name (if isprop then od_props d else od_attrs d).
(* the directive's copy of (optional, default) is the definition's *)
Definition attr_decl_ok (d : opdef) (name : string) (isprop : bool) (k : akind) (optional : bool) (dflt : option av) : bool :=
  match the_adef d name isprop with
  | Some a => Bool.eqb (ad_optional a) optional && opt_av_eqb (ad_default a) dflt
              && match k with
                 | AKUnit u => match ad_unit a with Some u' => av_eqb u u' | None => false end
                 | _ => true
                 end
  | None => false
  end.

(* an element outside any group *)
Definition elem_top_ok (d : opdef) (e : elem) : bool :=
  match e with
  | ELit s _ => negb (String.eqb s "attributes")
  | EVals s => vals_src s && src_in_range d s
  | ETypes s => src_in_range d s
  | EFunTy a b => src_in_range d a && src_in_range d b
                  && match a with SOperand _ | SOperands => true | _ => false end
                  && match b with SResult _ | SResults => true | _ => false end
  | EAttr name isprop k optional dflt =>
      attr_decl_ok d name isprop k optional dflt &&
      match k with
      | AKUnit _ => false
      | AKGeneric => optional || match dflt with None => true | Some _ => false end
      | AKShort trig =>
          if optional then match trig with Some _ => true | None => false end
          else match dflt with None => true | Some _ => false end
      end
  | EAttrDict _ _ _ => true
  end.

Definition src_eqb (a b : src) : bool :=
  match a, b with
  | SOperand x, SOperand y | SResult x, SResult y => Nat.eqb x y
  | SOperands, SOperands | SResults, SResults => true
  | _, _ => false
  end.
Definition src_varlike (d : opdef) (s : src) : bool :=
  match src_kind d s with Some KOpt | Some KVar => true | _ => false end.
(* an empty flat list must be distributable (set_empty of type(operands) / type(results)) *)
Definition empty_ok (d : opdef) (s : src) : bool :=
  match s with
  | SOperands => forallb is_varlike (kinds (od_operands d))
  | SResults => forallb is_varlike (kinds (od_results d))
  | _ => true
  end.

(* element of a group anchored on the values/types of source s *)
Definition elem_in_src_group (d : opdef) (s : src) (e : elem) : bool :=
  match e with
  | ELit l _ => negb (String.eqb l "attributes")
  | EVals s' => src_eqb s s' && vals_src s
  | ETypes s' => src_eqb s s'
  | _ => false
  end.
(* element of a group anchored on attribute (name, isprop) *)
Definition elem_in_attr_group (d : opdef) (name : string) (isprop : bool) (dflt : option av) (e : elem) : bool :=
  match e with
  | ELit l _ => negb (String.eqb l "attributes")
  | EAttr n p k optional dflt' =>
      String.eqb n name && Bool.eqb p isprop && opt_av_eqb dflt dflt' && attr_decl_ok d n p k optional dflt'
  | _ => false
  end.
Definition is_attr_elem (e : elem) : bool := match e with EAttr _ _ _ _ _ => true | _ => false end.

Definition group_ok (d : opdef) (a : anchor) (fe : elem) (ts : list elem) : bool :=
  match a with
  | AnVals s | AnTypes s =>
      src_in_range d s && src_varlike d s && empty_ok d s &&
      (match a with AnVals _ => vals_src s | _ => true end) &&
      match fe with
      | ELit l _ => negb (String.eqb l "attributes")
      | EVals s' => src_eqb s s' && vals_src s
      | _ => false
      end &&
      forallb (elem_in_src_group d s) ts
  | AnAttr name isprop dflt =>
      match fe with
      | ELit l _ => negb (String.eqb l "attributes")
      | EAttr n p AKGeneric true dflt' =>
          String.eqb n name && Bool.eqb p isprop && opt_av_eqb dflt dflt' && attr_decl_ok d n p AKGeneric true dflt'
      | _ => false
      end &&
      forallb (elem_in_attr_group d name isprop dflt) ts &&
      existsb is_attr_elem (fe :: ts)
  end.

(* lookahead of every element of a list, the continuation after the list being k *)
Fixpoint look_elems (d : opdef) (es : list elem) (k : list dir) : bool :=
  match es with
  | [] => true
  | e :: r => nf_all d (trig_in_group d e) (map DE r ++ k) && look_elems d r k
  end.
Fixpoint look_dirs (d : opdef) (f : list dir) : bool :=
  match f with
  | [] => true
  | DE e :: k => nf_all d (trig_of d e) k && look_dirs d k
  | DGroup a fe ts :: k =>
      nf_all d (trig_first d fe) k           (* group absent: the first element must decline *)
      && look_elems d (fe :: ts) k           (* group present *)
      && look_dirs d k
  end.

(* ------------------------------------------------------------------ coverage *)
Definition all_elems (f : format) : list elem :=
  flat_map (fun x => match x with DE e => [e] | DGroup _ fe ts => fe :: ts end) f.
Definition top_elems (f : format) : list elem :=
  flat_map (fun x => match x with DE e => [e] | DGroup _ _ _ => [] end) f.

Definition sets_vals (k : nat) (e : elem) : bool :=
  match e with EVals (SOperand j) => Nat.eqb j k | EVals SOperands => true | _ => false end.
Definition sets_otys (k : nat) (e : elem) : bool :=
  match e with
  | ETypes (SOperand j) | EFunTy (SOperand j) _ => Nat.eqb j k
  | ETypes SOperands | EFunTy SOperands _ => true
  | _ => false
  end.
Definition sets_rtys (k : nat) (e : elem) : bool :=
  match e with
  | ETypes (SResult j) | EFunTy _ (SResult j) => Nat.eqb j k
  | ETypes SResults | EFunTy _ SResults => true
  | _ => false
  end.
(* a top-level, always printed, single type position constrained by VarConstraint v *)
Definition binds_var (d : opdef) (v : Z) (e : elem) : bool :=
  let pos s := match s with
               | SOperand j => match nth_error (od_operands d) j with
                               | Some (mkVdef KSingle (TCVar v')) => Z.eqb v v'
                               | _ => false
                               end
               | SResult j => match nth_error (od_results d) j with
                              | Some (mkVdef KSingle (TCVar v')) => Z.eqb v v'
                              | _ => false
                              end
               | _ => false
               end in
  match e with
  | ETypes s => pos s
  | EFunTy a b => pos a || pos b
  | _ => false
  end.
Definition inferable (d : opdef) (f : format) (vd : vdef) : bool :=
  match vd_tyc vd with
  | TCConst _ => true
  | TCVar v => existsb (binds_var d v) (top_elems f)
  | _ => false
  end.
Fixpoint seq0 (n : nat) : list nat := match n with O => [] | S m => seq0 m ++ [m] end.
Definition coverage_ok (d : opdef) (f : format) : bool :=
  let es := all_elems f in
  forallb (fun k => existsb (sets_vals k) es) (seq0 (length (od_operands d))) &&
  forallb (fun k => existsb (sets_otys k) es || inferable d f (nth k (od_operands d) (mkVdef KSingle TCAny)))
          (seq0 (length (od_operands d))) &&
  forallb (fun k => existsb (sets_rtys k) es ||
                    (match vd_kind (nth k (od_results d) (mkVdef KVar TCAny)) with KSingle => true | _ => false end
                     && inferable d f (nth k (od_results d) (mkVdef KVar TCAny))))
          (seq0 (length (od_results d))).

Definition binds_attr (name : string) (isprop : bool) (e : elem) : bool :=
  match e with EAttr n p _ _ _ => String.eqb n name && Bool.eqb p isprop | _ => false end.
Definition the_dict (f : format) : option (bool * list string * list string) :=
  match filter (fun e => match e with EAttrDict _ _ _ => true | _ => false end) (all_elems f),
        filter (fun e => match e with EAttrDict _ _ _ => true | _ => false end) (top_elems f) with
  | [EAttrDict kw r x], [_] => Some (kw, r, x)
  | _, _ => None
  end.
Definition attrs_ok (d : opdef) (f : format) : bool :=
  match the_dict f with
  | None => false
  | Some (_, reserved, expected) =>
      let es := all_elems f in
      (* every declared property is printed by a variable or goes through the dictionary *)
      forallb (fun a => existsb (binds_attr (ad_name a) true) es || mem (ad_name a) expected) (od_props d) &&
      forallb (fun n => mem n (adef_names (od_props d)) && negb (existsb (binds_attr n true) es)) expected &&
      (* attribute variables are reserved in the dictionary *)
      forallb (fun e => match e with EAttr n false _ _ _ => mem n reserved | _ => true end) es &&
      (* no name is both a property and an attribute definition *)
      forallb (fun a => negb (mem (ad_name a) (adef_names (od_props d)))) (od_attrs d) &&
      (* a property printed in the dictionary is not a reserved name *)
      forallb (fun n => negb (mem n reserved)) expected &&
      (* definition names are unique *)
      nodup_strs (adef_names (od_props d)) && nodup_strs (adef_names (od_attrs d))
  end.

(* reserved names of the dictionary that no variable prints: an attribute with such a name is
   silently dropped by the printer (segment-size names are reserved whenever a variadic operand
   variable occurs, whether or not the operation has the AttrSized option) *)
Definition dropped_names (f : format) : list string :=
  match the_dict f with
  | Some (_, reserved, _) => filter (fun n => negb (existsb (binds_attr n false) (all_elems f))) reserved
  | None => []
  end.
Definition expected_names (f : format) : list string :=
  match the_dict f with Some (_, _, expected) => expected | None => [] end.
(* instance conditions that depend on the format: the three shapes of instance that a checked
   format still cannot round-trip (each is a limitation of the printer, see the refutations):
   a lone function-type result in functional-type(...); a discardable attribute whose name the
   dictionary reserves without printing it; a discardable attribute named like a property that
   is printed inside the dictionary (printing raises ValueError) *)
(* (and a consistency condition of the abstraction: an attribute read by a parse_optional_* of a
   short syntax starts with the token that parser looks for -- `[` for a dense array, @ for a symbol) *)
Definition short_lead_ok (i : inst) (e : elem) : bool :=
  match e with
  | EAttr n p (AKShort (Some l)) true _ =>
      match attr_of i n p with Some a => lead_eqb (av_short a) l | None => true end
  | _ => true
  end.
Definition side_ok (fx : bool) (f : format) (i : inst) : bool :=
  (fx || funty_ok i f) && forallb (short_lead_ok i) (all_elems f) &&
  forallb (fun na => negb (mem (fst na) (dropped_names f)) && negb (mem (fst na) (expected_names f))) (i_attrs i).

(* ------------------------------------------------------------------ the checker *)
Definition dirs_ok (d : opdef) (f : format) : bool :=
  forallb (fun x => match x with
                    | DE e => elem_top_ok d e
                    | DGroup a fe ts => group_ok d a fe ts
                    end) f.

(* reason codes: 0 ok; 1 an element/group outside the proved shapes; 2 a lookahead conflict (a
   variadic/optional element may be followed by a token it would consume, or an absent group's
   first literal may follow); 3 some operand/type is neither printed nor inferable by the model;
   4 attribute/property bookkeeping *)
Definition fmt_code (d : opdef) (f : format) : Z :=
  if negb (dirs_ok d f) then 1%Z
  else if negb (look_dirs d f) then 2%Z
  else if negb (coverage_ok d f) then 3%Z
  else if negb (attrs_ok d f) then 4%Z
  else 0%Z.
Definition fmt_ok (d : opdef) (f : format) : bool := Z.eqb (fmt_code d f) 0.

Definition fmt_lits (f : format) : list string :=
  flat_map (fun e => match e with ELit s _ => [s] | _ => [] end) (all_elems f).
Definition is_follower (d : opdef) (f : format) (t : tok) : bool :=
  match t with
  | TVal _ => negb (od_terminator d)
  | TLit s l => (lead_eqb l LNone || (lead_eqb l LAttr && negb (od_terminator d)))
                && negb (mem s ("," :: "attributes" :: "(" :: "{" :: fmt_lits f))
  | _ => false
  end.
Definition rest_ok (d : opdef) (f : format) (rest : list tok) : bool :=
  match rest with [] => true | t :: _ => is_follower d f t end.
