(* C05/ProofsGroup.v -- optional groups: present (every element tied to the anchor is printed and read
   back) and absent (the first element declines, set_empty fills the slots with the instance's
   empty data). *)
From Coq Require Import ZArith String Bool Arith List Lia.
From XV Require Import C05.Model C05.Check C05.ProofsBase C05.ProofsTok C05.ProofsState C05.ProofsSplit
  C05.ProofsElem C05.ProofsLook.
Import ListNotations.
Local Open Scope string_scope.
Local Open Scope list_scope.

(* ------------------------------------------------------------------ groups on a source *)
Lemma kind_of_src_varlike : forall d s, src_varlike d s = true ->
  exists k, src_kind d s = Some k /\ kind_of_src d s = k /\ k <> KSingle.
Proof.
  intros d s H. unfold src_varlike in H. unfold kind_of_src.
  destruct (src_kind d s) as [[| |]|]; try discriminate; eexists; repeat split; discriminate.
Qed.

Lemma lit_declines : forall d l ld st tail,
  untrig [GLit l] tail -> parse_elem d (ELit l ld) st tail = Some (false, st, tail).
Proof.
  intros d l ld st tail Hu. cbn [parse_elem]. destruct tail as [|t r]; [reflexivity|].
  pose proof (Hu t eq_refl (GLit l) (or_introl eq_refl)) as H. simpl in H.
  destruct t as [s' l'| | | |kw dct]; cbn [is_lit]; try reflexivity.
  simpl in H. rewrite H. reflexivity.
Qed.
Lemma lit_accepts : forall d l ld st tail,
  parse_elem d (ELit l ld) st (TLit l ld :: tail) = Some (true, st, tail).
Proof. intros. cbn [parse_elem is_lit]. rewrite String.eqb_refl. reflexivity. Qed.

Lemma src_vals_types_nil : forall i s vs, vals_src s = true -> src_vals i s = Some vs ->
  (vs = [] <-> src_types i s = []).
Proof.
  intros i s vs Hv Hs. pose proof (vals_types_nonempty i s vs Hv Hs) as Hl.
  split; intro H.
  - subst vs. destruct (src_types i s); [reflexivity | simpl in Hl; lia].
  - rewrite H in Hl. destruct vs; [reflexivity | simpl in Hl; lia].
Qed.

(* an element of a present group anchored on source s (whose data is not empty) *)
Lemma src_group_elem_present : forall fx d i st s e tail,
  IOK d i -> agree d i st ->
  src_in_range d s = true -> src_varlike d s = true -> src_types i s <> [] ->
  elem_in_src_group d s e = true ->
  untrig (trig_in_group d e) tail ->
  exists ts flag st',
    print_elem fx d i e = Some ts /\
    parse_elem d e st (ts ++ tail) = Some (flag, st', tail) /\
    (match e with ETypes _ => True | _ => flag = true /\ ts <> [] end) /\
    agree d i st' /\ extends st st' /\ elem_done d i e st'.
Proof.
  intros fx d i st s e tail Hio Ha Hr Hvl Hne Hin Hu.
  destruct (kind_of_src_varlike d s Hvl) as [k [Hk [Hkk Hns]]].
  destruct e as [l ld|kw rs ex|s'|s'|x y|n p k' o dflt]; cbn [elem_in_src_group] in Hin; try discriminate.
  - (* literal *)
    exists [TLit l ld], true, st. split; [reflexivity|]. split; [apply lit_accepts|].
    split; [split; [reflexivity|discriminate]|]. split; [exact Ha|]. split; [apply extends_refl|exact I].
  - (* values *)
    apply andb_true_iff in Hin. destruct Hin as [He Hv]. apply src_eqb_eq in He. subst s'.
    destruct (src_vals_some i s Hv) as [vs Hvs].
    assert (vs <> []) as Hvne.
    { intro Hn. apply Hne. apply (src_vals_types_nil i s vs Hv Hvs). exact Hn. }
    cbn [trig_in_group] in Hu. rewrite Hkk in Hu. clear Hkk.
    destruct s as [j|j| |]; try discriminate.
    + simpl in Hk. destruct (nth_error (od_operands d) j) as [vd|] eqn:En; simpl in Hk; [|discriminate].
      inversion Hk; subst k. simpl in Hvs. inversion Hvs; subst vs.
      destruct (parse_vals_operand d i st j vd tail Hio Ha En) as [st' [Hp [Ha' [He' Hs']]]].
      { intro Hkv. rewrite Hkv in Hu. eapply untrig_comma; [apply in_eq|exact Hu]. }
      { intro Hn. exfalso. apply Hvne. exact Hn. }
      exists (sep (map TVal (vals_of i j))), true, st'.
      split; [reflexivity|]. split.
      { rewrite Hp. f_equal. f_equal. f_equal.
        destruct (vd_kind vd); [congruence| |]; unfold vals_of; destruct (map fst (nth j (i_operands i) [])); try reflexivity; exfalso; apply Hvne; reflexivity. }
      split; [split; [reflexivity|]|].
      { intro Hs. apply (proj1 (sep_nil_iff _)) in Hs. apply map_eq_nil in Hs. apply Hvne. exact Hs. }
      split; [exact Ha'|]. split; [exact He'|exact Hs'].
    + simpl in Hk. inversion Hk; subst k. simpl in Hvs. inversion Hvs; subst vs.
      simpl in Hr. apply Nat.leb_le in Hr.
      destruct (parse_vals_all d i st tail Hio Ha Hr) as [st' [Hp [Ha' [He' Hs']]]].
      { eapply untrig_comma; [apply in_eq|exact Hu]. }
      { intro Hn. exfalso. apply Hvne. exact Hn. }
      exists (sep (map TVal (concat (map (map fst) (i_operands i))))), true, st'.
      split; [reflexivity|]. split.
      { rewrite Hp. f_equal. f_equal. f_equal.
        destruct (concat (map (map fst) (i_operands i))); [exfalso; apply Hvne; reflexivity | reflexivity]. }
      split; [split; [reflexivity|]|].
      { intro Hs. apply (proj1 (sep_nil_iff _)) in Hs. apply map_eq_nil in Hs. apply Hvne. exact Hs. }
      split; [exact Ha'|]. split; [exact He'|exact Hs'].
  - (* types *)
    apply src_eqb_eq in Hin. subst s'.
    cbn [trig_in_group] in Hu. rewrite Hkk in Hu. clear Hkk.
    destruct (parse_types_ok d i st s k tail Hio Ha Hr Hk) as [st' [Hp [Ha' [He' Hs']]]].
    { intro Hkv. rewrite Hkv in Hu. eapply untrig_comma; [apply in_eq|exact Hu]. }
    { intro Hn. exfalso. apply Hne. exact Hn. }
    exists (sep (map TAttr (src_types i s))), (types_flag s k (src_types i s)), st'.
    split; [reflexivity|]. split; [exact Hp|]. split; [exact I|].
    split; [exact Ha'|]. split; [exact He'|exact Hs'].
Qed.

(* segments of an empty concatenation *)
Lemma concat_nil_nth : forall A (l : list (list A)) k, concat l = [] -> nth k l [] = [].
Proof.
  induction l as [|x r IH]; intros k H; simpl in *.
  - destruct k; reflexivity.
  - apply app_eq_nil in H. destruct H as [Hx Hr]. destruct k; [exact Hx | apply IH; exact Hr].
Qed.
Lemma concat_nil_all : forall A (l : list (list A)), concat l = [] -> l = map (fun _ => []) l.
Proof.
  induction l as [|x r IH]; intro H; simpl in *; [reflexivity|].
  apply app_eq_nil in H. destruct H as [-> Hr]. f_equal. apply IH; exact Hr.
Qed.

(* the data of source s is empty: set_empty of a tied element installs exactly that *)
Lemma src_group_elem_empty : forall d i st s e,
  IOK d i -> agree d i st ->
  src_in_range d s = true -> src_varlike d s = true -> empty_ok d s = true -> src_types i s = [] ->
  elem_in_src_group d s e = true ->
  exists st', set_empty d e st = Some st' /\ agree d i st' /\ extends st st' /\ elem_done d i e st'.
Proof.
  intros d i st s e Hio Ha Hr Hvl Hem Hnil Hin.
  destruct (kind_of_src_varlike d s Hvl) as [k [Hk [Hkk Hns]]]. clear Hkk.
  destruct e as [l ld|kw rs ex|s'|s'|x y|n p k' o dflt]; cbn [elem_in_src_group] in Hin; try discriminate.
  - exists st. split; [reflexivity|]. split; [exact Ha|]. split; [apply extends_refl|exact I].
  - apply andb_true_iff in Hin. destruct Hin as [He Hv]. apply src_eqb_eq in He. subst s'.
    destruct s as [j|j| |]; try discriminate.
    + simpl in Hk. destruct (nth_error (od_operands d) j) as [vd|] eqn:En; simpl in Hk; [|discriminate].
      inversion Hk; subst k.
      assert (j < length (od_operands d)) as Hj by (apply nth_error_Some; rewrite En; discriminate).
      assert (vals_of i j = []) as Hv0.
      { simpl in Hnil. unfold vals_of. apply map_eq_nil in Hnil. rewrite Hnil. reflexivity. }
      destruct (agree_set_vals d i st j Ha Hj) as [Ha' [He' Hs']]. rewrite Hv0 in *.
      exists (set_vals j [] st). cbn [set_empty]. rewrite En. simpl.
      destruct (vd_kind vd); [congruence| |]; (split; [reflexivity|]; split; [exact Ha'|]; split; [exact He'|exact Hs']).
    + simpl in Hnil.
      assert (concat (map (map fst) (i_operands i)) = []) as Hc.
      { rewrite concat_map_map in *. apply map_eq_nil in Hnil. rewrite Hnil. reflexivity. }
      pose proof (agree_set_all_vals d i st Ha (build_sizes_length _ _ _ (io_osz _ _ Hio))) as H3.
      simpl in H3. destruct H3 as [Ha' [He' Hs']].
      exists (set_all_vals (map (map fst) (i_operands i)) st). cbn [set_empty].
      split; [|split; [exact Ha'|split; [exact He'|exact Hs']]].
      unfold set_all_vals. f_equal. f_equal.
      rewrite (concat_nil_all _ _ Hc) at 1. rewrite !map_map.
      assert (length (p_vals st) = length (i_operands i)) as Hl.
      { rewrite (ag_len_v _ _ _ Ha). symmetry. apply build_sizes_length, (io_osz _ _ Hio). }
      clear - Hl. revert Hl. generalize (p_vals st). generalize (i_operands i).
      induction l as [|x r IH]; intros [|y q] Hl; simpl in *; try discriminate; try reflexivity.
      f_equal. apply IH. lia.
  - apply src_eqb_eq in Hin. subst s'.
    destruct (set_types_own d i st s Hio Ha Hr) as [st' [Hs Hrest]].
    exists st'. cbn [set_empty]. rewrite Hnil in Hs. split; [exact Hs|exact Hrest].
Qed.

(* ------------------------------------------------------------------ groups on an attribute *)
Lemma opt_av_eqb_eq : forall a b, opt_av_eqb a b = true -> a = b.
Proof.
  intros [x|] [y|] H; simpl in H; try discriminate; try reflexivity.
  apply av_eqb_eq in H; subst; reflexivity.
Qed.

Lemma attr_group_elem_present : forall fx d i st n p dflt a0 e tail,
  IOK d i -> agree d i st ->
  attr_of i n p = Some a0 -> is_default a0 dflt = false ->
  elem_in_attr_group d n p dflt e = true ->
  short_lead_ok i e = true ->
  exists ts st',
    print_elem fx d i e = Some ts /\
    parse_elem d e st (ts ++ tail) = Some (true, st', tail) /\
    (match e with EAttr _ _ (AKUnit _) _ _ => True | _ => ts <> [] end) /\
    agree d i st' /\ extends st st' /\ elem_done d i e st'.
Proof.
  intros fx d i st n p dflt a0 e tail Hio Ha Hat Hnd Hin Hsl.
  destruct e as [l ld|kw rs ex|s'|s'|x y|n' p' k o dflt']; cbn [elem_in_attr_group] in Hin; try discriminate.
  - exists [TLit l ld], st. split; [reflexivity|]. split; [apply lit_accepts|].
    split; [discriminate|]. split; [exact Ha|]. split; [apply extends_refl|exact I].
  - repeat (apply andb_true_iff in Hin; destruct Hin as [Hin ?]).
    apply String.eqb_eq in Hin. subst n'.
    match goal with H : Bool.eqb p' p = true |- _ => apply eqb_prop in H; subst p' end.
    match goal with H : opt_av_eqb dflt dflt' = true |- _ => apply opt_av_eqb_eq in H; subst dflt' end.
    match goal with H : attr_decl_ok d n p k o dflt = true |- _ => rename H into Hdecl end.
    destruct (parse_attr_present fx d i st n p k o dflt a0 tail Hio Ha Hdecl Hat Hnd) as [ts [st' [Hp [Hne [Hpa [Ha' [He' Hd']]]]]]].
    { intros l -> ->. cbn [short_lead_ok] in Hsl. rewrite Hat in Hsl.
      unfold short_item. cbn [tok_lead]. rewrite Hsl. reflexivity. }
    exists ts, st'. split; [exact Hp|]. split; [exact Hpa|]. split; [|auto].
    destruct k; auto.
Qed.
