(* C05/ProofsWit.v -- witnesses evaluated on the REGENERATED formats (Gen/C05_formats.v): the three
   side conditions of the round-trip theorem are necessary, two formats that the checker rejects
   are genuinely ambiguous, and the hypotheses of the theorem are satisfiable. *)
From Coq Require Import ZArith String Bool Arith List Lia.
From XV Require Import C05.Model C05.Check C05.ProofsBase C05.Proofs Gen.C05_formats.
Import ListNotations.
Local Open Scope string_scope.
Local Open Scope list_scope.

Fixpoint find_fmt (n : string) (l : list (string * (opdef * format))) : option (opdef * format) :=
  match l with
  | [] => None
  | (k, x) :: r => if String.eqb k n then Some x else find_fmt n r
  end.
Definition the_def (n : string) : opdef :=
  match find_fmt n all_formats with Some (d, _) => d | None => mkOpdef [] [] [] [] [] false end.
Definition the_fmt (n : string) : format :=
  match find_fmt n all_formats with Some (_, f) => f | None => [] end.


(* The witness formats below are literal copies of what the translator generated from the unchanged
   tree (func.call, func.return, llvm.fadd, pdl.replace, smt.declare_fun): the refutations stay valid
   as a record when a defect is repaired; whether the real code still fails is replayed on every run
   (known_findings.d/C05.json). *)
Definition av1 : av := mkAv 1 LType LNone.
Definition d_call : opdef := mkOpdef [mkVdef KVar TCAny] [mkVdef KVar TCAny] [mkAdef "callee" false None None] [] [] false.
Definition f_call : format :=
  [DE (EAttr "callee" true AKGeneric false None); DE (ELit "(" LParen); DE (EVals (SOperand 0)); DE (ELit ")" LNone);
   DE (EAttrDict false ["operandSegmentSizes"] []); DE (ELit ":" LNone); DE (EFunTy (SOperand 0) (SResult 0))].
Definition d_return : opdef := mkOpdef [mkVdef KVar TCAny] [] [] [] [] true.
Definition f_return : format :=
  [DE (EAttrDict false ["operandSegmentSizes"] []);
   DGroup (AnVals (SOperand 0)) (EVals (SOperand 0)) [ELit ":" LNone; ETypes (SOperand 0)]].
Definition d_fadd : opdef :=
  mkOpdef [mkVdef KSingle (TCVar 1); mkVdef KSingle (TCVar 1)] [mkVdef KSingle (TCVar 1)]
          [mkAdef "fastmathFlags" false (Some (mkAv 1 LAttr LNone)) None] [] [] false.
Definition f_fadd : format :=
  [DE (EVals (SOperand 0)); DE (ELit "," LNone); DE (EVals (SOperand 1)); DE (EAttrDict false [] ["fastmathFlags"]);
   DE (ELit ":" LNone); DE (ETypes (SOperand 0))].
Definition d_replace : opdef :=
  mkOpdef [mkVdef KSingle (TCConst av1); mkVdef KOpt (TCConst av1); mkVdef KVar TCAny] [] [] [] ["operandSegmentSizes"] false.
Definition f_replace : format :=
  [DE (EVals (SOperand 0)); DE (ELit "with" LNone);
   DGroup (AnVals (SOperand 2)) (ELit "(" LParen) [EVals (SOperand 2); ELit ":" LNone; ETypes (SOperand 2); ELit ")" LNone];
   DE (EVals (SOperand 1)); DE (EAttrDict false ["operandSegmentSizes"] [])].
Definition d_declare : opdef := mkOpdef [] [mkVdef KSingle TCAny] [mkAdef "namePrefix" true None None] [] [] false.
Definition f_declare : format :=
  [DGroup (AnAttr "namePrefix" true None) (EAttr "namePrefix" true AKGeneric true None) [];
   DE (EAttrDict false [] []); DE (ELit ":" LNone); DE (ETypes (SResult 0))].

Definition ty (n : Z) : av := mkAv n LType LNone.
Definition fnty (n : Z) : av := mkAv n LParen LNone.      (* a function type: its text starts with ( *)
Definition at_ (n : Z) : av := mkAv n LAttr LNone.
Definition sym (n : Z) : av := mkAv n LAt LNone.
Definition closing : list tok := [TLit "}" LNone].
Definition next_value : list tok := [TVal 999; TLit "=" LNone].

(* --- 1. functional-type(...) and a lone function-typed result (func.call) *)
Definition w_funty : inst := mkInst [[]] [[fnty 100]] [("callee", sym 101)] [].
Lemma funty_refuted :
  fmt_ok d_call f_call = true /\
  inst_ok d_call w_funty = true /\
  rest_ok d_call f_call closing = true /\
  side_ok false f_call w_funty = false /\
  roundtrip false d_call f_call w_funty closing = None /\
  (* with the repair of FunctionalTypeDirective.print the same instance round-trips *)
  side_ok true f_call w_funty = true /\
  roundtrip true d_call f_call w_funty closing = Some (w_funty, closing).
Proof. vm_compute. repeat split; reflexivity. Qed.

(* --- 2. a discardable attribute whose name the dictionary reserves without printing it (func.return) *)
Definition w_dropped : inst := mkInst [[(0%Z, ty 100)]] [] [] [("operandSegmentSizes", at_ 101)].
Lemma dropped_attr_refuted :
  fmt_ok d_return f_return = true /\
  inst_ok d_return w_dropped = true /\
  rest_ok d_return f_return closing = true /\
  side_ok true f_return w_dropped = false /\
  exists i', roundtrip true d_return f_return w_dropped closing = Some (i', closing)
             /\ lookup "operandSegmentSizes" (i_attrs i') = None
             /\ lookup "operandSegmentSizes" (i_attrs w_dropped) = Some (at_ 101).
Proof. vm_compute. repeat split; try reflexivity. eexists. repeat split; reflexivity. Qed.

(* --- 3. a discardable attribute named like a property printed in the dictionary (llvm.fadd):
   printing raises *)
Definition w_clash : inst :=
  mkInst [[(0%Z, ty 100)]; [(1%Z, ty 100)]] [[ty 100]] [("fastmathFlags", at_ 101)] [("fastmathFlags", at_ 102)].
Lemma clash_refuted :
  fmt_ok d_fadd f_fadd = true /\
  inst_ok d_fadd w_clash = true /\
  side_ok true f_fadd w_clash = false /\
  print_fmt true d_fadd w_clash f_fadd = None.
Proof. vm_compute. repeat split; reflexivity. Qed.

(* --- 4. a format the checker rejects for a genuine reason: pdl.replace ends with an optional
   operand; when it is absent the next operation's result name is consumed *)
Definition w_replace : inst := mkInst [[(0%Z, ty 1)]; []; [(1%Z, ty 100)]] [] [] [].
Lemma trailing_optional_refuted :
  fmt_ok d_replace f_replace = false /\
  inst_ok d_replace w_replace = true /\
  rest_ok d_replace f_replace next_value = true /\
  (* the value defined by the next operation has become the replacement operation, and `=` is left over *)
  roundtrip true d_replace f_replace w_replace next_value
    = Some (mkInst [[(0%Z, ty 1)]; [(999%Z, ty 1)]; [(1%Z, ty 100)]] [] [] [], [TLit "=" LNone]) /\
  (* the same instance at the end of a block is fine *)
  roundtrip true d_replace f_replace w_replace closing = Some (w_replace, closing).
Proof. vm_compute. repeat split; reflexivity. Qed.

(* --- 5. smt.declare_fun: ($namePrefix^)? directly before attr-dict; without prefix a non-empty
   dictionary is taken for the prefix *)
Definition w_declare : inst := mkInst [] [[ty 100]] [] [("note", at_ 101)].
Lemma optional_attr_before_dict_refuted :
  fmt_ok d_declare f_declare = false /\
  inst_ok d_declare w_declare = true /\
  roundtrip true d_declare f_declare w_declare closing = None.
Proof. vm_compute. repeat split; reflexivity. Qed.

(* --- the hypotheses of the theorem are satisfiable on a real format with a group, a
   default-valued property printed in short form and an inferred type (arith.addi) *)
Definition w_addi : inst :=
  mkInst [[(0%Z, ty 100)]; [(1%Z, ty 100)]] [[ty 100]] [("overflowFlags", mkAv 101 LAttr LNone)] [("note", at_ 102)].
Lemma sound_nonvacuous :
  fmt_ok (the_def "arith.addi") (the_fmt "arith.addi") = true /\
  inst_ok (the_def "arith.addi") w_addi = true /\
  side_ok false (the_fmt "arith.addi") w_addi = true /\
  rest_ok (the_def "arith.addi") (the_fmt "arith.addi") next_value = true /\
  roundtrip false (the_def "arith.addi") (the_fmt "arith.addi") w_addi next_value = Some (w_addi, next_value).
Proof. vm_compute. repeat split; reflexivity. Qed.

(* --- every regenerated format passes the checker, except the listed ones *)
Definition not_shown : list string :=
  ["csl.activate"; "irdl.region"; "pdl.replace"; "seq.compreg"; "shard.shift"; "smt.declare_fun"].
Lemma formats_checked :
  forallb (fun x => mem (fst x) not_shown || fmt_ok (fst (snd x)) (snd (snd x))) all_formats = true.
Proof. vm_compute. reflexivity. Qed.

Lemma roundtrip_all : forall name d f,
  In (name, (d, f)) all_formats -> ~ In name not_shown ->
  forall fx i rest,
    inst_ok d i = true -> side_ok fx f i = true -> rest_ok d f rest = true ->
    exists i', roundtrip fx d f i rest = Some (i', rest) /\ inst_equiv d i' i.
Proof.
  intros name d f Hin Hns fx i rest Hi Hs Hr.
  pose proof formats_checked as H. rewrite forallb_forall in H. specialize (H _ Hin). simpl in H.
  apply orb_true_iff in H. destruct H as [H | H].
  - exfalso. apply Hns. apply mem_In. exact H.
  - destruct (c05_sound fx d f i rest H Hi Hs Hr) as [ts [i' [Hp [Hpa He]]]].
    exists i'. split; [|exact He]. unfold roundtrip. rewrite Hp. exact Hpa.
Qed.
