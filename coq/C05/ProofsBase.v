(* C05/ProofsBase.v -- the Spec the theorems are stated against (inst_equiv) and the invariants
   shared by the proof files, with their basic lemmas. *)
From Coq Require Import ZArith String Bool Arith List Lia.
From XV Require Import C05.Model C05.Check.
Import ListNotations.
Local Open Scope string_scope.
Local Open Scope list_scope.

(* ------------------------------------------------------------------ Spec: equivalence of instances
   Two instances are equivalent when they have the same operands (values and types) and result
   types and their property / attribute dictionaries have the same meaning, where a name that is
   absent means its declared default value (if the definition has one). *)
Definition adef_default (defs : list adef) (n : string) : option av :=
  match find_adef n defs with Some a => ad_default a | None => None end.
Definition lookup_def (defs : list adef) (dct : list (string * av)) (n : string) : option av :=
  match lookup n dct with Some a => Some a | None => adef_default defs n end.
Definition inst_equiv (d : opdef) (a b : inst) : Prop :=
  i_operands a = i_operands b /\
  i_results a = i_results b /\
  (forall n, lookup_def (od_props d) (i_props a) n = lookup_def (od_props d) (i_props b) n) /\
  (forall n, lookup_def (od_attrs d) (i_attrs a) n = lookup_def (od_attrs d) (i_attrs b) n).

(* ------------------------------------------------------------------ decidable equalities *)
Lemma lead_eqb_eq : forall a b, lead_eqb a b = true <-> a = b.
Proof. destruct a, b; simpl; split; intro H; try reflexivity; try discriminate. Qed.
Lemma lead_eqb_refl : forall a, lead_eqb a a = true.
Proof. destruct a; reflexivity. Qed.
Lemma av_eqb_eq : forall a b, av_eqb a b = true <-> a = b.
Proof.
  intros [ia fa sa] [ib fb sb]; unfold av_eqb; simpl.
  rewrite !andb_true_iff, Z.eqb_eq, !lead_eqb_eq. split.
  - intros [[-> ->] ->]; reflexivity.
  - intro H; inversion H; auto.
Qed.
Lemma av_eqb_refl : forall a, av_eqb a a = true.
Proof. intro a; apply av_eqb_eq; reflexivity. Qed.
Lemma is_default_eq : forall a dflt, is_default a dflt = true <-> dflt = Some a.
Proof.
  intros a [x|]; simpl.
  - rewrite av_eqb_eq. split; intro H; [subst; reflexivity | inversion H; reflexivity].
  - split; intro H; discriminate.
Qed.
Lemma mem_In : forall n l, mem n l = true <-> In n l.
Proof.
  intros n l; unfold mem; rewrite existsb_exists; split.
  - intros [x [Hin He]]. apply String.eqb_eq in He; subst; exact Hin.
  - intro H; exists n; split; [exact H | apply String.eqb_refl].
Qed.

(* ------------------------------------------------------------------ lookup *)
Lemma lookup_In : forall n a d, lookup n d = Some a -> In (n, a) d.
Proof.
  induction d as [|[k v] r IH]; simpl; intro H; [discriminate|].
  destruct (String.eqb k n) eqn:E.
  - apply String.eqb_eq in E; inversion H; subst; left; reflexivity.
  - right; apply IH; exact H.
Qed.
Lemma lookup_None_notin : forall n d, lookup n d = None -> ~ In n (map fst d).
Proof.
  induction d as [|[k v] r IH]; simpl; intros H; [tauto|].
  destruct (String.eqb k n) eqn:E; [discriminate|].
  intros [Hk|Hin]; [subst; rewrite String.eqb_refl in E; discriminate | exact (IH H Hin)].
Qed.
Lemma nodup_keys_lookup : forall d n a, nodup_keys d = true -> In (n, a) d -> lookup n d = Some a.
Proof.
  induction d as [|[k v] r IH]; simpl; intros n a Hnd Hin; [tauto|].
  apply andb_true_iff in Hnd; destruct Hnd as [Hk Hr].
  destruct Hin as [Heq|Hin].
  - inversion Heq; subst; rewrite String.eqb_refl; reflexivity.
  - destruct (String.eqb k n) eqn:E.
    + apply String.eqb_eq in E; subst.
      apply negb_true_iff in Hk.
      assert (mem n (map fst r) = true) as Hm.
      { apply mem_In. change n with (fst (n, a)). apply in_map; exact Hin. }
      rewrite Hm in Hk; discriminate.
    + apply IH; assumption.
Qed.

(* ------------------------------------------------------------------ parser-state invariants *)
Definition isset {A} (l : list (option A)) (k : nat) : Prop := exists x, nth_error l k = Some (Some x).
Definition vals_of (i : inst) (k : nat) : list Z := map fst (nth k (i_operands i) []).
Definition otys_of (i : inst) (k : nat) : list av := map snd (nth k (i_operands i) []).
Definition rtys_of (i : inst) (k : nat) : list av := nth k (i_results i) [].

(* whatever the state holds is the instance's data *)
Record agree (d : opdef) (i : inst) (st : pst) : Prop := mkAgree {
  ag_len_v : length (p_vals st) = length (od_operands d);
  ag_len_o : length (p_otys st) = length (od_operands d);
  ag_len_r : length (p_rtys st) = length (od_results d);
  ag_v : forall k vs, nth_error (p_vals st) k = Some (Some vs) -> vs = vals_of i k;
  ag_o : forall k ts, nth_error (p_otys st) k = Some (Some ts) -> ts = otys_of i k;
  ag_r : forall k ts, nth_error (p_rtys st) k = Some (Some ts) -> ts = rtys_of i k;
  ag_p : forall n a, lookup n (p_props st) = Some a -> lookup n (i_props i) = Some a;
  ag_a : forall n a, lookup n (p_attrs st) = Some a -> lookup n (i_attrs i) = Some a
}.

(* what the state holds at the end of the format *)
Definition final_cov (d : opdef) (f : format) (i : inst) (st : pst) : Prop :=
  (forall k, k < length (od_operands d) -> existsb (sets_vals k) (all_elems f) = true -> isset (p_vals st) k) /\
  (forall k, k < length (od_operands d) -> existsb (sets_otys k) (all_elems f) = true -> isset (p_otys st) k) /\
  (forall k, k < length (od_results d) -> existsb (sets_rtys k) (all_elems f) = true -> isset (p_rtys st) k) /\
  (forall n a, lookup n (i_props i) = Some a ->
     lookup n (p_props st) = Some a \/ is_default a (adef_default (od_props d) n) = true) /\
  (forall n a, lookup n (i_attrs i) = Some a ->
     lookup n (p_attrs st) = Some a \/ is_default a (adef_default (od_attrs d) n) = true).

Lemma agree_init : forall d i, agree d i (init_pst d).
Proof.
  intros d i; constructor; simpl; try (rewrite map_length; reflexivity).
  - intros k vs H. rewrite nth_error_map in H. destruct (nth_error (od_operands d) k); discriminate.
  - intros k vs H. rewrite nth_error_map in H. destruct (nth_error (od_operands d) k); discriminate.
  - intros k vs H. rewrite nth_error_map in H. destruct (nth_error (od_results d) k); discriminate.
  - intros; discriminate.
  - intros; discriminate.
Qed.

(* ------------------------------------------------------------------ set_nth *)
Lemma set_nth_length : forall A (l : list A) n x, length (set_nth n x l) = length l.
Proof. induction l as [|y r IH]; intros [|n] x; simpl; auto. Qed.
Lemma nth_error_set_nth_eq : forall A (l : list A) n x, n < length l -> nth_error (set_nth n x l) n = Some x.
Proof. induction l as [|y r IH]; intros [|n] x H; simpl in *; try lia; auto. apply IH; lia. Qed.
Lemma nth_error_set_nth_neq : forall A (l : list A) n m x, n <> m -> nth_error (set_nth n x l) m = nth_error l m.
Proof.
  induction l as [|y r IH]; intros [|n] [|m] x H; simpl; auto; try congruence.
Qed.
