(* C08/Enc.v -- encoders of model results for the correspondence check (no proofs). *)
From Coq Require Import ZArith List Bool.
From XV Require Import Base.Show C08.Model.
Import ListNotations.
Local Open Scope Z_scope.

(* structural equality of hash keys: the model's prediction of `hash(a) == hash(b)`
   (sound direction proved; the converse holds up to collisions of CPython's hash functions) *)
Fixpoint hk_eqb (a b : hk) {struct a} : bool :=
  match a, b with
  | HZ x, HZ y => x =? y
  | HBuf x, HBuf y => list_eqb Z.eqb x y
  | HId x, HId y => x =? y
  | HTup x, HTup y => list_eqb hk_eqb x y
  | HXor x, HXor y => list_eqb hk_eqb x y
  | HFset x, HFset y => list_eqb hk_eqb x y
  | HSum x, HSum y => list_eqb hk_eqb x y
  | _, _ => false
  end.

Definition triple_gen (e : pyval -> pyval -> bool) (h : pyval -> hk) (a b c : pyval) : sx :=
  let vs := [a; b; c] in
  L [ L (flat_map (fun x => map (fun y => sB (e x y)) vs) vs);
      sLB [hk_eqb (h a) (h b); hk_eqb (h a) (h c); hk_eqb (h b) (h c)] ].
(* 3x3 matrix of `==` (row-major) and hash equality of the pairs ab, ac, bc *)
Definition c08_triple : pyval -> pyval -> pyval -> sx := triple_gen eqb hkey.          (* unchanged tree *)
Definition c08_triple_fix : pyval -> pyval -> pyval -> sx := triple_gen eqb_fix hkey_fix.  (* repair C08-1 *)

(* IntegerAttr construction: stored values (or [] for VerifyException), `==` and hash equality *)
Definition sgn (k : Z) : signedness := if k =? 0 then Signless else if k =? 1 then Signed else Unsigned.
Definition c08_int (k w v1 v2 : Z) (tr : bool) : sx :=
  let s := sgn k in
  let o1 := integer_attr_value s w v1 tr in
  let o2 := integer_attr_value s w v2 tr in
  match mk_integer_attr s w v1 tr, mk_integer_attr s w v2 tr with
  | Some a, Some b => L [sOpt I o1; sOpt I o2; sB (eqb a b); sB (hk_eqb (hkey a) (hkey b))]
  | _, _ => L [sOpt I o1; sOpt I o2; I (-1); I (-1)]
  end.
Definition zrange (lo n : Z) : list Z := map (fun i => lo + Z.of_nat i) (seq 0 (Z.to_nat n)).
(* all pairs v1, v2 in [lo, lo+n) in row-major order *)
Definition c08_int_sweep (k w lo n : Z) (tr : bool) : sx :=
  L (flat_map (fun v1 => map (fun v2 => c08_int k w v1 v2 tr) (zrange lo n)) (zrange lo n)).
(* the same for every width in `ws`, values in [-2^w - 2, 2^w + 2] *)
Definition c08_int_sweep_ws (k : Z) (ws : list Z) (tr : bool) : sx :=
  L (flat_map (fun w =>
       let lo := - 2 ^ w - 2 in let n := 2 * 2 ^ w + 5 in
       flat_map (fun v1 => map (fun v2 => c08_int k w v1 v2 tr) (zrange lo n)) (zrange lo n)) ws).

(* OperationInfo: regions are given by the id of their structural class *)
Definition mk_oi (name : list Z) (attrs props results : list pyval) (operands regions : list Z) : opinfo Z :=
  Build_opinfo Z name attrs props results operands regions.
Definition enc_eqres (r : eqres) : sx :=
  match r with EqTrue => I 1 | EqFalse => I 0 | EqValueError => L [I (-1); I 3] end.
Definition opinfo_gen (e : pyval -> pyval -> bool) (h : pyval -> hk) (a b : opinfo Z) : sx :=
  let he := hk_eqb (oi_hkey Z h a) (oi_hkey Z h b) in
  L [enc_eqres (oi_eq_with Z Z.eqb e he a b); enc_eqres (oi_eq_with Z Z.eqb e he b a); sB he].
Definition c08_opinfo : opinfo Z -> opinfo Z -> sx := opinfo_gen eqb hkey.
Definition c08_opinfo_fix : opinfo Z -> opinfo Z -> sx := opinfo_gen eqb_fix hkey_fix.

(* a sequence of attributes built one after the other in one process: n x n matrices (row-major) of
   `==` and of hash equality *)
Definition seq_gen (e : pyval -> pyval -> bool) (h : pyval -> hk) (vs : list pyval) : sx :=
  L [ L (flat_map (fun x => map (fun y => sB (e x y)) vs) vs);
      L (flat_map (fun x => map (fun y => sB (hk_eqb (h x) (h y))) vs) vs) ].
Definition c08_seq : list pyval -> sx := seq_gen eqb hkey.
Definition c08_seq_fix : list pyval -> sx := seq_gen eqb_fix hkey_fix.
