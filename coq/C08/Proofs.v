(* C08/Proofs.v -- specifications and proofs for property C08 (attribute equality/hashing). *)
From Coq Require Import ZArith List Bool Lia ZifyBool.
From XV Require Import C08.Model.
Import ListNotations.
Local Open Scope Z_scope.

(* ------------------------------------------------------------------ induction on nested values *)
Section PyvalInd.
  Variable P : pyval -> Prop.
  Hypothesis HInt : forall z, P (VInt z).
  Hypothesis HStr : forall s, P (VStr s).
  Hypothesis HBytes : forall b, P (VBytes b).
  Hypothesis HEnum : forall k, P (VEnum k).
  Hypothesis HTuple : forall l, Forall P l -> P (VTuple l).
  Hypothesis HUnord : forall k l, Forall P l -> P (VUnord k l).
  Hypothesis HFloat : forall b o, P (VFloatData b o).
  Hypothesis HData : forall c p, P p -> P (VData c p).
  Hypothesis HParam : forall c l, Forall P l -> P (VParam c l).
  Fixpoint pyval_ind' (a : pyval) : P a :=
    let fix go (l : list pyval) : Forall P l :=
      match l with
      | [] => Forall_nil P
      | x :: t => Forall_cons x (pyval_ind' x) (go t)
      end in
    match a with
    | VInt z => HInt z
    | VStr s => HStr s
    | VBytes b => HBytes b
    | VEnum k => HEnum k
    | VTuple l => HTuple l (go l)
    | VUnord k l => HUnord k l (go l)
    | VFloatData b o => HFloat b o
    | VData c p => HData c p (pyval_ind' p)
    | VParam c l => HParam c l (go l)
    end.
End PyvalInd.

(* ------------------------------------------------------------------ lists *)
Lemma list_eqb_map_iff {A B} (f : A -> A -> bool) (r : A -> B) (l1 : list A) :
  Forall (fun x => forall y, f x y = true <-> r x = r y) l1 ->
  forall l2, list_eqb f l1 l2 = true <-> map r l1 = map r l2.
Proof.
  induction 1 as [|x t Hx Ht IH]; intros [|y l2]; cbn; split; intro E;
    try reflexivity; try discriminate.
  - apply andb_true_iff in E. destruct E as [E1 E2].
    apply Hx in E1. apply IH in E2. congruence.
  - injection E as E1 E2. apply andb_true_iff. split; [apply Hx | apply IH]; assumption.
Qed.

Lemma list_eqb_Z_iff (l1 l2 : list Z) : list_eqb Z.eqb l1 l2 = true <-> l1 = l2.
Proof.
  rewrite (list_eqb_map_iff Z.eqb (fun x => x)).
  - now rewrite !map_id.
  - apply Forall_forall. intros x _ y. apply Z.eqb_eq.
Qed.

Lemma ukind_eqb_iff k1 k2 : ukind_eqb k1 k2 = true <-> k1 = k2.
Proof. destruct k1, k2; cbn; split; congruence. Qed.

(* ------------------------------------------------------------------ FloatData.__eq__ on bits *)
Lemma is_nan_canon : is_nan CANON_NAN = true.  Proof. reflexivity. Qed.
Lemma is_zero_0 : is_zero 0 = true.            Proof. reflexivity. Qed.

(* the unchanged FloatData.__eq__ identifies exactly: all NaNs with each other, +0 with -0 *)
Lemma fd_eq_cur_iff b1 b2 : fd_eq_cur b1 b2 = true <-> relax_bits b1 = relax_bits b2.
Proof.
  unfold fd_eq_cur, py_float_eq, relax_bits.
  destruct (is_nan b1) eqn:N1, (is_nan b2) eqn:N2; cbn [andb orb negb].
  - split; reflexivity.
  - split; [discriminate|].
    destruct (is_zero b2) eqn:Z2; intro E; [discriminate E|].
    subst b2. rewrite is_nan_canon in N2. discriminate N2.
  - split; [discriminate|].
    destruct (is_zero b1) eqn:Z1; intro E; [discriminate E|].
    subst b1. rewrite is_nan_canon in N1. discriminate N1.
  - destruct (is_zero b1) eqn:Z1, (is_zero b2) eqn:Z2; cbn [andb orb negb].
    + rewrite orb_true_r. split; reflexivity.
    + rewrite orb_false_r, Z.eqb_eq. split; intro E.
      * subst b2. rewrite Z1 in Z2. discriminate Z2.
      * subst b2. rewrite is_zero_0 in Z2. discriminate Z2.
    + rewrite orb_false_r, Z.eqb_eq. split; intro E.
      * subst b2. rewrite Z1 in Z2. discriminate Z2.
      * subst b1. rewrite is_zero_0 in Z1. discriminate Z1.
    + rewrite orb_false_r. apply Z.eqb_eq.
Qed.

Lemma fd_eq_fix_iff b1 b2 : fd_eq_fix b1 b2 = true <-> b1 = b2.
Proof. apply Z.eqb_eq. Qed.

(* ------------------------------------------------------------------ equality = equality of observables *)
Section EqIff.
  Variable feq : Z -> Z -> bool.
  Variable r : Z -> Z.
  Hypothesis feq_iff : forall b1 b2, feq b1 b2 = true <-> r b1 = r b2.

  Lemma eqb_gen_iff a : forall b, eqb_gen feq a b = true <-> map_bits r a = map_bits r b.
  Proof.
    induction a as [z|s|bs|k|l IH|k l IH|b o|c p IH|c l IH] using pyval_ind';
      intros [z2|s2|bs2|k2|l2|k2 l2|b2 o2|c2 p2|c2 l2]; cbn [eqb_gen map_bits];
      try (split; intro E; discriminate E).
    - rewrite Z.eqb_eq. split; congruence.
    - rewrite list_eqb_Z_iff. split; congruence.
    - rewrite list_eqb_Z_iff. split; congruence.
    - rewrite list_eqb_Z_iff. split; congruence.
    - rewrite (list_eqb_map_iff _ (map_bits r) l IH). split; congruence.
    - rewrite andb_true_iff, ukind_eqb_iff, (list_eqb_map_iff _ (map_bits r) l IH).
      split; [intros [E1 E2]; congruence | intro E; injection E; auto].
    - rewrite feq_iff. split; congruence.
    - rewrite andb_true_iff, Z.eqb_eq, IH.
      split; [intros [E1 E2]; congruence | intro E; injection E; auto].
    - rewrite andb_true_iff, Z.eqb_eq, (list_eqb_map_iff _ (map_bits r) l IH).
      split; [intros [E1 E2]; congruence | intro E; injection E; auto].
  Qed.
End EqIff.

(* Characterisation of the unchanged tree's `==`: structural equality up to the sign of float
   zeros, the payload of NaNs and the identity of float objects. *)
Theorem eqb_iff_relax a b : eqb a b = true <-> relax a = relax b.
Proof. apply (eqb_gen_iff fd_eq_cur relax_bits fd_eq_cur_iff). Qed.

(* With repair C08-1: equality is exactly equality of observables. *)
Theorem eqb_fix_iff_obs a b : eqb_fix a b = true <-> obs a = obs b.
Proof. apply (eqb_gen_iff fd_eq_fix (fun x => x) fd_eq_fix_iff). Qed.

Lemma bool_eq_of_iff (x y : bool) : (x = true <-> y = true) -> x = y.
Proof. destruct x, y; intros [H1 H2]; try reflexivity; [symmetry; now apply H1 | now apply H2]. Qed.

(* --- Spec: an equivalence relation, stated on the boolean function *)
Definition is_equivalence (e : pyval -> pyval -> bool) : Prop :=
  (forall a, e a a = true) /\
  (forall a b, e a b = e b a) /\
  (forall a b c, e a b = true -> e b c = true -> e a c = true).

Lemma equivalence_of_kernel (e : pyval -> pyval -> bool) (k : pyval -> pyval) :
  (forall a b, e a b = true <-> k a = k b) -> is_equivalence e.
Proof.
  intro H. repeat split.
  - intro a. now apply H.
  - intros a b. apply bool_eq_of_iff. rewrite !H. split; congruence.
  - intros a b c. rewrite !H. congruence.
Qed.

Theorem eqb_equivalence : is_equivalence eqb.
Proof. exact (equivalence_of_kernel eqb relax eqb_iff_relax). Qed.
Theorem eqb_fix_equivalence : is_equivalence eqb_fix.
Proof. exact (equivalence_of_kernel eqb_fix obs eqb_fix_iff_obs). Qed.

(* --- map_bits composition: relax factors through obs *)
Lemma map_bits_comp (f g : Z -> Z) a : map_bits f (map_bits g a) = map_bits (fun b => f (g b)) a.
Proof.
  induction a as [z|s|bs|k|l IH|k l IH|b o|c p IH|c l IH] using pyval_ind'; cbn [map_bits];
    try reflexivity; try (now rewrite IH);
    rewrite map_map; f_equal; apply map_ext_in; intros x Hx;
    (rewrite Forall_forall in IH); now apply IH.
Qed.

Lemma relax_obs a : relax (obs a) = relax a.
Proof. unfold relax, obs. now rewrite map_bits_comp. Qed.

(* Two attributes built from the same parameters (identical up to the identity of the float
   objects created by the constructors) are equal. *)
Theorem same_params_equal a b : obs a = obs b -> eqb a b = true.
Proof.
  intro E. apply eqb_iff_relax. rewrite <- (relax_obs a), <- (relax_obs b). now rewrite E.
Qed.
Theorem same_params_equal_fix a b : obs a = obs b -> eqb_fix a b = true.
Proof. apply eqb_fix_iff_obs. Qed.

(* --- observability *)
(* witnesses: f64 FloatAttr-like trees; class ids are arbitrary *)
Definition w_float (bits oid : Z) : pyval := VParam 7 [VFloatData bits oid; VParam 8 []].
Definition NEG_ZERO : Z := 9223372036854775808.          (* 0x8000000000000000 *)
Definition NAN_PAYLOAD_1 : Z := 9221120237041090561.     (* 0x7ff8000000000001 *)

Theorem observable_refuted_zero :
  obs (w_float 0 1) <> obs (w_float NEG_ZERO 2) /\ eqb (w_float 0 1) (w_float NEG_ZERO 2) = true.
Proof. split; [discriminate | vm_compute; reflexivity]. Qed.
Theorem observable_refuted_nan :
  obs (w_float CANON_NAN 1) <> obs (w_float NAN_PAYLOAD_1 2) /\
  eqb (w_float CANON_NAN 1) (w_float NAN_PAYLOAD_1 2) = true.
Proof. split; [discriminate | vm_compute; reflexivity]. Qed.

Theorem observable_refuted :
  (exists a b, obs a <> obs b /\ eqb a b = true /\ nan_free a = true /\ nan_free b = true) /\
  (exists a b, obs a <> obs b /\ eqb a b = true /\ relax a <> a).
Proof.
  split.
  - exists (w_float 0 1), (w_float NEG_ZERO 2).
    destruct observable_refuted_zero as [H1 H2]. repeat split; auto.
  - exists (w_float CANON_NAN 1), (w_float NAN_PAYLOAD_1 2).
    destruct observable_refuted_nan as [H1 H2]. repeat split; auto. discriminate.
Qed.

(* strongest statement that holds: attributes that differ in the coarser observable are unequal *)
Theorem observable_partial a b : relax a <> relax b -> eqb a b = false.
Proof.
  intro N. destruct (eqb a b) eqn:E; [|reflexivity]. apply eqb_iff_relax in E. contradiction.
Qed.

Lemma forallb_map_id {A} (p : A -> bool) (f : A -> A) l :
  Forall (fun x => p x = true -> f x = x) l -> forallb p l = true -> map f l = l.
Proof.
  induction 1 as [|x t Hx Ht IH]; cbn; intro E; [reflexivity|].
  apply andb_true_iff in E. destruct E as [E1 E2]. now rewrite Hx, IH.
Qed.

Lemma relax_bits_regular b : is_nan b = false -> is_zero b = false -> relax_bits b = b.
Proof. unfold relax_bits. now intros -> ->. Qed.

(* on attributes without zero / NaN float leaves nothing is lost: relax = obs *)
Lemma special_free_relax a : special_free a = true -> relax a = obs a.
Proof.
  unfold relax, obs.
  induction a as [z|s|bs|k|l IH|k l IH|b o|c p IH|c l IH] using pyval_ind';
    cbn [special_free map_bits]; intro S; try reflexivity.
  - f_equal. induction IH as [|x t Hx Ht IHt]; cbn in *; [reflexivity|].
    apply andb_true_iff in S. destruct S as [S1 S2]. now rewrite Hx, IHt.
  - f_equal. induction IH as [|x t Hx Ht IHt]; cbn in *; [reflexivity|].
    apply andb_true_iff in S. destruct S as [S1 S2]. now rewrite Hx, IHt.
  - apply andb_true_iff in S. destruct S as [S1 S2].
    rewrite relax_bits_regular; [reflexivity| |];
      [destruct (is_nan b)|destruct (is_zero b)]; auto; discriminate.
  - now rewrite IH.
  - f_equal. induction IH as [|x t Hx Ht IHt]; cbn in *; [reflexivity|].
    apply andb_true_iff in S. destruct S as [S1 S2]. now rewrite Hx, IHt.
Qed.

Theorem observable_partial_special_free a b :
  special_free a = true -> special_free b = true -> obs a <> obs b -> eqb a b = false.
Proof.
  intros Sa Sb N. apply observable_partial.
  rewrite (special_free_relax a Sa), (special_free_relax b Sb). exact N.
Qed.

Theorem observable_fix a b : obs a <> obs b -> eqb_fix a b = false.
Proof.
  intro N. destruct (eqb_fix a b) eqn:E; [|reflexivity]. apply eqb_fix_iff_obs in E. contradiction.
Qed.

(* ------------------------------------------------------------------ hashing *)
Lemma list_eqb_map_eq2 {A B} (e g : A -> A -> bool) (h : A -> B) (l1 : list A) :
  Forall (fun x => forall y, e x y = true -> g x y = true -> h x = h y) l1 ->
  forall l2, list_eqb e l1 l2 = true -> list_eqb g l1 l2 = true -> map h l1 = map h l2.
Proof.
  induction 1 as [|x t Hx Ht IH]; intros [|y l2]; cbn; intros E G;
    try reflexivity; try discriminate.
  apply andb_true_iff in E. destruct E as [E1 E2].
  apply andb_true_iff in G. destruct G as [G1 G2].
  f_equal; [now apply Hx | now apply IH].
Qed.

Lemma py_hash_float_zero b : is_zero b = true -> py_hash_float b = 0.
Proof. unfold py_hash_float. now intros ->. Qed.

Lemma fd_key_cur_consistent b1 o1 b2 o2 :
  fd_eq_cur b1 b2 = true ->
  (if is_nan b1 && is_nan b2 then o1 =? o2 else true) = true ->
  fd_key_cur b1 o1 = fd_key_cur b2 o2.
Proof.
  unfold fd_eq_cur, py_float_eq, fd_key_cur.
  destruct (is_nan b1) eqn:N1, (is_nan b2) eqn:N2; cbn [andb orb negb]; intros E G;
    try discriminate E.
  - apply Z.eqb_eq in G. now subst.
  - apply orb_true_iff in E. destruct E as [E|E].
    + apply Z.eqb_eq in E. now subst.
    + apply andb_true_iff in E. destruct E as [Z1 Z2].
      now rewrite (py_hash_float_zero b1 Z1), (py_hash_float_zero b2 Z2).
Qed.

(* Equal attributes have equal hash KEYS (hence equal hashes whatever CPython's hash functions
   are), provided corresponding NaN leaves are the same float object. *)
Theorem hkey_consistent_partial a :
  forall b, eqb a b = true -> nan_objs_agree a b = true -> hkey a = hkey b.
Proof.
  unfold eqb, hkey.
  induction a as [z|s|bs|k|l IH|k l IH|b o|c p IH|c l IH] using pyval_ind';
    intros [z2|s2|bs2|k2|l2|k2 l2|b2 o2|c2 p2|c2 l2];
    cbn [eqb_gen nan_objs_agree hkey_gen]; intros E G; try discriminate E.
  - apply Z.eqb_eq in E. now subst.
  - apply list_eqb_Z_iff in E. now subst.
  - apply list_eqb_Z_iff in E. now subst.
  - apply list_eqb_Z_iff in E. now subst.
  - f_equal. now apply (list_eqb_map_eq2 _ _ _ l IH).
  - apply andb_true_iff in E. destruct E as [E1 E2]. apply ukind_eqb_iff in E1. subst k2.
    destruct k; f_equal; now apply (list_eqb_map_eq2 _ _ _ l IH).
  - now apply fd_key_cur_consistent.
  - apply andb_true_iff in E. destruct E as [E1 E2]. f_equal. f_equal. now apply IH.
  - apply andb_true_iff in E. destruct E as [E1 E2]. f_equal.
    now apply (list_eqb_map_eq2 _ _ _ l IH).
Qed.

Lemma list_eqb_agree_of_free (e g : pyval -> pyval -> bool) (p : pyval -> bool) (l1 : list pyval) :
  Forall (fun x => forall y, p x = true -> e x y = true -> g x y = true) l1 ->
  forall l2, forallb p l1 = true -> list_eqb e l1 l2 = true -> list_eqb g l1 l2 = true.
Proof.
  induction 1 as [|x t Hx Ht IH]; intros [|y l2]; cbn; intros F E;
    try reflexivity; try discriminate.
  apply andb_true_iff in E. destruct E as [E1 E2].
  apply andb_true_iff in F. destruct F as [F1 F2].
  apply andb_true_iff. split; [now apply Hx | now apply IH].
Qed.

Lemma nan_free_agree a : forall b, nan_free a = true -> eqb a b = true -> nan_objs_agree a b = true.
Proof.
  unfold eqb.
  induction a as [z|s|bs|k|l IH|k l IH|b o|c p IH|c l IH] using pyval_ind';
    intros [z2|s2|bs2|k2|l2|k2 l2|b2 o2|c2 p2|c2 l2];
    cbn [eqb_gen nan_objs_agree nan_free]; intros F E; try reflexivity; try discriminate E.
  - now apply (list_eqb_agree_of_free _ _ _ l IH).
  - apply andb_true_iff in E. destruct E as [E1 E2]. now apply (list_eqb_agree_of_free _ _ _ l IH).
  - destruct (is_nan b); [discriminate F | reflexivity].
  - apply andb_true_iff in E. destruct E as [E1 E2]. now apply IH.
  - apply andb_true_iff in E. destruct E as [E1 E2]. now apply (list_eqb_agree_of_free _ _ _ l IH).
Qed.

Theorem hkey_consistent_nan_free a b : nan_free a = true -> eqb a b = true -> hkey a = hkey b.
Proof. intros F E. apply hkey_consistent_partial; [exact E | now apply nan_free_agree]. Qed.

(* the repaired hash key depends on the observable only *)
Lemma hkey_fix_obs a : hkey_fix (obs a) = hkey_fix a.
Proof.
  unfold hkey_fix, obs.
  induction a as [z|s|bs|k|l IH|k l IH|b o|c p IH|c l IH] using pyval_ind';
    cbn [map_bits hkey_gen]; try reflexivity.
  - f_equal. rewrite map_map. apply map_ext_in. intros x Hx.
    rewrite Forall_forall in IH. now apply IH.
  - destruct k; f_equal; rewrite map_map; apply map_ext_in; intros x Hx;
      rewrite Forall_forall in IH; now apply IH.
  - now rewrite IH.
  - f_equal. rewrite map_map. apply map_ext_in. intros x Hx.
    rewrite Forall_forall in IH. now apply IH.
Qed.

Theorem hkey_fix_consistent a b : eqb_fix a b = true -> hkey_fix a = hkey_fix b.
Proof.
  intro E. apply eqb_fix_iff_obs in E.
  rewrite <- (hkey_fix_obs a), <- (hkey_fix_obs b). now rewrite E.
Qed.

Section Oracles.
  Variable hash_buf : list Z -> Z.
  Variable hash_id : Z -> Z.
  Variable hash_tuple : list Z -> Z.
  Variable hash_fset : list Z -> Z.
  Let H := hash hash_buf hash_id hash_tuple hash_fset.
  Let Hfix := hash_fix hash_buf hash_id hash_tuple hash_fset.

  Theorem hash_consistent_partial a b :
    eqb a b = true -> nan_objs_agree a b = true -> H a = H b.
  Proof. intros E G. unfold H, hash. now rewrite (hkey_consistent_partial a b E G). Qed.

  Theorem hash_consistent_nan_free a b :
    nan_free a = true -> eqb a b = true -> H a = H b.
  Proof. intros F E. unfold H, hash. now rewrite (hkey_consistent_nan_free a b F E). Qed.

  Theorem hash_fix_consistent a b : eqb_fix a b = true -> Hfix a = Hfix b.
  Proof. intro E. unfold Hfix, hash_fix. now rewrite (hkey_fix_consistent a b E). Qed.

  (* CPython: two live objects have different addresses and _Py_HashPointer is a rotation *)
  Hypothesis hash_id_inj : forall i j, hash_id i = hash_id j -> i = j.

  Theorem hash_consistent_refuted :
    exists a b, eqb a b = true /\ obs a = obs b /\ H a <> H b.
  Proof.
    exists (VFloatData CANON_NAN 1), (VFloatData CANON_NAN 2).
    split; [vm_compute; reflexivity|]. split; [reflexivity|].
    unfold H, hash, hkey. cbn [hkey_gen]. unfold fd_key_cur. rewrite is_nan_canon. cbn [interp].
    intro E. apply hash_id_inj in E. discriminate E.
  Qed.

  (* ---------------------------------------------------------------- OperationInfo (CSE key) *)
  Variable R : Type.
  Variable req : R -> R -> bool.
  Variable aeq : pyval -> pyval -> bool.
  Variable akey : pyval -> hk.
  Let OE := oi_eq R req aeq akey hash_buf hash_id hash_tuple hash_fset.
  Let OH := oi_hash R akey hash_buf hash_id hash_tuple hash_fset.

  Theorem opinfo_consistent a b : OE a b = EqTrue -> OH a = OH b.
  Proof.
    unfold OE, OH, oi_eq, oi_eq_with.
    destruct (Z.eqb_spec (oi_hash R akey hash_buf hash_id hash_tuple hash_fset a)
                         (oi_hash R akey hash_buf hash_id hash_tuple hash_fset b)) as [E|N];
      cbn [negb]; [intros _; exact E | discriminate].
  Qed.

  Lemma list_eqb_refl {A} (f : A -> A -> bool) l : (forall x, f x x = true) -> list_eqb f l l = true.
  Proof. intro Hf. induction l as [|x t IH]; cbn; [reflexivity | now rewrite Hf, IH]. Qed.

  Lemma regions_all_refl l : (forall r, req r r = true) -> regions_all R req l l = EqTrue.
  Proof. intro Hr. induction l as [|x t IH]; cbn; [reflexivity | now rewrite Hr]. Qed.

  Theorem opinfo_refl a :
    (forall x, aeq x x = true) -> (forall r, req r r = true) -> OE a a = EqTrue.
  Proof.
    intros Ha Hr. unfold OE, oi_eq, oi_eq_with. rewrite Z.eqb_refl. cbn [negb].
    rewrite !(list_eqb_refl Z.eqb) by apply Z.eqb_refl.
    rewrite !(list_eqb_refl aeq) by exact Ha.
    cbn [negb]. now apply regions_all_refl.
  Qed.

  (* what an equal CSE key guarantees about the two operations; `k` is the observable that
     characterises attribute equality (relax for the unchanged tree, obs with repair C08-1) *)
  Variable k : pyval -> pyval.
  Hypothesis aeq_iff : forall x y, aeq x y = true <-> k x = k y.
  Theorem opinfo_eq_sound a b :
    OE a b = EqTrue ->
    oi_name R a = oi_name R b /\ map k (oi_attrs R a) = map k (oi_attrs R b) /\
    map k (oi_props R a) = map k (oi_props R b) /\ oi_operands R a = oi_operands R b /\
    map k (oi_results R a) = map k (oi_results R b) /\
    regions_all R req (oi_regions R a) (oi_regions R b) = EqTrue.
  Proof.
    unfold OE, oi_eq, oi_eq_with.
    destruct (_ =? _); cbn [negb]; [|discriminate].
    destruct (list_eqb Z.eqb (oi_name R a) (oi_name R b)) eqn:E1; cbn [negb]; [|discriminate].
    destruct (list_eqb aeq (oi_attrs R a) (oi_attrs R b)) eqn:E2; cbn [negb]; [|discriminate].
    destruct (list_eqb aeq (oi_props R a) (oi_props R b)) eqn:E3; cbn [negb]; [|discriminate].
    destruct (list_eqb Z.eqb (oi_operands R a) (oi_operands R b)) eqn:E4; cbn [negb]; [|discriminate].
    destruct (list_eqb aeq (oi_results R a) (oi_results R b)) eqn:E5; cbn [negb]; [|discriminate].
    intro E6.
    assert (K : forall l1 l2, list_eqb aeq l1 l2 = true -> map k l1 = map k l2).
    { intros l1 l2. apply list_eqb_map_iff. apply Forall_forall. intros x _ y. apply aeq_iff. }
    apply list_eqb_Z_iff in E1. apply list_eqb_Z_iff in E4.
    repeat split; auto.
  Qed.
End Oracles.

(* instances for the unchanged tree *)
Theorem opinfo_refl_cur (hash_buf : list Z -> Z) (hash_id : Z -> Z) (hash_tuple hash_fset : list Z -> Z)
        (R : Type) (req : R -> R -> bool) (a : opinfo R) :
  (forall r, req r r = true) -> oi_eq R req eqb hkey hash_buf hash_id hash_tuple hash_fset a a = EqTrue.
Proof. apply opinfo_refl. apply eqb_equivalence. Qed.

Theorem opinfo_eq_sound_cur (hash_buf : list Z -> Z) (hash_id : Z -> Z) (hash_tuple hash_fset : list Z -> Z)
        (R : Type) (req : R -> R -> bool) (a b : opinfo R) :
  oi_eq R req eqb hkey hash_buf hash_id hash_tuple hash_fset a b = EqTrue ->
  oi_name R a = oi_name R b /\ map relax (oi_attrs R a) = map relax (oi_attrs R b) /\
  map relax (oi_props R a) = map relax (oi_props R b) /\ oi_operands R a = oi_operands R b /\
  map relax (oi_results R a) = map relax (oi_results R b) /\
  regions_all R req (oi_regions R a) (oi_regions R b) = EqTrue.
Proof. apply opinfo_eq_sound. apply eqb_iff_relax. Qed.

(* ------------------------------------------------------------------ IntegerAttr normalisation *)
Lemma mod_window m x : 0 < m -> - m <= x < m -> x mod (2 * m) = if x <? 0 then x + 2 * m else x.
Proof.
  intros Hm Hx. destruct (Z.ltb_spec x 0); symmetry.
  - apply Z.mod_unique with (q := -1); lia.
  - apply Z.mod_unique with (q := 0); lia.
Qed.

Lemma signless_bounds w : 0 < w ->
  unsigned_ub w = 2 * 2 ^ (w - 1) /\ signed_lb w = - 2 ^ (w - 1) /\ signed_ub w = 2 ^ (w - 1) /\
  0 < 2 ^ (w - 1).
Proof.
  intro Hw. unfold unsigned_ub, signed_lb, signed_ub.
  assert (E : 2 ^ w = 2 * 2 ^ (w - 1)).
  { replace w with (Z.succ (w - 1)) at 1 by lia. apply Z.pow_succ_r. lia. }
  assert (P : 0 < 2 ^ (w - 1)) by (apply Z.pow_pos_nonneg; lia).
  repeat split; auto.
  - rewrite E, Z.shiftr_div_pow2 by lia. change (2 ^ 1) with 2.
    rewrite Z.mul_comm, Z.div_mul by lia. reflexivity.
  - rewrite Z.max_l by lia. reflexivity.
Qed.

(* A signless IntegerAttr of width w > 0 built from any two in-range integers: construction
   succeeds, and the two attributes store the same value iff the integers have the same
   w-bit pattern (e.g. 255 : i8 and -1 : i8). *)
Theorem integer_attr_signless_bits w v1 v2 :
  0 < w -> in_range Signless w v1 = true -> in_range Signless w v2 = true ->
  exists n1 n2,
    integer_attr_value Signless w v1 false = Some n1 /\
    integer_attr_value Signless w v2 false = Some n2 /\
    n1 mod 2 ^ w = v1 mod 2 ^ w /\
    (n1 = n2 <-> v1 mod 2 ^ w = v2 mod 2 ^ w).
Proof.
  intros Hw R1 R2.
  destruct (signless_bounds w Hw) as (Eu & El & Es & Pm).
  unfold integer_attr_value, normalized_value. rewrite R1, R2.
  unfold in_range, value_range in *. rewrite Es, Eu, El in *.
  replace (2 ^ w) with (2 * 2 ^ (w - 1)) by (symmetry; exact Eu).
  set (m := 2 ^ (w - 1)) in *.
  assert (N : forall v, (- m <=? v) && (v <? 2 * m) = true ->
              exists n, (if m <=? v then Some (v - 2 * m) else Some v) = Some n /\
                        - m <= n < m /\ n mod (2 * m) = v mod (2 * m) /\
                        (- m <=? n) && (n <? 2 * m) = true).
  { intros v Hv. destruct (Z.leb_spec m v).
    - exists (v - 2 * m). repeat split; try lia.
      replace (v - 2 * m) with (v + (-1) * (2 * m)) by lia. apply Z_mod_plus_full.
    - exists v. repeat split; lia. }
  destruct (N v1 R1) as (n1 & E1 & B1 & M1 & I1).
  destruct (N v2 R2) as (n2 & E2 & B2 & M2 & I2).
  exists n1, n2. rewrite E1, E2, I1, I2. repeat split; auto.
  - intro E. now rewrite <- M1, <- M2, E.
  - intro E. rewrite <- M1, <- M2 in E.
    rewrite (mod_window m n1 Pm B1), (mod_window m n2 Pm B2) in E.
    destruct (n1 <? 0) eqn:S1, (n2 <? 0) eqn:S2; lia.
Qed.

(* ------------------------------------------------------------------ class identity *)
(* Equality requires the identical class object while the hash ignores the class: two
   attributes with the same parameters whose classes are distinct objects (e.g. the
   UnregisteredAttr subclasses that every Context creates afresh for the same name) are unequal
   and hash alike. *)
Theorem distinct_class_objects_unequal c1 c2 ps :
  c1 <> c2 -> eqb (VParam c1 ps) (VParam c2 ps) = false /\ hkey (VParam c1 ps) = hkey (VParam c2 ps).
Proof.
  intro N. split; [|reflexivity].
  unfold eqb. cbn [eqb_gen]. destruct (Z.eqb_spec c1 c2); [contradiction | reflexivity].
Qed.
