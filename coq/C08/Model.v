(* C08/Model.v -- executable model of attribute equality and hashing in xDSL.
   Definitions ONLY (no proofs).

   What is mirrored (pinned tree, CPython 3.12, 64-bit little-endian build):

   * xdsl/ir/core.py  `Data` / `ParametrizedAttribute` and every `@irdl_attr_definition` class:
     `dataclass(frozen=True)` generates
         __eq__  : other.__class__ is self.__class__ and (f1,..,fn) == (g1,..,gn)
         __hash__: hash((f1,..,fn))                         (the class is NOT hashed)
     where the fields are `data` (Data) or the parameters (ParametrizedAttribute).
   * xdsl/dialects/builtin.py `FloatData.__eq__/__hash__`, exactly as written:
         isinstance(other, FloatData) and ((isnan(a) and isnan(b)) or a == b)  ;  hash(a)
   * xdsl/dialects/builtin.py `IntegerType.normalized_value` + `IntegerAttr.__init__/verify`.
   * xdsl/transforms/common_subexpression_elimination.py `OperationInfo.__eq__/__hash__`.

   Python values that occur as attribute payloads are one inductive type `pyval`; an
   *attribute* is a `VFloatData`, `VData` or `VParam` node.  A Python float lives only inside
   `FloatData` (no other Data class of the tree stores a float), so `VFloatData bits oid` carries
   the binary64 bit pattern of `self.data` and the identity `oid` of that float object
   (CPython >= 3.10 hashes a NaN by object identity).
   Canonical representations chosen by the harness (CPython semantics, not xDSL code): a dict
   payload (immutabledict) is the list of its (key, value) pairs sorted by key, a frozenset the
   sorted list of its members; an enum member is its hash key (value of a StrEnum, name otherwise).

   Python's tuple/dict comparison first tries `x is y`; the model omits that shortcut, which is
   unobservable because the modelled `==` is reflexive (theorem C08_equivalence). *)
From Coq Require Import ZArith List Bool.
Import ListNotations.
Local Open Scope Z_scope.

(* ------------------------------------------------------------------ values *)
Inductive ukind := UDict | UFrozenset.

Inductive pyval :=
| VInt (z : Z)                         (* int *)
| VStr (s : list Z)                    (* str, as code points *)
| VBytes (b : list Z)                  (* bytes *)
| VEnum (key : list Z)                 (* enum member (class fixed by the attribute class) *)
| VTuple (l : list pyval)              (* tuple *)
| VUnord (k : ukind) (l : list pyval)  (* immutabledict as sorted [VTuple [k; v]] / frozenset, sorted *)
| VFloatData (bits oid : Z)            (* FloatData(data = float object #oid with these binary64 bits) *)
| VData (cls : Z) (p : pyval)          (* any other Data subclass instance: class id, payload *)
| VParam (cls : Z) (ps : list pyval).  (* ParametrizedAttribute instance: class id, parameters *)

Definition list_eqb {A} (f : A -> A -> bool) : list A -> list A -> bool :=
  fix go (l1 l2 : list A) : bool :=
    match l1, l2 with
    | [], [] => true
    | x :: t1, y :: t2 => f x y && go t1 t2
    | _, _ => false
    end.

Definition ukind_eqb (a b : ukind) : bool :=
  match a, b with UDict, UDict | UFrozenset, UFrozenset => true | _, _ => false end.

(* ------------------------------------------------------------------ binary64 on bit patterns *)
Definition f_exp (b : Z) : Z := (b / 2^52) mod 2^11.
Definition f_man (b : Z) : Z := b mod 2^52.
Definition f_neg (b : Z) : bool := (b / 2^63) mod 2 =? 1.
Definition is_nan (b : Z) : bool := (f_exp b =? 2047) && negb (f_man b =? 0).   (* math.isnan *)
Definition is_zero (b : Z) : bool := b mod 2^63 =? 0.                            (* +0.0 or -0.0 *)
(* Python `x == y` on two floats: IEEE-754 comparison *)
Definition py_float_eq (b1 b2 : Z) : bool :=
  negb (is_nan b1) && negb (is_nan b2) && ((b1 =? b2) || (is_zero b1 && is_zero b2)).

(* FloatData.__eq__ (as written in the unchanged tree), on the payload bit patterns *)
Definition fd_eq_cur (b1 b2 : Z) : bool :=
  (is_nan b1 && is_nan b2) || py_float_eq b1 b2.
(* proposed repair C08-1: compare struct.pack('<d', data) *)
Definition fd_eq_fix (b1 b2 : Z) : bool := b1 =? b2.

(* ------------------------------------------------------------------ equality *)
Section Eq.
  Variable feq : Z -> Z -> bool.     (* FloatData.__eq__ on payload bits *)
  Fixpoint eqb_gen (a b : pyval) {struct a} : bool :=
    match a, b with
    | VInt x, VInt y => x =? y
    | VStr x, VStr y => list_eqb Z.eqb x y
    | VBytes x, VBytes y => list_eqb Z.eqb x y
    | VEnum x, VEnum y => list_eqb Z.eqb x y
    | VTuple l1, VTuple l2 => list_eqb eqb_gen l1 l2
    | VUnord k1 l1, VUnord k2 l2 => ukind_eqb k1 k2 && list_eqb eqb_gen l1 l2
    | VFloatData b1 _, VFloatData b2 _ => feq b1 b2
    | VData c1 p1, VData c2 p2 => (c1 =? c2) && eqb_gen p1 p2
    | VParam c1 l1, VParam c2 l2 => (c1 =? c2) && list_eqb eqb_gen l1 l2
    | _, _ => false      (* different classes: NotImplemented both ways -> identity -> False *)
    end.
End Eq.

Definition eqb : pyval -> pyval -> bool := eqb_gen fd_eq_cur.       (* the unchanged tree *)
Definition eqb_fix : pyval -> pyval -> bool := eqb_gen fd_eq_fix.   (* with repair C08-1 *)

(* ------------------------------------------------------------------ hashing *)
(* Symbolic hash key: the hash value is `interp` of it under CPython's hash functions
   (oracles); everything xDSL and the dataclass machinery do is in `hkey`. *)
Inductive hk :=
| HZ (z : Z)            (* an exactly known hash value *)
| HBuf (b : list Z)     (* siphash of a non-empty byte buffer (str and bytes share it) *)
| HId (oid : Z)         (* object.__hash__: a function of the object's address *)
| HTup (l : list hk)    (* tuple hash: a function of the element hashes *)
| HXor (l : list hk)    (* immutabledict.__hash__: xor of the item hashes *)
| HFset (l : list hk)   (* frozenset hash: a function of the member hashes *)
| HSum (l : list hk).   (* hash(sum(...)) in OperationInfo.__hash__ *)

Definition P61 : Z := 2^61 - 1.                  (* sys.hash_info.modulus *)
Definition fix_m1 (h : Z) : Z := if h =? -1 then -2 else h.
(* hash(int) *)
Definition py_hash_int (n : Z) : Z :=
  let r := Z.abs n mod P61 in fix_m1 (if n <? 0 then - r else r).
(* hash(float) for a non-NaN binary64 (Python/pyhash.c _Py_HashDouble): value = M * 2^E *)
Definition py_hash_float (b : Z) : Z :=
  if is_zero b then 0
  else if f_exp b =? 2047 then (if f_neg b then -314159 else 314159)
  else
    let M := if f_exp b =? 0 then f_man b else f_man b + 2^52 in
    let E := if f_exp b =? 0 then -1074 else f_exp b - 1075 in
    let h := ((M mod P61) * (2 ^ (E mod 61))) mod P61 in
    fix_m1 (if f_neg b then - h else h).

(* the compact (PEP 393) buffer of a str: 1, 2 or 4 bytes per code point, little endian *)
Definition le_bytes (n : nat) (z : Z) : list Z :=
  (fix go (n : nat) (z : Z) : list Z :=
     match n with O => [] | S n' => (z mod 256) :: go n' (z / 256) end) n z.
Definition str_width (s : list Z) : nat :=
  let m := fold_right Z.max 0 s in
  if m <? 256 then 1%nat else if m <? 65536 then 2%nat else 4%nat.
Definition str_buf (s : list Z) : list Z := flat_map (le_bytes (str_width s)) s.
Definition hk_buf (b : list Z) : hk := match b with [] => HZ 0 | _ => HBuf b end.
(* immutabledict.__hash__: h = 0; for item: h ^= hash(item) -- exactly 0 for the empty dict *)
Definition hk_xor (l : list hk) : hk := match l with [] => HZ 0 | _ => HXor l end.

(* FloatData.__hash__ = hash(self.data) *)
Definition fd_key_cur (bits oid : Z) : hk :=
  if is_nan bits then HId oid else HZ (py_hash_float bits).
(* proposed repair C08-1: hash(struct.pack('<d', self.data)) *)
Definition fd_key_fix (bits oid : Z) : hk := hk_buf (le_bytes 8 bits).

Section Hash.
  Variable fkey : Z -> Z -> hk.
  Fixpoint hkey_gen (a : pyval) : hk :=
    match a with
    | VInt z => HZ (py_hash_int z)
    | VStr s => hk_buf (str_buf s)
    | VBytes b => hk_buf b
    | VEnum k => hk_buf (str_buf k)
    | VTuple l => HTup (map hkey_gen l)
    | VUnord UDict l => hk_xor (map hkey_gen l)
    | VUnord UFrozenset l => HFset (map hkey_gen l)
    | VFloatData b oid => fkey b oid
    | VData _ p => HTup [hkey_gen p]          (* hash((self.data,)) *)
    | VParam _ ps => HTup (map hkey_gen ps)   (* hash((p1, .., pn)) *)
    end.
End Hash.

Definition hkey : pyval -> hk := hkey_gen fd_key_cur.
Definition hkey_fix : pyval -> hk := hkey_gen fd_key_fix.

Section Interp.
  (* CPython hash functions that are not modelled: arbitrary functions *)
  Variable hash_buf : list Z -> Z.     (* siphash13 of a byte buffer (seeded per process) *)
  Variable hash_id : Z -> Z.           (* _Py_HashPointer *)
  Variable hash_tuple : list Z -> Z.   (* tuplehash (xxHash-style combination) *)
  Variable hash_fset : list Z -> Z.    (* frozenset hash of the (sorted) member hashes *)
  Fixpoint interp (h : hk) : Z :=
    match h with
    | HZ z => z
    | HBuf b => hash_buf b
    | HId i => hash_id i
    | HTup l => hash_tuple (map interp l)
    | HXor l => fix_m1 (fold_right Z.lxor 0 (map interp l))
    | HFset l => hash_fset (map interp l)
    | HSum l => py_hash_int (fold_right Z.add 0 (map interp l))
    end.
  Definition hash (a : pyval) : Z := interp (hkey a).
  Definition hash_fix (a : pyval) : Z := interp (hkey_fix a).
End Interp.

(* ------------------------------------------------------------------ observables *)
(* What can be observed of an attribute (printing, .data, struct.pack of the float): everything
   except the identity of float objects. *)
Section MapBits.
  Variable r : Z -> Z.
  Fixpoint map_bits (a : pyval) : pyval :=
    match a with
    | VTuple l => VTuple (map map_bits l)
    | VUnord k l => VUnord k (map map_bits l)
    | VFloatData b _ => VFloatData (r b) 0
    | VData c p => VData c (map_bits p)
    | VParam c ps => VParam c (map map_bits ps)
    | x => x
    end.
End MapBits.
Definition obs : pyval -> pyval := map_bits (fun b => b).
(* the coarser observable that the unchanged FloatData.__eq__ actually distinguishes *)
Definition CANON_NAN : Z := 9221120237041090560.    (* 0x7ff8000000000000 *)
Definition relax_bits (b : Z) : Z := if is_nan b then CANON_NAN else if is_zero b then 0 else b.
Definition relax : pyval -> pyval := map_bits relax_bits.

(* the float objects of corresponding NaN leaves are the same object *)
Fixpoint nan_objs_agree (a b : pyval) {struct a} : bool :=
  match a, b with
  | VTuple l1, VTuple l2 => list_eqb nan_objs_agree l1 l2
  | VUnord _ l1, VUnord _ l2 => list_eqb nan_objs_agree l1 l2
  | VFloatData b1 o1, VFloatData b2 o2 => if is_nan b1 && is_nan b2 then o1 =? o2 else true
  | VData _ p1, VData _ p2 => nan_objs_agree p1 p2
  | VParam _ l1, VParam _ l2 => list_eqb nan_objs_agree l1 l2
  | _, _ => true
  end.
Fixpoint nan_free (a : pyval) : bool :=
  match a with
  | VTuple l | VUnord _ l | VParam _ l => forallb nan_free l
  | VFloatData b _ => negb (is_nan b)
  | VData _ p => nan_free p
  | _ => true
  end.
Fixpoint special_free (a : pyval) : bool :=     (* no NaN and no zero float leaf *)
  match a with
  | VTuple l | VUnord _ l | VParam _ l => forallb special_free l
  | VFloatData b _ => negb (is_nan b) && negb (is_zero b)
  | VData _ p => special_free p
  | _ => true
  end.

(* ------------------------------------------------------------------ IntegerAttr construction *)
Inductive signedness := Signless | Signed | Unsigned.
Definition unsigned_ub (w : Z) : Z := 2 ^ w.                       (* 1 << w *)
Definition signed_lb (w : Z) : Z := - (Z.shiftr (2 ^ w) 1).        (* -((1 << w) >> 1) *)
Definition signed_ub (w : Z) : Z := 2 ^ (Z.max (w - 1) 0).         (* 1 << max(w - 1, 0) *)
Definition value_range (s : signedness) (w : Z) : Z * Z :=
  match s with
  | Signless => (signed_lb w, unsigned_ub w)
  | Signed => (signed_lb w, signed_ub w)
  | Unsigned => (0, unsigned_ub w)
  end.
Definition in_range (s : signedness) (w v : Z) : bool :=
  let '(lo, hi) := value_range s w in (lo <=? v) && (v <? hi).
(* IntegerType.normalized_value(value, truncate_bits=...) ; None = Python None *)
Definition normalized_value (s : signedness) (w v : Z) (truncate : bool) : option Z :=
  let ov := if in_range s w v then Some v
            else if truncate then Some (v mod 2 ^ w) else None in
  match ov with
  | None => None
  | Some v' =>
      match s with
      | Unsigned => Some v'
      | _ => if signed_ub w <=? v' then Some (v' - unsigned_ub w) else Some v'
      end
  end.
(* IntegerAttr(value, IntegerType(w, s), truncate_bits=...).value.data ; None = VerifyException *)
Definition integer_attr_value (s : signedness) (w v : Z) (truncate : bool) : option Z :=
  let v' := match normalized_value s w v truncate with Some n => n | None => v end in
  if in_range s w v' then Some v' else None.

(* class ids used by the harness for the builtin classes the model has to name *)
Definition CLS_IntAttr : Z := 1.
Definition CLS_IntegerAttr : Z := 2.
Definition CLS_IntegerType : Z := 3.
Definition CLS_SignednessAttr : Z := 4.
Definition signedness_key (s : signedness) : list Z :=   (* Enum name *)
  match s with
  | Signless => [83;73;71;78;76;69;83;83]
  | Signed => [83;73;71;78;69;68]
  | Unsigned => [85;78;83;73;71;78;69;68]
  end.
Definition mk_integer_type (s : signedness) (w : Z) : pyval :=
  VParam CLS_IntegerType [VData CLS_IntAttr (VInt w); VData CLS_SignednessAttr (VEnum (signedness_key s))].
Definition mk_integer_attr (s : signedness) (w v : Z) (truncate : bool) : option pyval :=
  match integer_attr_value s w v truncate with
  | None => None
  | Some n => Some (VParam CLS_IntegerAttr [VData CLS_IntAttr (VInt n); mk_integer_type s w])
  end.

(* ------------------------------------------------------------------ CSE key: OperationInfo *)
Section OpInfo.
  Variable R : Type.                      (* regions *)
  Variable req : R -> R -> bool.          (* Region.is_structurally_equivalent (property C03) *)
  Variable aeq : pyval -> pyval -> bool.  (* attribute ==   : eqb  for the unchanged tree, eqb_fix with repair C08-1 *)
  Variable akey : pyval -> hk.            (* attribute hash : hkey for the unchanged tree, hkey_fix with repair C08-1 *)
  Record opinfo := {
    oi_name : list Z;                     (* op.name / op_name.data *)
    oi_attrs : list pyval;                (* op.attributes.items(), each VTuple [VStr k; v], sorted by k *)
    oi_props : list pyval;                (* op.properties.items() *)
    oi_results : list pyval;              (* op.result_types *)
    oi_operands : list Z;                 (* op._operands: SSA values, hashed and compared by id *)
    oi_regions : list R }.
  (* hash((name, sum(hash(i) for attrs items), sum(.. props items), hash(result_types), hash(operands))) *)
  Definition oi_hkey (o : opinfo) : hk :=
    HTup [ hk_buf (str_buf (oi_name o));
           HSum (map akey (oi_attrs o));
           HSum (map akey (oi_props o));
           HTup (map akey (oi_results o));
           HTup (map (fun i => HZ (py_hash_int i)) (oi_operands o)) ].
  Inductive eqres := EqTrue | EqFalse | EqValueError.
  (* all(s.is_structurally_equivalent(o) for s, o in zip(rs1, rs2, strict=True)) *)
  Fixpoint regions_all (l1 l2 : list R) : eqres :=
    match l1, l2 with
    | [], [] => EqTrue
    | r1 :: t1, r2 :: t2 => if req r1 r2 then regions_all t1 t2 else EqFalse
    | _, _ => EqValueError
    end.
  Variable hash_buf : list Z -> Z.
  Variable hash_id : Z -> Z.
  Variable hash_tuple : list Z -> Z.
  Variable hash_fset : list Z -> Z.
  Definition oi_hash (o : opinfo) : Z := interp hash_buf hash_id hash_tuple hash_fset (oi_hkey o).
  (* OperationInfo.__eq__, conjunct by conjunct, left to right *)
  Definition oi_eq_with (hash_equal : bool) (a b : opinfo) : eqres :=
    if negb hash_equal then EqFalse
    else if negb (list_eqb Z.eqb (oi_name a) (oi_name b)) then EqFalse
    else if negb (list_eqb aeq (oi_attrs a) (oi_attrs b)) then EqFalse
    else if negb (list_eqb aeq (oi_props a) (oi_props b)) then EqFalse
    else if negb (list_eqb Z.eqb (oi_operands a) (oi_operands b)) then EqFalse
    else if negb (list_eqb aeq (oi_results a) (oi_results b)) then EqFalse
    else regions_all (oi_regions a) (oi_regions b).
  Definition oi_eq (a b : opinfo) : eqres := oi_eq_with (oi_hash a =? oi_hash b) a b.
End OpInfo.
