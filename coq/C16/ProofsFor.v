(* C16/ProofsFor.v -- scf.for reference semantics, its big-step Spec, and convert-scf-to-cf. *)
From Coq Require Import ZArith List Bool Lia.
From XV Require Import C16.Model.
Import ListNotations.
Local Open Scope Z_scope.

(* ------------------------------------------------------------------ arithmetic of the trip count *)
Lemma ceil_bounds : forall d step, 0 < step -> 0 < d ->
  let t := (d + step - 1) / step in (t - 1) * step < d <= t * step.
Proof.
  intros d step Hs Hd t.
  pose proof (Z.div_mod (d + step - 1) step ltac:(lia)) as Hdm.
  pose proof (Z.mod_pos_bound (d + step - 1) step Hs) as Hm.
  subst t. nia.
Qed.

Lemma ceil_unique : forall d step t, 0 < step -> (t - 1) * step < d <= t * step ->
  (d + step - 1) / step = t.
Proof.
  intros d step t Hs H.
  symmetry. apply Z.div_unique with (r := d + step - 1 - step * t); nia.
Qed.

Lemma trip_nonneg : forall lb ub step, 0 < step -> 0 <= trip lb ub step.
Proof.
  intros lb ub step Hs. unfold trip. destruct (lb <? ub) eqn:E; [|lia].
  apply Z.ltb_lt in E. apply Z.div_pos; lia.
Qed.

Lemma trip_zero : forall lb ub step, ub <= lb -> trip lb ub step = 0.
Proof. intros lb ub step H. unfold trip. destruct (lb <? ub) eqn:E; [apply Z.ltb_lt in E; lia|reflexivity]. Qed.

Lemma trip_succ : forall lb ub step, 0 < step -> lb < ub ->
  trip lb ub step = 1 + trip (lb + step) ub step.
Proof.
  intros lb ub step Hs Hlt. unfold trip.
  destruct (lb <? ub) eqn:E1; [|apply Z.ltb_ge in E1; lia].
  pose proof (ceil_bounds (ub - lb) step Hs ltac:(lia)) as Hb. cbv zeta in Hb.
  replace (ub - lb + step - 1) with (ub - lb + step - 1) in * by lia.
  destruct (lb + step <? ub) eqn:E2.
  - apply Z.ltb_lt in E2.
    assert (H : (ub - (lb + step) + step - 1) / step = (ub - lb + step - 1) / step - 1).
    { apply ceil_unique; [lia|]. nia. }
    rewrite H. lia.
  - apply Z.ltb_ge in E2. apply ceil_unique; lia.
Qed.

Lemma trip_exact : forall lb ub step, 0 < step -> lb < ub ->
  lb + (trip lb ub step - 1) * step < ub <= lb + trip lb ub step * step.
Proof.
  intros lb ub step Hs Hlt. unfold trip.
  destruct (lb <? ub) eqn:E1; [|apply Z.ltb_ge in E1; lia].
  pose proof (ceil_bounds (ub - lb) step Hs ltac:(lia)) as Hb. cbv zeta in Hb. lia.
Qed.

(* ------------------------------------------------------------------ Spec: big-step scf.for (MLIR) *)
Section ForSpec.
Variable st : Type.
Variable body : Z -> st -> st.

(* "iterate while iv < ub (signed), adding step": a reader-checkable definition of scf.for *)
Inductive for_rel (ub step : Z) : Z -> st -> st -> Prop :=
  | for_done : forall iv s, ub <= iv -> for_rel ub step iv s s
  | for_iter : forall iv s s', iv < ub ->
      for_rel ub step (iv + step) (body iv s) s' -> for_rel ub step iv s s'.

Lemma for_rel_det : forall ub step iv s s1, for_rel ub step iv s s1 ->
  forall s2, for_rel ub step iv s s2 -> s1 = s2.
Proof.
  intros ub step iv s s1 H1. induction H1 as [iv s Hge | iv s s' Hlt _ IH]; intros s2 H2.
  - inversion H2; subst; [reflexivity | lia].
  - inversion H2; subst; [lia | apply IH; assumption].
Qed.

Lemma for_sem_unfold : forall lb ub step s, 0 < step ->
  for_sem st body lb ub step s =
  if lb <? ub then for_sem st body (lb + step) ub step (body lb s) else s.
Proof.
  intros lb ub step s Hs. unfold for_sem.
  destruct (lb <? ub) eqn:E.
  - apply Z.ltb_lt in E. rewrite (trip_succ lb ub step Hs E).
    pose proof (trip_nonneg (lb + step) ub step Hs) as Hn.
    replace (Z.to_nat (1 + trip (lb + step) ub step)) with (S (Z.to_nat (trip (lb + step) ub step))) by lia.
    reflexivity.
  - apply Z.ltb_ge in E. rewrite trip_zero by lia. reflexivity.
Qed.

Lemma for_sem_rel_aux : forall n ub step, 0 < step -> forall lb s,
  Z.to_nat (trip lb ub step) = n -> for_rel ub step lb s (for_sem st body lb ub step s).
Proof.
  induction n as [|n IH]; intros ub step Hs lb s Hn.
  - rewrite for_sem_unfold by assumption.
    destruct (lb <? ub) eqn:E.
    + apply Z.ltb_lt in E. pose proof (trip_succ lb ub step Hs E) as H1.
      pose proof (trip_nonneg (lb + step) ub step Hs). lia.
    + apply Z.ltb_ge in E. apply for_done. assumption.
  - rewrite for_sem_unfold by assumption.
    destruct (lb <? ub) eqn:E.
    + apply Z.ltb_lt in E. pose proof (trip_succ lb ub step Hs E) as H1.
      pose proof (trip_nonneg (lb + step) ub step Hs).
      apply for_iter; [assumption|]. apply IH; [assumption|lia].
    + apply Z.ltb_ge in E. rewrite trip_zero in Hn by lia. discriminate.
Qed.

(* for_sem (trip-count form) is THE result of the big-step relation *)
Theorem for_sem_spec : forall lb ub step s, 0 < step ->
  for_rel ub step lb s (for_sem st body lb ub step s)
  /\ (forall s', for_rel ub step lb s s' -> s' = for_sem st body lb ub step s).
Proof.
  intros lb ub step s Hs. split.
  - eapply for_sem_rel_aux; [assumption|reflexivity].
  - intros s' H. eapply for_rel_det; [exact H|]. eapply for_sem_rel_aux; [assumption|reflexivity].
Qed.

(* the fuelled while-loop agrees with for_sem as soon as the fuel exceeds the trip count *)
Theorem for_fuel_enough : forall fuel lb ub step s, 0 < step ->
  (Z.to_nat (trip lb ub step) < fuel)%nat ->
  for_fuel st body fuel lb ub step s = Some (for_sem st body lb ub step s).
Proof.
  induction fuel as [|f IH]; intros lb ub step s Hs Hf; [lia|].
  cbn [for_fuel]. rewrite for_sem_unfold by assumption.
  destruct (lb <? ub) eqn:E; [|reflexivity].
  apply Z.ltb_lt in E. apply IH; [assumption|].
  pose proof (trip_succ lb ub step Hs E). pose proof (trip_nonneg (lb + step) ub step Hs). lia.
Qed.

(* zero-trip and negative ranges *)
Lemma for_sem_zero_trip : forall lb ub step s, ub <= lb -> for_sem st body lb ub step s = s.
Proof. intros. unfold for_sem. rewrite trip_zero by assumption. reflexivity. Qed.

(* iter_from is additive in the trip count *)
Lemma iter_from_app : forall a b iv step s,
  iter_from st body (a + b) iv step s =
  iter_from st body b (iv + Z.of_nat a * step) step (iter_from st body a iv step s).
Proof.
  induction a as [|a IH]; intros b iv step s.
  - cbn. f_equal. lia.
  - cbn [Nat.add iter_from]. rewrite IH. f_equal. lia.
Qed.

(* ---------------------------------------------------------------- convert-scf-to-cf: scf.for *)
Section Lowering.
Variables (thenf elsef : st -> st).
Variables (lb ub step : Z) (cond : bool).

Notation run := (cfg_run st body thenf elsef lb ub step cond).

Lemma header_run : forall n iv s fuel, 0 < step ->
  Z.to_nat (trip iv ub step) = n -> (2 * n + 2 <= fuel)%nat ->
  run fuel (lower_for) 1%nat iv s = RDone st (for_sem st body iv ub step s).
Proof.
  induction n as [|n IH]; intros iv s fuel Hs Hn Hf.
  - destruct fuel as [|[|f]]; [lia|lia|].
    rewrite for_sem_unfold by assumption.
    cbn [cfg_run]. unfold cfg_step at 1. cbn [lower_for nth_error b_term b_pay run_payload].
    destruct (iv <? ub) eqn:E.
    + apply Z.ltb_lt in E. pose proof (trip_succ iv ub step Hs E).
      pose proof (trip_nonneg (iv + step) ub step Hs). lia.
    + cbn [cfg_run]. unfold cfg_step. cbn. reflexivity.
  - destruct fuel as [|[|f]]; [lia|lia|].
    rewrite for_sem_unfold by assumption.
    cbn [cfg_run]. unfold cfg_step at 1. cbn [lower_for nth_error b_term b_pay run_payload].
    destruct (iv <? ub) eqn:E.
    + apply Z.ltb_lt in E. pose proof (trip_succ iv ub step Hs E).
      pose proof (trip_nonneg (iv + step) ub step Hs).
      cbn [cfg_run]. unfold cfg_step at 1. cbn [lower_for nth_error b_term b_pay run_payload].
      apply IH; [assumption|lia|lia].
    + apply Z.ltb_ge in E. rewrite trip_zero in Hn by lia. discriminate.
Qed.

(* the lowered CFG, started in the init block, returns exactly the scf.for result *)
Theorem for_lowering : forall iv0 s fuel, 0 < step ->
  (2 * Z.to_nat (trip lb ub step) + 3 <= fuel)%nat ->
  run fuel lower_for 0%nat iv0 s = RDone st (for_sem st body lb ub step s).
Proof.
  intros iv0 s fuel Hs Hf. destruct fuel as [|f]; [lia|].
  cbn [cfg_run]. unfold cfg_step at 1. cbn [lower_for nth_error b_term b_pay run_payload].
  eapply header_run; [assumption|reflexivity|lia].
Qed.

(* with a non-positive step and lb < ub the lowered loop never reaches the exit block *)
Lemma lowering_diverges_aux : forall fuel pc iv s, step <= 0 -> iv < ub ->
  (pc = 1 \/ pc = 2)%nat -> run fuel lower_for pc iv s = RFuel st.
Proof.
  induction fuel as [|f IH]; intros pc iv s Hs Hlt Hpc; [reflexivity|].
  cbn [cfg_run]. destruct Hpc as [-> | ->].
  - unfold cfg_step at 1. cbn [lower_for nth_error b_term b_pay run_payload].
    destruct (iv <? ub) eqn:E; [|apply Z.ltb_ge in E; lia].
    apply IH; [assumption|assumption|right; reflexivity].
  - unfold cfg_step at 1. cbn [lower_for nth_error b_term b_pay run_payload].
    apply IH; [assumption|lia|left; reflexivity].
Qed.

Theorem for_lowering_nonpositive_step_diverges : forall fuel iv0 s, step <= 0 -> lb < ub ->
  run fuel lower_for 0%nat iv0 s = RFuel st.
Proof.
  intros fuel iv0 s Hs Hlt. destruct fuel as [|f]; [reflexivity|].
  cbn [cfg_run]. unfold cfg_step at 1. cbn [lower_for nth_error b_term b_pay run_payload].
  apply lowering_diverges_aux; [assumption|assumption|left; reflexivity].
Qed.

(* ---------------------------------------------------------------- convert-scf-to-cf: scf.if *)
Theorem if_lowering : forall has_else has_results iv0 s fuel, (5 <= fuel)%nat ->
  run fuel (lower_if has_else has_results) 0%nat iv0 s
  = RDone st (if_sem st thenf elsef cond has_else s).
Proof.
  intros he hr iv0 s fuel Hf.
  do 5 (destruct fuel as [|fuel]; [lia|]).
  unfold if_sem. destruct he, hr, cond; reflexivity.
Qed.

End Lowering.
End ForSpec.
