(* C16/ProofsLoops.v -- range folding, flattening, unrolling: iteration-space arithmetic. *)
From Coq Require Import ZArith List Bool Lia.
From XV Require Import C16.Model C16.ProofsFor.
Import ListNotations.
Local Open Scope Z_scope.

(* ================================================================== range folding *)
Section Fold.
Variable st : Type.

Lemma iter_from_shift : forall (body : Z -> st -> st) c n iv step s,
  iter_from st (fun v => body (v + c)) n iv step s = iter_from st body n (iv + c) step s.
Proof.
  intros body c. induction n as [|n IH]; intros iv step s; [reflexivity|].
  cbn [iter_from]. rewrite IH. f_equal. lia.
Qed.

Lemma iter_from_scale : forall (body : Z -> st -> st) c n iv step s,
  iter_from st (fun v => body (v * c)) n iv step s = iter_from st body n (iv * c) (step * c) s.
Proof.
  intros body c. induction n as [|n IH]; intros iv step s; [reflexivity|].
  cbn [iter_from]. rewrite IH. f_equal. lia.
Qed.

Lemma trip_shift : forall lb ub step c, trip (lb + c) (ub + c) step = trip lb ub step.
Proof.
  intros. unfold trip.
  replace (lb + c <? ub + c) with (lb <? ub) by (destruct (lb <? ub) eqn:E1, (lb + c <? ub + c) eqn:E2; lia).
  replace (ub + c - (lb + c)) with (ub - lb) by lia. reflexivity.
Qed.

Lemma trip_scale : forall lb ub step c, 0 < step -> 0 < c ->
  trip (lb * c) (ub * c) (step * c) = trip lb ub step.
Proof.
  intros lb ub step c Hs Hc. unfold trip.
  destruct (lb <? ub) eqn:E1.
  - apply Z.ltb_lt in E1.
    destruct (lb * c <? ub * c) eqn:E2; [|apply Z.ltb_ge in E2; nia].
    pose proof (ceil_bounds (ub - lb) step Hs ltac:(lia)) as Hb. cbv zeta in Hb.
    apply ceil_unique; nia.
  - apply Z.ltb_ge in E1.
    destruct (lb * c <? ub * c) eqn:E2; [apply Z.ltb_lt in E2; nia|reflexivity].
Qed.

(* iv only used by `addi iv, c`: new range (lb+c, ub+c, step); needs no hypothesis at all *)
Theorem fold_add : forall (body : Z -> st -> st) c lb ub step s,
  for_sem st (fun iv => body (iv + c)) lb ub step s = for_sem st body (lb + c) (ub + c) step s.
Proof.
  intros. unfold for_sem. rewrite trip_shift. apply iter_from_shift.
Qed.

(* iv only used by `muli iv, c`: new range (lb*c, ub*c, step*c); correct for c > 0 *)
Theorem fold_mul : forall (body : Z -> st -> st) c lb ub step s, 0 < step -> 0 < c ->
  for_sem st (fun iv => body (iv * c)) lb ub step s = for_sem st body (lb * c) (ub * c) (step * c) s.
Proof.
  intros body c lb ub step s Hs Hc. unfold for_sem. rewrite trip_scale by assumption.
  apply iter_from_scale.
Qed.

(* a whole chain of folded links *)
Definition link_ok (l : link) : Prop :=
  match l_kind l with FAdd => True | FMul => 0 < l_c l | FOther => False end.

Definition fold_all (ls : list link) (r : range3) : range3 :=
  fold_left (fun a l => fold_one (l_kind l) (l_c l) a) ls r.

Theorem fold_chain : forall ls (body : Z -> st -> st) lb ub step s, 0 < step ->
  Forall link_ok ls ->
  let '(lb', ub', step') := fold_all ls (lb, ub, step) in
  0 < step' /\
  for_sem st (fun iv => body (apply_chain ls iv)) lb ub step s = for_sem st body lb' ub' step' s.
Proof.
  induction ls as [|l rest IH]; intros body lb ub step s Hs Hok.
  - cbn. split; [assumption|reflexivity].
  - inversion Hok as [|? ? Hl Hrest]; subst.
    unfold fold_all, apply_chain. cbn [fold_left].
    change (fold_left (fun a l0 => fold_one (l_kind l0) (l_c l0) a) rest ?r) with (fold_all rest r).
    unfold link_ok in Hl. unfold apply_link at 2.
    destruct (l_kind l) eqn:Ek; [| |contradiction].
    + cbn [fold_one].
      specialize (IH body (lb + l_c l) (ub + l_c l) step s Hs Hrest).
      destruct (fold_all rest (lb + l_c l, ub + l_c l, step)) as [[lb' ub'] step'].
      destruct IH as [Hs' IH]. split; [assumption|]. rewrite <- IH.
      exact (fold_add (fun v => body (fold_left (fun a l0 => apply_link l0 a) rest v)) (l_c l) lb ub step s).
    + cbn [fold_one].
      assert (Hs2 : 0 < step * l_c l) by nia.
      specialize (IH body (lb * l_c l) (ub * l_c l) (step * l_c l) s Hs2 Hrest).
      destruct (fold_all rest (lb * l_c l, ub * l_c l, step * l_c l)) as [[lb' ub'] step'].
      destruct IH as [Hs' IH]. split; [assumption|]. rewrite <- IH.
      exact (fold_mul (fun v => body (fold_left (fun a l0 => apply_link l0 a) rest v)) (l_c l) lb ub step s Hs Hl).
Qed.

(* fold_pass folds exactly a prefix of the chain and applies fold_one to it in order *)
Fixpoint fold_prefix (ls : list link) : list link :=
  match ls with
  | [] => []
  | l :: rest =>
      if negb (Nat.eqb (l_uses l) 1) then []
      else match l_kind l with
           | FOther => []
           | _ => if negb (l_foldable l) then [] else l :: fold_prefix rest
           end
  end.

Lemma fold_pass_prefix : forall ls r n,
  fold_pass ls r n = (fold_all (fold_prefix ls) r, (n + length (fold_prefix ls))%nat).
Proof.
  induction ls as [|l rest IH]; intros r n.
  - cbn. f_equal. lia.
  - cbn [fold_pass fold_prefix].
    destruct (negb (Nat.eqb (l_uses l) 1)); [cbn; f_equal; lia|].
    destruct (l_kind l) eqn:Ek.
    + destruct (negb (l_foldable l)); [cbn; f_equal; lia|].
      rewrite IH. unfold fold_all. cbn [fold_left length]. rewrite Ek. f_equal. lia.
    + destruct (negb (l_foldable l)); [cbn; f_equal; lia|].
      rewrite IH. unfold fold_all. cbn [fold_left length]. rewrite Ek. f_equal. lia.
    + cbn. f_equal. lia.
Qed.

Lemma fold_prefix_kinds : forall ls, Forall (fun l => l_kind l = FAdd \/ l_kind l = FMul) (fold_prefix ls).
Proof.
  induction ls as [|l rest IH]; [constructor|].
  cbn [fold_prefix]. destruct (negb (Nat.eqb (l_uses l) 1)); [constructor|].
  destruct (l_kind l) eqn:Ek; [| |constructor];
    (destruct (negb (l_foldable l)); [constructor|]); constructor; auto.
Qed.

(* the pass as a whole: if every multiplier it folds is positive, the rewritten loop (body now reads
   the iv directly) is equivalent to the original one (body reads the chain's value) *)
Theorem fold_pass_correct : forall ls (body : Z -> st -> st) lb ub step s, 0 < step ->
  (forall l, In l (fold_prefix ls) -> l_kind l = FMul -> 0 < l_c l) ->
  let '((lb', ub', step'), _) := fold_pass ls (lb, ub, step) 0 in
  0 < step' /\
  for_sem st (fun iv => body (apply_chain (fold_prefix ls) iv)) lb ub step s
  = for_sem st body lb' ub' step' s.
Proof.
  intros ls body lb ub step s Hs Hpos. rewrite fold_pass_prefix.
  assert (Hok : Forall link_ok (fold_prefix ls)).
  { pose proof (fold_prefix_kinds ls) as Hk. rewrite Forall_forall in *.
    intros l Hin. specialize (Hk l Hin). unfold link_ok.
    destruct (l_kind l) eqn:Ek; [exact I| |destruct Hk; discriminate].
    apply Hpos; assumption. }
  pose proof (fold_chain (fold_prefix ls) body lb ub step s Hs Hok) as H.
  destruct (fold_all (fold_prefix ls) (lb, ub, step)) as [[lb' ub'] step']. exact H.
Qed.
End Fold.

(* ---- refutations: the pass multiplies by ANY loop-invariant value ------------------------------- *)
Definition log_body : Z -> list Z -> list Z := fun iv s => iv :: s.

(* c = 0: the folded loop is `0 to 0 step 0`: zero trips under the cmpi-slt semantics (every fuel) ... *)
Theorem fold_mul_zero_refuted : exists lb ub step c, 0 < step /\ c = 0 /\
  forall fuel, for_fuel (list Z) log_body (S fuel) (lb * c) (ub * c) (step * c) []
               <> Some (for_sem (list Z) (fun iv => log_body (iv * c)) lb ub step []).
Proof.
  exists 0, 2, 1, 0. split; [lia|]. split; [reflexivity|]. intros fuel. cbn. discriminate.
Qed.
(* ... and `range(_, _, 0)` raises ValueError under the xDSL interpreter's range semantics *)
Theorem fold_mul_zero_range_raises : forall lb ub step, py_range (lb * 0) (ub * 0) (step * 0) = None.
Proof. intros. unfold py_range. replace (step * 0) with 0 by lia. reflexivity. Qed.

(* c < 0: zero trips under cmpi-slt semantics, although the original loop ran *)
Theorem fold_mul_negative_refuted : exists lb ub step c, 0 < step /\ c < 0 /\
  forall fuel, for_fuel (list Z) log_body (S fuel) (lb * c) (ub * c) (step * c) []
               <> Some (for_sem (list Z) (fun iv => log_body (iv * c)) lb ub step []).
Proof.
  exists 0, 2, 1, (-1). split; [lia|]. split; [lia|]. intros fuel. cbn. discriminate.
Qed.

(* ================================================================== unroll / Python range *)
Section Unroll.
Variable st : Type.
Variable body : Z -> st -> st.

Lemma unroll_range_from : forall n v step s,
  unroll_sem st body (range_from n v step) s = iter_from st body n v step s.
Proof.
  induction n as [|n IH]; intros v step s; [reflexivity|].
  cbn [range_from iter_from]. unfold unroll_sem in *. cbn [fold_left]. apply IH.
Qed.

(* constant bounds, positive step: the unrolled straight-line code is the loop *)
Theorem unroll_correct : forall lb ub step s, 0 < step ->
  exists ivs, py_range lb ub step = Some ivs /\
              unroll_sem st body ivs s = for_sem st body lb ub step s.
Proof.
  intros lb ub step s Hs. unfold py_range.
  destruct (step =? 0) eqn:E0; [apply Z.eqb_eq in E0; lia|].
  destruct (0 <? step) eqn:E1; [|apply Z.ltb_ge in E1; lia].
  eexists. split; [reflexivity|]. rewrite unroll_range_from. reflexivity.
Qed.

Theorem unroll_step_zero_raises : forall lb ub, py_range lb ub 0 = None.
Proof. reflexivity. Qed.

(* negative multiplier under Python-range semantics: the folded loop visits c*iv for the same ivs,
   i.e. range folding by c < 0 is unchanged under the xDSL interpreter (semantics-dependent note) *)
Theorem fold_mul_negative_range_ok : forall c lb ub step s, 0 < step -> c < 0 ->
  exists ivs, py_range (lb * c) (ub * c) (step * c) = Some ivs /\
              unroll_sem st body ivs s = for_sem st (fun iv => body (iv * c)) lb ub step s.
Proof.
  intros c lb ub step s Hs Hc. unfold py_range.
  destruct (step * c =? 0) eqn:E0; [apply Z.eqb_eq in E0; nia|].
  destruct (0 <? step * c) eqn:E1; [apply Z.ltb_lt in E1; nia|].
  eexists. split; [reflexivity|]. rewrite unroll_range_from.
  unfold for_sem. rewrite iter_from_scale. f_equal. f_equal. unfold trip.
  destruct (lb <? ub) eqn:E2.
  - apply Z.ltb_lt in E2.
    destruct (ub * c <? lb * c) eqn:E3; [|apply Z.ltb_ge in E3; nia].
    pose proof (ceil_bounds (ub - lb) step Hs ltac:(lia)) as Hb. cbv zeta in Hb.
    replace (lb * c - ub * c - step * c - 1) with ((ub - lb) * (- c) + step * (- c) - 1) by lia.
    replace (- (step * c)) with (step * (- c)) by lia.
    apply ceil_unique; nia.
  - apply Z.ltb_ge in E2.
    destruct (ub * c <? lb * c) eqn:E3; [apply Z.ltb_lt in E3; nia|reflexivity].
Qed.
End Unroll.

(* a negative constant step: Python range iterates downwards, the cmpi-slt loop does not run *)
Theorem unroll_negative_step_differs : exists lb ub step, step < 0 /\
  py_range lb ub step = Some [2; 1] /\
  for_fuel (list Z) log_body 1 lb ub step [] = Some [].
Proof. exists 2, 0, (-1). split; [lia|]. split; reflexivity. Qed.

(* ================================================================== flatten *)
Section Flatten.
Variable st : Type.

Lemma iter_from_ext : forall (f g : Z -> st -> st), (forall iv s, f iv s = g iv s) ->
  forall n iv step s, iter_from st f n iv step s = iter_from st g n iv step s.
Proof.
  intros f g Hfg. induction n as [|n IH]; intros iv step s; [reflexivity|].
  cbn [iter_from]. rewrite Hfg. apply IH.
Qed.

Lemma for_sem_ext : forall (f g : Z -> st -> st), (forall iv s, f iv s = g iv s) ->
  forall lb ub step s, for_sem st f lb ub step s = for_sem st g lb ub step s.
Proof. intros f g Hfg lb ub step s. unfold for_sem. apply iter_from_ext. assumption. Qed.

Fixpoint rep (n : nat) (b : st -> st) (s : st) : st :=
  match n with O => s | S n' => rep n' b (b s) end.

Lemma rep_add : forall a c b s, rep (a + c) b s = rep c b (rep a b s).
Proof. induction a as [|a IH]; intros c b s; [reflexivity|]. cbn. apply IH. Qed.

Lemma rep_mul : forall a c b s, rep (a * c) b s = rep a (rep c b) s.
Proof.
  induction a as [|a IH]; intros c b s; [reflexivity|].
  cbn [Nat.mul rep]. rewrite rep_add. apply IH.
Qed.

Lemma iter_from_const : forall (b : st -> st) n iv step s,
  iter_from st (fun _ => b) n iv step s = rep n b s.
Proof. intros b. induction n as [|n IH]; intros iv step s; [reflexivity|]. cbn. apply IH. Qed.

Lemma for_sem_const : forall (b : st -> st) lb ub step s,
  for_sem st (fun _ => b) lb ub step s = rep (Z.to_nat (trip lb ub step)) b s.
Proof. intros. unfold for_sem. apply iter_from_const. Qed.

(* --- case "induction variables unused", code before 1ebef56: new loop 0 .. ou * ((iu-il)//is) step os -- *)
Definition nest_unused (b : st -> st) (ol ou os il iu is_ : Z) (s : st) : st :=
  for_sem st (fun _ s1 => for_sem st (fun _ => b) il iu is_ s1) ol ou os s.
Definition flat_unused_old (b : st -> st) (ol ou os il iu is_ : Z) (s : st) : st :=
  for_sem st (fun _ => b) ol (ou * ((iu - il) / is_)) os s.

Lemma trip_divisible : forall lb ub step m, 0 < step -> 0 <= m -> ub - lb = m * step ->
  trip lb ub step = m.
Proof.
  intros lb ub step m Hs Hm He. unfold trip.
  destruct (lb <? ub) eqn:E.
  - apply Z.ltb_lt in E. apply ceil_unique; nia.
  - apply Z.ltb_ge in E. nia.
Qed.

Theorem flatten_unused_old_partial : forall (b : st -> st) ou os il iu is_ s,
  0 < os -> 0 < is_ -> il <= iu -> (iu - il) mod is_ = 0 -> (ou <= 0 \/ ou mod os = 0) ->
  flat_unused_old b 0 ou os il iu is_ s = nest_unused b 0 ou os il iu is_ s.
Proof.
  intros b ou os il iu is_ s Hos His Hle Hdiv Hou.
  unfold flat_unused_old, nest_unused.
  rewrite (for_sem_ext (fun _ s1 => for_sem st (fun _ => b) il iu is_ s1)
                       (fun _ => rep (Z.to_nat (trip il iu is_)) b)
                       (fun _ s1 => for_sem_const b il iu is_ s1)).
  rewrite !for_sem_const. rewrite <- rep_mul. f_equal.
  set (f := (iu - il) / is_).
  assert (Hf : iu - il = f * is_).
  { pose proof (Z.div_mod (iu - il) is_ ltac:(lia)) as H. rewrite Hdiv in H. subst f. lia. }
  assert (Hf0 : 0 <= f) by nia.
  rewrite (trip_divisible il iu is_ f His Hf0 Hf).
  destruct (Z_le_gt_dec ou 0) as [Hle0 | Hgt0].
  - rewrite (trip_zero 0 ou os) by lia. rewrite (trip_zero 0 (ou * f) os) by nia. reflexivity.
  - destruct Hou as [Hneg | Hmod]; [lia|].
    set (m := ou / os).
    assert (Hm : ou = m * os).
    { pose proof (Z.div_mod ou os ltac:(lia)) as H. rewrite Hmod in H. subst m. lia. }
    assert (Hm0 : 0 <= m) by nia.
    rewrite (trip_divisible 0 ou os m Hos Hm0 ltac:(lia)).
    rewrite (trip_divisible 0 (ou * f) os (m * f) Hos ltac:(nia) ltac:(nia)).
    lia.
Qed.

(* --- case "iv's used once, by the same addi": new loop ol .. ou step K --------------------------- *)
Definition nest_used (body : Z -> st -> st) (ol ou S K : Z) (s : st) : st :=
  for_sem st (fun o s1 => for_sem st (fun i => body (o + i)) 0 S K s1) ol ou S s.
Definition flat_used (body : Z -> st -> st) (ol ou K : Z) (s : st) : st :=
  for_sem st body ol ou K s.

Lemma nest_iter : forall (body : Z -> st -> st) q K S n o s, S = Z.of_nat q * K ->
  iter_from st (fun o s1 => iter_from st body q o K s1) n o S s
  = iter_from st body (n * q) o K s.
Proof.
  intros body q K S n. induction n as [|n IH]; intros o s HS; [reflexivity|].
  cbn [iter_from Nat.mul]. rewrite iter_from_app. rewrite IH by assumption.
  f_equal. lia.
Qed.

Theorem flatten_used_partial : forall (body : Z -> st -> st) ol ou S K s,
  0 < K -> 0 < S -> S mod K = 0 -> (ou <= ol \/ (ou - ol) mod S = 0) ->
  flat_used body ol ou K s = nest_used body ol ou S K s.
Proof.
  intros body ol ou S K s HK HS Hdiv Hou.
  unfold flat_used, nest_used.
  set (q := S / K).
  assert (Hq : S = q * K).
  { pose proof (Z.div_mod S K ltac:(lia)) as H. rewrite Hdiv in H. subst q. lia. }
  assert (Hq0 : 0 <= q) by nia.
  assert (Hinner : forall o s1, for_sem st (fun i => body (o + i)) 0 S K s1
                                = iter_from st body (Z.to_nat q) o K s1).
  { intros o s1. unfold for_sem. rewrite (trip_divisible 0 S K q HK Hq0 ltac:(lia)).
    rewrite (iter_from_ext (fun i => body (o + i)) (fun i => body (i + o))).
    2:{ intros iv s2. f_equal. lia. }
    rewrite iter_from_shift. f_equal. }
  rewrite (for_sem_ext _ _ Hinner).
  unfold for_sem at 2.
  rewrite (nest_iter body (Z.to_nat q) K S) by lia.
  unfold for_sem. f_equal.
  destruct (Z_le_gt_dec ou ol) as [Hle | Hgt].
  - rewrite (trip_zero ol ou K) by lia. rewrite (trip_zero ol ou S) by lia. reflexivity.
  - destruct Hou as [Hneg | Hmod]; [lia|].
    set (m := (ou - ol) / S).
    assert (Hm : ou - ol = m * S).
    { pose proof (Z.div_mod (ou - ol) S ltac:(lia)) as H. rewrite Hmod in H. subst m. lia. }
    assert (Hm0 : 0 <= m) by nia.
    rewrite (trip_divisible ol ou S m HS Hm0 Hm).
    rewrite (trip_divisible ol ou K (m * q) HK ltac:(nia) ltac:(nia)).
    lia.
Qed.
(* ================================================================ the repaired code (1ebef56, 51aee64) *)
Lemma trip_ceil : forall lb ub step, 0 < step -> trip lb ub step = Z.max 0 (- ((lb - ub) / step)).
Proof.
  intros lb ub step Hs. unfold trip.
  pose proof (Z.div_mod (lb - ub) step ltac:(lia)) as Hdm.
  pose proof (Z.mod_pos_bound (lb - ub) step Hs) as Hm.
  destruct (lb <? ub) eqn:E.
  - apply Z.ltb_lt in E.
    assert (Ht : (ub - lb + step - 1) / step = - ((lb - ub) / step)) by (apply ceil_unique; nia).
    rewrite Ht. nia.
  - apply Z.ltb_ge in E. assert (0 <= (lb - ub) / step) by (apply Z.div_pos; lia). lia.
Qed.

(* unused induction variables: new loop 0 .. ceildiv(ou,os) * (max(0,ceil((iu-il)/is)) * os) step os *)
Definition flat_unused (b : st -> st) (ou os il iu is_ : Z) (s : st) : st :=
  for_sem st (fun _ => b) 0 (unused_new_ub ou os il iu is_) os s.

(* FULL strength: every outer bound (also <= 0), every inner range (also empty / negative), no
   divisibility hypothesis; what remains is what the pass itself checks on the constants *)
Theorem flatten_unused_correct : forall (b : st -> st) ou os il iu is_ s, 0 < os -> 0 < is_ ->
  flat_unused b ou os il iu is_ s = nest_unused b 0 ou os il iu is_ s.
Proof.
  intros b ou os il iu is_ s Hos His.
  unfold flat_unused, nest_unused.
  rewrite (for_sem_ext (fun _ s1 => for_sem st (fun _ => b) il iu is_ s1)
                       (fun _ => rep (Z.to_nat (trip il iu is_)) b)
                       (fun _ s1 => for_sem_const b il iu is_ s1)).
  rewrite !for_sem_const. rewrite <- rep_mul. f_equal.
  rewrite (trip_ceil il iu is_ His). rewrite (trip_ceil 0 ou os Hos).
  unfold unused_new_ub. replace (0 - ou) with (- ou) by lia.
  set (C := - (- ou / os)). set (F := Z.max 0 (- ((il - iu) / is_))).
  assert (HF : 0 <= F) by (subst F; lia).
  destruct (Z_le_gt_dec (C * F) 0) as [Hle | Hgt].
  - rewrite (trip_zero 0 (C * (F * os)) os) by nia. nia.
  - rewrite (trip_divisible 0 (C * (F * os)) os (C * F) Hos ltac:(lia) ltac:(nia)). nia.
Qed.

(* fused addi: the bound the repaired code uses *)
Definition used_new_ub (consts : bool) (ol ou S : Z) : Z :=
  if consts && negb ((ol <? ou) && negb ((ou - ol) mod S =? 0)) then ou
  else ol + (- ((- (ou - ol)) / S)) * S.

Lemma nest_used_trip : forall (body : Z -> st -> st) ol ou ou' S K s,
  trip ol ou S = trip ol ou' S -> nest_used body ol ou S K s = nest_used body ol ou' S K s.
Proof. intros body ol ou ou' S K s H. unfold nest_used, for_sem. rewrite H. reflexivity. Qed.

(* FULL strength for the fused variant: any outer range, divisible or not, empty or not *)
Theorem flatten_used_correct : forall (body : Z -> st -> st) consts ol ou S K s,
  0 < K -> 0 < S -> S mod K = 0 ->
  flat_used body ol (used_new_ub consts ol ou S) K s = nest_used body ol ou S K s.
Proof.
  intros body consts ol ou S K s HK HS Hdiv. unfold used_new_ub.
  destruct (consts && negb ((ol <? ou) && negb ((ou - ol) mod S =? 0))) eqn:E.
  - apply flatten_used_partial; try assumption.
    apply andb_prop in E. destruct E as [_ E]. apply negb_true_iff in E.
    apply andb_false_iff in E. destruct E as [E | E].
    + apply Z.ltb_ge in E. left. lia.
    + apply negb_false_iff in E. apply Z.eqb_eq in E. right. assumption.
  - set (C := - (- (ou - ol) / S)).
    rewrite (nest_used_trip body ol ou (ol + C * S) S K s).
    + apply flatten_used_partial; try assumption. right.
      replace (ol + C * S - ol) with (C * S) by lia. apply Z_mod_mult.
    + rewrite (trip_ceil ol ou S HS). rewrite (trip_ceil ol (ol + C * S) S HS).
      replace (ol - (ol + C * S)) with (- C * S) by lia. rewrite Z_div_mult by lia.
      subst C. replace (ol - ou) with (- (ou - ol)) by lia. lia.
Qed.
End Flatten.

(* ---- refutations (valid programs: all steps positive) ----------------------------------------- *)
(* induction variables unused, outer 0..3 step 2, inner 0..5 step 2: 2*3 = 6 iterations become 3 *)
Theorem flatten_unused_old_refuted : exists ou os il iu is_,
  0 < os /\ 0 < is_ /\
  flat_unused_old Z Z.succ 0 ou os il iu is_ 0 <> nest_unused Z Z.succ 0 ou os il iu is_ 0.
Proof. exists 3, 2, 0, 5, 2. split; [lia|]. split; [lia|]. vm_compute. discriminate. Qed.

(* same, with every divisibility satisfied but an EMPTY inner range 5..0 and a negative outer bound:
   0 iterations become 10 *)
Theorem flatten_unused_old_negative_refuted : exists ou os il iu is_,
  0 < os /\ 0 < is_ /\ (iu - il) mod is_ = 0 /\ ou mod os = 0 /\
  flat_unused_old Z Z.succ 0 ou os il iu is_ 0 <> nest_unused Z Z.succ 0 ou os il iu is_ 0.
Proof. exists (-2), 1, 5, 0, 1. repeat split; try lia. vm_compute. discriminate. Qed.

(* induction variables used by one addi, outer 0..3 step 2, inner 0..2 step 1: body runs on
   0,1,2,3 before and on 0,1,2 after *)
Theorem flatten_used_old_refuted : exists ol ou S K,
  0 < K /\ 0 < S /\ S mod K = 0 /\
  flat_used (list Z) log_body ol ou K [] <> nest_used (list Z) log_body ol ou S K [].
Proof. exists 0, 3, 2, 1. repeat split; try lia. vm_compute. discriminate. Qed.
