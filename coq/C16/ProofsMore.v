(* C16/ProofsMore.v -- scf.index_switch lowering, control-flow-hoist, lower-affine for/load/store,
   frontend-desymrefy (single-block store/load forwarding). *)
From Coq Require Import ZArith List Bool Lia Arith.
From XV Require Import C16.Model C16.ProofsFor C16.ProofsLicm.
Import ListNotations.
Local Open Scope Z_scope.

(* ================================================================== scf.index_switch *)
Section SwitchP.
Variable st : Type.
Variable casef : nat -> st -> st.

Lemma case_idx_lt : forall v cases i, case_idx v cases = Some i -> (i < length cases)%nat.
Proof.
  induction cases as [|c r IH]; intros i H; cbn in *; [discriminate|].
  destruct (v =? c); [inversion H; lia|].
  destruct (case_idx v r) as [j|] eqn:E; cbn in H; [|discriminate].
  inversion H; subst. specialize (IH j eq_refl). lia.
Qed.

Lemma sw_lookup_combine : forall v cases k d,
  sw_lookup v (combine cases (seq k (length cases))) d =
  match case_idx v cases with Some i => (k + i)%nat | None => d end.
Proof.
  induction cases as [|c r IH]; intros k d; cbn; [reflexivity|].
  destruct (v =? c); [lia|].
  rewrite IH. destruct (case_idx v r); cbn; lia.
Qed.

Lemma nth_case_block : forall (cases : list Z) i, (i < length cases)%nat ->
  nth_error (lower_switch cases) (S i)
  = Some (mkSBlock (Some i) (SBr (length cases + 2))).
Proof.
  intros cases i Hi. unfold lower_switch. cbv zeta. cbn [nth_error].
  rewrite nth_error_app1 by (rewrite map_length, seq_length; exact Hi).
  rewrite nth_error_map.
  rewrite (nth_error_nth' (seq 0 (length cases)) O) by (rewrite seq_length; exact Hi).
  rewrite seq_nth by exact Hi. reflexivity.
Qed.

Lemma nth_default_block : forall (cases : list Z),
  nth_error (lower_switch cases) (S (length cases))
  = Some (mkSBlock (Some (length cases)) (SBr (length cases + 2))).
Proof.
  intros cases. unfold lower_switch. cbv zeta. cbn [nth_error].
  rewrite nth_error_app2 by (rewrite map_length, seq_length; lia).
  rewrite map_length, seq_length. rewrite Nat.sub_diag. reflexivity.
Qed.

Lemma nth_exit_block : forall (cases : list Z),
  nth_error (lower_switch cases) (S (S (length cases))) = Some (mkSBlock None SExit).
Proof.
  intros cases. unfold lower_switch. cbv zeta.
  match goal with |- nth_error (?a :: ?l) (S ?n) = _ => change (nth_error (a :: l) (S n)) with (nth_error l n) end.
  rewrite nth_error_app2 by (rewrite map_length, seq_length; lia).
  rewrite map_length, seq_length. replace (S (length cases) - length cases)%nat with 1%nat by lia.
  reflexivity.
Qed.

(* the lowered switch runs the same region as scf.index_switch whenever the index argument survives
   the cast to i32 *)
Theorem switch_lowering : forall cases arg s fuel, trunc32 arg = arg -> (3 <= fuel)%nat ->
  sw_run st casef fuel (lower_switch cases) arg 0%nat s = RDone st (switch_sem st casef cases arg s).
Proof.
  intros cases arg s fuel Ht Hf.
  do 3 (destruct fuel as [|fuel]; [lia|]).
  cbn [sw_run]. unfold lower_switch at 1. cbn [nth_error sb_pay sb_term].
  rewrite Ht. rewrite sw_lookup_combine. unfold switch_sem.
  destruct (case_idx arg cases) as [i|] eqn:E.
  - pose proof (case_idx_lt _ _ _ E) as Hi.
    replace (1 + i)%nat with (S i) by lia. rewrite (nth_case_block cases i Hi). cbn [sb_pay sb_term].
    replace (length cases + 2)%nat with (S (S (length cases))) by lia.
    rewrite nth_exit_block. reflexivity.
  - rewrite nth_default_block. cbn [sb_pay sb_term].
    replace (length cases + 2)%nat with (S (S (length cases))) by lia.
    rewrite nth_exit_block. reflexivity.
Qed.
End SwitchP.

(* an index that does not fit 32 bits: 2^32 + 1 selects `case 1` after the cast, the default before *)
Theorem switch_lowering_refuted : exists cases arg,
  sw_run (list nat) (fun i s => i :: s) 3 (lower_switch cases) arg 0%nat []
  <> RDone _ (switch_sem (list nat) (fun i s => i :: s) cases arg []).
Proof. exists [1], 4294967297. vm_compute. discriminate. Qed.

Lemma trunc32_small : forall z, -2147483648 <= z < 2147483648 -> trunc32 z = z.
Proof.
  intros z Hz. unfold trunc32.
  destruct (Z_lt_ge_dec z 0) as [Hn | Hp].
  - replace (z mod 4294967296) with (z + 4294967296).
    2:{ apply Z.mod_unique with (q := -1); lia. }
    destruct (z + 4294967296 <? 2147483648) eqn:E; [apply Z.ltb_lt in E; lia|lia].
  - rewrite Z.mod_small by lia.
    destruct (z <? 2147483648) eqn:E; [reflexivity|apply Z.ltb_ge in E; lia].
Qed.

(* ================================================================== control-flow-hoist *)
Section CfhP.
Variable st : Type.
Variables (thenk elsek : Z -> st -> st).

Theorem cfh_commutes : forall a b c s,
  cfh_hoisted st thenk elsek (Some a) (Some b) c s = cfh_orig st thenk elsek (Some a) (Some b) c s.
Proof. intros. destruct c; reflexivity. Qed.

(* the op of the branch that is NOT taken traps: fine before, a trap after hoisting *)
Theorem cfh_refuted : forall b s,
  cfh_orig st thenk elsek None (Some b) false s = Some (elsek b s)
  /\ cfh_hoisted st thenk elsek None (Some b) false s = None.
Proof. intros. split; reflexivity. Qed.
End CfhP.

(* the pass hoists exactly when the trait table says every branch op is hoistable; outside the
   declared-Pure divisions those ops cannot trap *)
Theorem cfh_pass_partial : forall then_ops else_ops o a b,
  cfh_pass then_ops else_ops = true -> In o (then_ops ++ else_ops) ->
  declared_pure_division (fst o) = false -> (forall c, snd o = Some c -> b = c) ->
  op_eval (fst o) a b <> None.
Proof.
  intros t e o a b Hp Hin Hk Hrc. unfold cfh_pass in Hp. rewrite forallb_forall in Hp.
  specialize (Hp o Hin). eapply hoistable_partial; eassumption.
Qed.

Theorem cfh_pass_refuted : exists then_ops else_ops a b,
  cfh_pass then_ops else_ops = true /\ op_eval (fst (hd (KAddi, None) then_ops)) a b = None.
Proof. exists [(KRemsi, None)], [], 3, 0. split; reflexivity. Qed.

(* ================================================================== lower-affine: for / load / store *)
Theorem lower_affine_for_correct : forall lb ub step l u,
  mods_nonneg lb [] [] -> mods_nonneg ub [] [] ->
  lower_affine_for [lb] [ub] step = LFor l u step -> affine_for_bounds lb ub = Some (l, u).
Proof.
  intros lb ub step l u Hl Hu H. unfold lower_affine_for in H.
  destruct (negb (aexpr_closed lb) || negb (aexpr_closed ub)); [discriminate|].
  unfold affine_for_bounds.
  rewrite <- (affine_lowering_partial lb [] [] Hl), <- (affine_lowering_partial ub [] [] Hu).
  destruct (lower_eval lb [] []), (lower_eval ub [] []); try discriminate.
  inversion H; subst. reflexivity.
Qed.

Theorem lower_index_map_correct : forall results dims,
  Forall (fun e => mods_nonneg e dims []) results ->
  lower_index_map results dims = affine_index_map results dims.
Proof.
  intros results dims H. unfold lower_index_map, affine_index_map.
  induction H as [|e r He _ IH]; [reflexivity|].
  cbn [map]. rewrite IH. f_equal. apply affine_lowering_partial. assumption.
Qed.

(* ================================================================== frontend-desymrefy *)
(* symbolic store semantics of a single block: `fetch_reads s r ops cur` is what the fetch with
   result id r reads, given that the cell of symbol s currently holds `cur` *)
Fixpoint fetch_reads (s r : nat) (ops : list sop) (cur : option sval) : option (option sval) :=
  match ops with
  | [] => None
  | SFetch s' r' :: rest =>
      if Nat.eqb r r' then (if Nat.eqb s s' then Some cur else None) else fetch_reads s r rest cur
  | SUpdate s' v :: rest => fetch_reads s r rest (if Nat.eqb s s' then Some v else cur)
  | _ :: rest => fetch_reads s r rest cur
  end.

(* "the value fetched equals the last update": the lookup the pass performs (nearest preceding update
   of the symbol) is exactly the content of the symbol's cell when the fetch executes *)
Theorem last_write_is_cell_content : forall s r ops cur c,
  fetch_reads s r ops cur = Some c -> last_write_before s r ops cur = c.
Proof.
  intros s r. induction ops as [|o rest IH]; intros cur c H; cbn in *; [discriminate|].
  destruct o as [s'|s' v|s' r'|id args]; try (apply IH; assumption).
  destruct (Nat.eqb r r').
  - destruct (Nat.eqb s s'); [inversion H; reflexivity|discriminate].
  - apply IH. assumption.
Qed.

(* ---- semantic preservation of the reference forwarding `forward` --------------------------------- *)
Section DesymSem.
Variable outv : nat -> Z.                 (* values defined outside the block (constants, arguments) *)
Variable usef : nat -> list Z -> Z.       (* what the op with result id computes from its operand values *)
Variable init : nat -> Z.                 (* content of a symbol's cell on entry (symbols of an outer scope) *)
Notation valof := (sym_valof outv).
Notation cell := (sym_cell init).
Notation run := (sym_run outv usef init).

Lemma existsb_false_In : forall (p : sval -> bool) l v, existsb p l = false -> In v l -> p v = false.
Proof.
  intros p l v H Hin. destruct (p v) eqn:E; [|reflexivity].
  assert (existsb p l = true) by (apply existsb_exists; exists v; split; assumption). congruence.
Qed.

Lemma valof_upd_f : forall fe ue x z v, mentions_f x v = false -> valof (upd fe x z) ue v = valof fe ue v.
Proof.
  intros fe ue x z v H. destruct v as [n|r]; [reflexivity|]. cbn in *. unfold upd.
  rewrite Nat.eqb_sym. rewrite H. reflexivity.
Qed.
Lemma valof_upd_u : forall fe ue x z v, mentions_u x v = false -> valof fe (upd ue x z) v = valof fe ue v.
Proof.
  intros fe ue x z v H. destruct v as [n|r]; [|reflexivity]. cbn in *. unfold upd.
  rewrite Nat.eqb_sym. rewrite H. reflexivity.
Qed.

Record inv (sm fm : list (nat * sval)) (sy1 fe1 sy2 fe2 ue : fenv) (seen : list sval) : Prop := {
  inv_sym_some : forall s v, sym_lookup s sm = Some v -> sy1 s = Some (valof fe2 ue v) /\ In v seen;
  inv_sym_none : forall s, sym_lookup s sm = None -> sy1 s = sy2 s;
  inv_f_some : forall r v, val_lookup r fm = Some v ->
                 fe1 r = Some (valof fe2 ue v) /\ In v seen /\ In (VFetch r) seen;
  inv_f_none : forall r, val_lookup r fm = None -> fe1 r = fe2 r }.

Lemma resolve_ok : forall sm fm sy1 fe1 sy2 fe2 ue seen v,
  inv sm fm sy1 fe1 sy2 fe2 ue seen -> valof fe1 ue v = valof fe2 ue (resolve fm v).
Proof.
  intros sm fm sy1 fe1 sy2 fe2 ue seen v I. destruct v as [n|r]; [reflexivity|].
  cbn [resolve]. destruct (val_lookup r fm) as [w|] eqn:E.
  - destruct (inv_f_some _ _ _ _ _ _ _ _ I r w E) as [H _]. cbn [sym_valof]. rewrite H. reflexivity.
  - cbn [sym_valof]. rewrite (inv_f_none _ _ _ _ _ _ _ _ I r E). reflexivity.
Qed.

Lemma resolve_seen : forall sm fm sy1 fe1 sy2 fe2 ue seen v,
  inv sm fm sy1 fe1 sy2 fe2 ue seen -> In (resolve fm v) (v :: seen).
Proof.
  intros sm fm sy1 fe1 sy2 fe2 ue seen v I. destruct v as [n|r]; [left; reflexivity|].
  cbn [resolve]. destruct (val_lookup r fm) as [w|] eqn:E; [|left; reflexivity].
  right. exact (proj1 (proj2 (inv_f_some _ _ _ _ _ _ _ _ I r w E))).
Qed.

Lemma map_resolve_ok : forall sm fm sy1 fe1 sy2 fe2 ue seen args,
  inv sm fm sy1 fe1 sy2 fe2 ue seen ->
  map (valof fe1 ue) args = map (valof fe2 ue) (map (resolve fm) args).
Proof.
  intros sm fm sy1 fe1 sy2 fe2 ue seen args I. rewrite map_map. apply map_ext.
  intros v. eapply resolve_ok; eassumption.
Qed.

(* store/load forwarding preserves what every remaining op computes: on every block in SSA form the
   forwarded block, which has no update left and only the fetches that precede the first update of
   their symbol, produces the same values *)
Theorem forward_preserves : forall ops sm fm sy1 fe1 sy2 fe2 ue seen,
  wf_block ops seen = true -> inv sm fm sy1 fe1 sy2 fe2 ue seen ->
  run (forward ops sm fm) sy2 fe2 ue = run ops sy1 fe1 ue.
Proof.
  induction ops as [|o rest IH]; intros sm fm sy1 fe1 sy2 fe2 ue seen Hwf I; [reflexivity|].
  destruct o as [s|s v|s x|id args]; cbn [forward sym_run wf_block] in *.
  - eapply IH; eassumption.
  - eapply IH; [eassumption|].
    constructor.
    + intros s' w H. cbn [sym_lookup] in H. unfold upd.
      destruct (Nat.eqb s' s) eqn:E.
      * inversion H; subst. split.
        -- f_equal. eapply resolve_ok; eassumption.
        -- eapply resolve_seen; eassumption.
      * destruct (inv_sym_some _ _ _ _ _ _ _ _ I s' w H) as [H1 H2]. split; [assumption|right; assumption].
    + intros s' H. cbn [sym_lookup] in H. unfold upd.
      destruct (Nat.eqb s' s) eqn:E; [discriminate|]. apply (inv_sym_none _ _ _ _ _ _ _ _ I). assumption.
    + intros r w H. destruct (inv_f_some _ _ _ _ _ _ _ _ I r w H) as [H1 [H2 H3]].
      split; [assumption|split; right; assumption].
    + apply (inv_f_none _ _ _ _ _ _ _ _ I).
  - apply andb_prop in Hwf. destruct Hwf as [Hfresh Hwf]. apply negb_true_iff in Hfresh.
    assert (Hnone : val_lookup x fm = None).
    { destruct (val_lookup x fm) as [w|] eqn:E; [|reflexivity].
      destruct (inv_f_some _ _ _ _ _ _ _ _ I x w E) as [_ [_ Hin]].
      pose proof (existsb_false_In _ _ _ Hfresh Hin) as Hm. cbn in Hm. rewrite Nat.eqb_refl in Hm. discriminate. }
    destruct (sym_lookup s sm) as [w|] eqn:Es.
    + (* forwarded: the fetch disappears *)
      destruct (inv_sym_some _ _ _ _ _ _ _ _ I s w Es) as [Hsy Hw].
      eapply IH; [eassumption|].
      constructor.
      * intros s' w' H. destruct (inv_sym_some _ _ _ _ _ _ _ _ I s' w' H) as [H1 H2].
        split; [assumption|right; assumption].
      * apply (inv_sym_none _ _ _ _ _ _ _ _ I).
      * intros r w' H. cbn [val_lookup] in H. unfold upd.
        destruct (Nat.eqb r x) eqn:E.
        -- inversion H; subst. apply Nat.eqb_eq in E. subst r. split.
           ++ unfold sym_cell. rewrite Hsy. reflexivity.
           ++ split; [right; assumption|left; reflexivity].
        -- destruct (inv_f_some _ _ _ _ _ _ _ _ I r w' H) as [H1 [H2 H3]].
           split; [assumption|split; right; assumption].
      * intros r H. cbn [val_lookup] in H. unfold upd.
        destruct (Nat.eqb r x) eqn:E; [discriminate|]. apply (inv_f_none _ _ _ _ _ _ _ _ I). assumption.
    + (* not forwarded: the fetch stays and reads the same cell *)
      cbn [sym_run]. pose proof (inv_sym_none _ _ _ _ _ _ _ _ I s Es) as Hcell.
      assert (Hc : cell sy2 s = cell sy1 s) by (unfold sym_cell; rewrite Hcell; reflexivity).
      rewrite Hc. eapply IH; [eassumption|].
      constructor.
      * intros s' w' H. destruct (inv_sym_some _ _ _ _ _ _ _ _ I s' w' H) as [H1 H2].
        split; [|right; assumption].
        rewrite valof_upd_f; [assumption|]. eapply existsb_false_In; eassumption.
      * apply (inv_sym_none _ _ _ _ _ _ _ _ I).
      * intros r w' H. destruct (inv_f_some _ _ _ _ _ _ _ _ I r w' H) as [H1 [H2 H3]].
        assert (Hrx : Nat.eqb r x = false).
        { destruct (Nat.eqb r x) eqn:E; [|reflexivity]. apply Nat.eqb_eq in E. subst. congruence. }
        split; [|split; right; assumption].
        unfold upd at 1. rewrite Hrx. rewrite valof_upd_f; [assumption|].
        eapply existsb_false_In; eassumption.
      * intros r H. unfold upd. destruct (Nat.eqb r x); [reflexivity|].
        apply (inv_f_none _ _ _ _ _ _ _ _ I). assumption.
  - apply andb_prop in Hwf. destruct Hwf as [Hfresh Hwf]. apply negb_true_iff in Hfresh.
    rewrite <- (map_resolve_ok _ _ _ _ _ _ _ _ args I).
    f_equal. eapply IH; [eassumption|].
    set (z := usef id (map (valof fe1 ue) args)).
    constructor.
    + intros s' w' H. destruct (inv_sym_some _ _ _ _ _ _ _ _ I s' w' H) as [H1 H2].
      split; [|right; apply in_or_app; right; assumption].
      rewrite valof_upd_u; [assumption|]. eapply existsb_false_In; [eassumption|apply in_or_app; right; assumption].
    + apply (inv_sym_none _ _ _ _ _ _ _ _ I).
    + intros r w' H. destruct (inv_f_some _ _ _ _ _ _ _ _ I r w' H) as [H1 [H2 H3]].
      split; [|split; right; apply in_or_app; right; assumption].
      rewrite valof_upd_u; [assumption|]. eapply existsb_false_In; [eassumption|apply in_or_app; right; assumption].
    + apply (inv_f_none _ _ _ _ _ _ _ _ I).
Qed.

(* from the empty state: a whole block *)
Theorem forward_preserves_block : forall ops sy fe ue, wf_block ops [] = true ->
  run (forward ops [] []) sy fe ue = run ops sy fe ue.
Proof.
  intros ops sy fe ue Hwf. eapply forward_preserves; [eassumption|].
  constructor; cbn; intros; try discriminate; reflexivity.
Qed.
(* ---- the same for blocks that also use cells of an enclosing scope (forward2) ------------------------ *)
Notation final := (sym_final outv usef init).

Record inv2 (decl : list nat) (rest : list sop) (sm fm : list (nat * sval))
            (sy1 fe1 sy2 fe2 ue : fenv) (seen : list sval) : Prop := {
  i2_sym_some : forall s v, sym_lookup s sm = Some v -> cell sy1 s = valof fe2 ue v /\ In v seen;
  i2_sym_none : forall s, sym_lookup s sm = None -> cell sy1 s = cell sy2 s;
  i2_f_some : forall r v, val_lookup r fm = Some v ->
                 fe1 r = Some (valof fe2 ue v) /\ In v seen /\ In (VFetch r) seen;
  i2_f_none : forall r, val_lookup r fm = None -> fe1 r = fe2 r;
  (* a cell of the enclosing scope whose content lags behind has an update still to come *)
  i2_pending : forall s, existsb (Nat.eqb s) decl = false ->
                 cell sy1 s = cell sy2 s \/ later_update s rest = true }.

Lemma resolve_ok2 : forall decl rest sm fm sy1 fe1 sy2 fe2 ue seen v,
  inv2 decl rest sm fm sy1 fe1 sy2 fe2 ue seen -> valof fe1 ue v = valof fe2 ue (resolve fm v).
Proof.
  intros decl rest sm fm sy1 fe1 sy2 fe2 ue seen v I. destruct v as [n|r]; [reflexivity|].
  cbn [resolve]. destruct (val_lookup r fm) as [w|] eqn:E.
  - destruct (i2_f_some _ _ _ _ _ _ _ _ _ _ I r w E) as [H _]. cbn [sym_valof]. rewrite H. reflexivity.
  - cbn [sym_valof]. rewrite (i2_f_none _ _ _ _ _ _ _ _ _ _ I r E). reflexivity.
Qed.

Lemma resolve_seen2 : forall decl rest sm fm sy1 fe1 sy2 fe2 ue seen v,
  inv2 decl rest sm fm sy1 fe1 sy2 fe2 ue seen -> In (resolve fm v) (v :: seen).
Proof.
  intros decl rest sm fm sy1 fe1 sy2 fe2 ue seen v I. destruct v as [n|r]; [left; reflexivity|].
  cbn [resolve]. destruct (val_lookup r fm) as [w|] eqn:E; [|left; reflexivity].
  right. exact (proj1 (proj2 (i2_f_some _ _ _ _ _ _ _ _ _ _ I r w E))).
Qed.

Lemma cell_upd_same : forall sy s z, cell (upd sy s z) s = z.
Proof. intros. unfold sym_cell, upd. rewrite Nat.eqb_refl. reflexivity. Qed.
Lemma cell_upd_other : forall sy s s' z, Nat.eqb s' s = false -> cell (upd sy s z) s' = cell sy s'.
Proof. intros sy s s' z H. unfold sym_cell, upd. rewrite H. reflexivity. Qed.

Theorem forward2_preserves : forall decl ops sm fm sy1 fe1 sy2 fe2 ue seen,
  wf_block ops seen = true -> inv2 decl ops sm fm sy1 fe1 sy2 fe2 ue seen ->
  run (forward2 decl ops sm fm) sy2 fe2 ue = run ops sy1 fe1 ue
  /\ (forall s, existsb (Nat.eqb s) decl = false ->
        cell (final (forward2 decl ops sm fm) sy2 fe2 ue) s = cell (final ops sy1 fe1 ue) s).
Proof.
  intros decl. induction ops as [|o rest IH]; intros sm fm sy1 fe1 sy2 fe2 ue seen Hwf I.
  - cbn. split; [reflexivity|]. intros s Hs.
    destruct (i2_pending _ _ _ _ _ _ _ _ _ _ I s Hs) as [H|H]; [symmetry; assumption|discriminate].
  - destruct o as [s|s v|s x|id args]; cbn [forward2 sym_run sym_final wf_block] in *.
    + eapply IH; [eassumption|]. destruct I as [A B C D P].
      constructor; try assumption;
        (intros s' Hs'; destruct (P s' Hs') as [H|H]; [left; assumption|right; exact H]).
    + (* update *)
      set (z := valof fe1 ue v).
      assert (Hz : z = valof fe2 ue (resolve fm v)) by (eapply resolve_ok2; eassumption).
      assert (Hcommon : forall sy2',
                (forall s', Nat.eqb s' s = false -> cell sy2' s' = cell sy2 s') ->
                (existsb (Nat.eqb s) decl = false -> cell sy2' s = z \/ later_update s rest = true) ->
                inv2 decl rest ((s, resolve fm v) :: sm) fm (upd sy1 s z) fe1 sy2' fe2 ue (v :: seen)).
      { intros sy2' Hother Hs. constructor.
        - intros s' w H. cbn [sym_lookup] in H. destruct (Nat.eqb s' s) eqn:E.
          + apply Nat.eqb_eq in E. subst s'. inversion H; subst w. split.
            * rewrite cell_upd_same. exact Hz.
            * eapply resolve_seen2; eassumption.
          + rewrite cell_upd_other by assumption.
            destruct (i2_sym_some _ _ _ _ _ _ _ _ _ _ I s' w H) as [H1 H2]. split; [assumption|right; assumption].
        - intros s' H. cbn [sym_lookup] in H. destruct (Nat.eqb s' s) eqn:E; [discriminate|].
          rewrite cell_upd_other by assumption. rewrite Hother by assumption.
          apply (i2_sym_none _ _ _ _ _ _ _ _ _ _ I). assumption.
        - intros r w H. destruct (i2_f_some _ _ _ _ _ _ _ _ _ _ I r w H) as [H1 [H2 H3]].
          split; [assumption|split; right; assumption].
        - apply (i2_f_none _ _ _ _ _ _ _ _ _ _ I).
        - intros s' Hs'. destruct (Nat.eqb s' s) eqn:E.
          + apply Nat.eqb_eq in E. subst s'. rewrite cell_upd_same.
            destruct (Hs Hs') as [H|H]; [left; symmetry; assumption|right; assumption].
          + rewrite cell_upd_other by assumption. rewrite Hother by assumption.
            destruct (i2_pending _ _ _ _ _ _ _ _ _ _ I s' Hs') as [H|H]; [left; assumption|].
            right. cbn [later_update existsb] in H. rewrite E in H. exact H. }
      destruct (existsb (Nat.eqb s) decl || later_update s rest) eqn:Ec.
      * eapply IH; [eassumption|]. apply Hcommon; [reflexivity|].
        intros Hd. rewrite Hd in Ec. cbn in Ec. right. assumption.
      * cbn [sym_run sym_final]. rewrite <- Hz. eapply IH; [eassumption|].
        apply Hcommon.
        -- intros s' E. apply cell_upd_other. assumption.
        -- intros _. left. apply cell_upd_same.
    + (* fetch *)
      apply andb_prop in Hwf. destruct Hwf as [Hfresh Hwf]. apply negb_true_iff in Hfresh.
      assert (Hnone : val_lookup x fm = None).
      { destruct (val_lookup x fm) as [w|] eqn:E; [|reflexivity].
        destruct (i2_f_some _ _ _ _ _ _ _ _ _ _ I x w E) as [_ [_ Hin]].
        pose proof (existsb_false_In _ _ _ Hfresh Hin) as Hm. cbn in Hm. rewrite Nat.eqb_refl in Hm. discriminate. }
      destruct (sym_lookup s sm) as [w|] eqn:Es.
      * destruct (i2_sym_some _ _ _ _ _ _ _ _ _ _ I s w Es) as [Hsy Hw].
        eapply IH; [eassumption|]. constructor.
        -- intros s' w' H. destruct (i2_sym_some _ _ _ _ _ _ _ _ _ _ I s' w' H) as [H1 H2].
           split; [assumption|right; assumption].
        -- apply (i2_sym_none _ _ _ _ _ _ _ _ _ _ I).
        -- intros r w' H. cbn [val_lookup] in H. unfold upd. destruct (Nat.eqb r x) eqn:E.
           ++ inversion H; subst. apply Nat.eqb_eq in E. subst r. split.
              ** rewrite Hsy. reflexivity.
              ** split; [right; assumption|left; reflexivity].
           ++ destruct (i2_f_some _ _ _ _ _ _ _ _ _ _ I r w' H) as [H1 [H2 H3]].
              split; [assumption|split; right; assumption].
        -- intros r H. cbn [val_lookup] in H. unfold upd.
           destruct (Nat.eqb r x) eqn:E; [discriminate|]. apply (i2_f_none _ _ _ _ _ _ _ _ _ _ I). assumption.
        -- intros s' Hs'. destruct (i2_pending _ _ _ _ _ _ _ _ _ _ I s' Hs') as [H|H]; [left; assumption|right; exact H].
      * cbn [sym_run sym_final]. pose proof (i2_sym_none _ _ _ _ _ _ _ _ _ _ I s Es) as Hcell.
        rewrite <- Hcell. eapply IH; [eassumption|]. constructor.
        -- intros s' w' H. cbn [sym_lookup] in H. destruct (Nat.eqb s' s) eqn:E.
           ++ apply Nat.eqb_eq in E. subst s'. inversion H; subst w'. split; [|left; reflexivity].
              cbn [sym_valof]. unfold upd. rewrite Nat.eqb_refl. reflexivity.
           ++ destruct (i2_sym_some _ _ _ _ _ _ _ _ _ _ I s' w' H) as [H1 H2]. split; [|right; assumption].
              rewrite valof_upd_f; [assumption|]. eapply existsb_false_In; eassumption.
        -- intros s' H. cbn [sym_lookup] in H. destruct (Nat.eqb s' s) eqn:E; [discriminate|].
           apply (i2_sym_none _ _ _ _ _ _ _ _ _ _ I). assumption.
        -- intros r w' H. destruct (i2_f_some _ _ _ _ _ _ _ _ _ _ I r w' H) as [H1 [H2 H3]].
           assert (Hrx : Nat.eqb r x = false).
           { destruct (Nat.eqb r x) eqn:E; [|reflexivity]. apply Nat.eqb_eq in E. subst. congruence. }
           split; [|split; right; assumption].
           unfold upd at 1. rewrite Hrx. rewrite valof_upd_f; [assumption|].
           eapply existsb_false_In; eassumption.
        -- intros r H. unfold upd. destruct (Nat.eqb r x); [reflexivity|].
           apply (i2_f_none _ _ _ _ _ _ _ _ _ _ I). assumption.
        -- intros s' Hs'. destruct (i2_pending _ _ _ _ _ _ _ _ _ _ I s' Hs') as [H|H]; [left; assumption|right; exact H].
    + (* any other op *)
      apply andb_prop in Hwf. destruct Hwf as [Hfresh Hwf]. apply negb_true_iff in Hfresh.
      assert (Hargs : map (valof fe1 ue) args = map (valof fe2 ue) (map (resolve fm) args)).
      { rewrite map_map. apply map_ext. intros v. eapply resolve_ok2; eassumption. }
      rewrite <- Hargs.
      set (z := usef id (map (valof fe1 ue) args)).
      assert (I' : inv2 decl rest sm fm sy1 fe1 sy2 fe2 (upd ue id z) (VOut id :: args ++ seen)).
      { constructor.
        - intros s' w' H. destruct (i2_sym_some _ _ _ _ _ _ _ _ _ _ I s' w' H) as [H1 H2].
          split; [|right; apply in_or_app; right; assumption].
          rewrite valof_upd_u; [assumption|].
          eapply existsb_false_In; [eassumption|apply in_or_app; right; assumption].
        - apply (i2_sym_none _ _ _ _ _ _ _ _ _ _ I).
        - intros r w' H. destruct (i2_f_some _ _ _ _ _ _ _ _ _ _ I r w' H) as [H1 [H2 H3]].
          split; [|split; right; apply in_or_app; right; assumption].
          rewrite valof_upd_u; [assumption|].
          eapply existsb_false_In; [eassumption|apply in_or_app; right; assumption].
        - apply (i2_f_none _ _ _ _ _ _ _ _ _ _ I).
        - intros s' Hs'. destruct (i2_pending _ _ _ _ _ _ _ _ _ _ I s' Hs') as [H|H]; [left; assumption|right; exact H]. }
      destruct (IH sm fm sy1 fe1 sy2 fe2 (upd ue id z) _ Hwf I') as [IH1 IH2].
      split; [f_equal; exact IH1|exact IH2].
Qed.

(* from the empty state: a whole block; the values computed AND the final content of every cell of the
   enclosing scope are preserved *)
Theorem forward2_preserves_block : forall decl ops sy fe ue, wf_block ops [] = true ->
  run (forward2 decl ops [] []) sy fe ue = run ops sy fe ue
  /\ (forall s, existsb (Nat.eqb s) decl = false ->
        cell (final (forward2 decl ops [] []) sy fe ue) s = cell (final ops sy fe ue) s).
Proof.
  intros decl ops sy fe ue Hwf. eapply forward2_preserves; [eassumption|].
  constructor; cbn; intros; try discriminate; try reflexivity. left. reflexivity.
Qed.
End DesymSem.
