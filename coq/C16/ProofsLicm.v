(* C16/ProofsLicm.v -- loop-invariant code motion kernel, the speculatability table, the worklist,
   and the lower-affine expression kernel. *)
From Coq Require Import ZArith List Bool Lia Arith.
From XV Require Import C16.Model C16.ProofsFor.
Import ListNotations.
Local Open Scope Z_scope.

(* ================================================================== hoisting commutes with the loop *)
Section Licm.
Variable st : Type.
Variable body_v : Z -> Z -> st -> st.

Lemma licm_orig_some : forall n v iv step s,
  licm_orig st body_v n (Some v) iv step s = Some (iter_from st (body_v v) n iv step s).
Proof.
  induction n as [|n IH]; intros v iv step s; [reflexivity|].
  cbn [licm_orig iter_from]. apply IH.
Qed.

(* a speculatable op (never traps: its value is `Some v`) can be hoisted out of ANY loop, including
   a zero-trip one (n = 0) *)
Theorem licm_commutes : forall n v iv step s,
  licm_hoisted st body_v n (Some v) iv step s = licm_orig st body_v n (Some v) iv step s.
Proof. intros. rewrite licm_orig_some. reflexivity. Qed.

(* strongest statement: hoisting is correct iff the op cannot trap or the loop runs at least once
   (the kernel's body has no effect that precedes the op inside an iteration) *)
Theorem licm_partial : forall n opv iv step s, (opv <> None \/ (0 < n)%nat) ->
  licm_hoisted st body_v n opv iv step s = licm_orig st body_v n opv iv step s.
Proof.
  intros n opv iv step s H. destruct opv as [v|].
  - apply licm_commutes.
  - destruct H as [H|H]; [contradiction|]. destruct n; [lia|]. reflexivity.
Qed.

(* a trapping op hoisted out of a zero-trip loop: the original returns, the hoisted program traps *)
Theorem licm_zero_trip_refuted : forall iv step s,
  licm_orig st body_v 0 None iv step s = Some s /\ licm_hoisted st body_v 0 None iv step s = None.
Proof. intros. split; reflexivity. Qed.
End Licm.

(* ================================================================== the speculatability table *)
(* what xDSL declares hoistable includes ops that trap: arith.remsi / floordivsi / ceildivsi are
   declared Pure although division by zero is undefined *)
Theorem hoistable_refuted : exists k rc a b,
  hoistable_kind k rc = true /\ (forall c, rc = Some c -> b = c) /\ op_eval k a b = None.
Proof. exists KRemsi, None, 3, 0. repeat split. intros c H. discriminate. Qed.

Definition declared_pure_division (k : opkind) : bool :=
  match k with KRemsi | KFloordivsi | KCeildivsi => true | _ => false end.

Theorem hoistable_partial : forall k rc a b,
  declared_pure_division k = false ->
  hoistable_kind k rc = true -> (forall c, rc = Some c -> b = c) -> op_eval k a b <> None.
Proof.
  intros k rc a b Hk Hh Hrc. destruct k; cbn in *; try discriminate.
  destruct rc as [c|]; [|discriminate]. rewrite (Hrc c eq_refl).
  destruct (c =? 0); [discriminate|]. discriminate.
Qed.

(* ================================================================== the worklist terminates, is sound *)
Lemma filter_len_le : forall (f : nat -> bool) l, (length (filter f l) <= length l)%nat.
Proof.
  intros f. induction l as [|a l IH]; [cbn; lia|]. cbn. destruct (f a); cbn; lia.
Qed.

Lemma users_length : forall ops i, (length (users ops i) <= length ops)%nat.
Proof.
  intros. unfold users. etransitivity; [apply filter_len_le|]. rewrite seq_length. lia.
Qed.

Lemma existsb_eqb_In : forall i l, existsb (Nat.eqb i) l = true <-> In i l.
Proof.
  intros i l. rewrite existsb_exists. split.
  - intros [x [Hin He]]. apply Nat.eqb_eq in He. subst. assumption.
  - intros H. exists i. split; [assumption|apply Nat.eqb_refl].
Qed.

Lemma can_hoist_lt : forall ops moved i, can_hoist ops moved i = true -> (i < length ops)%nat.
Proof.
  intros ops moved i H. unfold can_hoist in H.
  destruct (nth_error ops i) eqn:E; [|discriminate].
  apply nth_error_Some. congruence.
Qed.

Lemma NoDup_snoc : forall (l : list nat) x, NoDup l -> ~ In x l -> NoDup (l ++ [x]).
Proof.
  induction l as [|a l IH]; intros x Hnd Hnin; cbn.
  - constructor; [intros []|constructor].
  - inversion Hnd as [|? ? Ha Hl]; subst. constructor.
    + intro Hin. apply in_app_or in Hin. destruct Hin as [Hin|[Hin|[]]]; [contradiction|].
      subst. apply Hnin. left. reflexivity.
    + apply IH; [assumption|]. intro Hin. apply Hnin. right. assumption.
Qed.

Definition moved_inv (ops : list bop) (moved : list nat) : Prop :=
  NoDup moved /\ (forall i, In i moved -> (i < length ops)%nat).

Lemma moved_inv_length : forall ops moved, moved_inv ops moved -> (length moved <= length ops)%nat.
Proof.
  intros ops moved [Hnd Hlt].
  rewrite <- (seq_length (length ops) 0).
  apply NoDup_incl_length; [assumption|].
  intros i Hi. apply in_seq. specialize (Hlt i Hi). lia.
Qed.

Lemma licm_loop_terminates : forall fuel ops wl moved, moved_inv ops moved ->
  (length wl + length ops * (length ops - length moved) < fuel)%nat ->
  exists r, licm_loop fuel ops wl moved = Some r.
Proof.
  induction fuel as [|f IH]; intros ops wl moved Hinv Hf; [lia|].
  cbn [licm_loop]. destruct wl as [|i rest]; [eexists; reflexivity|].
  cbn [length] in Hf.
  destruct (existsb (Nat.eqb i) moved) eqn:Em; [apply IH; [assumption|lia]|].
  destruct (can_hoist ops moved i) eqn:Eh; [|apply IH; [assumption|lia]].
  assert (Hnotin : ~ In i moved).
  { intro Hin. apply existsb_eqb_In in Hin. congruence. }
  assert (Hinv' : moved_inv ops (moved ++ [i])).
  { destruct Hinv as [Hnd Hlt]. split.
    - apply NoDup_snoc; assumption.
    - intros j Hj. apply in_app_or in Hj. destruct Hj as [Hj|[Hj|[]]]; [auto|].
      subst. eapply can_hoist_lt; eassumption. }
  pose proof (moved_inv_length _ _ Hinv') as Hlen. rewrite app_length in Hlen. cbn in Hlen.
  apply IH; [assumption|].
  rewrite !app_length. cbn [length]. pose proof (users_length ops i).
  nia.
Qed.

Lemma moved_inv_nil : forall ops, moved_inv ops [].
Proof. intros. split; [constructor|intros i []]. Qed.

(* the fuel of licm_pass always suffices *)
Theorem licm_pass_terminates : forall ops, exists r, licm_pass ops = Some r.
Proof.
  intros ops. unfold licm_pass. apply licm_loop_terminates; [apply moved_inv_nil|].
  rewrite seq_length. cbn [length]. nia.
Qed.

(* every op is hoisted only when the table allows it and all its operands are already outside the
   loop (defined outside, or hoisted earlier): the move preserves SSA dominance and invariance *)
Inductive sound_seq (ops : list bop) : list nat -> Prop :=
  | sound_nil : sound_seq ops []
  | sound_snoc : forall moved i, sound_seq ops moved -> ~ In i moved ->
      can_hoist ops moved i = true -> sound_seq ops (moved ++ [i]).

Lemma licm_loop_sound : forall fuel ops wl moved r,
  sound_seq ops moved -> licm_loop fuel ops wl moved = Some r -> sound_seq ops r.
Proof.
  induction fuel as [|f IH]; intros ops wl moved r Hs Hr; [discriminate|].
  cbn [licm_loop] in Hr. destruct wl as [|i rest]; [inversion Hr; subst; assumption|].
  destruct (existsb (Nat.eqb i) moved) eqn:Em; [eapply IH; eassumption|].
  destruct (can_hoist ops moved i) eqn:Eh; [|eapply IH; eassumption].
  eapply IH; [|eassumption]. apply sound_snoc; [assumption| |assumption].
  intro Hin. apply existsb_eqb_In in Hin. congruence.
Qed.

Theorem licm_pass_sound : forall ops r, licm_pass ops = Some r -> sound_seq ops r.
Proof. intros ops r H. eapply licm_loop_sound; [apply sound_nil|exact H]. Qed.

(* ================================================================== lower-affine: expressions *)
(* affine `mod` is the floor remainder (result in [0, rhs) for rhs > 0); the lowering emits
   arith.remsi, whose result has the sign of the dividend *)
Theorem affine_mod_refuted : exists e dims,
  aff_eval e dims [] = Some 3 /\ lower_eval e dims [] = Some (-1).
Proof. exists (AMod (ADim 0) (AConst 4)), [-1]. split; reflexivity. Qed.

Fixpoint mods_nonneg (e : aexpr) (dims syms : list Z) : Prop :=
  match e with
  | AConst _ | ADim _ | ASym _ => True
  | AAdd a b | AMul a b | AFloorDiv a b | ACeilDiv a b =>
      mods_nonneg a dims syms /\ mods_nonneg b dims syms
  | AMod a b =>
      mods_nonneg a dims syms /\ mods_nonneg b dims syms /\
      (forall x y, aff_eval a dims syms = Some x -> aff_eval b dims syms = Some y -> 0 <= x /\ 0 < y)
  end.

Theorem affine_lowering_partial : forall e dims syms, mods_nonneg e dims syms ->
  lower_eval e dims syms = aff_eval e dims syms.
Proof.
  induction e as [c|i|i|a IHa b IHb|a IHa b IHb|a IHa b IHb|a IHa b IHb|a IHa b IHb];
    intros dims syms H; cbn [lower_eval aff_eval mods_nonneg] in *; try reflexivity.
  - destruct H as [Ha Hb]. rewrite (IHa _ _ Ha), (IHb _ _ Hb).
    destruct (aff_eval a dims syms), (aff_eval b dims syms); reflexivity.
  - destruct H as [Ha Hb]. rewrite (IHa _ _ Ha), (IHb _ _ Hb).
    destruct (aff_eval a dims syms), (aff_eval b dims syms); reflexivity.
  - destruct H as [Ha [Hb Hpos]]. rewrite (IHa _ _ Ha), (IHb _ _ Hb).
    destruct (aff_eval a dims syms) as [x|], (aff_eval b dims syms) as [y|]; try reflexivity.
    destruct (Hpos x y eq_refl eq_refl) as [Hx Hy]. cbn [op_eval].
    destruct (y =? 0) eqn:E; [reflexivity|]. f_equal. apply Z.rem_mod_nonneg; lia.
  - destruct H as [Ha Hb]. rewrite (IHa _ _ Ha), (IHb _ _ Hb).
    destruct (aff_eval a dims syms), (aff_eval b dims syms); reflexivity.
  - destruct H as [Ha Hb]. rewrite (IHa _ _ Ha), (IHb _ _ Hb).
    destruct (aff_eval a dims syms), (aff_eval b dims syms); reflexivity.
Qed.
