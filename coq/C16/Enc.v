(* C16/Enc.v -- concrete loop body, encoders and per-family case evaluators for the correspondence
   check (harness/props/c16.py).  No proofs. *)
From Coq Require Import ZArith List Bool.
From XV Require Import Base.Show C16.Model.
Import ListNotations.
Local Open Scope Z_scope.

(* concrete state: (tuple of loop-carried values v0..v(k-1), effect log newest first) *)
Definition cst := (list Z * list Z)%type.
(* the generated loop body (harness body_lines): eff(d*x + e*v0 + h*v1 + g); new = a*v0 + b*x + c;
   the yield is the simultaneous assignment yield_sim sel *)
Definition mbody (a b c d e g h : Z) (sel : list Z) (x : Z) (s : cst) : cst :=
  let '(vals, log) := s in
  let v0 := nth 0 vals 0 in
  let v1 := nth 1 vals 0 in
  (yield_sim sel vals (a * v0 + b * x + c), (d * x + e * v0 + h * v1 + g) :: log).

Definition FUEL : nat := 260.

(* result 0 is returned, results 1.. are passed to @eff after the loop *)
Definition enc_st (s : cst) : sx := L [I 0; I (nth 0 (fst s) 0); sLZ (rev (snd s) ++ tl (fst s))].
Definition enc_ost (o : option cst) : sx := match o with Some s => enc_st s | None => L [I 2] end.
Definition enc_rres (r : rres cst) : sx :=
  match r with RDone _ s => enc_st s | RFuel _ => L [I 2] | RStuck _ => L [I 9] end.

(* ---------------------------------------------------------------- convert-scf-to-cf *)
Definition enc_block (b : block) : sx :=
  let pay := match b_pay b with PNone => 0 | PBody => 1 | PThen => 2 | PElse => 3 end in
  match b_term b with
  | Br t a => L [I pay; I 0; sN t; I (match a with ArgLb => 0 | ArgStepped => 1 | ArgSame => 2 end)]
  | CmpSltCondBr t f => L [I pay; I 1; sN t; sN f]
  | CondBr t f => L [I pay; I 2; sN t; sN f]
  | Exit => L [I pay; I 3; I 0; I 0]
  end.
Definition c16_shape_for : sx := L (map enc_block lower_for).
Definition c16_shape_if (has_else has_results : bool) : sx := L (map enc_block (lower_if has_else has_results)).

Definition c16_run_for (body : Z -> cst -> cst) (lb ub step : Z) (init : list Z) : sx :=
  enc_rres (cfg_run cst body (fun s => s) (fun s => s) lb ub step false FUEL lower_for 0%nat 0 (init, [])).
Definition c16_run_if (bt be : cst -> cst) (cond has_else has_results : bool) (init : list Z) : sx :=
  enc_rres (cfg_run cst (fun _ s => s) bt be 0 0 0 cond FUEL (lower_if has_else has_results) 0%nat 0 (init, [])).

(* ---------------------------------------------------------------- range folding *)
(* links that stay in the body are executed; FOther links are arith.subi in generated cases *)
Definition exec_link (l : link) (v : Z) : Z :=
  match l_kind l with FAdd => v + l_c l | FMul => v * l_c l | FOther => v - l_c l end.
Definition exec_chain (ls : list link) (v : Z) : Z := fold_left (fun a l => exec_link l a) ls v.

Definition c16_fold (body : Z -> cst -> cst) (ls : list link) (lb ub step : Z) (init : list Z) : sx :=
  let '((lb', ub', step'), n) := fold_pass ls (lb, ub, step) 0 in
  let rest := skipn n ls in
  L [sN n; sLZ [lb'; ub'; step'];
     enc_ost (for_fuel cst (fun iv => body (exec_chain rest iv)) FUEL lb' ub' step' (init, []))].

(* ---------------------------------------------------------------- flatten *)
Definition c16_flat (body : Z -> cst -> cst) (perfect iter_ok : bool)
    (o_lb : Z) (o_lb_const : bool) (o_ub : Z) (o_ub_const : bool)
    (o_step i_lb i_ub i_step : option Z) (u : usekind) (init : list Z) : sx :=
  match flatten_model perfect iter_ok o_lb o_lb_const o_ub o_ub_const o_step i_lb i_ub i_step u with
  | FNoFire => L [I 0]
  | FRaise => L [I (-1); I 14]
  | FFireTrap => L [I 1; sLZ [0; 0; 0]; L [I 1]]
  | FFire lb ub step =>
      L [I 1; sLZ [lb; ub; step]; enc_ost (for_fuel cst body FUEL lb ub step (init, []))]
  end.

(* ---------------------------------------------------------------- unroll *)
Definition c16_unroll (fire : bool) (body : Z -> cst -> cst) (runs : list (Z * Z * Z * list Z)) : sx :=
  if fire then
    match runs with
    | [] => L []
    | (lb, ub, step, _) :: _ =>
        match py_range lb ub step with
        | None => L [I (-1); I 3]
        | Some ivs =>
            L [I 1; sLZ ivs;
               L (map (fun r => let '(_, _, _, init) := r in enc_st (unroll_sem cst body ivs (init, []))) runs)]
        end
    end
  else
    L [I 0; L [];
       L (map (fun r => let '(lb, ub, step, init) := r in
                        enc_ost (for_fuel cst body FUEL lb ub step (init, []))) runs)].

(* ---------------------------------------------------------------- licm *)
Definition c16_licm (ops : list bop) : sx :=
  match licm_pass ops with
  | None => L [I (-3)]
  | Some moved =>
      L [sLN moved;
         sLN (filter (fun i => negb (existsb (Nat.eqb i) moved)) (seq 0 (length ops)))]
  end.

(* ---------------------------------------------------------------- lower-affine *)
Definition c16_affine (e : aexpr) (runs : list (list Z * list Z)) : sx :=
  L [sLZ (lower_ops e);
     L (map (fun r => match lower_eval e (fst r) (snd r) with
                      | Some v => L [I 0; I v; L []]
                      | None => L [I 1]
                      end) runs)].

(* ---------------------------------------------------------------- scf.index_switch *)
Definition enc_sblock (b : sblock) : sx :=
  let pay := match sb_pay b with Some i => Z.of_nat i | None => -1 end in
  match sb_term b with
  | SSwitch d cs => L [I pay; I 0; sN d; L (map (fun c => L [I (fst c); sN (snd c)]) cs)]
  | SBr t => L [I pay; I 1; sN t]
  | SExit => L [I pay; I 2]
  end.
Definition c16_switch (cases : list Z) (fs : list (cst -> cst)) (runs : list (Z * list Z)) : sx :=
  L [L (map enc_sblock (lower_switch cases));
     L (map (fun r => enc_rres (sw_run cst (fun i s => nth i fs (fun s => s) s) FUEL
                                       (lower_switch cases) (fst r) 0%nat (snd r, []))) runs)].

(* ---------------------------------------------------------------- control-flow-hoist *)
Definition kind_code (k : opkind) : Z :=
  match k with KAddi => 0 | KSubi => 1 | KMuli => 2 | KDivsi => 3 | KRemsi => 4 | KFloordivsi => 5
             | KCeildivsi => 6 | KRemui => 7 | KCall => 8 end.
Definition c16_cfh (t e : list (opkind * option Z)) : sx :=
  if cfh_pass t e then L [I 1; sLZ (map (fun o => kind_code (fst o)) (t ++ e))] else L [I 0; L []].

(* ---------------------------------------------------------------- lower-affine for / load / store *)
Definition zseq (n : nat) : list Z := map Z.of_nat (seq 0 n).
Fixpoint check_trace (l : list (option Z)) (acc : list Z) : option (list Z) :=
  match l with
  | [] => Some (rev acc)
  | Some v :: r => if (0 <=? v) && (v <? 16) then check_trace r (v :: acc) else None
  | None :: _ => None
  end.
Definition c16_affmem (lbs ubs : list aexpr) (step : Z) (st ld : aexpr) (runs : list (Z * Z * Z)) : sx :=
  match lower_affine_for lbs ubs step with
  | LRaise c => L [I (-1); I c]
  | LTrap => L [I 1]
  | LFor l u s =>
      let ivs := if 0 <? s then range_from (Z.to_nat (trip l u s)) l s else [] in
      L [sLZ [l; u; s]; sLZ (lower_ops st); sLZ (lower_ops ld);
         L (map (fun r => let '(a1, a2, a3) := r in
                          match check_trace (map Some (zseq 16)
                                             ++ map (fun i => lower_eval st [i; a1] []) ivs
                                             ++ [lower_eval ld [a2; a3] []]
                                             ++ map Some (zseq 16)) [] with
                          | Some tr => L [I 0; sLZ tr]
                          | None => L [I 1]
                          end) runs)]
  end.

(* ---------------------------------------------------------------- frontend-desymrefy *)
Definition enc_sval (v : sval) : sx := match v with VOut n => L [I 0; sN n] | VFetch r => L [I 1; sN r] end.
Definition enc_sop (o : sop) : sx :=
  match o with
  | SDeclare s => L [I 0; sN s]
  | SUpdate s v => L [I 1; sN s; enc_sval v]
  | SFetch s r => L [I 2; sN s; sN r]
  | SUse id args => L [I 3; sN id; L (map enc_sval args)]
  end.
(* reference result: forward2 after dropping fetches nobody uses; a fetch that is only used by updates
   which forward2 erases is unused afterwards, the pass then prunes it too (and a later fetch becomes the
   surviving first one): iterate *)
Fixpoint ref_desym (fuel : nat) (decl : list nat) (ops : list sop) : list sop :=
  let r := forward2 decl (prune_unused_reads ops) [] [] in
  match fuel with
  | O => prune_unused_reads r
  | S f =>
      let dead := flat_map (fun o => match o with SFetch _ x => if uses_fetch x r then [] else [x] | _ => [] end) r in
      match dead with
      | [] => r
      | _ => ref_desym f decl (filter (fun o => match o with
                                                | SFetch _ x => negb (existsb (Nat.eqb x) dead)
                                                | _ => true end) ops)
      end
  end.
(* per-case validation of the model's result against the semantics the theorems are stated in: under a
   concrete interpretation the rewritten block computes the same values and leaves the same content in
   the cells of the enclosing scope *)
Definition c_outv (n : nat) : Z := Z.of_nat n * 7 + 1.
Definition c_usef (id : nat) (args : list Z) : Z := Z.of_nat id + 3 * nth 0 args 0 + 5 * nth 1 args 0.
Definition c_init (s : nat) : Z := 100 + Z.of_nat s.
Fixpoint trace_eqb (a b : list (nat * Z)) : bool :=
  match a, b with
  | [], [] => true
  | (i, x) :: a', (j, y) :: b' => Nat.eqb i j && (x =? y) && trace_eqb a' b'
  | _, _ => false
  end.
Definition none_env : fenv := fun _ => None.
Definition sem_same (ops res : list sop) : bool :=
  trace_eqb (sym_run c_outv c_usef c_init res none_env none_env none_env)
            (sym_run c_outv c_usef c_init ops none_env none_env none_env)
  && forallb (fun s => existsb (Nat.eqb s) (declared ops)
                       || (sym_cell c_init (sym_final c_outv c_usef c_init res none_env none_env none_env) s
                           =? sym_cell c_init (sym_final c_outv c_usef c_init ops none_env none_env none_env) s))
             (symbols_of ops).
Definition all_declared (ops : list sop) : bool :=
  forallb (fun s => existsb (Nat.eqb s) (declared ops)) (symbols_of ops).
Definition c16_desym (ops : list sop) : sx :=
  match desym_block ops with
  | DLoop => L [I (-3)]
  | DOk r =>
      (* when every symbol is declared in the block the pass result must BE the reference `forward`;
         with enclosing-scope symbols the surviving leading fetch may differ from forward2's choice *)
      L [L (map enc_sop r);
         L (map enc_sop (if all_declared ops then forward ops [] [] else r));
         sB (wf_block ops []); sB (sem_same ops r);
         sB (sem_same ops (forward2 (declared ops) ops [] []))]
  end.
