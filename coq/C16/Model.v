(* C16/Model.v -- executable kernels for the control-flow / loop passes (no proofs here).

   Every kernel is over an abstract loop body `body : Z -> st -> st` (induction variable,
   loop-carried state incl. effect log).  Mirrors, at the granularity of the transformation's
   arithmetic and CFG construction:
     xdsl/transforms/convert_scf_to_cf.py          ForLowering, IfLowering      (lower_for, lower_if, cfg machine)
     xdsl/transforms/scf_for_loop_range_folding.py ScfForLoopRangeFolding       (fold_pass)
     xdsl/transforms/scf_for_loop_flatten.py       FlattenNestedLoopsPattern    (flatten_model)
     xdsl/transforms/scf_for_loop_unroll.py        UnrollLoopPattern            (py_range, unroll_sem)
     xdsl/transforms/loop_invariant_code_motion.py _move_loop_invariant_code    (licm_pass, hoistable table)
     xdsl/transforms/lower_affine.py               affine_expr_ops              (lower_eval)            *)
From Coq Require Import ZArith List Bool.
Import ListNotations.
Local Open Scope Z_scope.

(* ------------------------------------------------------------------ reference semantics *)
Section Kernel.
Variable st : Type.
Variable body : Z -> st -> st.

(* MLIR scf.for, step > 0: iterate while iv < ub (signed).  Fuel-free: trip count = ceil((ub-lb)/step). *)
Definition trip (lb ub step : Z) : Z :=
  if lb <? ub then (ub - lb + step - 1) / step else 0.

Fixpoint iter_from (n : nat) (iv step : Z) (s : st) : st :=
  match n with
  | O => s
  | S n' => iter_from n' (iv + step) step (body iv s)
  end.

Definition for_sem (lb ub step : Z) (s : st) : st :=
  iter_from (Z.to_nat (trip lb ub step)) lb step s.

(* the same loop as a fuelled while-loop; defined for ANY step (step <= 0 with lb < ub never exits) *)
Fixpoint for_fuel (fuel : nat) (iv ub step : Z) (s : st) : option st :=
  match fuel with
  | O => None
  | S f => if iv <? ub then for_fuel f (iv + step) ub step (body iv s) else Some s
  end.

(* ------------------------------------------------------------------ convert-scf-to-cf *)
(* Block-argument CFG machine.  A block runs an abstract payload and then its terminator.  The
   only block arguments that matter for the kernel are (iv, loop-carried state); `iv_arg` says
   which value a cf.br passes for the iv argument. *)
Inductive iv_arg := ArgLb | ArgStepped | ArgSame.
Inductive term :=
  | Br (t : nat) (a : iv_arg)          (* cf.br ^t(<a>, state) *)
  | CmpSltCondBr (t f : nat)           (* %c = arith.cmpi slt, %iv, %ub ; cf.cond_br %c, ^t, ^f *)
  | CondBr (t f : nat)                 (* cf.cond_br %cond, ^t, ^f   (scf.if condition) *)
  | Exit.                              (* rest of the function *)
Inductive payload := PNone | PBody | PThen | PElse.
Record block := mkBlock { b_pay : payload; b_term : term }.
Definition cfg := list block.

Variables (thenf elsef : st -> st).
Variables (lb ub step : Z) (cond : bool).

Definition run_payload (p : payload) (iv : Z) (s : st) : st :=
  match p with
  | PNone => s
  | PBody => body iv s
  | PThen => thenf s
  | PElse => elsef s
  end.

Inductive outcome := Next (pc : nat) (iv : Z) (s : st) | Halt (s : st) | Stuck.

Definition cfg_step (g : cfg) (pc : nat) (iv : Z) (s : st) : outcome :=
  match nth_error g pc with
  | None => Stuck
  | Some b =>
      let s' := run_payload (b_pay b) iv s in
      match b_term b with
      | Br t a =>
          Next t (match a with ArgLb => lb | ArgStepped => iv + step | ArgSame => iv end) s'
      | CmpSltCondBr t f => Next (if iv <? ub then t else f) iv s'
      | CondBr t f => Next (if cond then t else f) iv s'
      | Exit => Halt s'
      end
  end.

Inductive rres := RDone (s : st) | RFuel | RStuck.

Fixpoint cfg_run (fuel : nat) (g : cfg) (pc : nat) (iv : Z) (s : st) : rres :=
  match fuel with
  | O => RFuel
  | S f =>
      match cfg_step g pc iv s with
      | Next pc' iv' s' => cfg_run f g pc' iv' s'
      | Halt s' => RDone s'
      | Stuck => RStuck
      end
  end.

(* ForLowering: [init_block; condition_block; first_body_block; end_block] *)
Definition lower_for : cfg :=
  [ mkBlock PNone (Br 1 ArgLb);
    mkBlock PNone (CmpSltCondBr 2 3);
    mkBlock PBody (Br 1 ArgStepped);
    mkBlock PNone Exit ].

(* IfLowering: [condition_block; then; (else); (continue_block when the if has results); remaining] *)
Definition lower_if (has_else has_results : bool) : cfg :=
  let n_then := 1%nat in
  let n_else := 2%nat in
  let n_cont := if has_else then 3%nat else 2%nat in
  [ mkBlock PNone (CondBr n_then (if has_else then n_else else n_cont)) ;
    mkBlock PThen (Br n_cont ArgSame) ]
  ++ (if has_else then [ mkBlock PElse (Br n_cont ArgSame) ] else [])
  ++ (if has_results then [ mkBlock PNone (Br (S n_cont) ArgSame) ] else [])
  ++ [ mkBlock PNone Exit ].

Definition if_sem (has_else : bool) (s : st) : st :=
  if cond then thenf s else if has_else then elsef s else s.

End Kernel.

(* ------------------------------------------------------------------ scf-for-loop-range-folding *)
Inductive fkind := FAdd | FMul | FOther.
(* one link of the use chain hanging off the induction variable:
   l_uses = number of uses of the incoming value (the iv for the first link, the previous link's
   result afterwards); l_kind = the kind of its (first) user; l_foldable = the other operand is
   defined outside the loop; l_c = the run-time value of that other operand *)
Record link := mkLink { l_uses : nat; l_kind : fkind; l_foldable : bool; l_c : Z }.

Definition range3 := (Z * Z * Z)%type.   (* lb, ub, step *)

Definition fold_one (k : fkind) (c : Z) (r : range3) : range3 :=
  let '(lb, ub, step) := r in
  match k with
  | FAdd => (lb + c, ub + c, step)
  | FMul => (lb * c, ub * c, step * c)
  | FOther => r
  end.

(* the `while True` loop of ScfForLoopRangeFolding.match_and_rewrite; returns the new range and how
   many links were folded *)
Fixpoint fold_pass (ls : list link) (r : range3) (n : nat) : range3 * nat :=
  match ls with
  | [] => (r, n)
  | l :: rest =>
      if negb (Nat.eqb (l_uses l) 1) then (r, n)
      else match l_kind l with
           | FOther => (r, n)
           | k => if negb (l_foldable l) then (r, n)
                  else fold_pass rest (fold_one k (l_c l) r) (S n)
           end
  end.

(* what the loop body computes from the iv through the first n links (before folding) *)
Definition apply_link (l : link) (v : Z) : Z :=
  match l_kind l with FAdd => v + l_c l | FMul => v * l_c l | FOther => v end.
Definition apply_chain (ls : list link) (v : Z) : Z := fold_left (fun a l => apply_link l a) ls v.

(* ------------------------------------------------------------------ scf-for-loop-flatten *)
Inductive usekind :=
  | UNone          (* neither induction variable is used *)
  | UAddBoth       (* each used exactly once, by the same arith.addi *)
  | UOther.        (* any other use pattern *)
Inductive flat_res := FNoFire | FFire (lb ub step : Z) | FRaise | FFireTrap.

(* arith.ceildivsi on mathematical integers: ceil(a / b); None = division by zero at run time *)
Definition cdiv (a b : Z) : option Z := if b =? 0 then None else Some (- ((- a) / b)).

(* repaired code (commits 1ebef56, 51aee64).
   unused induction variables: new ub = ceildivsi(ub, step) * (max(0, ceil((iu-il)/is)) * step) *)
Definition unused_new_ub (o_ub os il iu is_ : Z) : Z :=
  (- ((- o_ub) / os)) * (Z.max 0 (- ((il - iu) / is_)) * os).
(* fused addi: ub is kept only when lb and ub are constants and (ub <= lb or (ub-lb) % step == 0);
   otherwise new ub = lb + ceildivsi(ub - lb, step) * step *)
Definition used_rounded_ub (o_lb o_ub os : Z) : option Z :=
  match cdiv (o_ub - o_lb) os with None => None | Some c => Some (o_lb + c * os) end.

(* structural preconditions are booleans supplied by the case (perfect nest, iter_args wiring);
   inner lb / inner ub / outer step / inner step are `option Z` (None = not an arith.constant);
   the outer lb is a value plus a flag "is an arith.constant"; outer ub is any value. *)
Definition flatten_model (perfect iter_ok : bool)
    (o_lb : Z) (o_lb_const : bool) (o_ub : Z) (o_ub_const : bool) (o_step : option Z)
    (i_lb i_ub i_step : option Z) (u : usekind) : flat_res :=
  if negb perfect then FNoFire else
  if negb iter_ok then FNoFire else
  match i_lb, i_ub, o_step, i_step with
  | Some il, Some iu, Some os, Some is_ =>
      match u with
      | UNone =>
          if negb o_lb_const then FNoFire else
          if negb (o_lb =? 0) then FNoFire else
          if (is_ <=? 0) || (os <=? 0) then FNoFire
          else FFire o_lb (unused_new_ub o_ub os il iu is_) os
      | UAddBoth | UOther =>
          if negb (il =? 0) then FNoFire else
          if negb (iu =? os) then FNoFire else
          if is_ =? 0 then FRaise        (* ZeroDivisionError in `%` *)
          else if negb (os mod is_ =? 0) then FNoFire else
          match u with
          | UAddBoth =>
              let rounded := match used_rounded_ub o_lb o_ub os with
                             | None => FFireTrap           (* ceildivsi by 0 when the new bound is computed *)
                             | Some ub' => FFire o_lb ub' is_
                             end in
              if o_lb_const && o_ub_const then
                if o_lb <? o_ub then
                  if os =? 0 then FRaise      (* ZeroDivisionError in `(ub_c - lb_c) % outer_step` *)
                  else if negb ((o_ub - o_lb) mod os =? 0) then rounded
                  else FFire o_lb o_ub is_
                else FFire o_lb o_ub is_
              else rounded
          | _ => FNoFire
          end
      end
  | _, _, _, _ => FNoFire
  end.

(* the code BEFORE the repairs (kept for the recorded refutations) *)
Definition flatten_model_old (perfect iter_ok : bool)
    (o_lb : Z) (o_lb_const : bool) (o_ub : Z) (o_step : option Z)
    (i_lb i_ub i_step : option Z) (u : usekind) : flat_res :=
  if negb perfect then FNoFire else
  if negb iter_ok then FNoFire else
  match i_lb, i_ub, o_step, i_step with
  | Some il, Some iu, Some os, Some is_ =>
      match u with
      | UNone =>
          if negb o_lb_const then FNoFire else
          if negb (o_lb =? 0) then FNoFire else
          if is_ =? 0 then FRaise        (* ZeroDivisionError in `//` *)
          else FFire o_lb (o_ub * ((iu - il) / is_)) os
      | UAddBoth | UOther =>
          if negb (il =? 0) then FNoFire else
          if negb (iu =? os) then FNoFire else
          if is_ =? 0 then FRaise        (* ZeroDivisionError in `%` *)
          else if negb (os mod is_ =? 0) then FNoFire else
          match u with UAddBoth => FFire o_lb o_ub is_ | _ => FNoFire end
      end
  | _, _, _, _ => FNoFire
  end.

(* ------------------------------------------------------------------ scf-for-loop-unroll *)
(* Python range(lb, ub, step): None = ValueError (step = 0) *)
Fixpoint range_from (n : nat) (v step : Z) : list Z :=
  match n with O => [] | S n' => v :: range_from n' (v + step) step end.
Definition py_range (lb ub step : Z) : option (list Z) :=
  if step =? 0 then None
  else if 0 <? step
       then Some (range_from (Z.to_nat (if lb <? ub then (ub - lb + step - 1) / step else 0)) lb step)
       else Some (range_from (Z.to_nat (if ub <? lb then (lb - ub - step - 1) / (- step) else 0)) lb step).

Section Unroll.
Variable st : Type.
Variable body : Z -> st -> st.
Definition unroll_sem (ivs : list Z) (s : st) : st := fold_left (fun a i => body i a) ivs s.
End Unroll.

(* scf.yield with several loop-carried values is a SIMULTANEOUS assignment: position j of the next
   tuple is `new` (a value computed in this iteration) when sel_j = -1, otherwise the CURRENT value
   of carried position sel_j.  UnrollLoopPattern realises it by building the tuple of the next
   iteration's values from the value map of the current iteration (`iter_args = tuple(...)`). *)
Definition yield_sim (sel : list Z) (vals : list Z) (new : Z) : list Z :=
  map (fun sj => if sj <? 0 then new else nth (Z.to_nat sj) vals 0) sel.
(* what a one-position-after-another overwrite would compute instead (NOT the semantics; kept to
   show that the two differ on permuting yields) *)
Fixpoint set_nth (j : nat) (v : Z) (l : list Z) : list Z :=
  match l, j with
  | [], _ => []
  | _ :: r, O => v :: r
  | x :: r, S j' => x :: set_nth j' v r
  end.
Definition yield_seq (sel : list Z) (vals : list Z) (new : Z) : list Z :=
  fst (fold_left (fun (acc : list Z * nat) sj =>
                    let '(cur, j) := acc in
                    (set_nth j (if sj <? 0 then new else nth (Z.to_nat sj) cur 0) cur, S j))
                 sel (vals, O)).

(* ------------------------------------------------------------------ licm *)
(* op kinds that the generated loop bodies contain; the table mirrors the traits declared in
   xdsl/dialects/{arith,func,memref}.py as read by is_side_effect_free / is_speculatable *)
Inductive opkind :=
  | KAddi | KSubi | KMuli            (* Pure *)
  | KDivsi                           (* NoMemoryEffect + ConditionallySpeculatable: constant rhs not in {0,-1} *)
  | KRemsi | KFloordivsi | KCeildivsi  (* declared Pure (always speculatable) *)
  | KRemui                           (* no traits: unknown effects *)
  | KCall.                           (* func.call: unknown effects *)

(* rhs_const: Some c when the second operand is an arith.constant *)
Definition hoistable_kind (k : opkind) (rhs_const : option Z) : bool :=
  match k with
  | KAddi | KSubi | KMuli => true
  | KDivsi => match rhs_const with
              | Some c => negb (c =? 0) && negb (c =? -1)
              | None => false
              end
  | KRemsi | KFloordivsi | KCeildivsi => true
  | KRemui | KCall => false
  end.

(* run-time behaviour of the integer ops on mathematical integers (no wrap-around: the kernels are
   used on values far from 2^63); None = division by zero (undefined behaviour / interpreter assert) *)
Definition op_eval (k : opkind) (a b : Z) : option Z :=
  match k with
  | KAddi => Some (a + b)
  | KSubi => Some (a - b)
  | KMuli => Some (a * b)
  | KDivsi => if b =? 0 then None else Some (Z.quot a b)
  | KRemsi => if b =? 0 then None else Some (Z.rem a b)
  | KFloordivsi => if b =? 0 then None else Some (a / b)
  | KCeildivsi => if b =? 0 then None else Some (- ((- a) / b))
  | KRemui | KCall => None
  end.

(* operand of a body op *)
Inductive oref :=
  | OOut           (* defined outside the loop (function argument, constant before the loop) *)
  | OLoop          (* induction variable or iter_arg: block argument of the loop body *)
  | OOp (j : nat). (* result of body op number j *)
Record bop := mkBop { o_kind : opkind; o_a : oref; o_b : oref; o_rhs_const : option Z }.

Definition oref_outside (moved : list nat) (r : oref) : bool :=
  match r with
  | OOut => true
  | OLoop => false
  | OOp j => existsb (Nat.eqb j) moved
  end.

Definition can_hoist (ops : list bop) (moved : list nat) (i : nat) : bool :=
  match nth_error ops i with
  | None => false
  | Some o =>
      hoistable_kind (o_kind o) (o_rhs_const o)
      && oref_outside moved (o_a o) && oref_outside moved (o_b o)
  end.

(* users of op i inside the loop body, in use-list order is not modelled: the result (order in which
   ops are hoisted) does not depend on it for bodies in SSA order, see proofs *)
Definition users (ops : list bop) (i : nat) : list nat :=
  filter (fun j => match nth_error ops j with
                   | Some o => (match o_a o with OOp k => Nat.eqb k i | _ => false end)
                               || (match o_b o with OOp k => Nat.eqb k i | _ => false end)
                   | None => false end) (seq 0 (length ops)).

(* _move_loop_invariant_code: worklist (deque) of op indices, `moved` in hoisting order *)
Fixpoint licm_loop (fuel : nat) (ops : list bop) (wl : list nat) (moved : list nat) : option (list nat) :=
  match fuel with
  | O => None
  | S f =>
      match wl with
      | [] => Some moved
      | i :: rest =>
          if existsb (Nat.eqb i) moved then licm_loop f ops rest moved
          else if can_hoist ops moved i
               then licm_loop f ops (rest ++ users ops i) (moved ++ [i])
               else licm_loop f ops rest moved
      end
  end.
Definition licm_pass (ops : list bop) : option (list nat) :=
  let n := length ops in
  licm_loop (S (n + n * n)) ops (seq 0 n) [].

(* LICM kernel: the loop body uses the value of one loop-invariant op whose evaluation may trap *)
Section Licm.
Variable st : Type.
Variable body_v : Z -> Z -> st -> st.   (* value of the invariant op, iv, state *)
(* original loop, op evaluated inside the body in every iteration: None = trapped *)
Fixpoint licm_orig (n : nat) (opv : option Z) (iv step : Z) (s : st) : option st :=
  match n with
  | O => Some s
  | S n' => match opv with
            | None => None
            | Some v => licm_orig n' opv (iv + step) step (body_v v iv s)
            end
  end.
(* after hoisting: op evaluated once before the loop *)
Definition licm_hoisted (n : nat) (opv : option Z) (iv step : Z) (s : st) : option st :=
  match opv with
  | None => None
  | Some v => Some (iter_from st (body_v v) n iv step s)
  end.
End Licm.

(* ------------------------------------------------------------------ lower-affine (expressions) *)
Inductive aexpr :=
  | AConst (c : Z) | ADim (i : nat) | ASym (i : nat)
  | AAdd (a b : aexpr) | AMul (a b : aexpr)
  | AMod (a b : aexpr) | AFloorDiv (a b : aexpr) | ACeilDiv (a b : aexpr).

(* affine semantics (xdsl.ir.affine.AffineExpr.eval: Python `%`, `//`, -(-a // b)); None = division by zero *)
Fixpoint aff_eval (e : aexpr) (dims syms : list Z) : option Z :=
  let bin (f : Z -> Z -> option Z) a b :=
    match aff_eval a dims syms, aff_eval b dims syms with
    | Some x, Some y => f x y
    | _, _ => None
    end in
  match e with
  | AConst c => Some c
  | ADim i => nth_error dims i
  | ASym i => nth_error syms i
  | AAdd a b => bin (fun x y => Some (x + y)) a b
  | AMul a b => bin (fun x y => Some (x * y)) a b
  | AMod a b => bin (fun x y => if y =? 0 then None else Some (x mod y)) a b
  | AFloorDiv a b => bin (fun x y => if y =? 0 then None else Some (x / y)) a b
  | ACeilDiv a b => bin (fun x y => if y =? 0 then None else Some (- ((- x) / y))) a b
  end.

(* value computed by the arith ops that affine_expr_ops emits: Mod -> arith.remsi (truncated),
   FloorDiv -> arith.floordivsi, CeilDiv -> arith.ceildivsi *)
Fixpoint lower_eval (e : aexpr) (dims syms : list Z) : option Z :=
  let bin (k : opkind) a b :=
    match lower_eval a dims syms, lower_eval b dims syms with
    | Some x, Some y => op_eval k x y
    | _, _ => None
    end in
  match e with
  | AConst c => Some c
  | ADim i => nth_error dims i
  | ASym i => nth_error syms i
  | AAdd a b => bin KAddi a b
  | AMul a b => bin KMuli a b
  | AMod a b => bin KRemsi a b
  | AFloorDiv a b => bin KFloordivsi a b
  | ACeilDiv a b => bin KCeildivsi a b
  end.

(* number of arith ops emitted (constants included), for the shape comparison *)
Fixpoint lower_ops (e : aexpr) : list Z :=
  match e with
  | AConst _ => [0]
  | ADim _ | ASym _ => []
  | AAdd a b => lower_ops a ++ lower_ops b ++ [1]
  | AMul a b => lower_ops a ++ lower_ops b ++ [2]
  | AMod a b => lower_ops a ++ lower_ops b ++ [3]
  | AFloorDiv a b => lower_ops a ++ lower_ops b ++ [4]
  | ACeilDiv a b => lower_ops a ++ lower_ops b ++ [5]
  end.

(* ================================================================== convert-scf-to-cf: scf.index_switch *)
(* arith.index_cast index -> i32: signed truncation to 32 bits *)
Definition trunc32 (z : Z) : Z :=
  let m := z mod 4294967296 in if m <? 2147483648 then m else m - 4294967296.

Section SwitchK.
Variable st : Type.
Variable casef : nat -> st -> st.   (* region i of the switch; i = number of cases is the default region *)
Inductive sterm :=
  | SSwitch (d : nat) (cs : list (Z * nat))   (* %v = index_cast %arg : index to i32 ; cf.switch %v [default ^d, c: ^t ...] *)
  | SBr (t : nat)
  | SExit.
Record sblock := mkSBlock { sb_pay : option nat; sb_term : sterm }.

Fixpoint sw_lookup (v : Z) (cs : list (Z * nat)) (d : nat) : nat :=
  match cs with
  | [] => d
  | (c, t) :: r => if v =? c then t else sw_lookup v r d
  end.

Fixpoint sw_run (fuel : nat) (g : list sblock) (arg : Z) (pc : nat) (s : st) : rres st :=
  match fuel with
  | O => RFuel st
  | S f =>
      match nth_error g pc with
      | None => RStuck st
      | Some b =>
          let s' := match sb_pay b with Some i => casef i s | None => s end in
          match sb_term b with
          | SSwitch d cs => sw_run f g arg (sw_lookup (trunc32 arg) cs d) s'
          | SBr t => sw_run f g arg t s'
          | SExit => RDone st s'
          end
      end
  end.

(* SwitchLowering: [condition_block; case blocks in order; default block; continue_block] *)
Definition lower_switch (cases : list Z) : list sblock :=
  let n := length cases in
  mkSBlock None (SSwitch (S n) (combine cases (seq 1 n)))
  :: map (fun i => mkSBlock (Some i) (SBr (n + 2))) (seq 0 n)
  ++ [mkSBlock (Some n) (SBr (n + 2)); mkSBlock None SExit].

Fixpoint case_idx (v : Z) (cases : list Z) : option nat :=
  match cases with
  | [] => None
  | c :: r => if v =? c then Some O else option_map S (case_idx v r)
  end.
(* scf.index_switch: the region of the first case equal to the (index) argument, else the default *)
Definition switch_sem (cases : list Z) (arg : Z) (s : st) : st :=
  match case_idx arg cases with Some i => casef i s | None => casef (length cases) s end.
End SwitchK.

(* ================================================================== control-flow-hoist *)
(* SCFIfHoistPattern: when the scf.if is speculatable and side-effect free (recursively: every op of
   both branches is), ALL non-terminator ops of the then- and else-region are cloned in front of the
   if (then-ops first) -- nothing is hoisted otherwise.  (The CSE run that follows is not modelled.) *)
Definition cfh_pass (then_ops else_ops : list (opkind * option Z)) : bool :=
  forallb (fun o => hoistable_kind (fst o) (snd o)) (then_ops ++ else_ops).

Section Cfh.
Variable st : Type.
(* each branch evaluates one op whose operands are defined outside the if (value None = it traps),
   then continues with the value *)
Variables (thenk elsek : Z -> st -> st).
Definition cfh_orig (thenv elsev : option Z) (c : bool) (s : st) : option st :=
  if c then option_map (fun v => thenk v s) thenv else option_map (fun v => elsek v s) elsev.
Definition cfh_hoisted (thenv elsev : option Z) (c : bool) (s : st) : option st :=
  match thenv, elsev with
  | Some a, Some b => Some (if c then thenk a s else elsek b s)
  | _, _ => None
  end.
End Cfh.

(* ================================================================== lower-affine: for / load / store *)
Fixpoint aexpr_closed (e : aexpr) : bool :=
  match e with
  | AConst _ => true
  | ADim _ | ASym _ => false
  | AAdd a b | AMul a b | AMod a b | AFloorDiv a b | ACeilDiv a b => aexpr_closed a && aexpr_closed b
  end.
Fixpoint aexpr_has_sym (e : aexpr) : bool :=
  match e with
  | AConst _ | ADim _ => false
  | ASym _ => true
  | AAdd a b | AMul a b | AMod a b | AFloorDiv a b | ACeilDiv a b => aexpr_has_sym a || aexpr_has_sym b
  end.

Inductive laf_res := LRaise (code : Z) | LFor (lb ub step : Z) | LTrap.
(* LowerAffineFor: both bound maps must have exactly one result (assert), which is lowered with NO
   dims and NO symbols (an expression mentioning one raises IndexError); step is the attribute *)
Definition lower_affine_for (lbs ubs : list aexpr) (step : Z) : laf_res :=
  match lbs, ubs with
  | [lb], [ub] =>
      if negb (aexpr_closed lb) || negb (aexpr_closed ub) then LRaise 5
      else match lower_eval lb [] [], lower_eval ub [] [] with
           | Some l, Some u => LFor l u step
           | _, _ => LTrap
           end
  | _, _ => LRaise 6
  end.
(* affine.for with single constant-expression bounds *)
Definition affine_for_bounds (lb ub : aexpr) : option (Z * Z) :=
  match aff_eval lb [] [], aff_eval ub [] [] with Some l, Some u => Some (l, u) | _, _ => None end.

(* LowerAffineLoad / LowerAffineStore: every map result is lowered over dims = the index operands and
   NO symbols; None = a division by zero when the index is computed *)
Definition lower_index_map (results : list aexpr) (dims : list Z) : list (option Z) :=
  map (fun e => lower_eval e dims []) results.
Definition affine_index_map (results : list aexpr) (dims : list Z) : list (option Z) :=
  map (fun e => aff_eval e dims []) results.

(* ================================================================== frontend-desymrefy (single block) *)
(* values: defined outside the symref ops (constants, arguments, results of other ops) or the result
   of a symref.fetch *)
Inductive sval := VOut (n : nat) | VFetch (r : nat).
Inductive sop :=
  | SDeclare (s : nat)
  | SUpdate (s : nat) (v : sval)
  | SFetch (s : nat) (r : nat)
  | SUse (id : nat) (args : list sval).     (* any other op: defines VOut id, uses args *)

Definition sval_eqb (a b : sval) : bool :=
  match a, b with
  | VOut x, VOut y => Nat.eqb x y
  | VFetch x, VFetch y => Nat.eqb x y
  | _, _ => false
  end.
Definition subst_val (r : nat) (v : sval) (x : sval) : sval :=
  match x with VFetch r' => if Nat.eqb r r' then v else x | _ => x end.
(* Rewriter.replace_op(read r, [], [v]): erase the fetch, every use of its result becomes v *)
Definition replace_fetch (r : nat) (v : sval) (ops : list sop) : list sop :=
  flat_map (fun o => match o with
                     | SFetch _ r' => if Nat.eqb r r' then [] else [o]
                     | SUpdate s x => [SUpdate s (subst_val r v x)]
                     | SUse id args => [SUse id (map (subst_val r v) args)]
                     | SDeclare _ => [o]
                     end) ops.
Definition erase_updates_of (s : nat) (keep_last : bool) (ops : list sop) : list sop :=
  let n := length (filter (fun o => match o with SUpdate s' _ => Nat.eqb s s' | _ => false end) ops) in
  snd (fold_left (fun (acc : nat * list sop) o =>
                    let '(k, out) := acc in
                    match o with
                    | SUpdate s' _ =>
                        if Nat.eqb s s'
                        then (S k, if keep_last && Nat.eqb (S k) n then out ++ [o] else out)
                        else (k, out ++ [o])
                    | _ => (k, out ++ [o])
                    end) ops (O, [])).
Definition erase_declare (s : nat) (ops : list sop) : list sop :=
  filter (fun o => match o with SDeclare s' => negb (Nat.eqb s s') | _ => true end) ops.

Definition reads_of (s : nat) (ops : list sop) : list nat :=
  flat_map (fun o => match o with SFetch s' r => if Nat.eqb s s' then [r] else [] | _ => [] end) ops.
Definition writes_of (s : nat) (ops : list sop) : list sval :=
  flat_map (fun o => match o with SUpdate s' v => if Nat.eqb s s' then [v] else [] | _ => [] end) ops.
(* lower_positional_bound: operand of the nearest update of s that precedes fetch r (the binary
   search over operation indices is modelled by its specification) *)
Fixpoint last_write_before (s r : nat) (ops : list sop) (cur : option sval) : option sval :=
  match ops with
  | [] => None
  | SFetch s' r' :: rest => if Nat.eqb r r' then cur else last_write_before s r rest cur
  | SUpdate s' v :: rest => last_write_before s r rest (if Nat.eqb s s' then Some v else cur)
  | _ :: rest => last_write_before s r rest cur
  end.
(* one round of "replace every read with the closest preceding write" *)
Definition forward_reads (s : nat) (ops : list sop) : list sop :=
  fold_left (fun cur r => match last_write_before s r cur None with
                          | Some v => replace_fetch r v cur
                          | None => cur
                          end) (reads_of s ops) ops.

Inductive dres := DOk (ops : list sop) | DLoop.    (* DLoop: `while definitions` never terminates *)

(* prune_definitions: one pass of the inner `for definition in definitions` for symbol s *)
Definition prune_one (s : nat) (ops : list sop) : list sop :=
  let reads := reads_of s ops in
  let writes := writes_of s ops in
  match reads with
  | [] => erase_declare s (erase_updates_of s false ops)
  | _ =>
      match writes with
      | [w] => erase_declare s (erase_updates_of s false
                 (fold_left (fun cur r => match writes_of s cur with
                                          | w' :: _ => replace_fetch r w' cur
                                          | [] => cur
                                          end) reads ops))
      | _ => forward_reads s ops
      end
  end.
Definition declared (ops : list sop) : list nat :=
  flat_map (fun o => match o with SDeclare s => [s] | _ => [] end) ops.
Fixpoint prune_definitions (fuel : nat) (ops : list sop) : dres :=
  match fuel with
  | O => DLoop
  | S f =>
      match declared ops with
      | [] => DOk ops
      | ds => prune_definitions f (fold_left (fun cur s => prune_one s cur) ds ops)
      end
  end.

(* the reference: one left-to-right walk that remembers the current value of every declared symbol *)
Fixpoint sym_lookup (s : nat) (m : list (nat * sval)) : option sval :=
  match m with [] => None | (s', v) :: r => if Nat.eqb s s' then Some v else sym_lookup s r end.
Fixpoint val_lookup (r : nat) (m : list (nat * sval)) : option sval :=
  match m with [] => None | (r', v) :: t => if Nat.eqb r r' then Some v else val_lookup r t end.
Definition resolve (fm : list (nat * sval)) (x : sval) : sval :=
  match x with VFetch r => match val_lookup r fm with Some v => v | None => x end | _ => x end.
(* forward ops sm fm: sm = symbol -> current value, fm = forwarded fetch -> value; emits the surviving ops *)
Fixpoint forward (ops : list sop) (sm fm : list (nat * sval)) : list sop :=
  match ops with
  | [] => []
  | SDeclare s :: rest => forward rest sm fm
  | SUpdate s v :: rest => forward rest ((s, resolve fm v) :: sm) fm
  | SFetch s r :: rest =>
      match sym_lookup s sm with
      | Some v => forward rest sm ((r, v) :: fm)
      | None => SFetch s r :: forward rest sm fm
      end
  | SUse id args :: rest => SUse id (map (resolve fm) args) :: forward rest sm fm
  end.

(* SSA discipline of a block: a fetch / op result id is defined once and never mentioned before its
   definition (`seen` = values mentioned so far) *)
Definition mentions_f (r : nat) (v : sval) : bool := match v with VFetch r' => Nat.eqb r r' | _ => false end.
Definition mentions_u (n : nat) (v : sval) : bool := match v with VOut n' => Nat.eqb n n' | _ => false end.
Fixpoint wf_block (ops : list sop) (seen : list sval) : bool :=
  match ops with
  | [] => true
  | SDeclare _ :: r => wf_block r seen
  | SUpdate _ v :: r => wf_block r (v :: seen)
  | SFetch _ x :: r => negb (existsb (mentions_f x) seen) && wf_block r (VFetch x :: seen)
  | SUse id args :: r => negb (existsb (mentions_u id) (args ++ seen)) && wf_block r (VOut id :: args ++ seen)
  end.


(* ---- prune_uses_without_definitions: symbols that are NOT declared in the block (cells of an
   enclosing scope): at most the first fetch and the last update survive ---------------------------- *)
Definition uses_fetch (r : nat) (ops : list sop) : bool :=
  existsb (fun o => match o with
                    | SUpdate _ v => mentions_f r v
                    | SUse _ args => existsb (mentions_f r) args
                    | _ => false
                    end) ops.
Definition prune_unused_reads (ops : list sop) : list sop :=
  filter (fun o => match o with SFetch _ r => uses_fetch r ops | _ => true end) ops.
Definition symbols_of (ops : list sop) : list nat :=
  nodup Nat.eq_dec (flat_map (fun o => match o with
                                       | SDeclare s | SUpdate s _ | SFetch s _ => [s]
                                       | SUse _ _ => []
                                       end) ops).
(* position of the last fetch / first update of s (None when there is none) *)
Fixpoint last_read_pos (s : nat) (ops : list sop) (i : nat) (acc : option nat) : option nat :=
  match ops with
  | [] => acc
  | SFetch s' _ :: r => last_read_pos s r (S i) (if Nat.eqb s s' then Some i else acc)
  | _ :: r => last_read_pos s r (S i) acc
  end.
Fixpoint first_write_pos (s : nat) (ops : list sop) (i : nat) : option nat :=
  match ops with
  | [] => None
  | SUpdate s' _ :: r => if Nat.eqb s s' then Some i else first_write_pos s r (S i)
  | _ :: r => first_write_pos s r (S i)
  end.
(* one symbol of the worklist; the flag says whether it is now `prepared` *)
Definition prepare_symbol (s : nat) (ops : list sop) : list sop * bool :=
  let dedupe r0 rest cur := fold_left (fun c r => replace_fetch r (VFetch r0) c) rest cur in
  match reads_of s ops, writes_of s ops with
  | [], _ => (erase_updates_of s true ops, true)
  | r0 :: rest, [] => (dedupe r0 rest ops, true)
  | r0 :: rest, _ :: _ =>
      match last_read_pos s ops 0 None, first_write_pos s ops 0 with
      | Some lr, Some fw =>
          if Nat.ltb lr fw then (erase_updates_of s true (dedupe r0 rest ops), true)
          else (forward_reads s ops, false)
      | _, _ => (ops, true)
      end
  end.
Fixpoint prune_uses (fuel : nat) (ops : list sop) (prepared : list nat) : dres :=
  match fuel with
  | O => DLoop
  | S f =>
      let ops1 := prune_unused_reads ops in
      match filter (fun s => negb (existsb (Nat.eqb s) prepared)) (symbols_of ops1) with
      | [] => DOk ops1
      | wl =>
          let '(ops2, prep2) :=
            fold_left (fun (acc : list sop * list nat) s =>
                         let '(cur, prep) := acc in
                         let '(cur', done) := prepare_symbol s cur in
                         (cur', if done then s :: prep else prep)) wl (ops1, prepared) in
          prune_uses f ops2 prep2
      end
  end.
(* prepare_block on a block without nested regions *)
Definition desym_block (ops : list sop) : dres :=
  match prune_definitions 40 ops with
  | DLoop => DLoop
  | DOk r => prune_uses 40 r []
  end.

(* reference for blocks that also use symbols of an enclosing scope: a fetch that cannot be forwarded
   stays and from then on IS the known content of the cell; of the updates of such a symbol only the
   last one stays (with its operand resolved) *)
Definition later_update (s : nat) (ops : list sop) : bool :=
  existsb (fun o => match o with SUpdate s' _ => Nat.eqb s s' | _ => false end) ops.
Fixpoint forward2 (decl : list nat) (ops : list sop) (sm fm : list (nat * sval)) : list sop :=
  match ops with
  | [] => []
  | SDeclare s :: rest => forward2 decl rest sm fm
  | SUpdate s v :: rest =>
      let v' := resolve fm v in
      if existsb (Nat.eqb s) decl || later_update s rest
      then forward2 decl rest ((s, v') :: sm) fm
      else SUpdate s v' :: forward2 decl rest ((s, v') :: sm) fm
  | SFetch s r :: rest =>
      match sym_lookup s sm with
      | Some v => forward2 decl rest sm ((r, v) :: fm)
      | None => SFetch s r :: forward2 decl rest ((s, VFetch r) :: sm) fm
      end
  | SUse id args :: rest => SUse id (map (resolve fm) args) :: forward2 decl rest sm fm
  end.

(* ---- reference semantics of a single block with symbols: a store of cells --------------------------- *)
Definition fenv := nat -> option Z.
Definition upd (f : fenv) (k : nat) (z : Z) : fenv := fun k' => if Nat.eqb k' k then Some z else f k'.
Section SymSem.
Variable outv : nat -> Z.                 (* values defined outside the block (constants, arguments) *)
Variable usef : nat -> list Z -> Z.       (* what the op with result id computes from its operand values *)
Variable init : nat -> Z.                 (* content of a symbol's cell on entry (symbols of an outer scope) *)
Definition sym_valof (fe ue : fenv) (v : sval) : Z :=
  match v with
  | VOut n => match ue n with Some z => z | None => outv n end
  | VFetch r => match fe r with Some z => z | None => 0 end
  end.
Definition sym_cell (sy : fenv) (s : nat) : Z := match sy s with Some z => z | None => init s end.
(* the observable result: the values the non-symref ops compute, in order *)
Fixpoint sym_run (ops : list sop) (sy fe ue : fenv) : list (nat * Z) :=
  match ops with
  | [] => []
  | SDeclare _ :: r => sym_run r sy fe ue
  | SUpdate s v :: r => sym_run r (upd sy s (sym_valof fe ue v)) fe ue
  | SFetch s x :: r => sym_run r sy (upd fe x (sym_cell sy s)) ue
  | SUse id args :: r =>
      let z := usef id (map (sym_valof fe ue) args) in (id, z) :: sym_run r sy fe (upd ue id z)
  end.
(* content of the cells after the block *)
Fixpoint sym_final (ops : list sop) (sy fe ue : fenv) : fenv :=
  match ops with
  | [] => sy
  | SDeclare _ :: r => sym_final r sy fe ue
  | SUpdate s v :: r => sym_final r (upd sy s (sym_valof fe ue v)) fe ue
  | SFetch s x :: r => sym_final r sy (upd fe x (sym_cell sy s)) ue
  | SUse id args :: r => sym_final r sy fe (upd ue id (usef id (map (sym_valof fe ue) args)))
  end.
End SymSem.
